/-
Continuing after a crash, part 2a: THE WEAK MEDIUM INVARIANT `MedW` AND THE MEDIUM-LEVEL FACTS `delete_file_in_dir` NEEDS.

`MedW cb v d files gh X` is `Spec.Volume.MedFault v d files gh X` with the witness `cb` of its clause `tree` made a
parameter (`medFault_iff_medW`): `MedX` (`Lemmas/VolMed.lean`) with `TreeOK` taken at `cb` bytes per cluster instead of
`clusterBytesLen v`, and `FileLoose` (no `size_fits`) instead of `FileOK`.

Everything below the definition is a RESTATEMENT of a lemma of `Lemmas/VolMed*.lean` for `MedW cb` instead of `MedX`
(name of the original + `W`; `medX_…` ↦ `medW_…`, `fileOK_…` ↦ `fileLoose_…`).  The proofs are the original proofs,
verbatim, unless noted `-- CHANGED`.
-/
import Sdmmc.Spec.VolumeFault
import Sdmmc.Lemmas.VolMed5

namespace Sdmmc.Lemmas.CrashContDelete
open Sdmmc.Model Sdmmc.Model.Fat Sdmmc.Spec Sdmmc.Spec.Volume Sdmmc.Lemmas.VolBase Sdmmc.Lemmas.VolTree
open Sdmmc.Lemmas.VolDisk Sdmmc.Lemmas.VolMed

/-- `MedFault` with the bytes-per-cluster witness of its `tree` clause made explicit. -/
structure MedW (cb : Nat) (v : FatVolume) (d : Disk) (files : List FileInfo) (gh : Ghost) (X : List (List Nat)) : Prop where
  blocksOK : BlocksOK d
  geom : WFGeom v
  hint : HintOK v
  owns : Owns v d (gh.G ++ X)
  tree : TreeOK v.fatType cb (rootHead v) gh.G gh.dirs (dirSlots v d gh.G) files
  fileOK : ∀ f, f ∈ files → FileLoose v d f (chainOf gh.G f.entry.cluster) ∧
    (chainOf gh.G f.entry.cluster = [] → f.curCluster < 2)

theorem medFault_iff_medW {v : FatVolume} {d : Disk} {files : List FileInfo} {gh : Ghost} {X : List (List Nat)} :
    MedFault v d files gh X ↔ ∃ cb, MedW cb v d files gh X :=
  ⟨fun h => h.tree.elim fun cb ht => ⟨cb, h.blocksOK, h.geom, h.hint, h.owns, ht, h.fileOK⟩,
   fun ⟨cb, h⟩ => ⟨h.blocksOK, h.geom, h.hint, h.owns, ⟨cb, h.tree⟩, h.fileOK⟩⟩

/-- `MedX` is `MedW` at the volume's own cluster size (with `FileOK` weakened to `FileLoose`). -/
theorem medW_of_medX {v : FatVolume} {d : Disk} {files : List FileInfo} {gh : Ghost} {X : List (List Nat)}
    (h : MedX v d files gh X) : MedW (clusterBytesLen v) v d files gh X :=
  ⟨h.blocksOK, h.geom, h.hint, h.owns, h.tree, fun f hf =>
    ⟨⟨(h.fileOK f hf).1.chain, (h.fileOK f hf).1.pos_le, (h.fileOK f hf).1.cursor⟩, (h.fileOK f hf).2⟩⟩

section
variable {cb : Nat} {v : FatVolume} {d : Disk} {files : List FileInfo} {gh : Ghost} {X : List (List Nat)}

theorem med_headsAllW (hM : MedW cb v d files gh X) : HeadsOK (gh.G ++ X) := heads_of_owns hM.owns

theorem med_headsW (hM : MedW cb v d files gh X) : HeadsOK gh.G := heads_left (med_headsAllW hM)

theorem med_chainW (hM : MedW cb v d files gh X) {cs : List Nat} (hcs : cs ∈ gh.G) : Chain v d (cs.headD 0) cs :=
  hM.owns.1 cs (List.mem_append_left _ hcs)

theorem med_inRangeW (hM : MedW cb v d files gh X) {cs : List Nat} (hcs : cs ∈ gh.G) {c : Nat} (hc : c ∈ cs) : InRange v c :=
  ChainL.chain_inRange (med_chainW hM hcs) c hc

theorem med_chain_nodupW (hM : MedW cb v d files gh X) {cs : List Nat} (hcs : cs ∈ gh.G) : cs.Nodup :=
  ChainL.chain_nodup (med_chainW hM hcs)

/-- Two chains of `G` with different first clusters share no cluster. -/
theorem med_disjointW (hM : MedW cb v d files gh X) {cs cs' : List Nat} (hcs : cs ∈ gh.G ++ X) (hcs' : cs' ∈ gh.G ++ X)
    (hne : cs.headD 0 ≠ cs'.headD 0) : ∀ c, c ∈ cs → c ∉ cs' := by
  have hp := (List.perm_cons_erase hcs).flatten
  have hnd := (hp.nodup_iff).1 hM.owns.2.1
  rw [List.flatten_cons, List.nodup_append] at hnd
  have hm : cs' ∈ (gh.G ++ X).erase cs := (List.mem_erase_of_ne (fun e => hne (by rw [e]))).2 hcs'
  intro c hc hc'
  exact hnd.2.2 c hc c (List.mem_flatten_of_mem hm hc') rfl

/-- The directory numbers other than the FAT16 root name chains of `G`. -/
theorem dirHead_memW (hM : MedW cb v d files gh X) {h : Nat} (hh : h ∈ dirIds gh.dirs) (hf : ¬ isFixedRoot v h) :
    dirHead v h ∈ heads gh.G := by
  unfold dirHead
  by_cases h0 : h = 0
  · rw [if_pos h0]
    have h32 : v.fatType = .fat32 := by
      cases hft : v.fatType with
      | fat16 => exact absurd ⟨h0, hft⟩ hf
      | fat32 => rfl
    apply root_mem_heads hM.tree
    unfold rootHead; rw [h32]; exact List.mem_singleton.2 rfl
  · rw [if_neg h0]
    rcases mem_dirIds.1 hh with h0' | ⟨p, hp⟩
    · exact absurd h0' h0
    · exact dir_mem_heads hM.tree hp

theorem dirChain_specW (hM : MedW cb v d files gh X) {h : Nat} (hh : h ∈ dirIds gh.dirs) (hf : ¬ isFixedRoot v h) :
    chainOf gh.G (dirHead v h) ∈ gh.G ∧ (chainOf gh.G (dirHead v h)).head? = some (dirHead v h) :=
  chainOf_spec (med_headsW hM) (dirHead_memW hM hh hf)

/-- Different directory numbers have different first clusters. -/
theorem dirHead_injW (hM : MedW cb v d files gh X) {h h' : Nat} (hh : h ∈ dirIds gh.dirs) (hh' : h' ∈ dirIds gh.dirs)
    (hf : ¬ isFixedRoot v h) (hf' : ¬ isFixedRoot v h') (hne : h ≠ h') : dirHead v h ≠ dirHead v h' := by
  have hG := med_headsW hM
  unfold dirHead
  by_cases h0 : h = 0
  · by_cases h0' : h' = 0
    · exact absurd (h0.trans h0'.symm) hne
    · rw [if_pos h0, if_neg h0']
      have h32 : v.fatType = .fat32 := by
        cases hft : v.fatType with
        | fat16 => exact absurd ⟨h0, hft⟩ hf
        | fat32 => rfl
      rcases mem_dirIds.1 hh' with e | ⟨p, hp⟩
      · exact absurd e h0'
      · intro e
        refine root_not_dir hM.tree hG (c := v.firstRootDirCluster) ?_ (e ▸ List.mem_map.2 ⟨(h', p), hp, rfl⟩)
        unfold rootHead; rw [h32]; exact List.mem_singleton.2 rfl
  · by_cases h0' : h' = 0
    · rw [if_neg h0, if_pos h0']
      have h32 : v.fatType = .fat32 := by
        cases hft : v.fatType with
        | fat16 => exact absurd ⟨h0', hft⟩ hf'
        | fat32 => rfl
      rcases mem_dirIds.1 hh with e | ⟨p, hp⟩
      · exact absurd e h0
      · intro e
        refine root_not_dir hM.tree hG (c := v.firstRootDirCluster) ?_ (e ▸ List.mem_map.2 ⟨(h, p), hp, rfl⟩)
        unfold rootHead; rw [h32]; exact List.mem_singleton.2 rfl
    · rw [if_neg h0, if_neg h0']; exact hne

/-- The positions of the slots of one directory are distinct. -/
theorem dirSlots_pos_nodupW (hM : MedW cb v d files gh X) {h : Nat} (hh : h ∈ dirIds gh.dirs) (d' : Disk) :
    ((dirSlots v d' gh.G h).map spos).Nodup := by
  by_cases hf : isFixedRoot v h
  · rw [dirSlots_fixed hf]; exact runSlots_pos_nodup _ _ _
  · rw [dirSlots_chain hf]
    obtain ⟨hm, _⟩ := dirChain_specW hM hh hf
    exact chainSlots_pos_nodup hM.geom (med_chain_nodupW hM hm) (fun c hc => med_inRangeW hM hm hc)

/-- Slots of different directories sit at different positions (even on different media). -/
theorem dirSlots_pos_disjointW (hM : MedW cb v d files gh X) {h h' : Nat} (hh : h ∈ dirIds gh.dirs)
    (hh' : h' ∈ dirIds gh.dirs) (hne : h ≠ h') (d1 d2 : Disk) {s t : Slot} (hs : s ∈ dirSlots v d1 gh.G h)
    (ht : t ∈ dirSlots v d2 gh.G h') : spos s ≠ spos t := by
  by_cases hf : isFixedRoot v h
  · have hf' : ¬ isFixedRoot v h' := fun hf' => hne (hf.1.trans hf'.1.symm)
    rw [dirSlots_fixed hf] at hs
    rw [dirSlots_chain hf'] at ht
    obtain ⟨hm, _⟩ := dirChain_specW hM hh' hf'
    exact fixedRoot_chain_pos_disjoint hM.geom hf.2 (fun c hc => med_inRangeW hM hm hc) hs ht
  · by_cases hf' : isFixedRoot v h'
    · rw [dirSlots_chain hf] at hs
      rw [dirSlots_fixed hf'] at ht
      obtain ⟨hm, _⟩ := dirChain_specW hM hh hf
      exact (fixedRoot_chain_pos_disjoint hM.geom hf'.2 (fun c hc => med_inRangeW hM hm hc) ht hs).symm
    · rw [dirSlots_chain hf] at hs
      rw [dirSlots_chain hf'] at ht
      obtain ⟨hm, hhd⟩ := dirChain_specW hM hh hf
      obtain ⟨hm', hhd'⟩ := dirChain_specW hM hh' hf'
      refine chainSlots_pos_disjoint hM.geom (fun c hc => med_inRangeW hM hm hc) (fun c hc => med_inRangeW hM hm' hc)
        (med_disjointW hM (List.mem_append_left _ hm) (List.mem_append_left _ hm') ?_) hs ht
      rw [headD_of_head? hhd, headD_of_head? hhd']
      exact dirHead_injW hM hh hh' hf hf' hne

/-- The block of a directory slot is not a FAT block. -/
theorem dirSlot_not_fatW (hM : MedW cb v d files gh X) {h : Nat} (hh : h ∈ dirIds gh.dirs) {d' : Disk} {s : Slot}
    (hs : s ∈ dirSlots v d' gh.G h) : regionOf v s.1 = .data ∨ regionOf v s.1 = .root := by
  by_cases hf : isFixedRoot v h
  · rw [dirSlots_fixed hf] at hs
    exact .inr (fixedRootSlots_region hM.geom hf.2 hs)
  · rw [dirSlots_chain hf] at hs
    obtain ⟨hm, _⟩ := dirChain_specW hM hh hf
    exact .inl (chainSlots_region hM.geom (fun c hc => med_inRangeW hM hm hc) hs)

theorem fileLoose_congr {v v' : FatVolume} {d d' : Disk} {f : FileInfo} {cs : List Nat} (hs : SameGeom v v')
    (hok : FileLoose v d f cs) (hch : cs ≠ [] → Chain v' d' f.entry.cluster cs) : FileLoose v' d' f cs := by
  -- CHANGED: no `size_fits` clause
  refine ⟨?_, hok.pos_le, ?_⟩
  · rcases hok.chain with h | h
    · exact .inl h
    · exact .inr (hch (ChainL.chain_ne_nil h))
  · rw [WriteRefines.sameGeom_clusterBytesLen hs]; exact hok.cursor

/-- A block holding a directory slot holds no FAT entry. -/
theorem dirBlock_ne_fatW (hM : MedW cb v d files gh X) {h : Nat} (hh : h ∈ dirIds gh.dirs) {d' : Disk} {s : Slot}
    (hs : s ∈ dirSlots v d' gh.G h) (c : Nat) (hc : c < endCluster v) : fatBlock v c ≠ s.1 := by
  intro e
  have hfat := (FatLens.fat_blocks_in_fat_region v hM.geom c hc).1
  rw [e] at hfat
  rcases dirSlot_not_fatW hM hh hs with h1 | h1 <;> rw [h1] at hfat <;> cases hfat

/-- Rewriting block `blk` by a function of its slots that only touches position `k`. -/
theorem dirSlots_set_genW (hM : MedW cb v d files gh X) {h : Nat} (hh : h ∈ dirIds gh.dirs) {pre post : List Slot} {old : Slot}
    (hsp : dirSlots v d gh.G h = pre ++ old :: post) {B' : Block} {f : Slot → Slot} {new : Slot}
    (hblk : blockSlots old.1 B' = (blockSlots old.1 (d.get old.1)).map f)
    (hother : ∀ s : Slot, spos s ≠ spos old → f s = s) (hold : f old = new) :
    dirSlots v (d.set old.1 B') gh.G h = pre ++ new :: post ∧
    (∀ x, x ∈ dirIds gh.dirs → x ≠ h → dirSlots v (d.set old.1 B') gh.G x = dirSlots v d gh.G x) := by
  have hob : ∀ s : Slot, s.1 ≠ old.1 → f s = s := fun s hs => hother s fun e => hs (Prod.mk.inj e).1
  have hgen : ∀ x, dirSlots v (d.set old.1 B') gh.G x = (dirSlots v d gh.G x).map f := by
    intro x
    rw [dirSlots_eq, dirSlots_eq]
    split
    · exact runSlots_set_gen _ _ hblk hob
    · exact chainSlots_set_gen _ hblk hob
  have hmem : old ∈ dirSlots v d gh.G h := by rw [hsp]; simp
  constructor
  · rw [hgen h, hsp, List.map_append, List.map_cons, hold]
    have hnd := dirSlots_pos_nodupW hM hh d
    rw [hsp] at hnd
    obtain ⟨h1, h2⟩ := split_pos_ne hnd
    congr 1
    · conv => rhs; rw [← List.map_id pre]
      exact List.map_congr_left fun s hs => hother s (h1 s hs)
    · congr 1
      conv => rhs; rw [← List.map_id post]
      exact List.map_congr_left fun s hs => hother s (h2 s hs)
  · intro x hx hne
    rw [hgen x]
    conv => rhs; rw [← List.map_id (dirSlots v d gh.G x)]
    exact List.map_congr_left fun s hs => hother s (dirSlots_pos_disjointW hM hx hh hne d d hs hmem)

/-- **The first byte of one directory slot is set** to `x`. -/
theorem slot_markW (hM : MedW cb v d files gh X) {h : Nat} (hh : h ∈ dirIds gh.dirs) {pre post : List Slot} {old : Slot}
    (hsp : dirSlots v d gh.G h = pre ++ old :: post) (x : UInt8) :
    BlocksOK (d.set old.1 ((d.get old.1).set old.2.1 x)) ∧
    (∀ c, c < endCluster v → (d.set old.1 ((d.get old.1).set old.2.1 x)).get (fatBlock v c) = d.get (fatBlock v c)) ∧
    dirSlots v (d.set old.1 ((d.get old.1).set old.2.1 x)) gh.G h = pre ++ (old.1, old.2.1, old.2.2.set 0 x) :: post ∧
    (∀ y, y ∈ dirIds gh.dirs → y ≠ h →
      dirSlots v (d.set old.1 ((d.get old.1).set old.2.1 x)) gh.G y = dirSlots v d gh.G y) := by
  have hmem : old ∈ dirSlots v d gh.G h := by rw [hsp]; simp
  obtain ⟨i, hi, hoff⟩ := mem_dirSlots_offset hmem
  have hl := hM.blocksOK old.1
  refine ⟨?_, ?_, ?_⟩
  · intro j
    rw [FBasic.Disk.get_set]
    split
    · rw [List.length_set]; exact hl
    · exact hM.blocksOK j
  · intro c hc
    exact FBasic.Disk.get_set_ne _ _ _ _ (dirBlock_ne_fatW hM hh hmem c hc).symm
  · have hpo : spos old = (old.1, 32 * i) := by show (old.1, old.2.1) = _; rw [hoff]
    have hk : (d.get old.1).set old.2.1 x = (d.get old.1).set (32 * i) x := by rw [hoff]
    rw [hk]
    refine dirSlots_set_genW hM hh hsp (blockSlots_set_first old.1 _ i x) ?_ ?_
    · intro s hs
      exact updFirst_of_ne (by rw [← hpo]; exact hs)
    · exact updFirst_of_eq hpo

/-- Re-assembling the invariant on a medium with the same FAT entries from a new `TreeOK`. -/
theorem medW_rebuild (hM : MedW cb v d files gh X) {d' : Disk} (hb : BlocksOK d')
    (hfat : ∀ c, c < endCluster v → d'.get (fatBlock v c) = d.get (fatBlock v c))
    {gh' : Ghost} (hG : gh'.G = gh.G) {files' : List FileInfo}
    (htree : TreeOK v.fatType cb (rootHead v) gh'.G gh'.dirs (dirSlots v d' gh'.G) files')
    (hfiles : ∀ f, f ∈ files' → FileLoose v d f (chainOf gh.G f.entry.cluster) ∧
      (chainOf gh.G f.entry.cluster = [] → f.curCluster < 2)) :
    MedW cb v d' files' gh' X := by
  have hown : Owns v d' (gh.G ++ X) := WriteRefines.owns_of_fat_eq hfat hM.owns
  refine ⟨hb, hM.geom, hM.hint, by rw [hG]; exact hown, htree, ?_⟩
  intro f hf
  rw [hG]
  obtain ⟨hok, hcur⟩ := hfiles f hf
  refine ⟨fileLoose_congr (SameGeom.refl v) hok ?_, hcur⟩
  intro hne
  have hm := chainOf_spec (med_headsW hM) ((chainOf_ne_nil_iff (med_headsW hM)).1 hne)
  have := hown.1 _ (List.mem_append_left _ hm.1)
  rwa [headD_of_head? hm.2] at this

theorem validDir_idW (hM : MedW cb v d files gh X) {dc : Nat} (hv : ValidDir gh.dirs dc) :
    dirIdOf dc ∈ dirIds gh.dirs ∧ (dc ≠ Gen.CLUSTER_ROOT_DIR → dirIdOf dc = dc ∧ 2 ≤ dc ∧ dc < endCluster v) := by
  unfold dirIdOf
  rcases hv with rfl | hm
  · exact ⟨by rw [if_pos rfl]; exact zero_mem_dirIds _, fun h => absurd rfl h⟩
  · obtain ⟨⟨h, p⟩, hp, rfl⟩ := List.mem_map.1 hm
    have hh : h ∈ dirIds gh.dirs := mem_dirIds.2 (.inr ⟨p, hp⟩)
    obtain ⟨cs, hcs, hce⟩ := List.mem_map.1 (dir_mem_heads hM.tree hp)
    have hne := (med_headsW hM).ne cs hcs
    have hr : InRange v h := by
      have : h ∈ cs := by
        cases cs with
        | nil => exact absurd rfl hne
        | cons a l => simp only [List.headD_cons] at hce; rw [← hce]; exact List.mem_cons_self
      exact med_inRangeW hM hcs this
    have hnr : h ≠ Gen.CLUSTER_ROOT_DIR := FatLens.lt_end_ne_root v hM.geom h hr.2
    rw [if_neg hnr]
    exact ⟨hh, fun _ => ⟨rfl, hr.1, hr.2⟩⟩

/-- A file record consistent with a chain stays consistent when that chain is still a chain. -/
theorem fileLoose_of_owns {v v' : FatVolume} {d d' : Disk} {f : FileInfo} {cs : List Nat} {Gall : List (List Nat)}
    (hs : SameGeom v v') (hok : FileLoose v d f cs) (ho : Owns v' d' Gall) (hm : cs = [] ∨ cs ∈ Gall) : FileLoose v' d' f cs := by
  apply fileLoose_congr hs hok
  intro hne
  rcases hm with hm | hm
  · exact absurd hm hne
  · have := ho.1 cs hm
    rcases hok.chain with ⟨_, h2, _⟩ | hch
    · exact absurd h2 hne
    · have hh := ForestBase.chain_head_eq hch
      rwa [hh] at this

/-- `MedW cb` does not look at the volume record kept in the ghost. -/
theorem medW_of_ghost {v : FatVolume} {d : Disk} {files : List FileInfo} {gh gh' : Ghost} {X : List (List Nat)}
    (h : MedW cb v d files gh X) (hG : gh'.G = gh.G) (hD : gh'.dirs = gh.dirs) : MedW cb v d files gh' X := by
  obtain ⟨h1, h2, h3, h4, h5, h6⟩ := h
  exact ⟨h1, h2, h3, by rw [hG]; exact h4, by rw [hG, hD]; exact h5, by rw [hG]; exact h6⟩

/-- **Assembling the invariant** for a new state `(v', d', G', files')` from: the new `Owns`; a reference
medium `dw` with chain list `G0` whose directory chains and directory blocks are those of the new
state; a `TreeOK` over the reference slot lists; `FileOK` of the open files. -/
theorem medW_assemble {v v' : FatVolume} {dw d' : Disk} (hg : WFGeom v) (hs : SameGeom v v') (hh : HintOK v')
    (hb : BlocksOK d') {G0 G' X' : List (List Nat)} {dirs : List (Nat × Nat)} (hown : Owns v' d' (G' ++ X'))
    (hdir : ∀ h, h ∈ dirIds dirs → ¬ isFixedRoot v h → chainOf G' (dirHead v h) = chainOf G0 (dirHead v h))
    (hblocks : ∀ h, h ∈ dirIds dirs → ∀ s, s ∈ dirSlots v dw G0 h → d'.get s.1 = dw.get s.1)
    {files' : List FileInfo}
    (htree : TreeOK v.fatType cb (rootHead v) G' dirs (dirSlots v dw G0) files')
    (hfiles : ∀ f, f ∈ files' → FileLoose v' d' f (chainOf G' f.entry.cluster) ∧
      (chainOf G' f.entry.cluster = [] → f.curCluster < 2)) :
    MedW cb v' d' files' { vol := v', G := G', dirs := dirs } X' := by
  have hslots : ∀ h, h ∈ dirIds dirs → dirSlots v' d' G' h = dirSlots v dw G0 h := by
    intro h hh'
    rw [dirSlots_sameGeom hs]
    by_cases hf : isFixedRoot v h
    · have := dirSlots_congr (G := G0) (hblocks h hh')
      rw [dirSlots_fixed hf] at this ⊢
      exact this
    · rw [dirSlots_chain hf, hdir h hh' hf, ← dirSlots_chain hf]
      exact dirSlots_congr (hblocks h hh')
  refine ⟨hb, hs.wfGeom hg, hh, hown, ?_, hfiles⟩
  show TreeOK v'.fatType cb (rootHead v') G' dirs (dirSlots v' d' G') files'
  have hr : rootHead v' = rootHead v := by obtain ⟨a, b, rfl⟩ := hs; rfl
  rw [hs.fatType, hr] -- CHANGED: `cb` does not depend on the volume record
  have hobj : ∀ x, x ∈ dirIds dirs → objects x (dirSlots v' d' G' x) = objects x (dirSlots v dw G0 x) := by
    intro x hx; rw [hslots x hx]
  refine
    { cleanTail := fun x hx => by rw [hslots x hx]; exact htree.cleanTail x hx
      names := fun x hx => by rw [hslots x hx]; exact htree.names x hx
      order := htree.order
      dots := fun x p hxp => by rw [hslots x (mem_dirIds.2 (.inr ⟨p, hxp⟩))]; exact htree.dots x p hxp
      subdirs := fun x hx o ho hd => htree.subdirs x hx o (by rw [← hobj x hx]; exact ho) hd
      dirRefs := ?_
      allRefs := ?_
      sizes := fun x hx o ho hd => htree.sizes x hx o (by rw [← hobj x hx]; exact ho) hd
      fileSlots := ?_
      fileAttrs := htree.fileAttrs
      filesDistinct := htree.filesDistinct }
  · have : ((dirIds dirs).flatMap fun x => subdirRefs v.fatType (objects x (dirSlots v' d' G' x))) =
        (dirIds dirs).flatMap fun x => subdirRefs v.fatType (objects x (dirSlots v dw G0 x)) :=
      List.flatMap_congr fun x hx => by rw [hobj x hx]
    rw [this]; exact htree.dirRefs
  · have : ((dirIds dirs).flatMap fun x => fileRefs v.fatType files' (objects x (dirSlots v' d' G' x))) =
        (dirIds dirs).flatMap fun x => fileRefs v.fatType files' (objects x (dirSlots v dw G0 x)) :=
      List.flatMap_congr fun x hx => by rw [hobj x hx]
    rw [this]; exact htree.allRefs
  · intro f hf
    obtain ⟨x, hx, o, ho, hrest⟩ := htree.fileSlots f hf
    exact ⟨x, hx, o, by rw [hobj x hx]; exact ho, hrest⟩

/-- **The FAT and non-directory blocks change.**  `G'` are the new chains (with `X'` not yet referenced);
the chain of every directory is the same list as before and no block of a directory changed; the tree
clauses hold for `G'`, `files'` over the old slot lists; the open files are consistent with their
chains of `G'`. -/
theorem medW_fat_update (hM : MedW cb v d files gh X) {v' : FatVolume} {d' : Disk} (hs : SameGeom v v') (hh : HintOK v')
    (hb : BlocksOK d') {G' X' : List (List Nat)} (hown : Owns v' d' (G' ++ X'))
    (hdir : ∀ h, h ∈ dirIds gh.dirs → ¬ isFixedRoot v h → chainOf G' (dirHead v h) = chainOf gh.G (dirHead v h))
    (hblocks : ∀ h, h ∈ dirIds gh.dirs → ∀ s, s ∈ dirSlots v d gh.G h → d'.get s.1 = d.get s.1)
    {files' : List FileInfo} {dirs' : List (Nat × Nat)} (hdirs : dirs' = gh.dirs)
    (htree : TreeOK v.fatType cb (rootHead v) G' dirs' (dirSlots v d gh.G) files')
    (hfiles : ∀ f, f ∈ files' → FileLoose v' d' f (chainOf G' f.entry.cluster) ∧
      (chainOf G' f.entry.cluster = [] → f.curCluster < 2)) :
    MedW cb v' d' files' { vol := v', G := G', dirs := dirs' } X' := by
  subst hdirs
  exact medW_assemble hM.geom hs hh hb hown hdir hblocks htree hfiles

/-- An object of directory `h` splits the slot list of `h`: its predecessors are non-zero and, in a
sub-directory, include the two dot slots. -/
theorem object_splitW (hM : MedW cb v d files gh X) {h : Nat} (hh : h ∈ dirIds gh.dirs) {o : Slot}
    (ho : o ∈ objects h (dirSlots v d gh.G h)) :
    ∃ pre post, dirSlots v d gh.G h = pre ++ o :: post ∧ (∀ s, s ∈ pre → first s ≠ 0) ∧ (h ≠ 0 → 2 ≤ pre.length) ∧
      first o ≠ 0 ∧ keep o = true := by
  have hoe : o ∈ entries (dirSlots v d gh.G h) := by
    unfold objects at ho
    split at ho
    · exact ho
    · exact List.mem_of_mem_drop ho
  obtain ⟨hmem, hnz, h5, hfr⟩ := mem_entries hoe
  obtain ⟨pre, post, hsp⟩ := List.append_of_mem hmem
  have hnd := dirSlots_pos_nodupW hM hh d
  have hob : o ∈ beforeEnd (dirSlots v d gh.G h) := by
    rw [entries_eq, List.mem_filter] at hoe; exact hoe.1
  refine ⟨pre, post, hsp, pre_nonzero_of_beforeEnd hnd hsp hob, ?_, hnz, ?_⟩
  · intro h0
    rcases mem_dirIds.1 hh with e | ⟨p, hp⟩
    · exact absurd e h0
    · obtain ⟨s0, s1, rest, hss, hd0, hd1⟩ := hM.tree.dots h p hp
      -- `o` lies in `rest`, so it is neither `s0` nor `s1`
      have hk0 := isDot_keep hd0 thisDir_first
      have hk1 := isDot_keep hd1 parentDir_first
      have hor : o ∈ rest := by
        unfold objects at ho
        rw [if_neg h0, hss] at ho
        have e1 : entries (s0 :: s1 :: rest) = s0 :: s1 :: entries rest := by
          have := entries_split [] (s1 :: rest) s0 (fun _ h => by cases h)
          rw [List.nil_append] at this
          rw [this, if_neg hk0.1, if_pos hk0.2]
          have := entries_split [] rest s1 (fun _ h => by cases h)
          rw [List.nil_append] at this
          rw [this, if_neg hk1.1, if_pos hk1.2]
          rfl
        rw [e1] at ho
        exact (mem_entries (by simpa using ho)).1
      rw [hss] at hsp hnd
      match pre, hsp with
      | [], hsp =>
        exfalso
        rw [List.nil_append, List.cons.injEq] at hsp
        rw [List.map_cons, List.nodup_cons] at hnd
        apply hnd.1
        rw [hsp.1]
        exact List.mem_map.2 ⟨o, List.mem_cons_of_mem _ hor, rfl⟩
      | [a], hsp =>
        exfalso
        simp only [List.cons_append, List.nil_append, List.cons.injEq] at hsp
        rw [List.map_cons, List.nodup_cons, List.map_cons, List.nodup_cons] at hnd
        apply hnd.2.1
        rw [hsp.2.1]
        exact List.mem_map.2 ⟨o, hor, rfl⟩
      | a :: b :: pre', _ => simp
  · unfold keep
    rw [hfr]
    simp [h5]

/-- The `SlotEdit` of setting the first byte of slot `old` of directory `h` to `x ≠ 0`. -/
theorem slotEdit_markW (hM : MedW cb v d files gh X) {h : Nat} (hh : h ∈ dirIds gh.dirs) {pre post : List Slot} {old : Slot}
    (hsp : dirSlots v d gh.G h = pre ++ old :: post) (hpre : ∀ s, s ∈ pre → first s ≠ 0) (hlen : h ≠ 0 → 2 ≤ pre.length)
    (x : UInt8) (hx : x.toNat ≠ 0) :
    SlotEdit gh.dirs (dirSlots v d gh.G) (dirSlots v (d.set old.1 ((d.get old.1).set old.2.1 x)) gh.G) h pre post
      old (old.1, old.2.1, old.2.2.set 0 x) := by
  obtain ⟨_, _, h3, h4⟩ := slot_markW hM hh hsp x
  refine ⟨hh, h4, hsp, h3, hpre, hlen, ?_⟩
  have hmem : old ∈ dirSlots v d gh.G h := by rw [hsp]; simp
  rw [first_set old x (by rw [mem_dirSlots_length hM.blocksOK hmem]; decide)]
  exact hx

/-- What the invariant says about a file object no open file sits at: its start cluster is 0 and it is
empty, or its start cluster is the first cluster of a chain long enough for its size. -/
theorem closed_object_chainW (hM : MedW cb v d files gh X) {h : Nat} (hh : h ∈ dirIds gh.dirs) {o : Slot}
    (ho : o ∈ objects h (dirSlots v d gh.G h)) (hod : isDirE o = false) (hfree : pendOf files o = none) :
    (sCluster v.fatType o = 0 ∧ sSize o = 0 ∧ chainOf gh.G (sCluster v.fatType o) = []) ∨
    (sCluster v.fatType o ≠ 0 ∧ sSize o ≤ (chainOf gh.G (sCluster v.fatType o)).length * cb ∧
      Chain v d (sCluster v.fatType o) (chainOf gh.G (sCluster v.fatType o)) ∧
      chainOf gh.G (sCluster v.fatType o) ∈ gh.G) := by
  have hG := med_headsW hM
  have hs := hM.tree.sizes h hh o ho hod
  rw [effCluster_of_none hfree, effSize_of_none hfree] at hs
  rcases hs with ⟨h1, h2⟩ | ⟨h1, h2⟩
  · exact .inl ⟨h1, h2, by rw [h1]; exact chainOf_lt_two hG (by decide)⟩
  · right
    have hm := fileRef_mem_heads hM.tree hh ho hod (by rw [effCluster_of_none hfree]; exact h1)
    rw [effCluster_of_none hfree] at hm
    obtain ⟨hmem, hhd⟩ := chainOf_spec hG hm
    have hch := med_chainW hM hmem
    rw [headD_of_head? hhd] at hch
    exact ⟨h1, h2, hch, hmem⟩

end

end Sdmmc.Lemmas.CrashContDelete
