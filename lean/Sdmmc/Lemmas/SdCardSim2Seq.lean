/-
Lemmas for C12, part 25 (end-to-end, continued): addressing for every card kind, what a transfer
leaves unchanged, and sequences of single-block transfers (to compare with the multiple-block ones).
-/
import Sdmmc.Lemmas.SdCardSim2MultiW

namespace Sdmmc.Lemmas.SdCardSim2
open Sdmmc.Model Sdmmc.Spec.Card Sdmmc.Model.Sd Sdmmc.Lemmas.Sd Sdmmc.Gen Sdmmc.Lemmas.SdCardSim

/-! ### Addressing -/

/-- The driver's idea of the card type fits the card's kind, and block `idx` has an address in
that mode: a block number below 2^32 for a high-capacity card, a byte address `idx * 512` below
2^32 for a standard-capacity card (version 1 or 2). -/
def Addressable (ct : Option CardType) (k : Kind) (idx : Nat) : Prop :=
  (ct = some .SDHC ∧ k = .SDHC ∧ idx < 4294967296) ∨
  ((ct = some .SD1 ∨ ct = some .SD2) ∧ (k = .SD1 ∨ k = .SD2) ∧ idx < 8388608)

theorem Addressable.start {ct : Option CardType} {c : Card} {idx : Nat} (h : Addressable ct c.kind idx) :
    ∃ start, startIdx ct idx = .ok start ∧ start < 4294967296 ∧ blockOfArg c start = some idx := by
  rcases h with ⟨rfl, hk, h32⟩ | ⟨hct, hk, h23⟩
  · exact ⟨idx, rfl, h32, by simp [blockOfArg, hk]⟩
  · refine ⟨idx * 512, ?_, by omega, ?_⟩
    · rcases hct with rfl | rfl <;> simp [startIdx] <;> omega
    · rcases hk with hk | hk <;> simp [blockOfArg, hk]

theorem Addressable.mono {ct : Option CardType} {k : Kind} {i j : Nat} (h : Addressable ct k j) (hij : i ≤ j) :
    Addressable ct k i := by
  rcases h with ⟨h1, h2, h3⟩ | ⟨h1, h2, h3⟩
  · exact Or.inl ⟨h1, h2, by omega⟩
  · exact Or.inr ⟨h1, h2, by omega⟩

/-! ### What a transfer leaves alone -/

/-- What no data transfer changes: the card's kind, geometry, register, timing and CRC mode, its
initialisation state, and the list of protocol violations (so: no new violation). -/
def Unchanged (c c' : Card) : Prop :=
  c'.kind = c.kind ∧ c'.capacity = c.capacity ∧ c'.csd = c.csd ∧ c'.ncr = c.ncr ∧ c'.nac = c.nac ∧
  c'.busy = c.busy ∧ c'.crcOn = c.crcOn ∧ c'.violations = c.violations ∧ c'.stopGap = c.stopGap

theorem Unchanged.refl (c : Card) : Unchanged c c := ⟨rfl, rfl, rfl, rfl, rfl, rfl, rfl, rfl, rfl⟩

theorem Unchanged.trans {c c' c'' : Card} (h : Unchanged c c') (h' : Unchanged c' c'') : Unchanged c c'' := by
  obtain ⟨a1, a2, a3, a4, a5, a6, a7, a8, a9⟩ := h
  obtain ⟨b1, b2, b3, b4, b5, b6, b7, b8, b9⟩ := h'
  exact ⟨b1.trans a1, b2.trans a2, b3.trans a3, b4.trans a4, b5.trans a5, b6.trans a6, b7.trans a7, b8.trans a8,
    b9.trans a9⟩

theorem getBlock_congr {c c' : Card} (h : c'.mem = c.mem) (j : Nat) : getBlock c' j = getBlock c j := by
  unfold getBlock; rw [h]

theorem getBlock_insert (c c' : Card) (idx : Nat) (blk : List UInt8) (h : c'.mem = c.mem.insert idx blk) (j : Nat) :
    getBlock c' j = if idx = j then blk else getBlock c j := by
  unfold getBlock; rw [h, getD_insert]

theorem getBlock_writeMem (c c' : Card) (idx : Nat) (blocks : List Bytes) (h : c'.mem = writeMem c.mem idx blocks)
    (j : Nat) :
    getBlock c' j = if idx ≤ j ∧ j < idx + blocks.length then blocks.getD (j - idx) zeros512 else getBlock c j := by
  unfold getBlock; rw [h, getD_writeMem]

/-! ### The transfers, summarised -/

/-- What every successful transfer guarantees about the state it leaves. -/
structure Outcome (s s' : St Card) : Prop where
  unchanged : Unchanged s.bus s'.bus
  settled : Settled s'.bus
  cardType : s'.cardType = s.cardType
  useCrc : s'.useCrc = s.useCrc

theorem Outcome.trans {s s' s'' : St Card} (h : Outcome s s') (h' : Outcome s' s'') : Outcome s s'' :=
  ⟨h.unchanged.trans h'.unchanged, h'.settled, h'.cardType.trans h.cardType, h'.useCrc.trans h.useCrc⟩

theorem read_single_sum (s : St Card) (hS : Settled s.bus)
    (hbl : s.bus.busyLeft ≤ DEFAULT_COMMAND_RETRIES) (hncr : s.bus.ncr ≤ DEFAULT_COMMAND_RETRIES)
    (hnac : s.bus.nac ≤ DEFAULT_READ_RETRIES) (idx : Nat) (hadr : Addressable s.cardType s.bus.kind idx)
    (hidx : idx < s.bus.capacity) (hlen : (getBlock s.bus idx).length = 512) :
    ∃ s', Sd.read cardBus 1 idx s = (.ok [getBlock s.bus idx], s') ∧ s'.bus.mem = s.bus.mem ∧
      s'.bus.busyLeft = 0 ∧ Outcome s s' := by
  obtain ⟨start, hstart, h32, hblk⟩ := hadr.start
  obtain ⟨s', h, a⟩ := read_single_card s hS hbl hncr hnac idx start hstart h32 hblk hidx hlen
  refine ⟨s', h, by rw [a.1], by rw [a.1], ⟨by rw [a.1]; exact Unchanged.refl _, ?_, a.2.1, a.2.2.1⟩⟩
  rw [a.1]; exact ⟨hS.1, hS.2, hS.3, hS.4, hS.5, rfl⟩

theorem write_single_sum (s : St Card) (hS : Settled s.bus)
    (hbl : s.bus.busyLeft ≤ DEFAULT_COMMAND_RETRIES) (hncr : s.bus.ncr ≤ DEFAULT_COMMAND_RETRIES)
    (hbusy : s.bus.busy ≤ DEFAULT_WRITE_RETRIES) (hcrc : s.bus.crcOn = true → s.useCrc = true)
    (idx : Nat) (hadr : Addressable s.cardType s.bus.kind idx) (hidx : idx < s.bus.capacity)
    (blk : Bytes) (hlen : blk.length = 512) :
    ∃ s', Sd.write cardBus [blk] idx s = (.ok (), s') ∧ s'.bus.mem = s.bus.mem.insert idx blk ∧
      s'.bus.busyLeft = 0 ∧ Outcome s s' := by
  obtain ⟨start, hstart, h32, hblk⟩ := hadr.start
  obtain ⟨s', h, a⟩ := write_single_card s hS hbl hncr hbusy hcrc idx start hstart h32 hblk hidx blk hlen
  refine ⟨s', h, by rw [a.1], by rw [a.1], ⟨by rw [a.1]; exact Unchanged.refl _, ?_, a.2.1, a.2.2.1⟩⟩
  rw [a.1]; exact ⟨hS.1, hS.2, hS.3, rfl, hS.5, rfl⟩

theorem read_multi_sum (s : St Card) (hS : Settled s.bus)
    (hbl : s.bus.busyLeft ≤ DEFAULT_COMMAND_RETRIES) (hncr : s.bus.ncr ≤ DEFAULT_COMMAND_RETRIES)
    (hnac : s.bus.nac ≤ DEFAULT_READ_RETRIES) (n idx : Nat) (hn1 : n ≠ 1)
    (hadr : Addressable s.cardType s.bus.kind idx) (hidx : idx < s.bus.capacity)
    (hcap : idx + n ≤ s.bus.capacity)
    (hlen : ∀ j, idx ≤ j → j ≤ idx + n → j < s.bus.capacity → (getBlock s.bus j).length = 512) :
    ∃ s', Sd.read cardBus n idx s = (.ok ((List.range' idx n).map (getBlock s.bus)), s') ∧
      s'.bus.mem = s.bus.mem ∧ s'.bus.busyLeft = s.bus.busy ∧ Outcome s s' := by
  obtain ⟨start, hstart, h32, hblk⟩ := hadr.start
  obtain ⟨s', h, a⟩ := read_multi_card s hS hbl hncr hnac n idx start hn1 hstart h32 hblk hidx hcap hlen
  refine ⟨s', h, by rw [a.1], by rw [a.1], ⟨by rw [a.1]; exact Unchanged.refl _, ?_, a.2.1, a.2.2.1⟩⟩
  rw [a.1]; exact ⟨hS.1, hS.2, hS.3, hS.4, rfl, rfl⟩

theorem write_multi_sum (s : St Card) (hS : Settled s.bus)
    (hbl : s.bus.busyLeft ≤ DEFAULT_COMMAND_RETRIES) (hncr : s.bus.ncr ≤ DEFAULT_COMMAND_RETRIES)
    (hbusy : s.bus.busy ≤ DEFAULT_WRITE_RETRIES) (hgap : s.bus.stopGap ≤ 1) (hcrc : s.bus.crcOn = true → s.useCrc = true)
    (blocks : List Bytes) (idx : Nat) (hn1 : blocks.length ≠ 1)
    (hadr : Addressable s.cardType s.bus.kind idx) (hidx : idx < s.bus.capacity)
    (hcap : idx + blocks.length ≤ s.bus.capacity) (hlen : ∀ b ∈ blocks, b.length = 512) :
    ∃ s', Sd.write cardBus blocks idx s = (.ok (), s') ∧ s'.bus.mem = writeMem s.bus.mem idx blocks ∧
      s'.bus.busyLeft = 0 ∧ Outcome s s' := by
  obtain ⟨start, hstart, h32, hblk⟩ := hadr.start
  obtain ⟨s', h, a⟩ := write_multi_card s hS hbl hncr hbusy hgap hcrc blocks idx start hn1 hstart h32 hblk hidx hcap hlen
  refine ⟨s', h, by rw [a.1], by rw [a.1], ⟨by rw [a.1]; exact Unchanged.refl _, ?_, a.2.1, a.2.2.1⟩⟩
  rw [a.1]; exact ⟨hS.1, hS.2, hS.3, rfl, hS.5, rfl⟩

/-! ### Sequences of single-block transfers -/

/-- `n` single-block reads of consecutive blocks, in order. -/
def readSingles {σ : Type} (B : BusOps σ) : Nat → Nat → S σ (List Bytes)
  | 0, _ => pure []
  | n + 1, idx => do
    let b ← Sd.read B 1 idx
    let rest ← readSingles B n (idx + 1)
    pure (b ++ rest)

/-- Single-block writes of the given blocks to consecutive block numbers, in order. -/
def writeSingles {σ : Type} (B : BusOps σ) : List Bytes → Nat → S σ Unit
  | [], _ => pure ()
  | b :: rest, idx => do
    Sd.write B [b] idx
    writeSingles B rest (idx + 1)

theorem readSingles_card : ∀ (n idx : Nat) (s : St Card), Settled s.bus →
    s.bus.busyLeft ≤ DEFAULT_COMMAND_RETRIES → s.bus.ncr ≤ DEFAULT_COMMAND_RETRIES →
    s.bus.nac ≤ DEFAULT_READ_RETRIES → (∀ k, k < n → Addressable s.cardType s.bus.kind (idx + k)) →
    idx + n ≤ s.bus.capacity → (∀ j, idx ≤ j → j < idx + n → (getBlock s.bus j).length = 512) →
    ∃ s', readSingles cardBus n idx s = (.ok ((List.range' idx n).map (getBlock s.bus)), s') ∧
      s'.bus.mem = s.bus.mem ∧ s'.bus.busyLeft ≤ DEFAULT_COMMAND_RETRIES ∧ Outcome s s' := by
  intro n
  induction n with
  | zero =>
    intro idx s hS hbl _ _ _ _ _
    exact ⟨s, rfl, rfl, hbl, ⟨Unchanged.refl _, hS, rfl, rfl⟩⟩
  | succ n ih =>
    intro idx s hS hbl hncr hnac hadr hcap hlen
    obtain ⟨s1, h1, m1, b1, o1⟩ := read_single_sum s hS hbl hncr hnac idx (by simpa using hadr 0 (by omega))
      (by omega) (hlen idx (Nat.le_refl _) (by omega))
    obtain ⟨u1, u2, u3, u4, u5, u6, u7, u8, u9⟩ := o1.unchanged
    obtain ⟨s2, h2, m2, b2, o2⟩ := ih (idx + 1) s1 o1.settled (by rw [b1]; exact Nat.zero_le _) (by rw [u4]; exact hncr)
      (by rw [u5]; exact hnac)
      (fun k hk => by rw [o1.cardType, u1, show idx + 1 + k = idx + (k + 1) by omega]; exact hadr (k + 1) (by omega))
      (by rw [u2]; omega)
      (fun j hj1 hj2 => by rw [getBlock_congr m1]; exact hlen j (by omega) (by omega))
    refine ⟨s2, ?_, m2.trans m1, b2, o1.trans o2⟩
    rw [readSingles, bind_ok h1, bind_ok h2, List.range'_succ]
    simp only [List.map_cons, funext (getBlock_congr m1)]
    rfl

theorem writeSingles_card : ∀ (blocks : List Bytes) (idx : Nat) (s : St Card), Settled s.bus →
    s.bus.busyLeft ≤ DEFAULT_COMMAND_RETRIES → s.bus.ncr ≤ DEFAULT_COMMAND_RETRIES →
    s.bus.busy ≤ DEFAULT_WRITE_RETRIES → (s.bus.crcOn = true → s.useCrc = true) →
    (∀ k, k < blocks.length → Addressable s.cardType s.bus.kind (idx + k)) →
    idx + blocks.length ≤ s.bus.capacity → (∀ b ∈ blocks, b.length = 512) →
    ∃ s', writeSingles cardBus blocks idx s = (.ok (), s') ∧
      s'.bus.mem = writeMem s.bus.mem idx blocks ∧ s'.bus.busyLeft ≤ DEFAULT_COMMAND_RETRIES ∧ Outcome s s' := by
  intro blocks
  induction blocks with
  | nil =>
    intro idx s hS hbl _ _ _ _ _ _
    exact ⟨s, rfl, rfl, hbl, ⟨Unchanged.refl _, hS, rfl, rfl⟩⟩
  | cons b rest ih =>
    intro idx s hS hbl hncr hbusy hcrc hadr hcap hlen
    simp only [List.length_cons] at hadr hcap
    obtain ⟨s1, h1, m1, b1, o1⟩ := write_single_sum s hS hbl hncr hbusy hcrc idx (by simpa using hadr 0 (by omega))
      (by omega) b (hlen b (List.mem_cons_self ..))
    obtain ⟨u1, u2, u3, u4, u5, u6, u7, u8, u9⟩ := o1.unchanged
    obtain ⟨s2, h2, m2, b2, o2⟩ := ih (idx + 1) s1 o1.settled (by rw [b1]; exact Nat.zero_le _) (by rw [u4]; exact hncr)
      (by rw [u6]; exact hbusy) (by rw [u7, o1.useCrc]; exact hcrc)
      (fun k hk => by rw [o1.cardType, u1, show idx + 1 + k = idx + (k + 1) by omega]; exact hadr (k + 1) (by omega))
      (by rw [u2]; omega) (fun b' hb' => hlen b' (List.mem_cons_of_mem _ hb'))
    refine ⟨s2, ?_, ?_, b2, o1.trans o2⟩
    · rw [writeSingles, bind_ok h1]; exact h2
    · rw [m2, m1]; rfl

end Sdmmc.Lemmas.SdCardSim2
