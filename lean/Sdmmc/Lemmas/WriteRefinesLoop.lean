/-
Write side of C01, part 3 — the second half of the loop body (`finish_spec`: patch the located
block, advance the file record) and the loop of `write` against the byte-array model
(`writeLoop_spec`), for every buffer length, every chain length and fragmentation, with the chain
extended as often as needed and the `DiskFull` outcome when the volume runs out of clusters.
-/
import Sdmmc.Lemmas.WriteRefinesStep

namespace Sdmmc.Lemmas.WriteRefines
open Sdmmc.Model Sdmmc.Model.Fat Sdmmc.Spec
open Sdmmc.Lemmas.FBasic hiding NoFault Coherent
open Sdmmc.Lemmas.FatOps hiding BlocksOK Mirror HintOK
open Sdmmc.Lemmas.ChainL Sdmmc.Lemmas.ForestBase Sdmmc.Lemmas.ForestOwns Sdmmc.Lemmas.ReadRefines

/-! ### The file record after an iteration -/

theorem bump_offset (cc : Nat × Nat) (t : Nat) (f : FileInfo) : (bump cc t f).currentOffset = f.currentOffset + t := rfl
theorem bump_cursor (cc : Nat × Nat) (t : Nat) (f : FileInfo) :
    (bump cc t f).curClusterOff = cc.1 ∧ (bump cc t f).curCluster = cc.2 := by
  unfold bump
  simp only
  split <;> exact ⟨rfl, rfl⟩
theorem bump_size (cc : Nat × Nat) (t : Nat) (f : FileInfo) :
    (bump cc t f).entry.size = max f.entry.size (f.currentOffset + t) := by
  unfold bump
  simp only
  split
  · next hgt => show f.currentOffset + t = _; omega
  · next hle => show f.entry.size = _; omega
theorem bump_loopFile (cc : Nat × Nat) (t : Nat) (f : FileInfo) : LoopFile f (bump cc t f) := by
  unfold bump
  simp only
  split <;> exact ⟨rfl, rfl, rfl, rfl, rfl⟩

theorem modify_eq_set {α : Type} (l : List α) (i : Nat) (g : α → α) (a : α) (h : l[i]? = some a) :
    l.modify i g = l.set i (g a) := by
  apply List.ext_getElem?
  intro j
  simp only [List.getElem?_modify, List.getElem?_set]
  by_cases hij : i = j
  · subst hij
    obtain ⟨hi, he⟩ := List.getElem?_eq_some_iff.1 h
    simp [hi, he]
  · simp [hij]

/-! ### Patching the located block -/

/-- The second half of an iteration: the located block is patched with the first `t` bytes of the
buffer (`t` = what fits into the rest of the block), the file record advances by `t`.  The byte
array of the file is the old one with these bytes written at the old position. -/
theorem finish_spec (i vi : Nat) (A B : List (List Nat)) (s : Mgr) (f : FileInfo) (v : VolInfo) (cs : List Nat) (c : Nat)
    (buffer : Bytes) (h : WInv i vi A B s f v cs) (hk : cs[f.currentOffset / clusterBytesLen v.vol]? = some c)
    (hne : buffer ≠ []) (t : Nat) (ht : t = min (512 - f.currentOffset % 512) buffer.length) (cc : Nat × Nat)
    (hcc : cc = (f.currentOffset / clusterBytesLen v.vol * clusterBytesLen v.vol, c)) :
    ∃ s2, (withVol vi (writeBlockPart (clusterToBlock v.vol c + f.currentOffset % clusterBytesLen v.vol / 512)
          (f.currentOffset % 512) (buffer.take t) (decide (f.currentOffset % 512 = 0 ∧ t = 512 - f.currentOffset % 512))) >>=
        fun _ => modifyFile i (bump cc t)) s = (.ok (), s2) ∧
      WInv i vi A B s2 (bump cc t f) v cs ∧ WProg i vi s s2 f (bump cc t f) v v cs cs (buffer.take t) ∧ 0 < t := by
  obtain ⟨hnf, hcoh, hblk, hunl⟩ := h.ok
  have hg := h.geom
  have hcb := h.cbpos
  have hcbdef : clusterBytesLen v.vol = v.vol.blocksPerCluster * 512 := rfl
  have hch := h.chain
  have hklt : f.currentOffset / clusterBytesLen v.vol < cs.length := (List.getElem?_eq_some_iff.1 hk).1
  have hcr : InRange v.vol c := chain_inRange hch c (List.mem_of_getElem? hk)
  obtain ⟨a1, a2, a3⟩ := offset_arith v.vol.blocksPerCluster f.currentOffset hg.bpc_pos
  rw [← hcbdef] at a1 a2 a3
  have hmod : f.currentOffset % 512 < 512 := Nat.mod_lt _ (by omega)
  have hblen : 0 < buffer.length := List.length_pos_iff.2 hne
  have htpos : 0 < t := by omega
  have htake : (buffer.take t).length = t := by rw [List.length_take]; omega
  generalize hbdef : clusterToBlock v.vol c + f.currentOffset % clusterBytesLen v.vol / 512 = b
  generalize hwdef : decide (f.currentOffset % 512 = 0 ∧ t = 512 - f.currentOffset % 512) = whole
  -- the block write
  obtain ⟨fs', hw, hwlog, hdisk, hvol, hn', hc'⟩ :=
    Files.write_block_part_frame b (f.currentOffset % 512) (buffer.take t) whole (fsOf s v) hnf hcoh
  have hpay : splice (if whole = true then zeroBlock else s.dev.disk.get b) (f.currentOffset % 512) (buffer.take t) =
      splice (s.dev.disk.get b) (f.currentOffset % 512) (buffer.take t) := by
    cases hwh : whole with
    | false => rfl
    | true =>
      rw [hwh] at hwdef
      have := of_decide_eq_true hwdef
      rw [this.1]
      exact splice_whole_any _ _ _ Files.zeroBlock_length (hblk b) (by rw [htake]; omega)
  simp only [fsOf_dev, hpay] at hwlog hdisk
  generalize hblk' : splice (s.dev.disk.get b) (f.currentOffset % 512) (buffer.take t) = blk' at hwlog hdisk
  have hblk'len : blk'.length = 512 := by
    rw [← hblk', splice_length' _ _ _ (by rw [hblk b, htake]; omega), hblk b]
  have hwM := withVol_run vi (writeBlockPart b (f.currentOffset % 512) (buffer.take t) whole) s v h.vol
  rw [hw] at hwM
  simp only at hwM
  have hvself : ({ v with vol := fs'.vol } : VolInfo) = v := by rw [hvol]; rfl
  rw [hvself, list_set_self _ _ _ h.vol] at hwM
  -- the new state
  have hb2 : BlocksOK fs'.dev.disk := by rw [hdisk]; exact blocksOK_set _ _ _ hblk hblk'len
  have hfat : ∀ x, x < endCluster v.vol → fs'.dev.disk.get (fatBlock v.vol x) = s.dev.disk.get (fatBlock v.vol x) := by
    intro x hx
    rw [hdisk, Disk.get_set_ne]
    rw [← hbdef]
    exact fatBlock_ne_clusterBlock hg hx hcr a3
  have hcl : IsClusterBlock v.vol cs b := ⟨c, List.mem_of_getElem? hk, by omega, by omega⟩
  have hsz : f.currentOffset + t ≤ cs.length * clusterBytesLen v.vol := by
    have h1 : f.currentOffset < cs.length * clusterBytesLen v.vol := (Nat.div_lt_iff_lt_mul hcb).1 hklt
    rw [hcbdef, ← Nat.mul_assoc] at h1 ⊢
    generalize cs.length * v.vol.blocksPerCluster = M at h1 ⊢
    omega
  have hbumpsz := bump_size cc t f
  have hcur := bump_cursor cc t f
  refine ⟨{ s with dev := fs'.dev, cache := fs'.cache, files := s.files.set i (bump cc t f) }, ?_, ?_, ?_, htpos⟩
  · rw [MHoare.bind_ok hwM]
    show (Res.ok (), _) = _
    congr 1
    show ({ s with dev := fs'.dev, cache := fs'.cache, files := s.files.modify i (bump cc t) } : Mgr) = _
    rw [modify_eq_set _ _ _ _ h.file]
  · refine ⟨⟨hn', hc', hb2, hunl⟩, List.getElem?_set_self (List.getElem?_eq_some_iff.1 h.file).1, h.vol, hg, h.hint, ?_, h.ne, ?_⟩
    · refine ⟨.inr ?_, ?_, ?_, .inr ⟨f.currentOffset / clusterBytesLen v.vol, hklt, ?_, ?_⟩⟩
      · rw [(bump_loopFile cc t f).cluster]
        exact chain_congr hch fun x hx => hfat x (chain_inRange hch x hx).2
      · rw [hbumpsz]
        have := h.fileOK.size_fits
        omega
      · rw [hbumpsz, bump_offset]; omega
      · rw [hcur.1, hcc]
      · rw [hcur.2, hcc]; exact hk
    · exact owns_of_fat_eq hfat h.owns
  · refine ⟨⟨?_⟩, List.prefix_refl _, SameGeom.refl _, rfl, bump_loopFile cc t f, ?_, ?_, ?_, ?_⟩
    · show _ = ({ s with dev := fs'.dev, cache := fs'.cache, files := s.files.set i (bump cc t f), vols := s.vols.set vi v } : Mgr)
      rw [list_set_self _ _ _ h.vol]
    · rw [bump_offset, htake]
    · rw [hbumpsz, htake]
    · show fileContent v.vol fs'.dev.disk cs (bump cc t f).entry.size = _
      rw [hbumpsz, hdisk, ← hblk', ← hbdef]
      unfold fileContent
      rw [chainBytes_set v.vol s.dev.disk cs _ c _ _ (buffer.take t) hg hblk (chain_nodup hch) (chain_inRange hch) hk a3
        (by rw [htake]; omega)]
      have ho : f.currentOffset / clusterBytesLen v.vol * clusterBytesLen v.vol +
          f.currentOffset % clusterBytesLen v.vol / 512 * 512 + f.currentOffset % 512 = f.currentOffset := by omega
      rw [ho]
      have := take_splice (chainBytes v.vol s.dev.disk cs) (buffer.take t) f.currentOffset f.entry.size h.fileOK.pos_le
        (by rw [chainBytes_length _ _ _ hblk]; exact h.fileOK.size_fits)
      rw [htake] at this
      exact this
    · refine ⟨fun x _ hx2 => ?_, [(b, blk')], hwlog, fun w hw => ?_⟩
      · show fs'.dev.disk.get x = _
        rw [hdisk, Disk.get_set_ne]
        intro e
        exact hx2 (e ▸ hcl)
      · rw [List.mem_singleton] at hw
        subst hw
        exact .inr hcl

/-! ### The loop -/

/-- Progress that stored nothing. -/
theorem WProg.nil {i vi : Nat} {s s' : Mgr} {f : FileInfo} {v v' : VolInfo} {cs cs' : List Nat}
    (hstep : WStep i vi s s' f v') (hpre : cs <+: cs') (hsg : SameGeom v.vol v'.vol) (hvid : v' = { v with vol := v'.vol }) (hpos : f.currentOffset ≤ f.entry.size)
    (hcont : fileContent v.vol s'.dev.disk cs' f.entry.size = fileContent v.vol s.dev.disk cs f.entry.size)
    (ht : Touch v.vol cs' s.dev s'.dev) : WProg i vi s s' f f v v' cs cs' [] :=
  ⟨hstep, hpre, hsg, hvid, LoopFile.refl f, rfl, by rw [List.length_nil, Nat.add_zero]; exact (Nat.max_eq_left hpos).symm,
   by rw [splice_nil]; exact hcont, ht⟩

/-- The loop of `write` against the byte-array model.  From a state satisfying the invariant it
stores the first `k` bytes of the buffer at the file's position: all of them (`Ok`), or — when an
extension of the chain finds the volume full — a proper prefix (`DiskFull`).  The invariant holds
again afterwards, for a chain that has the old one as a prefix.  Fuel above the buffer length
suffices: every iteration stores at least one byte. -/
theorem writeLoop_spec (i vi : Nat) (A B : List (List Nat)) :
    ∀ (fuel : Nat) (buffer : Bytes) (s : Mgr) (f : FileInfo) (v : VolInfo) (cs : List Nat),
      buffer.length < fuel → WInv i vi A B s f v cs →
      ∃ k r s' f' v' cs', writeLoop i vi fuel buffer s = (r, s') ∧ k ≤ buffer.length ∧
        ((r = .ok () ∧ k = buffer.length) ∨ (r = .err .DiskFull ∧ k < buffer.length ∧ Full v'.vol s'.dev.disk)) ∧
        WInv i vi A B s' f' v' cs' ∧ WProg i vi s s' f f' v v' cs cs' (buffer.take k) := by
  intro fuel
  induction fuel with
  | zero => intro buffer s f v cs hlt; omega
  | succ fuel ih =>
    intro buffer s f v cs hfuel h
    have hb : BlocksOK s.dev.disk := h.ok.2.2.1
    have hrefl : WProg i vi s s f f v v cs cs [] :=
      WProg.nil (WStep.refl h.file h.vol) (List.prefix_refl _) (SameGeom.refl _) rfl h.fileOK.pos_le rfl (Touch.refl _ _ _)
    by_cases hne : buffer = []
    · subst hne
      exact ⟨0, .ok (), s, f, v, cs, writeLoop_nil i vi _ s, Nat.le_refl _, .inl ⟨rfl, rfl⟩, h, hrefl⟩
    · rw [writeLoop_succ i vi fuel buffer f s hne (MHoare.getFile_ok h.file)]
      rcases locate_spec i vi A B s f v cs h with
        ⟨c, s1, v1, cs1, hloc, h1, hk1, hpre1, hsg1, hvid1, hstep1, hdisk1, hwlog1⟩ | ⟨s1, hloc, h1, hstep1, hd1, hw1, hfull⟩
      · -- the block was located (perhaps after extending the chain)
        have hcbeq : clusterBytesLen v1.vol = clusterBytesLen v.vol := sameGeom_clusterBytesLen hsg1
        have hctb : ∀ x, clusterToBlock v1.vol x = clusterToBlock v.vol x := sameGeom_clusterToBlock hsg1
        obtain ⟨s2, hfin, h2, hprog2, htpos⟩ := finish_spec i vi A B s1 f v1 cs1 c buffer h1 (by rw [hcbeq]; exact hk1) hne
          (min (512 - f.currentOffset % 512) buffer.length) rfl
          (f.currentOffset / clusterBytesLen v.vol * clusterBytesLen v.vol, c) (by rw [hcbeq])
        rw [hcbeq, hctb] at hfin
        generalize ht : min (512 - f.currentOffset % 512) buffer.length = t at hfin h2 hprog2 htpos
        have htle : t ≤ buffer.length := by omega
        generalize hf2 : bump (f.currentOffset / clusterBytesLen v.vol * clusterBytesLen v.vol, c) t f = f2 at hfin h2 hprog2
        -- the first half as progress with no data
        have hprog1 : WProg i vi s s1 f f v v1 cs cs1 [] := by
          refine WProg.nil hstep1 hpre1 hsg1 hvid1 h.fileOK.pos_le ?_ ?_
          · obtain ⟨ext, hext⟩ := hpre1
            rw [← hext]
            have hcsz := h.fileOK.size_fits
            have hb1 : BlocksOK s1.dev.disk := h1.ok.2.2.1
            rw [fileContent_append _ _ _ _ _ hb1 hcsz]
            unfold fileContent
            congr 1
            apply chainBytes_congr
            intro x hx j hj
            exact hdisk1 _ (clusterBlock_not_fat h.geom (chain_inRange h.chain x hx) hj)
          · obtain ⟨new, e, hn⟩ := hwlog1
            exact ⟨fun b hb1 _ => hdisk1 b hb1, new, e, fun w hw => .inl (hn w hw)⟩
        have hprog12 := WProg.trans hprog1 hprog2 hb h.fileOK
        rw [List.nil_append] at hprog12
        -- the rest of the loop
        obtain ⟨k, r, s', f', v', cs', hrun, hkle, hres, h', hprog'⟩ :=
          ih (buffer.drop t) s2 f2 v1 cs1 (by rw [List.length_drop]; omega) h2
        have hlen : (buffer.drop t).length = buffer.length - t := List.length_drop
        refine ⟨t + k, r, s', f', v', cs', ?_, by omega, ?_, h', ?_⟩
        · rw [MHoare.bind_ok hloc]
          dsimp only
          rw [ht]
          have hassoc : ∀ (m1 : M Unit) (m2 : M Unit) (m3 : M Unit) (x y : Mgr), (m1 >>= fun _ => m2) x = (.ok (), y) →
              (m1 >>= fun _ => m2 >>= fun _ => m3) x = m3 y := by
            intro m1 m2 m3 x y hxy
            rw [MHoare.bind_def] at hxy ⊢
            rcases hm1 : m1 x with ⟨r1, x1⟩
            rw [hm1] at hxy
            cases r1 with
            | ok u =>
              simp only at hxy ⊢
              rw [MHoare.bind_ok hxy]
            | err e => cases hxy
            | panic m => cases hxy
            | diverged => cases hxy
          rw [hassoc _ _ _ _ _ hfin]
          exact hrun
        · rcases hres with ⟨hr, hk⟩ | ⟨hr, hk, hf⟩
          · exact .inl ⟨hr, by omega⟩
          · exact .inr ⟨hr, by omega, hf⟩
        · have := WProg.trans hprog12 hprog' hb h.fileOK
          rw [← List.take_add] at this
          exact this
      · -- the volume is full
        refine ⟨0, .err .DiskFull, s1, f, v, cs, ?_, Nat.zero_le _, .inr ⟨rfl, List.length_pos_iff.2 hne, ?_⟩, h1, ?_⟩
        · rw [MHoare.bind_err hloc]
        · rw [hd1]; exact hfull
        · exact WProg.nil hstep1 (List.prefix_refl _) (SameGeom.refl _) rfl h.fileOK.pos_le (by rw [hd1]) (Touch.of_eq hd1 hw1)

end Sdmmc.Lemmas.WriteRefines
