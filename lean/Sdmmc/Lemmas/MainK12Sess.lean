/-
Bridging lemmas for `Props/C12Main2.lean`, part 3: whole sessions against the specification card
that CONTAIN `mark_card_uninit` (hence re-identification, also of a card that is still busy), run
with the session runner that continues after errors, from a card with ARBITRARY memory contents.
-/
import Sdmmc.Lemmas.MainK12Card
import Sdmmc.Lemmas.SdSessionExpand
import Sdmmc.Lemmas.SdKeeps
import Sdmmc.Spec.SdSessionAns

namespace Sdmmc.Lemmas.MainK12
open Sdmmc.Model Sdmmc.Spec.Card Sdmmc.Model.Sd Sdmmc.Lemmas.Sd Sdmmc.Gen Sdmmc.Lemmas.SdCardSim
open Sdmmc.Lemmas.SdCardSim2 Sdmmc.Lemmas.SdSession Sdmmc.Spec.SdSession

/-- A call of the sessions covered here: `mark_card_uninit`, or a legal call. -/
def LegalU (kind : Kind) (csd : List UInt8) (c : Call) : Prop := c = .markUninit ∨ Legal kind csd c

/-- Every multiple-block read is the last call of the session or is directly followed by
`mark_card_uninit`. -/
def MultiReadsLastU : List Call → Prop
  | [] => True
  | c :: cs => (isMultiRead c = true → cs = [] ∨ ∃ cs', cs = .markUninit :: cs') ∧ MultiReadsLastU cs

/-- The card between the calls of a session, whatever the driver thinks of it: between commands,
the card it was, holding the abstract store, no violation recorded.  (Nothing about whether it is
initialised, idle, checking CRCs, or busy.) -/
structure CardOK (kind : Kind) (csd : List UInt8) (ncr nac busy gap initPolls : Nat) (st : Store) (c : Card) : Prop where
  cmdBuf : c.cmdBuf = []
  phase : c.phase = .ready
  streaming : c.streaming = none
  out : c.out = []
  kindEq : c.kind = kind
  capEq : c.capacity = capacityOfCsd csd
  csdEq : c.csd = csd
  ncrEq : c.ncr = ncr
  nacEq : c.nac = nac
  busyEq : c.busy = busy
  gapEq : c.stopGap = gap
  pollsEq : c.initPolls = initPolls
  mem : ∀ j, getBlock c j = st j
  viol : c.violations = []

theorem cardOK_of_sessInv {kind : Kind} {csd : List UInt8} {ncr nac busy gap initPolls : Nat} {st : Store} {s : St Card}
    (h : SessInv kind csd ncr nac busy gap st s) (hp : s.bus.initPolls = initPolls) :
    CardOK kind csd ncr nac busy gap initPolls st s.bus :=
  ⟨h.settled.cmdBuf, h.settled.phase, h.settled.streaming, h.settled.out, h.kindEq, h.capEq, h.csdEq, h.ncrEq,
    h.nacEq, h.busyEq, h.gapEq, hp, h.mem, h.viol⟩

/-- What holds between the calls of a session with `mark_card_uninit`, given the calls still to come. -/
def Pre (kind : Kind) (csd : List UInt8) (ncr nac busy gap initPolls : Nat) (cs : List Call) (st : Store) (s : St Card) : Prop :=
  (s.cardType = none ∧ CardOK kind csd ncr nac busy gap initPolls st s.bus) ∨
  (SessInv kind csd ncr nac busy gap st s ∧ s.bus.initPolls = initPolls ∧
    (s.bus.busyLeft ≤ DEFAULT_COMMAND_RETRIES ∨ cs = [] ∨ ∃ cs', cs = .markUninit :: cs'))

theorem pre_cardOK {kind : Kind} {csd : List UInt8} {ncr nac busy gap initPolls : Nat} {cs : List Call} {st : Store}
    {s : St Card} (h : Pre kind csd ncr nac busy gap initPolls cs st s) :
    CardOK kind csd ncr nac busy gap initPolls st s.bus := by
  rcases h with ⟨_, h⟩ | ⟨h, hp, _⟩
  · exact h
  · exact cardOK_of_sessInv h hp

/-- Identification from any state of the invariant `CardOK` establishes the session invariant. -/
theorem acquire_from_cardOK (kind : Kind) (csd : List UInt8) (ncr nac busy gap initPolls : Nat)
    (hncr : ncr ≤ DEFAULT_COMMAND_RETRIES) (hpolls : initPolls ≤ DEFAULT_COMMAND_RETRIES)
    (st : Store) (s : St Card) (hct : s.cardType = none) (hC : CardOK kind csd ncr nac busy gap initPolls st s.bus) :
    ∃ s0, checkInit cardBus s = (.ok (), s0) ∧ SessInv kind csd ncr nac busy gap st s0 ∧ s0.bus.busyLeft = 0 ∧
      s0.useCrc = s.useCrc ∧ s0.bus.initPolls = initPolls := by
  obtain ⟨s0, h0, hc0, hS0, hb0, hcrc0, hk0, hcap0, hcsd0, hncr0, hnac0, hbusy0, hmem0, hv0, hu0, hgap0⟩ :=
    acquire_correct_busy s hC.cmdBuf hC.phase hC.out hC.streaming (by rw [hC.ncrEq]; exact hncr)
      (by rw [hC.pollsEq]; exact hpolls)
  have hci : checkInit cardBus s = (.ok (), s0) := (checkInit_of_none cardBus s hct).trans h0
  have hip : s0.bus.initPolls = initPolls := by
    have := SdBus.acquire_bk cardBus (fun b => b.initPolls = s.bus.initPolls)
      (fun b out h => by show (run b out).1.initPolls = _; rw [run_initPolls]; exact h) (fun b h => h) s rfl
    rw [h0] at this
    exact this.trans hC.pollsEq
  refine ⟨s0, hci, ⟨?_, hk0.trans hC.kindEq, hcap0.trans hC.capEq, hcsd0.trans hC.csdEq, hncr0.trans hC.ncrEq,
    hnac0.trans hC.nacEq, hbusy0.trans hC.busyEq, hgap0.trans hC.gapEq, by rw [hcrc0, hu0], ?_, ?_, hv0.trans hC.viol⟩,
    hb0, hu0, hip⟩
  · exact ⟨hS0.1, hS0.2.1, hS0.2.2.1, hS0.2.2.2.1, hS0.2.2.2.2.1, hS0.2.2.2.2.2⟩
  · rw [hc0, hC.kindEq]; cases kind <;> rfl
  · intro j
    have : getBlock s0.bus j = getBlock s.bus j := by unfold getBlock; rw [hmem0]
    rw [this]; exact hC.mem j

theorem absCall_wfU (kind : Kind) (csd : List UInt8) (st : Store) (hst : ∀ j, (st j).length = 512) (c : Call)
    (hc : LegalU kind csd c) : ∀ j, ((absCall kind csd st c).2 j).length = 512 := by
  rcases hc with rfl | hc
  · exact hst
  · exact absCall_wf kind csd st hst c hc

/-- **Every session of legal calls and `mark_card_uninit`**, from any state of the invariant. -/
theorem session_pre (kind : Kind) (csd : List UInt8) (ncr nac busy gap initPolls : Nat)
    (hncr : ncr ≤ DEFAULT_COMMAND_RETRIES) (hnac : nac ≤ DEFAULT_READ_RETRIES)
    (hbusy : busy ≤ DEFAULT_WRITE_RETRIES) (hpolls : initPolls ≤ DEFAULT_COMMAND_RETRIES) (hgap : gap ≤ 1) :
    ∀ (cs : List Call) (st : Store) (s : St Card), (∀ j, (st j).length = 512) →
    Pre kind csd ncr nac busy gap initPolls cs st s → (∀ c ∈ cs, LegalU kind csd c) →
    (busy ≤ DEFAULT_COMMAND_RETRIES ∨ MultiReadsLastU cs) →
    ∃ s', runCallsA cardBus cs s = ((absRun kind csd st cs).1.map SRes.ok, s') ∧
      Pre kind csd ncr nac busy gap initPolls [] (absRun kind csd st cs).2 s' ∧ s'.useCrc = s.useCrc := by
  intro cs
  induction cs with
  | nil =>
    intro st s _ hP _ _
    refine ⟨s, rfl, ?_, rfl⟩
    rcases hP with h | ⟨h1, h2, _⟩
    · exact Or.inl h
    · exact Or.inr ⟨h1, h2, Or.inr (Or.inl rfl)⟩
  | cons c cs ih =>
    intro st s hst hP hleg hbr
    have hcl := hleg c (List.mem_cons_self ..)
    have hleg' : ∀ x ∈ cs, LegalU kind csd x := fun x hx => hleg x (List.mem_cons_of_mem _ hx)
    have hbr' : busy ≤ DEFAULT_COMMAND_RETRIES ∨ MultiReadsLastU cs := hbr.imp id fun h => h.2
    have hst' := absCall_wfU kind csd st hst c hcl
    -- the state after the call `c`, with its answer
    have hstep : ∃ s1, call cardBus c s = (.ok (absCall kind csd st c).1, s1) ∧
        Pre kind csd ncr nac busy gap initPolls cs (absCall kind csd st c).2 s1 ∧ s1.useCrc = s.useCrc := by
      rcases hcl with rfl | hc
      · -- mark_card_uninit
        have hC := pre_cardOK hP
        exact ⟨{ s with cardType := none }, rfl, Or.inl ⟨rfl, hC⟩, rfl⟩
      · have hne : c ≠ .markUninit := by intro h; rw [h] at hc; exact hc
        -- the identified state the operation starts from
        obtain ⟨s0, hci, hI0, hbl0, hu0, hp0⟩ : ∃ s0, checkInit cardBus s = (.ok (), s0) ∧
            SessInv kind csd ncr nac busy gap st s0 ∧ s0.bus.busyLeft ≤ DEFAULT_COMMAND_RETRIES ∧
            s0.useCrc = s.useCrc ∧ s0.bus.initPolls = initPolls := by
          rcases hP with ⟨hct, hC⟩ | ⟨hI, hp, hb⟩
          · obtain ⟨s0, h1, h2, h3, h4, h5⟩ := acquire_from_cardOK kind csd ncr nac busy gap initPolls hncr hpolls st s hct hC
            exact ⟨s0, h1, h2, by rw [h3]; exact Nat.zero_le _, h4, h5⟩
          · refine ⟨s, checkInit_identified cardBus s _ hI.ct, hI, ?_, rfl, hp⟩
            rcases hb with h | h | ⟨cs', h⟩
            · exact h
            · cases h
            · cases h; exact absurd rfl hne
        obtain ⟨s1, h1, hI1, hb1, hb2, hu1⟩ := callOp_step kind csd ncr nac busy gap hncr hnac hbusy hgap st hst s0 hI0
          hbl0 c hc
        rw [← call_of_checkInit cardBus c hne s s0 hci] at h1
        have hp1 : s1.bus.initPolls = initPolls := by
          have := call_initPolls c s
          rw [h1] at this
          exact this.trans (pre_cardOK hP).pollsEq
        refine ⟨s1, h1, Or.inr ⟨hI1, hp1, ?_⟩, hu1.trans hu0⟩
        cases hm : isMultiRead c with
        | false => exact Or.inl (hb1 hm)
        | true =>
          rcases hbr with h | h
          · exact Or.inl (by rw [hb2 hm]; exact h)
          · exact Or.inr (h.1 hm)
    obtain ⟨s1, h1, hP1, hu1⟩ := hstep
    obtain ⟨s2, h2, hP2, hu2⟩ := ih _ s1 hst' hP1 hleg' hbr'
    refine ⟨s2, ?_, hP2, hu2.trans hu1⟩
    simp only [runCallsA, absRun, h1, h2, List.map_cons]

end Sdmmc.Lemmas.MainK12
