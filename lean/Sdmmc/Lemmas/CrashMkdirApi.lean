/-
Crash points of `make_dir_in_dir(parent, name)` at the API level, in terms of a client record `G` of all
chains of the volume: from `CrashMakeDir.makeDir_crash` (what differs from the medium before the call at
every crash point) to "one of the records between the old and the new one is structurally sound, every
other chain and its bytes are intact".
-/
import Sdmmc.Lemmas.CrashApiDir
import Sdmmc.Lemmas.CrashMakeDir

namespace Sdmmc.Lemmas.CrashMkdirApi
open Sdmmc.Model Sdmmc.Model.Fat Sdmmc.Spec
open Sdmmc.Lemmas.FBasic hiding NoFault Coherent
open Sdmmc.Lemmas.FatOps hiding BlocksOK Mirror HintOK
open Sdmmc.Lemmas.ChainL Sdmmc.Lemmas.ForestBase Sdmmc.Lemmas.ForestStep Sdmmc.Lemmas.ForestOwns
open Sdmmc.Lemmas.ReadRefines Sdmmc.Lemmas.WriteRefines
open Sdmmc.Lemmas.CrashBase Sdmmc.Lemmas.CrashMgr Sdmmc.Lemmas.CrashDirRecord Sdmmc.Lemmas.CrashMakeDir Sdmmc.Lemmas.CrashApiDir
open Sdmmc.Lemmas.CrashDirWalk Sdmmc.Lemmas.CrashDirEntry

/-- The records a crash during `make_dir` can leave sound: the old record `G`, or `G` with the parent's
chain (index `idir`) extended by one cluster; each with or without the new directory's one-cluster chain
`[c]` appended. -/
def MkdirRecord (G : List (List Nat)) (odir : Option Nat) (dcs : List Nat) (c : Nat) (R : List (List Nat)) : Prop :=
  ∃ base, (base = G ∨ ∃ idir c2, odir = some idir ∧ base = G.set idir (dcs ++ [c2])) ∧ (R = base ∨ R = base ++ [[c]])

/-- A medium whose FAT is: `c` free or end-of-chain, the parent's chain as it was or grown by a cluster
`c2` that was free, everything else as on `d0`. -/
theorem mkdir_sound {v : FatVolume} {d0 d : Disk} {G : List (List Nat)} {odir : Option Nat} {dcs : List Nat} {dir c : Nat}
    (ho : Owns v d0 G) (hdir : DirIn v dir G dcs odir) (hroot : odir = none → dcs = []) (hrc : InRange v c) (hfc : isFree v d0 c)
    (hcs : isFree v d c ∨ nextOf v d c = .err .EndOfFile)
    (hcase : (∀ x, x ∈ G.flatten → fatRaw v d x = fatRaw v d0 x) ∨
      ∃ p c2, dcs.getLast? = some p ∧ c2 ≠ c ∧ InRange v c2 ∧ isFree v d0 c2 ∧ nextOf v d p = .ok c2 ∧ nextOf v d c2 = .err .EndOfFile ∧
        ∀ x, x ∈ G.flatten → x ≠ p → fatRaw v d x = fatRaw v d0 x) :
    ∃ R, OwnsLoose v d R ∧ MkdirRecord G odir dcs c R := by
  have hcG : c ∉ G.flatten := fun hm => free_not_used hfc (owns_mem_used ho hm)
  -- the base record
  have hbase : ∃ base, OwnsLoose v d base ∧ (base = G ∨ ∃ idir c2, odir = some idir ∧ base = G.set idir (dcs ++ [c2])) ∧
      c ∉ base.flatten := by
    rcases hcase with hsame | ⟨p, c2, hl, hc2c, hc2r, hc2f, hlk, heof, hoth⟩
    · exact ⟨G, ownsLoose_congr (ownsLoose_of_owns ho) hsame, .inl rfl, hcG⟩
    · cases odir with
      | none => rw [hroot rfl] at hl; cases hl
      | some idir =>
        obtain ⟨_, hGi, _⟩ := hdir
        refine ⟨_, grown_record_sound ho hGi hl hc2r hc2f hoth hlk heof, .inr ⟨idir, c2, rfl, rfl⟩, ?_⟩
        rw [set_at hGi]
        intro hm
        obtain ⟨hsplit, _⟩ := split_at hGi
        rcases (mem_flatten3 _ _ _ c).1 hm with h1 | h1 | h1
        · exact hcG (by rw [hsplit]; exact (mem_flatten3 _ _ _ c).2 (.inl h1))
        · rw [flatten_one] at h1
          rcases List.mem_append.1 h1 with h2 | h2
          · exact hcG (by rw [hsplit]; exact (mem_flatten3 _ _ _ c).2 (.inr (.inl (by rw [flatten_one]; exact h2))))
          · exact hc2c (List.mem_singleton.1 h2).symm
        · exact hcG (by rw [hsplit]; exact (mem_flatten3 _ _ _ c).2 (.inr (.inr h1)))
  obtain ⟨base, hs, hb, hcb⟩ := hbase
  rcases hcs with hf | he
  · exact ⟨base, hs, base, hb, .inl rfl⟩
  · exact ⟨base ++ [[c]], append_single_sound hs hcb hrc he, base, hb, .inr rfl⟩

/-- What holds of a crashed medium `d` of `make_dir` (record `G` before, new cluster `c`). -/
structure MkdirCrash (v : FatVolume) (d0 : Disk) (G : List (List Nat)) (odir : Option Nat) (dcs : List Nat) (c : Nat) (d : Disk) : Prop where
  sound : ∃ R, OwnsLoose v d R ∧ MkdirRecord G odir dcs c R
  others : ∀ j X, G[j]? = some X → odir ≠ some j → Chain v d (X.headD 0) X ∧ chainBytes v d X = chainBytes v d0 X

theorem mkdirCrash_of_noEntry {v : FatVolume} {d0 d : Disk} {G : List (List Nat)} {odir : Option Nat} {dcs : List Nat} {dir c : Nat}
    (hg : WFGeom v) (ho : Owns v d0 G) (hdir : DirIn v dir G dcs odir) (hroot : odir = none → dcs = []) (hrc : InRange v c)
    (hfc : isFree v d0 c) (h : NoEntryYet v d0 d dcs c) : MkdirCrash v d0 G odir dcs c d := by
  obtain ⟨fresh, plast, hne⟩ := h
  have hused_notfresh : ∀ x, x ∈ G.flatten → x ∉ fresh := fun x hx hm =>
    free_not_used (hne.wasFree x hm).2 (owns_mem_used ho hx)
  have hsame : ∀ x, x ∈ G.flatten → plast ≠ some x → fatRaw v d x = fatRaw v d0 x := fun x hx hp =>
    hne.within.other x (owns_mem_used ho hx).1.2 (fun hm => (List.mem_append.1 hm).elim (hused_notfresh x hx) (fun h' => hp (by
      cases plast with
      | none => cases h'
      | some q => rw [Option.toList_some, List.mem_singleton] at h'; rw [h'])))
  refine ⟨?_, fun j X hj hne' => ?_⟩
  · refine mkdir_sound ho hdir hroot hrc hfc hne.cState ?_
    cases hpl : plast with
    | none => exact .inl fun x hx => hsame x hx (by rw [hpl]; intro e; cases e)
    | some q =>
      obtain ⟨c2, hc2m, hc2c, hlk, heof⟩ := hne.grown q hpl
      exact .inr ⟨q, c2, hne.last q hpl, hc2c, (hne.wasFree c2 hc2m).1, (hne.wasFree c2 hc2m).2, hlk, heof,
        fun x hx hxq => hsame x hx (by rw [hpl]; intro e; exact hxq (Option.some.inj e).symm)⟩
  · have hXG : ∀ x, x ∈ X → x ∈ G.flatten := fun x hx => mem_flatten_of_mem (List.mem_of_getElem? hj) hx
    refine other_chain_intact hg ho (List.mem_of_getElem? hj) (fun x hx => hsame x (hXG x hx) (fun e => ?_)) fun x hx jj hjj => ?_
    · -- the parent's last cluster is no cluster of another chain
      have hq := hne.last x e
      cases odir with
      | none => rw [hroot rfl] at hq; cases hq
      | some idir =>
        obtain ⟨_, hGi, _⟩ := hdir
        have hji : j ≠ idir := fun e' => hne' (by rw [e'])
        exact CrashHist.ne_of_other_chain ho.2.1 hGi hj hji (List.mem_of_getLast? hq) hx rfl
    · have hu := owns_mem_used ho (hXG x hx)
      obtain ⟨h1, h2⟩ := used_block_facts hg hu hjj
      exact hne.within.nonFat _ h1 (fun ⟨y, hy, hin⟩ => h2 y (hne.wasFree y hy).1 (hne.wasFree y hy).2 hin)

/-- **`make_dir_in_dir`** when the name is not present: every crash point. -/
theorem makeDirInDir_crash (s sF : Mgr) (directory di vi : Nat) (name : List Nat) (sfn : Bytes) (d : DirInfo) (v : VolInfo)
    (G : List (List Nat)) (odir : Option Nat) (dcs : List Nat)
    (hs : MgrOK s) (hroom : s.dirs.length < s.maxDirs)
    (hdi : s.dirs.findIdx? (·.rawDirectory = directory) = some di) (hd : s.dirs[di]? = some d)
    (hv : s.vols.findIdx? (·.rawVolume = d.rawVolume) = some vi) (hvi : s.vols[vi]? = some v)
    (hsfn : Sfn.createFromStr name = .ok sfn)
    (hg : WFGeom v.vol) (hh : HintOK v.vol) (hown : Owns v.vol s.dev.disk G) (hdir : DirIn v.vol d.cluster G dcs odir)
    (hroot : odir = none → dcs = [])
    (hnf : (Fat.findDirectoryEntry d.cluster sfn (fsOf s v)).1 = .err .NotFound)
    (hrun : makeDirInDir directory name s = (.ok (), sF)) :
    ∃ c, InRange v.vol c ∧ isFree v.vol s.dev.disk c ∧ DirReady v.vol sF.dev.disk c d.cluster Gen.ATTR_DIRECTORY s.clock ∧
      MCrash (MkdirCrash v.vol s.dev.disk G odir dcs c) s sF := by
  obtain ⟨hnf0, hcoh, hblk, _⟩ := hs
  obtain ⟨hst, hro⟩ := withVol_ro_state vi (Fat.findDirectoryEntry d.cluster sfn) (DirMgr.findDirectoryEntry_readOnly _ _) s v hvi
  generalize hfs1 : (Fat.findDirectoryEntry d.cluster sfn (fsOf s v)).2 = fs1 at hst hro
  generalize hs1 : ({ s with dev := fs1.dev, cache := fs1.cache } : Mgr) = s1 at hst
  have h6 : withVol vi (Fat.findDirectoryEntry d.cluster sfn) s = (.err .NotFound, s1) := by
    rw [← hst, ← hnf, withVol_run vi _ s v hvi]
  have hv1 : s1.vols[vi]? = some v := by rw [← hs1]; exact hvi
  have hvol1 : fs1.vol = v.vol := hro.vol
  have hd1 : fs1.dev.disk = s.dev.disk := hro.disk
  have hw1 : fs1.dev.wlog = s.dev.wlog := hro.wlog
  have hfs : fsOf s1 v = fs1 := by rw [← hs1]; exact fsOf_ro_eq s v fs1 hro
  obtain ⟨_, _, hmk⟩ := DirMgr.makeDirInDir_guard directory di vi name sfn d s s1 (.err .NotFound) hroom (MHoare.getDirById_ok hdi)
    (MHoare.getDir_ok hd) (MHoare.getVolumeById_ok hv) hsfn h6
  simp only at hmk
  rw [hrun, withVol_run vi _ s1 v hv1, hfs] at hmk
  generalize hres : Fat.makeDir d.cluster sfn Gen.ATTR_DIRECTORY s.clock fs1 = res at hmk
  obtain ⟨r2, fs2⟩ := res
  have hr2 : r2 = .ok () := (congrArg Prod.fst hmk).symm
  have hsFdev : sF.dev = fs2.dev := congrArg (fun p => p.2.dev) hmk
  subst hr2
  -- the F-level call
  have hdirF : (dirWalkStart fs1.vol d.cluster).fixedRoot = true ∨ Chain fs1.vol fs1.dev.disk (dirWalkStart fs1.vol d.cluster).cluster dcs := by
    rw [hvol1, hd1]
    cases odir with
    | none => exact .inl hdir
    | some idir =>
      obtain ⟨_, hGi, hhd⟩ := hdir
      exact .inr (by rw [← hhd]; exact hown.1 dcs (List.mem_of_getElem? hGi))
  obtain ⟨c, sD, sM, e, hrc, hfree, _, hWD, _, hsw, hsgM, hreadyM, hMcase, _, hbnf, hready', hcr⟩ :=
    makeDir_crash fs1 fs2 d.cluster sfn Gen.ATTR_DIRECTORY s.clock dcs (hro.noFault hnf0) (hro.coherent hcoh)
      (by intro j; rw [hd1]; exact hblk j) (by rw [hvol1]; exact hg) (by rw [hvol1]; exact hh) hdirF hres
  rw [hvol1] at hrc hfree hWD hreadyM hMcase hbnf hready' hcr hsgM
  rw [hd1] at hfree hWD hcr
  refine ⟨c, hrc, hfree, by rw [hsFdev]; exact hready', ?_⟩
  -- the final medium: the FAT of the medium before the slot write
  have hfinal : MkdirCrash v.vol s.dev.disk G odir dcs c fs2.dev.disk := by
    have hfatS : ∀ x, x < endCluster v.vol → fatRaw v.vol fs2.dev.disk x = fatRaw v.vol sM.dev.disk x := fun x hx => by
      unfold fatRaw
      rw [hsw.disk, Disk.get_set_ne _ _ _ _ (fun e' => hbnf (by rw [e']; exact (FatLens.fat_blocks_in_fat_region v.vol hg x hx).1))]
    have hGE : ∀ x, x ∈ G.flatten → x < endCluster v.vol := fun x hx => (owns_mem_used hown hx).1.2
    have hcG : c ∉ G.flatten := fun hm => free_not_used hfree (owns_mem_used hown hm)
    have hDsame : ∀ x, x ∈ G.flatten → fatRaw v.vol sD.dev.disk x = fatRaw v.vol s.dev.disk x := fun x hx =>
      hWD.other x (hGE x hx) (fun hm => hcG (List.mem_singleton.1 hm ▸ hx))
    refine ⟨?_, fun j X hj hne' => ?_⟩
    · refine mkdir_sound hown hdir hroot hrc hfree (.inr ((nextOf_congr rfl (hfatS c hrc.2)).trans hreadyM.eof)) ?_
      rcases hMcase with ⟨hMD, _⟩ | ⟨p, c2, hl, hc2c, _, hgr⟩
      · exact .inl fun x hx => (hfatS x (hGE x hx)).trans (by rw [hMD]; exact hDsame x hx)
      · have hc2f : isFree v.vol s.dev.disk c2 :=
          (isFree_congr_raw (hWD.other c2 hgr.inRange.2 (fun hm => hc2c (List.mem_singleton.1 hm)))).1 hgr.wasFree
        refine .inr ⟨p, c2, hl, hc2c, hgr.inRange, hc2f, (nextOf_congr rfl (hfatS p hgr.lastUsed.1.2)).trans hgr.link,
          (nextOf_congr rfl (hfatS c2 hgr.inRange.2)).trans hgr.eof, fun x hx hxp => ?_⟩
        have hxc2 : x ≠ c2 := fun e' => free_not_used hc2f (e' ▸ owns_mem_used hown hx)
        exact (hfatS x (hGE x hx)).trans ((hgr.within.other x (hGE x hx) (by simp [hxc2, hxp])).trans (hDsame x hx))
    · -- another chain: its entries and blocks are those of the start
      have hXG : ∀ x, x ∈ X → x ∈ G.flatten := fun x hx => mem_flatten_of_mem (List.mem_of_getElem? hj) hx
      have hsameM : ∀ x, x ∈ X → fatRaw v.vol sM.dev.disk x = fatRaw v.vol s.dev.disk x := fun x hx => by
        rcases hMcase with ⟨hMD, _⟩ | ⟨p, c2, hl, hc2c, _, hgr⟩
        · rw [hMD]; exact hDsame x (hXG x hx)
        · have hc2f : isFree v.vol s.dev.disk c2 :=
            (isFree_congr_raw (hWD.other c2 hgr.inRange.2 (fun hm => hc2c (List.mem_singleton.1 hm)))).1 hgr.wasFree
          have hxc2 : x ≠ c2 := fun e' => free_not_used hc2f (e' ▸ owns_mem_used hown (hXG x hx))
          have hxp : x ≠ p := by
            cases odir with
            | none => rw [hroot rfl] at hl; cases hl
            | some idir =>
              obtain ⟨_, hGi, _⟩ := hdir
              have hji : j ≠ idir := fun e' => hne' (by rw [e'])
              exact CrashHist.ne_of_other_chain hown.2.1 hGi hj hji (List.mem_of_getLast? hl) hx
          exact (hgr.within.other x (hGE x (hXG x hx)) (by simp [hxc2, hxp])).trans (hDsame x (hXG x hx))
      refine other_chain_intact hg hown (List.mem_of_getElem? hj) (fun x hx => (hfatS x (hGE x (hXG x hx))).trans (hsameM x hx))
        fun x hx jj hjj => ?_
      have hu := owns_mem_used hown (hXG x hx)
      obtain ⟨h1, h2⟩ := used_block_facts hg hu hjj
      have hB : clusterToBlock v.vol x + jj ≠ e.entryBlock := by
        rcases hMcase with ⟨_, hin⟩ | ⟨p, c2, _, hc2c, hbk, hgr⟩
        · exact inWalk_not_other hg hown hdir hin hj hne' x hx jj hjj
        · have hc2f : isFree v.vol s.dev.disk c2 :=
            (isFree_congr_raw (hWD.other c2 hgr.inRange.2 (fun hm => hc2c (List.mem_singleton.1 hm)))).1 hgr.wasFree
          rw [hbk]
          intro heq
          exact h2 c2 hgr.inRange hc2f (by rw [heq]; exact ⟨Nat.le_refl _, by have := hg.bpc_pos; omega⟩)
      rw [hsw.disk, Disk.get_set_ne _ _ _ _ (fun e' => hB e'.symm)]
      have hDB : sD.dev.disk.get (clusterToBlock v.vol x + jj) = s.dev.disk.get (clusterToBlock v.vol x + jj) :=
        hWD.nonFat _ h1 (fun ⟨y, hy, hin⟩ => h2 y (by rw [List.mem_singleton.1 hy]; exact hrc) (by rw [List.mem_singleton.1 hy]; exact hfree) hin)
      rcases hMcase with ⟨hMD, _⟩ | ⟨p, c2, _, hc2c, _, hgr⟩
      · rw [hMD]; exact hDB
      · have hc2f : isFree v.vol s.dev.disk c2 :=
          (isFree_congr_raw (hWD.other c2 hgr.inRange.2 (fun hm => hc2c (List.mem_singleton.1 hm)))).1 hgr.wasFree
        rw [hgr.within.nonFat _ h1 (fun hz => h2 c2 hgr.inRange hc2f hz.2)]
        exact hDB
  have hdev1 : fs1.dev = s1.dev := by rw [← hs1]
  have c1 : MCrash (MkdirCrash v.vol s.dev.disk G odir dcs c) s s1 := by
    rw [← hs1]
    refine MCrash.same' hw1 hd1 ?_
    have hinit := hcr.initial
    rw [hd1] at hinit
    rcases hinit with h0 | h0
    · exact mkdirCrash_of_noEntry hg hown hdir hroot hrc hfree h0
    · have := hfinal
      rw [← h0] at this
      exact this
  refine c1.trans (MCrash.of_fs (hcr.mono fun dd hdd => ?_) hdev1 hsFdev.symm)
  rcases hdd with hdd | rfl
  · exact mkdirCrash_of_noEntry hg hown hdir hroot hrc hfree hdd
  · exact hfinal

end Sdmmc.Lemmas.CrashMkdirApi
