/-
Concrete volumes satisfying the volume invariant `VolInv` (proved through the checker of
`Sdmmc.Lemmas.VolCheck`), negative examples, and — in a section marked as tests — evaluated histories
of the manager model with the checker's verdict after every call.
-/
import Sdmmc.Lemmas.VolCheck

namespace Sdmmc.Lemmas.VolExample

open Sdmmc.Model Sdmmc.Model.Fat Sdmmc.Spec Sdmmc.Spec.Volume Sdmmc.Lemmas.VolCheck

/-! ### Building blocks -/

/-- pad a block to 512 bytes -/
def pad (b : Bytes) : Block := b ++ zeros (512 - b.length)

/-- a FAT16 directory slot: 11 name bytes, attribute, start cluster, size -/
def ent16 (name : Bytes) (attr cluster size : Nat) : Bytes :=
  name ++ [UInt8.ofNat attr] ++ zeros 14 ++ leU16 cluster ++ leU32 size

/-- a FAT32 directory slot -/
def ent32 (name : Bytes) (attr cluster size : Nat) : Bytes :=
  name ++ [UInt8.ofNat attr] ++ zeros 8 ++ leU16 (cluster / 65536) ++ zeros 4 ++ leU16 (cluster % 65536) ++ leU32 size

def nLabel : Bytes := [77, 89, 86, 79, 76, 32, 32, 32, 32, 32, 32]      -- "MYVOL      "
def nA : Bytes := [65, 32, 32, 32, 32, 32, 32, 32, 84, 88, 84]          -- "A       TXT"
def nSub : Bytes := [83, 85, 66, 32, 32, 32, 32, 32, 32, 32, 32]        -- "SUB        "
def nB : Bytes := [66, 32, 32, 32, 32, 32, 32, 32, 66, 73, 78]          -- "B       BIN"
def nE : Bytes := [69, 32, 32, 32, 32, 32, 32, 32, 68, 65, 84]          -- "E       DAT"
def nOld : Bytes := [0xE5, 76, 68, 32, 32, 32, 32, 32, 84, 88, 84]      -- deleted "?LD     TXT"
/-- a long-name fragment slot (sequence 1, last; attribute 0x0F) -/
def lfnFrag : Bytes := [0x41, 97, 0, 46, 0, 116, 0, 120, 0, 116, 0, 0x0F, 0, 0x5D] ++ zeros 18

/-! ### (a) A FAT16 volume -/

/-- 20 clusters of one block; FAT copies at blocks 1 and 2, the 16-entry root at block 3, data from
block 4 (cluster `c` is block `c + 2`). -/
def vol16 : FatVolume :=
  { lbaStart := 0, numBlocks := 40, name := [], blocksPerCluster := 1, firstDataBlock := 4, fatStart := 1,
    secondFatStart := some 2, freeClustersCount := none, nextFreeCluster := none, clusterCount := 20,
    fatType := .fat16, rootEntriesCount := 16, firstRootDirBlock := 3, infoLocation := 0, firstRootDirCluster := 0 }

/-- FAT: `2 → 3` (A.TXT), `4` (SUB), `5` (B.BIN), `6` (E.DAT, pending) or free, cluster 7 bad, 8 … 21 free. -/
def fat16Blk (e6 : Nat) : Block :=
  pad ([0xF8, 0xFF, 0xFF, 0xFF, 3, 0, 0xFF, 0xFF, 0xFF, 0xFF, 0xFF, 0xFF] ++ leU16 e6 ++ [0xF7, 0xFF])

/-- root: label, long-name fragment, `A.TXT` (700 bytes from cluster 2), a deleted slot, `SUB` (cluster 4). -/
def root16Blk : Block :=
  pad (ent16 nLabel 0x08 0 0 ++ lfnFrag ++ ent16 nA 0x20 2 700 ++ ent16 nOld 0x20 0 0 ++ ent16 nSub 0x10 4 0)

/-- `SUB`: `.`, `..`, `B.BIN` (100 bytes, cluster 5), `E.DAT` (empty, no cluster). -/
def sub16Blk : Block :=
  pad (ent16 Sfn.thisDir 0x10 4 0 ++ ent16 Sfn.parentDir 0x10 0 0 ++ ent16 nB 0x20 5 100 ++ ent16 nE 0x20 0 0)

def disk16 (e6 : Nat) : Disk :=
  ((((((Disk.empty.set 1 (fat16Blk e6)).set 2 (fat16Blk e6)).set 3 root16Blk).set 4 (List.replicate 512 0x61)).set 5
    (List.replicate 512 0x62)).set 6 sub16Blk).set 7 (List.replicate 512 0x63)

/-- `E.DAT` opened and written to (5 bytes in the freshly allocated cluster 6), not yet flushed: the
entry on the medium still says cluster 0, size 0. -/
def fileE : FileInfo :=
  { rawFile := 4, rawVolume := 1, curClusterOff := 0, curCluster := 6, currentOffset := 5, mode := .ReadWriteAppend,
    entry := { name := nE, mtime := default, ctime := default, attributes := 0x20, cluster := 6, size := 5,
               entryBlock := 6, entryOffset := 96 },
    dirty := true }

/-- the volume open, handles on the root and on `SUB`, `E.DAT` open with pending cluster / size -/
def mgr0 : Mgr :=
  { dev := { disk := (disk16 0xFFFF).set 8 (pad [104, 101, 108, 108, 111]) }, nextId := 10,
    vols := [{ rawVolume := 1, idx := 0, vol := vol16 }],
    dirs := [{ rawDirectory := 2, rawVolume := 1, cluster := Gen.CLUSTER_ROOT_DIR }, { rawDirectory := 3, rawVolume := 1, cluster := 4 }],
    files := [fileE], maxVols := 1, maxDirs := 4, maxFiles := 4 }

def gh0 : Ghost := { vol := vol16, G := [[2, 3], [4], [5], [6]], dirs := [(4, 0)] }

theorem mgr0_inv : VolInv mgr0 gh0 := checkVolInv_sound mgr0 gh0 (by decide +kernel)

/-- the quiescent variant: no file open, cluster 6 free -/
def mgr1 : Mgr :=
  { dev := { disk := disk16 0 }, nextId := 10,
    vols := [{ rawVolume := 1, idx := 0, vol := vol16 }],
    dirs := [{ rawDirectory := 2, rawVolume := 1, cluster := Gen.CLUSTER_ROOT_DIR }, { rawDirectory := 3, rawVolume := 1, cluster := 4 }],
    maxVols := 1, maxDirs := 4, maxFiles := 4 }

def gh1 : Ghost := { vol := vol16, G := [[2, 3], [4], [5]], dirs := [(4, 0)] }

theorem mgr1_inv : VolInv mgr1 gh1 := checkVolInv_sound mgr1 gh1 (by decide +kernel)

/-! ### (b) A FAT32 volume -/

def nF : Bytes := [70, 32, 32, 32, 32, 32, 32, 32, 84, 88, 84]          -- "F       TXT"
def nG : Bytes := [71, 32, 32, 32, 32, 32, 32, 32, 66, 73, 78]          -- "G       BIN"

/-- 20 clusters of one block; info sector at block 1, FAT copies at blocks 2 and 3, data from block 4
(cluster `c` is block `c + 2`), root directory = chain of cluster 2; 15 clusters free, the first is 7. -/
def vol32 : FatVolume :=
  { lbaStart := 0, numBlocks := 40, name := [], blocksPerCluster := 1, firstDataBlock := 4, fatStart := 2,
    secondFatStart := some 3, freeClustersCount := some 15, nextFreeCluster := some 7, clusterCount := 20,
    fatType := .fat32, rootEntriesCount := 0, firstRootDirBlock := 0, infoLocation := 1, firstRootDirCluster := 2 }

def eoc32 : Bytes := [0xFF, 0xFF, 0xFF, 0x0F]

/-- FAT: `2` (root), `3` (SUB), `4 → 5` (F.TXT), `6` (G.BIN), 7 … 21 free. -/
def fat32Blk : Block := pad ([0xF8, 0xFF, 0xFF, 0x0F] ++ eoc32 ++ eoc32 ++ eoc32 ++ leU32 5 ++ eoc32 ++ eoc32)

/-- info sector: the three signatures, free count 15, next free 7 -/
def info32Blk : Block :=
  leU32 Gen.INFO_LEAD_SIG ++ zeros 480 ++ leU32 Gen.INFO_STRUC_SIG ++ leU32 15 ++ leU32 7 ++ zeros 12 ++ leU32 Gen.INFO_TRAIL_SIG

/-- root: label, `SUB` (cluster 3), `F.TXT` (600 bytes from cluster 4) -/
def root32Blk : Block := pad (ent32 nLabel 0x08 0 0 ++ ent32 nSub 0x10 3 0 ++ ent32 nF 0x20 4 600)

/-- `SUB`: `.`, `..`, `G.BIN` (10 bytes, cluster 6) -/
def sub32Blk : Block := pad (ent32 Sfn.thisDir 0x10 3 0 ++ ent32 Sfn.parentDir 0x10 0 0 ++ ent32 nG 0x20 6 10)

def disk32 : Disk :=
  ((((((Disk.empty.set 1 info32Blk).set 2 fat32Blk).set 3 fat32Blk).set 4 root32Blk).set 5 sub32Blk).set 6
    (List.replicate 512 0x66)).set 7 (List.replicate 512 0x67)

/-- the volume open, handles on the root and on `SUB`, no file open -/
def mgr32 : Mgr :=
  { dev := { disk := disk32 }, nextId := 10,
    vols := [{ rawVolume := 1, idx := 0, vol := vol32 }],
    dirs := [{ rawDirectory := 2, rawVolume := 1, cluster := Gen.CLUSTER_ROOT_DIR }, { rawDirectory := 3, rawVolume := 1, cluster := 3 }],
    maxVols := 1, maxDirs := 8, maxFiles := 4 }

def gh32 : Ghost := { vol := vol32, G := [[2], [3], [4, 5], [6]], dirs := [(3, 0)] }

theorem mgr32_inv : VolInv mgr32 gh32 := checkVolInv_sound mgr32 gh32 (by decide +kernel)

/-- The recorded free count of the FAT32 example is exact. -/
theorem mgr32_count : freeCount vol32 disk32 = 15 := by decide +kernel

/-! ### (c) Negative examples -/

/-- `mgr1` with another root block / another `SUB` block -/
def mgrWith (root sub : Block) : Mgr :=
  { mgr1 with dev := { disk := ((disk16 0).set 3 root).set 6 sub } }

theorem vol_of_inv {root sub : Block} {gh : Ghost} (h : VolInv (mgrWith root sub) gh) : gh.vol = vol16 := by
  rcases h.vols with h0 | ⟨vi, h1, h2⟩
  · cases h0
  · rw [← h2]
    have : ({ rawVolume := 1, idx := 0, vol := vol16 } : VolInfo) = vi := by
      have h3 : [({ rawVolume := 1, idx := 0, vol := vol16 } : VolInfo)] = [vi] := h1
      injection h3
    rw [← this]

instance (ss : List Slot) : Decidable (CleanTail ss) := by unfold CleanTail; infer_instance

/-- 1. a cross-linked cluster: `A.TXT` and `C.TXT` both name the chain of cluster 2 -/
def rootCross : Block :=
  pad (ent16 nLabel 0x08 0 0 ++ lfnFrag ++ ent16 nA 0x20 2 700 ++ ent16 nOld 0x20 0 0 ++ ent16 nSub 0x10 4 0 ++
    ent16 [67, 32, 32, 32, 32, 32, 32, 32, 84, 88, 84] 0x20 2 10)

/-- with the chain listed once the references do not match the chains (`allRefs`) … -/
theorem crossLinked_once : checkVolInv (mgrWith rootCross sub16Blk) gh1 = false ∧
    allRefsB .fat16 [] gh1.G gh1.dirs (dirSlots vol16 (mgrWith rootCross sub16Blk).dev.disk gh1.G) [] = false := by
  decide +kernel

/-- … listed twice the chains overlap (`Owns`: `G.flatten.Nodup`) -/
theorem crossLinked_twice : checkVolInv (mgrWith rootCross sub16Blk) { gh1 with G := [[2, 3], [4], [5], [2, 3]] } = false ∧
    ownsB vol16 (mgrWith rootCross sub16Blk).dev.disk [[2, 3], [4], [5], [2, 3]] = false := by
  decide +kernel

theorem count_heads_le (c : Nat) : ∀ G : List (List Nat), (∀ cs, cs ∈ G → cs.headD 0 = c → c ∈ cs) →
    (G.map fun cs => cs.headD 0).count c ≤ G.flatten.count c
  | [], _ => Nat.le_refl _
  | cs :: G, h => by
    have ih := count_heads_le c G (fun cs' hm => h cs' (List.mem_cons_of_mem _ hm))
    rw [List.map_cons, List.flatten_cons, List.count_append, List.count_cons]
    by_cases hc : cs.headD 0 = c
    · have := List.count_pos_iff.2 (h cs List.mem_cons_self hc)
      simp only [hc, beq_self_eq_true, if_true]
      omega
    · have : (cs.headD 0 == c) = false := by simpa using hc
      simp only [this]
      simp only [Bool.false_eq_true, if_false]
      omega

/-- no ghost makes the cross-linked volume sound -/
theorem crossLinked (gh : Ghost) : ¬ VolInv (mgrWith rootCross sub16Blk) gh := by
  intro h
  have hv := vol_of_inv h
  have hp := h.med.tree.allRefs
  have ho := h.med.owns
  rw [hv] at hp ho
  -- cluster 2 is referenced twice by the root directory
  have h2 : 2 ≤ (fileRefs .fat16 [] (objects 0 (fixedRootSlots vol16 (mgrWith rootCross sub16Blk).dev.disk))).count 2 := by
    decide +kernel
  have hc := hp.count_eq 2
  have hF0 : fileRefs vol16.fatType (mgrWith rootCross sub16Blk).files
      (objects 0 (dirSlots vol16 (mgrWith rootCross sub16Blk).dev.disk gh.G 0)) =
      fileRefs .fat16 [] (objects 0 (fixedRootSlots vol16 (mgrWith rootCross sub16Blk).dev.disk)) := rfl
  have hd : dirIds gh.dirs = 0 :: gh.dirs.map Prod.fst := rfl
  rw [hd, List.flatMap_cons, hF0] at hc
  simp only [List.count_append] at hc
  have hle := count_heads_le 2 gh.G (fun cs hm hh => by
    have := ChainL.chain_head? (ho.1 cs hm)
    rw [hh] at this
    exact List.mem_of_mem_head? this)
  have := List.nodup_iff_count.1 ho.2.1 2
  omega

/-- 2. a live entry (`Z.TXT`, slot 6) after the end marker (slot 5) -/
def rootTail : Block :=
  pad (ent16 nLabel 0x08 0 0 ++ lfnFrag ++ ent16 nA 0x20 2 700 ++ ent16 nOld 0x20 0 0 ++ ent16 nSub 0x10 4 0 ++
    zeros 32 ++ ent16 [90, 32, 32, 32, 32, 32, 32, 32, 84, 88, 84] 0x20 0 0)

theorem liveAfterEnd_check : checkVolInv (mgrWith rootTail sub16Blk) gh1 = false := by decide +kernel

/-- no ghost makes it a sound volume -/
theorem liveAfterEnd (gh : Ghost) : ¬ VolInv (mgrWith rootTail sub16Blk) gh := by
  intro h
  have hv := vol_of_inv h
  have hc := h.med.tree.cleanTail 0 List.mem_cons_self
  rw [hv] at hc
  have hc' : CleanTail (fixedRootSlots vol16 (mgrWith rootTail sub16Blk).dev.disk) := hc
  exact absurd hc' (by decide +kernel)

/-- 3. duplicate names: two entries `A.TXT` in the root -/
def rootDup : Block :=
  pad (ent16 nLabel 0x08 0 0 ++ lfnFrag ++ ent16 nA 0x20 2 700 ++ ent16 nOld 0x20 0 0 ++ ent16 nSub 0x10 4 0 ++
    ent16 nA 0x20 0 0)

theorem duplicateNames_check : checkVolInv (mgrWith rootDup sub16Blk) gh1 = false := by decide +kernel

theorem duplicateNames (gh : Ghost) : ¬ VolInv (mgrWith rootDup sub16Blk) gh := by
  intro h
  have hv := vol_of_inv h
  have hc := h.med.tree.names 0 List.mem_cons_self
  rw [hv] at hc
  have hc' : ((entries (fixedRootSlots vol16 (mgrWith rootDup sub16Blk).dev.disk)).map sName).Nodup := hc
  exact absurd hc' (by decide +kernel)

/-- 4. a wrong `..`: `SUB` lies in the root, its `..` names cluster 5 -/
def subWrongDotDot : Block :=
  pad (ent16 Sfn.thisDir 0x10 4 0 ++ ent16 Sfn.parentDir 0x10 5 0 ++ ent16 nB 0x20 5 100 ++ ent16 nE 0x20 0 0)

theorem wrongDotDot_check : checkVolInv (mgrWith root16Blk subWrongDotDot) gh1 = false ∧
    dotsB .fat16 gh1.dirs (dirSlots vol16 (mgrWith root16Blk subWrongDotDot).dev.disk gh1.G) = false ∧
    -- nor does it help to claim that `SUB` lies in "directory 5"
    checkVolInv (mgrWith root16Blk subWrongDotDot) { gh1 with dirs := [(4, 5)] } = false := by
  decide +kernel

theorem chainSlots_cons' (v : FatVolume) (d : Disk) (c : Nat) (cs : List Nat) :
    chainSlots v d (c :: cs) = runSlots d (clusterToBlock v c) v.blocksPerCluster ++ chainSlots v d cs := by
  simp only [chainSlots, List.flatMap_cons]

/-- no ghost makes the volume with the wrong `..` sound -/
theorem wrongDotDot (gh : Ghost) : ¬ VolInv (mgrWith root16Blk subWrongDotDot) gh := by
  intro h
  have hv := vol_of_inv h
  have ht := h.med.tree
  rw [hv] at ht
  -- `SUB` is a sub-directory entry of the root, so `(4, 0)` is a sub-directory
  have hsub : (4, 0) ∈ gh.dirs := by
    obtain ⟨o, ho, hd, hcl⟩ : ∃ o, o ∈ objects 0 (fixedRootSlots vol16 (mgrWith root16Blk subWrongDotDot).dev.disk) ∧
        isDirE o = true ∧ sCluster .fat16 o = 4 := by decide +kernel
    have := ht.subdirs 0 List.mem_cons_self o ho hd
    have hcl' : sCluster vol16.fatType o = 4 := hcl
    rwa [hcl'] at this
  obtain ⟨s0, s1, rest, hs, _, h1⟩ := ht.dots 4 0 hsub
  have hs' : chainSlots vol16 (mgrWith root16Blk subWrongDotDot).dev.disk (chainOf gh.G 4) = s0 :: s1 :: rest := hs
  unfold chainOf at hs'
  cases hf : gh.G.find? (fun cs => decide (cs.head? = some 4)) with
  | none => rw [hf] at hs'; cases hs'
  | some cs =>
    have hp : cs.head? = some 4 := by
      have := List.find?_some hf
      exact of_decide_eq_true this
    rw [hf, Option.getD_some] at hs'
    obtain ⟨tl, rfl⟩ : ∃ tl, cs = 4 :: tl := by
      cases cs with
      | nil => cases hp
      | cons a tl => exact ⟨tl, by rw [show a = 4 from Option.some.inj hp]⟩
    rw [chainSlots_cons'] at hs'
    have h16 : 1 < (runSlots (mgrWith root16Blk subWrongDotDot).dev.disk (clusterToBlock vol16 4) vol16.blocksPerCluster).length := by
      decide +kernel
    have hg : (runSlots (mgrWith root16Blk subWrongDotDot).dev.disk (clusterToBlock vol16 4) vol16.blocksPerCluster)[1]? = some s1 := by
      rw [← List.getElem?_append_left h16, hs']; rfl
    have hc : ((runSlots (mgrWith root16Blk subWrongDotDot).dev.disk (clusterToBlock vol16 4) vol16.blocksPerCluster)[1]?).map
        (sCluster .fat16) = some 5 := by decide +kernel
    rw [hg] at hc
    have h5 : sCluster .fat16 s1 = 5 := Option.some.inj hc
    have h0 : sCluster .fat16 s1 = 0 := h1.2.2.2
    rw [h5] at h0
    cases h0

/-- the unmodified blocks give `mgr1` back: the negative examples differ from a sound volume in one block -/
theorem mgrWith_sound : checkVolInv (mgrWith root16Blk sub16Blk) gh1 = true := by decide +kernel


end Sdmmc.Lemmas.VolExample
