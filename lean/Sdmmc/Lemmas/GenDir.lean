/-
Facts about the model's FAT engine used by `Props/C09GenM.lean` (the directory functions that allocate):
a cluster handed out by `allocCluster` lies below `endCluster`, and `allocCluster` keeps the geometry of the
volume record.
-/
import Sdmmc.Lemmas.FatOps
import Sdmmc.Lemmas.FaultInvLen

namespace Sdmmc.Lemmas.GenDir

open Sdmmc Sdmmc.Model Sdmmc.Model.Fat Sdmmc.Lemmas.FBasic Sdmmc.Lemmas.FatOps Sdmmc.Gen

theorem fnfc_lt : ∀ (fuel cur endC : Nat) (fs : FS) (c : Nat),
    (findNextFreeCluster fuel cur endC fs).1 = .ok c → c < endC
  | 0, _, _, _, _, h => by cases h
  | fuel + 1, cur, endC, fs, c, h => by
    rw [findNextFreeCluster] at h
    simp only [FBasic.ite_apply, fail_apply, bind_apply, getVol_apply] at h
    split at h
    · cases h
    · rename_i hlt
      rcases hcr : cacheRead (fatBlock fs.vol cur) fs with ⟨r, fs1⟩
      rw [hcr] at h
      cases r with
      | ok u =>
        simp only [cacheBlk, pure_apply] at h
        split at h <;> split at h
        all_goals first
          | (simp only [Res.ok.injEq] at h; omega)
          | exact fnfc_lt fuel (cur + 1) endC fs1 c h
      | err e => cases h
      | panic m => cases h
      | diverged => cases h

theorem fnf_lt (start endC : Nat) (fs : FS) (c : Nat) (h : (findNextFree start endC fs).1 = .ok c) : c < endC :=
  fnfc_lt _ _ _ _ _ h

theorem bind_fst_ok {α β : Type} {m : F α} {f : α → F β} {s : FS} {b : β} (h : ((m >>= f) s).1 = .ok b) :
    ∃ a s', m s = (.ok a, s') ∧ (f a s').1 = .ok b := by
  rw [bind_apply] at h
  rcases hm : m s with ⟨r, s'⟩
  rw [hm] at h
  cases r with
  | ok a => exact ⟨a, s', rfl, h⟩
  | err e => cases h
  | panic m => cases h
  | diverged => cases h

theorem allocPick_ok_lt (v : FatVolume) (fs : FS) (c : Nat) (h : (allocPick v fs).1 = .ok c) : c < endCluster v := by
  unfold allocPick at h
  simp only [bind_apply, attempt_apply] at h
  rcases hf : findNextFree (allocStart v) (endCluster v) fs with ⟨r, s2⟩
  rw [hf] at h
  cases r with
  | ok c' =>
    simp only [pure_apply] at h
    cases h
    exact fnf_lt _ _ _ _ (by rw [hf])
  | err e =>
    cases e
    case NotEnoughSpace =>
      simp only [FBasic.ite_apply, fail_apply] at h
      split at h
      · exact fnf_lt _ _ _ _ h
      · cases h
    all_goals (simp only [lift_apply] at h; cases h)
  | panic m => simp only [lift_apply] at h; cases h
  | diverged => simp only [lift_apply] at h; cases h

theorem allocCluster_ok_lt (prev : Option Nat) (zero : Bool) (fs : FS) (c : Nat)
    (h : (allocCluster prev zero fs).1 = .ok c) : c < endCluster fs.vol := by
  rw [allocCluster_seq] at h
  obtain ⟨nc, s1, h1, h⟩ := bind_fst_ok h
  have hnc := allocPick_ok_lt fs.vol fs nc (by rw [h1])
  unfold allocTail at h
  obtain ⟨_, s4, _, h⟩ := bind_fst_ok h
  obtain ⟨_, s5, _, h⟩ := bind_fst_ok h
  obtain ⟨_, s6, _, h⟩ := bind_fst_ok h
  obtain ⟨_, s7, _, h⟩ := bind_fst_ok h
  obtain ⟨_, s8, _, h⟩ := bind_fst_ok h
  simp only [pure_apply] at h
  cases h
  exact hnc

/-- `allocCluster` changes at most the two bookkeeping fields of the volume record. -/
theorem allocCluster_vol (prev : Option Nat) (zero : Bool) (fs : FS) :
    ∃ a b, (allocCluster prev zero fs).2.vol = { fs.vol with freeClustersCount := a, nextFreeCluster := b } :=
  Sdmmc.Lemmas.FaultInv.allocCluster_geo prev zero fs

end Sdmmc.Lemmas.GenDir
