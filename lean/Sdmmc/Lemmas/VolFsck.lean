/-
Bridge from the volume invariant `VolInv` (C03) to the independent structure checker `Spec.Fs.fsck`,
layers F0 and F1:

* F0 `GeomOf v g` — the volume record `v` and the checker's geometry `g` (numbers) describe the same volume;
     `pendingOf s` — the pending list the driver hands to the checker;
     `loadFat_getD` — the checker's FAT table is the FAT the crate reads (`fatEntry`), both FAT types.
* F1 `chainT_of_chain` — the checker's chain walk returns the chain of `Chain v d c cs`, under the extra
     hypothesis (H1) `NoOne` on FAT32 (see there), with the evaluated counterexample in `VolFsck9`.
-/
import Sdmmc.Spec.VolumeFsck
import Sdmmc.Lemmas.VolCor

namespace Sdmmc.Lemmas.VolFsck
open Sdmmc.Model Sdmmc.Model.Fat Sdmmc.Spec Sdmmc.Spec.Volume

/-! ### F0: geometry, pending state -/

theorem geomOf_geomOfVol (v : FatVolume) : GeomOf v (geomOfVol v) :=
  ⟨by simp [geomOfVol], rfl, rfl, rfl, rfl, rfl, rfl, rfl, rfl⟩

theorem _root_.Sdmmc.Spec.Volume.GeomOf.fat32_false {v : FatVolume} {g : Fs.Geom} (hg : GeomOf v g) : g.fat32 = false ↔ v.fatType = .fat16 := by
  have := hg.fat32
  cases hf : g.fat32 <;> cases hv : v.fatType <;> simp [hf, hv] at this ⊢

theorem _root_.Sdmmc.Spec.Volume.GeomOf.endCluster {v : FatVolume} {g : Fs.Geom} (hg : GeomOf v g) : g.clusters + 2 = endCluster v := by
  rw [hg.clusters]; rfl

theorem _root_.Sdmmc.Spec.Volume.GeomOf.inRange {v : FatVolume} {g : Fs.Geom} (hg : GeomOf v g) (c : Nat) : Fs.inRange g c = true ↔ InRange v c := by
  unfold Fs.inRange InRange
  rw [hg.endCluster]
  simp

/-! ### F0: decoding a FAT block -/

theorem byteAt_cons4 (a b c e : UInt8) (rest : Bytes) (i : Nat) : byteAt (a :: b :: c :: e :: rest) (i + 4) = byteAt rest i := rfl

theorem decode32_getD : ∀ (k : Nat) (b : Bytes), 4 * k + 4 ≤ b.length →
    (Fs.decodeFatBlock true b).getD k 0 = readU32 b (4 * k) % 268435456
  | k, [], h => by simp at h
  | k, [_], h => by (simp at h; try omega)
  | k, [_, _], h => by (simp at h; try omega)
  | k, [_, _, _], h => by (simp at h; try omega)
  | 0, a :: b :: c :: e :: rest, _ => by
    simp [Fs.decodeFatBlock, readU32, byteAt]
  | k + 1, a :: b :: c :: e :: rest, h => by
    have ih := decode32_getD k rest (by (simp at h; try omega))
    have e1 : 4 * (k + 1) = 4 * k + 4 := by omega
    have e2 : 4 * (k + 1) + 1 = 4 * k + 1 + 4 := by omega
    have e3 : 4 * (k + 1) + 2 = 4 * k + 2 + 4 := by omega
    have e4 : 4 * (k + 1) + 3 = 4 * k + 3 + 4 := by omega
    simp only [Fs.decodeFatBlock, if_true, List.getD_cons_succ]
    rw [ih]
    unfold readU32
    rw [e2, e3, e4, e1, byteAt_cons4, byteAt_cons4, byteAt_cons4, byteAt_cons4]

theorem decode16_getD : ∀ (k : Nat) (b : Bytes), b.length % 4 = 0 → 2 * k + 2 ≤ b.length →
    (Fs.decodeFatBlock false b).getD k 0 = readU16 b (2 * k)
  | k, [], _, h => by simp at h
  | k, [_], h4, _ => by simp at h4
  | k, [_, _], h4, _ => by simp at h4
  | k, [_, _, _], h4, _ => by simp at h4
  | 0, a :: b :: c :: e :: rest, _, _ => by
    simp [Fs.decodeFatBlock, readU16, byteAt]
  | 1, a :: b :: c :: e :: rest, _, _ => by
    simp [Fs.decodeFatBlock, readU16, byteAt]
  | k + 2, a :: b :: c :: e :: rest, h4, h => by
    have ih := decode16_getD k rest (by simp at h4; omega) (by (simp at h; try omega))
    have e1 : 2 * (k + 2) = 2 * k + 4 := by omega
    have e2 : 2 * (k + 2) + 1 = 2 * k + 1 + 4 := by omega
    simp only [Fs.decodeFatBlock, Bool.false_eq_true, if_false, List.getD_cons_succ]
    rw [ih]
    unfold readU16
    rw [e2, e1, byteAt_cons4, byteAt_cons4]

theorem decode32_length : ∀ (n : Nat) (b : Bytes), b.length = 4 * n → (Fs.decodeFatBlock true b).length = n
  | 0, [], _ => rfl
  | 0, _ :: _, h => by simp at h
  | n + 1, [], h => by simp at h
  | n + 1, [_], h => by (simp at h; try omega)
  | n + 1, [_, _], h => by (simp at h; try omega)
  | n + 1, [_, _, _], h => by (simp at h; try omega)
  | n + 1, a :: b :: c :: e :: rest, h => by
    have ih := decode32_length n rest (by (simp at h; try omega))
    simp only [Fs.decodeFatBlock, if_true, List.length_cons, ih]

theorem decode16_length : ∀ (n : Nat) (b : Bytes), b.length = 4 * n → (Fs.decodeFatBlock false b).length = 2 * n
  | 0, [], _ => rfl
  | 0, _ :: _, h => by simp at h
  | n + 1, [], h => by simp at h
  | n + 1, [_], h => by (simp at h; try omega)
  | n + 1, [_, _], h => by (simp at h; try omega)
  | n + 1, [_, _, _], h => by (simp at h; try omega)
  | n + 1, a :: b :: c :: e :: rest, h => by
    have ih := decode16_length n rest (by (simp at h; try omega))
    simp only [Fs.decodeFatBlock, Bool.false_eq_true, if_false, List.length_cons, ih]
    omega

/-! ### F0: the table -/

/-- What `loadFat` appends for block `i` of the FAT. -/
def fatPiece (g : Fs.Geom) (d : Disk) (i : Nat) : List Nat :=
  match d.m.get? (g.fatStart + i) with
  | none => List.replicate (if g.fat32 then 128 else 256) 0
  | some b => Fs.decodeFatBlock g.fat32 b

theorem foldl_toList_flatMap (f : Nat → List Nat) (step : Array Nat → Nat → Array Nat)
    (hstep : ∀ acc i, (step acc i).toList = acc.toList ++ f i) :
    ∀ (l : List Nat) (acc : Array Nat), (l.foldl step acc).toList = acc.toList ++ l.flatMap f := by
  intro l
  induction l with
  | nil => intro acc; simp
  | cons i l ih =>
    intro acc
    rw [List.foldl_cons, ih, hstep, List.flatMap_cons, List.append_assoc]

theorem loadFat_toList (g : Fs.Geom) (d : Disk) :
    (Fs.loadFat g d).toList =
      (List.range ((g.clusters + 2 + (if g.fat32 then 128 else 256) - 1) / (if g.fat32 then 128 else 256))).flatMap
        (fatPiece g d) := by
  unfold Fs.loadFat
  simp only
  rw [foldl_toList_flatMap (fatPiece g d)]
  · simp
  · intro acc i
    unfold fatPiece
    cases d.m.get? (g.fatStart + i) <;> simp

theorem length_flatMap_uniform {α : Type} (f : Nat → List α) (m : Nat) :
    ∀ n, (∀ i, i < n → (f i).length = m) → ((List.range n).flatMap f).length = n * m := by
  intro n
  induction n with
  | zero => simp
  | succ n ih =>
    intro hlen
    rw [List.range_succ, List.flatMap_append, List.length_append, ih (fun i hi => hlen i (by omega))]
    simp only [List.flatMap_cons, List.flatMap_nil, List.append_nil]
    rw [hlen n (by omega), Nat.succ_mul]

theorem getD_flatMap_uniform {α : Type} (f : Nat → List α) (m : Nat) (x : α) :
    ∀ n, (∀ i, i < n → (f i).length = m) → ∀ i r, i < n → r < m →
      ((List.range n).flatMap f).getD (i * m + r) x = (f i).getD r x := by
  intro n
  induction n with
  | zero => intro _ i r hi; omega
  | succ n ih =>
    intro hlen i r hi hr
    have hl := length_flatMap_uniform f m n (fun i hi => hlen i (by omega))
    rw [List.range_succ, List.flatMap_append]
    simp only [List.flatMap_cons, List.flatMap_nil, List.append_nil]
    by_cases hin : i < n
    · have hlt : i * m + r < n * m := by
        have : (i + 1) * m ≤ n * m := Nat.mul_le_mul_right m hin
        rw [Nat.succ_mul] at this
        omega
      rw [List.getD_eq_getElem?_getD, List.getElem?_append_left (by rw [hl]; exact hlt), ← List.getD_eq_getElem?_getD]
      exact ih (fun i hi => hlen i (by omega)) i r hin hr
    · have : i = n := by omega
      subst this
      rw [List.getD_eq_getElem?_getD, List.getElem?_append_right (by rw [hl]; omega), hl, ← List.getD_eq_getElem?_getD]
      congr 1
      omega

theorem zeroBlock_decode32 : Fs.decodeFatBlock true zeroBlock = List.replicate 128 0 := by decide +kernel
theorem zeroBlock_decode16 : Fs.decodeFatBlock false zeroBlock = List.replicate 256 0 := by decide +kernel

/-- The piece for block `i` is the decoding of the block the crate reads (absent blocks are zero blocks). -/
theorem fatPiece_eq (g : Fs.Geom) (d : Disk) (i : Nat) : fatPiece g d i = Fs.decodeFatBlock g.fat32 (d.get (g.fatStart + i)) := by
  unfold fatPiece Disk.get
  rw [Std.TreeMap.get?_eq_getElem?, Std.TreeMap.getD_eq_getD_getElem?]
  cases d.m[g.fatStart + i]? with
  | none =>
    cases g.fat32
    · simp [zeroBlock_decode16]
    · simp [zeroBlock_decode32]
  | some b => rfl

/-- **F0.** The checker's FAT table holds, for every cluster number below `clusters + 2`, the FAT entry the crate
reads from FAT copy 1 (FAT32: the low 28 bits). -/
theorem loadFat_getD {v : FatVolume} {g : Fs.Geom} {d : Disk} (hg : GeomOf v g) (hb : BlocksOK d) {c : Nat}
    (hc : c < endCluster v) : (Fs.loadFat g d).getD c 0 = fatEntry v d c := by
  rw [Array.getD_eq_getD_getElem?, ← Array.getElem?_toList, ← List.getD_eq_getElem?_getD, loadFat_toList]
  have hcl := hg.endCluster
  cases hf : g.fat32 with
  | true =>
    have hv : v.fatType = .fat32 := hg.fat32.1 hf
    simp only [if_true]
    have hlen : ∀ i, (fatPiece g d i).length = 128 := by
      intro i; rw [fatPiece_eq, hf]; exact decode32_length 128 _ (hb _)
    have hcc : c = c / 128 * 128 + c % 128 := by omega
    rw [hcc, getD_flatMap_uniform (fatPiece g d) 128 0 _ (fun i _ => hlen i) (c / 128) (c % 128) (by omega) (by omega),
      fatPiece_eq, hf, decode32_getD _ _ (by rw [hb]; omega)]
    unfold fatEntry fatRaw rawFatEntry fatBlock fatEntOffset entryWidth
    rw [hv]
    simp only [Gen.BLOCK_LEN_U32]
    rw [hg.fatStart, ← hcc]
    have e1 : c * 4 / 512 = c / 128 := by omega
    have e2 : c * 4 % 512 = 4 * (c % 128) := by omega
    rw [e1, e2, Nat.add_assoc]
  | false =>
    have hv : v.fatType = .fat16 := hg.fat32_false.1 hf
    simp only [Bool.false_eq_true, if_false]
    have hlen : ∀ i, (fatPiece g d i).length = 256 := by
      intro i; rw [fatPiece_eq, hf]; exact decode16_length 128 _ (hb _)
    have hcc : c = c / 256 * 256 + c % 256 := by omega
    rw [hcc, getD_flatMap_uniform (fatPiece g d) 256 0 _ (fun i _ => hlen i) (c / 256) (c % 256) (by omega) (by omega),
      fatPiece_eq, hf, decode16_getD _ _ (by rw [hb]) (by rw [hb]; omega)]
    unfold fatEntry fatRaw rawFatEntry fatBlock fatEntOffset entryWidth
    rw [hv]
    simp only [Gen.BLOCK_LEN_U32]
    rw [hg.fatStart, ← hcc]
    have e1 : c * 2 / 512 = c / 256 := by omega
    have e2 : c * 2 % 512 = 2 * (c % 256) := by omega
    rw [e1, e2, Nat.add_assoc]

/-! ### F1: chains -/

/-- The table `fat` is the FAT of the volume (what `loadFat_getD` proves of `loadFat g d`). -/
def FatIs (v : FatVolume) (d : Disk) (fat : Array Nat) : Prop := ∀ c, c < endCluster v → fat.getD c 0 = fatEntry v d c

theorem fatIs_loadFat {v : FatVolume} {g : Fs.Geom} {d : Disk} (hg : GeomOf v g) (hb : BlocksOK d) : FatIs v d (Fs.loadFat g d) :=
  fun _ hc => loadFat_getD hg hb hc

/-- An end-of-chain answer of the crate's reader is an end mark for the checker (with (H1)). -/
theorem isEoc_of_eof {v : FatVolume} {g : Fs.Geom} {d : Disk} (hg : GeomOf v g) (h1 : NoOne v d) {c : Nat} (hc : InRange v c)
    (h : nextOf v d c = .err .EndOfFile) : Fs.isEoc g (fatEntry v d c) = true := by
  unfold nextOf decodeNext at h
  unfold Fs.isEoc fatEntry
  cases hv : v.fatType with
  | fat16 =>
    rw [hg.fat32_false.2 hv]
    rw [hv] at h
    simp only at h ⊢
    split at h
    · cases h
    · split at h
      · simpa using ‹_›
      · cases h
  | fat32 =>
    rw [hg.fat32.2 hv]
    have hne := h1 hv c hc
    unfold fatEntry at hne
    rw [hv] at h hne
    simp only at h hne ⊢
    split at h
    · cases h
    · split at h
      · cases h
      · split at h
        · rename_i h3
          rcases h3 with h3 | h3
          · exact absurd h3 hne
          · simpa using h3
        · cases h

/-- A link answer of the crate's reader into the data area is the same link for the checker. -/
theorem link_of_ok {v : FatVolume} {g : Fs.Geom} {d : Disk} (hg : GeomOf v g) (hw : WFGeom v) {c n : Nat} (hn : InRange v n)
    (h : nextOf v d c = .ok n) :
    fatEntry v d c = n ∧ Fs.isEoc g n = false ∧ n ≠ 0 ∧ Fs.isBad g n = false ∧ n ≠ 1 := by
  have hcb := hw.count_bound
  unfold nextOf decodeNext at h
  unfold Fs.isEoc Fs.isBad fatEntry
  obtain ⟨hn2, hne⟩ := hn
  cases hv : v.fatType with
  | fat16 =>
    rw [hg.fat32_false.2 hv]
    rw [hv] at h hcb
    simp only at h hcb ⊢
    split at h
    · cases h
    · split at h
      · cases h
      · have : fatRaw v d c = n := by injection h
        refine ⟨this, ?_, by omega, ?_, by omega⟩ <;> simp <;> omega
  | fat32 =>
    rw [hg.fat32.2 hv]
    rw [hv] at h hcb
    simp only at h hcb ⊢
    split at h
    · cases h
    · split at h
      · cases h
      · split at h
        · cases h
        · have : fatRaw v d c % 268435456 = n := by injection h
          refine ⟨this, ?_, by omega, ?_, by omega⟩ <;> simp <;> omega

theorem chainAux_of_chain {v : FatVolume} {g : Fs.Geom} {d : Disk} {fat : Array Nat} (hg : GeomOf v g) (hw : WFGeom v)
    (hfat : FatIs v d fat) (h1 : NoOne v d) {c : Nat} {cs : List Nat} (h : Chain v d c cs) :
    ∀ (fuel : Nat) (acc : List Nat), cs.length ≤ fuel → Fs.chainAux g fat fuel c acc = .ok (acc.reverse ++ cs) := by
  induction h with
  | last c hc he =>
    intro fuel acc hf
    obtain ⟨fuel, rfl⟩ : ∃ k, fuel = k + 1 := ⟨fuel - 1, by simp at hf; omega⟩
    have hir := (hg.inRange c).2 hc
    have hE := isEoc_of_eof hg h1 hc he
    simp only [Fs.chainAux, hir, hfat c hc.2, hE, Bool.not_true, Bool.false_eq_true, if_false, if_true,
      List.reverse_cons]
  | link c n rest hc hn hnot hch ih =>
    intro fuel acc hf
    obtain ⟨fuel, rfl⟩ : ∃ k, fuel = k + 1 := ⟨fuel - 1, by simp at hf; omega⟩
    have hir := (hg.inRange c).2 hc
    have hnr : InRange v n := ChainL.chain_inRange hch n (ForestBase.chain_head_mem hch)
    obtain ⟨e1, e2, e3, e4, e5⟩ := link_of_ok hg hw hnr hn
    have := ih fuel (c :: acc) (by simp at hf; omega)
    simp only [Fs.chainAux, hir, hfat c hc.2, e1, e2, e3, e4, e5, Bool.not_true, Bool.false_eq_true, if_false, this,
      List.reverse_cons, List.append_assoc, List.singleton_append]

/-- **F1.** The checker's chain walk finds the chain the invariant speaks of. -/
theorem chainT_of_chain {v : FatVolume} {g : Fs.Geom} {d : Disk} {fat : Array Nat} (hg : GeomOf v g) (hw : WFGeom v)
    (hfat : FatIs v d fat) (h1 : NoOne v d) {c : Nat} {cs : List Nat} (h : Chain v d c cs) :
    Fs.chainT g fat c = .ok cs := by
  unfold Fs.chainT
  rw [chainAux_of_chain hg hw hfat h1 h _ [] (by have := (ForestFinal.chain_fits_fuel v d c cs h).1; rw [hg.clusters]; omega)]
  rfl

end Sdmmc.Lemmas.VolFsck
