/-
C11, part 5 (FAT level) — `allocCluster` and `writeBlockPart` under an arbitrary fault schedule.

`alloc_any`: whatever device call fails, an allocation (without zeroing, as `write` issues it)
changes no data block, and in the FAT at most the entry of a cluster that was free and the entry of
the predecessor.  `writeBlockPart_fail`: a block write that did not return `Ok` did not reach the
medium.
-/
import Sdmmc.Lemmas.RetryWriteF

namespace Sdmmc.Lemmas.Retry
open Sdmmc.Model Sdmmc.Model.Fat Sdmmc.Spec Sdmmc.Lemmas.Fault
open Sdmmc.Lemmas.FBasic hiding cacheRead_cases cacheRead_ok_tag NoFault Coherent
open Sdmmc.Lemmas.FatOps hiding BlocksOK Mirror HintOK
open Sdmmc.Lemmas.ChainL Sdmmc.Lemmas.ForestBase

/-- The end state of a sequence satisfies `P` if the end state of a failing first part does and the
end state of the second part does. -/
theorem end_bind {α β} (m : F α) (f : α → F β) (s : FS) (P : FS → Prop)
    (hm : ∀ r s', m s = (r, s') → (∀ a, r ≠ .ok a) → P s')
    (hf : ∀ a s', m s = (.ok a, s') → P (f a s').2) : P ((m >>= f) s).2 := by
  rcases hr : m s with ⟨r, s'⟩
  cases r with
  | ok a => rw [F.bind_ok hr]; exact hf a s' hr
  | err e => rw [F.bind_err hr]; exact hm _ _ hr (fun a h => by cases h)
  | panic msg => rw [F.bind_panic hr]; exact hm _ _ hr (fun a h => by cases h)
  | diverged => rw [F.bind_diverged hr]; exact hm _ _ hr (fun a h => by cases h)

theorem allocPick_strict (v : FatVolume) : FaultStrict (allocPick v) := by
  have := findNextFree_strict
  unfold allocPick; fault_auto

/-- A cluster the pick hands out — under any fault schedule — is a data cluster of the volume whose
entry on the medium is the free mark. -/
theorem allocPick_ok_free (s s1 : FS) (c : Nat) (hc : Coherent s) (hh : HintOK s.vol)
    (h : allocPick s.vol s = (.ok c, s1)) : 2 ≤ c ∧ c < endCluster s.vol ∧ isFree s.vol s.dev.disk c := by
  have hclean := (allocPick_agree s.vol).of_ok (allocPick_strict s.vol) s s1 c h
  obtain ⟨s1', he, _⟩ := allocPick_eq (clr s) rfl hc
  rw [show (clr s).vol = s.vol from rfl] at he
  rw [hclean] at he
  have hp : pick s.vol s.dev.disk = some c := by
    have h1 := congrArg Prod.fst he
    simp only at h1
    cases hpk : pick s.vol s.dev.disk with
    | none =>
      rw [show (clr s).dev.disk = s.dev.disk from rfl, hpk] at h1
      cases h1
    | some c' =>
      rw [show (clr s).dev.disk = s.dev.disk from rfl, hpk] at h1
      cases h1
      rfl
  obtain ⟨h2, hE, hfree⟩ := pick_some s.vol s.dev.disk c hh hp
  exact ⟨h2, hE, hfree⟩

/-- **An allocation under any fault schedule** (no zeroing).  From a coherent state with sane
geometry: the medium changes at most in FAT blocks, there at most in the entry of a cluster that
was free and in the entry of the predecessor; the volume record keeps its geometry; the schedule is
the same. -/
theorem alloc_any (s : FS) (prev : Option Nat) (hc : Coherent s) (hb : BlocksOK s.dev.disk) (hg : WFGeom s.vol)
    (hh : HintOK s.vol) (hp : ∀ p, prev = some p → p < endCluster s.vol) :
    Upd s.vol (fun x => isFree s.vol s.dev.disk x ∨ prev = some x) s.dev.disk (allocCluster prev false s).2.dev.disk ∧
    Spec.SameGeom s.vol (allocCluster prev false s).2.vol ∧
    (allocCluster prev false s).2.dev.faults = s.dev.faults := by
  rw [allocCluster_seq]
  generalize hK : (fun x => isFree s.vol s.dev.disk x ∨ prev = some x) = K
  -- the property of end states
  generalize hP : (fun t : FS => Upd s.vol K s.dev.disk t.dev.disk ∧ Spec.SameGeom s.vol t.vol ∧
    t.dev.faults = s.dev.faults) = P
  have hPdef : ∀ t, P t ↔ (Upd s.vol K s.dev.disk t.dev.disk ∧ Spec.SameGeom s.vol t.vol ∧ t.dev.faults = s.dev.faults) := by
    intro t; rw [← hP]
  refine (hPdef _).1 ?_
  have hro_P : ∀ a b : FS, P a → RO a b → P b := by
    intro a b ha hab
    rw [hPdef] at ha ⊢
    exact ⟨by rw [hab.disk]; exact ha.1, by rw [hab.vol]; exact ha.2.1, hab.faults.trans ha.2.2⟩
  have hPs : P s := by rw [hPdef]; exact ⟨Upd.refl _ _ _, SameGeom.refl _, rfl⟩
  apply end_bind
  · intro r s1 h1 _
    have hro : RO s s1 := by have := allocPick_readOnly s.vol s; rw [h1] at this; exact this
    exact hro_P s s1 hPs hro
  · intro c s1 h1
    have hro1 : RO s s1 := by have := allocPick_readOnly s.vol s; rw [h1] at this; exact this
    obtain ⟨hc2, hcE, hfree⟩ := allocPick_ok_free s s1 c hc hh h1
    have hKc : K c := by rw [← hK]; exact .inl hfree
    have hPs1 : P s1 := hro_P s s1 hPs hro1
    unfold allocTail zeroStep
    simp only [Bool.false_eq_true, if_false]
    rw [F.bind_ok (show (pure () : F Unit) s1 = (.ok (), s1) from rfl)]
    -- the end-of-chain mark
    have hv1 : s1.vol = s.vol := hro1.vol
    have hd1 : s1.dev.disk = s.dev.disk := hro1.disk
    obtain ⟨hu3, hvol3, hf3, hcoh3⟩ := updateFat_any s1 c Gen.CLUSTER_END_OF_FILE (hro1.coherent hc)
      (by rw [hv1]; exact hg) (by rw [hv1]; exact hcE) (by rw [hd1]; exact hb)
    have hP3 : P (updateFat c Gen.CLUSTER_END_OF_FILE s1).2 := by
      rw [hPdef]
      refine ⟨?_, by rw [hvol3, hv1]; exact SameGeom.refl _, hf3.trans hro1.faults⟩
      rw [hv1, hd1] at hu3
      exact hu3.mono fun x hx => by rw [hx]; exact hKc
    apply end_bind
    · intro r s3 h3 _
      rw [h3] at hP3; exact hP3
    · intro _ s3 h3
      rw [h3] at hP3 hu3 hvol3 hcoh3
      simp only at hP3 hu3 hvol3 hcoh3
      have hcoh3' : Coherent s3 := hcoh3 trivial
      have hv3 : s3.vol = s.vol := hvol3.trans hv1
      -- the link
      have hP4 : P (linkStep prev c s3).2 ∧ ((linkStep prev c s3).1 = .ok () → Coherent (linkStep prev c s3).2) := by
        unfold linkStep
        cases prev with
        | none => exact ⟨hP3, fun _ => hcoh3'⟩
        | some p =>
          simp only
          have hb3 : BlocksOK s3.dev.disk := by rw [hPdef] at hP3; exact hP3.1.blocks hb
          obtain ⟨hu4, hvol4, hf4, hcoh4⟩ := updateFat_any s3 p c hcoh3' (by rw [hv3]; exact hg)
            (by rw [hv3]; exact hp p rfl) hb3
          refine ⟨?_, hcoh4⟩
          rw [hPdef] at hP3 ⊢
          refine ⟨hP3.1.trans ?_, by rw [hvol4]; exact hP3.2.1, hf4.trans hP3.2.2⟩
          rw [hv3] at hu4
          exact hu4.mono fun x hx => by rw [← hK, hx]; exact .inr rfl
      apply end_bind
      · intro r s4 h4 _
        have := hP4.1; rw [h4] at this; exact this
      · intro _ s4 h4
        obtain ⟨hP4', hcoh4⟩ := hP4
        rw [h4] at hP4' hcoh4
        simp only at hP4' hcoh4
        -- the hint search is read-only
        apply end_bind
        · intro r s5 h5 _
          have hro : RO s4 s5 := by have := allocHint_readOnly s.vol c s4; rw [h5] at this; exact this
          exact hro_P s4 s5 hP4' hro
        · intro nf s5 h5
          have hro5 : RO s4 s5 := by have := allocHint_readOnly s.vol c s4; rw [h5] at this; exact this
          have hP5 := hro_P s4 s5 hP4' hro5
          show P ((F.modifyVol (setHint nf) >>= fun _ => pure c) s5).2
          rw [hPdef] at hP5 ⊢
          refine ⟨hP5.1, ?_, hP5.2.2⟩
          show Spec.SameGeom s.vol (setHint nf s5.vol)
          obtain ⟨a, b, e⟩ := hP5.2.1
          rw [e]
          exact ⟨_, _, rfl⟩

/-- A block write that does not return `Ok` has not reached the medium (the cache read failed, or
the one device write failed). -/
theorem writeBlockPart_fail (b o : Nat) (data : Bytes) (whole : Bool) (s : FS)
    (h : (writeBlockPart b o data whole s).1 ≠ .ok ()) :
    (writeBlockPart b o data whole s).2.dev.disk = s.dev.disk ∧ (writeBlockPart b o data whole s).2.dev.wlog = s.dev.wlog ∧
    (writeBlockPart b o data whole s).2.vol = s.vol := by
  unfold writeBlockPart at h ⊢
  -- the first step: blank or read
  have hfirst : ∀ (m : F Unit), (∀ t, (m t).2.dev.disk = t.dev.disk ∧ (m t).2.dev.wlog = t.dev.wlog ∧ (m t).2.vol = t.vol ∧
      ((m t).1 = .ok () → (m t).2.cache.tag = some b)) →
      ((m >>= fun _ => cacheModify (fun blk => splice blk o data) >>= fun _ => writeBack) s).1 ≠ .ok () →
      ((m >>= fun _ => cacheModify (fun blk => splice blk o data) >>= fun _ => writeBack) s).2.dev.disk = s.dev.disk ∧
      ((m >>= fun _ => cacheModify (fun blk => splice blk o data) >>= fun _ => writeBack) s).2.dev.wlog = s.dev.wlog ∧
      ((m >>= fun _ => cacheModify (fun blk => splice blk o data) >>= fun _ => writeBack) s).2.vol = s.vol := by
    intro m hm hne
    obtain ⟨hd, hw, hv, htag⟩ := hm s
    rcases hr : m s with ⟨r, s1⟩
    rw [hr] at hd hw hv htag
    simp only at hd hw hv htag
    cases r with
    | ok u =>
      rw [F.bind_ok hr] at hne ⊢
      have hmod : cacheModify (fun blk => splice blk o data) s1 =
          (.ok (), { s1 with cache := { s1.cache with blk := splice s1.cache.blk o data } }) := rfl
      rw [F.bind_ok hmod] at hne ⊢
      generalize hs2 : ({ s1 with cache := { s1.cache with blk := splice s1.cache.blk o data } } : FS) = s2 at hne ⊢
      have htag2 : s2.cache.tag = some b := by rw [← hs2]; exact htag rfl
      rw [Fault.writeBack_tagged htag2] at hne ⊢
      rw [untagIfErr_fst] at hne
      rw [untagIfErr_dev, untagIfErr_vol]
      obtain ⟨hw2, _, hv2, _⟩ := devWrite_any b s2
      rcases hw2 with ⟨_, hd', hw'⟩ | ⟨hok, _, _⟩
      · rw [hd', hw', hv2, ← hs2]; exact ⟨hd, hw, hv⟩
      · exact absurd hok hne
    | err e => rw [F.bind_err hr]; exact ⟨hd, hw, hv⟩
    | panic msg => rw [F.bind_panic hr]; exact ⟨hd, hw, hv⟩
    | diverged => rw [F.bind_diverged hr]; exact ⟨hd, hw, hv⟩
  cases whole with
  | true =>
    simp only [if_true] at h ⊢
    exact hfirst (blankMut b) (fun t => ⟨rfl, rfl, rfl, fun _ => rfl⟩) h
  | false =>
    simp only [Bool.false_eq_true, if_false] at h ⊢
    exact hfirst (cacheRead b) (fun t => ⟨cacheRead_disk b t, cacheRead_wlog b t, cacheRead_vol b t,
      FBasic.cacheRead_ok_tag b t⟩) h

end Sdmmc.Lemmas.Retry
