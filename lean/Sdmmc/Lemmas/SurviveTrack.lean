/-
C09 over whole histories, part 9: tools for following a flushed file through a history — the slot value of a
stored entry (`slotOf`), chains that only grow (`chain_prefix`), FAT entries a licence does not name
(`fat_spared`), the bridge from the abstract file system's `NamesA` to `Targets` on the manager.
-/
import Sdmmc.Lemmas.SurviveNamed2
import Sdmmc.Lemmas.SurviveAbs
import Sdmmc.Lemmas.SurviveRead
import Sdmmc.Lemmas.AbsFsBase

namespace Sdmmc.Lemmas.Survive
open Sdmmc.Model Sdmmc.Model.Fat Sdmmc.Spec.Volume Sdmmc.Lemmas.VolBase Sdmmc.Lemmas.VolTree
open Sdmmc.Spec hiding NoFault Coherent
open Sdmmc.Lemmas.VolDisk Sdmmc.Lemmas.VolMed Sdmmc.Lemmas.VolEng
open Sdmmc.Lemmas.WriteSetInv

/-! ### The slot of a stored entry -/

/-- The slot a stored entry occupies: its position and its 32-byte image. -/
def slotOf (ft : FatType) (e : DirEntry) : Slot := (e.entryBlock, e.entryOffset, e.serialize ft)

theorem slotOf_fields (ft : FatType) (e : DirEntry) (hst : Reopen.Storable ft e) :
    sName (slotOf ft e) = e.name ∧ first (slotOf ft e) = byteAt e.name 0 ∧ sAttr (slotOf ft e) = e.attributes ∧
    sCluster ft (slotOf ft e) = e.cluster ∧ sSize (slotOf ft e) = e.size := by
  obtain ⟨h1, h2, h3⟩ := slot_of_serialize ft e hst e.entryBlock e.entryOffset
  have hcl' : e.cluster < 4294967296 := by
    have := hst.cluster_lt
    cases ft <;> simp only at this <;> omega
  obtain ⟨_, _, _, _, _, h20, _, _, h26, h28⟩ := Reopen.serialize_layout ft e hst.name_len hst.attr_lt hst.size_lt hcl'
  refine ⟨h1, h2, h3, ?_, h28⟩
  have hc := hst.cluster_lt
  unfold sCluster slotOf
  cases ft
  · simp only at hc ⊢
    rw [h26]; omega
  · simp only at h20 ⊢
    rw [h20, h26]; omega

theorem slotOf_isDir (ft : FatType) (e : DirEntry) (hst : Reopen.Storable ft e) :
    isDirE (slotOf ft e) = Attr.isDirectory e.attributes := by
  unfold isDirE Attr.isDirectory
  rw [(slotOf_fields ft e hst).2.2.1]
  rfl

theorem slotOf_keep (ft : FatType) (e : DirEntry) (hst : Reopen.Storable ft e) (hn5 : byteAt e.name 0 ≠ 0xE5)
    (hlfn : e.attributes % 16 ≠ 15) : keep (slotOf ft e) = true := by
  obtain ⟨_, h2, h3, _⟩ := slotOf_fields ft e hst
  unfold keep isFrag
  rw [h2, h3]
  simp [hn5, hlfn]

/-- The slot at the entry's position on a medium that shows the flushed entry IS `slotOf`. -/
theorem slotOf_of_flushed {v : FatVolume} {d : Disk} {e : DirEntry} {cs : List Nat} (hF : FlushedOn v d e cs) :
    ((e.entryBlock, e.entryOffset, slice (d.get e.entryBlock) e.entryOffset 32) : Slot) = slotOf v.fatType e := by
  unfold slotOf; rw [hF.slot]

/-! ### Chains only grow -/

/-- Two media whose FAT agrees on all but the last cluster of a chain of the first: the chain of the second
from the same cluster continues it. -/
theorem chain_prefix {v : FatVolume} {d d' : Disk} {c : Nat} {cs : List Nat} (h : Chain v d c cs) :
    ∀ {cs' : List Nat}, Chain v d' c cs' → (∀ x, x ∈ cs.dropLast → nextOf v d' x = nextOf v d x) → cs <+: cs' := by
  induction h with
  | last c _ _ =>
    intro cs' h' _
    cases h' with
    | last _ _ _ => exact List.prefix_refl _
    | link _ n rest _ _ _ _ => exact ⟨rest, rfl⟩
  | link c n rest _ hn _ hrest ih =>
    intro cs' h' hag
    have hne : rest ≠ [] := ChainL.chain_ne_nil hrest
    have hdl : (c :: rest).dropLast = c :: rest.dropLast := by
      cases rest with
      | nil => exact absurd rfl hne
      | cons a l => rfl
    rw [hdl] at hag
    have hc := hag c List.mem_cons_self
    cases h' with
    | last _ _ he => rw [hc, hn] at he; cases he
    | link _ n' rest' _ hn' _ hrest' =>
      rw [hc, hn] at hn'
      cases hn'
      obtain ⟨t, ht⟩ := ih hrest' fun x hx => hag x (List.mem_cons_of_mem _ hx)
      exact ⟨t, by rw [← ht]; rfl⟩

/-! ### FAT entries a licence does not name -/

/-- A well-formed licence covers no byte of the FAT entry (first copy) of a data cluster that is not among its
FAT clusters. -/
theorem fat_spared {v : FatVolume} (hg : WFGeom v) {L : Licence} (hw : LicWF v L) {c : Nat} (hcr : InRange v c)
    (hc : c ∉ L.fatClusters) :
    ∀ i, fatEntOffset v c ≤ i → i < fatEntOffset v c + entryWidth v.fatType → ¬ Covers v L (fatBlock v c) i := by
  intro i h1 h2 hcov
  have hfr : regionOf v (fatBlock v c) = .fat := (FatLens.fat_blocks_in_fat_region v hg c hcr.2).1
  rcases hcov with ⟨c', hc', hh, g1, g2⟩ | ⟨c', hc', hr, hin⟩ | ⟨off, hoff, _, _⟩ | ⟨_, h32, hb, _, _⟩ | ⟨cs', lo, hi, p, hm, _, _, hh⟩
  · have hne : c ≠ c' := fun e => hc (e ▸ hc')
    rcases hh with hh | hh
    · rcases FatLens.fatEntOffset_disjoint v c c' hne hh with h | h <;> omega
    · exact FatOps.fatBlock_ne_fatBlock2 v hg c c' _ hcr.2 hh rfl
  · have := inCluster_region hg hr hin
    rw [hfr] at this; cases this
  · obtain ⟨_, hreg⟩ := hw.slots _ hoff
    rcases hreg with h | h <;> rw [hfr] at h <;> cases h
  · have : regionOf v (fatBlock v c) = .info := by
      rw [hb]; exact FatLens.info_block_in_info_region v hg h32 (Reopen.fatStart_le_numBlocks v hg)
    rw [hfr] at this; cases this
  · obtain ⟨c', hc', hin⟩ := holdsFileByte_inCluster hg hh
    have := inCluster_region hg (hw.files _ hm c' hc') hin
    rw [hfr] at this; cases this

/-- Hence the FAT entry reads the same on every medium the frame of the licence relates. -/
theorem fatRaw_of_frame {v : FatVolume} (hg : WFGeom v) {L : Licence} (hw : LicWF v L) {d d' : Disk}
    (hF : ∀ b i, ¬ Covers v L b i → (d'.get b).getD i 0 = (d.get b).getD i 0) {c : Nat} (hcr : InRange v c)
    (hc : c ∉ L.fatClusters) : fatRaw v d' c = fatRaw v d c := by
  unfold fatRaw
  exact DirFrames.rawFatEntry_congr _ _ _ _ fun i h1 h2 => hF _ _ (fat_spared hg hw hcr hc i h1 h2)

/-! ### From the abstract file system's `NamesA` to `Targets` -/

/-- The directory context of the abstract file system, on the manager. -/
theorem dirCtx_model {s : Mgr} {gh : Ghost} {a : Spec.AbsFs.AbsFs} (hA : AbsFs.Abs s gh a) {h : Nat} {N : Bytes} :
    ∀ d name od, Spec.AbsFs.dirCtx a d name = .ok (od, N) → od.dir = h →
      Sfn.createFromStr name = .ok N ∧ ∃ dir, dir ∈ s.dirs ∧ dir.rawDirectory = d ∧ dirIdOf dir.cluster = h := by
    intro d name od hctx hod
    unfold Spec.AbsFs.dirCtx at hctx
    cases hdo : Spec.AbsFs.dirOf a d with
    | error e => rw [hdo] at hctx; cases hctx
    | ok od' =>
      rw [hdo] at hctx
      dsimp only at hctx
      cases hsfn : Sfn.createFromStr name with
      | error e => rw [hsfn] at hctx; cases hctx
      | ok sfn =>
        rw [hsfn] at hctx
        simp only [Except.ok.injEq, Prod.mk.injEq] at hctx
        obtain ⟨rfl, rfl⟩ := hctx
        refine ⟨rfl, ?_⟩
        unfold Spec.AbsFs.dirOf at hdo
        cases hi : Spec.AbsFs.dirIdx a d with
        | none => rw [hi] at hdo; cases hdo
        | some i =>
          rw [hi] at hdo
          dsimp only at hdo
          cases hg : a.dirs[i]? with
          | none => rw [hg] at hdo; cases hdo
          | some od'' =>
            rw [hg] at hdo
            dsimp only at hdo
            split at hdo
            · injection hdo with hdo
              subst hdo
              unfold Spec.AbsFs.dirIdx at hi
              obtain ⟨hlt, hp, _⟩ := List.findIdx?_eq_some_iff_getElem.1 hi
              have hget : a.dirs[i] = od'' := (List.getElem?_eq_some_iff.1 hg).2
              rw [hget] at hp
              have hhandle : od''.handle = d := of_decide_eq_true hp
              rw [hA.dirs] at hg
              rw [List.getElem?_map] at hg
              cases hsd : s.dirs[i]? with
              | none => rw [hsd] at hg; cases hg
              | some dir =>
                rw [hsd] at hg
                simp only [Option.map_some, Option.some.injEq] at hg
                subst hg
                exact ⟨dir, List.mem_of_getElem? hsd, hhandle, hod⟩
            · cases hdo

theorem targets_of_namesA {s : Mgr} {gh : Ghost} {a : Spec.AbsFs.AbsFs} (hA : AbsFs.Abs s gh a) {h j : Nat} {x : Slot}
    (hj : (beforeEnd (dirSlots gh.vol s.dev.disk gh.G h))[j]? = some x) {N : Bytes} {op : Op}
    (hn : SurviveAbs.NamesA a h j N op) : Targets s h N (spos x) op := by
  have key := dirCtx_model hA (h := h) (N := N)
  cases op with
  | openFile d name mode =>
    obtain ⟨hm, od, hctx, hod⟩ := hn
    obtain ⟨h1, h2⟩ := key d name od hctx hod
    exact ⟨hm, h1, h2⟩
  | delete d name =>
    obtain ⟨od, hctx, hod⟩ := hn
    exact key d name od hctx hod
  | write hd data =>
    obtain ⟨i, af, hfo, h1, h2, hmode⟩ := hn
    have hget := SurviveAbs.fileOf_get hfo
    rcases AbsFs.forall₂_getElem? hA.files i with ⟨hnone, _⟩ | ⟨af', f, g1, g2, hrel⟩
    · rw [hnone] at hget; cases hget
    · rw [g1] at hget
      injection hget with hget
      subst hget
      obtain ⟨o, ho, hp⟩ := hrel.slot
      rw [h1, h2, hj] at ho
      injection ho with ho
      subst ho
      refine ⟨f, List.mem_of_getElem? g2, ?_, hp.symm, ?_⟩
      · rw [← hrel.handle]; exact SurviveAbs.fileOf_handle hfo
      · rw [← hrel.mode]; exact hmode
  | _ => exact hn.elim

/-- The call opens the file named `N` of directory `h` in a mode other than `ReadOnly`. -/
def Opens (s : Mgr) (h : Nat) (N : Bytes) : Op → Prop
  | .openFile dh name mode => mode ≠ .ReadOnly ∧ Sfn.createFromStr name = .ok N ∧
      ∃ dir, dir ∈ s.dirs ∧ dir.rawDirectory = dh ∧ dirIdOf dir.cluster = h
  | _ => False

theorem opens_of_opensA {s : Mgr} {gh : Ghost} {a : Spec.AbsFs.AbsFs} (hA : AbsFs.Abs s gh a) {h : Nat} {N : Bytes} {op : Op}
    (hn : SurviveAbs.OpensA a h N op) : Opens s h N op := by
  cases op with
  | openFile d name mode =>
    obtain ⟨hm, od, hctx, hod⟩ := hn
    obtain ⟨h1, h2⟩ := dirCtx_model hA d name od hctx hod
    exact ⟨hm, h1, h2⟩
  | _ => exact hn.elim

end Sdmmc.Lemmas.Survive
