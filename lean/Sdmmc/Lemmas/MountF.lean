/-
THE MOUNT UNDER A FAULT SCHEDULE (one volume).  `open_raw_volume idx` only READS (block 0, the boot sector, on FAT32 the
information sector) and draws its handle id AFTER the last read.
* `step_openVolume_faults` — from ANY unlocked state: it writes nothing; if a device call of it fails it answers an error and the
  state is the state before up to device bookkeeping and the cache (tables, handle counter, limits, medium, schedule the same;
  a coherent cache stays coherent); if none fails it IS the fault-free call (`FaultHist.step_erase`).
* `step_mount_unmounted` — from the invariant with slack with NO volume open and empty tables (a fresh manager on a formatted
  medium; the state `close_volume` leaves once all handles are closed), the medium mounting with the geometry of the ghost:
  the invariant again — either still unmounted (a device call failed: the mount can be issued again) or with the volume open —,
  the answer `Ok` or an error.
* `history_with_mounts` — `VolD.history_anyD` with such mounts allowed anywhere in the history.
-/
import Sdmmc.Lemmas.FaultDTruncRun
import Sdmmc.Lemmas.CrashCont
import Sdmmc.Lemmas.VolApiMount
import Sdmmc.Lemmas.MountedLayout
import Sdmmc.Lemmas.MountedInv
import Sdmmc.Lemmas.AbsFsSteps1

namespace Sdmmc.Lemmas.VolD
open Sdmmc.Lemmas.FaultX
open Sdmmc.Lemmas.FaultHist Sdmmc.Lemmas.VolX
open Sdmmc.Model Sdmmc.Model.Fat Sdmmc.Spec.Volume
open Sdmmc.Spec hiding NoFault Coherent
open Sdmmc.Lemmas.VolApi Sdmmc.Lemmas.MHoare Sdmmc.Lemmas.FaultInv Sdmmc.Lemmas.Retry Sdmmc.Lemmas.VolMed Sdmmc.Lemmas.VolTree
open Sdmmc.Lemmas.Fault hiding resetLogs step_unlocked
open Sdmmc.Lemmas.Mounted (FreshMgr)
open Sdmmc.Spec.Formatted (Formatted)
open Sdmmc.Lemmas.CrashCont (Mounted mounted_of_mountPure mountPure_hintOK)

/-- **`open_volume` under any schedule, from any unlocked state.** -/
theorem step_openVolume_faults (s : Mgr) (idx : Nat) (hl : s.locked = false) :
    (step s (.openVolume idx)).2.writes = [] ∧ (step s (.openVolume idx)).1.dev.disk = s.dev.disk ∧
    ((step s (.openVolume idx)).1.dev.failed ≠ s.dev.failed →
      (∃ e, (step s (.openVolume idx)).2.result = .err e) ∧
      ∃ dev' cache', (step s (.openVolume idx)).1 = { s with dev := dev', cache := cache' } ∧ dev'.disk = s.dev.disk ∧
        dev'.faults = s.dev.faults ∧
        ((∀ i, s.cache.tag = some i → s.cache.blk = s.dev.disk.get i) → ∀ i, cache'.tag = some i → cache'.blk = dev'.disk.get i)) ∧
    ((step s (.openVolume idx)).1.dev.failed = s.dev.failed →
      (step (mclr s) (.openVolume idx)).2 = (step s (.openVolume idx)).2 ∧
      (step (mclr s) (.openVolume idx)).1 = mclr (step s (.openVolume idx)).1) := by
  obtain ⟨hd, hw⟩ := Fault.step_readonly_nowrite s (.openVolume idx) rfl
  refine ⟨hw, hd, fun hq => ?_, fun hq => step_erase s _ hq⟩
  obtain ⟨e, he⟩ := Fault.step_reported s _ hq
  refine ⟨⟨e, he⟩, ?_⟩
  have e1 := MHoare.step_unlocked s (.openVolume idx) hl
  have hrun : runOp (.openVolume idx) (MHoare.resetLogs s) =
      ((openRawVolume idx (MHoare.resetLogs s)).1.bind fun x => .ok (Payload.handle x), (openRawVolume idx (MHoare.resetLogs s)).2) :=
    AbsFs.run_map (openRawVolume idx) Payload.handle _
  rw [e1, hrun] at he ⊢
  simp only at he ⊢
  obtain ⟨t, ⟨dev', cache', rfl, h1, h2, h3⟩, hcase⟩ := VolApi.openRaw_good idx (MHoare.resetLogs s)
  rcases hcase with h | ⟨v, _, h⟩
  · rw [h]
    -- the logs: `dev'` is the device after the call; as a modification of `s` it carries its own logs
    exact ⟨dev', cache', rfl, h1, h2, h3⟩
  · rw [h] at he
    cases he

/-- No volume open, the tables empty. -/
structure Unmounted (s : Mgr) : Prop where
  vols : s.vols = []
  dirs : s.dirs = []
  files : s.files = []

variable {sk : Nat}

/-- **The mount from the invariant with slack, under any schedule.** -/
theorem step_mount_unmounted {s : Mgr} {gh : Ghost} (hI : InvFE sk gh s) (hu : Unmounted s) (idx : Nat) {vm : FatVolume}
    (hm : mountPure (s.dev.disk.get 0) idx s.dev.disk.get = .ok vm) (hsg : SameGeom gh.vol vm) :
    InvFE sk gh (step s (.openVolume idx)).1 ∧ FaultInv.Clean (step s (.openVolume idx)).2.result ∧
    (step s (.openVolume idx)).1.dev.disk = s.dev.disk ∧
    (((step s (.openVolume idx)).1.dev.failed ≠ s.dev.failed ∧ Unmounted (step s (.openVolume idx)).1) ∨
      ((step s (.openVolume idx)).2.result = .ok (.handle s.nextId) ∧
        (step s (.openVolume idx)).1.vols = [{ rawVolume := s.nextId, idx := idx, vol := vm }] ∧
        (step s (.openVolume idx)).1.dirs = [] ∧ (step s (.openVolume idx)).1.files = [])) := by
  obtain ⟨⟨gh1, X1, hI1, hg1⟩, hR⟩ := hI
  obtain ⟨_, hdisk, hfail, hquiet⟩ := step_openVolume_faults s idx hI1.unlocked
  have hnoR : ∀ t : Mgr, t.files = [] → RawAll t := fun t h f hf => by rw [h] at hf; cases hf
  by_cases hq : (step s (.openVolume idx)).1.dev.failed = s.dev.failed
  · -- the fault-free mount
    obtain ⟨e2, e3⟩ := hquiet hq
    have hfr : FreshMgr (MHoare.resetLogs (mclr s)) :=
      ⟨hu.vols, hu.dirs, hu.files, hI1.maxVols, rfl, hI1.coherent, hI1.unlocked⟩
    obtain ⟨t1, hM⟩ := mounted_of_mountPure hfr hI1.med.blocksOK hm
    have e1 := MHoare.step_unlocked (mclr s) (.openVolume idx) hI1.unlocked
    have hrun : runOp (.openVolume idx) (MHoare.resetLogs (mclr s)) = (.ok (Payload.handle s.nextId), t1) := by
      have := AbsFs.run_map (openRawVolume idx) Payload.handle (MHoare.resetLogs (mclr s))
      rw [hM.run] at this
      exact this
    rw [e1, hrun] at e2 e3
    simp only at e2 e3
    have hres : (step s (.openVolume idx)).2.result = .ok (.handle s.nextId) := by rw [← e2]
    have hst : mclr (step s (.openVolume idx)).1 = t1 := e3.symm
    have hsgv : SameGeom gh1.vol vm := hg1.symm.trans hsg
    have hmed : MedD sk vm t1.dev.disk t1.files { gh1 with vol := vm } X1 := by
      rw [hM.disk, hM.files]
      have hM0 : MedD sk gh1.vol s.dev.disk [] gh1 X1 := by
        have := hI1.med
        rw [show (mclr s).files = [] from hu.files] at this
        exact this
      have h2 : MedD sk vm s.dev.disk [] gh1 X1 :=
        VolD.med_congr hM0 hsgv (mountPure_hintOK hm) hM0.blocksOK (fun _ _ => rfl) (fun _ _ => rfl)
      exact ⟨h2.blocksOK, h2.geom, h2.hint, h2.owns, h2.tree, h2.fileOK⟩
    have hD : VolInvD sk X1 (mclr (step s (.openVolume idx)).1) { gh1 with vol := vm } := by
      rw [hst]
      exact ⟨hM.noFault, hM.coherent, hM.unlocked, hM.maxVols, .inr ⟨_, hM.vols, rfl⟩, hmed,
        fun f hf => (by rw [hM.files] at hf; cases hf), fun di hdi => (by rw [hM.dirs] at hdi; cases hdi)⟩
    have hv : (step s (.openVolume idx)).1.vols = [{ rawVolume := s.nextId, idx := idx, vol := vm }] := by
      have : (mclr (step s (.openVolume idx)).1).vols = [{ rawVolume := s.nextId, idx := idx, vol := vm }] := by
        rw [hst]; exact hM.vols
      exact this
    have hdr : (step s (.openVolume idx)).1.dirs = [] := by
      have : (mclr (step s (.openVolume idx)).1).dirs = [] := by rw [hst]; exact hM.dirs
      exact this
    have hfl : (step s (.openVolume idx)).1.files = [] := by
      have : (mclr (step s (.openVolume idx)).1).files = [] := by rw [hst]; exact hM.files
      exact this
    exact ⟨⟨⟨_, X1, hD, hg1.trans hsgv⟩, hnoR _ hfl⟩, by rw [hres]; exact clean_ok _, hdisk, .inr ⟨hres, hv, hdr, hfl⟩⟩
  · obtain ⟨⟨e, he⟩, dev', cache', hst, hd', _, hc'⟩ := hfail hq
    have hD : VolInvD sk X1 (mclr (step s (.openVolume idx)).1) gh1 := by
      rw [hst]
      refine ⟨rfl, hc' hI1.coherent, hI1.unlocked, hI1.maxVols, hI1.vols, ?_, hI1.fileVols, hI1.openDirs⟩
      show MedD sk gh1.vol dev'.disk s.files gh1 X1
      rw [hd']; exact hI1.med
    refine ⟨⟨⟨gh1, X1, hD, hg1⟩, hnoR _ (by rw [hst]; exact hu.files)⟩, by rw [he]; exact clean_err _, hdisk, .inl ⟨hq, ?_⟩⟩
    rw [hst]; exact ⟨hu.vols, hu.dirs, hu.files⟩

/-! ### Histories with mounts -/

/-- What is asked of one call of a history with mounts, `gh` the reference ghost: a covered call satisfying the side condition
— or an `open_volume` issued with no volume open and empty tables on a medium that mounts with the geometry of the volume. -/
def StepM (gh : Ghost) (s : Mgr) (op : Op) : Prop :=
  (FCovered s op ∧ NotDamagedOpen s op) ∨
  ∃ idx vm, op = .openVolume idx ∧ Unmounted s ∧ mountPure (s.dev.disk.get 0) idx s.dev.disk.get = .ok vm ∧ SameGeom gh.vol vm

def RunM (gh : Ghost) : Mgr → List Op → Prop
  | _, [] => True
  | s, op :: ops => StepM gh s op ∧ RunM gh (step s op).1 ops

/-- One call of such a history. -/
theorem step_outM {s : Mgr} {gh : Ghost} (hI : InvFE sk gh s) (op : Op) (h : StepM gh s op) :
    (∃ sk', sk ≤ sk' ∧ InvFE sk' gh (step s op).1) ∧ FaultInv.Clean (step s op).2.result := by
  rcases h with ⟨hc, hn⟩ | ⟨idx, vm, rfl, hu, hm, hsg⟩
  · exact step_outD hI op hc hn
  · obtain ⟨h1, h2, _, _⟩ := step_mount_unmounted hI hu idx hm hsg
    exact ⟨⟨sk, Nat.le_refl _, h1⟩, h2⟩

/-- **Histories with mounts**: after every prefix the invariant holds, for some slack, and every call so far answered `Ok` or an
error. -/
theorem history_with_mounts : ∀ (ops : List Op) {sk : Nat} {s : Mgr} {gh : Ghost}, InvFE sk gh s → RunM gh s ops → ∀ k,
    ∃ sk', sk ≤ sk' ∧ InvFE sk' gh (run s (ops.take k)).1 ∧ ∀ o, o ∈ (run s (ops.take k)).2 → FaultInv.Clean o.result
  | [], sk, s, gh, hI, _, k => by
    rw [List.take_nil]
    exact ⟨sk, Nat.le_refl _, hI, fun o ho => by cases ho⟩
  | op :: ops, sk, s, gh, hI, hc, 0 => ⟨sk, Nat.le_refl _, hI, fun o ho => by cases ho⟩
  | op :: ops, sk, s, gh, hI, hc, k + 1 => by
    obtain ⟨⟨sk1, hle1, hI1⟩, hcl⟩ := step_outM hI op hc.1
    obtain ⟨sk2, hle2, hI2, hcl2⟩ := history_with_mounts ops hI1 hc.2 k
    rw [List.take_succ_cons, WriteSetInv.run_cons]
    refine ⟨sk2, Nat.le_trans hle1 hle2, hI2, fun o ho => ?_⟩
    rcases List.mem_cons.1 ho with rfl | ho
    · exact hcl
    · exact hcl2 o ho

/-- **A fresh manager on a formatted medium, under any schedule**, satisfies the invariant (no volume open, slack 0, nothing
lost), and the medium mounts with the geometry of the formatter's ghost. -/
theorem invFE_of_formatted {s : Mgr} {idx : Nat} {gh : Ghost} (hF : Formatted s.dev.disk idx gh) (hu : Unmounted s)
    (hmax : s.maxVols = 1) (hcoh : ∀ i, s.cache.tag = some i → s.cache.blk = s.dev.disk.get i) (hl : s.locked = false) :
    InvFE 0 gh s ∧ ∃ vm, mountPure (s.dev.disk.get 0) idx s.dev.disk.get = .ok vm ∧ SameGeom gh.vol vm := by
  obtain ⟨v1, hm, hsg1, _⟩ := Mounted.mount_of_formatted hF
  have hM : MedD 0 gh.vol s.dev.disk s.files gh [] := by
    rw [hu.files]
    exact medD_zero.2 (Sdmmc.Lemmas.VolMed.medX_of_med hF.med)
  refine ⟨⟨⟨gh, [], ⟨rfl, hcoh, hl, hmax, .inl hu.vols, hM, fun f hf => (by have hf' : f ∈ s.files := hf; rw [hu.files] at hf'; cases hf'),
    fun di hdi => (by have h' : di ∈ s.dirs := hdi; rw [hu.dirs] at h'; cases h')⟩, SameGeom.refl _⟩,
    fun f hf => (by rw [hu.files] at hf; cases hf)⟩,
    v1, hm, hF.geom.symm.trans hsg1⟩

end Sdmmc.Lemmas.VolD
