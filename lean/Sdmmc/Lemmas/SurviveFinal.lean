/-
C09 over whole histories, part 13: CRASH POINTS and HISTORIES.  `kept_crash`: at every crash point of a call issued in
a `Kept` state (root-directory file), on a crash-consistent medium (`CrashInv`, `Props.C10Inv`) that mounts: the
flushed file is there (slot, chain, contents), its slot is the first hit for its name in the root directory, and any
fresh manager reads it.  `kept_history`: `Kept` is carried through every covered history that never targets the file
(`Untouched`), each call with a licence that does not name it; `kept_runLicensed`: hence every licence of the history
is `NotNamed` for the file — the syntactic criterion.
-/
import Sdmmc.Lemmas.SurviveWalk2
import Sdmmc.Lemmas.VolCrashFsck

namespace Sdmmc.Lemmas.Survive
open Sdmmc.Model Sdmmc.Model.Fat Sdmmc.Spec.Volume Sdmmc.Lemmas.VolBase Sdmmc.Lemmas.VolTree
open Sdmmc.Spec hiding NoFault Coherent
open Sdmmc.Lemmas.VolDisk Sdmmc.Lemmas.VolMed Sdmmc.Lemmas.VolEng
open Sdmmc.Lemmas.WriteSetInv
open Sdmmc.Lemmas.AbsFs (FsCovered FsCoveredRun)
open Sdmmc.Lemmas.ReadRefines (MgrOK)

/-! ### A crash point of one call -/

/-- **At a crash point of a call** issued in a `Kept` state that keeps the file (`SameFile`, from `kept_step`): if the
crashed medium is crash-consistent (`CrashInv`) and mounts, then (a) it shows the flushed file — slot bytes, chain,
contents —, the sub-directory entries `ys` still lead from the root directory to the file's directory, (b) the slot is
the first hit for the file's name in that directory, and (c) any fresh manager mounts, opens the root directory, walks
the path, opens the file and reads exactly the flushed contents. -/
theorem kept_crash {v0 : FatVolume} {e : DirEntry} {cs : List Nat} {ys : List Slot} {h : Nat} {s : Mgr} {gh : Ghost}
    (hK : Kept v0 e cs ys h s gh) (hst : Reopen.Storable v0.fatType e) {dk : Disk}
    (hS : SameFile v0 e cs gh ys s.dev.disk dk) {ghk : Ghost} (hC : CrashInv v0 dk ghk) (idx : Nat) (w : FatVolume)
    (hmw : mountPure (dk.get 0) idx dk.get = .ok w) (hsw : SameGeom v0 w) :
    FlushedOn v0 dk e cs ∧ (∀ n, fileContent v0 dk cs n = fileContent v0 s.dev.disk cs n) ∧
    PathOn v0.fatType ghk.dirs (dirSlots v0 dk ghk.G) 0 ys h ∧
    Reopen.FirstHit (dirSlots v0 dk ghk.G h) e.name (slotOf v0.fatType e) ∧
    ∀ (t0 : Mgr) (names : List (List Nat)) (name : List Nat), MgrOK t0 → t0.dev.disk = dk → t0.vols = [] → t0.dirs = [] →
      t0.files = [] → 0 < t0.maxVols → ys.length + 1 ≤ t0.maxDirs → 0 < t0.maxFiles →
      t0.nextId + ys.length + 2 < 4294967296 → Spells names ys → Sfn.createFromStr name = .ok e.name →
      ∃ t1 t2 dh t3 t4, openRawVolume idx t0 = (.ok t0.nextId, t1) ∧
        openRootDir t0.nextId t1 = (.ok (t0.nextId + 1), t2) ∧
        openPath (t0.nextId + 1) names t2 = (.ok dh, t3) ∧
        openFileInDir dh name .ReadOnly t3 = (.ok (t0.nextId + ys.length + 2), t4) ∧
        t4.dev.disk = dk ∧ t4.dev.wlog = t0.dev.wlog ∧
        fileLength (t0.nextId + ys.length + 2) t4 = (.ok e.size, t4) ∧
        ∀ n, ∃ t5, read (t0.nextId + ys.length + 2) n t4 = (.ok ((fileContent v0 s.dev.disk cs e.size).take n), t5) ∧
          t5.dev.disk = dk ∧ t5.dev.wlog = t0.dev.wlog := by
  have hI := hK.inv
  have hM := medX_of_med hI.med
  have hg0 : WFGeom v0 := hC.geom
  have hft := hK.geom.fatType
  have hx := hK.obj' hst
  obtain ⟨hn0, hn5, hlfn, hplain, _, _, _, _⟩ := hK.facts hst
  obtain ⟨_, hCore⟩ := VolCrash.crashInv_iff.1 hC
  have hFl : FlushedOn v0 dk e cs := hS.flushed hK.flushed
  have hcont : ∀ n, fileContent v0 dk cs n = fileContent v0 s.dev.disk cs n := fun n => by unfold fileContent; rw [hS.bytes]
  -- the chains of the directories have only grown
  have hpreAll : ∀ q, q ∈ dirIds gh.dirs → q ∈ dirIds ghk.dirs → dirChain gh.vol gh.G q <+: dirChain v0 ghk.G q := by
    intro q hq hqk
    have hfe : isFixedRoot v0 q ↔ isFixedRoot gh.vol q := by unfold isFixedRoot; rw [hft]
    have hdh : dirHead gh.vol q = dirHead v0 q := by
      obtain ⟨a, b, hv⟩ := hK.geom
      rw [hv]; rfl
    by_cases hf : isFixedRoot gh.vol q
    · unfold dirChain; rw [if_pos hf, if_pos (hfe.2 hf)]; exact List.prefix_refl _
    · have hf0 : ¬ isFixedRoot v0 q := fun h' => hf (hfe.1 h')
      obtain ⟨m1, d1⟩ := dirChain_spec hM hq hf
      have c1 := med_chain hM m1
      rw [headD_of_head? d1] at c1
      have c1' : Chain v0 s.dev.disk (dirHead v0 q) (chainOf gh.G (dirHead v0 q)) := by
        have := ForestBase.chain_sameGeom hK.geom.symm c1
        rw [hdh] at this
        exact this
      obtain ⟨m2, d2⟩ := VolCrash.Fsck.dirChain_spec hCore hqk hf0
      have c2 := VolCrash.Fsck.lchain hCore m2
      rw [headD_of_head? d2] at c2
      have hdc1 : dirChain gh.vol gh.G q = chainOf gh.G (dirHead v0 q) := by unfold dirChain; rw [if_neg hf, hdh]
      have hdc2 : dirChain v0 ghk.G q = chainOf ghk.G (dirHead v0 q) := by unfold dirChain; rw [if_neg hf0]
      have hdf := hS.dirfat q hq
      rw [hdc1] at hdf
      rw [hdc1, hdc2]
      exact chain_prefix c1' c2 fun c hc => ForestBase.nextOf_congr rfl (hdf c hc)
  -- the way to the directory
  have hP : PathOn v0.fatType ghk.dirs (dirSlots v0 dk ghk.G) 0 ys h := by
    refine pathOn_next hK.geom.symm (TreeView.of_treeOK hI.med.tree) (TreeView.of_treeLoose hC.tree) hpreAll ?_ hK.path
      hK.pathNames (zero_mem_dirIds _)
    intro y hy
    obtain ⟨q, hq, hyo, _⟩ := hK.path.entry y hy
    rw [hS.path y hy]
    exact (dirSlots_bytes (mem_of_mem_objects hyo)).symm
  have hhk : h ∈ dirIds ghk.dirs := hP.end_mem
  have hxm : slotOf v0.fatType e ∈ dirSlots v0 dk ghk.G h := by
    have hxs := hx.memSlots
    rw [hft] at hxs
    refine mem_dirSlots_next hK.geom.symm hxs ?_ (hpreAll h hx.dir hhk)
    show slice (dk.get e.entryBlock) e.entryOffset 32 = e.serialize v0.fatType
    exact hFl.slot
  obtain ⟨r1, r2⟩ := path_read hC hFl hst hn0 hn5 hlfn hplain (hK.fit hst) hP (fun y hy => (hK.pathNames y hy).1) hxm idx w hmw hsw
  refine ⟨hFl, hcont, hP, r1, ?_⟩
  intro t0 names name ht0 hdisk hvols hdirs hfiles hmv hmd hmf hid hsp hname
  obtain ⟨t1, t2, dh, t3, t4, g1, g2, g3, g4, g5, g6, g7, g8⟩ := r2 t0 names name ht0 hdisk hvols hdirs hfiles hmv hmd hmf hid hsp hname
  refine ⟨t1, t2, dh, t3, t4, g1, g2, g3, g4, g5, g6, g7, fun n => ?_⟩
  obtain ⟨t5, hr, hd5, hw5⟩ := g8 n
  refine ⟨t5, ?_, hd5, hw5⟩
  rw [← hcont]; exact hr

/-! ### Histories -/

/-- No call of the history targets the file (name `N`, directory `h`, slot position `pos`) in the state it is issued
in: no `open_file_in_dir` of the name in that directory in a truncating mode, no `delete_file_in_dir` of it, no
`write` through a handle (other than a read-only one) of an open file at the slot. -/
def Untouched (h : Nat) (N : Bytes) (pos : Nat × Nat) : Mgr → List Op → Prop
  | _, [] => True
  | s, op :: ops => ¬ Targets s h N pos op ∧ Untouched h N pos (step s op).1 ops

/-- **`Kept` is carried through the history**: the `j`-th call is issued in a `Kept` state, and every crash point of it
keeps the file (`SameFile`). -/
theorem kept_history {v0 : FatVolume} {e : DirEntry} {cs : List Nat} {ys : List Slot} {h : Nat} (hst : Reopen.Storable v0.fatType e) :
    ∀ (ops : List Op) (s : Mgr) (gh : Ghost), Kept v0 e cs ys h s gh → FsCoveredRun v0 s ops →
      Untouched h e.name (e.entryBlock, e.entryOffset) s ops → ∀ (j : Nat) (op : Op), ops[j]? = some op →
      ∃ ghj, Kept v0 e cs ys h (run s (ops.take j)).1 ghj ∧
        ∀ k, SameFile v0 e cs ghj ys (run s (ops.take j)).1.dev.disk
          (crashDisk (run s (ops.take j)).1.dev.disk (step (run s (ops.take j)).1 op).2.writes k)
  | [], _, _, _, _, _, _, _, hj => by simp at hj
  | o :: ops, s, gh, hK, hc, hu, 0, op, hj => by
    have : o = op := by simpa using hj
    subst this
    obtain ⟨hsame, _⟩ := kept_step hK hst hc.1 hu.1
    exact ⟨gh, hK, hsame⟩
  | o :: ops, s, gh, hK, hc, hu, j + 1, op, hj => by
    obtain ⟨_, _, _, gh', hK', _⟩ := kept_step hK hst hc.1 hu.1
    have := kept_history hst ops (step s o).1 gh' hK' hc.2 hu.2 j op (by simpa using hj)
    rw [List.take_succ_cons, run_cons]
    exact this

/-- … the state after the whole history is `Kept`, and its medium keeps the file. -/
theorem kept_run {v0 : FatVolume} {e : DirEntry} {cs : List Nat} {ys : List Slot} {h : Nat} (hst : Reopen.Storable v0.fatType e) :
    ∀ (ops : List Op) (s : Mgr) (gh : Ghost), Kept v0 e cs ys h s gh → FsCoveredRun v0 s ops →
      Untouched h e.name (e.entryBlock, e.entryOffset) s ops →
      (∃ gh', Kept v0 e cs ys h (run s ops).1 gh') ∧
      (∀ x, x ∈ cs → fatRaw v0 (run s ops).1.dev.disk x = fatRaw v0 s.dev.disk x) ∧
      ∀ n, fileContent v0 (run s ops).1.dev.disk cs n = fileContent v0 s.dev.disk cs n
  | [], _, gh, hK, _, _ => ⟨⟨gh, hK⟩, fun _ _ => rfl, fun _ => rfl⟩
  | o :: ops, s, gh, hK, hc, hu => by
    obtain ⟨hsame, hd, _, gh', hK', _⟩ := kept_step hK hst hc.1 hu.1
    rw [run_cons]
    obtain ⟨r1, r2, r3⟩ := kept_run hst ops (step s o).1 gh' hK' hc.2 hu.2
    have hS := (hsame (step s o).2.writes.length).congr (d' := (step s o).1.dev.disk)
      (fun i => by rw [hd i]; unfold crashDisk; rw [List.take_length])
    refine ⟨r1, fun x hx => (r2 x hx).trans (hS.fat x hx), fun n => (r3 n).trans ?_⟩
    unfold fileContent
    rw [hS.bytes]

theorem fsCoveredRun_take (v0 : FatVolume) : ∀ (ops : List Op) (s : Mgr), FsCoveredRun v0 s ops → ∀ j, FsCoveredRun v0 s (ops.take j)
  | [], _, _, _ => by simp [FsCoveredRun]
  | _ :: _, _, _, 0 => trivial
  | o :: ops, s, h, j + 1 => ⟨h.1, fsCoveredRun_take v0 ops _ h.2 j⟩

theorem untouched_take (h : Nat) (N : Bytes) (pos : Nat × Nat) : ∀ (ops : List Op) (s : Mgr), Untouched h N pos s ops →
    ∀ j, Untouched h N pos s (ops.take j)
  | [], _, _, _ => by simp [Untouched]
  | _ :: _, _, _, 0 => trivial
  | o :: ops, s, hu, j + 1 => ⟨hu.1, untouched_take h N pos ops _ hu.2 j⟩

/-- **The syntactic criterion**: if no handle at the slot has unflushed changes, the licences of a covered history that
never targets the file are all `NotNamed` for it. -/
theorem kept_runLicensed {v0 : FatVolume} {e : DirEntry} {cs : List Nat} {ys : List Slot} {h : Nat} (hst : Reopen.Storable v0.fatType e) :
    ∀ (ops : List Op) (s : Mgr) (gh : Ghost), Kept v0 e cs ys h s gh → FsCoveredRun v0 s ops →
      Untouched h e.name (e.entryBlock, e.entryOffset) s ops → CleanAt s (e.entryBlock, e.entryOffset) →
      ∃ Ls, RunLicensed v0 s ops Ls ∧ ∀ L, L ∈ Ls → NotNamed v0 L e.entryBlock e.entryOffset cs
  | [], s, _, _, _, _, _ => ⟨[], .nil s, fun _ hL => nomatch hL⟩
  | o :: ops, s, gh, hK, hc, hu, hcl => by
    obtain ⟨_, hd, hlic, gh', hK', hcl', _⟩ := kept_step hK hst hc.1 hu.1
    obtain ⟨L, hl, hall, hnn⟩ := hlic hcl
    obtain ⟨Ls, hR, hall'⟩ := kept_runLicensed hst ops (step s o).1 gh' hK' hc.2 hu.2 (hcl' hcl)
    refine ⟨L :: Ls, .cons s o ops L Ls gh hK.inv hK.geom hl hall hd hR, ?_⟩
    intro L' hL'
    rcases List.mem_cons.1 hL' with e1 | e1
    · rw [e1]; exact hnn
    · exact hall' L' e1

/-! ### A sufficient condition that does not mention the slot -/

/-- The call opens the file named `N` of directory `h` in a mode other than `ReadOnly`, or deletes it. -/
def Modifies (s : Mgr) (h : Nat) (N : Bytes) : Op → Prop
  | .openFile dh name mode => mode ≠ .ReadOnly ∧ Sfn.createFromStr name = .ok N ∧
      ∃ dir, dir ∈ s.dirs ∧ dir.rawDirectory = dh ∧ dirIdOf dir.cluster = h
  | .delete dh name => Sfn.createFromStr name = .ok N ∧
      ∃ dir, dir ∈ s.dirs ∧ dir.rawDirectory = dh ∧ dirIdOf dir.cluster = h
  | _ => False

/-- No call of the history opens the file named `N` of directory `h` in a mode other than `ReadOnly` or deletes it,
in the state it is issued in. -/
def NeverOpened (h : Nat) (N : Bytes) : Mgr → List Op → Prop
  | _, [] => True
  | s, op :: ops => ¬ Modifies s h N op ∧ NeverOpened h N (step s op).1 ops

theorem modifies_of_opens {s : Mgr} {h : Nat} {N : Bytes} {op : Op} (ho : Opens s h N op) : Modifies s h N op := by
  cases op with
  | openFile d name mode => exact ho
  | _ => exact ho.elim

/-- While only read-only handles sit at the slot, a call that neither opens the file in another mode nor deletes it
does not target it. -/
theorem not_targets_of_ro {s : Mgr} {h : Nat} {N : Bytes} {pos : Nat × Nat} {op : Op}
    (hro : ∀ f, f ∈ s.files → fkey f = pos → f.mode = .ReadOnly) (h1 : ¬ Modifies s h N op) : ¬ Targets s h N pos op := by
  intro ht
  cases op with
  | openFile d name mode =>
    obtain ⟨hm, hrest⟩ := ht
    refine h1 ⟨?_, hrest⟩
    rcases hm with rfl | rfl <;> (intro e; cases e)
  | delete d name => exact h1 ht
  | write hd data =>
    obtain ⟨f, hf, _, hk, hmode⟩ := ht
    exact hmode (hro f hf hk)
  | _ => exact ht.elim

/-- **If only read-only handles refer to the file (for instance none: it is closed) and the history never opens it in
another mode and never deletes it, the history never targets it.** -/
theorem untouched_of_neverOpened {v0 : FatVolume} {e : DirEntry} {cs : List Nat} {ys : List Slot} {h : Nat} (hst : Reopen.Storable v0.fatType e) :
    ∀ (ops : List Op) (s : Mgr) (gh : Ghost), Kept v0 e cs ys h s gh → FsCoveredRun v0 s ops →
      (∀ f, f ∈ s.files → fkey f = (e.entryBlock, e.entryOffset) → f.mode = .ReadOnly) → NeverOpened h e.name s ops →
      Untouched h e.name (e.entryBlock, e.entryOffset) s ops
  | [], _, _, _, _, _, _ => trivial
  | o :: ops, s, gh, hK, hc, hro, hn => by
    have hnt := not_targets_of_ro hro hn.1
    obtain ⟨_, _, _, gh', hK', _, hro'⟩ := kept_step hK hst hc.1 hnt
    exact ⟨hnt, untouched_of_neverOpened hst ops (step s o).1 gh' hK' hc.2
      (hro' hro (fun ho => hn.1 (modifies_of_opens ho))) hn.2⟩

/-- A history that contains no `open_file_in_dir` in a mode other than `ReadOnly` and no `delete_file_in_dir` of any
spelling of the name `N` at all — in whatever directory. -/
def NeverNames (N : Bytes) : List Op → Prop
  | [] => True
  | .openFile _ name mode :: ops => (mode = .ReadOnly ∨ Sfn.createFromStr name ≠ .ok N) ∧ NeverNames N ops
  | .delete _ name :: ops => Sfn.createFromStr name ≠ .ok N ∧ NeverNames N ops
  | _ :: ops => NeverNames N ops

/-- The purely syntactic condition implies the state-dependent one, for every directory and from every state. -/
theorem neverOpened_of_neverNames (h : Nat) (N : Bytes) : ∀ (ops : List Op) (s : Mgr), NeverNames N ops → NeverOpened h N s ops
  | [], _, _ => trivial
  | op :: ops, s, hn => by
    cases op with
    | openFile d name mode =>
      refine ⟨fun hm => ?_, neverOpened_of_neverNames h N ops _ hn.2⟩
      rcases hn.1 with e | e
      · exact hm.1 e
      · exact e hm.2.1
    | delete d name => exact ⟨fun hm => hn.1 hm.1, neverOpened_of_neverNames h N ops _ hn.2⟩
    | _ => exact ⟨fun hm => hm.elim, neverOpened_of_neverNames h N ops _ hn⟩

end Sdmmc.Lemmas.Survive
