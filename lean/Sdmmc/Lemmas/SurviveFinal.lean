/-
C09 over whole histories, part 13: CRASH POINTS and HISTORIES.  `kept_crash`: at every crash point of a call issued in
a `Kept` state (root-directory file), on a crash-consistent medium (`CrashInv`, `Props.C10Inv`) that mounts: the
flushed file is there (slot, chain, contents), its slot is the first hit for its name in the root directory, and any
fresh manager reads it.  `kept_history`: `Kept` is carried through every covered history that never targets the file
(`Untouched`), each call with a licence that does not name it; `kept_runLicensed`: hence every licence of the history
is `NotNamed` for the file — the syntactic criterion.
-/
import Sdmmc.Lemmas.SurviveRoot
import Sdmmc.Lemmas.VolCrashFsck

namespace Sdmmc.Lemmas.Survive
open Sdmmc.Model Sdmmc.Model.Fat Sdmmc.Spec.Volume Sdmmc.Lemmas.VolBase Sdmmc.Lemmas.VolTree
open Sdmmc.Spec hiding NoFault Coherent
open Sdmmc.Lemmas.VolDisk Sdmmc.Lemmas.VolMed Sdmmc.Lemmas.VolEng
open Sdmmc.Lemmas.WriteSetInv
open Sdmmc.Lemmas.AbsFs (FsCovered FsCoveredRun)
open Sdmmc.Lemmas.ReadRefines (MgrOK)

/-! ### A crash point of one call -/

/-- **At every crash point of a call** issued in a `Kept` state (file of the root directory), licensed by `L`
(`NotNamed` for the file, no FAT entry of a non-last cluster of the root chain): if the crashed medium is
crash-consistent (`CrashInv`) and mounts, then (a) it shows the flushed file — slot bytes, chain, FAT entries,
contents —, (b) the slot is the first hit for the file's name in the root directory, and (c) any fresh manager mounts,
opens the root directory, opens the file and reads exactly the flushed contents. -/
theorem kept_crash {v0 : FatVolume} {e : DirEntry} {cs : List Nat} {s : Mgr} {gh : Ghost} (hK : Kept v0 e cs 0 s gh)
    (hst : Reopen.Storable v0.fatType e) {L : Licence} {ws : List (Nat × Block)} (hwf : LicWF v0 L)
    (hall : AllLicensed v0 s.dev.disk L ws) (hnn : NotNamed v0 L e.entryBlock e.entryOffset cs)
    (hav : ∀ c, c ∈ (dirChain gh.vol gh.G 0).dropLast → c ∉ L.fatClusters) (k : Nat) {ghk : Ghost}
    (hC : CrashInv v0 (crashDisk s.dev.disk ws k) ghk) (idx : Nat) (w : FatVolume)
    (hmw : mountPure ((crashDisk s.dev.disk ws k).get 0) idx (crashDisk s.dev.disk ws k).get = .ok w) (hsw : SameGeom v0 w) :
    BlocksOK (crashDisk s.dev.disk ws k) ∧ FlushedOn v0 (crashDisk s.dev.disk ws k) e cs ∧
    (∀ x, x ∈ cs → fatRaw v0 (crashDisk s.dev.disk ws k) x = fatRaw v0 s.dev.disk x) ∧
    (∀ n, fileContent v0 (crashDisk s.dev.disk ws k) cs n = fileContent v0 s.dev.disk cs n) ∧
    Reopen.FirstHit (Reopen.dirSlotsOf v0 (crashDisk s.dev.disk ws k) 0xFFFFFFFC (dirChain v0 ghk.G 0)) e.name
      (slotOf v0.fatType e) ∧
    ∀ (t0 : Mgr) (name : List Nat), MgrOK t0 → t0.dev.disk = crashDisk s.dev.disk ws k → t0.vols = [] → t0.dirs = [] →
      t0.files = [] → 0 < t0.maxVols → 0 < t0.maxDirs → 0 < t0.maxFiles → t0.nextId + 2 < 4294967296 →
      Sfn.createFromStr name = .ok e.name →
      ∃ t1 t2 t3, openRawVolume idx t0 = (.ok t0.nextId, t1) ∧
        openRootDir t0.nextId t1 = (.ok (t0.nextId + 1), t2) ∧
        openFileInDir (t0.nextId + 1) name .ReadOnly t2 = (.ok (t0.nextId + 2), t3) ∧
        t3.dev.disk = crashDisk s.dev.disk ws k ∧ t3.dev.wlog = t0.dev.wlog ∧
        fileLength (t0.nextId + 2) t3 = (.ok e.size, t3) ∧
        ∀ n, ∃ t4, read (t0.nextId + 2) n t3 = (.ok ((fileContent v0 s.dev.disk cs e.size).take n), t4) ∧
          t4.dev.disk = crashDisk s.dev.disk ws k ∧ t4.dev.wlog = t0.dev.wlog := by
  generalize hdk : crashDisk s.dev.disk ws k = dk at hC hmw ⊢
  have hI := hK.inv
  have hM := medX_of_med hI.med
  have hg0 : WFGeom v0 := hC.geom
  have hft := hK.geom.fatType
  have hx := hK.obj'
  obtain ⟨hn0, hn5, hlfn, hplain, hreg, hal, _, hin⟩ := hK.facts hst
  have hb := hI.med.blocksOK
  have hbk := hC.blocksOK
  obtain ⟨_, hCore⟩ := VolCrash.crashInv_iff.1 hC
  -- the frame
  have hF : ∀ b i, (∀ L', L' ∈ [L] → ¬ Covers v0 L' b i) → (dk.get b).getD i 0 = (s.dev.disk.get b).getD i 0 := by
    intro b i hcov
    rw [← hdk]
    exact crash_frame hall (hcov L List.mem_cons_self) k
  have hsp : ∀ L', L' ∈ [L] → Spares v0 L' e.entryBlock e.entryOffset cs := by
    intro L' hL'
    rw [List.mem_singleton.1 hL']
    exact spares_of_avoids hg0 hin hreg hal (avoids_of hwf hnn)
  obtain ⟨f1, f2, f3, f4⟩ := spared_at hb hbk hF e.entryBlock e.entryOffset cs hsp
  have hFl : FlushedOn v0 dk e cs := by
    refine ⟨by rw [f1]; exact hK.flushed.slot, ?_⟩
    rcases hK.flushed.chain with h1 | h1
    · exact .inl h1
    · exact .inr (f3 _ h1)
  have hcont : ∀ n, fileContent v0 dk cs n = fileContent v0 s.dev.disk cs n := fun n => by unfold fileContent; rw [f4]
  -- the root chain has only grown
  have h0k : 0 ∈ dirIds ghk.dirs := zero_mem_dirIds _
  have hfe : isFixedRoot v0 0 ↔ isFixedRoot gh.vol 0 := by unfold isFixedRoot; rw [hft]
  have hrck : ¬ isFixedRoot v0 0 → Chain v0 dk (dirHead v0 0) (chainOf ghk.G (dirHead v0 0)) := by
    intro hf
    obtain ⟨m2, d2⟩ := VolCrash.Fsck.dirChain_spec hCore h0k hf
    have c2 := VolCrash.Fsck.lchain hCore m2
    rw [headD_of_head? d2] at c2
    exact c2
  have hdh : dirHead gh.vol 0 = dirHead v0 0 := by
    obtain ⟨a, b, hv⟩ := hK.geom
    rw [hv]; rfl
  have hpre : dirChain gh.vol gh.G 0 <+: dirChain v0 ghk.G 0 := by
    by_cases hf : isFixedRoot gh.vol 0
    · unfold dirChain; rw [if_pos hf, if_pos (hfe.2 hf)]; exact List.prefix_refl _
    · have hf0 : ¬ isFixedRoot v0 0 := fun h => hf (hfe.1 h)
      obtain ⟨m1, d1⟩ := dirChain_spec hM hx.dir hf
      have c1 := med_chain hM m1
      rw [headD_of_head? d1] at c1
      have c1' : Chain v0 s.dev.disk (dirHead v0 0) (chainOf gh.G (dirHead v0 0)) := by
        have := ForestBase.chain_sameGeom hK.geom.symm c1
        rw [hdh] at this
        exact this
      have hdc1 : dirChain gh.vol gh.G 0 = chainOf gh.G (dirHead v0 0) := by unfold dirChain; rw [if_neg hf, hdh]
      have hdc2 : dirChain v0 ghk.G 0 = chainOf ghk.G (dirHead v0 0) := by unfold dirChain; rw [if_neg hf0]
      rw [hdc1, hdc2]
      refine chain_prefix c1' (hrck hf0) fun c hc => ?_
      have hcr : InRange v0 c := ChainL.chain_inRange c1' c (List.dropLast_subset _ hc)
      have hraw : fatRaw v0 dk c = fatRaw v0 s.dev.disk c :=
        fatRaw_of_frame hg0 hwf (fun b i hcov => hF b i (fun L' hL' => by rw [List.mem_singleton.1 hL']; exact hcov))
          hcr (hav c (by rw [hdc1]; exact hc))
      exact ForestBase.nextOf_congr rfl hraw
  have hxm : slotOf v0.fatType e ∈ dirSlots v0 dk ghk.G 0 := by
    have hxs := hx.memSlots
    rw [hft] at hxs
    refine mem_dirSlots_next hK.geom.symm hxs ?_ hpre
    show slice (dk.get e.entryBlock) e.entryOffset 32 = e.serialize v0.fatType
    exact hFl.slot
  have hrc : v0.fatType = .fat32 → Chain v0 dk v0.firstRootDirCluster (chainOf ghk.G v0.firstRootDirCluster) := by
    intro h32
    have hf0 : ¬ isFixedRoot v0 0 := fun h => by have := h.2; rw [h32] at this; cases this
    have := hrck hf0
    have hd0 : dirHead v0 0 = v0.firstRootDirCluster := by unfold dirHead; rw [if_pos rfl]
    rw [hd0] at this
    exact this
  obtain ⟨r1, r2⟩ := root_read hg0 hFl hst hn0 hn5 hlfn hplain (hK.fit hst) (hC.tree.cleanTail 0 h0k) (hC.tree.names 0 h0k) hxm hrc
    idx w hmw hsw
  refine ⟨hbk, hFl, f2, hcont, r1, ?_⟩
  intro t0 name ht0 hdisk hvols hdirs hfiles hmv hmd hmf hid hname
  obtain ⟨t1, t2, t3, g1, g2, g3, g4, g5, g6, g7⟩ := r2 t0 name ht0 hdisk hvols hdirs hfiles hmv hmd hmf hid hname
  refine ⟨t1, t2, t3, g1, g2, g3, g4, g5, g6, fun n => ?_⟩
  obtain ⟨t4, hr, hd4, hw4⟩ := g7 n
  refine ⟨t4, ?_, hd4, hw4⟩
  rw [← hcont]; exact hr

/-! ### Histories -/

/-- No call of the history targets the file (name `N`, directory `h`, slot position `pos`) in the state it is issued
in: no `open_file_in_dir` of the name in that directory in a truncating mode, no `delete_file_in_dir` of it, no
`write` through a handle (other than a read-only one) of an open file at the slot. -/
def Untouched (h : Nat) (N : Bytes) (pos : Nat × Nat) : Mgr → List Op → Prop
  | _, [] => True
  | s, op :: ops => ¬ Targets s h N pos op ∧ Untouched h N pos (step s op).1 ops

/-- **`Kept` is carried through the history**: the `j`-th call is issued in a `Kept` state and has a licence that is
well formed, licenses its writes, is `NotNamed` for the file and names no FAT entry of a non-last cluster of the
directory's chain. -/
theorem kept_history {v0 : FatVolume} {e : DirEntry} {cs : List Nat} {h : Nat} (hst : Reopen.Storable v0.fatType e) :
    ∀ (ops : List Op) (s : Mgr) (gh : Ghost), Kept v0 e cs h s gh → FsCoveredRun v0 s ops →
      Untouched h e.name (e.entryBlock, e.entryOffset) s ops → ∀ (j : Nat) (op : Op), ops[j]? = some op →
      ∃ ghj L, Kept v0 e cs h (run s (ops.take j)).1 ghj ∧ LicWF v0 L ∧
        AllLicensed v0 (run s (ops.take j)).1.dev.disk L (step (run s (ops.take j)).1 op).2.writes ∧
        NotNamed v0 L e.entryBlock e.entryOffset cs ∧
        ∀ c, c ∈ (dirChain ghj.vol ghj.G h).dropLast → c ∉ L.fatClusters
  | [], _, _, _, _, _, _, _, hj => by simp at hj
  | o :: ops, s, gh, hK, hc, hu, 0, op, hj => by
    have : o = op := by simpa using hj
    subst this
    obtain ⟨L, _, hall, _, hwf, hnn, hav, _⟩ := kept_step hK hst hc.1 hu.1
    exact ⟨gh, L, hK, hwf, hall, hnn, hav⟩
  | o :: ops, s, gh, hK, hc, hu, j + 1, op, hj => by
    obtain ⟨L, _, _, _, _, _, _, gh', hK', _⟩ := kept_step hK hst hc.1 hu.1
    have := kept_history hst ops (step s o).1 gh' hK' hc.2 hu.2 j op (by simpa using hj)
    rw [List.take_succ_cons, run_cons]
    exact this

/-- … and the state after the whole history is `Kept`. -/
theorem kept_run {v0 : FatVolume} {e : DirEntry} {cs : List Nat} {h : Nat} (hst : Reopen.Storable v0.fatType e) :
    ∀ (ops : List Op) (s : Mgr) (gh : Ghost), Kept v0 e cs h s gh → FsCoveredRun v0 s ops →
      Untouched h e.name (e.entryBlock, e.entryOffset) s ops → ∃ gh', Kept v0 e cs h (run s ops).1 gh'
  | [], _, gh, hK, _, _ => ⟨gh, hK⟩
  | o :: ops, s, gh, hK, hc, hu => by
    obtain ⟨L, _, _, _, _, _, _, gh', hK', _⟩ := kept_step hK hst hc.1 hu.1
    rw [run_cons]
    exact kept_run hst ops (step s o).1 gh' hK' hc.2 hu.2

/-- **The syntactic criterion**: the licences of a covered history that never targets the file are all `NotNamed` for
it. -/
theorem kept_runLicensed {v0 : FatVolume} {e : DirEntry} {cs : List Nat} {h : Nat} (hst : Reopen.Storable v0.fatType e) :
    ∀ (ops : List Op) (s : Mgr) (gh : Ghost), Kept v0 e cs h s gh → FsCoveredRun v0 s ops →
      Untouched h e.name (e.entryBlock, e.entryOffset) s ops →
      ∃ Ls, RunLicensed v0 s ops Ls ∧ ∀ L, L ∈ Ls → NotNamed v0 L e.entryBlock e.entryOffset cs
  | [], s, _, _, _, _ => ⟨[], .nil s, fun _ hL => nomatch hL⟩
  | o :: ops, s, gh, hK, hc, hu => by
    obtain ⟨L, hl, hall, hd, _, hnn, _, gh', hK', _⟩ := kept_step hK hst hc.1 hu.1
    obtain ⟨Ls, hR, hall'⟩ := kept_runLicensed hst ops (step s o).1 gh' hK' hc.2 hu.2
    refine ⟨L :: Ls, .cons s o ops L Ls gh hK.inv hK.geom hl hall hd hR, ?_⟩
    intro L' hL'
    rcases List.mem_cons.1 hL' with e1 | e1
    · rw [e1]; exact hnn
    · exact hall' L' e1

/-! ### A sufficient condition that does not mention the slot -/

/-- The call opens the file named `N` of directory `h` in a mode other than `ReadOnly`, or deletes it. -/
def Modifies (s : Mgr) (h : Nat) (N : Bytes) : Op → Prop
  | .openFile dh name mode => mode ≠ .ReadOnly ∧ Sfn.createFromStr name = .ok N ∧
      ∃ dir, dir ∈ s.dirs ∧ dir.rawDirectory = dh ∧ dirIdOf dir.cluster = h
  | .delete dh name => Sfn.createFromStr name = .ok N ∧
      ∃ dir, dir ∈ s.dirs ∧ dir.rawDirectory = dh ∧ dirIdOf dir.cluster = h
  | _ => False

/-- No call of the history opens the file named `N` of directory `h` in a mode other than `ReadOnly` or deletes it,
in the state it is issued in. -/
def NeverOpened (h : Nat) (N : Bytes) : Mgr → List Op → Prop
  | _, [] => True
  | s, op :: ops => ¬ Modifies s h N op ∧ NeverOpened h N (step s op).1 ops

theorem modifies_of_opens {s : Mgr} {h : Nat} {N : Bytes} {op : Op} (ho : Opens s h N op) : Modifies s h N op := by
  cases op with
  | openFile d name mode => exact ho
  | _ => exact ho.elim

/-- While only read-only handles sit at the slot, a call that neither opens the file in another mode nor deletes it
does not target it. -/
theorem not_targets_of_ro {s : Mgr} {h : Nat} {N : Bytes} {pos : Nat × Nat} {op : Op}
    (hro : ∀ f, f ∈ s.files → fkey f = pos → f.mode = .ReadOnly) (h1 : ¬ Modifies s h N op) : ¬ Targets s h N pos op := by
  intro ht
  cases op with
  | openFile d name mode =>
    obtain ⟨hm, hrest⟩ := ht
    refine h1 ⟨?_, hrest⟩
    rcases hm with rfl | rfl <;> (intro e; cases e)
  | delete d name => exact h1 ht
  | write hd data =>
    obtain ⟨f, hf, _, hk, hmode⟩ := ht
    exact hmode (hro f hf hk)
  | _ => exact ht.elim

/-- **If only read-only handles refer to the file (for instance none: it is closed) and the history never opens it in
another mode and never deletes it, the history never targets it.** -/
theorem untouched_of_neverOpened {v0 : FatVolume} {e : DirEntry} {cs : List Nat} {h : Nat} (hst : Reopen.Storable v0.fatType e) :
    ∀ (ops : List Op) (s : Mgr) (gh : Ghost), Kept v0 e cs h s gh → FsCoveredRun v0 s ops →
      (∀ f, f ∈ s.files → fkey f = (e.entryBlock, e.entryOffset) → f.mode = .ReadOnly) → NeverOpened h e.name s ops →
      Untouched h e.name (e.entryBlock, e.entryOffset) s ops
  | [], _, _, _, _, _, _ => trivial
  | o :: ops, s, gh, hK, hc, hro, hn => by
    have hnt := not_targets_of_ro hro hn.1
    obtain ⟨L, _, _, _, _, _, _, gh', hK', hro'⟩ := kept_step hK hst hc.1 hnt
    exact ⟨hnt, untouched_of_neverOpened hst ops (step s o).1 gh' hK' hc.2
      (hro' hro (fun ho => hn.1 (modifies_of_opens ho))) hn.2⟩

/-- A history that contains no `open_file_in_dir` in a mode other than `ReadOnly` and no `delete_file_in_dir` of any
spelling of the name `N` at all — in whatever directory. -/
def NeverNames (N : Bytes) : List Op → Prop
  | [] => True
  | .openFile _ name mode :: ops => (mode = .ReadOnly ∨ Sfn.createFromStr name ≠ .ok N) ∧ NeverNames N ops
  | .delete _ name :: ops => Sfn.createFromStr name ≠ .ok N ∧ NeverNames N ops
  | _ :: ops => NeverNames N ops

/-- The purely syntactic condition implies the state-dependent one, for every directory and from every state. -/
theorem neverOpened_of_neverNames (h : Nat) (N : Bytes) : ∀ (ops : List Op) (s : Mgr), NeverNames N ops → NeverOpened h N s ops
  | [], _, _ => trivial
  | op :: ops, s, hn => by
    cases op with
    | openFile d name mode =>
      refine ⟨fun hm => ?_, neverOpened_of_neverNames h N ops _ hn.2⟩
      rcases hn.1 with e | e
      · exact hm.1 e
      · exact e hm.2.1
    | delete d name => exact ⟨fun hm => hn.1 hm.1, neverOpened_of_neverNames h N ops _ hn.2⟩
    | _ => exact ⟨fun hm => hm.elim, neverOpened_of_neverNames h N ops _ hn⟩

end Sdmmc.Lemmas.Survive
