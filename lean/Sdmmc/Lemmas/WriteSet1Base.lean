/-
C04 WITHOUT `Mirror` (FAT copy 2 may lag; vocabulary `Spec/WriteSet1.lean`), base lemmas — the counterpart of
`Lemmas/WriteSetBase.lean`: `Licensed1` / `AllLicensed1` (monotone, geometry only, concatenation, regions), `LicD` over
`AllLicensed1`, and the standing hypotheses `Sound` = `Ready` ALONE (no `Mirror`).
-/
import Sdmmc.Spec.WriteSet1
import Sdmmc.Lemmas.WriteSetBase

namespace Sdmmc.Lemmas.WriteSet1
open Sdmmc.Model Sdmmc.Model.Fat Sdmmc.Spec
open Sdmmc.Lemmas.FBasic hiding NoFault Coherent
open Sdmmc.Lemmas.WriteSet (Eqv DTrace Licence.le_refl Licence.le_trans Licence.le_union_left Licence.le_union_right Licence.none_le)

/-! ### From the licences with identical copies -/

theorem licensed_of {v : FatVolume} {d : Disk} {L : Licence} {w : Nat × Block} (h : Licensed v d L w) : Licensed1 v d L w := by
  rcases h with h | h | h | h | h
  · exact .inl (.inl h)
  · exact .inr (.inl h)
  · exact .inr (.inr (.inl h))
  · exact .inr (.inr (.inr (.inl h)))
  · exact .inr (.inr (.inr (.inr h)))

theorem allLicensed_of {v : FatVolume} {L : Licence} : ∀ {ws : List (Nat × Block)} {d : Disk},
    AllLicensed v d L ws → AllLicensed1 v d L ws
  | [], _, _ => trivial
  | _ :: _, _, h => ⟨licensed_of h.1, allLicensed_of h.2⟩

/-- The first alternative, split. -/
theorem licensed1_cases {v : FatVolume} {d : Disk} {L : Licence} {w : Nat × Block} (h : Licensed1 v d L w) :
    Licensed v d L w ∨ Fat2Write v w := by
  rcases h with (h | h) | h | h | h | h
  · exact .inl (.inl h)
  · exact .inr h
  · exact .inl (.inr (.inl h))
  · exact .inl (.inr (.inr (.inl h)))
  · exact .inl (.inr (.inr (.inr (.inl h))))
  · exact .inl (.inr (.inr (.inr (.inr h))))

theorem licensed1_of_fat2 {v : FatVolume} {d : Disk} {L : Licence} {w : Nat × Block} (h : Fat2Write v w) : Licensed1 v d L w :=
  .inl (.inr h)

/-! ### The licence order -/

theorem licensed_mono {v : FatVolume} {d : Disk} {L L' : Licence} {w : Nat × Block} (hle : L.le L')
    (h : Licensed1 v d L w) : Licensed1 v d L' w := by
  rcases licensed1_cases h with h | h
  · exact licensed_of (WriteSet.licensed_mono hle h)
  · exact licensed1_of_fat2 h

theorem allLicensed_mono {v : FatVolume} {L L' : Licence} (hle : L.le L') : ∀ {ws : List (Nat × Block)} {d : Disk},
    AllLicensed1 v d L ws → AllLicensed1 v d L' ws
  | [], _, _ => trivial
  | _ :: _, _, h => ⟨licensed_mono hle h.1, allLicensed_mono hle h.2⟩

theorem allLicensed_append (v : FatVolume) (L : Licence) : ∀ (ws1 ws2 : List (Nat × Block)) (d : Disk),
    AllLicensed1 v d L (ws1 ++ ws2) ↔ AllLicensed1 v d L ws1 ∧ AllLicensed1 v (d.applyWrites ws1) L ws2
  | [], ws2, d => by simp [AllLicensed1]
  | w :: ws1, ws2, d => by
    rw [List.cons_append, Disk.applyWrites_cons]
    show Licensed1 v d L w ∧ AllLicensed1 v (d.set w.1 w.2) L (ws1 ++ ws2) ↔ _
    rw [allLicensed_append v L ws1 ws2]
    exact ⟨fun h => ⟨⟨h.1, h.2.1⟩, h.2.2⟩, fun h => ⟨h.1.1, h.1.2, h.2⟩⟩

/-- `Licensed1` reads the geometry only. -/
theorem licensed_sameGeom {v v' : FatVolume} (hs : SameGeom v v') (d : Disk) (L : Licence) (w : Nat × Block) :
    Licensed1 v' d L w ↔ Licensed1 v d L w := by
  obtain ⟨a, b, rfl⟩ := hs
  exact Iff.rfl

theorem allLicensed_sameGeom {v v' : FatVolume} (hs : SameGeom v v') (L : Licence) :
    ∀ (ws : List (Nat × Block)) (d : Disk), AllLicensed1 v' d L ws ↔ AllLicensed1 v d L ws
  | [], _ => Iff.rfl
  | w :: ws, d => by
    show Licensed1 v' d L w ∧ _ ↔ Licensed1 v d L w ∧ _
    rw [licensed_sameGeom hs, allLicensed_sameGeom hs L ws]

/-! ### Regions -/

theorem fat2_region (v : FatVolume) (hg : WFGeom v) {b : Nat} (h : IsFat2Block v b) : regionOf v b = .fat := by
  obtain ⟨c, hc, hb⟩ := h
  exact (FatLens.fat_blocks_in_fat_region v hg c hc).2 _ hb

/-- A licensed write stays where it belongs (as `WriteSet.licensed_in_region`). -/
theorem licensed_in_region (v : FatVolume) (hg : WFGeom v) (d : Disk) (L : Licence) (w : Nat × Block)
    (h : Licensed1 v d L w) :
    (regionOf v w.1 = .fat ∨ regionOf v w.1 = .root ∨ regionOf v w.1 = .data ∨ regionOf v w.1 = .info) ∧
    InPartition v w.1 ∧ v.lbaStart < w.1 ∧ w.1 ≠ 0 := by
  rcases licensed1_cases h with h | h
  · exact WriteSet.licensed_in_region v hg d L w h
  · have hreg : regionOf v w.1 = .fat := fat2_region v hg h.1
    have hin := FatLens.region_inside_partition v w.1 (by rw [hreg]; simp)
    exact ⟨.inl hreg, ⟨Nat.le_of_lt hin.1, hin.2⟩, hin.1, by omega⟩

theorem allLicensed_in_region (v : FatVolume) (hg : WFGeom v) (L : Licence) : ∀ (ws : List (Nat × Block)) (d : Disk),
    AllLicensed1 v d L ws → ∀ w, w ∈ ws →
      (regionOf v w.1 = .fat ∨ regionOf v w.1 = .root ∨ regionOf v w.1 = .data ∨ regionOf v w.1 = .info) ∧
      InPartition v w.1 ∧ v.lbaStart < w.1 ∧ w.1 ≠ 0
  | [], _, _, _, hw => nomatch hw
  | w0 :: ws, d, h, w, hw => by
    rcases List.mem_cons.1 hw with rfl | hw
    · exact licensed_in_region v hg d L _ h.1
    · exact allLicensed_in_region v hg L ws _ h.2 w hw

/-! ### Media with the same blocks -/

theorem licensed_congr {v : FatVolume} {d d' : Disk} (h : Eqv d d') (L : Licence) (w : Nat × Block) :
    Licensed1 v d L w ↔ Licensed1 v d' L w := by
  unfold Licensed1 FatWrite1 FatWrite SlotWrite InfoWrite RangeWrite
  rw [h w.1]

theorem allLicensed_congr {v : FatVolume} (L : Licence) : ∀ (ws : List (Nat × Block)) {d d' : Disk}, Eqv d d' →
    (AllLicensed1 v d L ws ↔ AllLicensed1 v d' L ws)
  | [], _, _, _ => Iff.rfl
  | w :: ws, d, d', h => by
    show Licensed1 v d L w ∧ _ ↔ Licensed1 v d' L w ∧ _
    rw [licensed_congr h, allLicensed_congr L ws (h.set w.1 w.2)]

/-! ### Traces on the device -/

/-- The device went from `dv` to `dv'` by writes that are all within the licence `L` (FAT copy 2 unconstrained). -/
def LicD (v : FatVolume) (L : Licence) (dv dv' : Dev) : Prop :=
  ∃ ws, DTrace dv dv' ws ∧ AllLicensed1 v dv.disk L ws

theorem LicD.of {v : FatVolume} {L : Licence} {dv dv' : Dev} (h : WriteSet.LicD v L dv dv') : LicD v L dv dv' :=
  let ⟨ws, t, l⟩ := h
  ⟨ws, t, allLicensed_of l⟩

theorem LicD.same {v : FatVolume} {L : Licence} {dv dv' : Dev} (hw : dv'.wlog = dv.wlog) (hd : dv'.disk = dv.disk) :
    LicD v L dv dv' := ⟨[], DTrace.same hw hd, trivial⟩

theorem LicD.refl (v : FatVolume) (L : Licence) (dv : Dev) : LicD v L dv dv := LicD.same rfl rfl

theorem LicD.trans {v : FatVolume} {L : Licence} {a b c : Dev} (h1 : LicD v L a b) (h2 : LicD v L b c) : LicD v L a c := by
  obtain ⟨ws1, t1, l1⟩ := h1
  obtain ⟨ws2, t2, l2⟩ := h2
  exact ⟨ws1 ++ ws2, t1.trans t2, (allLicensed_append v L ws1 ws2 a.disk).2 ⟨l1, (allLicensed_congr L ws2 t1.disk).1 l2⟩⟩

theorem LicD.mono {v : FatVolume} {L L' : Licence} {a b : Dev} (hle : L.le L') (h : LicD v L a b) : LicD v L' a b := by
  obtain ⟨ws, t, l⟩ := h
  exact ⟨ws, t, allLicensed_mono hle l⟩

theorem LicD.sameGeom {v v' : FatVolume} {L : Licence} {a b : Dev} (hs : SameGeom v v') (h : LicD v' L a b) : LicD v L a b := by
  obtain ⟨ws, t, l⟩ := h
  exact ⟨ws, t, (allLicensed_sameGeom hs L ws _).1 l⟩

theorem LicD.of_ro {v : FatVolume} {L : Licence} {s s' : FS} (h : FatOps.RO s s') : LicD v L s.dev s'.dev :=
  LicD.same h.wlog h.disk

theorem LicD.one {v : FatVolume} {L : Licence} {dv dv' : Dev} (w : Nat × Block)
    (hw : dv'.wlog = w :: dv.wlog) (hd : dv'.disk = dv.disk.set w.1 w.2) (hl : Licensed1 v dv.disk L w) :
    LicD v L dv dv' :=
  ⟨[w], ⟨by rw [hw]; rfl, by rw [hd]; exact Eqv.refl _⟩, hl, trivial⟩

theorem LicD.writes {v : FatVolume} {L : Licence} {dv dv' : Dev} (h : LicD v L dv dv') :
    ∃ ws, dv'.wlog = ws.reverse ++ dv.wlog ∧ (∀ i, dv'.disk.get i = (dv.disk.applyWrites ws).get i) ∧
      AllLicensed1 v dv.disk L ws := by
  obtain ⟨ws, t, l⟩ := h
  exact ⟨ws, t.wlog, t.disk, l⟩

/-! ### The standing hypotheses — WITHOUT `Mirror` -/

/-- No device fault scheduled, coherent cache, 512-byte blocks, sane geometry, hint ≥ 2.  (NOT: identical FAT copies.) -/
structure Sound (s : FS) : Prop where
  ready : Ready s

theorem Sound.noFault {s : FS} (h : Sound s) : NoFault s := h.ready.noFault
theorem Sound.coherent {s : FS} (h : Sound s) : Coherent s := h.ready.coherent
theorem Sound.blocksOK {s : FS} (h : Sound s) : BlocksOK s.dev.disk := h.ready.blocksOK
theorem Sound.geom {s : FS} (h : Sound s) : WFGeom s.vol := h.ready.geom
theorem Sound.hint {s : FS} (h : Sound s) : HintOK s.vol := h.ready.hint

theorem Sound.of_ro {s s' : FS} (h : Sound s) (hro : FatOps.RO s s') : Sound s' := by
  refine ⟨⟨hro.noFault h.noFault, hro.coherent h.coherent, ?_, ?_, ?_⟩⟩
  · intro i; rw [hro.disk]; exact h.blocksOK i
  · rw [hro.vol]; exact h.geom
  · rw [hro.vol]; exact h.hint

end Sdmmc.Lemmas.WriteSet1
