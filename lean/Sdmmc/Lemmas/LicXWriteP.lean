/-
C11 without `Mirror`: `write` satisfies `MPw` (`write_mpw`) — whatever device call of it fails, its device writes are a
prefix of the writes of the fault-free `write` from the same state.
-/
import Sdmmc.Lemmas.LicXWPfx
import Sdmmc.Lemmas.RetryWriteM

namespace Sdmmc.Lemmas.VolX.Lic
open Sdmmc.Model Sdmmc.Model.Fat Sdmmc.Spec Sdmmc.Lemmas.Fault Sdmmc.Lemmas.Retry Sdmmc.Lemmas.CrashBase Sdmmc.Lemmas.FaultPre
open Sdmmc.Lemmas.WriteRefines (locate bump)

theorem writeBlockPart_pre (b o : Nat) (d : Bytes) (w : Bool) : Pre (writeBlockPart b o d w) := by
  unfold writeBlockPart; pre_auto

/-- Reading the state: the continuation looks at the tables only. -/
theorem MPw.get_bind {β} {k : Mgr → M β} (hk : ∀ s0, MPw (k s0)) (hs : ∀ s, k (mclr s) = k s) : MPw (M.get >>= k) := by
  have e1 : ∀ s, (M.get >>= k) s = k s s := fun _ => rfl
  have e2 : ∀ s, (M.get >>= k) (mclr s) = k s (mclr s) := fun s => by
    show k (mclr s) (mclr s) = _
    rw [hs]
  refine ⟨FaultHist.MAgree.get_bind (fun s0 => (hk s0).agree) hs, fun s h => ?_, fun s => ?_⟩
  · rw [e1] at h ⊢; exact (hk s).rep s h
  · rw [e1, e2]; exact (hk s).pfx s

theorem withVol_find_ro (vi a b : Nat) (st : Nat × Nat) (s : Mgr) :
    (withVol vi (findDataOnDisk a b st) s).2.dev.wlog = s.dev.wlog ∧ (withVol vi (findDataOnDisk a b st) s).2.dev.disk = s.dev.disk := by
  rcases withVol_cases vi (findDataOnDisk a b st) s with ⟨_, he⟩ | ⟨v, _, he⟩
  · rw [he]; exact ⟨rfl, rfl⟩
  · rw [he]
    have := Retry.findDataOnDisk_readOnly a b st { dev := s.dev, cache := s.cache, vol := v.vol }
    exact ⟨this.wlog, this.disk⟩

theorem locate_mpw (vi : Nat) (f : FileInfo) : MPw (locate vi f) := by
  unfold locate
  refine MPw.attempt_bind_inner (MAgree.withVol _ (findDataOnDisk_agree _ _ _)) (MInner.withVol _ (findDataOnDisk_inner _ _ _))
    (withVol_find_ro _ _ _ _) (fun r => ?_) (fun st s => ⟨_, rfl⟩)
  split
  · exact MPw.pure _
  · refine MPw.attempt_bind_err (.of_mpre (MPre.withVol _ (allocCluster_pre _ _))) (fun ra => ?_) (fun e s => ⟨_, rfl⟩)
    split
    · refine MPw.attempt_bind_inner (MAgree.withVol _ (findDataOnDisk_agree _ _ _)) (MInner.withVol _ (findDataOnDisk_inner _ _ _))
        (withVol_find_ro _ _ _ _) (fun r2 => ?_) (fun st s => ⟨_, rfl⟩)
      split
      · exact MPw.pure _
      · exact MPw.fail _
      · exact MPw.lift _
      · exact MPw.lift _
    · exact MPw.fail _
    · exact MPw.lift _
  · exact MPw.lift _
  · exact MPw.lift _

theorem writeLoop_mpw (fi vi : Nat) : ∀ (fuel : Nat) (buf : Bytes), MPw (writeLoop fi vi fuel buf)
  | 0, _ => by unfold writeLoop; exact MPw.pure _
  | fuel + 1, buf => by
    have ih := writeLoop_mpw fi vi fuel
    have e : writeLoop fi vi (fuel + 1) buf = (if buf.isEmpty then pure () else
        getFile fi >>= fun f => locate vi f >>= fun x =>
          withVol vi (writeBlockPart x.2.1 x.2.2.1 (buf.take (min x.2.2.2 buf.length))
            (decide (x.2.2.1 = 0 ∧ min x.2.2.2 buf.length = x.2.2.2))) >>= fun _ =>
          modifyFile fi (bump x.1 (min x.2.2.2 buf.length)) >>= fun _ =>
          writeLoop fi vi fuel (buf.drop (min x.2.2.2 buf.length))) := by
      rw [writeLoop]; rfl
    rw [e]
    split
    · exact MPw.pure _
    · refine MPw.bind (.of_mpre (MPre.getFile _)) fun f => MPw.bind (locate_mpw vi f) fun x => ?_
      refine MPw.bind (.of_mpre (MPre.withVol _ (writeBlockPart_pre _ _ _ _))) fun _ => ?_
      exact MPw.bind (.of_mpre (MPre.modifyFile _ _)) fun _ => ih _

macro "mpw_step" : tactic => `(tactic| first
  | exact MPw.pure _
  | exact MPw.fail _
  | exact MPw.lift _
  | exact MPw.of_mpre (MPre.getFileById _)
  | exact MPw.of_mpre (MPre.getFile _)
  | exact MPw.of_mpre (MPre.getVolumeById _)
  | exact MPw.of_mpre (MPre.modifyFile _ _)
  | exact MPw.of_mpre (MPre.withVol _ (allocCluster_pre _ _))
  | exact writeLoop_mpw _ _ _ _
  | refine MPw.get_bind (fun _ => ?_) (fun _ => rfl)
  | refine MPw.bind ?_ (fun _ => ?_)
  | split)

/-- The part of `write` behind the allocation of a first cluster. -/
theorem writeTail_mpw (fi : Nat) (rv : Nat) (buf : Bytes) : MPw (do
    let volIdx ← getVolumeById rv
    modifyFile fi fun f =>
      if f.curCluster < f.entry.cluster then { f with curClusterOff := 0, curCluster := f.entry.cluster } else f
    let f ← getFile fi
    let bytesUntilMax := Gen.MAX_FILE_SIZE - f.currentOffset
    let bytesToWrite := min buf.length bytesUntilMax
    writeLoop fi volIdx (bytesToWrite + 1) (buf.take bytesToWrite)
    if bytesToWrite < buf.length then M.fail .DiskFull else pure () : M Unit) := by
  refine MPw.bind (.of_mpre (MPre.getVolumeById _)) fun vi2 => MPw.bind (.of_mpre (MPre.modifyFile _ _)) fun _ => ?_
  refine MPw.bind (.of_mpre (MPre.getFile _)) fun f2 => MPw.bind (writeLoop_mpw _ _ _ _) fun _ => ?_
  split
  · exact MPw.fail _
  · exact MPw.pure _

theorem write_mpw (file : Nat) (buf : Bytes) : MPw (Model.write file buf) := by
  unfold Model.write
  refine MPw.bind (.of_mpre (MPre.getFileById _)) fun fi => MPw.bind (.of_mpre (MPre.getFile _)) fun f => ?_
  refine MPw.bind (.of_mpre (MPre.getVolumeById _)) fun vi => ?_
  split
  · exact MPw.fail _
  · refine MPw.get_bind (fun s0 => ?_) (fun _ => rfl)
    refine MPw.bind (.of_mpre (MPre.modifyFile _ _)) fun _ => ?_
    dsimp only
    split
    · refine MPw.bind (.of_mpre (MPre.withVol _ (allocCluster_pre _ _))) fun c => ?_
      exact MPw.bind (.of_mpre (MPre.modifyFile _ _)) fun _ => writeTail_mpw fi f.rawVolume buf
    · exact writeTail_mpw fi f.rawVolume buf

end Sdmmc.Lemmas.VolX.Lic
