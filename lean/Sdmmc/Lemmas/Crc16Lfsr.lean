import Sdmmc.Model.Crc
import Sdmmc.Spec.Poly

namespace Sdmmc.Lemmas.Crc
open Sdmmc.Model Sdmmc.Spec Sdmmc.Gen

/-! ## Generic xor helpers -/

theorem and_xor_right {w : Nat} (a b m : BitVec w) :
    (a ^^^ b) &&& m = (a &&& m) ^^^ (b &&& m) := by
  ext i hi
  simp only [BitVec.getElem_and, BitVec.getElem_xor]
  cases a[i] <;> cases b[i] <;> cases m[i] <;> rfl

theorem or_eq_xor_of_and_eq_zero {w : Nat} (a b : BitVec w) (h : a &&& b = 0#w) :
    a ||| b = a ^^^ b := by
  ext i hi
  have hb : (a &&& b)[i] = false := by rw [h]; simp
  simp only [BitVec.getElem_and] at hb
  simp only [BitVec.getElem_or, BitVec.getElem_xor]
  revert hb
  cases a[i] <;> cases b[i] <;> simp

/-! ## The CRC-16 LFSR on `BitVec 16` -/

/-- The low sixteen coefficients of `x^16 + x^12 + x^5 + 1`. -/
def P16 : BitVec 16 := 0x1021#16

def pmask16 (b : Bool) : BitVec 16 := if b then P16 else 0#16
def one16 (b : Bool) : BitVec 16 := if b then 1#16 else 0#16

/-- Multiplication by `x` modulo `G16`. -/
def mulX16 (r : BitVec 16) : BitVec 16 := (r <<< 1) ^^^ pmask16 r.msb

/-- Direct-form bit step (computes `m(x)·x^16 mod G`). -/
def D16 (r : BitVec 16) (b : Bool) : BitVec 16 := mulX16 r ^^^ pmask16 b

/-- Zero-append-form bit step (computes `m(x) mod G`). -/
def A16 (r : BitVec 16) (b : Bool) : BitVec 16 := mulX16 r ^^^ one16 b

theorem pmask16_xor (a b : Bool) : pmask16 (a != b) = pmask16 a ^^^ pmask16 b := by
  cases a <;> cases b <;> simp [pmask16]

theorem one16_xor (a b : Bool) : one16 (a != b) = one16 a ^^^ one16 b := by
  cases a <;> cases b <;> simp [one16]

theorem mulX16_xor (a b : BitVec 16) : mulX16 (a ^^^ b) = mulX16 a ^^^ mulX16 b := by
  simp only [mulX16, BitVec.msb_xor, pmask16_xor, BitVec.shiftLeft_xor_distrib]
  ac_rfl

@[simp] theorem mulX16_zero : mulX16 0#16 = 0#16 := by decide

theorem D16_xor (a b : BitVec 16) (x y : Bool) : D16 (a ^^^ b) (x != y) = D16 a x ^^^ D16 b y := by
  simp only [D16, mulX16_xor, pmask16_xor]
  ac_rfl

theorem A16_xor (a b : BitVec 16) (x y : Bool) : A16 (a ^^^ b) (x != y) = A16 a x ^^^ A16 b y := by
  simp only [A16, mulX16_xor, one16_xor]
  ac_rfl

/-! ## The byte step equals eight bit steps -/

theorem swap_or_eq_xor (c : BitVec 16) :
    ((c >>> 8) &&& 0xFF#16) ||| (c <<< 8) = ((c >>> 8) &&& 0xFF#16) ^^^ (c <<< 8) := by
  apply or_eq_xor_of_and_eq_zero
  ext i hi
  simp
  intro h1 h2 h3
  rw [BitVec.getLsbD_of_ge c (8 + i) (by omega)] at h1
  cases h1

def st1 (c : BitVec 16) : BitVec 16 := ((c >>> 8) &&& 0xFF#16) ||| (c <<< 8)
def st3 (c : BitVec 16) : BitVec 16 := c ^^^ ((c &&& 0xFF#16) >>> crc16ShrA)
def st4 (c : BitVec 16) : BitVec 16 := c ^^^ (c <<< crc16ShlB)
def st5 (c : BitVec 16) : BitVec 16 := c ^^^ ((c &&& 0xFF#16) <<< crc16ShlC)

theorem crc16Step_eq (c : BitVec 16) (b : BitVec 8) :
    crc16Step c b = st5 (st4 (st3 (st1 c ^^^ b.setWidth 16))) := rfl

theorem st1_xor (a b : BitVec 16) : st1 (a ^^^ b) = st1 a ^^^ st1 b := by
  have h : ∀ c, st1 c = ((c >>> 8) &&& 0xFF#16) ^^^ (c <<< 8) := swap_or_eq_xor
  rw [h, h, h]
  simp only [BitVec.shiftLeft_xor_distrib, BitVec.ushiftRight_xor_distrib, and_xor_right]
  ac_rfl
theorem st3_xor (a b : BitVec 16) : st3 (a ^^^ b) = st3 a ^^^ st3 b := by
  simp only [st3, BitVec.ushiftRight_xor_distrib, and_xor_right]
  ac_rfl
theorem st4_xor (a b : BitVec 16) : st4 (a ^^^ b) = st4 a ^^^ st4 b := by
  simp only [st4, BitVec.shiftLeft_xor_distrib]
  ac_rfl
theorem st5_xor (a b : BitVec 16) : st5 (a ^^^ b) = st5 a ^^^ st5 b := by
  simp only [st5, BitVec.shiftLeft_xor_distrib, and_xor_right]
  ac_rfl

/-- The byte step of the implementation is GF(2)-linear. -/
theorem crc16Step_xor (c1 c2 : BitVec 16) (b1 b2 : BitVec 8) :
    crc16Step (c1 ^^^ c2) (b1 ^^^ b2) = crc16Step c1 b1 ^^^ crc16Step c2 b2 := by
  simp only [crc16Step_eq, st1_xor, BitVec.setWidth_xor]
  rw [show ∀ a b c d : BitVec 16, a ^^^ b ^^^ (c ^^^ d) = (a ^^^ c) ^^^ (b ^^^ d) by intros; ac_rfl]
  rw [st3_xor, st4_xor, st5_xor]

/-- Eight direct-form bit steps, MSB first. -/
def D16byte (c : BitVec 16) (b : BitVec 8) : BitVec 16 := (byteBits b).foldl D16 c

theorem D16byte_xor (c1 c2 : BitVec 16) (b1 b2 : BitVec 8) :
    D16byte (c1 ^^^ c2) (b1 ^^^ b2) = D16byte c1 b1 ^^^ D16byte c2 b2 := by
  simp only [D16byte, byteBits, BitVec.getLsbD_xor, List.foldl_cons, List.foldl_nil, D16_xor]

theorem split16 (c : BitVec 16) :
    c = ((c.extractLsb' 8 8).setWidth 16 <<< 8) ^^^ (c.extractLsb' 0 8).setWidth 16 := by
  ext i hi
  simp
  by_cases h : i < 8
  · simp [h, BitVec.getLsbD_eq_getElem hi]
  · have h1 : i - 8 < 8 := by omega
    have h2 : 8 + (i - 8) = i := by omega
    simp [h, h1, h2, BitVec.getLsbD_eq_getElem hi]

theorem table_hi : ∀ h : BitVec 8, crc16Step (h.setWidth 16 <<< 8) 0#8 = D16byte (h.setWidth 16 <<< 8) 0#8 := by
  decide +kernel
theorem table_lo : ∀ h : BitVec 8, crc16Step (h.setWidth 16) 0#8 = D16byte (h.setWidth 16) 0#8 := by
  decide +kernel
theorem table_byte : ∀ h : BitVec 8, crc16Step 0#16 h = D16byte 0#16 h := by
  decide +kernel

theorem crc16Step_eq_bits (c : BitVec 16) (b : BitVec 8) : crc16Step c b = D16byte c b := by
  have e1 : ∀ (f : BitVec 16 → BitVec 8 → BitVec 16)
      (_ : ∀ c1 c2 b1 b2, f (c1 ^^^ c2) (b1 ^^^ b2) = f c1 b1 ^^^ f c2 b2) (H L : BitVec 16),
      f (H ^^^ L) b = f H 0#8 ^^^ f L 0#8 ^^^ f 0#16 b := by
    intro f hf H L
    have : f (H ^^^ L) b = f ((H ^^^ L) ^^^ 0#16) ((0#8 ^^^ 0#8) ^^^ b) := by simp
    rw [this, hf, hf]
  rw [split16 c, e1 crc16Step crc16Step_xor, e1 D16byte D16byte_xor, table_hi, table_lo, table_byte]

end Sdmmc.Lemmas.Crc
