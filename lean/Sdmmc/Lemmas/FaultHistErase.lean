/-
C11 over histories, part 1 — ERASURE FOR EVERY CALL: if no device call of an API call failed, the call IS the call
without any fault scheduled: same answer, same reads and writes, same state up to the schedule (`step_erase`, all 24
operations, every state).  For 19 operations this is part of `FaultPre.MPre`; here the remaining five
(`make_dir_in_dir`, `read`, `write`, `open_volume`, `get_root_volume_label`).
-/
import Sdmmc.Lemmas.FaultMPre
import Sdmmc.Lemmas.RetryWriteTop
import Sdmmc.Lemmas.FaultInvStep

namespace Sdmmc.Lemmas.FaultHist
open Sdmmc.Model Sdmmc.Model.Fat Sdmmc.Spec Sdmmc.Lemmas.Fault Sdmmc.Lemmas.Retry Sdmmc.Lemmas.FaultPre

/-! ### More rules for `MAgree` -/

theorem Pre.agree {α} {m : F α} (h : Pre m) : Agree m := fun s => ⟨(h s).2.1, (h s).2.2.1⟩
theorem MPre.magree {α} {m : M α} (h : MPre m) : MAgree m := fun s => ⟨(h s).2.1, (h s).2.2.1⟩

theorem MAgree.generate : MAgree generate := .of_nodev fun _ => ⟨rfl, rfl⟩
theorem MAgree.setFile (i : Nat) (f : FileInfo) : MAgree (setFile i f) := .of_nodev fun _ => ⟨rfl, rfl⟩
theorem MAgree.modify {g : Mgr → Mgr} (h : ∀ s, (g s).dev = s.dev ∧ g (mclr s) = mclr (g s)) : MAgree (M.modify g) :=
  .of_nodev fun s => ⟨(h s).1, by show (Res.ok (), g (mclr s)) = _; rw [(h s).2]; rfl⟩
theorem MAgree.getVolInfo (i : Nat) : MAgree (getVolInfo i) := .of_nodev fun s => by
  unfold Model.getVolInfo
  show _ ∧ (match s.vols[i]? with | some f => _ | none => _) = _
  cases s.vols[i]? <;> exact ⟨rfl, rfl⟩

theorem MAgree.get_bind {β} {k : Mgr → M β} (hk : ∀ s0, MAgree (k s0)) (hs : ∀ s, k (mclr s) = k s) : MAgree (M.get >>= k) := by
  intro s
  have e1 : (M.get >>= k) s = k s s := rfl
  have e2 : (M.get >>= k) (mclr s) = k s (mclr s) := by
    show k (mclr s) (mclr s) = _
    rw [hs]
  rw [e1, e2]
  exact hk s s

theorem MAgree.rdBlock (idx : Nat) : MAgree (Fault.rdBlock idx) := by
  intro s
  obtain ⟨hle, hag⟩ := readBlock_agree idx { dev := s.dev, cache := s.cache, vol := default }
  refine ⟨hle, fun heq => ?_⟩
  have h := hag heq
  have e1 : Fault.rdBlock idx (mclr s) =
      (((do cacheRead idx; cacheBlk : F Block) (clr { dev := s.dev, cache := s.cache, vol := default })).1,
        { mclr s with
          dev := ((do cacheRead idx; cacheBlk : F Block) (clr { dev := s.dev, cache := s.cache, vol := default })).2.dev,
          cache := ((do cacheRead idx; cacheBlk : F Block) (clr { dev := s.dev, cache := s.cache, vol := default })).2.cache }) := rfl
  rw [e1, h]
  rfl

macro "mer_step" : tactic => `(tactic| first
  | with_reducible first
    | apply_hyp
    | exact MAgree.pure _
    | exact MAgree.lift _
    | exact MAgree.fail _
    | exact MAgree.panic _
    | exact MAgree.generate
    | exact MAgree.setFile _ _
    | exact MAgree.modifyFile _ _
    | exact MAgree.getFileById _
    | exact MAgree.getDirById _
    | exact MAgree.getVolumeById _
    | exact MAgree.getFile _
    | exact MAgree.getDir _
    | exact MAgree.getVolInfo _
    | exact MAgree.toSfn _
    | refine MAgree.modify ?_
    | apply MAgree.withVol
    | refine MAgree.get_bind (fun _ => ?_) ?_
    | apply MAgree.attempt
    | apply MAgree.bind
  | exact fun _ => rfl
  | exact fun _ => ⟨rfl, rfl⟩
  | exact MAgree.rdBlock _
  | apply MAgree.bind
  | wagree_step)

macro "mer_auto" : tactic => `(tactic| repeat mer_step)

/-! ### The five calls -/

theorem makeDir_agree (parent : Nat) (sfn : Bytes) (att : Nat) (now : Timestamp) : Agree (makeDir parent sfn att now) := by
  have := allocCluster_agree
  have := zeroBlocks_agree
  have h1 := fun d n a f t => Pre.agree (writeNewDirectoryEntry_pre d n a f t)
  have h2 := fun c => Pre.agree (freeClusterChain_pre c)
  unfold makeDir; wagree_auto

theorem makeDirInDir_magree (d : Nat) (name : List Nat) : MAgree (makeDirInDir d name) := by
  have h1 := fun d n => Pre.agree (findDirectoryEntry_pre d n)
  have := makeDir_agree
  unfold makeDirInDir; mer_auto

theorem writeLoop_magree (fi vi fuel : Nat) (buf : Bytes) : MAgree (writeLoop fi vi fuel buf) := by
  have := findDataOnDisk_agree
  have := allocCluster_agree
  have := writeBlockPart_agree
  induction fuel generalizing buf with
  | zero => unfold writeLoop; mer_auto
  | succ n ih => unfold writeLoop; mer_auto

theorem write_magree (f : Nat) (buf : Bytes) : MAgree (Model.write f buf) := by
  have := writeLoop_magree
  have := allocCluster_agree
  unfold Model.write; mer_auto

theorem openRawVolume_magree (i : Nat) : MAgree (openRawVolume i) := by
  unfold openRawVolume; mer_auto

theorem getRootVolumeLabel_magree (v : Nat) : MAgree (getRootVolumeLabel v) := by
  have := MPre.magree (openRootDir_mpre v)
  have := fun d => iterateDir_magree d
  have := fun d => MPre.magree (closeDir_mpre d)
  unfold getRootVolumeLabel; mer_auto

theorem MAgree.map {α β} {m : M α} (g : α → β) (h : MAgree m) : MAgree (m >>= fun a => (Pure.pure (g a) : M β)) :=
  MAgree.bind h fun _ => MAgree.pure _

/-- **Erasure for every call.** -/
theorem runOp_magree (op : Op) : MAgree (runOp op) := by
  by_cases hp : prefixOp op = true
  · exact MPre.magree (runOp_mpre op hp)
  cases op <;> first | exact absurd rfl hp | skip
  case mkdir d n => exact MAgree.map _ (makeDirInDir_magree d n)
  case read f n => exact MAgree.map _ (read_magree f n)
  case write f b => exact MAgree.map _ (write_magree f b)
  case openVolume i => exact MAgree.map _ (openRawVolume_magree i)
  case label v => exact MAgree.map _ (getRootVolumeLabel_magree v)

/-- **A call none of whose device calls failed is the call without any fault scheduled**: same `Out` (answer,
writes, reads), same state up to the schedule.  Every state, every operation. -/
theorem step_erase (s : Mgr) (op : Op) (hq : (Model.step s op).1.dev.failed = s.dev.failed) :
    (Model.step (mclr s) op).2 = (Model.step s op).2 ∧ (Model.step (mclr s) op).1 = mclr (Model.step s op).1 := by
  unfold Model.step at hq ⊢
  by_cases hl : s.locked = true
  · rw [if_pos hl, if_pos (show (mclr s).locked = true from hl)]
    split <;> exact ⟨rfl, rfl⟩
  · rw [if_neg hl] at hq ⊢
    rw [if_neg (show ¬ (mclr s).locked = true from hl)]
    have h := (runOp_magree op { s with dev := { s.dev with wlog := [], rlog := [] } }).2 hq
    have e : ({ mclr s with dev := { (mclr s).dev with wlog := [], rlog := [] } } : Mgr) =
        mclr { s with dev := { s.dev with wlog := [], rlog := [] } } := rfl
    simp only
    rw [e, h]
    exact ⟨rfl, rfl⟩

end Sdmmc.Lemmas.FaultHist
