/-
C09 over whole histories, part 16: directories along the way.  No licence of any call names a FAT entry of a non-last
cluster of any directory's chain (`licence_avoids_dir`: directory chains only grow), and no licence of any call names
the slot of a sub-directory entry (`licence_notNamed_dir`: sub-directory entries are never rewritten).
-/
import Sdmmc.Lemmas.SurviveNamed2

namespace Sdmmc.Lemmas.Survive
open Sdmmc.Model Sdmmc.Model.Fat Sdmmc.Spec.Volume Sdmmc.Lemmas.VolBase Sdmmc.Lemmas.VolTree
open Sdmmc.Spec hiding NoFault Coherent
open Sdmmc.Lemmas.VolDisk Sdmmc.Lemmas.VolMed Sdmmc.Lemmas.VolEng
open Sdmmc.Lemmas.WriteSetInv
open Sdmmc.Lemmas.WriteSet (flushLicence infoLicence writeLicence DirBlock FreeAt)

section
variable {s : Mgr} {gh : Ghost}

theorem free_not_dir (hI : VolInv s gh) {c : Nat} (hf : isFree gh.vol s.dev.disk c) (h : Nat) : c ∉ dirChain gh.vol gh.G h := by
  have hM := medX_of_med hI.med
  exact fun hc => free_not_flat hM hf (chainOf_sub_flat hM (dirChain_sub hM hc))

theorem last_not_dropLast_dir (hI : VolInv s gh) {dc : Nat} (hv : ValidDir gh.dirs dc) {last : Nat}
    (hl : (dirChainOf gh dc).getLast? = some last) {h : Nat} (hh : h ∈ dirIds gh.dirs) :
    last ∉ (dirChain gh.vol gh.G h).dropLast := by
  have hM := medX_of_med hI.med
  obtain ⟨hh', _⟩ := validDir_id hM hv
  have hm : last ∈ dirChain gh.vol gh.G (dirIdOf dc) := List.mem_of_getLast? hl
  intro hc
  by_cases he : dirIdOf dc = h
  · rw [← he] at hc
    exact last_not_dropLast (dirChain_nodup hI hh') hl hc
  · exact dirChains_disj hI hh' hh he last hm (List.dropLast_subset _ hc)

/-- The chain of a closed file object and the chain of a directory share no cluster. -/
theorem closed_not_dir (hI : VolInv s gh) {h' : Nat} (hh' : h' ∈ dirIds gh.dirs) {o : Slot}
    (ho : o ∈ objects h' (dirSlots gh.vol s.dev.disk gh.G h')) (hod : isDirE o = false) (hcl : pendOf s.files o = none)
    {h : Nat} (hh : h ∈ dirIds gh.dirs) : ∀ c, c ∈ chainOf gh.G (sCluster gh.vol.fatType o) → c ∉ dirChain gh.vol gh.G h := by
  have hoO : Obj s gh h' o := ⟨hh', ho, hod, fun f hf hk => absurd hk ((pendOf_none_iff s.files o).1 hcl f hf)⟩
  exact hoO.not_dir hI hh

/-- **Directory chains only grow**: no licence of any call names a FAT entry of a non-last cluster of the chain of any
directory. -/
theorem licence_avoids_dir {op : Op} {L : Licence} (hI : VolInv s gh) {h : Nat} (hh : h ∈ dirIds gh.dirs)
    (hl : LicenceFor gh s.files s.dirs s.dev.disk op L) : ∀ c, c ∈ (dirChain gh.vol gh.G h).dropLast → c ∉ L.fatClusters := by
  have hM := medX_of_med hI.med
  intro c hc
  have hcd : c ∈ dirChain gh.vol gh.G h := List.dropLast_subset _ hc
  cases hl with
  | nothing => exact fun hm => nomatch hm
  | write hd data f hf hhd cs' k hpre hk hin hmode hnew =>
    obtain ⟨t, ht⟩ := hpre
    have hdrop : cs'.drop (chainOf gh.G f.entry.cluster).length = t := by rw [← ht, List.drop_left]
    intro hm
    unfold writeLicence at hm
    rw [hdrop] at hm hnew
    rcases List.mem_append.1 hm with h1 | h1
    · exact file_not_dir hI hf hh c (List.mem_of_getLast? (Option.mem_toList.1 h1)) hcd
    · exact hnew c h1 (chainOf_sub_flat hM (dirChain_sub hM hcd))
  | flush hd f hf hhd hdirty i hidx hfi => exact fun hm => nomatch hm
  | closeFile hd f hf hhd hdirty i hidx hfi => exact fun hm => nomatch hm
  | closeVolume vh => exact fun hm => nomatch hm
  | delete dh name sfn dir o hdir hdh hsfn ho hname hfile hclosed =>
    obtain ⟨hh', _⟩ := validDir_id hM (hI.openDirs dir hdir)
    exact fun hm => closed_not_dir hI hh' ho hfile hclosed hh c hm hcd
  | truncate dh name mode sfn dir o hdir hdh hsfn hm' ho hname hfile hclosed =>
    obtain ⟨hh', _⟩ := validDir_id hM (hI.openDirs dir hdir)
    exact fun hm => closed_not_dir hI hh' ho hfile hclosed hh c hm hcd
  | createSlot dh name mode dir hdir hdh b off hb ho hal hfs => exact fun hm => nomatch hm
  | createGrow dh name mode dir hdir hdh last c' hl hr hfree =>
    intro hm
    rcases List.mem_cons.1 hm with e | hm
    · subst e; exact last_not_dropLast_dir hI (hI.openDirs dir hdir) hl hh hc
    · rw [List.mem_singleton] at hm; subst hm; exact free_not_dir hI hfree h hcd
  | mkdirSlot dh name dir hdir hdh cn hrn hfn b off hb ho hal hfs =>
    intro hm
    rw [List.mem_singleton] at hm; subst hm; exact free_not_dir hI hfn h hcd
  | mkdirGrow dh name dir hdir hdh cn hrn hfn last c' hl hr hfc =>
    intro hm
    rcases List.mem_cons.1 hm with e | hm
    · subst e; exact free_not_dir hI hfn h hcd
    · rcases List.mem_cons.1 hm with e | hm
      · subst e; exact last_not_dropLast_dir hI (hI.openDirs dir hdir) hl hh hc
      · rw [List.mem_singleton] at hm; subst hm; exact free_not_dir hI hfc h hcd
  | mkdirFull dh name cn hrn hfn =>
    intro hm
    rw [List.mem_singleton] at hm; subst hm; exact free_not_dir hI hfn h hcd

/-! ### Sub-directory entries are never rewritten -/

/-- `y` is a sub-directory entry of directory `p`. -/
structure DirObj (s : Mgr) (gh : Ghost) (p : Nat) (y : Slot) : Prop where
  dir : p ∈ dirIds gh.dirs
  mem : y ∈ objects p (dirSlots gh.vol s.dev.disk gh.G p)
  isDir : isDirE y = true

variable {p : Nat} {y : Slot}

theorem DirObj.memSlots (hy : DirObj s gh p y) : y ∈ dirSlots gh.vol s.dev.disk gh.G p := mem_of_mem_objects hy.mem

/-- A file object does not sit at the position of a sub-directory entry. -/
theorem DirObj.ne_file (hI : VolInv s gh) (hy : DirObj s gh p y) {h' : Nat} (hh' : h' ∈ dirIds gh.dirs) {o : Slot}
    (ho : o ∈ objects h' (dirSlots gh.vol s.dev.disk gh.G h')) (hod : isDirE o = false) : spos o ≠ spos y := by
  have hM := medX_of_med hI.med
  intro e
  obtain ⟨_, e2⟩ := AbsFs.slot_unique hM hh' hy.dir (mem_of_mem_objects ho) hy.memSlots e
  rw [e2, hy.isDir] at hod
  cases hod

theorem DirObj.live (hI : VolInv s gh) (hy : DirObj s gh p y) : ¬ FreeAt s.dev.disk y.1 y.2.1 := by
  have hM := medX_of_med hI.med
  obtain ⟨pre, post, hsp, _, _, hnz, hk⟩ := object_split hM hy.dir hy.mem
  have hform : y.2.2 = ((s.dev.disk.get y.1).drop y.2.1).take 32 := by
    have hm := hy.memSlots
    by_cases hf : isFixedRoot gh.vol p
    · rw [dirSlots_fixed hf] at hm
      obtain ⟨j, i, _, _, rfl⟩ := mem_runSlots.1 hm
      rfl
    · rw [dirSlots_chain hf] at hm
      obtain ⟨c', _, hrun⟩ := mem_chainSlots.1 hm
      obtain ⟨j, i, _, _, rfl⟩ := mem_runSlots.1 hrun
      rfl
  have hfirst : first y = byteAt (s.dev.disk.get y.1) y.2.1 := by
    unfold first byteAt
    rw [hform, List.getD_eq_getElem?_getD, List.getD_eq_getElem?_getD, List.getElem?_take, if_pos (by decide),
      List.getElem?_drop, Nat.add_zero]
  unfold FreeAt
  rw [← hfirst]
  intro hfree
  rcases hfree with e | e
  · exact hnz e
  · unfold keep at hk
    rw [e] at hk
    simp at hk

/-- A free cluster holds no block of the entry's slot. -/
theorem DirObj.free_ok (hI : VolInv s gh) (hy : DirObj s gh p y) {c : Nat} (hr : InRange gh.vol c)
    (hf : isFree gh.vol s.dev.disk c) : ¬ InCluster gh.vol c y.1 := by
  have hM := medX_of_med hI.med
  exact fun hc => free_not_dir hI hf p (slot_cluster hM hy.dir hy.memSlots hr hc)

/-- **No licence of any call names the slot of a sub-directory entry.** -/
theorem licence_notNamed_dir {op : Op} {L : Licence} (hI : VolInv s gh) (hy : DirObj s gh p y)
    (hl : LicenceFor gh s.files s.dirs s.dev.disk op L) : NotNamed gh.vol L y.1 y.2.1 [] := by
  have hM := medX_of_med hI.med
  have nil : ∀ c, c ∈ ([] : List Nat) → c ∉ L.fatClusters := fun c hc => nomatch hc
  have slot_ok : ∀ q : Nat × Nat, q ≠ (y.1, y.2.1) → q ≠ (y.1, y.2.1) ∧ ∀ c, c ∈ ([] : List Nat) → ¬ InCluster gh.vol c q.1 :=
    fun q hq => ⟨hq, fun c hc => nomatch hc⟩
  cases hl with
  | nothing => exact ⟨nil, (fun c hc => nomatch hc), (fun q hq => nomatch hq), (fun r hr => nomatch hr)⟩
  | write hd data f hf hhd cs' k hpre hk hin hmode hnew =>
    obtain ⟨t, ht⟩ := hpre
    have hdrop : cs'.drop (chainOf gh.G f.entry.cluster).length = t := by rw [← ht, List.drop_left]
    rw [hdrop] at hnew
    refine ⟨nil, (fun c hc => nomatch hc), (fun q hq => nomatch hq), ?_⟩
    intro r hr c hc
    have hr' : r = (cs', f.currentOffset, f.currentOffset + k) := by
      unfold writeLicence at hr
      exact List.mem_singleton.1 hr
    subst hr'
    refine ⟨(fun hm => nomatch hm), fun hic => ?_⟩
    have hcd := slot_cluster hM hy.dir hy.memSlots (hin c hc) hic
    have hc' : c ∈ chainOf gh.G f.entry.cluster ∨ c ∈ t := by
      have : c ∈ chainOf gh.G f.entry.cluster ++ t := by rw [ht]; exact hc
      exact List.mem_append.1 this
    rcases hc' with h1 | h1
    · exact file_not_dir hI hf hy.dir c h1 hcd
    · exact hnew c h1 (chainOf_sub_flat hM (dirChain_sub hM hcd))
  | flush hd f hf hhd hdirty i hidx hfi =>
    obtain ⟨h', hh', A, o, B, hO, hpo, hod, _⟩ := file_object hM.tree hf
    have ho : o ∈ objects h' (dirSlots gh.vol s.dev.disk gh.G h') := by rw [hO]; simp
    refine ⟨nil, (fun c hc => nomatch hc), ?_, (fun r hr => nomatch hr)⟩
    intro q hq
    have hq' : q = fkey f := List.mem_singleton.1 hq
    subst hq'
    exact slot_ok _ (by rw [← hpo]; exact hy.ne_file hI hh' ho hod)
  | closeFile hd f hf hhd hdirty i hidx hfi =>
    obtain ⟨h', hh', A, o, B, hO, hpo, hod, _⟩ := file_object hM.tree hf
    have ho : o ∈ objects h' (dirSlots gh.vol s.dev.disk gh.G h') := by rw [hO]; simp
    refine ⟨nil, (fun c hc => nomatch hc), ?_, (fun r hr => nomatch hr)⟩
    intro q hq
    have hq' : q = fkey f := List.mem_singleton.1 hq
    subst hq'
    exact slot_ok _ (by rw [← hpo]; exact hy.ne_file hI hh' ho hod)
  | closeVolume vh => exact ⟨nil, (fun c hc => nomatch hc), (fun q hq => nomatch hq), (fun r hr => nomatch hr)⟩
  | delete dh name sfn dir o hdir hdh hsfn ho hname hfile hclosed =>
    obtain ⟨hh', _⟩ := validDir_id hM (hI.openDirs dir hdir)
    refine ⟨nil, (fun c hc => nomatch hc), ?_, (fun r hr => nomatch hr)⟩
    intro q hq
    have hq' : q = (o.1, o.2.1) := List.mem_singleton.1 hq
    subst hq'
    exact slot_ok _ (hy.ne_file hI hh' ho hfile)
  | truncate dh name mode sfn dir o hdir hdh hsfn hm' ho hname hfile hclosed =>
    obtain ⟨hh', _⟩ := validDir_id hM (hI.openDirs dir hdir)
    refine ⟨nil, (fun c hc => nomatch hc), ?_, (fun r hr => nomatch hr)⟩
    intro q hq
    have hq' : q = (o.1, o.2.1) := List.mem_singleton.1 hq
    subst hq'
    exact slot_ok _ (hy.ne_file hI hh' ho hfile)
  | createSlot dh name mode dir hdir hdh b off hb ho hal hfs =>
    refine ⟨nil, (fun c hc => nomatch hc), ?_, (fun r hr => nomatch hr)⟩
    intro q hq
    have hq' : q = (b, off) := List.mem_singleton.1 hq
    subst hq'
    refine slot_ok _ fun e => ?_
    obtain ⟨e1, e2⟩ := Prod.mk.inj e
    exact hy.live hI (by rw [← e1, ← e2]; exact hfs)
  | createGrow dh name mode dir hdir hdh last c hl hr hfree =>
    refine ⟨nil, ?_, (fun q hq => nomatch hq), (fun r hr => nomatch hr)⟩
    intro c' hm
    rw [List.mem_singleton] at hm; subst hm
    exact ⟨(fun hm => nomatch hm), hy.free_ok hI hr hfree⟩
  | mkdirSlot dh name dir hdir hdh cn hrn hfn b off hb ho hal hfs =>
    refine ⟨nil, ?_, ?_, (fun r hr => nomatch hr)⟩
    · intro c' hm
      rw [List.mem_singleton] at hm; subst hm
      exact ⟨(fun hm => nomatch hm), hy.free_ok hI hrn hfn⟩
    · intro q hq
      have hq' : q = (b, off) := List.mem_singleton.1 hq
      subst hq'
      refine slot_ok _ fun e => ?_
      obtain ⟨e1, e2⟩ := Prod.mk.inj e
      exact hy.live hI (by rw [← e1, ← e2]; exact hfs)
  | mkdirGrow dh name dir hdir hdh cn hrn hfn last c hl hr hfc =>
    refine ⟨nil, ?_, (fun q hq => nomatch hq), (fun r hr => nomatch hr)⟩
    intro c' hm
    rcases List.mem_cons.1 hm with e | hm
    · subst e; exact ⟨(fun hm => nomatch hm), hy.free_ok hI hrn hfn⟩
    · rw [List.mem_singleton] at hm; subst hm
      exact ⟨(fun hm => nomatch hm), hy.free_ok hI hr hfc⟩
  | mkdirFull dh name cn hrn hfn =>
    refine ⟨nil, ?_, (fun q hq => nomatch hq), (fun r hr => nomatch hr)⟩
    intro c' hm
    rw [List.mem_singleton] at hm; subst hm
    exact ⟨(fun hm => nomatch hm), hy.free_ok hI hrn hfn⟩

end

end Sdmmc.Lemmas.Survive
