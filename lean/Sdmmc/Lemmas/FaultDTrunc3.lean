/-
ROUTE (D) — ONE CALL AND HISTORIES WITH NO RESTRICTION ON WHERE A DEVICE CALL FAILS.  The invariant is `InvFE sk` — the
invariant of C03 up to the schedule, lost chains and `sk` bytes per cluster of SIZE SLACK (`VolInvD`), with no entry of
an open file ahead of its record.  `openFile_outD`: `open_file_in_dir` in every mode under any schedule; `step_anyD` /
`step_outD`: every covered call under every schedule, WHATEVER device call fails — the truncating opens included —, leaves
`InvFE sk'` for some `sk' ≥ sk`; `history_anyD`: along every covered history the invariant holds after every prefix, for
some slack.  The ONE side condition (`FitsOp`): a NON-truncating `open_file_in_dir` does not open a damaged file.
-/
import Sdmmc.Lemmas.FaultDTrunc2
import Sdmmc.Lemmas.FaultDRawRun

namespace Sdmmc.Lemmas.VolD
open Sdmmc.Model Sdmmc.Model.Fat Sdmmc.Spec.Volume Sdmmc.Lemmas.VolBase Sdmmc.Lemmas.VolTree
open Sdmmc.Spec hiding NoFault Coherent
open Sdmmc.Lemmas.VolDisk Sdmmc.Lemmas.VolMed Sdmmc.Lemmas.VolEng Sdmmc.Lemmas.VolX Sdmmc.Lemmas.VolApi
open Sdmmc.Lemmas.FBasic (NoFault Coherent)
open Sdmmc.Lemmas.CrashBase Sdmmc.Lemmas.Retry Sdmmc.Lemmas.FaultPre Sdmmc.Lemmas.FaultInv Sdmmc.Lemmas.FaultCoh Sdmmc.Lemmas.MHoare
open Sdmmc.Lemmas.Fault (Coh)
open Sdmmc.Lemmas.FaultHist
open Sdmmc.Lemmas.FaultX (RawAllD RawAll nonTruncating classC Desc runOp_tab rawBelow_desc mayFail_of_classC rawAll_mclr)

variable {sk : Nat} {X : List (List Nat)}

theorem InvF.mono {sk sk' : Nat} {gh : Ghost} {s : Mgr} (h : sk ≤ sk') (hi : InvF sk gh s) : InvF sk' gh s :=
  let ⟨gh', X', h1, h2⟩ := hi
  ⟨gh', X', h1.mono h, h2⟩

/-- **`open_file_in_dir` under any fault schedule, every mode** (route D). -/
theorem openFile_outD {s0 : Mgr} {gh : Ghost} (hI : VolInvD sk X s0 gh) (L : List Nat) (directory : Nat)
    (name : List Nat) (mode : Mode) (hname : ∀ sfn, Sfn.createFromStr name = .ok sfn → sfn.head? ≠ some 0xE5)
    (hfit : keepsSize mode = true → FitsName gh s0.dev.disk s0.vols s0.dirs s0.files directory name) :
    ∃ sk', sk ≤ sk' ∧ InvF sk' gh (openFileInDir directory name mode (withFaults L s0)).2 ∧
      (RawAllD gh.vol.fatType s0.dev.disk s0.files →
        RawAllD gh.vol.fatType (openFileInDir directory name mode (withFaults L s0)).2.dev.disk s0.files) := by
  by_cases hmode : nonTruncating mode = true
  · exact ⟨sk, Nat.le_refl _, openFile_faulted hI L directory name mode hmode hname hfit,
      fun hR => openFile_disk hI hR L directory name mode hmode hname⟩
  have same : ∀ {t : Mgr}, InvF sk gh t → (RawAllD gh.vol.fatType s0.dev.disk s0.files → RawAllD gh.vol.fatType t.dev.disk s0.files) →
      ∃ sk', sk ≤ sk' ∧ InvF sk' gh t ∧ (RawAllD gh.vol.fatType s0.dev.disk s0.files → RawAllD gh.vol.fatType t.dev.disk s0.files) :=
    fun h1 h2 => ⟨sk, Nat.le_refl _, h1, h2⟩
  have h0 := same (t := withFaults L s0) (invF_of hI L) (fun hR => hR)
  rw [Modes.openFileInDir_eq]
  unfold Modes.openFileInDirAlt
  rw [get_bind]
  by_cases hroom : (withFaults L s0).files.length ≥ (withFaults L s0).maxFiles
  · rw [if_pos hroom]; exact h0
  rw [if_neg hroom]
  cases hidx : s0.dirs.findIdx? (·.rawDirectory = directory) with
  | none => rw [bind_err (getDirById_bad (s := withFaults L s0) hidx)]; exact h0
  | some i =>
    obtain ⟨d, hdi, _⟩ := findIdx?_some_get hidx
    have hdm : d ∈ s0.dirs := List.mem_of_getElem? hdi
    rw [bind_ok (getDirById_ok (s := withFaults L s0) hidx), bind_ok (getDir_ok (s := withFaults L s0) hdi)]
    cases hv : s0.vols.findIdx? (·.rawVolume = d.rawVolume) with
    | none => rw [bind_err (getVolumeById_bad (s := withFaults L s0) hv)]; exact h0
    | some volIdx =>
      obtain ⟨hz, vi, hvs, hvol, hraw⟩ := vol_of_handle hI hv
      subst hz
      rw [bind_ok (getVolumeById_ok (s := withFaults L s0) hv)]
      cases hs : Sfn.createFromStr name with
      | error e => rw [bind_err (Modes.toSfn_err hs _)]; exact h0
      | ok sfn =>
        rw [bind_ok (Modes.toSfn_ok hs _), attempt_bind]
        have hdv := hI.openDirs d hdm
        obtain ⟨hn, hc, hM⟩ := volInv_fs hI
        obtain ⟨r, fs', hlk, hdisk, hvol', h1, hcase⟩ := lookup_found hI hvs hvol hdv sfn (hname sfn hs)
        obtain ⟨hinvL, _, _, hdich⟩ := withVol_F hI hvs hvol L (findDirectoryEntry_pre d.cluster sfn)
          (Fault.findDirectoryEntry_inv d.cluster sfn) (FaultX.findDirectoryEntry_len _ _) (findDirectoryEntry_geo _ _)
          (findDirectoryEntry_coh _ _) (FaultX.findDirectoryEntry_vk (K := HintOK) _ _ _ hM.hint) (fun _ h => h)
          (CrashAll.of_ro (DirMgr.findDirectoryEntry_readOnly d.cluster sfn (fsOf s0 gh)) (mx_of_med hM))
        have hrawL := fun hR => lookup_disk hI hvs hvol L d.cluster sfn (Q := fun dk => RawAllD gh.vol.fatType dk s0.files) hR
        rcases hdich with hq | he
        swap
        · rcases hrun : withVol 0 (Fat.findDirectoryEntry d.cluster sfn) (withFaults L s0) with ⟨r', s'⟩
          rw [hrun] at he hinvL hrawL
          simp only at he
          subst he
          show ∃ sk', sk ≤ sk' ∧ InvF sk' gh (Modes.openFileTail d 0 sfn mode (.err .DeviceError) s').2 ∧ _
          rw [Modes.tail_err d 0 sfn s' mode .DeviceError (by intro h; cases h)]
          exact same hinvL hrawL
        rw [hlk] at hq
        rw [hq]
        set s1 := afterVol s0 vi fs' with hs1
        show ∃ sk', sk ≤ sk' ∧ InvF sk' gh (Modes.openFileTail d 0 sfn mode r (withFaults L s1)).2 ∧ _
        have hvs1 : s1.vols = [{ vi with vol := fs'.vol }] := rfl
        have hraw1 : ({ vi with vol := fs'.vol } : VolInfo).rawVolume = d.rawVolume := hraw
        have hR1 : RawAllD gh.vol.fatType s0.dev.disk s0.files → RawAllD gh.vol.fatType s1.dev.disk s1.files := by
          intro hR; rw [hdisk]; exact hR
        have h01 := same (t := withFaults L s1) (invF_of h1 L) (fun hR => hR1 hR)
        rcases hcase with ⟨hr, hfresh⟩ | ⟨e, o, hr, hF⟩
        · subst hr
          by_cases hm : mode = .ReadWriteCreate ∨ mode = .ReadWriteCreateOrTruncate ∨ mode = .ReadWriteCreateOrAppend
          · rw [Modes.tail_create_eq d 0 sfn _ mode hm]
            obtain ⟨hlen, hz⟩ := VolSfn.sfn_facts hs
            refine same (createRun_faulted h1 hvs1 hvol' hdv hraw1 sfn hlen hz (VolSfn.sfn_first_ne_e5 (hname sfn hs)) ?_ _ L)
              (fun hR => createRun_disk h1 (hR1 hR) hvs1 hvol' hdv hraw1 sfn hlen _ L)
            rw [hdisk]; exact hfresh
          · have hm' : mode = .ReadOnly ∨ mode = .ReadWriteAppend ∨ mode = .ReadWriteTruncate := by
              cases mode <;> simp at hm ⊢
            rw [Modes.tail_notFound d 0 sfn _ mode hm']
            exact h01
        · subst hr
          have hfo : fileIsOpen (withFaults L s1) d.rawVolume e = fileIsOpen s1 d.rawVolume e := rfl
          by_cases hopen : fileIsOpen s1 d.rawVolume e = true
          · rw [Modes.tail_open d 0 sfn _ mode e (by rw [hfo]; exact hopen)]; exact h01
          have hopen' : fileIsOpen s1 d.rawVolume e = false := by simpa using hopen
          have hopenF : fileIsOpen (withFaults L s1) d.rawVolume e = false := by rw [hfo]; exact hopen'
          have hcreate : mode ≠ .ReadWriteCreate := by intro h; rw [h] at hmode; exact hmode rfl
          by_cases hro : Attr.isReadOnly e.attributes = true ∧ mode ≠ .ReadOnly
          · rw [Modes.tail_readOnlyAttr d 0 sfn _ mode e hopenF hcreate hro.2 hro.1]; exact h01
          have hro' : Attr.isReadOnly e.attributes = false ∨ mode = .ReadOnly := by
            by_cases h : mode = .ReadOnly
            · exact .inr h
            · left
              by_cases h2 : Attr.isReadOnly e.attributes = true
              · exact absurd ⟨h2, h⟩ hro
              · simpa using h2
          by_cases hdir : Attr.isDirectory e.attributes = true
          · rw [Modes.tail_dirAsFile d 0 sfn _ mode e hopenF hcreate hro' hdir]; exact h01
          have hdir' : Attr.isDirectory e.attributes = false := by simpa using hdir
          have h1' : VolInvD sk X { s1 with nextId := (s1.nextId + 1) % 4294967296 } gh :=
            volInv_ro h1 rfl h1.noFault h1.coherent rfl rfl rfl rfl h1.openDirs
          have hF' : Found { s1 with nextId := (s1.nextId + 1) % 4294967296 } gh d sfn e o := ⟨hF.mem, hF.name, hF.dec⟩
          have key : ∃ sk', sk ≤ sk' ∧ InvF sk' gh (Modes.truncRun d 0 e s1.nextId s1.clock
              (withFaults L { s1 with nextId := (s1.nextId + 1) % 4294967296 })).2 ∧
              (RawAllD gh.vol.fatType s0.dev.disk s0.files → RawAllD gh.vol.fatType (Modes.truncRun d 0 e s1.nextId s1.clock
                (withFaults L { s1 with nextId := (s1.nextId + 1) % 4294967296 })).2.dev.disk s0.files) := by
            obtain ⟨sk', hle, hA, hB⟩ := truncRun_faultedD h1' hvs1 hvol' hdv hraw1 hF' hdir' hopen' s1.nextId s1.clock L
            exact ⟨sk', hle, hA, fun hR => hB (hR1 hR)⟩
          cases mode with
          | ReadWriteTruncate =>
            have hron : Attr.isReadOnly e.attributes = false := hro'.elim id (fun h => by cases h)
            rw [Modes.tail_truncate_eq d 0 sfn _ .ReadWriteTruncate (.inl rfl) e hopenF hron hdir']
            exact key
          | ReadWriteCreateOrTruncate =>
            have hron : Attr.isReadOnly e.attributes = false := hro'.elim id (fun h => by cases h)
            rw [Modes.tail_truncate_eq d 0 sfn _ .ReadWriteCreateOrTruncate (.inr rfl) e hopenF hron hdir']
            exact key
          | ReadOnly => exact absurd rfl hmode
          | ReadWriteCreate => exact absurd rfl hmode
          | ReadWriteAppend => exact absurd rfl hmode
          | ReadWriteCreateOrAppend => exact absurd rfl hmode

end Sdmmc.Lemmas.VolD
