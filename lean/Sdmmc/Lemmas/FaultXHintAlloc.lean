/-
C11, arbitrary fault placement — `alloc_cluster` keeps the next-free hint valid under any schedule.
-/
import Sdmmc.Lemmas.FaultXHint

namespace Sdmmc.Lemmas.FaultX
open Sdmmc.Model Sdmmc.Model.Fat
open Sdmmc.Spec hiding NoFault Coherent
open Sdmmc.Lemmas.FaultPre Sdmmc.Lemmas.Fault Sdmmc.Lemmas.FaultInv

theorem HQ.ite {α} {c : Prop} [Decidable c] {a b : F α} {Q : α → Prop} (ha : HQ a Q) (hb : HQ b Q) : HQ (if c then a else b) Q := by
  split <;> assumption

/-- The end of `alloc_cluster`: look for the next free cluster, record it. -/
def allocTail (v : FatVolume) (nc : Nat) : F Nat := do
  let r2 ← F.attempt (findNextFree nc (endCluster v))
  let nextFree ← (match r2 with
    | .ok c => pure (some c)
    | .err .NotEnoughSpace =>
      if nc > Gen.RESERVED_ENTRIES then do
        let r3 ← F.attempt (findNextFree Gen.RESERVED_ENTRIES (endCluster v))
        match r3 with
        | .ok c => pure (some c)
        | .err .NotEnoughSpace => pure none
        | other => F.lift (other.bind fun _ => .ok none)
      else pure none
    | other => F.lift (other.bind fun _ => .ok none) : F (Option Nat))
  F.modifyVol fun v => { v with nextFreeCluster := nextFree,
                                freeClustersCount := v.freeClustersCount.map (· - 1) }
  pure nc

theorem allocTail_hq (v : FatVolume) (nc : Nat) (hnc : 2 ≤ nc) : HQ (allocTail v nc) (fun _ => True) := by
  unfold allocTail
  refine HQ.bind (HQ.attempt (HQ.findNextFree nc (endCluster v))) fun r2 hr2 => ?_
  refine HQ.bind (Q := fun nf => ∀ c, nf = some c → 2 ≤ c) ?_ fun nf hnf => ?_
  · cases r2 with
    | ok c => exact HQ.pure _ (fun c' hc' => by cases hc'; have := hr2 c rfl; omega)
    | err e =>
      cases e <;> first
        | exact HQ.notOk (VK.lift _) (fun s a h => by cases h)
        | skip
      dsimp only
      split
      · refine HQ.bind (HQ.attempt (HQ.findNextFree Gen.RESERVED_ENTRIES (endCluster v))) fun r3 hr3 => ?_
        cases r3 with
        | ok c => exact HQ.pure _ (fun c' hc' => by cases hc'; exact hr3 c rfl)
        | err e =>
          cases e <;> first
            | exact HQ.pure _ (fun c' hc' => by cases hc')
            | exact HQ.notOk (VK.lift _) (fun s a h => by cases h)
        | panic m => exact HQ.notOk (VK.lift _) (fun s a h => by cases h)
        | diverged => exact HQ.notOk (VK.lift _) (fun s a h => by cases h)
      · exact HQ.pure _ (fun c' hc' => by cases hc')
    | panic m => exact HQ.notOk (VK.lift _) (fun s a h => by cases h)
    | diverged => exact HQ.notOk (VK.lift _) (fun s a h => by cases h)
  refine HQ.bind (Q := fun _ => True) ?_ fun _ _ => HQ.pure _ trivial
  exact HQ.of_vk (VK.modifyVol _ fun w _ => by
    intro n hn
    exact hnf n hn)

/-- **`alloc_cluster` keeps the hint valid under any schedule.** -/
theorem allocCluster_hint (prev : Option Nat) (zero : Bool) (s : FS) (hh : HintOK s.vol) :
    HintOK (allocCluster prev zero s).2.vol := by
  have key : HQ (allocCluster prev zero) (fun _ => True) := by
    unfold allocCluster
    refine HQ.bind HQ.getVol fun v hv => ?_
    dsimp only
    refine HQ.bind (HQ.attempt (HQ.findNextFree _ _)) fun r hr => ?_
    have hstart : ∀ c, r = .ok c → 2 ≤ c := by
      intro c hc
      refine Nat.le_trans ?_ (hr c hc)
      split
      · next c' hn =>
        split
        · exact hv c' hn
        · decide
      · decide
    refine HQ.bind (Q := fun nc => 2 ≤ nc) ?_ fun nc hnc => ?_
    · cases r with
      | ok c => exact HQ.pure c (hstart c rfl)
      | err e =>
        cases e <;> first
          | exact HQ.notOk (VK.lift _) (fun s a h => by cases h)
          | skip
        exact HQ.ite (HQ.findNextFree _ _) (HQ.notOk (VK.fail _) (fun s a h => by cases h))
      | panic m => exact HQ.notOk (VK.lift _) (fun s a h => by cases h)
      | diverged => exact HQ.notOk (VK.lift _) (fun s a h => by cases h)
    have htail := allocTail_hq v nc hnc
    split
    · refine HQ.bind (HQ.of_vk (zeroBlocks_hk _ _)) fun _ _ => ?_
      refine HQ.bind (HQ.of_vk (updateFat_hk _ _)) fun _ _ => ?_
      cases prev with
      | some c => exact HQ.bind (HQ.of_vk (updateFat_hk _ _)) fun _ _ => htail
      | none => exact htail
    · refine HQ.bind (HQ.of_vk (updateFat_hk _ _)) fun _ _ => ?_
      cases prev with
      | some c => exact HQ.bind (HQ.of_vk (updateFat_hk _ _)) fun _ _ => htail
      | none => exact htail
  exact (key s hh).1

theorem allocCluster_hk (prev : Option Nat) (zero : Bool) : VK HintOK (allocCluster prev zero) :=
  fun s hs => allocCluster_hint prev zero s hs

theorem writeNewBlocks_hk (name : Bytes) (att fc : Nat) (now : Timestamp) (n b : Nat) :
    VK HintOK (writeNewBlocks name att fc now n b) := by
  induction n generalizing b with
  | zero => unfold writeNewBlocks; vk_auto
  | succ n ih => unfold writeNewBlocks; vk_auto

theorem writeNewWalk_hk (name : Bytes) (att fc : Nat) (now : Timestamp) (fuel : Nat) (w : DirWalk) :
    VK HintOK (writeNewWalk name att fc now fuel w) := by
  have := nextCluster_hk
  have := allocCluster_hk
  have := writeNewBlocks_hk
  induction fuel generalizing w with
  | zero => unfold writeNewWalk; vk_auto
  | succ n ih => unfold writeNewWalk; vk_auto

/-- **`write_new_directory_entry` keeps the hint valid under any schedule.** -/
theorem writeNewDirectoryEntry_hk (d : Nat) (name : Bytes) (att fc : Nat) (now : Timestamp) :
    VK HintOK (writeNewDirectoryEntry d name att fc now) := by
  have := writeNewWalk_hk
  unfold writeNewDirectoryEntry; vk_auto

end Sdmmc.Lemmas.FaultX
