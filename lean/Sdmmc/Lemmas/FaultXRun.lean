/-
C11, arbitrary fault placement — ONE CALL AND HISTORIES with the invariant up to the schedule and lost chains (`InvF`):
a device failure may occur in any call of `classB` — the calls of `classA` (read-only, `flush_file`, `close_volume`) and
`write`, `delete_file_in_dir`, `make_dir_in_dir`, `open_file_in_dir` in a non-truncating mode — and in `close_file` of a
file whose entry on the medium is not ahead of its record (`MayFail`).
-/
import Sdmmc.Lemmas.FaultXWriteTop
import Sdmmc.Lemmas.FaultXOpen
import Sdmmc.Lemmas.FaultXClean
import Sdmmc.Lemmas.FaultHistRun
import Sdmmc.Lemmas.FaultXCloseFile
import Sdmmc.Lemmas.FaultXMkdirApi

namespace Sdmmc.Lemmas.FaultX
open Sdmmc.Lemmas.FaultHist Sdmmc.Lemmas.VolX
open Sdmmc.Model Sdmmc.Model.Fat Sdmmc.Spec.Volume
open Sdmmc.Spec hiding NoFault Coherent
open Sdmmc.Lemmas.VolApi Sdmmc.Lemmas.MHoare Sdmmc.Lemmas.FaultInv Sdmmc.Lemmas.Retry
open Sdmmc.Lemmas.Fault hiding resetLogs step_unlocked

/-- The calls during which a device failure is known to keep the invariant up to the schedule and lost chains. -/
def classB : Op → Bool
  | .write _ _ | .delete _ _ | .mkdir _ _ => true
  | .openFile _ _ mode => nonTruncating mode
  | op => classA op

theorem classB_of_classA {op : Op} (h : classA op = true) : classB op = true := by
  cases op <;> first | exact h | rfl | cases h

/-- The entry of every open file with handle `file` on the medium is not ahead of its record (`VolX.RawBelow`). -/
def RawBelowAt (s : Mgr) (file : Nat) : Prop :=
  ∀ f, f ∈ s.files → f.rawFile = file → ∀ vi, vi ∈ s.vols → RawBelow vi.vol.fatType s.dev.disk f

/-- May a device call fail during `op` issued in `s`?  In every call of `classB`; and in `close_file` of a file whose
entry on the medium is not ahead of its record. -/
def MayFail (s : Mgr) (op : Op) : Prop :=
  classB op = true ∨ ∃ file, op = .closeFile file ∧ RawBelowAt s file

/-- Device failures occur only where `P` allows. -/
def FailsOnlyWhen (P : Mgr → Op → Prop) : Mgr → List Op → Prop
  | _, [] => True
  | s, op :: ops => ((step s op).1.dev.failed ≠ s.dev.failed → P s op) ∧ FailsOnlyWhen P (step s op).1 ops

theorem failsOnlyWhen_of_classB : ∀ (ops : List Op) (s : Mgr), FailsOnlyIn classB s ops → FailsOnlyWhen MayFail s ops
  | [], _, _ => trivial
  | _ :: ops, _, h => ⟨fun hne => .inl (h.1 hne), failsOnlyWhen_of_classB ops _ h.2⟩

/-- **One covered call under any fault schedule**, a device failure occurring at most where `MayFail` allows. -/
theorem step_inv_B {X : List (List Nat)} {s0 : Mgr} {gh : Ghost} (hI : VolInvX X s0 gh) (L : List Nat) (op : Op)
    (hc : FCovered s0 op) (hB : (step (withFaults L s0) op).1.dev.failed ≠ s0.dev.failed → MayFail s0 op) :
    InvF gh (step (withFaults L s0) op).1 := by
  by_cases hq : (step (withFaults L s0) op).1.dev.failed = s0.dev.failed
  · obtain ⟨gh', h1, h2⟩ := (quiet_step_inv hI L op hc hq).2
    exact ⟨gh', X, h1, h2⟩
  have hI' := volInv_resetLogs hI
  have e1 := MHoare.step_unlocked (withFaults L s0) op hI.unlocked
  rw [resetLogs_withFaults] at e1
  have hs1 : (step (withFaults L s0) op).1 = (runOp op (withFaults L (resetLogs s0))).2 := by rw [e1]
  have viaA : classA op = true → InvF gh (step (withFaults L s0) op).1 := by
    intro hA
    obtain ⟨gh', h1, h2⟩ := step_inv_A hI L op hc (fun _ => hA)
    exact ⟨gh', X, h1, h2⟩
  rcases hB hq with hcl | ⟨file, hop, hraw⟩
  swap
  · subst hop
    rw [hs1]
    show InvF gh ((closeFile file >>= fun _ => (pure Payload.unit : M Payload)) _).2
    rw [seq_state]
    refine closeFile_faulted hI' L file fun f hf hk => ?_
    rcases hI.vols with h0 | ⟨vi, hvs, hvol⟩
    · obtain ⟨vi, hv, _⟩ := hI.fileVols f hf
      rw [h0] at hv; cases hv
    · have := hraw f hf hk vi (by rw [hvs]; exact List.mem_singleton.2 rfl)
      rw [hvol] at this
      exact this
  cases op with
  | write f data =>
    rw [hs1]
    show InvF gh ((Model.write f data >>= fun _ => (pure Payload.unit : M Payload)) _).2
    rw [seq_state]; exact write_faulted hI' L f data
  | delete d name =>
    rw [hs1]
    show InvF gh ((deleteFileInDir d name >>= fun _ => (pure Payload.unit : M Payload)) _).2
    rw [seq_state]; exact delete_faulted hI' L d name hc
  | openFile d name mode =>
    rw [hs1]
    show InvF gh ((openFileInDir d name mode >>= fun b => (pure (Payload.handle b) : M Payload)) _).2
    rw [map_state]; exact openFile_faulted hI' L d name mode hcl hc
  | closeFile f => cases hcl
  | mkdir d name =>
    rw [hs1]
    show InvF gh ((makeDirInDir d name >>= fun _ => (pure Payload.unit : M Payload)) _).2
    rw [seq_state]; exact mkdir_faulted hI' L d name hc
  | closeVolume v => exact viaA hcl
  | flush f => exact viaA hcl
  | read f n => exact viaA hcl
  | find d name => exact viaA hcl
  | list d => exact viaA hcl
  | listLfn d n => exact viaA hcl
  | openDir d name => exact viaA hcl
  | label v => exact viaA hcl
  | openVolume i => exact viaA hcl
  | openRoot v => exact viaA hcl
  | closeDir d => exact viaA hcl
  | seekStart f n => exact viaA hcl
  | seekCur f n => exact viaA hcl
  | seekEnd f n => exact viaA hcl
  | length f => exact viaA hcl
  | offset f => exact viaA hcl
  | eof f => exact viaA hcl
  | hasOpen => exact viaA hcl

/-- **One call from the invariant up to the schedule and lost chains** (any schedule pending in `s`): the invariant
again, and the call answers `Ok` or an error. -/
theorem step_inv_FB {s : Mgr} {gh : Ghost} (hI : InvF gh s) (op : Op) (hc : FCovered s op)
    (hB : (step s op).1.dev.failed ≠ s.dev.failed → MayFail s op) :
    InvF gh (step s op).1 ∧ Clean (step s op).2.result := by
  obtain ⟨gh1, X1, hI1, hg1⟩ := hI
  have e := withFaults_mclr s
  have hB' : (step (withFaults s.dev.faults (mclr s)) op).1.dev.failed ≠ (mclr s).dev.failed → MayFail (mclr s) op := by
    rw [e]; exact hB
  refine ⟨?_, ?_⟩
  · have := step_inv_B hI1 s.dev.faults op (fcovered_mclr hc) hB'
    rw [e] at this
    exact this.sameGeom hg1
  · by_cases hq : (step s op).1.dev.failed = s.dev.failed
    · have := (quiet_step_inv hI1 s.dev.faults op (fcovered_mclr hc) (by rw [e]; exact hq)).1
      rw [e] at this
      rw [this]
      exact covered_call_clean hI1 op (fcovered_mclr hc)
    · obtain ⟨err, he⟩ := Fault.step_reported s op hq
      rw [he]; exact clean_err _

/-- **Histories**: after every prefix. -/
theorem history_inv_B : ∀ (ops : List Op) {s : Mgr} {gh : Ghost}, InvF gh s → CoveredRunF s ops →
    FailsOnlyWhen MayFail s ops → ∀ k,
    InvF gh (run s (ops.take k)).1 ∧ ∀ o, o ∈ (run s (ops.take k)).2 → Clean o.result
  | [], s, gh, hI, _, _, k => by
    rw [List.take_nil]
    exact ⟨hI, fun o ho => by cases ho⟩
  | op :: ops, s, gh, hI, hc, hf, 0 => ⟨hI, fun o ho => by cases ho⟩
  | op :: ops, s, gh, hI, hc, hf, k + 1 => by
    rw [List.take_succ_cons, WriteSetInv.run_cons]
    obtain ⟨hI1, hcl⟩ := step_inv_FB hI op hc.1 hf.1
    obtain ⟨hI2, hcl2⟩ := history_inv_B ops hI1 hc.2 hf.2 k
    refine ⟨hI2, fun o ho => ?_⟩
    rcases List.mem_cons.1 ho with rfl | ho
    · exact hcl
    · exact hcl2 o ho

end Sdmmc.Lemmas.FaultX
