/-
Lemmas for C12, part 29 (whole sessions): replacing every multiple-block call by the single-block
calls in order — abstract meaning, legality.
-/
import Sdmmc.Lemmas.SdSessionRun

namespace Sdmmc.Lemmas.SdSession
open Sdmmc.Model Sdmmc.Spec.Card Sdmmc.Model.Sd Sdmmc.Lemmas.Sd Sdmmc.Gen

/-- `n` single-block reads of consecutive blocks. -/
def readCalls : Nat → Nat → List Call
  | 0, _ => []
  | n + 1, idx => .read 1 idx :: readCalls n (idx + 1)

/-- Single-block writes of the given blocks to consecutive block numbers. -/
def writeCalls : List Bytes → Nat → List Call
  | [], _ => []
  | b :: rest, idx => .write [b] idx :: writeCalls rest (idx + 1)

/-- A call as single-block calls (a single-block call stays what it is). -/
def expand : Call → List Call
  | .read n idx => readCalls n idx
  | .write blocks idx => writeCalls blocks idx
  | c => [c]

def expandAll (calls : List Call) : List Call := calls.flatMap expand

/-- All blocks read in a session, in order. -/
def blocksOf (as : List Answer) : List Bytes :=
  as.flatMap fun a => match a with
    | .blocks bs => bs
    | _ => []

/-- The capacity and card-type answers of a session, in order. -/
def infoOf (as : List Answer) : List Answer :=
  as.filter fun a => match a with
    | .num _ => true
    | .ctype _ => true
    | _ => false

theorem blocksOf_append (a b : List Answer) : blocksOf (a ++ b) = blocksOf a ++ blocksOf b := by
  simp [blocksOf]
theorem infoOf_append (a b : List Answer) : infoOf (a ++ b) = infoOf a ++ infoOf b := by
  simp [infoOf]

theorem absRun_readCalls (kind : Kind) (csd : List UInt8) (st : Store) : ∀ (n idx : Nat),
    (absRun kind csd st (readCalls n idx)).2 = st ∧
    blocksOf (absRun kind csd st (readCalls n idx)).1 = (List.range' idx n).map st ∧
    infoOf (absRun kind csd st (readCalls n idx)).1 = [] := by
  intro n
  induction n with
  | zero => intro idx; exact ⟨rfl, rfl, rfl⟩
  | succ n ih =>
    intro idx
    obtain ⟨h1, h2, h3⟩ := ih (idx + 1)
    refine ⟨h1, ?_, ?_⟩
    · show blocksOf (Answer.blocks ((List.range' idx 1).map st) :: (absRun kind csd st (readCalls n (idx + 1))).1) = _
      rw [show ∀ (a : Answer) l, blocksOf (a :: l) = blocksOf [a] ++ blocksOf l from fun a l => blocksOf_append [a] l,
        h2]
      simp [blocksOf, List.range'_succ]
    · show infoOf (Answer.blocks ((List.range' idx 1).map st) :: (absRun kind csd st (readCalls n (idx + 1))).1) = _
      rw [show ∀ (a : Answer) l, infoOf (a :: l) = infoOf [a] ++ infoOf l from fun a l => infoOf_append [a] l, h3]
      rfl

theorem writeStore_cons (st : Store) (idx : Nat) (b : Bytes) (rest : List Bytes) :
    writeStore (writeStore st idx [b]) (idx + 1) rest = writeStore st idx (b :: rest) := by
  funext j
  unfold writeStore
  simp only [List.length_cons, List.length_nil]
  by_cases h1 : idx + 1 ≤ j ∧ j < idx + 1 + rest.length
  · rw [if_pos h1, if_pos (by omega), show j - idx = (j - (idx + 1)) + 1 by omega, List.getD_cons_succ]
  · rw [if_neg h1]
    by_cases h2 : idx = j
    · subst h2
      rw [if_pos (by omega), if_pos (by omega), Nat.sub_self, List.getD_cons_zero, List.getD_cons_zero]
    · rw [if_neg (by omega), if_neg (by omega)]

theorem writeStore_nil (st : Store) (idx : Nat) : writeStore st idx [] = st := by
  funext j; unfold writeStore; rw [if_neg (by simp only [List.length_nil]; omega)]

theorem absRun_writeCalls (kind : Kind) (csd : List UInt8) : ∀ (blocks : List Bytes) (st : Store) (idx : Nat),
    (absRun kind csd st (writeCalls blocks idx)).2 = writeStore st idx blocks ∧
    blocksOf (absRun kind csd st (writeCalls blocks idx)).1 = [] ∧
    infoOf (absRun kind csd st (writeCalls blocks idx)).1 = [] := by
  intro blocks
  induction blocks with
  | nil => intro st idx; exact ⟨(writeStore_nil st idx).symm, rfl, rfl⟩
  | cons b rest ih =>
    intro st idx
    obtain ⟨h1, h2, h3⟩ := ih (writeStore st idx [b]) (idx + 1)
    refine ⟨?_, ?_, ?_⟩
    · show (absRun kind csd (writeStore st idx [b]) (writeCalls rest (idx + 1))).2 = _
      rw [h1, writeStore_cons]
    · show blocksOf (Answer.unit :: (absRun kind csd (writeStore st idx [b]) (writeCalls rest (idx + 1))).1) = _
      rw [show ∀ (a : Answer) l, blocksOf (a :: l) = blocksOf [a] ++ blocksOf l from fun a l => blocksOf_append [a] l, h2]
      rfl
    · show infoOf (Answer.unit :: (absRun kind csd (writeStore st idx [b]) (writeCalls rest (idx + 1))).1) = _
      rw [show ∀ (a : Answer) l, infoOf (a :: l) = infoOf [a] ++ infoOf l from fun a l => infoOf_append [a] l, h3]
      rfl

/-- Abstractly, a call and its single-block expansion read the same blocks, give the same
capacity / card-type answers and leave the same store. -/
theorem absRun_expand (kind : Kind) (csd : List UInt8) (st : Store) (c : Call) :
    (absRun kind csd st (expand c)).2 = (absCall kind csd st c).2 ∧
    blocksOf (absRun kind csd st (expand c)).1 = blocksOf [(absCall kind csd st c).1] ∧
    infoOf (absRun kind csd st (expand c)).1 = infoOf [(absCall kind csd st c).1] := by
  cases c with
  | read n idx =>
    obtain ⟨h1, h2, h3⟩ := absRun_readCalls kind csd st n idx
    exact ⟨h1, by rw [expand, h2]; simp [blocksOf, absCall], by rw [expand, h3]; rfl⟩
  | write blocks idx =>
    obtain ⟨h1, h2, h3⟩ := absRun_writeCalls kind csd blocks st idx
    exact ⟨h1, by rw [expand, h2]; rfl, by rw [expand, h3]; rfl⟩
  | numBlocks => exact ⟨rfl, rfl, rfl⟩
  | numBytes => exact ⟨rfl, rfl, rfl⟩
  | cardType => exact ⟨rfl, rfl, rfl⟩
  | markUninit => exact ⟨rfl, rfl, rfl⟩

theorem absRun_expandAll (kind : Kind) (csd : List UInt8) : ∀ (calls : List Call) (st : Store),
    (absRun kind csd st (expandAll calls)).2 = (absRun kind csd st calls).2 ∧
    blocksOf (absRun kind csd st (expandAll calls)).1 = blocksOf (absRun kind csd st calls).1 ∧
    infoOf (absRun kind csd st (expandAll calls)).1 = infoOf (absRun kind csd st calls).1 := by
  intro calls
  induction calls with
  | nil => intro st; exact ⟨rfl, rfl, rfl⟩
  | cons c cs ih =>
    intro st
    obtain ⟨e1, e2, e3⟩ := absRun_expand kind csd st c
    obtain ⟨i1, i2, i3⟩ := ih (absCall kind csd st c).2
    have happ := absRun_append kind csd st (expand c) (expandAll cs)
    have hx : expandAll (c :: cs) = expand c ++ expandAll cs := by simp [expandAll]
    rw [hx, happ, e1]
    refine ⟨i1, ?_, ?_⟩
    · show blocksOf (_ ++ _) = blocksOf ((absCall kind csd st c).1 :: _)
      rw [blocksOf_append, e2, i2]
      exact (blocksOf_append [_] _).symm
    · show infoOf (_ ++ _) = infoOf ((absCall kind csd st c).1 :: _)
      rw [infoOf_append, e3, i3]
      exact (infoOf_append [_] _).symm

/-! ### Legality of the expansion -/

theorem legal_readCalls (kind : Kind) (csd : List UInt8) : ∀ (n idx : Nat),
    idx + n ≤ capacityOfCsd csd → idx + n ≤ addrLimit kind →
    ∀ c ∈ readCalls n idx, Legal kind csd c ∧ isMultiRead c = false := by
  intro n
  induction n with
  | zero => intro idx _ _ c hc; cases hc
  | succ n ih =>
    intro idx h1 h2 c hc
    rcases List.mem_cons.mp hc with rfl | hc
    · exact ⟨⟨by omega, by omega, by omega, by omega⟩, rfl⟩
    · exact ih (idx + 1) (by omega) (by omega) c hc

theorem legal_writeCalls (kind : Kind) (csd : List UInt8) : ∀ (blocks : List Bytes) (idx : Nat),
    idx + blocks.length ≤ capacityOfCsd csd → idx + blocks.length ≤ addrLimit kind →
    (∀ b ∈ blocks, b.length = 512) →
    ∀ c ∈ writeCalls blocks idx, Legal kind csd c ∧ isMultiRead c = false := by
  intro blocks
  induction blocks with
  | nil => intro idx _ _ _ c hc; cases hc
  | cons b rest ih =>
    intro idx h1 h2 h3 c hc
    simp only [List.length_cons] at h1 h2
    rcases List.mem_cons.mp hc with rfl | hc
    · exact ⟨⟨by omega, by simp only [List.length_cons, List.length_nil]; omega, by omega,
        by simp only [List.length_cons, List.length_nil]; omega,
        fun x hx => by rw [List.mem_singleton.mp hx]; exact h3 b (List.mem_cons_self ..)⟩, rfl⟩
    · exact ih (idx + 1) (by omega) (by omega) (fun x hx => h3 x (List.mem_cons_of_mem _ hx)) c hc

theorem legal_expandAll (kind : Kind) (csd : List UInt8) (calls : List Call) (h : ∀ c ∈ calls, Legal kind csd c) :
    ∀ c ∈ expandAll calls, Legal kind csd c ∧ isMultiRead c = false := by
  intro c hc
  simp only [expandAll, List.mem_flatMap] at hc
  obtain ⟨c0, hc0, hc⟩ := hc
  have hl := h c0 hc0
  cases c0 with
  | read n idx => exact legal_readCalls kind csd n idx hl.2.1 hl.2.2.2 c hc
  | write blocks idx => exact legal_writeCalls kind csd blocks idx hl.2.1 hl.2.2.2.1 hl.2.2.2.2 c hc
  | numBlocks => simp only [expand, List.mem_singleton] at hc; subst hc; exact ⟨hl, rfl⟩
  | numBytes => simp only [expand, List.mem_singleton] at hc; subst hc; exact ⟨hl, rfl⟩
  | cardType => simp only [expand, List.mem_singleton] at hc; subst hc; exact ⟨hl, rfl⟩
  | markUninit => exact absurd hl id

theorem multiReadsLast_of_none : ∀ (calls : List Call), (∀ c ∈ calls, isMultiRead c = false) → MultiReadsLast calls := by
  intro calls
  induction calls with
  | nil => intro _; trivial
  | cons c cs ih =>
    intro h
    exact ⟨fun hm => (by rw [h c (List.mem_cons_self ..)] at hm; cases hm), ih fun x hx => h x (List.mem_cons_of_mem _ hx)⟩

end Sdmmc.Lemmas.SdSession
