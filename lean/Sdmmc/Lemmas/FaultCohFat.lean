/-
C11 — the cache after any call, part 2: every function of the FAT engine keeps the cache coherent under any fault
schedule, whatever its outcome (`*_coh`), and so does every call of the API (`runOp_coh`, `step_coherent`).
-/
import Sdmmc.Lemmas.FaultCoh
import Sdmmc.Lemmas.FaultPreFat

namespace Sdmmc.Lemmas.FaultCoh
open Sdmmc.Model Sdmmc.Model.Fat Sdmmc.Lemmas.Fault Sdmmc.Lemmas.FaultPre

theorem updateFat_coh (c n : Nat) : CohT Coh (updateFat c n) Coh := by
  unfold updateFat; coh_auto

theorem nextCluster_coh (c : Nat) : CohT Coh (nextCluster c) Coh := by
  unfold nextCluster; coh_auto

theorem findNextFreeCluster_coh (fuel cur endC : Nat) : CohT Coh (findNextFreeCluster fuel cur endC) Coh := by
  induction fuel generalizing cur with
  | zero => unfold findNextFreeCluster; coh_auto
  | succ n ih => unfold findNextFreeCluster; coh_auto

theorem findNextFree_coh (a b : Nat) : CohT Coh (findNextFree a b) Coh := findNextFreeCluster_coh _ _ _

theorem zeroBlocks_coh (n first : Nat) : CohT Coh (zeroBlocks n first) Coh := by
  induction n generalizing first with
  | zero => unfold zeroBlocks; coh_auto
  | succ n ih => unfold zeroBlocks; coh_auto

theorem allocCluster_coh (prev : Option Nat) (zero : Bool) : CohT Coh (allocCluster prev zero) Coh := by
  have := findNextFree_coh
  have := zeroBlocks_coh
  have := updateFat_coh
  unfold allocCluster; coh_auto

theorem truncateLoop_coh (fuel next : Nat) : CohT Coh (truncateLoop fuel next) Coh := by
  have := nextCluster_coh
  have := updateFat_coh
  induction fuel generalizing next with
  | zero => unfold truncateLoop; coh_auto
  | succ n ih => unfold truncateLoop; coh_auto

theorem truncateClusterChain_coh (c : Nat) : CohT Coh (truncateClusterChain c) Coh := by
  have := nextCluster_coh
  have := updateFat_coh
  have := truncateLoop_coh
  unfold truncateClusterChain; coh_auto

theorem freeClusterChain_coh (c : Nat) : CohT Coh (freeClusterChain c) Coh := by
  have := truncateClusterChain_coh
  have := updateFat_coh
  unfold freeClusterChain; coh_auto

theorem updateInfoSector_coh : CohT Coh updateInfoSector Coh := by
  unfold updateInfoSector; coh_auto

theorem writeEntryToDisk_coh (e : DirEntry) : CohT Coh (writeEntryToDisk e) Coh := by
  unfold writeEntryToDisk; coh_auto

theorem iterateBlocks_coh (n b : Nat) : CohT Coh (iterateBlocks n b) Coh := by
  induction n generalizing b with
  | zero => unfold iterateBlocks; coh_auto
  | succ n ih => unfold iterateBlocks; coh_auto

theorem iterateWalk_coh (fuel : Nat) (w : DirWalk) : CohT Coh (iterateWalk fuel w) Coh := by
  have := nextCluster_coh
  have := iterateBlocks_coh
  induction fuel generalizing w with
  | zero => unfold iterateWalk; coh_auto
  | succ n ih => unfold iterateWalk; coh_auto

theorem iterateRaw_coh (d : Nat) : CohT Coh (iterateRaw d) Coh := by
  have := iterateWalk_coh
  unfold iterateRaw; coh_auto

theorem findBlocks_coh (name : Bytes) (n b : Nat) : CohT Coh (findBlocks name n b) Coh := by
  induction n generalizing b with
  | zero => unfold findBlocks; coh_auto
  | succ n ih => unfold findBlocks; coh_auto

theorem findWalk_coh (name : Bytes) (fuel : Nat) (w : DirWalk) : CohT Coh (findWalk name fuel w) Coh := by
  have := nextCluster_coh
  have := findBlocks_coh
  induction fuel generalizing w with
  | zero => unfold findWalk; coh_auto
  | succ n ih => unfold findWalk; coh_auto

theorem findDirectoryEntry_coh (d : Nat) (name : Bytes) : CohT Coh (Fat.findDirectoryEntry d name) Coh := by
  have := findWalk_coh
  unfold Fat.findDirectoryEntry; coh_auto

theorem deleteBlocks_coh (name : Bytes) (n b : Nat) : CohT Coh (deleteBlocks name n b) Coh := by
  induction n generalizing b with
  | zero => unfold deleteBlocks; coh_auto
  | succ n ih => unfold deleteBlocks; coh_auto

theorem deleteWalk_coh (name : Bytes) (fuel : Nat) (w : DirWalk) : CohT Coh (deleteWalk name fuel w) Coh := by
  have := nextCluster_coh
  have := deleteBlocks_coh
  induction fuel generalizing w with
  | zero => unfold deleteWalk; coh_auto
  | succ n ih => unfold deleteWalk; coh_auto

theorem deleteDirectoryEntry_coh (d : Nat) (name : Bytes) : CohT Coh (deleteDirectoryEntry d name) Coh := by
  have := deleteWalk_coh
  unfold deleteDirectoryEntry; coh_auto

theorem writeNewBlocks_coh (name : Bytes) (att fc : Nat) (now : Timestamp) (n b : Nat) :
    CohT Coh (writeNewBlocks name att fc now n b) Coh := by
  induction n generalizing b with
  | zero => unfold writeNewBlocks; coh_auto
  | succ n ih => unfold writeNewBlocks; coh_auto

theorem writeNewWalk_coh (name : Bytes) (att fc : Nat) (now : Timestamp) (fuel : Nat) (w : DirWalk) :
    CohT Coh (writeNewWalk name att fc now fuel w) Coh := by
  have := nextCluster_coh
  have := writeNewBlocks_coh
  have := allocCluster_coh
  induction fuel generalizing w with
  | zero => unfold writeNewWalk; coh_auto
  | succ n ih => unfold writeNewWalk; coh_auto

theorem writeNewDirectoryEntry_coh (d : Nat) (name : Bytes) (att fc : Nat) (now : Timestamp) :
    CohT Coh (writeNewDirectoryEntry d name att fc now) Coh := by
  have := writeNewWalk_coh
  unfold writeNewDirectoryEntry; coh_auto


theorem makeDir_coh (parent : Nat) (sfn : Bytes) (att : Nat) (now : Timestamp) : CohT Coh (makeDir parent sfn att now) Coh := by
  have := allocCluster_coh
  have := zeroBlocks_coh
  have := writeNewDirectoryEntry_coh
  have := freeClusterChain_coh
  unfold makeDir; coh_auto

theorem walkClusters_coh (bpc n : Nat) (st : Nat × Nat) : CohT Coh (walkClusters bpc n st) Coh := by
  have := nextCluster_coh
  induction n generalizing st with
  | zero => unfold walkClusters; coh_auto
  | succ n ih => unfold walkClusters; coh_auto

theorem findDataOnDisk_coh (fileStart off : Nat) (start : Nat × Nat) : CohT Coh (findDataOnDisk fileStart off start) Coh := by
  have := walkClusters_coh
  unfold findDataOnDisk; coh_auto

theorem writeBlockPart_coh (b o : Nat) (data : Bytes) (whole : Bool) : CohT Coh (writeBlockPart b o data whole) Coh := by
  unfold writeBlockPart; coh_auto

theorem readBlock_coh (b : Nat) : CohT Coh (do cacheRead b; cacheBlk : F Block) Coh := by coh_auto

end Sdmmc.Lemmas.FaultCoh
