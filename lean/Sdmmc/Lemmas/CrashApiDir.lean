/-
Crash points of directory-plane API calls of the volume manager, lifted from the F-level bodies through
`withVol`:

* `openCreate_crash` — `open_file_in_dir(dir, name, ReadWriteCreate)` when the name is not found: the
  device writes are those of `write_new_directory_entry(dir, sfn, 0, 0)` (`CrashDirRecord`);
* `deleteFile_crash` — `delete_file_in_dir(dir, name)`: the lookup writes nothing, then
  `CrashDelete.deleteBody`.
-/
import Sdmmc.Lemmas.CrashDirRecord
import Sdmmc.Lemmas.CrashMgr
import Sdmmc.Lemmas.DirMgr
import Sdmmc.Lemmas.CrashDelete

namespace Sdmmc.Lemmas.CrashApiDir
open Sdmmc.Model Sdmmc.Model.Fat Sdmmc.Spec
open Sdmmc.Lemmas.FBasic hiding NoFault Coherent
open Sdmmc.Lemmas.FatOps hiding BlocksOK Mirror HintOK
open Sdmmc.Lemmas.ReadRefines Sdmmc.Lemmas.WriteRefines
open Sdmmc.Lemmas.CrashBase Sdmmc.Lemmas.CrashMgr Sdmmc.Lemmas.CrashDirRecord

/-- A read-only FAT-level call run through `withVol`: only device bookkeeping and the cache move. -/
theorem withVol_ro_state {α : Type} (vi : Nat) (m : F α) (hm : ReadOnly m) (s : Mgr) (v : VolInfo) (hv : s.vols[vi]? = some v) :
    (withVol vi m s).2 = { s with dev := (m (fsOf s v)).2.dev, cache := (m (fsOf s v)).2.cache } ∧
    RO (fsOf s v) (m (fsOf s v)).2 := by
  have hro := hm (fsOf s v)
  exact ⟨by rw [withVol_ro vi m s v hv hro], hro⟩

/-- **Creating a file** (`ReadWriteCreate`, name not present): every crash point. -/
theorem openCreate_crash (s sF : Mgr) (directory di vi id : Nat) (name : List Nat) (sfn : Bytes) (d : DirInfo) (v : VolInfo)
    (G : List (List Nat)) (odir : Option Nat) (dcs : List Nat)
    (hs : MgrOK s) (hroom : s.files.length < s.maxFiles)
    (hdi : s.dirs.findIdx? (·.rawDirectory = directory) = some di) (hd : s.dirs[di]? = some d)
    (hv : s.vols.findIdx? (·.rawVolume = d.rawVolume) = some vi) (hvi : s.vols[vi]? = some v)
    (hsfn : Sfn.createFromStr name = .ok sfn) (hlen : sfn.length = 11)
    (hg : WFGeom v.vol) (hh : HintOK v.vol) (hown : Owns v.vol s.dev.disk G) (hdir : DirIn v.vol d.cluster G dcs odir)
    (hnf : (Fat.findDirectoryEntry d.cluster sfn (fsOf s v)).1 = .err .NotFound)
    (hrun : openFileInDir directory name .ReadWriteCreate s = (.ok id, sF)) :
    ∃ (e : DirEntry) (G' : List (List Nat)) (v' : FatVolume), SameGeom v.vol v' ∧ Owns v' sF.dev.disk G' ∧
      (G' = G ∨ ∃ idir c, odir = some idir ∧ G' = G.set idir (dcs ++ [c])) ∧
      e = DirEntry.new sfn 0 Gen.CLUSTER_EMPTY s.clock e.entryBlock e.entryOffset ∧
      MCrash (EntryCrash v.vol s.dev.disk G odir dcs e) s sF := by
  obtain ⟨hnf0, hcoh, hblk, _⟩ := hs
  -- the lookup
  obtain ⟨hst, hro⟩ := withVol_ro_state vi (Fat.findDirectoryEntry d.cluster sfn) (DirMgr.findDirectoryEntry_readOnly _ _) s v hvi
  generalize hfs1 : (Fat.findDirectoryEntry d.cluster sfn (fsOf s v)).2 = fs1 at hst hro
  generalize hs1 : ({ s with dev := fs1.dev, cache := fs1.cache } : Mgr) = s1 at hst
  have h6 : withVol vi (Fat.findDirectoryEntry d.cluster sfn) s = (.err .NotFound, s1) := by
    rw [← hst, ← hnf, withVol_run vi _ s v hvi]
  have hv1 : s1.vols[vi]? = some v := by rw [← hs1]; exact hvi
  have hvol1 : fs1.vol = v.vol := hro.vol
  have hd1 : fs1.dev.disk = s.dev.disk := hro.disk
  have hw1 : fs1.dev.wlog = s.dev.wlog := hro.wlog
  have h3' : getVolumeById d.rawVolume s1 = (.ok vi, s1) := MHoare.getVolumeById_ok (by rw [← hs1]; exact hv)
  have hclock : s1.clock = s.clock := by rw [← hs1]
  have hopen := DirMgr.openFile_create_notFound directory di vi name sfn d s s1 hroom (MHoare.getDirById_ok hdi)
    (MHoare.getDir_ok hd) (MHoare.getVolumeById_ok hv) hsfn h6 h3'
  rw [hrun] at hopen
  -- the creation
  have hfs : fsOf s1 v = fs1 := by rw [← hs1]; exact fsOf_ro_eq s v fs1 hro
  have hwv := withVol_run vi (Fat.writeNewDirectoryEntry d.cluster sfn 0 Gen.CLUSTER_EMPTY s1.clock) s1 v hv1
  rw [hfs] at hwv
  generalize hres : Fat.writeNewDirectoryEntry d.cluster sfn 0 Gen.CLUSTER_EMPTY s1.clock fs1 = res at hwv
  obtain ⟨r2, fs2⟩ := res
  rw [hwv] at hopen
  cases r2 with
  | err e' => cases hopen
  | panic m => cases hopen
  | diverged => cases hopen
  | ok e =>
    simp only at hopen
    have hsFdev : sF.dev = fs2.dev := by
      have := congrArg (fun p => p.2.dev) hopen
      exact this
    have hready1 : Ready fs1 := ⟨hro.noFault hnf0, hro.coherent hcoh, by intro j; rw [hd1]; exact hblk j,
      by rw [hvol1]; exact hg, by rw [hvol1]; exact hh⟩
    have hown1 : Owns fs1.vol fs1.dev.disk G := by rw [hvol1, hd1]; exact hown
    have hdir1 : DirIn fs1.vol d.cluster G dcs odir := by rw [hvol1]; exact hdir
    obtain ⟨G', hown', hsg, _, hG', hcr⟩ :=
      newEntry_record_crash d.cluster sfn 0 Gen.CLUSTER_EMPTY s1.clock fs1 fs2 e G odir dcs hready1 hown1 hdir1 hlen hres
    have hentry : e = DirEntry.new sfn 0 Gen.CLUSTER_EMPTY s.clock e.entryBlock e.entryOffset := by
      obtain ⟨b, off, he, _, _⟩ := DirSlots.writeNewDirectoryEntry_entry _ _ _ _ _ _ _ _ hres
      rw [he, hclock]; rfl
    refine ⟨e, G', fs2.vol, by rw [← hvol1]; exact hsg, by rw [hsFdev]; exact hown', hG', hentry, ?_⟩
    have c1 : MCrash (EntryCrash v.vol s.dev.disk G odir dcs e) s s1 := by
      rw [← hs1]
      refine MCrash.same' hw1 hd1 ?_
      have h0 := hcr.initial
      rw [hvol1, hd1] at h0
      exact h0
    have c2 : MCrash (EntryCrash v.vol s.dev.disk G odir dcs e) s1 sF := by
      have hdev1 : fs1.dev = s1.dev := by rw [← hs1]
      refine MCrash.of_fs (hcr.mono fun dd hd => ?_) hdev1 hsFdev.symm
      rw [hvol1, hd1] at hd
      exact hd
    exact c1.trans c2

/-! ### `delete_file_in_dir` -/

/-- What holds of a crashed medium `d` of deleting the file whose chain is `G[i]` (`ofile = some i`), or
which owns no cluster (`ofile = none`); `(b, off)` is the slot that gets the deleted mark. -/
structure DeleteCrash (v : FatVolume) (d0 : Disk) (G : List (List Nat)) (ofile : Option Nat) (b off : Nat) (d : Disk) : Prop where
  order : d = d0 ∨ d.get b = (d0.get b).set off (UInt8.ofNat 0xE5)
  sound : OwnsLoose v d G ∨ ∃ i, ofile = some i ∧ d.get b = (d0.get b).set off (UInt8.ofNat 0xE5) ∧ OwnsLoose v d (G.eraseIdx i)
  others : ∀ j X, G[j]? = some X → ofile ≠ some j → ∀ x, x ∈ X → fatRaw v d x = fatRaw v d0 x
  blocks : ∀ i, regionOf v i ≠ .fat → i ≠ b → d.get i = d0.get i

theorem deleteFile_crash (s sF : Mgr) (directory di vi : Nat) (name : List Nat) (sfn : Bytes) (d : DirInfo) (v : VolInfo)
    (e : DirEntry) (G : List (List Nat)) (ofile : Option Nat) (tail : List Nat)
    (hs : MgrOK s) (hdi : s.dirs.findIdx? (·.rawDirectory = directory) = some di) (hd : s.dirs[di]? = some d)
    (hv : s.vols.findIdx? (·.rawVolume = d.rawVolume) = some vi) (hvi : s.vols[vi]? = some v)
    (hsfn : Sfn.createFromStr name = .ok sfn) (hg : WFGeom v.vol) (hown : Owns v.vol s.dev.disk G)
    (hfind : (Fat.findDirectoryEntry d.cluster sfn (fsOf s v)).1 = .ok e)
    (hfile : match ofile with
      | none => e.cluster < 2
      | some i => G[i]? = some (e.cluster :: tail))
    (hrun : deleteFileInDir directory name s = (.ok (), sF)) :
    ∃ b off, regionOf v.vol b ≠ .fat ∧ deleteInSlots sfn (slotsOf (s.dev.disk.get b)) = some off ∧
      MCrash (DeleteCrash v.vol s.dev.disk G ofile b off) s sF := by
  obtain ⟨hnf0, hcoh, hblk, _⟩ := hs
  obtain ⟨hst, hro⟩ := withVol_ro_state vi (Fat.findDirectoryEntry d.cluster sfn) (DirMgr.findDirectoryEntry_readOnly _ _) s v hvi
  generalize hfs1 : (Fat.findDirectoryEntry d.cluster sfn (fsOf s v)).2 = fs1 at hst hro
  generalize hs1 : ({ s with dev := fs1.dev, cache := fs1.cache } : Mgr) = s1 at hst
  have h6 : withVol vi (Fat.findDirectoryEntry d.cluster sfn) s = (.ok e, s1) := by
    rw [← hst, ← hfind, withVol_run vi _ s v hvi]
  have hv1 : s1.vols[vi]? = some v := by rw [← hs1]; exact hvi
  have hvol1 : fs1.vol = v.vol := hro.vol
  have hd1 : fs1.dev.disk = s.dev.disk := hro.disk
  have hw1 : fs1.dev.wlog = s.dev.wlog := hro.wlog
  have h3' : getVolumeById d.rawVolume s1 = (.ok vi, s1) := MHoare.getVolumeById_ok (by rw [← hs1]; exact hv)
  have hfs : fsOf s1 v = fs1 := by rw [← hs1]; exact fsOf_ro_eq s v fs1 hro
  -- the call is the lookup followed by the body
  have hcall : Attr.isDirectory e.attributes = false ∧
      withVol vi (CrashDelete.deleteBody d.cluster sfn e.cluster) s1 = (.ok (), sF) := by
    unfold deleteFileInDir at hrun
    simp only [bind, M.bind', MHoare.getDirById_ok hdi, MHoare.getDir_ok hd, MHoare.getVolumeById_ok hv, toSfn, hsfn, pure,
      M.pure', h6] at hrun
    by_cases hdirA : Attr.isDirectory e.attributes = true
    · rw [if_pos hdirA] at hrun; cases hrun
    · have hdirA' : Attr.isDirectory e.attributes = false := by simpa using hdirA
      rw [if_neg hdirA] at hrun
      have hrun2 : (if fileIsOpen s1 d.rawVolume e = true then M.fail Err.FileAlreadyOpen
          else (getVolumeById d.rawVolume).bind' fun volIdx =>
            withVol volIdx ((deleteDirectoryEntry d.cluster sfn).bind' fun __r => freeClusterChain e.cluster)) s1 = (.ok (), sF) := hrun
      by_cases hopen : fileIsOpen s1 d.rawVolume e = true
      · rw [if_pos hopen] at hrun2; cases hrun2
      · rw [if_neg hopen] at hrun2
        simp only [M.bind', h3'] at hrun2
        exact ⟨hdirA', hrun2⟩
  obtain ⟨_, hbody⟩ := hcall
  rw [withVol_run vi _ s1 v hv1, hfs] at hbody
  generalize hres : CrashDelete.deleteBody d.cluster sfn e.cluster fs1 = res at hbody
  obtain ⟨r2, fs2⟩ := res
  have hr2 : r2 = .ok () := congrArg Prod.fst hbody
  have hsFdev : sF.dev = fs2.dev := by
    have := congrArg (fun p => p.2.dev) hbody
    exact this.symm
  subst hr2
  -- the entry is deleted first
  have hn1 : NoFault fs1 := hro.noFault hnf0
  have hc1 : Coherent fs1 := hro.coherent hcoh
  have hb1 : BlocksOK fs1.dev.disk := by intro j; rw [hd1]; exact hblk j
  have hg1 : WFGeom fs1.vol := by rw [hvol1]; exact hg
  have hdelok : ∃ fsD, deleteDirectoryEntry d.cluster sfn fs1 = (.ok (), fsD) := by
    unfold CrashDelete.deleteBody at hres
    rw [bind_eq_ok] at hres
    obtain ⟨_, fsD, hD, _⟩ := hres
    exact ⟨fsD, hD⟩
  obtain ⟨fsD, hdel⟩ := hdelok
  obtain ⟨b, off, hm, hbr⟩ := CrashDelete.deleteDirectoryEntry_ok d.cluster sfn fs1 fsD hn1 hc1 hg1 hdel
  have hbr' : regionOf v.vol b ≠ .fat := by rw [← hvol1]; exact hbr
  refine ⟨b, off, hbr', by rw [← hd1]; exact hm.slot, ?_⟩
  have hdev1 : fs1.dev = s1.dev := by rw [← hs1]
  have c1 : ∀ P : Disk → Prop, P s.dev.disk → MCrash P s s1 := fun P hp => by
    rw [← hs1]; exact MCrash.same' hw1 hd1 hp
  -- FAT facts about the medium with the mark
  have hfatD : ∀ y, y < endCluster v.vol → fatRaw v.vol fsD.dev.disk y = fatRaw v.vol s.dev.disk y := fun y hy => by
    unfold fatRaw
    rw [hm.disk, Disk.get_set_ne _ _ _ _ (fun e' => hbr' (by rw [e']; exact (FatLens.fat_blocks_in_fat_region v.vol hg y hy).1)), hd1]
  cases ofile with
  | none =>
    -- an empty file: nothing to free
    have hfree : freeClusterChain e.cluster fsD = (.ok (), fsD) := by
      unfold freeClusterChain
      have : e.cluster < Gen.RESERVED_ENTRIES := hfile
      simp only [ite_apply, if_pos this, pure_apply]
    have hfs2 : fs2 = fsD := by
      unfold CrashDelete.deleteBody at hres
      rw [bind_ok hdel, hfree] at hres
      exact (congrArg Prod.snd hres).symm
    have hstart : DeleteCrash v.vol s.dev.disk G none b off s.dev.disk :=
      ⟨.inl rfl, .inl (ownsLoose_of_owns hown), fun _ _ _ _ _ _ => rfl, fun _ _ _ => rfl⟩
    refine (c1 _ hstart).trans (MCrash.of_fs (a := fs1) (b := fsD) ?_ hdev1 (by rw [hsFdev, hfs2]))
    refine (CrashData.single_write_crash hm.wlog hm.disk).mono fun dd hdd => ?_
    rcases hdd with rfl | rfl
    · rw [hd1]; exact hstart
    · refine ⟨.inr (by rw [hm.disk, Disk.get_set_self, hd1]),
        .inl (ownsLoose_congr (ownsLoose_of_owns hown) fun x hx => hfatD x (ForestStep.owns_mem_used hown hx).1.2),
        fun j X hj _ x hx => hfatD x (ForestStep.owns_mem_used hown (mem_flatten_of_mem (List.mem_of_getElem? hj) hx)).1.2,
        fun i _ hib => by rw [hm.disk, Disk.get_set_ne _ _ _ _ (fun e' => hib e'.symm), hd1]⟩
  | some i =>
    have hGi : G[i]? = some (e.cluster :: tail) := hfile
    have hch : Chain fs1.vol fs1.dev.disk e.cluster (e.cluster :: tail) := by
      rw [hvol1, hd1]
      exact hown.1 _ (List.mem_of_getElem? hGi)
    obtain ⟨b', off', s', hm', _, hrunB, hcr⟩ := CrashDelete.deleteBody_crash d.cluster sfn e.cluster tail fs1 fsD hn1 hc1 hb1 hg1 hch hdel
    -- the same slot
    have hbb : b' = b ∧ off' = off := by
      have h1 := hm'.wlog
      rw [hm.wlog] at h1
      have := List.cons.inj h1
      have hb' : b = b' := congrArg Prod.fst this.1
      subst hb'
      refine ⟨rfl, ?_⟩
      have h2 := hm'.slot
      rw [hm.slot] at h2
      exact (Option.some.inj h2).symm
    obtain ⟨rfl, rfl⟩ := hbb
    rw [hres] at hrunB
    have hfs2 : fs2 = s' := congrArg Prod.snd hrunB
    subst hfs2
    obtain ⟨hsplit, _⟩ := ForestOwns.split_at hGi
    have hnodup := hown.2.1
    rw [hsplit, ForestOwns.flatten3, ForestOwns.nodup3, ForestStep.flatten_one] at hnodup
    obtain ⟨_, _, _, dAM, _, dMB⟩ := hnodup
    have hstart : DeleteCrash v.vol s.dev.disk G (some i) b' off' s.dev.disk :=
      ⟨.inl rfl, .inl (ownsLoose_of_owns hown), fun _ _ _ _ _ _ => rfl, fun _ _ _ => rfl⟩
    refine (c1 _ hstart).trans (MCrash.of_fs (hcr.mono fun dd hdd => ?_) hdev1 hsFdev.symm)
    rw [hvol1, hd1] at hdd
    rcases hdd with rfl | ⟨hmark, hfat, hblocks⟩
    · exact hstart
    · have hkeep : ∀ x, x ∈ (G.take i).flatten ∨ x ∈ (G.drop (i + 1)).flatten → fatRaw v.vol dd x = fatRaw v.vol s.dev.disk x := by
        intro x hx
        have hxG : x ∈ G.flatten := by
          rw [hsplit]; exact (ForestOwns.mem_flatten3 _ _ _ x).2 (hx.elim .inl (fun h' => .inr (.inr h')))
        exact hfat x (ForestStep.owns_mem_used hown hxG).1.2 (fun hm2 => hx.elim (fun hA => dAM x hA hm2) (fun hB => dMB x hm2 hB))
      have hbase : OwnsLoose v.vol s.dev.disk (G.take i ++ [e.cluster :: tail] ++ G.drop (i + 1)) := by
        rw [← hsplit]; exact ownsLoose_of_owns hown
      refine ⟨.inr hmark, .inr ⟨i, rfl, hmark, by rw [ForestOwns.eraseIdx_at]; exact ownsLoose_drop hbase hkeep⟩,
        fun j X hj hne x hx => ?_, hblocks⟩
      have hji : j ≠ i := fun e' => hne (by rw [e'])
      exact hkeep x (CrashStep.mem_split_of_ne hj hji hx)

end Sdmmc.Lemmas.CrashApiDir
