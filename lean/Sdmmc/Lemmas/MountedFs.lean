/-
C15 meets C03, part 3 — what the abstract file system (`Spec.AbsFs`) answers to "open the root directory, open a
file by name read-only, read" and to "open the root directory, list it", from a state in which one volume is open
and no directory or file is (`abs_open_read`, `abs_open_list`).  Pure facts about `absRun`.
-/
import Sdmmc.Spec.AbsFs

namespace Sdmmc.Lemmas.Mounted
open Sdmmc.Model Sdmmc.Spec.AbsFs

/-- An abstract state right after a mount: the volume `v` is open, no directory and no file is, there is room for
one of each, no callback is running. -/
structure JustMounted (a : AbsFs) (v idx : Nat) : Prop where
  unlocked : a.locked = false
  vols : a.vols = [(v, idx)]
  dirs : a.dirs = []
  files : a.files = []
  roomD : 0 < a.maxDirs
  roomF : 0 < a.maxFiles

theorem ByteFile_read_zero (bytes : Bytes) (n : Nat) : ((⟨bytes, 0⟩ : Sdmmc.Spec.ByteFile).read n).1 = bytes.take n := by
  unfold Sdmmc.Spec.ByteFile.read
  simp

/-- `open_root_dir` from a just-mounted state. -/
theorem abs_openRoot {a : AbsFs} {v idx : Nat} (hj : JustMounted a v idx) {a2 : AbsFs} {r : Res Payload}
    (h : absStep a (.openRoot v) (a2, r)) :
    r = .ok (.handle a.nextId) ∧ a2 = { gen a with dirs := [⟨a.nextId, v, 0⟩] } := by
  unfold absStep at h
  rw [hj.unlocked] at h
  simp only [Bool.false_eq_true, if_false] at h
  unfold openRootF at h
  rw [hj.dirs] at h
  rw [if_neg (by simp only [List.length_nil]; have := hj.roomD; omega)] at h
  have h1 := congrArg Prod.fst h
  have h2 := congrArg Prod.snd h
  exact ⟨h2, h1⟩

/-- **Open the root, open a file by name, read**: the three answers. -/
theorem abs_open_read {a : AbsFs} {v idx : Nat} (hj : JustMounted a v idx) (name : List Nat) (sfn : Bytes) (n i : Nat)
    (m : Meta) (bytes : Bytes) (hsfn : Sfn.createFromStr name = .ok sfn) (hlk : lookup (a.slots 0) sfn = some i)
    (hsl : (a.slots 0)[i]? = some (.file m bytes)) {rs : List (Res Payload)} {a' : AbsFs}
    (hrun : absRun a [.openRoot v, .openFile a.nextId name .ReadOnly, .read ((a.nextId + 1) % 4294967296) n] rs a') :
    rs = [.ok (.handle a.nextId), .ok (.handle ((a.nextId + 1) % 4294967296)), .ok (.bytes (bytes.take n))] := by
  match rs, hrun with
  | [r1, r2, r3], hrun =>
    obtain ⟨a2, hs1, a3, hs2, a4, hs3, _⟩ := hrun
    obtain ⟨hr1, ha2⟩ := abs_openRoot hj hs1
    subst hr1
    -- the second call
    have hlock2 : a2.locked = false := by rw [ha2]; exact hj.unlocked
    have hfiles2 : a2.files = [] := by rw [ha2]; exact hj.files
    have hdirs2 : a2.dirs = [⟨a.nextId, v, 0⟩] := by rw [ha2]
    have hvols2 : a2.vols = [(v, idx)] := by rw [ha2]; exact hj.vols
    have hslots2 : a2.slots = a.slots := by rw [ha2]; rfl
    have hnext2 : a2.nextId = (a.nextId + 1) % 4294967296 := by rw [ha2]; rfl
    have hmaxF2 : a2.maxFiles = a.maxFiles := by rw [ha2]; rfl
    have hctx : dirCtx a2 a.nextId name = .ok (⟨a.nextId, v, 0⟩, sfn) := by
      unfold dirCtx dirOf dirIdx volOpen
      rw [hdirs2, hvols2]
      simp [hsfn]
    unfold absStep at hs2
    rw [hlock2] at hs2
    simp only [Bool.false_eq_true, if_false] at hs2
    unfold openFileS at hs2
    rw [if_neg (by rw [hfiles2, hmaxF2]; simp only [List.length_nil]; have := hj.roomF; omega), hctx] at hs2
    simp only [hslots2, hlk, hsl] at hs2
    have hnotopen : isOpenAt a2 v 0 i = false := by unfold isOpenAt; rw [hfiles2]; rfl
    rw [hnotopen] at hs2
    simp only [Bool.false_eq_true, if_false] at hs2
    rw [if_neg (by intro h; cases h), if_neg (by intro h; exact h.2 rfl)] at hs2
    obtain ⟨hr2, ha3⟩ := hs2
    have hsv : solveModeVariant Mode.ReadOnly true = Mode.ReadOnly := rfl
    rw [hsv, if_neg (by intro h; cases h), if_neg (by intro h; cases h), hfiles2, hnext2] at ha3
    rw [hnext2] at hr2
    subst hr2
    -- the third call
    have hlock3 : a3.locked = false := by rw [ha3]; exact hlock2
    have hfiles3 : a3.files = [⟨(a.nextId + 1) % 4294967296, v, .ReadOnly, 0, i, 0, m, false⟩] := by rw [ha3]; rfl
    have hvols3 : a3.vols = [(v, idx)] := by rw [ha3]; exact hvols2
    have hslots3 : a3.slots = a.slots := by rw [ha3]; exact hslots2
    unfold absStep at hs3
    rw [hlock3] at hs3
    simp only [Bool.false_eq_true, if_false] at hs3
    have hfo : fileOf a3 ((a.nextId + 1) % 4294967296) =
        some (0, ⟨(a.nextId + 1) % 4294967296, v, .ReadOnly, 0, i, 0, m, false⟩) := by
      unfold fileOf fileIdx
      rw [hfiles3]
      simp
    have hvo : volOpen a3 v = true := by
      unfold volOpen
      rw [hvols3]
      simp
    unfold readS at hs3
    rw [hfo] at hs3
    dsimp only at hs3
    rw [hvo] at hs3
    simp only [Bool.not_true, Bool.false_eq_true, if_false, hslots3, hsl, Option.some.injEq, Slot.file.injEq] at hs3
    obtain ⟨m', bytes', ⟨_, hb⟩, hr3, _⟩ := hs3
    rw [hr3, ← hb, ByteFile_read_zero]
  | [], hrun => exact absurd hrun id
  | [_], hrun => obtain ⟨_, _, h⟩ := hrun; exact absurd h id
  | [_, _], hrun => obtain ⟨_, _, _, _, h⟩ := hrun; exact absurd h id
  | _ :: _ :: _ :: _ :: _, hrun => obtain ⟨_, _, _, _, _, _, h⟩ := hrun; exact absurd h id

/-- **Open the root, list it**: the handle, then entries that show the file / directory slots of the root in slot
order. -/
theorem abs_open_list {a : AbsFs} {v idx : Nat} (hj : JustMounted a v idx) {rs : List (Res Payload)} {a' : AbsFs}
    (hrun : absRun a [.openRoot v, .list a.nextId] rs a') :
    ∃ es, rs = [.ok (.handle a.nextId), .ok (.entries es)] ∧ es.map view = listing (a.slots 0) := by
  match rs, hrun with
  | [r1, r2], hrun =>
    obtain ⟨a2, hs1, a3, hs2, _⟩ := hrun
    obtain ⟨hr1, ha2⟩ := abs_openRoot hj hs1
    subst hr1
    have hlock2 : a2.locked = false := by rw [ha2]; exact hj.unlocked
    have hdirs2 : a2.dirs = [⟨a.nextId, v, 0⟩] := by rw [ha2]
    have hvols2 : a2.vols = [(v, idx)] := by rw [ha2]; exact hj.vols
    have hslots2 : a2.slots = a.slots := by rw [ha2]; rfl
    have hdir : dirOf a2 a.nextId = .ok ⟨a.nextId, v, 0⟩ := by
      unfold dirOf dirIdx volOpen
      rw [hdirs2, hvols2]
      simp
    unfold absStep at hs2
    rw [hlock2] at hs2
    simp only [Bool.false_eq_true, if_false] at hs2
    obtain ⟨_, r0, hl, hr2⟩ := hs2
    unfold ListsAs at hl
    rw [hdir] at hl
    obtain ⟨es, hes, hv⟩ := hl
    refine ⟨es, ?_, by rw [hv, hslots2]⟩
    rw [hr2, hes]
    rfl
  | [], hrun => exact absurd hrun id
  | [_], hrun => obtain ⟨_, _, h⟩ := hrun; exact absurd h id
  | _ :: _ :: _ :: _, hrun => obtain ⟨_, _, _, _, h⟩ := hrun; exact absurd h id

end Sdmmc.Lemmas.Mounted
