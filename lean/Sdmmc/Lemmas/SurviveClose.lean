/-
C09 over histories, part 4: what a successful `flush_file` / `close_file` of a dirty file establishes on the medium
(`flush_flushed`, `close_flushed`: the slot holds the serialised record, the chain and the contents are as before),
what the invariant says about the record (`file_entry_facts`), and the independent reader at a medium that shows
the flushed file (`spec_reader_on`).
-/
import Sdmmc.Lemmas.SurviveRead

namespace Sdmmc.Lemmas.Survive
open Sdmmc.Model Sdmmc.Model.Fat Sdmmc.Spec.Volume Sdmmc.Lemmas.VolBase Sdmmc.Lemmas.VolTree
open Sdmmc.Spec hiding NoFault Coherent
open Sdmmc.Lemmas.VolDisk Sdmmc.Lemmas.VolMed Sdmmc.Lemmas.VolApi
open Sdmmc.Lemmas.WriteSetInv
open Sdmmc.Lemmas.MHoare

/-- What the invariant says about the record of an open file: it can be stored, it is a plain short entry whose
name starts neither with `0x00` nor with `0xE5`, its slot is an aligned slot of a directory block that is no block
of the file's own clusters, and its chain `chainOf gh.G f.entry.cluster` consists of data clusters and is long enough
for its size. -/
theorem file_entry_facts {s : Mgr} {gh : Ghost} (hI : VolInv s gh) {f : FileInfo} (hfm : f ∈ s.files) :
    Reopen.Storable gh.vol.fatType f.entry ∧ byteAt f.entry.name 0 ≠ 0 ∧ byteAt f.entry.name 0 ≠ 0xE5 ∧
    f.entry.attributes % 16 ≠ 15 ∧ Attr.isDirectory f.entry.attributes = false ∧
    (regionOf gh.vol f.entry.entryBlock = .root ∨ regionOf gh.vol f.entry.entryBlock = .data) ∧
    f.entry.entryOffset % 32 = 0 ∧ f.entry.entryOffset + 32 ≤ 512 ∧
    (∀ c, c ∈ chainOf gh.G f.entry.cluster → InRange gh.vol c) ∧
    f.entry.size ≤ (chainOf gh.G f.entry.cluster).length * clusterBytesLen gh.vol ∧
    (∀ c, c ∈ chainOf gh.G f.entry.cluster → ∀ j, j < gh.vol.blocksPerCluster → clusterToBlock gh.vol c + j ≠ f.entry.entryBlock) := by
  have hM := medX_of_med hI.med
  have hG := med_heads hM
  obtain ⟨hreg, ho, hname, _, hal⟩ := file_slot_facts hI hfm
  obtain ⟨ha1, ha2, ha3, _⟩ := hI.med.tree.fileAttrs f hfm
  obtain ⟨hcb, hsb⟩ := VolEng.file_record_facts hM hfm
  obtain ⟨hok, _⟩ := hI.med.fileOK f hfm
  obtain ⟨h, hh, A, o, B, hO, hpo, _, hnm, _, _⟩ := file_object hM.tree hfm
  have hoo : o ∈ objects h (dirSlots gh.vol s.dev.disk gh.G h) := by rw [hO]; simp
  obtain ⟨pre, post, hsp, _⟩ := object_split hM hh hoo
  have hmem : o ∈ dirSlots gh.vol s.dev.disk gh.G h := by rw [hsp]; simp
  obtain ⟨_, hnz, hn5, _⟩ := mem_entries (VolEng.mem_entries_of_objects hoo)
  have hfirst : first o = byteAt f.entry.name 0 := by
    rw [← hnm]; unfold first sName; exact (byteAt_take _ 11 (by decide)).symm
  have hplain : Attr.isDirectory f.entry.attributes = false := by
    unfold Attr.isDirectory
    show decide (f.entry.attributes / 16 % 2 = 1) = false
    simp [ha3]
  have hin : ∀ c, c ∈ chainOf gh.G f.entry.cluster → InRange gh.vol c := chainOf_inRange hI _
  obtain ⟨hp1, _⟩ := Prod.mk.inj hpo
  have hp1' : o.1 = f.entry.entryBlock := hp1
  refine ⟨⟨hname, ha1, hsb, hcb, fun hx => by rw [hplain] at hx; cases hx.2⟩, by rw [← hfirst]; exact hnz,
    by rw [← hfirst]; exact hn5, ha2, hplain, hreg, hal, ho, hin, hok.size_fits, ?_⟩
  -- the slot's block is no block of the file's clusters
  intro c hc j hj e
  have hcr := hin c hc
  have hcreg := FatLens.cluster_blocks_in_data_region gh.vol hM.geom c j hcr.1 hcr.2 hj
  by_cases hf : isFixedRoot gh.vol h
  · rw [dirSlots_fixed hf] at hmem
    have := fixedRootSlots_region hM.geom hf.2 hmem
    rw [hp1', ← e, hcreg] at this; cases this
  · rw [dirSlots_chain hf] at hmem
    obtain ⟨hdm, hdh⟩ := dirChain_spec hM hh hf
    obtain ⟨c', hc', hle, hlt⟩ := chainSlots_block hmem
    have hcr' := med_inRange hM hdm hc'
    have hcc : c' = c := by
      have := FatLens.cluster_blocks_disjoint_of_lt gh.vol hM.geom c' c (o.1 - clusterToBlock gh.vol c') j hcr'.1 hcr.1 hcr'.2
        hcr.2 (by omega) hj (by rw [hp1', ← e]; omega)
      exact this.1
    -- the file's chain and the directory's chain are different chains of `G`
    have hne0 : chainOf gh.G f.entry.cluster ≠ [] := fun e0 => by rw [e0] at hc; cases hc
    obtain ⟨hfm', hfh⟩ := chainOf_spec hG ((chainOf_ne_nil_iff hG).1 hne0)
    have hcl0 : f.entry.cluster ≠ 0 := fun e0 => by
      have := hG.ge _ hfm'
      rw [headD_of_head? hfh, e0] at this; omega
    obtain ⟨n1, n2⟩ := VolApi.file_cluster_not_dir hM.tree hG hfm hcl0
    have hhead : (chainOf gh.G (dirHead gh.vol h)).headD 0 ≠ (chainOf gh.G f.entry.cluster).headD 0 := by
      rw [headD_of_head? hdh, headD_of_head? hfh]
      intro e1
      rcases VolApi.dirHead_cases' (dirs := gh.dirs) hh hf with h1 | h1
      · exact n1 (e1 ▸ h1)
      · exact n2 (e1 ▸ h1)
    exact med_disjoint hM (List.mem_append_left _ hdm) (List.mem_append_left _ hfm') hhead c' hc' (hcc ▸ hc)

/-- **`flush_file` of a dirty file under the invariant**: it succeeds, touches no table, and afterwards the medium
shows the flushed file — the slot holds the serialised record, the chain is the chain, the contents are the contents. -/
theorem flush_flushed {s : Mgr} {gh : Ghost} (hI : VolInv s gh) {h i : Nat} {f : FileInfo}
    (hidx : s.files.findIdx? (·.rawFile = h) = some i) (hf : s.files[i]? = some f) (hd : f.dirty = true) :
    ∃ s1, flushFile h s = (.ok (), s1) ∧ closeFile h s = (.ok (), { s1 with files := swapRemove s.files i }) ∧
      FlushedOn gh.vol s1.dev.disk f.entry (chainOf gh.G f.entry.cluster) ∧
      ∀ n, fileContent gh.vol s1.dev.disk (chainOf gh.G f.entry.cluster) n =
        fileContent gh.vol s.dev.disk (chainOf gh.G f.entry.cluster) n := by
  have hfm : f ∈ s.files := List.mem_of_getElem? hf
  obtain ⟨vi, hv, hvol, hrv, _⟩ := vol_of_file hI hfm
  have hvfind : s.vols.findIdx? (·.rawVolume = f.rawVolume) = some 0 := by rw [hv]; simp [hrv]
  have hvi : s.vols[0]? = some vi := by rw [hv]; rfl
  obtain ⟨hst, _, _, _, _, hreg, _, ho, hin, _, hown⟩ := file_entry_facts hI hfm
  obtain ⟨_, _, _, hassert, _⟩ := file_slot_facts hI hfm
  obtain ⟨hok, _⟩ := hI.med.fileOK f hfm
  obtain ⟨s1, hfl, hcl, _, _, hslot, _, hagree⟩ := Reopen.closeFile_spec s h i 0 f vi
    ⟨hI.noFault, hI.coherent, hI.med.blocksOK, hI.unlocked⟩ hidx hf hvfind hvi hd hassert ho hst.name_len
  rw [hvol] at hslot hagree
  have hreg' : regionOf gh.vol f.entry.entryBlock = .data ∨ regionOf gh.vol f.entry.entryBlock = .root := hreg.symm
  refine ⟨s1, hfl, hcl, ⟨hslot, ?_⟩, fun n => ?_⟩
  · rcases hok.chain with ⟨h1, h2, h3⟩ | hch
    · exact .inl ⟨h1, h2, h3⟩
    · exact .inr (Reopen.chain_of_agreeOff gh.vol hI.med.geom _ _ _ hagree hreg' hch)
  · exact Reopen.fileContent_of_agreeOff gh.vol hI.med.geom _ _ _ hagree _ hin hown n

/-- The same through `step`: the state `step s (.closeFile h)` leaves. -/
theorem close_step_flushed {s : Mgr} {gh : Ghost} (hI : VolInv s gh) {h i : Nat} {f : FileInfo}
    (hidx : s.files.findIdx? (·.rawFile = h) = some i) (hf : s.files[i]? = some f) (hd : f.dirty = true) :
    (step s (.closeFile h)).2.result = .ok .unit ∧
    FlushedOn gh.vol (step s (.closeFile h)).1.dev.disk f.entry (chainOf gh.G f.entry.cluster) ∧
    ∀ n, fileContent gh.vol (step s (.closeFile h)).1.dev.disk (chainOf gh.G f.entry.cluster) n =
      fileContent gh.vol s.dev.disk (chainOf gh.G f.entry.cluster) n := by
  have hI0 := VolApi.volInv_resetLogs hI
  obtain ⟨s1, _, hcl, hF, hfc⟩ := flush_flushed hI0 (h := h) (i := i) (f := f) hidx hf hd
  rw [step_unlocked s _ hI.unlocked]
  have hrun : runOp (.closeFile h) (resetLogs s) = (.ok .unit, { s1 with files := swapRemove s.files i }) := by
    show (closeFile h >>= fun _ => (pure Payload.unit : M Payload)) (resetLogs s) = _
    rw [bind_ok hcl]
    rfl
  rw [hrun]
  exact ⟨rfl, hF, hfc⟩

/-- … and `step s (.flush h)`. -/
theorem flush_step_flushed {s : Mgr} {gh : Ghost} (hI : VolInv s gh) {h i : Nat} {f : FileInfo}
    (hidx : s.files.findIdx? (·.rawFile = h) = some i) (hf : s.files[i]? = some f) (hd : f.dirty = true) :
    (step s (.flush h)).2.result = .ok .unit ∧
    FlushedOn gh.vol (step s (.flush h)).1.dev.disk f.entry (chainOf gh.G f.entry.cluster) ∧
    ∀ n, fileContent gh.vol (step s (.flush h)).1.dev.disk (chainOf gh.G f.entry.cluster) n =
      fileContent gh.vol s.dev.disk (chainOf gh.G f.entry.cluster) n := by
  have hI0 := VolApi.volInv_resetLogs hI
  obtain ⟨s1, hfl, _, hF, hfc⟩ := flush_flushed hI0 (h := h) (i := i) (f := f) hidx hf hd
  rw [step_unlocked s _ hI.unlocked]
  have hrun : runOp (.flush h) (resetLogs s) = (.ok .unit, s1) := by
    show (flushFile h >>= fun _ => (pure Payload.unit : M Payload)) (resetLogs s) = _
    rw [bind_ok hfl]
    rfl
  rw [hrun]
  exact ⟨rfl, hF, hfc⟩

/-! ### The independent reader -/

/-- On a medium with 512-byte blocks that shows the flushed file, the independent reader `Spec.Fs` sees it: the
slot's fields are the record's, its chain walk gives `cs`, its file bytes are `fileContent`. -/
theorem spec_reader_on (v : FatVolume) (hg : WFGeom v) (g : Fs.Geom) (hgm : Reopen.GeomOf v g) (d : Disk) (hb : BlocksOK d)
    (e : DirEntry) (cs : List Nat) (hst : Reopen.Storable v.fatType e) (hF : FlushedOn v d e cs) (hin : ∀ c, c ∈ cs → InRange v c)
    (hp : ∀ x, x ∈ cs → v.fatType = .fat32 → fatRaw v d x % 268435456 ≠ 1)
    (sl : Fs.Slot) (hsl : sl.bytes = slice (d.get e.entryBlock) e.entryOffset 32) :
    Fs.nameOf sl = e.name ∧ Fs.attrOf sl = e.attributes ∧ Fs.clusterOf g sl = e.cluster ∧ Fs.sizeOf sl = e.size ∧
    (cs ≠ [] → Fs.chain g d (Fs.clusterOf g sl) = .ok cs) ∧
    Fs.fileBytes g d cs (Fs.sizeOf sl) = fileContent v d cs e.size := by
  obtain ⟨h1, h2, h3, h4, _⟩ := Reopen.spec_slot_fields v g hgm e hst sl (by rw [hsl]; exact hF.slot)
  refine ⟨h1, h2, h3, h4, fun hne => ?_, by rw [h4]; exact Reopen.spec_fileBytes_agrees v hg g hgm d cs hin e.size⟩
  rcases hF.chain with ⟨_, h0, _⟩ | hch
  · exact absurd h0 hne
  · rw [h3]; exact Reopen.spec_chain_agrees v g hgm d hb hch hp

end Sdmmc.Lemmas.Survive
