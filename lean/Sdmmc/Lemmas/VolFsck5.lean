/-
Bridge `VolInv` → `Spec.Fs.fsck`, layer F5 (part 1): the shape of the directory tree.

* `rank` — position in the parents-first list `dirs`; a parent ranks below its child (`rank_parent_lt`), so the
  parent relation has no cycle;
* `Under dirs a x` — `x` is `a` or a descendant of `a`; the ancestors of a directory form a chain
  (`under_chain`), two children of one directory have disjoint sub-trees (`under_siblings`);
* `Depth dirs h k` — directory `h` lies `k` levels below the root: the subject of hypothesis (H2).
-/
import Sdmmc.Lemmas.VolFsck4

namespace Sdmmc.Lemmas.VolFsck
open Sdmmc.Model Sdmmc.Model.Fat Sdmmc.Spec Sdmmc.Spec.Volume
open Sdmmc.Lemmas.VolTree Sdmmc.Lemmas.VolMed Sdmmc.Lemmas.VolBase

/-- `x` is `a` or lies below `a` in the directory tree. -/
inductive Under (dirs : List (Nat × Nat)) (a : Nat) : Nat → Prop
  | refl : Under dirs a a
  | step {x p : Nat} : (x, p) ∈ dirs → Under dirs a p → Under dirs a x

/-- The position of a directory in the parents-first list (the root first). -/
def rank (dirs : List (Nat × Nat)) (h : Nat) : Nat := (dirIds dirs).idxOf h

theorem pairwise_sym_mem {α : Type} {R : α → α → Prop} (hsym : ∀ a b, R a b → R b a) :
    ∀ {l : List α}, l.Pairwise R → ∀ a, a ∈ l → ∀ b, b ∈ l → a ≠ b → R a b
  | [], _, a, ha, _, _, _ => by cases ha
  | x :: l, hp, a, ha, b, hb, hne => by
    rw [List.pairwise_cons] at hp
    rcases List.mem_cons.1 ha with e1 | ha1
    · rcases List.mem_cons.1 hb with e2 | hb1
      · exact absurd (e1.trans e2.symm) hne
      · rw [e1]; exact hp.1 b hb1
    · rcases List.mem_cons.1 hb with e2 | hb1
      · rw [e2]; exact hsym _ _ (hp.1 a ha1)
      · exact pairwise_sym_mem hsym hp.2 a ha1 b hb1 hne

section
variable {ft : FatType} {cb : Nat} {root : List Nat} {G : List (List Nat)} {dirs : List (Nat × Nat)}
  {slots : Nat → List Slot} {files : List FileInfo}

/-- A sub-directory has one parent. -/
theorem parent_fun (hT : TreeOK ft cb root G dirs slots files) (hG : HeadsOK G) {h p p' : Nat} (hp : (h, p) ∈ dirs)
    (hp' : (h, p') ∈ dirs) : p = p' := by
  have := List.inj_on_of_nodup_map (dirHeads_nodup hT hG) hp hp' rfl
  exact (Prod.mk.inj this).2

theorem rank_parent_lt (hT : TreeOK ft cb root G dirs slots files) (hG : HeadsOK G) {h p : Nat} (hp : (h, p) ∈ dirs) :
    rank dirs p < rank dirs h := by
  have hnd := dirIds_nodup hT hG
  obtain ⟨i, hi⟩ := List.getElem?_of_mem hp
  obtain ⟨hil, hie⟩ := List.getElem?_eq_some_iff.1 hi
  have hlen : (dirIds dirs).length = dirs.length + 1 := by simp [dirIds]
  have hrh : rank dirs h = i + 1 := by
    have h1 : (dirIds dirs)[i + 1]'(by omega) = h := by
      simp only [dirIds, List.getElem_cons_succ, List.getElem_map, hie]
    unfold rank
    rw [← h1]
    exact hnd.idxOf_getElem (i + 1) (by omega)
  rw [hrh]
  rcases hT.order i h p hi with h0 | hm
  · subst h0
    unfold rank dirIds
    rw [List.idxOf_cons]
    simp
  · obtain ⟨⟨q, p'⟩, hq, hqe⟩ := List.mem_map.1 hm
    obtain ⟨j, hj, hje⟩ := List.mem_take_iff_getElem.1 hq
    have hj' : j < i := by
      have := hj
      rw [Nat.lt_min] at this
      exact this.1
    have hjl : j < dirs.length := by omega
    have h1 : (dirIds dirs)[j + 1]'(by omega) = p := by
      simp only [dirIds, List.getElem_cons_succ, List.getElem_map, hje]
      exact hqe
    have : rank dirs p = j + 1 := by
      unfold rank
      rw [← h1]
      exact hnd.idxOf_getElem (j + 1) (by omega)
    omega

theorem under_rank_le (hT : TreeOK ft cb root G dirs slots files) (hG : HeadsOK G) {a x : Nat} (h : Under dirs a x) :
    rank dirs a ≤ rank dirs x := by
  induction h with
  | refl => exact Nat.le_refl _
  | step hp _ ih => exact Nat.le_of_lt (Nat.lt_of_le_of_lt ih (rank_parent_lt hT hG hp))

theorem under_trans {a b x : Nat} (h1 : Under dirs a b) (h2 : Under dirs b x) : Under dirs a x := by
  induction h2 with
  | refl => exact h1
  | step hp _ ih => exact .step hp ih

theorem under_child {h c : Nat} (hc : (c, h) ∈ dirs) : Under dirs h c := .step hc .refl

/-- A proper descendant lies below its ancestor's rank; so `Under` is antisymmetric. -/
theorem under_proper (hT : TreeOK ft cb root G dirs slots files) (hG : HeadsOK G) {a x : Nat} (h : Under dirs a x) :
    a = x ∨ rank dirs a < rank dirs x := by
  cases h with
  | refl => exact .inl rfl
  | step hp hu => exact .inr (Nat.lt_of_le_of_lt (under_rank_le hT hG hu) (rank_parent_lt hT hG hp))

/-- The ancestors of a directory form a chain. -/
theorem under_chain (hT : TreeOK ft cb root G dirs slots files) (hG : HeadsOK G) {a b x : Nat} (ha : Under dirs a x) :
    Under dirs b x → rank dirs a ≤ rank dirs b → Under dirs a b := by
  induction ha with
  | refl =>
    intro hb hr
    rcases under_proper hT hG hb with e | hlt
    · subst e; exact .refl
    · omega
  | step hp hu ih =>
    intro hb hr
    cases hb with
    | refl => exact .step hp hu
    | step hp' hu' =>
      have := parent_fun hT hG hp hp'
      subst this
      exact ih hu' hr

/-- A child's sub-tree does not contain its parent. -/
theorem under_child_not (hT : TreeOK ft cb root G dirs slots files) (hG : HeadsOK G) {h c : Nat} (hc : (c, h) ∈ dirs) :
    ¬ Under dirs c h := by
  intro hu
  have := under_rank_le hT hG hu
  have := rank_parent_lt hT hG hc
  omega

/-- Two children of one directory have disjoint sub-trees. -/
theorem under_siblings (hT : TreeOK ft cb root G dirs slots files) (hG : HeadsOK G) {h c c' x : Nat} (hc : (c, h) ∈ dirs)
    (hc' : (c', h) ∈ dirs) (hu : Under dirs c x) (hu' : Under dirs c' x) : c = c' := by
  have key : ∀ {c c' : Nat}, (c, h) ∈ dirs → (c', h) ∈ dirs → Under dirs c x → Under dirs c' x →
      rank dirs c ≤ rank dirs c' → c = c' := by
    intro c c' hc hc' hu hu' hr
    have h1 := under_chain hT hG hu hu' hr
    cases h1 with
    | refl => rfl
    | step hp hq =>
      have := parent_fun hT hG hp hc'
      subst this
      exact absurd hq (under_child_not hT hG hc)
  rcases Nat.le_total (rank dirs c) (rank dirs c') with hr | hr
  · exact key hc hc' hu hu' hr
  · exact (key hc' hc hu' hu hr).symm

theorem under_mem_dirIds {a x : Nat} (ha : a ∈ dirIds dirs) (h : Under dirs a x) : x ∈ dirIds dirs := by
  cases h with
  | refl => exact ha
  | step hp _ => exact mem_dirIds.2 (.inr ⟨_, hp⟩)

end

end Sdmmc.Lemmas.VolFsck
