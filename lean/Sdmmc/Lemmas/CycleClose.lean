/-
The fill / delete / refill cycle without glue (C05), part 4 — `close_file` on a state satisfying the
volume invariant, with the ghost afterwards made explicit (`close_x`): same chains, same
sub-directories; and the entry the closed file sat at is now a CLOSED file object of the same
directory that carries the record's name, first cluster and size.
-/
import Sdmmc.Lemmas.VolApi2
import Sdmmc.Lemmas.VolMed5

namespace Sdmmc.Lemmas.Cycle
open Sdmmc.Model Sdmmc.Model.Fat Sdmmc.Spec.Volume Sdmmc.Lemmas.VolBase Sdmmc.Lemmas.VolTree
open Sdmmc.Spec hiding NoFault Coherent
open Sdmmc.Lemmas.VolDisk Sdmmc.Lemmas.VolMed Sdmmc.Lemmas.VolEng Sdmmc.Lemmas.VolApi
open Sdmmc.Lemmas.FBasic (NoFault Coherent)
open Sdmmc.Lemmas.MHoare

/-- In a list with distinct keys, what is left after erasing position `i` has other keys than the
element erased. -/
theorem key_ne_of_mem_eraseIdx {α β : Type} (k : α → β) : ∀ (l : List α), (l.map k).Nodup → ∀ (i : Nat) (x : α),
    l[i]? = some x → ∀ y, y ∈ l.eraseIdx i → k y ≠ k x
  | [], _, _, _, h, _, _ => by cases h
  | a :: l, hnd, 0, x, h, y, hy => by
    have hx : a = x := by simpa using h
    subst hx
    rw [List.eraseIdx_cons_zero] at hy
    rw [List.map_cons, List.nodup_cons] at hnd
    intro e
    exact hnd.1 (e ▸ List.mem_map_of_mem hy)
  | a :: l, hnd, i + 1, x, h, y, hy => by
    rw [List.map_cons, List.nodup_cons] at hnd
    rw [List.eraseIdx_cons_succ] at hy
    have hx : l[i]? = some x := by simpa using h
    rcases List.mem_cons.1 hy with rfl | hy
    · intro e
      exact hnd.1 (e ▸ List.mem_map_of_mem (List.mem_of_getElem? hx))
    · exact key_ne_of_mem_eraseIdx k l hnd.2 i x hx y hy

/-- **Closing, with the ghost.**  `file` is an open handle (slot `i`, record `f`) whose directory slot is a
slot of directory `h0`.  After `close_file` the invariant holds for a ghost with the same chains and
sub-directories; directory `h0` has a file object `o` at the position the record named, with the record's
name, first cluster and size, and no open file sits at it any more. -/
theorem close_x {s : Mgr} {gh : Ghost} (hI : VolInv s gh) {file i : Nat} {f : FileInfo}
    (hidx : s.files.findIdx? (·.rawFile = file) = some i) (hf : s.files[i]? = some f)
    {h0 : Nat} (hh0 : h0 ∈ dirIds gh.dirs) (hhome : fkey f ∈ (dirSlots gh.vol s.dev.disk gh.G h0).map spos) :
    ∃ gh', VolInv (closeFile file s).2 gh' ∧ SameGeom gh.vol gh'.vol ∧ gh'.dirs = gh.dirs ∧ gh'.G = gh.G ∧
      (closeFile file s).2.files = swapRemove s.files i ∧
      ∃ o, o ∈ objects h0 (dirSlots gh'.vol (closeFile file s).2.dev.disk gh'.G h0) ∧ spos o = fkey f ∧ isDirE o = false ∧
        sName o = f.entry.name ∧ sCluster gh'.vol.fatType o = f.entry.cluster ∧ sSize o = f.entry.size ∧
        pendOf (closeFile file s).2.files o = none := by
  obtain ⟨s1, hfl, hfiles, hdirs, hnid, gh1, hI1, hsg1, hD1, hG1, hsync⟩ := flush_api hI hidx hf
  have hclose : (closeFile file s).2 = { s1 with files := swapRemove s1.files i } := by
    unfold closeFile
    rw [attempt_bind, hfl]
    simp only
    have hidx1 : s1.files.findIdx? (·.rawFile = file) = some i := by rw [hfiles]; exact hidx
    rw [bind_ok (getFileById_ok hidx1), modify_bind]
    rfl
  rw [hclose]
  have hf1 : s1.files[i]? = some f := by rw [hfiles]; exact hf
  have hfm1 : f ∈ s1.files := List.mem_of_getElem? hf1
  have hM1 := medX_of_med hI1.med
  have htc := tree_close hI1.med.tree (med_heads hM1) (objPos_nodup hM1) hf1 hsync
  have hp := swapRemove_perm s1.files i f hf1
  have hsub : ∀ g, g ∈ swapRemove s1.files i → g ∈ s1.files :=
    fun g hg => (List.eraseIdx_sublist s1.files i).subset (hp.subset hg)
  have hI2 : VolInv { s1 with files := swapRemove s1.files i } gh1 := by
    apply volInv_files hI1 _ hsub
    exact ⟨hI1.med.blocksOK, hI1.med.geom, hI1.med.hint, hI1.med.owns, tree_files_perm htc hp.symm,
      fun g hg => hI1.med.fileOK g (hsub g hg)⟩
  refine ⟨gh1, hI2, hsg1, hD1, hG1, by show swapRemove s1.files i = _; rw [hfiles], ?_⟩
  -- the object the file sat at
  obtain ⟨h', hh', A, o, B, hO, hpo, hod, hnm, _, _⟩ := file_object hI1.med.tree hfm1
  have ho : o ∈ objects h' (dirSlots gh1.vol s1.dev.disk gh1.G h') := by rw [hO]; simp
  obtain ⟨hsc, hss⟩ := hsync h' hh' o ho hpo
  have hh0' : h0 ∈ dirIds gh1.dirs := by rw [hD1]; exact hh0
  have hhh : h' = h0 := by
    by_contra hne
    obtain ⟨t, ht, hte⟩ := List.mem_map.1 hhome
    have ht' : t ∈ dirSlots gh1.vol s.dev.disk gh1.G h0 := by
      rw [dirSlots_sameGeom hsg1, hG1]; exact ht
    exact dirSlots_pos_disjoint hM1 hh' hh0' hne s1.dev.disk s.dev.disk (mem_of_mem_objects ho) ht' (hpo.trans hte.symm)
  subst hhh
  refine ⟨o, ho, hpo, hod, hnm, hsc, hss, ?_⟩
  show pendOf (swapRemove s1.files i) o = none
  rw [pendOf_none_iff]
  intro g hg hk
  -- `g` would be a second record at the position of `f`
  have hge : g ∈ s1.files.eraseIdx i := hp.subset hg
  exact key_ne_of_mem_eraseIdx fkey s1.files hI1.med.tree.filesDistinct i f hf1 g hge (hk.trans hpo)

end Sdmmc.Lemmas.Cycle
