/-
The directory lookup every name-taking call starts with — `open_file_in_dir`, `find_directory_entry`,
`delete_file_in_dir`, `open_dir`, `make_dir_in_dir` — IS the abstract lookup.

`Props/C07.lean` states what these calls DECIDE as a function of the outcome of `lookup vi dir sfn s`
(= `withVol vi (Fat.findDirectoryEntry dir.cluster sfn)`), under `DirCtx` and without ever unfolding the lookup;
`Props/C01Fs.lean` refines the whole calls to the byte-array file system `Spec/AbsFs.lean`.  The refinement proofs contain —
inside `Lemmas.AbsFs.openFile_refines` — the fact that joins the two: under the volume invariant the lookup answers the
DECODED SLOT at the index the abstract lookup `Spec.AbsFs.lookup (a.slots dir) sfn` gives, and `NotFound` exactly when the
abstract lookup finds nothing.  Here it is extracted as a stated theorem (`lookup_is_abstract`).
-/
import Sdmmc.Lemmas.AbsFsOpen
import Sdmmc.Props.C07
import Sdmmc.Props.C03All

namespace Sdmmc.Lemmas.MainLookup
open Sdmmc.Model Sdmmc.Model.Fat Sdmmc.Spec.Volume Sdmmc.Lemmas.VolBase Sdmmc.Lemmas.VolTree
open Sdmmc.Spec hiding NoFault Coherent
open Sdmmc.Lemmas.VolDisk Sdmmc.Lemmas.VolMed Sdmmc.Lemmas.VolApi Sdmmc.Lemmas.VolEng
open Sdmmc.Lemmas.AbsFs
open Sdmmc.Lemmas.MHoare
open Sdmmc.Props.C07 (DirCtx lookup)

/-- What the lookup answers, in terms of the abstract directory `ss` (the slots of the directory in the abstract file
system) and the on-disk view `view` of the same directory: `NotFound` iff the abstract lookup finds nothing; otherwise the
decoding of the view's slot at the index the abstract lookup gives — and the abstract slot there is that slot read
abstractly. -/
def Answer (ft : FatType) (cont : Slot → Bytes) (ss : List ASlot) (view : List Slot) (sfn : Bytes) (r : Res DirEntry) : Prop :=
  (Spec.AbsFs.lookup ss sfn = none ∧ r = .err .NotFound) ∨
  ∃ j o, Spec.AbsFs.lookup ss sfn = some j ∧ view[j]? = some o ∧ ss[j]? = some (absSlot ft cont o) ∧ keep o = true ∧
    sName o = sfn ∧ r = .ok (Listing.decode ft o)

/-- **`lookup_is_abstract`.**  `s` satisfies the volume invariant and has the abstract counterpart `a`; `DirCtx`: `d` is an
open directory handle (record `dir`) of the open volume (slot `vi`), `name` parses to `sfn`.  Then:
* abstractly `d` is the open directory `absDir dir` (directory number `dirIdOf dir.cluster`) and `dirCtx` answers it with `sfn`;
* the lookup leaves the state `s` up to device bookkeeping and cache (`afterVol`): same medium, same tables, the invariant
  and the abstraction `a` still hold;
* its answer is `Answer`: the abstract lookup, slot for slot. -/
theorem lookup_is_abstract {s : Mgr} {gh : Ghost} {a : AState} (hI : VolInv s gh) (hA : Abs s gh a) {d : Nat}
    {name : List Nat} {dir : DirInfo} {vi : Nat} {sfn : Bytes} (hc : DirCtx s d name dir vi sfn) :
    Spec.AbsFs.dirCtx a d name = .ok (absDir dir, sfn) ∧ (absDir dir).dir = dirIdOf dir.cluster ∧
    dirIdOf dir.cluster ∈ dirIds gh.dirs ∧
    ∃ (vrec : VolInfo) (fs' : FS), s.vols = [vrec] ∧ vi = 0 ∧ vrec.vol = gh.vol ∧ vrec.rawVolume = dir.rawVolume ∧
      (lookup vi dir sfn s).2 = afterVol s vrec fs' ∧ (afterVol s vrec fs').dev.disk = s.dev.disk ∧
      VolInv (afterVol s vrec fs') gh ∧ Abs (afterVol s vrec fs') gh a ∧
      Answer gh.vol.fatType (contOf (afterVol s vrec fs') gh) (a.slots (dirIdOf dir.cluster))
        (DirView s gh (dirIdOf dir.cluster)) sfn (lookup vi dir sfn s).1 := by
  obtain ⟨⟨di, hidx, hdi⟩, hvfind, hs⟩ := hc
  obtain ⟨h0, vrec, hvs, hvol, hraw⟩ := vol_of_handle hI hvfind
  subst h0
  have hdim : dir ∈ s.dirs := List.mem_of_getElem? hdi
  obtain ⟨di', hdi', _, hdo⟩ := dirOf_some hA hidx
  rw [hdi] at hdi'; cases hdi'
  have hva : (s.vols.any fun x => decide (x.rawVolume = dir.rawVolume)) = true := by
    rw [hvs]; simp [hraw]
  rw [hva] at hdo
  have hdo' : Spec.AbsFs.dirOf a d = .ok (absDir dir) := hdo
  have hdv := hI.openDirs dir hdim
  have hM := medX_of_med hI.med
  obtain ⟨hid, _⟩ := validDir_id hM hdv
  have hne5 : sfn.head? ≠ some 0xE5 := Props.C03All.name_ok_all name sfn hs
  obtain ⟨r, fs', hlk, hdisk, _, h1, hcase⟩ := lookup_found hI hvs hvol hdv sfn hne5
  have hA1 : Abs (afterVol s vrec fs') gh a := abs_afterVol hA hvs fs' hdisk
  have hsl : a.slots (dirIdOf dir.cluster) = absSlots (afterVol s vrec fs') gh (dirIdOf dir.cluster) := hA1.slots _ hid
  have hview : DirView (afterVol s vrec fs') gh (dirIdOf dir.cluster) = DirView s gh (dirIdOf dir.cluster) := by
    unfold DirView
    rw [show (afterVol s vrec fs').dev.disk = s.dev.disk from hdisk]
  have hL : lookup 0 dir sfn s = (r, afterVol s vrec fs') := hlk
  refine ⟨dirCtx_ok hdo' hs, rfl, hid, vrec, fs', hvs, rfl, hvol, hraw, by rw [hL], hdisk, h1, hA1, ?_⟩
  rw [hL]
  rcases hcase with ⟨hr, hfresh⟩ | ⟨e, o, hr, hF⟩
  · left
    refine ⟨?_, hr⟩
    rw [hsl, absSlots_eq]
    exact fresh_lookup (s := afterVol s vrec fs')
      (by rw [show (afterVol s vrec fs').dev.disk = s.dev.disk from hdisk]; exact hfresh) _
  · right
    obtain ⟨j, hlkj, hoj, hkeep⟩ := found_index h1 hdv hF (contOf (afterVol s vrec fs') gh)
    refine ⟨j, o, ?_, by rw [← hview]; exact hoj, ?_, hkeep, hF.name, by rw [hr, hF.dec]⟩
    · rw [hsl, absSlots_eq]; exact hlkj
    · rw [hsl, absSlots_eq, List.getElem?_map, hoj]; rfl

/-- **`DirCtx` from the abstract side**: if abstractly `d` is an open directory handle of an open volume and `name` has the
8.3 form `sfn` (`Spec.AbsFs.dirCtx a d name = .ok (od, sfn)`), then concretely `DirCtx` holds — for the record `dir` the handle
search finds, the volume slot `0` — and `od` is that record read abstractly. -/
theorem dirCtx_concrete {s : Mgr} {gh : Ghost} {a : AState} (hI : VolInv s gh) (hA : Abs s gh a) {d : Nat} {name : List Nat}
    {od : Spec.AbsFs.OpenDir} {sfn : Bytes} (h : Spec.AbsFs.dirCtx a d name = .ok (od, sfn)) :
    ∃ dir, DirCtx s d name dir 0 sfn ∧ od = absDir dir := by
  unfold Spec.AbsFs.dirCtx at h
  cases hdo : Spec.AbsFs.dirOf a d with
  | error e => rw [hdo] at h; cases h
  | ok od' =>
    rw [hdo] at h
    simp only at h
    cases hs : Sfn.createFromStr name with
    | error e => rw [hs] at h; cases h
    | ok sfn' =>
      rw [hs] at h
      simp only at h
      injection h with h
      injection h with h1 h2
      subst h1; subst h2
      cases hidx : s.dirs.findIdx? (·.rawDirectory = d) with
      | none => rw [dirOf_none hA hidx] at hdo; cases hdo
      | some i =>
        obtain ⟨di, hdi, _, hdo'⟩ := dirOf_some hA hidx
        rw [hdo] at hdo'
        cases hva : (s.vols.any fun x => decide (x.rawVolume = di.rawVolume)) with
        | false => rw [hva] at hdo'; cases hdo'
        | true =>
          rw [hva] at hdo'
          obtain ⟨_, _, _, _, hvfind⟩ := volume_found hI hva
          have hod : od' = absDir di := by
            have : Except.ok od' = Except.ok (absDir di) := hdo'
            injection this
          exact ⟨di, ⟨⟨i, hidx, hdi⟩, hvfind, hs⟩, hod⟩

end Sdmmc.Lemmas.MainLookup
