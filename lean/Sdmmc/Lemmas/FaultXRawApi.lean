/-
C11, arbitrary fault placement — `EntryNotAhead` AS AN INVARIANT, part 4: the medium after each API call under ANY
schedule keeps `RawAllD` for the table of open files the call started with (`flushFile_disk`, `closeFile_disk`,
`closeVolume_disk`, `delete_disk`, `openFile_disk`, `mkdir_disk`, `write_disk`).
-/
import Sdmmc.Lemmas.FaultXRawCrash
import Sdmmc.Lemmas.FaultXCloseFile
import Sdmmc.Lemmas.FaultXMkdirApi

namespace Sdmmc.Lemmas.FaultX
open Sdmmc.Lemmas.FaultHist Sdmmc.Lemmas.VolX
open Sdmmc.Model Sdmmc.Model.Fat Sdmmc.Spec.Volume Sdmmc.Lemmas.VolBase Sdmmc.Lemmas.VolTree
open Sdmmc.Spec hiding NoFault Coherent
open Sdmmc.Lemmas.VolDisk Sdmmc.Lemmas.VolMed Sdmmc.Lemmas.VolApi Sdmmc.Lemmas.VolEng
open Sdmmc.Lemmas.FBasic (NoFault Coherent)
open Sdmmc.Lemmas.CrashBase Sdmmc.Lemmas.Retry Sdmmc.Lemmas.FaultPre Sdmmc.Lemmas.MHoare Sdmmc.Lemmas.FaultInv
open Sdmmc.Lemmas.Fault hiding resetLogs step_unlocked

variable {X : List (List Nat)} {s0 : Mgr} {gh : Ghost}

/-- `flush_file` under any schedule. -/
theorem flushFile_disk (hI : VolInvX X s0 gh) (hR : RawAllD gh.vol.fatType s0.dev.disk s0.files) (L : List Nat) (file : Nat) :
    RawAllD gh.vol.fatType (flushFile file (withFaults L s0)).2.dev.disk s0.files := by
  cases hidx : s0.files.findIdx? (·.rawFile = file) with
  | none =>
    have : flushFile file (withFaults L s0) = (.err .BadHandle, withFaults L s0) := by
      unfold flushFile
      rw [bind_err (getFileById_bad (s := withFaults L s0) hidx)]
    rw [this]; exact hR
  | some i =>
    obtain ⟨f, hf, _⟩ := findIdx?_some_get hidx
    have hfm : f ∈ s0.files := List.mem_of_getElem? hf
    cases hd : f.dirty with
    | false =>
      rw [DirMgr.flushFile_clean file i f (withFaults L s0) (getFileById_ok (s := withFaults L s0) hidx)
        (getFile_ok (s := withFaults L s0) hf) hd]
      exact hR
    | true =>
      obtain ⟨vi, hv, hvol, hrv, h3⟩ := vol_of_file hI hfm
      obtain ⟨_, ho, hname, hassert, _⟩ := VolX.file_slot_facts hI hfm
      obtain ⟨hn, hc, hM⟩ := volInv_fs hI
      have h3' : getVolumeById f.rawVolume (withFaults L s0) = (.ok 0, withFaults L s0) := by
        have : s0.vols.findIdx? (·.rawVolume = f.rawVolume) = some 0 := by rw [hv]; simp [hrv]
        exact getVolumeById_ok (s := withFaults L s0) this
      rw [DirMgr.flushFile_dirty file i 0 f (withFaults L s0) (getFileById_ok (s := withFaults L s0) hidx)
        (getFile_ok (s := withFaults L s0) hf) hd h3' hassert]
      exact withVol_transfer (flushF_pre f.entry) hv hvol hn L
        (Q := fun d => RawAllD gh.vol.fatType d s0.files) (flushF_raw hM hR hn hc hfm ho hname)

/-- `close_file` under any schedule: the medium is the one `flush_file` leaves. -/
theorem closeFile_disk_eq (file : Nat) (s : Mgr) : (closeFile file s).2.dev = (flushFile file s).2.dev := by
  unfold closeFile
  rw [attempt_bind]
  cases hidx : (flushFile file s).2.files.findIdx? (·.rawFile = file) with
  | none => rw [bind_err (getFileById_bad hidx)]
  | some i => rw [bind_ok (getFileById_ok hidx), modify_bind]; rfl

theorem closeFile_disk (hI : VolInvX X s0 gh) (hR : RawAllD gh.vol.fatType s0.dev.disk s0.files) (L : List Nat) (file : Nat) :
    RawAllD gh.vol.fatType (closeFile file (withFaults L s0)).2.dev.disk s0.files := by
  rw [closeFile_disk_eq]; exact flushFile_disk hI hR L file

/-- `close_volume` under any schedule. -/
theorem closeVolume_disk (hI : VolInvX X s0 gh) (hR : RawAllD gh.vol.fatType s0.dev.disk s0.files) (L : List Nat) (v : Nat) :
    RawAllD gh.vol.fatType (closeVolume v (withFaults L s0)).2.dev.disk s0.files := by
  obtain ⟨hn, hc, hM⟩ := volInv_fs hI
  unfold closeVolume
  rw [get_bind]
  split
  · exact hR
  split
  · exact hR
  cases hv : s0.vols.findIdx? (·.rawVolume = v) with
  | none =>
    rw [bind_err (getVolumeById_bad (s := withFaults L s0) hv)]
    exact hR
  | some volIdx =>
    obtain ⟨hz, vi, hvs, hvol, _⟩ := vol_of_handle hI hv
    subst hz
    rw [bind_ok (getVolumeById_ok (s := withFaults L s0) hv)]
    have hQ := withVol_transfer updateInfoSector_pre hvs hvol hn L
      (Q := fun d => RawAllD gh.vol.fatType d s0.files) (updateInfo_raw hM hR hn hc)
    rw [bind_def]
    rcases hw : withVol 0 updateInfoSector (withFaults L s0) with ⟨r, s1⟩
    rw [hw] at hQ
    cases r <;> exact hQ

/-- A read-only engine call on the open volume, under any schedule, leaves the medium alone. -/
theorem lookup_disk (hI : VolInvX X s0 gh) {vi : VolInfo} (hvs : s0.vols = [vi]) (hvol : vi.vol = gh.vol) (L : List Nat)
    (dc : Nat) (sfn : Bytes) {Q : Disk → Prop} (hQ : Q s0.dev.disk) :
    Q (withVol 0 (Fat.findDirectoryEntry dc sfn) (withFaults L s0)).2.dev.disk := by
  obtain ⟨hn, hc, hM⟩ := volInv_fs hI
  exact withVol_transfer (findDirectoryEntry_pre dc sfn) hvs hvol hn L
    (CrashAll.of_ro (DirMgr.findDirectoryEntry_readOnly dc sfn (fsOf s0 gh)) hQ)

/-- `delete_file_in_dir` under any schedule. -/
theorem delete_disk (hI : VolInvX X s0 gh) (hR : RawAllD gh.vol.fatType s0.dev.disk s0.files) (L : List Nat) (d : Nat)
    (name : List Nat) (hname : ∀ sfn, Sfn.createFromStr name = .ok sfn → sfn.head? ≠ some 0xE5) :
    RawAllD gh.vol.fatType (deleteFileInDir d name (withFaults L s0)).2.dev.disk s0.files := by
  have h0 : RawAllD gh.vol.fatType (withFaults L s0).dev.disk s0.files := hR
  unfold deleteFileInDir
  cases hidx : s0.dirs.findIdx? (·.rawDirectory = d) with
  | none => rw [bind_err (getDirById_bad (s := withFaults L s0) hidx)]; exact h0
  | some i =>
    obtain ⟨di, hdi, _⟩ := findIdx?_some_get hidx
    have hdim : di ∈ s0.dirs := List.mem_of_getElem? hdi
    rw [bind_ok (getDirById_ok (s := withFaults L s0) hidx), bind_ok (getDir_ok (s := withFaults L s0) hdi)]
    cases hv : s0.vols.findIdx? (·.rawVolume = di.rawVolume) with
    | none => rw [bind_err (getVolumeById_bad (s := withFaults L s0) hv)]; exact h0
    | some volIdx =>
      obtain ⟨hz, vi, hvs, hvol, hraw⟩ := VolX.vol_of_handle hI hv
      subst hz
      rw [bind_ok (getVolumeById_ok (s := withFaults L s0) hv)]
      cases hs : Sfn.createFromStr name with
      | error e => rw [bind_err (Modes.toSfn_err hs _)]; exact h0
      | ok sfn =>
        rw [bind_ok (Modes.toSfn_ok hs _)]
        have hdv := hI.openDirs di hdim
        obtain ⟨hn, hc, hM⟩ := VolX.volInv_fs hI
        obtain ⟨r, fs', hlk, hdisk, hvol', h1, hcase⟩ := VolX.lookup_found hI hvs hvol hdv sfn (hname sfn hs)
        have hinvL := lookup_disk hI hvs hvol L di.cluster sfn (Q := fun dk => RawAllD gh.vol.fatType dk s0.files) hR
        obtain ⟨_, _, _, hdich⟩ := withVol_faulted (findDirectoryEntry_pre di.cluster sfn)
          (Fault.findDirectoryEntry_inv di.cluster sfn) hn hvs hvol L
        rcases hdich with hq | he
        swap
        · rcases hrun : withVol 0 (Fat.findDirectoryEntry di.cluster sfn) (withFaults L s0) with ⟨r', s'⟩
          rw [hrun] at he hinvL
          simp only at he
          subst he
          rw [bind_err hrun]
          exact hinvL
        rw [hlk] at hq
        set s1 := afterVol s0 vi fs' with hs1
        have hvs1 : s1.vols = [{ vi with vol := fs'.vol }] := rfl
        have hR1 : RawAllD gh.vol.fatType s1.dev.disk s1.files := by rw [hdisk]; exact hR
        have h01 : RawAllD gh.vol.fatType (withFaults L s1).dev.disk s0.files := hR1
        rcases hcase with ⟨hr, _⟩ | ⟨e, o, hr, hF⟩
        · subst hr
          rw [bind_err hq]
          exact h01
        · subst hr
          rw [bind_ok hq]
          obtain ⟨hen, hea, hes, heb, heo, hnd⟩ := hF.fields
          by_cases hde : Attr.isDirectory e.attributes = true
          · rw [if_pos hde]; exact h01
          rw [if_neg hde, get_bind]
          have hdir' : Attr.isDirectory e.attributes = false := by simpa using hde
          by_cases hopen : fileIsOpen (withFaults L s1) di.rawVolume e = true
          · rw [if_pos hopen]; exact h01
          rw [if_neg hopen]
          have hopen' : fileIsOpen s1 di.rawVolume e = false := by
            have : fileIsOpen (withFaults L s1) di.rawVolume e = fileIsOpen s1 di.rawVolume e := rfl
            rw [← this]; simpa using hopen
          have hraw1 : ({ vi with vol := fs'.vol } : VolInfo).rawVolume = di.rawVolume := hraw
          obtain ⟨hobj, _, hfree⟩ := VolX.Found_object h1 hvs1 hdv hraw1 hF hdir' hopen'
          obtain ⟨hde', hcl⟩ := hnd hdir'
          have hv1 : s1.vols.findIdx? (·.rawVolume = di.rawVolume) = some 0 := by rw [hvs1]; simp [hraw]
          rw [bind_ok (getVolumeById_ok (s := withFaults L s1) hv1)]
          obtain ⟨hn1, hc1, hM1⟩ := VolX.volInv_fs h1
          have hpre : Pre (do Fat.deleteDirectoryEntry di.cluster sfn; Fat.freeClusterChain e.cluster : F Unit) :=
            Pre.bind (deleteDirectoryEntry_pre _ _) fun _ => freeClusterChain_pre _
          have hcl' : e.cluster = sCluster (fsOf s1 gh).vol.fatType o := hcl
          have hcr := deleteBody_raw hM1 hR1 hn1 hc1 hdv sfn (hname sfn hs) hobj hde' hF.name hfree
          rw [← hcl'] at hcr
          exact withVol_transfer hpre hvs1 hvol' hn1 L hcr

/-- The creating branch of `open_file_in_dir` under any schedule. -/
theorem createRun_disk {s : Mgr} (hI : VolInvX X s gh) (hR : RawAllD gh.vol.fatType s.dev.disk s.files) {vi : VolInfo}
    (hvs : s.vols = [vi]) (hvol : vi.vol = gh.vol) {d : DirInfo} (hdv : ValidDir gh.dirs d.cluster)
    (hraw : vi.rawVolume = d.rawVolume) (sfn : Bytes) (hlen : sfn.length = 11) (now : Timestamp) (L : List Nat) :
    RawAllD gh.vol.fatType (Modes.createRun d sfn now (withFaults L s)).2.dev.disk s.files := by
  have hv0 : s.vols.findIdx? (·.rawVolume = d.rawVolume) = some 0 := by rw [hvs]; simp [hraw]
  obtain ⟨hn, hc, hM⟩ := VolX.volInv_fs hI
  have hQ := withVol_transfer (writeNewDirectoryEntry_pre d.cluster sfn 0 Gen.CLUSTER_EMPTY now) hvs hvol hn L
    (Q := fun dk => RawAllD gh.vol.fatType dk s.files) (writeNew_raw hM hR hn hc hdv sfn hlen 0 Gen.CLUSTER_EMPTY now)
  unfold Modes.createRun
  rw [bind_ok (getVolumeById_ok (s := withFaults L s) hv0)]
  rcases hr : withVol 0 (Fat.writeNewDirectoryEntry d.cluster sfn 0 Gen.CLUSTER_EMPTY now) (withFaults L s) with ⟨r, s2⟩
  rw [hr] at hQ
  cases r with
  | ok e => rw [bind_ok hr, generate_bind, modify_bind]; exact hQ
  | err e => rw [bind_err hr]; exact hQ
  | panic m => rw [bind_panic hr]; exact hQ
  | diverged => rw [bind_diverged hr]; exact hQ

/-- `open_file_in_dir` in a non-truncating mode, under any schedule. -/
theorem openFile_disk (hI : VolInvX X s0 gh) (hR : RawAllD gh.vol.fatType s0.dev.disk s0.files) (L : List Nat) (directory : Nat)
    (name : List Nat) (mode : Mode) (hmode : nonTruncating mode = true)
    (hname : ∀ sfn, Sfn.createFromStr name = .ok sfn → sfn.head? ≠ some 0xE5) :
    RawAllD gh.vol.fatType (openFileInDir directory name mode (withFaults L s0)).2.dev.disk s0.files := by
  have h0 : RawAllD gh.vol.fatType (withFaults L s0).dev.disk s0.files := hR
  rw [Modes.openFileInDir_eq]
  unfold Modes.openFileInDirAlt
  rw [get_bind]
  by_cases hroom : (withFaults L s0).files.length ≥ (withFaults L s0).maxFiles
  · rw [if_pos hroom]; exact h0
  rw [if_neg hroom]
  cases hidx : s0.dirs.findIdx? (·.rawDirectory = directory) with
  | none => rw [bind_err (getDirById_bad (s := withFaults L s0) hidx)]; exact h0
  | some i =>
    obtain ⟨d, hdi, _⟩ := findIdx?_some_get hidx
    have hdm : d ∈ s0.dirs := List.mem_of_getElem? hdi
    rw [bind_ok (getDirById_ok (s := withFaults L s0) hidx), bind_ok (getDir_ok (s := withFaults L s0) hdi)]
    cases hv : s0.vols.findIdx? (·.rawVolume = d.rawVolume) with
    | none => rw [bind_err (getVolumeById_bad (s := withFaults L s0) hv)]; exact h0
    | some volIdx =>
      obtain ⟨hz, vi, hvs, hvol, hraw⟩ := VolX.vol_of_handle hI hv
      subst hz
      rw [bind_ok (getVolumeById_ok (s := withFaults L s0) hv)]
      cases hs : Sfn.createFromStr name with
      | error e => rw [bind_err (Modes.toSfn_err hs _)]; exact h0
      | ok sfn =>
        rw [bind_ok (Modes.toSfn_ok hs _), attempt_bind]
        have hdv := hI.openDirs d hdm
        obtain ⟨hn, hc, hM⟩ := VolX.volInv_fs hI
        obtain ⟨r, fs', hlk, hdisk, hvol', h1, hcase⟩ := VolX.lookup_found hI hvs hvol hdv sfn (hname sfn hs)
        have hinvL := lookup_disk hI hvs hvol L d.cluster sfn (Q := fun dk => RawAllD gh.vol.fatType dk s0.files) hR
        obtain ⟨_, _, _, hdich⟩ := withVol_faulted (findDirectoryEntry_pre d.cluster sfn)
          (Fault.findDirectoryEntry_inv d.cluster sfn) hn hvs hvol L
        rcases hdich with hq | he
        swap
        · rcases hrun : withVol 0 (Fat.findDirectoryEntry d.cluster sfn) (withFaults L s0) with ⟨r', s'⟩
          rw [hrun] at he hinvL
          simp only at he
          subst he
          show RawAllD gh.vol.fatType (Modes.openFileTail d 0 sfn mode (.err .DeviceError) s').2.dev.disk s0.files
          rw [Modes.tail_err d 0 sfn s' mode .DeviceError (by intro h; cases h)]
          exact hinvL
        rw [hlk] at hq
        rw [hq]
        set s1 := afterVol s0 vi fs' with hs1
        show RawAllD gh.vol.fatType (Modes.openFileTail d 0 sfn mode r (withFaults L s1)).2.dev.disk s0.files
        have hvs1 : s1.vols = [{ vi with vol := fs'.vol }] := rfl
        have hraw1 : ({ vi with vol := fs'.vol } : VolInfo).rawVolume = d.rawVolume := hraw
        have hR1 : RawAllD gh.vol.fatType s1.dev.disk s1.files := by rw [hdisk]; exact hR
        have h01 : RawAllD gh.vol.fatType (withFaults L s1).dev.disk s0.files := hR1
        rcases hcase with ⟨hr, hfresh⟩ | ⟨e, o, hr, hF⟩
        · subst hr
          by_cases hm : mode = .ReadWriteCreate ∨ mode = .ReadWriteCreateOrTruncate ∨ mode = .ReadWriteCreateOrAppend
          · rw [Modes.tail_create_eq d 0 sfn _ mode hm]
            obtain ⟨hlen, hz⟩ := VolSfn.sfn_facts hs
            exact createRun_disk h1 hR1 hvs1 hvol' hdv hraw1 sfn hlen _ L
          · have hm' : mode = .ReadOnly ∨ mode = .ReadWriteAppend ∨ mode = .ReadWriteTruncate := by
              cases mode <;> simp at hm ⊢
            rw [Modes.tail_notFound d 0 sfn _ mode hm']
            exact h01
        · subst hr
          have hfo : fileIsOpen (withFaults L s1) d.rawVolume e = fileIsOpen s1 d.rawVolume e := rfl
          by_cases hopen : fileIsOpen s1 d.rawVolume e = true
          · rw [Modes.tail_open d 0 sfn _ mode e (by rw [hfo]; exact hopen)]; exact h01
          have hopen' : fileIsOpen s1 d.rawVolume e = false := by simpa using hopen
          have hopenF : fileIsOpen (withFaults L s1) d.rawVolume e = false := by rw [hfo]; exact hopen'
          by_cases hcreate : mode = .ReadWriteCreate
          · subst hcreate
            rw [Modes.tail_exists d 0 sfn _ e hopenF]; exact h01
          by_cases hro : Attr.isReadOnly e.attributes = true ∧ mode ≠ .ReadOnly
          · rw [Modes.tail_readOnlyAttr d 0 sfn _ mode e hopenF hcreate hro.2 hro.1]; exact h01
          have hro' : Attr.isReadOnly e.attributes = false ∨ mode = .ReadOnly := by
            by_cases h : mode = .ReadOnly
            · exact .inr h
            · left
              by_cases h2 : Attr.isReadOnly e.attributes = true
              · exact absurd ⟨h2, h⟩ hro
              · simpa using h2
          by_cases hdir : Attr.isDirectory e.attributes = true
          · rw [Modes.tail_dirAsFile d 0 sfn _ mode e hopenF hcreate hro' hdir]; exact h01
          have hdir' : Attr.isDirectory e.attributes = false := by simpa using hdir
          cases mode with
          | ReadOnly =>
            rw [Modes.tail_readOnly d 0 sfn _ e hopenF hdir']
            exact h01
          | ReadWriteCreate => exact absurd rfl hcreate
          | ReadWriteAppend =>
            have hron : Attr.isReadOnly e.attributes = false := hro'.elim id (fun h => by cases h)
            rw [Modes.tail_append d 0 sfn _ .ReadWriteAppend e (.inl rfl) hopenF hron hdir']
            exact h01
          | ReadWriteCreateOrAppend =>
            have hron : Attr.isReadOnly e.attributes = false := hro'.elim id (fun h => by cases h)
            rw [Modes.tail_append d 0 sfn _ .ReadWriteCreateOrAppend e (.inr rfl) hopenF hron hdir']
            exact h01
          | ReadWriteTruncate => cases hmode
          | ReadWriteCreateOrTruncate => cases hmode

end Sdmmc.Lemmas.FaultX
