/-
C11, arbitrary fault placement — blocks keep their size under any schedule: the pass `Len` of `Lemmas/FaultInvLen`
for the remaining engine functions (`truncate_cluster_chain`, `free_cluster_chain`, `delete_directory_entry`,
`write_entry_to_disk`, `update_info_sector`, the write of a data block).
-/
import Sdmmc.Lemmas.FaultInvLen

namespace Sdmmc.Lemmas.FaultX
open Sdmmc.Model Sdmmc.Model.Fat
open Sdmmc.Spec hiding NoFault Coherent
open Sdmmc.Lemmas.FaultPre Sdmmc.Lemmas.Fault Sdmmc.Lemmas.FaultInv

theorem truncateLoop_len (fuel next : Nat) : Len (truncateLoop fuel next) := by
  have := nextCluster_len
  have := updateFat_len
  induction fuel generalizing next with
  | zero => unfold truncateLoop; len_auto
  | succ n ih => unfold truncateLoop; len_auto

theorem truncateClusterChain_len (c : Nat) : Len (truncateClusterChain c) := by
  have := nextCluster_len
  have := updateFat_len
  have := truncateLoop_len
  unfold truncateClusterChain; len_auto

theorem freeClusterChain_len (c : Nat) : Len (freeClusterChain c) := by
  have := truncateClusterChain_len
  have := updateFat_len
  unfold freeClusterChain; len_auto

theorem set_len (off : Nat) (x : UInt8) : Len (cacheModify fun b => b.set off x) :=
  Len.cacheModify _ fun blk h => by rw [List.length_set]; exact h

theorem deleteBlocks_len (name : Bytes) (n b : Nat) : Len (deleteBlocks name n b) := by
  have := set_len
  induction n generalizing b with
  | zero => unfold deleteBlocks; len_auto
  | succ n ih => unfold deleteBlocks; len_auto

theorem deleteWalk_len (name : Bytes) (fuel : Nat) (w : DirWalk) : Len (deleteWalk name fuel w) := by
  have := nextCluster_len
  have := deleteBlocks_len
  induction fuel generalizing w with
  | zero => unfold deleteWalk; len_auto
  | succ n ih => unfold deleteWalk; len_auto

theorem deleteDirectoryEntry_len (d : Nat) (name : Bytes) : Len (deleteDirectoryEntry d name) := by
  have := deleteWalk_len
  unfold deleteDirectoryEntry; len_auto

theorem findBlocks_len (name : Bytes) (n b : Nat) : Len (findBlocks name n b) := by
  induction n generalizing b with
  | zero => unfold findBlocks; len_auto
  | succ n ih => unfold findBlocks; len_auto

theorem findWalk_len (name : Bytes) (fuel : Nat) (w : DirWalk) : Len (findWalk name fuel w) := by
  have := nextCluster_len
  have := findBlocks_len
  induction fuel generalizing w with
  | zero => unfold findWalk; len_auto
  | succ n ih => unfold findWalk; len_auto

theorem findDirectoryEntry_len (d : Nat) (name : Bytes) : Len (Fat.findDirectoryEntry d name) := by
  have := findWalk_len
  unfold Fat.findDirectoryEntry; len_auto

end Sdmmc.Lemmas.FaultX
