/-
C04 over whole calls, `delete_file_in_dir` (engine level): the directory walk of
`delete_directory_entry` follows the walk of `find_directory_entry` step by step, so the one byte it
sets to `0xE5` is the first byte of the very slot the lookup returned; then the chain is freed.
-/
import Sdmmc.Lemmas.WriteSetFat
import Sdmmc.Lemmas.CrashDelete
import Sdmmc.Lemmas.DirMgr
import Sdmmc.Lemmas.Listing

namespace Sdmmc.Lemmas.WriteSet
open Sdmmc.Model Sdmmc.Model.Fat Sdmmc.Spec
open Sdmmc.Lemmas.FBasic hiding NoFault Coherent
open Sdmmc.Lemmas.FatOps hiding BlocksOK Mirror HintOK
open Sdmmc.Lemmas.ChainL Sdmmc.Lemmas.ForestBase Sdmmc.Lemmas.ForestTrunc
open Sdmmc.Lemmas.DirOps (afterMark deleteBlocks_succ deleteInSlots_mem mem_slotsOf)
open Sdmmc.Lemmas.CrashDelete (MarkedDeleted)

/-! ### Lookup and deletion scan a block alike -/

theorem getEntry_pos (ft : FatType) (d : Bytes) (b off : Nat) :
    (OnDisk.getEntry ft d b off).entryBlock = b ∧ (OnDisk.getEntry ft d b off).entryOffset = off := ⟨rfl, rfl⟩

/-- On the slots of one block `find_entry_in_block` and `delete_entry_in_block` stop at the same slot. -/
theorem find_delete_slots (ft : FatType) (b : Nat) (name : Bytes) : ∀ ss : List (Nat × Bytes),
    (findInSlots ft b name ss = none ∧ deleteInSlots name ss = none) ∨
    ∃ e, findInSlots ft b name ss = some e ∧ deleteInSlots name ss = some e.entryOffset ∧ e.entryBlock = b ∧
      ∃ d, (e.entryOffset, d) ∈ ss ∧ e.name = d.take 11
  | [] => .inl ⟨rfl, rfl⟩
  | (off, d) :: rest => by
    rw [findInSlots, deleteInSlots]
    by_cases h1 : OnDisk.isEnd d = true
    · rw [if_pos h1, if_pos h1]; exact .inl ⟨rfl, rfl⟩
    · rw [if_neg h1, if_neg h1]
      by_cases h2 : OnDisk.matches d name = true
      · rw [if_pos h2, if_pos h2]
        exact .inr ⟨_, rfl, rfl, rfl, d, List.mem_cons_self, rfl⟩
      · rw [if_neg h2, if_neg h2]
        rcases find_delete_slots ft b name rest with h | ⟨e, h1, h2, h3, d', h4, h5⟩
        · exact .inl h
        · exact .inr ⟨e, h1, h2, h3, d', List.mem_cons_of_mem _ h4, h5⟩

theorem findBlocks_succ (name : Bytes) (n b : Nat) (s : FS) (hn : NoFault s) (hc : Coherent s) :
    findBlocks name (n + 1) b s =
      match findInSlots s.vol.fatType b name (slotsOf (s.dev.disk.get b)) with
      | some e => (.ok (some e), afterRead b s)
      | none => findBlocks name n (b + 1) (afterRead b s) := by
  rw [findBlocks]
  simp only [bind_apply, getVol_apply, cacheRead_eq' _ _ hn hc, cacheBlk_apply, afterRead_blk]
  cases findInSlots s.vol.fatType b name (slotsOf (s.dev.disk.get b)) with
  | none => rfl
  | some e => rfl

theorem markedDeleted_here (name : Bytes) (b off : Nat) (s : FS) (hn : NoFault s)
    (hf : deleteInSlots name (slotsOf (s.dev.disk.get b)) = some off) :
    ∃ s', (writeBack >>= fun _ => (pure true : F Bool)) (afterMark b off s) = (.ok true, s') ∧ MarkedDeleted name s s' b off := by
  have hn1 : NoFault (afterMark b off s) := hn
  rw [bind_apply, writeBack_eq _ b hn1 rfl]
  refine ⟨_, rfl, hf, rfl, rfl, rfl, hn, ?_⟩
  intro i hi
  have : b = i := Option.some.inj hi
  subst this
  exact (Disk.get_set_self _ _ _).symm

/-- The name field of `e` is the first eleven bytes of the slot of `e` on the medium. -/
def NameAt (s : FS) (e : DirEntry) : Prop :=
  e.name = (slice (s.dev.disk.get e.entryBlock) e.entryOffset 32).take 11

theorem NameAt.of_ro {s s2 : FS} {e : DirEntry} (ro : RO s s2) (h : NameAt s2 e) : NameAt s e := by
  unfold NameAt at *; rw [← ro.disk]; exact h

/-- The block scans of lookup and deletion: both find nothing and leave the same state, or the
deletion marks the slot the lookup returned. -/
theorem deleteBlocks_of_find (name : Bytes) : ∀ (n b : Nat) (s : FS), NoFault s → Coherent s →
    ∀ (r : Res (Option DirEntry)) (s1 : FS), findBlocks name n b s = (r, s1) →
      (r = .ok none ∧ deleteBlocks name n b s = (.ok false, s1)) ∨
      (∃ e s', r = .ok (some e) ∧ deleteBlocks name n b s = (.ok true, s') ∧
        MarkedDeleted name s s' e.entryBlock e.entryOffset ∧ NameAt s e)
  | 0, b, s, _, _, r, s1, h => by
    have : findBlocks name 0 b s = (.ok none, s) := rfl
    rw [this] at h
    cases h
    exact .inl ⟨rfl, rfl⟩
  | n + 1, b, s, hn, hc, r, s1, h => by
    rw [findBlocks_succ name n b s hn hc] at h
    rw [deleteBlocks_succ name n b s hn hc]
    rcases find_delete_slots s.vol.fatType b name (slotsOf (s.dev.disk.get b)) with ⟨h1, h2⟩ | ⟨e, h1, h2, h3, d, h4, h5⟩
    · rw [h1] at h
      rw [h2]
      rcases deleteBlocks_of_find name n (b + 1) (afterRead b s) (afterRead_noFault _ s hn) (afterRead_coherent _ s) r s1 h with
        h' | ⟨e, s', hr, hd, hm, hna⟩
      · exact .inl h'
      · exact .inr ⟨e, s', hr, hd, MarkedDeleted.of_ro (ro_afterRead b s) hm, hna.of_ro (ro_afterRead b s)⟩
    · rw [h1] at h
      rw [h2]
      simp only at h ⊢
      obtain ⟨s', hw, hm⟩ := markedDeleted_here name b e.entryOffset s hn h2
      refine .inr ⟨e, s', (congrArg Prod.fst h).symm, hw, by rw [h3]; exact hm, ?_⟩
      obtain ⟨_, _, g3⟩ := mem_slotsOf _ _ d h4
      unfold NameAt
      rw [h5, g3, h3]

/-- The walks of lookup and deletion: when the lookup returns `e`, the deletion succeeds and marks the
slot of `e`. -/
theorem deleteWalk_of_find (name : Bytes) : ∀ (fuel : Nat) (w : DirWalk) (s s1 : FS) (e : DirEntry), NoFault s → Coherent s →
    findWalk name fuel w s = (.ok e, s1) →
    ∃ s', deleteWalk name fuel w s = (.ok (), s') ∧ MarkedDeleted name s s' e.entryBlock e.entryOffset ∧ NameAt s e := by
  intro fuel
  induction fuel with
  | zero => intro w s s1 e _ _ h; cases h
  | succ fuel ih =>
    intro w s s1 e hn hc h
    rw [findWalk] at h
    rw [deleteWalk]
    simp only [bind_apply, getVol_apply] at h ⊢
    rcases hfb : findBlocks name w.dirSize w.firstBlock s with ⟨r, s2⟩
    rw [hfb] at h
    have ro1 : RO s s2 := by have := DirMgr.findBlocks_readOnly name w.dirSize w.firstBlock s; rw [hfb] at this; exact this
    rcases deleteBlocks_of_find name w.dirSize w.firstBlock s hn hc r s2 hfb with ⟨hr, hd⟩ | ⟨e', s', hr, hd, hm, hna⟩
    · subst hr
      rw [hd]
      simp only [Bool.false_eq_true, if_false] at h ⊢
      by_cases hfr : w.fixedRoot = true
      · rw [if_pos hfr] at h; cases h
      · rw [if_neg hfr] at h ⊢
        simp only [bind_apply, attempt_apply] at h ⊢
        have ro2 := nextCluster_readOnly w.cluster s2
        rcases hnc : nextCluster w.cluster s2 with ⟨r2, s3⟩
        rw [hnc] at h ro2
        have ro2' : RO s2 s3 := ro2
        cases r2 with
        | ok n =>
          simp only at h ⊢
          obtain ⟨s', hrun, hm, hna⟩ := ih _ s3 s1 e ((ro1.trans ro2').noFault hn) ((ro1.trans ro2').coherent hc) h
          exact ⟨s', hrun, MarkedDeleted.of_ro (ro1.trans ro2') hm, hna.of_ro (ro1.trans ro2')⟩
        | err x => cases x <;> cases h
        | panic m => cases h
        | diverged => cases h
    · subst hr
      rw [hd]
      simp only [if_true] at h ⊢
      have : e' = e := by
        have := congrArg Prod.fst h
        simpa using this
      subst this
      exact ⟨s', rfl, hm, hna⟩

/-- **`delete_directory_entry` after `find_directory_entry`**: when the lookup of `name` in the directory
returns `e`, the deletion succeeds with one device write — the first byte of the slot of `e`. -/
theorem deleteEntry_of_find (dc : Nat) (name : Bytes) (s s1 : FS) (e : DirEntry) (hn : NoFault s) (hc : Coherent s)
    (h : Fat.findDirectoryEntry dc name s = (.ok e, s1)) :
    ∃ s', deleteDirectoryEntry dc name s = (.ok (), s') ∧ MarkedDeleted name s s' e.entryBlock e.entryOffset ∧ NameAt s e := by
  unfold Fat.findDirectoryEntry at h
  unfold deleteDirectoryEntry
  rw [bind_apply, getVol_apply] at h ⊢
  exact deleteWalk_of_find name _ _ s s1 e hn hc h

/-- **The entry a lookup returns sits in a slot**: its offset is a multiple of 32 below 512 and its name
field has 11 bytes. -/
theorem found_entry_shape (dc : Nat) (name : Bytes) (s s1 : FS) (e : DirEntry) (hn : NoFault s) (hc : Coherent s)
    (hb : BlocksOK s.dev.disk) (h : Fat.findDirectoryEntry dc name s = (.ok e, s1)) :
    e.entryOffset + 32 ≤ 512 ∧ e.entryOffset % 32 = 0 ∧ e.name.length = 11 := by
  obtain ⟨s2, _, hm, hna⟩ := deleteEntry_of_find dc name s s1 e hn hc h
  obtain ⟨d, hmem, _⟩ := deleteInSlots_mem name _ _ hm.slot
  obtain ⟨g1, g2, _⟩ := mem_slotsOf _ _ d hmem
  refine ⟨by omega, g2, ?_⟩
  rw [hna, List.length_take, Files.slice_length _ _ _ (by rw [hb]; omega)]
  rfl

/-! ### The licence of the mark -/

/-- The deleted-mark on a sound state, the slot licensed and in a directory block. -/
theorem markedDeleted_lic (name : Bytes) (s s' : FS) (b off : Nat) (hs : Sound s) (hm : MarkedDeleted name s s' b off)
    (hreg : regionOf s.vol b = .root ∨ regionOf s.vol b = .data) (L : Licence) (hL : (b, off) ∈ L.slots) :
    Sound s' ∧ s'.vol = s.vol ∧ LicD s.vol L s.dev s'.dev ∧ off < 512 ∧ off % 32 = 0 := by
  obtain ⟨d, hmem, _⟩ := deleteInSlots_mem name _ off hm.slot
  obtain ⟨g1, g2, _⟩ := mem_slotsOf _ off d hmem
  have hlen : ((s.dev.disk.get b).set off (UInt8.ofNat 0xE5)).length = 512 := by rw [List.length_set]; exact hs.blocksOK b
  refine ⟨⟨⟨hm.noFault, hm.coherent, ?_, by rw [hm.vol]; exact hs.geom, by rw [hm.vol]; exact hs.hint⟩, ?_⟩, hm.vol, ?_, g1, g2⟩
  · rw [hm.disk]; exact blocksOK_set _ _ _ hs.blocksOK hlen
  · rw [hm.vol, hm.disk]
    exact mirror_set s.vol hs.geom _ _ _ (by rcases hreg with h | h <;> rw [h] <;> intro e <;> cases e) hs.mirror
  · refine LicD.one (b, _) hm.wlog hm.disk (.inr (.inr (.inl ⟨hreg, hlen, ⟨off, hL⟩, fun i hi => ?_⟩)))
    show ((s.dev.disk.get b).set off (UInt8.ofNat 0xE5)).getD i 0 = _
    have hne : off ≠ i := by
      intro e
      exact hi ⟨off, hL, by omega, by omega⟩
    simp only [List.getD_eq_getElem?_getD, List.getElem?_set_ne hne]

/-! ### The body of `delete_file_in_dir` -/

/-- What `delete_file_in_dir` may change when the lookup returned `e` and the file's chain is `cs`: the
slot of `e` and the FAT entries of `cs`. -/
def deleteLicence (e : DirEntry) (cs : List Nat) : Licence :=
  { fatClusters := cs, slots := [(e.entryBlock, e.entryOffset)] }

/-- **`delete_directory_entry; free_cluster_chain`** on a sound state, after a lookup that returned `e`,
the slot of `e` in a directory block, the file's chain `cs` (none for a file without clusters). -/
theorem deleteBody_lic (dc : Nat) (name : Bytes) (s s1 : FS) (e : DirEntry) (cs : List Nat) (hs : Sound s)
    (hfind : Fat.findDirectoryEntry dc name s = (.ok e, s1))
    (hreg : regionOf s.vol e.entryBlock = .root ∨ regionOf s.vol e.entryBlock = .data)
    (hch : (e.cluster < 2 ∧ cs = []) ∨ Chain s.vol s.dev.disk e.cluster cs) :
    ∃ s', (deleteDirectoryEntry dc name >>= fun _ => freeClusterChain e.cluster) s = (.ok (), s') ∧ Sound s' ∧
      SameGeom s.vol s'.vol ∧ LicD s.vol (deleteLicence e cs) s.dev s'.dev ∧
      s'.dev.disk.get e.entryBlock = (s.dev.disk.get e.entryBlock).set e.entryOffset (UInt8.ofNat 0xE5) := by
  obtain ⟨s2, hdel, hm, _⟩ := deleteEntry_of_find dc name s s1 e hs.noFault hs.coherent hfind
  obtain ⟨hs2, hv2, hl2, _, _⟩ := markedDeleted_lic name s s2 e.entryBlock e.entryOffset hs hm hreg (deleteLicence e cs)
    (List.mem_singleton.2 rfl)
  have hnf : regionOf s.vol e.entryBlock ≠ .fat := by rcases hreg with h | h <;> rw [h] <;> intro x <;> cases x
  have hblk2 : s2.dev.disk.get e.entryBlock = (s.dev.disk.get e.entryBlock).set e.entryOffset (UInt8.ofNat 0xE5) := by
    rw [hm.disk, Disk.get_set_self]
  rcases hch with ⟨hlt, _⟩ | hch
  · refine ⟨s2, ?_, hs2, SameGeom.of_eq hv2, hl2, hblk2⟩
    rw [bind_ok hdel]
    unfold freeClusterChain
    have : e.cluster < Gen.RESERVED_ENTRIES := hlt
    simp only [ite_apply, if_pos this, pure_apply]
  · obtain ⟨tail, rfl⟩ : ∃ tail, cs = e.cluster :: tail := by
      cases cs with
      | nil => exact absurd rfl (chain_ne_nil hch)
      | cons a t => have := chain_head_eq hch; simp only [List.headD_cons] at this; exact ⟨t, by rw [this]⟩
    have hch2 : Chain s2.vol s2.dev.disk e.cluster (e.cluster :: tail) := by
      rw [hv2]
      refine chain_congr hch fun x hx => ?_
      rw [hm.disk, Disk.get_set_ne]
      intro heq
      have := (FatLens.fat_blocks_in_fat_region s.vol hs.geom x (chain_inRange hch x hx).2).1
      rw [← heq] at this
      exact hnf this
    obtain ⟨s3, hfree, hs3, hg3, hl3⟩ := free_lic s2 e.cluster tail hs2 hch2 (deleteLicence e (e.cluster :: tail)) (fun y hy => hy)
    obtain ⟨s3', hfree', _, _, _, _, _, hfr⟩ := free_spec s2 e.cluster tail hs2.noFault hs2.coherent hs2.blocksOK hs2.geom hch2
    rw [hfree] at hfree'
    have e3 : s3 = s3' := congrArg Prod.snd hfree'
    subst e3
    refine ⟨s3, ?_, hs3, (SameGeom.of_eq hv2).trans hg3, hl2.trans (by rw [hv2] at hl3; exact hl3), ?_⟩
    · rw [bind_ok hdel]; exact hfree
    · rw [← hblk2]
      exact hfr.nonFat _ (by rw [hv2]; exact hnf)

/-! ### The lookup reads the medium only -/

/-- On fault-free coherent states with the same medium and volume record the lookup walk answers the same. -/
theorem findWalk_congr (name : Bytes) : ∀ (fuel : Nat) (w : DirWalk) (s t : FS), NoFault s → Coherent s → NoFault t → Coherent t →
    t.vol = s.vol → t.dev.disk = s.dev.disk → (findWalk name fuel w t).1 = (findWalk name fuel w s).1 := by
  intro fuel
  induction fuel with
  | zero => intro w s t _ _ _ _ _ _; rfl
  | succ fuel ih =>
    intro w s t hns hcs hnt hct hv hd
    obtain ⟨s1, hs1, hds, _, hvs, hns1, hcs1⟩ := Listing.find_blocks_spec name w.dirSize w.firstBlock s hns hcs
    obtain ⟨t1, ht1, hdt, _, hvt, hnt1, hct1⟩ := Listing.find_blocks_spec name w.dirSize w.firstBlock t hnt hct
    rw [hv, hd] at ht1
    rw [findWalk]
    simp only [bind_apply, getVol_apply, hs1, ht1]
    cases Listing.lookupBlocks s.vol.fatType s.dev.disk name w.firstBlock w.dirSize with
    | some e => rfl
    | none =>
      simp only
      by_cases hfr : w.fixedRoot = true
      · rw [if_pos hfr, if_pos hfr]; rfl
      · rw [if_neg hfr, if_neg hfr]
        simp only [bind_apply, attempt_apply]
        obtain ⟨s2, hs2, hds2, _, hvs2, hns2, hcs2⟩ := Listing.nextCluster_spec w.cluster s1 hns1 hcs1
        obtain ⟨t2, ht2, hdt2, _, hvt2, hnt2, hct2⟩ := Listing.nextCluster_spec w.cluster t1 hnt1 hct1
        have hv1 : t1.vol = s1.vol := by rw [hvt, hvs, hv]
        have hd1 : t1.dev.disk = s1.dev.disk := by rw [hdt, hds, hd]
        rw [hv1, hd1] at ht2
        rw [hs2, ht2]
        cases Listing.fatNext s1.vol s1.dev.disk w.cluster with
        | ok n =>
          simp only
          rw [hv]
          exact ih _ s2 t2 hns2 hcs2 hnt2 hct2 (by rw [hvt2, hvs2, hv1]) (by rw [hdt2, hds2, hd1])
        | err x => cases x <;> rfl
        | panic m => rfl
        | diverged => rfl

/-- The same for `find_directory_entry`. -/
theorem findDirectoryEntry_congr (dc : Nat) (name : Bytes) (s t : FS) (hns : NoFault s) (hcs : Coherent s) (hnt : NoFault t)
    (hct : Coherent t) (hv : t.vol = s.vol) (hd : t.dev.disk = s.dev.disk) :
    (Fat.findDirectoryEntry dc name t).1 = (Fat.findDirectoryEntry dc name s).1 := by
  unfold Fat.findDirectoryEntry
  rw [bind_apply, bind_apply, getVol_apply, getVol_apply, hv]
  exact findWalk_congr name _ _ s t hns hcs hnt hct hv hd

end Sdmmc.Lemmas.WriteSet
