/-
C11, part 8 — the call `write` under an arbitrary fault schedule: files not involved in the call
are intact on the medium, whatever device call failed (`write_keeps_others`).
-/
import Sdmmc.Lemmas.RetryWriteL

namespace Sdmmc.Lemmas.Retry
open Sdmmc.Model Sdmmc.Model.Fat Sdmmc.Spec Sdmmc.Lemmas.Fault
open Sdmmc.Lemmas.FBasic hiding cacheRead_cases cacheRead_ok_tag NoFault Coherent
open Sdmmc.Lemmas.FatOps hiding BlocksOK Mirror HintOK
open Sdmmc.Lemmas.ChainL Sdmmc.Lemmas.ForestBase Sdmmc.Lemmas.ForestOwns Sdmmc.Lemmas.ReadRefines
open Sdmmc.Lemmas.WriteRefines

/-! ### The fault schedule is never touched -/

/-- The schedule is the same. -/
def FSame (a b : FS) : Prop := b.dev.faults = a.dev.faults
instance : RelOK FSame := ⟨fun _ => rfl, fun h1 h2 => Eq.trans h2 h1⟩
instance : DevOnly FSame := ⟨fun _ _ h => by unfold FSame; rw [h]⟩
instance : ReadOK FSame := { cacheRead := fun i s => cacheRead_faults i s }
instance : WriteOK FSame :=
  { writeBack := fun s => by
      cases ht : s.cache.tag with
      | none => unfold Model.writeBack; rw [ht]; rfl
      | some idx =>
        rw [Fault.writeBack_tagged ht]
        show (untagIfErr _).2.dev.faults = _
        rw [untagIfErr_dev]; exact (devWrite_any idx s).2.2.2
    writeBackWithDuplicate := fun d s => by
      cases ht : s.cache.tag with
      | none => rw [wbdup_none d s ht]; rfl
      | some idx =>
        rw [wbdup_some d idx s ht]
        show (untagIfErr _).2.dev.faults = _
        rw [untagIfErr_dev]
        exact F.Inv.bind (R := FSame) (fun s => (devWrite_any idx s).2.2.2) (fun _ s => (devWrite_any d s).2.2.2) s }

def MFSame (a b : Mgr) : Prop := b.dev.faults = a.dev.faults
instance : RelOK MFSame := ⟨fun _ => rfl, fun h1 h2 => Eq.trans h2 h1⟩
instance : MDev MFSame FSame where
  of_dev_eq := fun s s' hd _ => by unfold MFSame; rw [hd]
  of_fs := fun s fs fs' vs hd _ hr => by
    unfold MFSame; unfold FSame at hr; rw [hd] at hr; exact hr

/-- No call of the API changes the fault schedule. -/
theorem faults_same (op : Op) (s : Mgr) : (runOp op s).2.dev.faults = s.dev.faults := runOp_inv (R := MFSame) op s

/-! ### The state before the loop -/

theorem bind_state_const {α β} (m : M α) (k : α → M β) (hk : ∀ a t, (k a t).2 = t) (s : Mgr) :
    ((m >>= k) s).2 = (m s).2 := by
  rcases hr : m s with ⟨r, s'⟩
  cases r with
  | ok a => rw [M.bind_ok hr]; exact hk a s'
  | err e => rw [M.bind_err hr]
  | panic msg => rw [M.bind_panic hr]
  | diverged => rw [M.bind_diverged hr]

/-- The end state of `writeRest` is the end state of the loop run from the fixed-up record, on the
part of the buffer below `MAX_FILE_SIZE`. -/
theorem writeRest_state' (i vi rv : Nat) (data : Bytes) (sc : Mgr) (fc : FileInfo) (hfc : sc.files[i]? = some fc)
    (hv : sc.vols.findIdx? (·.rawVolume = rv) = some vi) :
    (writeRest rv i data sc).2 =
      (writeLoop i vi (min data.length (Gen.MAX_FILE_SIZE - (fixup fc).currentOffset) + 1)
        (data.take (min data.length (Gen.MAX_FILE_SIZE - (fixup fc).currentOffset)))
        { sc with files := sc.files.set i (fixup fc) }).2 := by
  unfold writeRest
  rw [M.bind_ok (MHoare.getVolumeById_ok hv)]
  have hmod : modifyFile i fixup sc = (.ok (), { sc with files := sc.files.set i (fixup fc) }) := by
    show (Res.ok (), ({ sc with files := sc.files.modify i fixup } : Mgr)) = _
    rw [modify_eq_set _ _ _ _ hfc]
  have hilt : i < sc.files.length := (List.getElem?_eq_some_iff.1 hfc).1
  have hget : getFile i { sc with files := sc.files.set i (fixup fc) } =
      (.ok (fixup fc), { sc with files := sc.files.set i (fixup fc) }) :=
    MHoare.getFile_ok (List.getElem?_set_self hilt)
  rw [M.bind_ok hmod, M.bind_ok hget]
  rw [bind_state_const]
  intro _ t
  split <;> rfl

theorem writeRest_state (i vi rv : Nat) (data : Bytes) (sc : Mgr) (fc : FileInfo) (hfc : sc.files[i]? = some fc)
    (hv : sc.vols.findIdx? (·.rawVolume = rv) = some vi) :
    ∃ n, (writeRest rv i data sc).2 =
      (writeLoop i vi (n + 1) (data.take n) { sc with files := sc.files.set i (fixup fc) }).2 :=
  ⟨_, writeRest_state' i vi rv data sc fc hfc hv⟩

/-- The loop invariant before the loop, for a file that owns clusters (a fault-free state). -/
theorem prologue_inv_chain (s : Mgr) (i vi : Nat) (f : FileInfo) (v : VolInfo) (cs : List Nat) (A B : List (List Nat))
    (hs : MOK s) (hf : s.files[i]? = some f) (hvi : s.vols[vi]? = some v) (hg : WFGeom v.vol) (hhint : HintOK v.vol)
    (hok : FileOK v.vol s.dev.disk f cs) (hown : Owns v.vol s.dev.disk (withChain A cs B)) (hcl : ¬ f.entry.cluster < 2) :
    WInv i vi A B { s with files := (s.files.set i (touchFile s.clock f)).set i (fixup (touchFile s.clock f)) }
      (fixup (touchFile s.clock f)) v cs := by
  obtain ⟨hnf, hcoh, hblk, hunl⟩ := hs
  have hilt : i < s.files.length := (List.getElem?_eq_some_iff.1 hf).1
  have hch : Chain v.vol s.dev.disk f.entry.cluster cs := by
    rcases hok.chain with ⟨h1, _, _⟩ | h1
    · exact absurd h1 hcl
    · exact h1
  have hne : cs ≠ [] := chain_ne_nil hch
  rw [withChain_ne hne] at hown
  generalize hfa : touchFile s.clock f = fa
  have hfa_cl : fa.entry.cluster = f.entry.cluster := by rw [← hfa]; rfl
  have hfa_cur : fa.curCluster = f.curCluster ∧ fa.curClusterOff = f.curClusterOff := by rw [← hfa]; exact ⟨rfl, rfl⟩
  have hfa_off : fa.currentOffset = f.currentOffset := by rw [← hfa]; rfl
  have hfa_size : fa.entry.size = f.entry.size := by rw [← hfa]; rfl
  generalize hfddef : fixup fa = fd
  have hfd_fields : fd.entry = fa.entry ∧ fd.currentOffset = fa.currentOffset := by
    rw [← hfddef]; unfold fixup; split <;> exact ⟨rfl, rfl⟩
  obtain ⟨hd_entry, hd_off⟩ := hfd_fields
  have hd_cursor : ∃ k, k < cs.length ∧ fd.curClusterOff = k * clusterBytesLen v.vol ∧ cs[k]? = some fd.curCluster := by
    rcases hok.cursor with hnil | ⟨k0, hk0, hk0off, hk0c⟩
    · exact absurd hnil hne
    · rw [← hfddef]
      unfold fixup
      split
      · exact ⟨0, chain_length_pos hch, by show 0 = _; rw [Nat.zero_mul], by
          show cs[0]? = some fa.entry.cluster; rw [hfa_cl]; exact chain_get_zero hch⟩
      · exact ⟨k0, hk0, by rw [hfa_cur.2]; exact hk0off, by rw [hfa_cur.1]; exact hk0c⟩
  rw [List.set_set]
  refine ⟨⟨hnf, hcoh, hblk, hunl⟩, List.getElem?_set_self hilt, hvi, hg, hhint, ?_, hne, hown⟩
  exact ⟨.inr (by rw [hd_entry, hfa_cl]; exact hch), by rw [hd_entry, hfa_size]; exact hok.size_fits,
    by rw [hd_off, hd_entry, hfa_off, hfa_size]; exact hok.pos_le, .inr hd_cursor⟩

/-- The loop invariant before the loop, for an empty file whose first cluster was just allocated. -/
theorem prologue_inv_first (s : Mgr) (i vi : Nat) (f : FileInfo) (v : VolInfo) (A B : List (List Nat)) (c : Nat) (fs2 : FS)
    (hs : MOK s) (hf : s.files[i]? = some f) (hvi : s.vols[vi]? = some v) (hg : WFGeom v.vol) (hhint : HintOK v.vol)
    (hok : FileOK v.vol s.dev.disk f []) (hcur : f.curCluster < 2) (hown : Owns v.vol s.dev.disk (A ++ [] ++ B))
    (ha : allocCluster none false (fsOf s v) = (.ok c, fs2)) :
    let fc : FileInfo := { touchFile s.clock f with entry := { (touchFile s.clock f).entry with cluster := c } }
    WInv i vi A B { s with dev := fs2.dev, cache := fs2.cache, files := s.files.set i (fixup fc),
                           vols := s.vols.set vi { v with vol := fs2.vol } } (fixup fc) { v with vol := fs2.vol } [c] ∧
    Spec.SameGeom v.vol fs2.vol := by
  intro fc
  obtain ⟨hnf, hcoh, hblk, hunl⟩ := hs
  have hilt : i < s.files.length := (List.getElem?_eq_some_iff.1 hf).1
  have hvilt : vi < s.vols.length := (List.getElem?_eq_some_iff.1 hvi).1
  have hsize0 : f.entry.size = 0 := by
    rcases hok.chain with ⟨_, _, h2⟩ | h1
    · exact h2
    · exact absurd rfl (chain_ne_nil h1)
  have hoff0 : f.currentOffset = 0 := by have := hok.pos_le; omega
  have hready : Ready (fsOf s v) := ⟨hnf, hcoh, hblk, hg, hhint⟩
  obtain ⟨hready2, hown2, hsg, hrc⟩ := owns_insert (fsOf s v) fs2 A B c hready hown ha
  simp only [fsOf_vol] at hsg hrc
  have hfix : fixup fc = { fc with curClusterOff := 0, curCluster := c } := by
    unfold fixup
    have h1 : fc.curCluster < fc.entry.cluster := by show f.curCluster < c; have := hrc.1; omega
    rw [if_pos h1]
  have hchain1 : Chain fs2.vol fs2.dev.disk c [c] :=
    hown2.1 [c] (List.mem_append_left _ (List.mem_append_right _ (List.mem_singleton.2 rfl)))
  refine ⟨?_, hsg⟩
  rw [hfix]
  refine ⟨⟨hready2.noFault, hready2.coherent, hready2.blocksOK, hunl⟩, List.getElem?_set_self hilt,
    List.getElem?_set_self hvilt, hready2.geom, hready2.hint, ?_, by simp, hown2⟩
  exact ⟨.inr hchain1, by show f.entry.size ≤ _; rw [hsize0]; exact Nat.zero_le _,
    by show f.currentOffset ≤ f.entry.size; rw [hoff0]; exact Nat.zero_le _,
    .inr ⟨0, by simp, by show 0 = _; rw [Nat.zero_mul], rfl⟩⟩

/-! ### The call -/

/-- What `write` keeps, whatever fails (the core of `write_keeps_others`). -/
theorem write_kept (s : Mgr) (h i vi : Nat) (data : Bytes) (f : FileInfo) (v : VolInfo) (cs : List Nat)
    (A B : List (List Nat)) (hs : MgrOKF s)
    (hh : s.files.findIdx? (·.rawFile = h) = some i) (hf : s.files[i]? = some f)
    (hv : s.vols.findIdx? (·.rawVolume = f.rawVolume) = some vi) (hvi : s.vols[vi]? = some v)
    (hmode : f.mode ≠ .ReadOnly) (hg : WFGeom v.vol) (hhint : HintOK v.vol)
    (hok : FileOK v.vol s.dev.disk f cs) (hcur : cs = [] → f.curCluster < 2)
    (hown : Owns v.vol s.dev.disk (withChain A cs B)) :
    Kept i vi A B v cs s (Model.write h data s).2 := by
  have hmok : MOK (mclr s) := mgrOK_mclr hs
  rw [write_run s h i vi data f hh hf hv hmode]
  have hilt : i < s.files.length := (List.getElem?_eq_some_iff.1 hf).1
  have hvilt : vi < s.vols.length := (List.getElem?_eq_some_iff.1 hvi).1
  generalize hfa : touchFile s.clock f = fa
  generalize hsa : ({ s with files := s.files.set i fa } : Mgr) = sa
  have hsa_f : sa.files[i]? = some fa := by rw [← hsa]; exact List.getElem?_set_self hilt
  have hsa_v : sa.vols.findIdx? (·.rawVolume = f.rawVolume) = some vi := by rw [← hsa]; exact hv
  unfold writeTail
  by_cases hcl : f.entry.cluster < 2
  · -- an empty file that owns no cluster
    have hcs : cs = [] := by
      rcases hok.chain with ⟨_, h1, _⟩ | h1
      · exact h1
      · have := (chain_inRange h1 _ (chain_head_mem h1)).1; omega
    subst hcs
    rw [withChain_nil] at hown
    rw [if_pos (show f.entry.cluster < Gen.RESERVED_ENTRIES from hcl)]
    have hsa_vol : sa.vols[vi]? = some v := by rw [← hsa]; exact hvi
    have hfs : fsOf sa v = fsOf s v := by rw [← hsa]; rfl
    have hallocM := withVol_run vi (allocCluster none false) sa v hsa_vol
    rw [hfs] at hallocM
    obtain ⟨hupd, hsg0, _⟩ := alloc_any (fsOf s v) none hs.1 hs.2.1 hg hhint (fun p hp => by cases hp)
    simp only [fsOf_vol, fsOf_dev] at hupd hsg0
    have hoth0 : Others v.vol A B s.dev.disk [] (allocCluster none false (fsOf s v)).2.dev.disk := by
      have := others_of_upd (M := []) hown (hupd.mono fun x hx => hx.imp id fun e => by cases e)
      exact this
    generalize hout : allocCluster none false (fsOf s v) = out at hallocM hupd hsg0 hoth0
    obtain ⟨ra, fs2⟩ := out
    simp only at hallocM hupd hsg0 hoth0
    generalize hv1def : ({ v with vol := fs2.vol } : VolInfo) = v1 at hallocM
    have hv1vol : v1.vol = fs2.vol := by rw [← hv1def]
    generalize hsb : ({ sa with dev := fs2.dev, cache := fs2.cache, vols := sa.vols.set vi v1 } : Mgr) = sb at hallocM
    have hsb_kept : Kept i vi A B v [] s sb := by
      refine ⟨⟨fa, v1, ⟨?_⟩, by rw [← hv1def], by rw [hv1vol]; exact hsg0⟩, ⟨[], List.prefix_refl _, ?_⟩⟩
      · rw [← hsb, ← hsa]
      · rw [← hsb]; exact hoth0
    cases ra with
    | err e => rw [M.bind_err hallocM]; exact hsb_kept
    | panic m => rw [M.bind_panic hallocM]; exact hsb_kept
    | diverged => rw [M.bind_diverged hallocM]; exact hsb_kept
    | ok c =>
      -- the allocation succeeded, so it hit no fault: it is the fault-free allocation
      have hclean := (allocCluster_agree none false).of_ok (allocCluster_strict none false) (fsOf s v) fs2 c hout
      obtain ⟨hinv, _⟩ := prologue_inv_first (mclr s) i vi f v A B c (clr fs2) hmok hf hvi hg hhint hok (hcur rfl) hown hclean
      rw [M.bind_ok hallocM]
      generalize hfcdef : ({ fa with entry := { fa.entry with cluster := c } } : FileInfo) = fc at hinv
      have hmodc : modifyFile i (fun g => { g with entry := { g.entry with cluster := c } }) sb =
          (.ok (), { sb with files := sb.files.set i fc }) := by
        show (Res.ok (), ({ sb with files := sb.files.modify i _ } : Mgr)) = _
        rw [modify_eq_set _ _ _ _ (by rw [← hsb]; exact hsa_f), hfcdef]
      rw [M.bind_ok hmodc]
      generalize hsc : ({ sb with files := sb.files.set i fc } : Mgr) = sc
      have hsc_f : sc.files[i]? = some fc := by
        rw [← hsc]; exact List.getElem?_set_self (by rw [← hsb, ← hsa, List.length_set]; exact hilt)
      have hsc_v : sc.vols.findIdx? (·.rawVolume = f.rawVolume) = some vi := by
        rw [← hsc, ← hsb, ← hsa]
        show (s.vols.set vi v1).findIdx? _ = _
        rw [findIdx?_set_same _ s.vols vi v v1 hvi (by rw [← hv1def])]; exact hv
      obtain ⟨n, hst⟩ := writeRest_state i vi f.rawVolume data sc fc hsc_f hsc_v
      show Kept i vi A B v [] s (writeRest f.rawVolume i data sc).2
      rw [hst]
      generalize hsd : ({ sc with files := sc.files.set i (fixup fc) } : Mgr) = sd
      have hsd_eq : sd = { s with dev := fs2.dev, cache := fs2.cache, files := s.files.set i (fixup fc), vols := s.vols.set vi v1 } := by
        rw [← hsd, ← hsc, ← hsb, ← hsa]
        simp only [List.set_set]
      have hinv' : WInv i vi A B (mclr sd) (fixup fc) v1 [c] := by
        rw [hsd_eq, ← hv1def, ← hfcdef, ← hfa]
        exact hinv
      obtain ⟨⟨f', v', hstep', hvid', hsg'⟩, ⟨cs', hpre', hoth'⟩⟩ := writeLoop_any i vi A B (n + 1) (data.take n) sd (fixup fc) v1 [c] hinv'
      have hsg1 : Spec.SameGeom v.vol v1.vol := by rw [hv1vol]; exact hsg0
      have hstep0 : WStep i vi s sd (fixup fc) v1 := ⟨by rw [hsd_eq]⟩
      have hoth0' : Others v.vol A B s.dev.disk [] sd.dev.disk := by rw [hsd_eq]; exact hoth0
      exact ⟨⟨f', v', hstep0.trans hstep', volInfo_vid_trans (by rw [← hv1def]) hvid', hsg1.trans hsg'⟩,
        ⟨cs', List.nil_prefix, hoth0'.trans (Others.sameGeom hsg1 hoth') (fun x hx => by cases hx)⟩⟩
  · -- the file owns clusters
    rw [if_neg (show ¬ f.entry.cluster < Gen.RESERVED_ENTRIES from hcl)]
    have hinv := prologue_inv_chain (mclr s) i vi f v cs A B hmok hf hvi hg hhint hok hown hcl
    obtain ⟨n, hst⟩ := writeRest_state i vi f.rawVolume data sa fa hsa_f hsa_v
    show Kept i vi A B v cs s ((pure () >>= fun _ => writeRest f.rawVolume i data) sa).2
    show Kept i vi A B v cs s (writeRest f.rawVolume i data sa).2
    rw [hst]
    generalize hsd : ({ sa with files := sa.files.set i (fixup fa) } : Mgr) = sd
    have hsd_eq : sd = { s with files := (s.files.set i fa).set i (fixup fa) } := by rw [← hsd, ← hsa]
    have hinv' : WInv i vi A B (mclr sd) (fixup fa) v cs := by
      rw [hsd_eq, ← hfa]; exact hinv
    obtain ⟨⟨f', v', hstep', hvid', hsg'⟩, ⟨cs', hpre', hoth'⟩⟩ := writeLoop_any i vi A B (n + 1) (data.take n) sd (fixup fa) v cs hinv'
    have hstep0 : WStep i vi s sd (fixup fa) v := ⟨by
      rw [hsd_eq, List.set_set]
      show _ = ({ s with files := s.files.set i (fixup fa), vols := s.vols.set vi v } : Mgr)
      rw [list_set_self _ _ _ hvi]⟩
    have hdsame : sd.dev.disk = s.dev.disk := by rw [hsd_eq]
    exact ⟨⟨f', v', hstep0.trans hstep', hvid', hsg'⟩, ⟨cs', hpre', by rw [← hdsame]; exact hoth'⟩⟩

/-- **Files not involved in a `write` are intact on the medium, whatever device call failed.**
The state `s` may have any fault schedule; otherwise the hypotheses are those of `write_refines`.
Whatever the outcome of `write h data` (a device error at any call index included):

* only device, cache, file slot `i` and the bookkeeping fields of volume slot `vi` differ — every
  other handle and table entry is the same; the fault schedule is the same;
* there is a chain `cs'` extending `cs` (the written file's own, possibly extended, chain) such that
  every chain `X` of `A ++ B` is still a chain, shares no cluster with `cs'`, and holds the same
  bytes; and every block that is neither a FAT block nor a block of a cluster of `cs'` is the same. -/
theorem write_keeps_others (s : Mgr) (h i vi : Nat) (data : Bytes) (f : FileInfo) (v : VolInfo) (cs : List Nat)
    (A B : List (List Nat)) (hs : MgrOKF s)
    (hh : s.files.findIdx? (·.rawFile = h) = some i) (hf : s.files[i]? = some f)
    (hv : s.vols.findIdx? (·.rawVolume = f.rawVolume) = some vi) (hvi : s.vols[vi]? = some v)
    (hmode : f.mode ≠ .ReadOnly) (hg : WFGeom v.vol) (hhint : HintOK v.vol)
    (hok : FileOK v.vol s.dev.disk f cs) (hcur : cs = [] → f.curCluster < 2)
    (hown : Owns v.vol s.dev.disk (withChain A cs B)) :
    (∃ f' v', (Model.write h data s).2 = { s with dev := (Model.write h data s).2.dev, cache := (Model.write h data s).2.cache, files := s.files.set i f', vols := s.vols.set vi v' } ∧
      v' = { v with vol := v'.vol } ∧ Spec.SameGeom v.vol v'.vol) ∧
    (Model.write h data s).2.dev.faults = s.dev.faults ∧
    (∃ cs', cs <+: cs' ∧
      (∀ X, X ∈ A ++ B → Chain v.vol (Model.write h data s).2.dev.disk (X.headD 0) X ∧ (∀ x, x ∈ X → x ∉ cs') ∧
        chainBytes v.vol (Model.write h data s).2.dev.disk X = chainBytes v.vol s.dev.disk X) ∧
      (∀ b, ¬ IsFatBlock v.vol b → ¬ IsClusterBlock v.vol cs' b → (Model.write h data s).2.dev.disk.get b = s.dev.disk.get b)) := by
  have hfaults : (Model.write h data s).2.dev.faults = s.dev.faults := by
    have := faults_same (.write h data) s
    have e : (runOp (.write h data) s).2 = (Model.write h data s).2 := by
      show ((Model.write h data >>= fun _ => pure Payload.unit) s).2 = _
      exact bind_state_const _ _ (fun _ _ => rfl) s
    rw [e] at this; exact this
  obtain ⟨⟨f', v', hstep, hvid, hsg⟩, ⟨cs', hpre, hoth⟩⟩ := write_kept s h i vi data f v cs A B hs hh hf hv hvi hmode hg hhint hok hcur hown
  refine ⟨⟨f', v', hstep.eq, hvid, hsg⟩, hfaults, ⟨cs', hpre, fun X hX => ?_, hoth.frame⟩⟩
  obtain ⟨hchX, hdis⟩ := hoth.chains X hX
  refine ⟨hchX, hdis, chainBytes_congr v.vol _ _ X fun x hx j hj => ?_⟩
  have hxr := chain_inRange hchX x hx
  exact hoth.frame _ (clusterBlock_not_fat hg hxr hj) (clusterBlock_not_of_not_mem hg hoth.inRange hxr hj (hdis x hx))

end Sdmmc.Lemmas.Retry
