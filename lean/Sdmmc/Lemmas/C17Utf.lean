/-
Lemmas for C17, part 1: the UTF-16 decoder of the model against the lossy decoder of the
specification, the splitting of a decoded run into "carried surrogate" + "emitted chars",
and the decode loop (`collect`) of `LfnBuffer::push`.
-/
import Sdmmc.Model.Lfn
import Sdmmc.Spec.Utf

namespace Sdmmc.Lemmas.C17
open Sdmmc.Model Sdmmc.Model.Lfn
open Sdmmc.Spec.Utf (decodeUtf16Lossy isScalar encodeScalar ValidUtf8)

/-! ### Surrogate classes -/

theorem spec_isHigh (u : Nat) : Spec.Utf.isHigh u = isHigh u := rfl
theorem spec_isLow (u : Nat) : Spec.Utf.isLow u = isLow u := rfl

theorem isSurrogate_eq (u : Nat) : isSurrogate u = (isHigh u || isLow u) := by
  unfold isSurrogate isHigh isLow
  rw [Bool.eq_iff_iff]
  simp only [Bool.and_eq_true, Bool.or_eq_true, decide_eq_true_eq]
  omega

theorem not_high_of_low {u : Nat} (h : isLow u = true) : isHigh u = false := by
  unfold isLow at h; unfold isHigh
  simp only [Bool.and_eq_true, decide_eq_true_eq] at h
  simp only [Bool.and_eq_false_imp, decide_eq_true_eq, decide_eq_false_iff_not]
  omega

theorem not_low_of_high {u : Nat} (h : isHigh u = true) : isLow u = false := by
  cases hl : isLow u
  · rfl
  · rw [not_high_of_low hl] at h; cases h

theorem surrogate_of_low {u : Nat} (h : isLow u = true) : isSurrogate u = true := by
  rw [isSurrogate_eq, h, Bool.or_true]

theorem surrogate_of_high {u : Nat} (h : isHigh u = true) : isSurrogate u = true := by
  rw [isSurrogate_eq, h, Bool.true_or]

theorem not_high_of_not_surrogate {u : Nat} (h : isSurrogate u = false) : isHigh u = false := by
  rw [isSurrogate_eq] at h; cases hh : isHigh u <;> simp_all

theorem not_low_of_not_surrogate {u : Nat} (h : isSurrogate u = false) : isLow u = false := by
  rw [isSurrogate_eq] at h; cases hh : isLow u <;> simp_all

theorem high_of_surrogate_not_low {u : Nat} (h : isSurrogate u = true) (hl : isLow u = false) :
    isHigh u = true := by
  rw [isSurrogate_eq, hl, Bool.or_false] at h; exact h

theorem surrogate_lt {u : Nat} (h : isSurrogate u = true) : u < 65536 := by
  unfold isSurrogate at h
  simp only [Bool.and_eq_true, decide_eq_true_eq] at h
  omega

/-- The scalar value of a surrogate pair. -/
def pairVal (u v : Nat) : Nat := 0x10000 + (u - 0xD800) * 0x400 + (v - 0xDC00)

/-! ### Equations of the model decoder, in head form -/

theorem decode_nil : decodeUtf16 [] = [] := by rw [decodeUtf16]

theorem decode_cons_nonsurrogate {u : Nat} (R : List Nat) (h : isSurrogate u = false) :
    decodeUtf16 (u :: R) = .ch u :: decodeUtf16 R := by
  rw [decodeUtf16.eq_def]; simp [h]

theorem decode_cons_low {u : Nat} (R : List Nat) (h : isLow u = true) :
    decodeUtf16 (u :: R) = .unpaired u :: decodeUtf16 R := by
  rw [decodeUtf16.eq_def]; simp [h, surrogate_of_low h]

theorem decode_high_single {u : Nat} (h : isHigh u = true) :
    decodeUtf16 [u] = [.unpaired u] := by
  rw [decodeUtf16]; simp [surrogate_of_high h, not_low_of_high h]

theorem decode_pair {u v : Nat} (R : List Nat) (h : isHigh u = true) (hv : isLow v = true) :
    decodeUtf16 (u :: v :: R) = .ch (pairVal u v) :: decodeUtf16 R := by
  rw [decodeUtf16.eq_def]
  simp only [surrogate_of_high h, not_low_of_high h, hv, Bool.not_true, Bool.false_eq_true, if_false, if_true]
  rfl

theorem decode_high_nolow {u v : Nat} (R : List Nat) (h : isHigh u = true) (hv : isLow v = false) :
    decodeUtf16 (u :: v :: R) = .unpaired u :: decodeUtf16 (v :: R) := by
  rw [decodeUtf16]; simp [surrogate_of_high h, not_low_of_high h, hv]

/-! ### Equations of the specification decoder, in head form -/

theorem lossy_nil : decodeUtf16Lossy [] = [] := by rw [decodeUtf16Lossy]

theorem lossy_cons_nonsurrogate {u : Nat} (R : List Nat) (h : isSurrogate u = false) :
    decodeUtf16Lossy (u :: R) = u :: decodeUtf16Lossy R := by
  have h1 := not_high_of_not_surrogate h
  have h2 := not_low_of_not_surrogate h
  cases R with
  | nil => rw [lossy_nil, decodeUtf16Lossy]; simp [spec_isHigh, spec_isLow, h1, h2]
  | cons v R => rw [decodeUtf16Lossy]; simp [spec_isHigh, spec_isLow, h1, h2]

theorem lossy_cons_low {u : Nat} (R : List Nat) (h : isLow u = true) :
    decodeUtf16Lossy (u :: R) = 0xFFFD :: decodeUtf16Lossy R := by
  have h1 := not_high_of_low h
  cases R with
  | nil => rw [lossy_nil, decodeUtf16Lossy]; simp [spec_isHigh, spec_isLow, h1, h]
  | cons v R => rw [decodeUtf16Lossy]; simp [spec_isHigh, spec_isLow, h1, h]

theorem lossy_high_single {u : Nat} (h : isHigh u = true) :
    decodeUtf16Lossy [u] = [0xFFFD] := by
  rw [decodeUtf16Lossy]; simp [spec_isHigh, h]

theorem lossy_pair {u v : Nat} (R : List Nat) (h : isHigh u = true) (hv : isLow v = true) :
    decodeUtf16Lossy (u :: v :: R) = pairVal u v :: decodeUtf16Lossy R := by
  rw [decodeUtf16Lossy]
  simp only [spec_isHigh, spec_isLow, h, hv, Bool.and_self, if_true]
  rfl

theorem lossy_high_nolow {u v : Nat} (R : List Nat) (h : isHigh u = true) (hv : isLow v = false) :
    decodeUtf16Lossy (u :: v :: R) = 0xFFFD :: decodeUtf16Lossy (v :: R) := by
  rw [decodeUtf16Lossy]; simp [spec_isHigh, spec_isLow, h, hv]

/-! ### Model decoder versus specification decoder -/

/-- What `push` makes of a decoded item. -/
def toChar : Item → Nat
  | .ch c => c
  | .unpaired _ => 0xFFFD

/-- Three-way case split on a code unit. -/
theorem unit_cases (u : Nat) :
    isSurrogate u = false ∨ isLow u = true ∨ (isHigh u = true ∧ isLow u = false) := by
  cases hs : isSurrogate u
  · exact .inl rfl
  · cases hl : isLow u
    · exact .inr (.inr ⟨high_of_surrogate_not_low hs hl, rfl⟩)
    · exact .inr (.inl rfl)

/-- Induction along the way both decoders consume their input. -/
theorem units_induction {P : List Nat → Prop} (nil : P [])
    (nonsurr : ∀ u R, isSurrogate u = false → P R → P (u :: R))
    (low : ∀ u R, isLow u = true → P R → P (u :: R))
    (highSingle : ∀ u, isHigh u = true → P [u])
    (pair : ∀ u v R, isHigh u = true → isLow v = true → P R → P (u :: v :: R))
    (highNolow : ∀ u v R, isHigh u = true → isLow v = false → P (v :: R) → P (u :: v :: R)) :
    ∀ W, P W := by
  have key : ∀ n (W : List Nat), W.length ≤ n → P W := by
    intro n
    induction n with
    | zero =>
      intro W hW
      cases W with
      | nil => exact nil
      | cons u R => simp at hW
    | succ n ih =>
      intro W hW
      cases W with
      | nil => exact nil
      | cons u R =>
        have hR : R.length ≤ n := by simpa using hW
        rcases unit_cases u with h | h | ⟨h, _⟩
        · exact nonsurr u R h (ih R hR)
        · exact low u R h (ih R hR)
        · cases R with
          | nil => exact highSingle u h
          | cons v R' =>
            cases hv : isLow v
            · exact highNolow u v R' h hv (ih _ hR)
            · exact pair u v R' h hv (ih R' (by simp at hR; omega))
  exact fun W => key W.length W (Nat.le_refl _)

theorem decode_map_toChar (W : List Nat) : (decodeUtf16 W).map toChar = decodeUtf16Lossy W := by
  induction W using units_induction with
  | nil => rw [decode_nil, lossy_nil]; rfl
  | nonsurr u R h ih => rw [decode_cons_nonsurrogate R h, lossy_cons_nonsurrogate R h, List.map_cons, ih]; rfl
  | low u R h ih => rw [decode_cons_low R h, lossy_cons_low R h, List.map_cons, ih]; rfl
  | highSingle u h => rw [decode_high_single h, lossy_high_single h]; rfl
  | pair u v R h hv ih => rw [decode_pair R h hv, lossy_pair R h hv, List.map_cons, ih]; rfl
  | highNolow u v R h hv ih => rw [decode_high_nolow R h hv, lossy_high_nolow R h hv, List.map_cons, ih]; rfl

theorem decode_length_le (W : List Nat) : (decodeUtf16 W).length ≤ W.length := by
  induction W using units_induction with
  | nil => rw [decode_nil]; exact Nat.le_refl _
  | nonsurr u R h ih => rw [decode_cons_nonsurrogate R h]; simp only [List.length_cons]; omega
  | low u R h ih => rw [decode_cons_low R h]; simp only [List.length_cons]; omega
  | highSingle u h => rw [decode_high_single h]; exact Nat.le_refl _
  | pair u v R h hv ih => rw [decode_pair R h hv]; simp only [List.length_cons]; omega
  | highNolow u v R h hv ih => rw [decode_high_nolow R h hv]; simp only [List.length_cons] at ih ⊢; omega

/-! ### Scalar values -/

theorem isScalar_of_not_surrogate {u : Nat} (h : isSurrogate u = false) (hu : u < 65536) :
    isScalar u = true := by
  unfold isSurrogate at h; unfold isScalar
  simp only [Bool.and_eq_false_imp, decide_eq_true_eq, decide_eq_false_iff_not] at h
  simp only [Bool.or_eq_true, Bool.and_eq_true, decide_eq_true_eq]
  omega

theorem isScalar_pairVal {u v : Nat} (h : isHigh u = true) (hv : isLow v = true) :
    isScalar (pairVal u v) = true := by
  unfold isHigh at h; unfold isLow at hv; unfold isScalar pairVal
  simp only [Bool.and_eq_true, decide_eq_true_eq] at h hv
  simp only [Bool.or_eq_true, Bool.and_eq_true, decide_eq_true_eq]
  omega

theorem isScalar_fffd : isScalar 0xFFFD = true := by simp [isScalar]

theorem lossy_scalar (W : List Nat) (hW : ∀ u ∈ W, u < 65536) :
    ∀ c ∈ decodeUtf16Lossy W, isScalar c = true := by
  induction W using units_induction with
  | nil => rw [lossy_nil]; intro c hc; cases hc
  | nonsurr u R h ih =>
    rw [lossy_cons_nonsurrogate R h]
    intro c hc
    rcases List.mem_cons.mp hc with rfl | hc
    · exact isScalar_of_not_surrogate h (hW _ (List.mem_cons_self ..))
    · exact ih (fun x hx => hW x (List.mem_cons_of_mem _ hx)) c hc
  | low u R h ih =>
    rw [lossy_cons_low R h]
    intro c hc
    rcases List.mem_cons.mp hc with rfl | hc
    · exact isScalar_fffd
    · exact ih (fun x hx => hW x (List.mem_cons_of_mem _ hx)) c hc
  | highSingle u h =>
    rw [lossy_high_single h]
    intro c hc
    rcases List.mem_cons.mp hc with rfl | hc
    · exact isScalar_fffd
    · cases hc
  | pair u v R h hv ih =>
    rw [lossy_pair R h hv]
    intro c hc
    rcases List.mem_cons.mp hc with hc | hc
    · rw [hc]; exact isScalar_pairVal h hv
    · exact ih (fun x hx => hW x (List.mem_cons_of_mem _ (List.mem_cons_of_mem _ hx))) c hc
  | highNolow u v R h hv ih =>
    rw [lossy_high_nolow R h hv]
    intro c hc
    rcases List.mem_cons.mp hc with rfl | hc
    · exact isScalar_fffd
    · exact ih (fun x hx => hW x (List.mem_cons_of_mem _ hx)) c hc

/-! ### Lossy decoding of a concatenation -/

/-- The first unit of the list is a low surrogate. -/
def headLow : List Nat → Bool
  | [] => false
  | v :: _ => isLow v

theorem headLow_append_of_ne_nil {A : List Nat} (B : List Nat) (h : A ≠ []) :
    headLow (A ++ B) = headLow A := by
  cases A with
  | nil => exact absurd rfl h
  | cons a A => rfl

/-- The lossy decoding splits at any point that does not separate a surrogate pair. -/
theorem lossy_append (A B : List Nat)
    (h : ∀ A' x, A = A' ++ [x] → isHigh x = true → headLow B = false) :
    decodeUtf16Lossy (A ++ B) = decodeUtf16Lossy A ++ decodeUtf16Lossy B := by
  induction A using units_induction with
  | nil => rw [lossy_nil]; rfl
  | nonsurr u R hu ih =>
    rw [List.cons_append, lossy_cons_nonsurrogate _ hu, lossy_cons_nonsurrogate _ hu, List.cons_append,
      ih (fun A' x e hx => h (u :: A') x (by rw [e]; rfl) hx)]
  | low u R hu ih =>
    rw [List.cons_append, lossy_cons_low _ hu, lossy_cons_low _ hu, List.cons_append,
      ih (fun A' x e hx => h (u :: A') x (by rw [e]; rfl) hx)]
  | highSingle u hu =>
    have hB := h [] u rfl hu
    rw [lossy_high_single hu]
    cases B with
    | nil => rw [List.append_nil, lossy_high_single hu, lossy_nil]; rfl
    | cons v B' =>
      have hv : isLow v = false := hB
      show decodeUtf16Lossy (u :: v :: B') = _
      rw [lossy_high_nolow _ hu hv]; rfl
  | pair u v R hu hv ih =>
    show decodeUtf16Lossy (u :: v :: (R ++ B)) = _
    rw [lossy_pair _ hu hv, lossy_pair _ hu hv, List.cons_append,
      ih (fun A' x e hx => h (u :: v :: A') x (by rw [e]; rfl) hx)]
  | highNolow u v R hu hv ih =>
    show decodeUtf16Lossy (u :: v :: (R ++ B)) = _
    rw [lossy_high_nolow _ hu hv, lossy_high_nolow _ hu hv, List.cons_append,
      ← ih (fun A' x e hx => h (u :: A') x (by rw [e]; rfl) hx)]
    rfl

/-! ### The carried surrogate -/

/-- Split a run of code units the way `push` does: the unit that decodes to a leading unpaired
surrogate is carried, the rest is emitted. -/
def splitFirst : List Nat → Option Nat × List Nat
  | [] => (none, [])
  | u :: R => if isLow u || (isHigh u && !headLow R) then (some u, R) else (none, u :: R)

theorem splitFirst_cons (u : Nat) (R : List Nat) :
    splitFirst (u :: R) = if isLow u || (isHigh u && !headLow R) then (some u, R) else (none, u :: R) := rfl

theorem splitFirst_none {W : List Nat} (h : (splitFirst W).1 = none) :
    (splitFirst W).2 = W ∧ headLow W = false := by
  cases W with
  | nil => exact ⟨rfl, rfl⟩
  | cons u R =>
    rw [splitFirst_cons] at h ⊢
    split at h
    · cases h
    · rename_i hc
      rw [if_neg hc]
      refine ⟨rfl, ?_⟩
      simp only [Bool.or_eq_true, not_or, Bool.not_eq_true] at hc
      exact hc.1

theorem splitFirst_some {W : List Nat} {s : Nat} (h : (splitFirst W).1 = some s) :
    W = s :: (splitFirst W).2 ∧ isSurrogate s = true ∧
      (isHigh s = true → headLow (splitFirst W).2 = false) := by
  cases W with
  | nil => cases h
  | cons u R =>
    rw [splitFirst_cons] at h ⊢
    split at h
    · rename_i hc
      rw [if_pos hc]
      cases h
      refine ⟨rfl, ?_, ?_⟩
      · rw [isSurrogate_eq]
        simp only [Bool.or_eq_true, Bool.and_eq_true] at hc ⊢
        rcases hc with hc | hc
        · exact .inr hc
        · exact .inl hc.1
      · intro hh
        simp only [Bool.or_eq_true, Bool.and_eq_true, Bool.not_eq_true', not_low_of_high hh,
          Bool.false_eq_true, false_or] at hc
        exact hc.2
    · cases h

theorem splitFirst_suffix (W : List Nat) : ∃ P, W = P ++ (splitFirst W).2 := by
  cases h : (splitFirst W).1 with
  | none => exact ⟨[], by rw [(splitFirst_none h).1]; rfl⟩
  | some s => exact ⟨[s], (splitFirst_some h).1⟩

/-! ### The decode loop of `push` -/

theorem collect_notFirst (items : List Item) :
    ∀ (acc : List Nat) (saved : Option Nat), acc.length + items.length ≤ CHAR_VEC_CAP →
      collect items false acc saved = some (acc ++ items.map toChar, saved) := by
  induction items with
  | nil => intro acc saved _; simp [collect]
  | cons it rest ih =>
    intro acc saved hlen
    simp only [List.length_cons] at hlen
    have hlt : acc.length < CHAR_VEC_CAP := by omega
    cases it with
    | ch c =>
      rw [collect, if_pos hlt, ih _ _ (by simp only [List.length_append, List.length_cons, List.length_nil]; omega)]
      simp [toChar]
    | unpaired u =>
      rw [collect]
      simp only [Bool.false_eq_true, if_false, if_pos hlt]
      rw [ih _ _ (by simp only [List.length_append, List.length_cons, List.length_nil]; omega)]
      simp [toChar]

theorem cap_pos : ([] : List Nat).length < CHAR_VEC_CAP := by decide

/-- `push`'s decode loop on a run of at most `CHAR_VEC_CAP` units never overflows the scratch
vector; it carries the leading unpaired surrogate and emits the lossy decoding of the rest. -/
theorem collect_decode (W : List Nat) (hW : W.length ≤ CHAR_VEC_CAP) :
    collect (decodeUtf16 W) true [] none
      = some (decodeUtf16Lossy (splitFirst W).2, (splitFirst W).1) := by
  cases W with
  | nil => rw [decode_nil]; simp [collect, splitFirst, lossy_nil]
  | cons u R =>
    simp only [List.length_cons] at hW
    have hR := decode_length_le R
    rcases unit_cases u with h | h | ⟨h, hl⟩
    · have hsf : splitFirst (u :: R) = (none, u :: R) := by
        simp [splitFirst, not_low_of_not_surrogate h, not_high_of_not_surrogate h]
      rw [decode_cons_nonsurrogate R h, hsf, collect, if_pos cap_pos,
        collect_notFirst _ _ _ (by simp only [List.nil_append, List.length_cons, List.length_nil]; omega),
        lossy_cons_nonsurrogate R h, decode_map_toChar]
      rfl
    · have hsf : splitFirst (u :: R) = (some u, R) := by simp [splitFirst, h]
      rw [decode_cons_low R h, hsf, collect]
      simp only [if_true]
      rw [collect_notFirst _ _ _ (by simp only [List.length_nil]; omega), decode_map_toChar]
      rfl
    · cases R with
      | nil =>
        have hsf : splitFirst [u] = (some u, []) := by simp [splitFirst, h, headLow]
        rw [decode_high_single h, hsf]
        simp [collect, lossy_nil]
      | cons v R' =>
        simp only [List.length_cons] at hW
        cases hv : isLow v
        · have hsf : splitFirst (u :: v :: R') = (some u, v :: R') := by simp [splitFirst, h, headLow, hv]
          have hR2 := decode_length_le (v :: R')
          simp only [List.length_cons] at hR2
          rw [decode_high_nolow R' h hv, hsf, collect]
          simp only [if_true]
          rw [collect_notFirst _ _ _ (by simp only [List.length_nil]; omega), decode_map_toChar]
          rfl
        · have hsf : splitFirst (u :: v :: R') = (none, u :: v :: R') := by
            simp [splitFirst, hl, h, headLow, hv]
          have hR2 := decode_length_le R'
          rw [decode_pair R' h hv, hsf, collect, if_pos cap_pos,
            collect_notFirst _ _ _ (by simp only [List.nil_append, List.length_cons, List.length_nil]; omega),
            lossy_pair R' h hv, decode_map_toChar]
          rfl

end Sdmmc.Lemmas.C17
