/-
C10 over whole API calls: one call through `step`.

* `step_stepC` — for every operation `op` (all constructors of `Op`), from a state of the invariant of C03 with `RawOK`:
  every prefix of the writes `step` reports leaves a crash-consistent medium with valid FAT entries (`CI`), and
  `RawOK` holds afterwards (`StepC`);
* `step_prefixOK` — from C04 (`Lemmas.WriteSetInvHist.step_callOK`): every prefix keeps all blocks at 512 bytes, block
  0, the boot sector, and the FAT32 info sector outside its two counters;
* `step_crashInv`, `step_mounts` — the two together: `CrashInv` and mountability of every crashed medium.
-/
import Sdmmc.Lemmas.VolCrashRO
import Sdmmc.Lemmas.VolCrashFlush
import Sdmmc.Lemmas.VolCrashWrite
import Sdmmc.Lemmas.VolCrashDelete
import Sdmmc.Lemmas.VolCrashOpen
import Sdmmc.Lemmas.VolCrashMkdir
import Sdmmc.Lemmas.VolCrashLic

namespace Sdmmc.Lemmas.VolCrash
open Sdmmc.Model Sdmmc.Model.Fat Sdmmc.Spec.Volume
open Sdmmc.Spec hiding NoFault Coherent run step
open Sdmmc.Lemmas.FBasic
open Sdmmc.Lemmas.VolApi Sdmmc.Lemmas.CrashBase Sdmmc.Lemmas.CrashMgr Sdmmc.Lemmas.MHoare
open Sdmmc.Lemmas.WriteSetInv (NameCovered)

theorem callC_congr {v : FatVolume} {s s' t : Mgr} (h : CallC v s s') (e : t = s') : CallC v s t := e ▸ h

/-- **Every operation**, run on the state with cleared logs. -/
theorem runOp_callC {s : Mgr} {gh : Ghost} (hI : VolInv s gh) (hR : RawOK gh.vol.fatType s.dev.disk s.files) (op : Op)
    (hc : NameCovered op) : CallC gh.vol s (runOp op s).2 := by
  by_cases hro : Fault.readOnlyOp op = true
  · exact readonly_callC hI hR op hro
  · cases op with
    | closeVolume v => exact callC_congr (closeVolume_callC hI hR v) (WriteSet.runOp_closeVolume v s)
    | openFile d n m => exact callC_congr (openFile_callC hI hR d n m hc) (WriteSet.runOp_openFile d n m s)
    | write f b => exact callC_congr (write_callC hI hR f b) (WriteSet.runOp_write f b s)
    | flush f => exact callC_congr (flush_callC hI hR f) (WriteSet.runOp_flush f s)
    | closeFile f => exact callC_congr (closeFile_callC hI hR f) (WriteSet.runOp_closeFile f s)
    | delete d n => exact callC_congr (delete_callC hI hR d n hc) (WriteSet.runOp_delete d n s)
    | mkdir d n => exact callC_congr (mkdir_callC hI hR d n hc) (WriteSet.runOp_mkdir d n s)
    | _ => exact absurd rfl hro

/-- **Every operation through `step`.** -/
theorem step_stepC {s : Mgr} {gh : Ghost} (hI : VolInv s gh) (hR : RawOK gh.vol.fatType s.dev.disk s.files) (op : Op)
    (hc : NameCovered op) : StepC gh.vol s op :=
  stepC_of_callC hI.unlocked (runOp_callC (volInv_resetLogs hI) hR op hc)

/-- What C04 gives for every prefix of the writes of a call. -/
theorem step_prefixOK {s : Mgr} {gh : Ghost} (hI : VolInv s gh) (hm : Mirror gh.vol s.dev.disk) (op : Op)
    (hc : NameCovered op) (k : Nat) : PrefixOK gh.vol s.dev.disk (crashDisk s.dev.disk (Model.step s op).2.writes k) := by
  obtain ⟨L, h⟩ := WriteSetInv.step_callOK hI hm op hc
  exact allLicensed_prefix hI.med.geom _ _ h.all hI.med.blocksOK k

/-- **Every crash point of every call is a crash-consistent medium with valid FAT entries.** -/
theorem step_crashInv {s : Mgr} {gh : Ghost} (hI : VolInvC s gh) (op : Op) (hc : NameCovered op) (k : Nat) :
    (∃ gh', CrashInv gh.vol (crashDisk s.dev.disk (Model.step s op).2.writes k) gh') ∧
    FatEntriesOK gh.vol (crashDisk s.dev.disk (Model.step s op).2.writes k) := by
  obtain ⟨⟨gh', hC⟩, hF⟩ := (step_stepC hI.inv hI.raw op hc).crash k
  exact ⟨⟨gh', crashInv_iff.2 ⟨(step_prefixOK hI.inv hI.mirror op hc k).blocksOK, hC⟩⟩, hF⟩

/-- **Every crash point of every call mounts**, provided the medium before the call mounts (partition `idx`, to a
record with the geometry of the volume the invariant is about). -/
theorem step_mounts {s : Mgr} {gh : Ghost} (hI : VolInvC s gh) (op : Op) (hc : NameCovered op) (k : Nat)
    (idx : Nat) (vm : FatVolume) (hmnt : mountPure (s.dev.disk.get 0) idx s.dev.disk.get = .ok vm) (hsg : SameGeom vm gh.vol) :
    ∃ w, mountPure ((crashDisk s.dev.disk (Model.step s op).2.writes k).get 0) idx
        (crashDisk s.dev.disk (Model.step s op).2.writes k).get = .ok w ∧ SameGeom gh.vol w :=
  (step_prefixOK hI.inv hI.mirror op hc k).mounts idx vm hmnt hsg

/-- … and so does the medium AFTER the call. -/
theorem step_mounts_after {s : Mgr} {gh : Ghost} (hI : VolInvC s gh) (op : Op) (hc : NameCovered op)
    (idx : Nat) (vm : FatVolume) (hmnt : mountPure (s.dev.disk.get 0) idx s.dev.disk.get = .ok vm) (hsg : SameGeom vm gh.vol) :
    ∃ w, mountPure ((Model.step s op).1.dev.disk.get 0) idx (Model.step s op).1.dev.disk.get = .ok w ∧ SameGeom gh.vol w := by
  obtain ⟨L, h⟩ := WriteSetInv.step_callOK hI.inv hI.mirror op hc
  have hfun : (Model.step s op).1.dev.disk.get = (s.dev.disk.applyWrites (Model.step s op).2.writes).get := funext h.disk
  have := step_mounts hI op hc (Model.step s op).2.writes.length idx vm hmnt hsg
  unfold crashDisk at this
  rw [List.take_length] at this
  rw [hfun]
  exact this

end Sdmmc.Lemmas.VolCrash
