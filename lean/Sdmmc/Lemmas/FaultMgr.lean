/-
C11 — the manager level (`M`): `MStrict` / `FaultReported`, invariants `M.Inv`, their
compositional rules and the tactic `mfault_auto`.
-/
import Sdmmc.Lemmas.FaultFat

namespace Sdmmc.Lemmas.Fault

open Sdmmc.Model

/-! ### Unfolding the monad `M` -/

theorem M.bind_apply {α β} (m : M α) (f : α → M β) (s : Mgr) :
    (m >>= f) s =
      match m s with
      | (.ok a, s') => f a s'
      | (.err e, s') => (.err e, s')
      | (.panic msg, s') => (.panic msg, s')
      | (.diverged, s') => (.diverged, s') := rfl

theorem M.bind_ok {α β} {m : M α} {f : α → M β} {s s' : Mgr} {a : α} (h : m s = (.ok a, s')) :
    (m >>= f) s = f a s' := by rw [M.bind_apply, h]
theorem M.bind_err {α β} {m : M α} {f : α → M β} {s s' : Mgr} {e : Err} (h : m s = (.err e, s')) :
    (m >>= f) s = (.err e, s') := by rw [M.bind_apply, h]
theorem M.bind_panic {α β} {m : M α} {f : α → M β} {s s' : Mgr} {msg : String} (h : m s = (.panic msg, s')) :
    (m >>= f) s = (.panic msg, s') := by rw [M.bind_apply, h]
theorem M.bind_diverged {α β} {m : M α} {f : α → M β} {s s' : Mgr} (h : m s = (.diverged, s')) :
    (m >>= f) s = (.diverged, s') := by rw [M.bind_apply, h]

theorem M.attempt_bind_apply {α β} (m : M α) (k : Res α → M β) (s : Mgr) :
    (M.attempt m >>= k) s = k (m s).1 (m s).2 := rfl

/-! ### The notions -/

/-- Any device failure during `m` surfaces as `DeviceError`. -/
def MStrict {α} (m : M α) : Prop :=
  ∀ s, (m s).2.dev.failed ≠ s.dev.failed → (m s).1 = .err .DeviceError

/-- Any device failure during `m` is reported as an error (conversions such as
`alloc_cluster(..).is_err() → DiskFull` in `write` are fine). -/
def FaultReported {α} (m : M α) : Prop :=
  ∀ s, (m s).2.dev.failed ≠ s.dev.failed → ∃ e, (m s).1 = .err e

/-- The inner-outcome form (`find_data_on_disk` under `withVol`). -/
def MInner {σ β} (m : M (σ × Res β)) : Prop :=
  ∀ s, (m s).2.dev.failed ≠ s.dev.failed → ∃ st, (m s).1 = .ok (st, .err .DeviceError)

def M.Inv {α} (R : Mgr → Mgr → Prop) (m : M α) : Prop := ∀ s, R s (m s).2

theorem FaultReported.of_strict {α} {m : M α} (h : MStrict m) : FaultReported m :=
  fun s hs => ⟨_, h s hs⟩

theorem MStrict.of_dev_eq {α} {m : M α} (h : ∀ s, (m s).2.dev = s.dev) : MStrict m := by
  intro s hs; rw [h s] at hs; exact absurd rfl hs

theorem MStrict.pure {α} (a : α) : MStrict (pure a : M α) := .of_dev_eq fun _ => rfl
theorem MStrict.lift {α} (r : Res α) : MStrict (M.lift r) := .of_dev_eq fun _ => rfl
theorem MStrict.fail {α} (e : Err) : MStrict (M.fail e : M α) := .of_dev_eq fun _ => rfl
theorem MStrict.panic {α} (msg : String) : MStrict (M.panic msg : M α) := .of_dev_eq fun _ => rfl
theorem MStrict.get : MStrict M.get := .of_dev_eq fun _ => rfl
theorem MStrict.modify {f : Mgr → Mgr} (h : ∀ s, (f s).dev = s.dev) : MStrict (M.modify f) := .of_dev_eq h
theorem MStrict.generate : MStrict generate := .of_dev_eq fun _ => rfl

theorem getVolumeById_state (raw : Nat) (s : Mgr) : (getVolumeById raw s).2 = s := by
  unfold getVolumeById; split <;> rfl
theorem getDirById_state (raw : Nat) (s : Mgr) : (getDirById raw s).2 = s := by
  unfold getDirById; split <;> rfl
theorem getFileById_state (raw : Nat) (s : Mgr) : (getFileById raw s).2 = s := by
  unfold getFileById; split <;> rfl
theorem getDir_state (i : Nat) (s : Mgr) : (getDir i s).2 = s := by
  unfold getDir; split <;> rfl
theorem getFile_state (i : Nat) (s : Mgr) : (getFile i s).2 = s := by
  unfold getFile; split <;> rfl
theorem getVolInfo_state (i : Nat) (s : Mgr) : (getVolInfo i s).2 = s := by
  unfold getVolInfo; split <;> rfl
theorem toSfn_state (name : List Nat) (s : Mgr) : (toSfn name s).2 = s := by
  unfold toSfn; cases Sfn.createFromStr name <;> rfl

theorem MStrict.of_state_eq {α} {m : M α} (h : ∀ s, (m s).2 = s) : MStrict m :=
  .of_dev_eq fun s => by rw [h s]

theorem MStrict.getVolumeById (raw : Nat) : MStrict (getVolumeById raw) := .of_state_eq (getVolumeById_state raw)
theorem MStrict.getDirById (raw : Nat) : MStrict (getDirById raw) := .of_state_eq (getDirById_state raw)
theorem MStrict.getFileById (raw : Nat) : MStrict (getFileById raw) := .of_state_eq (getFileById_state raw)
theorem MStrict.getDir (i : Nat) : MStrict (getDir i) := .of_state_eq (getDir_state i)
theorem MStrict.getFile (i : Nat) : MStrict (getFile i) := .of_state_eq (getFile_state i)
theorem MStrict.getVolInfo (i : Nat) : MStrict (getVolInfo i) := .of_state_eq (getVolInfo_state i)
theorem MStrict.toSfn (n : List Nat) : MStrict (toSfn n) := .of_state_eq (toSfn_state n)
theorem MStrict.setFile (i : Nat) (f : FileInfo) : MStrict (setFile i f) := .of_dev_eq fun _ => rfl
theorem MStrict.modifyFile (i : Nat) (g : FileInfo → FileInfo) : MStrict (modifyFile i g) := .of_dev_eq fun _ => rfl

/-! ### `withVol` -/

theorem withVol_cases {α} (i : Nat) (f : F α) (s : Mgr) :
    (s.vols[i]? = none ∧ withVol i f s = (.panic "volume index out of range", s)) ∨
    (∃ vi, s.vols[i]? = some vi ∧
      withVol i f s = ((f { dev := s.dev, cache := s.cache, vol := vi.vol }).1,
        { s with dev := (f { dev := s.dev, cache := s.cache, vol := vi.vol }).2.dev,
                 cache := (f { dev := s.dev, cache := s.cache, vol := vi.vol }).2.cache,
                 vols := s.vols.set i { vi with vol := (f { dev := s.dev, cache := s.cache, vol := vi.vol }).2.vol } })) := by
  unfold withVol
  cases h : s.vols[i]? with
  | none => left; exact ⟨rfl, rfl⟩
  | some vi => right; exact ⟨vi, rfl, rfl⟩

theorem MStrict.withVol {α} {f : F α} (i : Nat) (hf : FaultStrict f) : MStrict (withVol i f) := by
  intro s h
  rcases withVol_cases i f s with ⟨_, he⟩ | ⟨vi, _, he⟩
  · rw [he] at h; exact absurd rfl h
  · rw [he] at h ⊢; exact hf _ h

theorem FaultReported.withVol {α} {f : F α} (i : Nat) (hf : FaultWeak f) : FaultReported (withVol i f) := by
  intro s h
  rcases withVol_cases i f s with ⟨_, he⟩ | ⟨vi, _, he⟩
  · rw [he] at h; exact absurd rfl h
  · rw [he] at h ⊢; exact hf _ h

theorem MInner.withVol {σ β} {f : F (σ × Res β)} (i : Nat) (hf : FaultInner f) : MInner (withVol i f) := by
  intro s h
  rcases withVol_cases i f s with ⟨_, he⟩ | ⟨vi, _, he⟩
  · rw [he] at h; exact absurd rfl h
  · rw [he] at h ⊢; exact hf _ h

/-! ### Sequencing -/

theorem MStrict.bind {α β} {m : M α} {f : α → M β} (hm : MStrict m) (hf : ∀ a, MStrict (f a)) :
    MStrict (m >>= f) := by
  intro s h
  have hms := hm s
  rcases hr : m s with ⟨r, s'⟩
  rw [hr] at hms
  cases r with
  | ok a =>
    rw [M.bind_ok hr] at h ⊢
    by_cases hfail : s'.dev.failed = s.dev.failed
    · rw [← hfail] at h; exact hf a s' h
    · have := hms hfail; cases this
  | err e =>
    rw [M.bind_err hr] at h ⊢
    have h2 := hms h
    simp only [Res.err.injEq] at h2
    subst h2; rfl
  | panic msg => rw [M.bind_panic hr] at h; have h2 := hms h; simp at h2
  | diverged => rw [M.bind_diverged hr] at h; have h2 := hms h; simp at h2

theorem FaultReported.bind {α β} {m : M α} {f : α → M β} (hm : FaultReported m) (hf : ∀ a, FaultReported (f a)) :
    FaultReported (m >>= f) := by
  intro s h
  have hms := hm s
  rcases hr : m s with ⟨r, s'⟩
  rw [hr] at hms
  cases r with
  | ok a =>
    rw [M.bind_ok hr] at h ⊢
    by_cases hfail : s'.dev.failed = s.dev.failed
    · rw [← hfail] at h; exact hf a s' h
    · obtain ⟨e, he⟩ := hms hfail; cases he
  | err e => rw [M.bind_err hr]; exact ⟨e, rfl⟩
  | panic msg => rw [M.bind_panic hr] at h; obtain ⟨e, he⟩ := hms h; cases he
  | diverged => rw [M.bind_diverged hr] at h; obtain ⟨e, he⟩ := hms h; cases he

/-- The `match`-on-the-outcome pattern at the manager level; `P` describes the outcome of `m`
after a device failure. -/
theorem FaultReported.attempt_bind_gen {α β} {m : M α} {k : Res α → M β} (P : Res α → Prop)
    (hm : ∀ s, (m s).2.dev.failed ≠ s.dev.failed → P (m s).1)
    (hk : ∀ r, FaultReported (k r))
    (hP : ∀ r, P r → ∀ s, ∃ e, (k r s).1 = .err e) :
    FaultReported (M.attempt m >>= k) := by
  intro s h
  rw [M.attempt_bind_apply] at h ⊢
  by_cases hfail : (m s).2.dev.failed = s.dev.failed
  · rw [← hfail] at h; exact hk _ _ h
  · exact hP _ (hm s hfail) _

theorem FaultReported.attempt_bind {α β} {m : M α} {k : Res α → M β}
    (hm : MStrict m) (hk : ∀ r, FaultReported (k r))
    (hdev : ∀ s, ∃ e, (k (.err .DeviceError) s).1 = .err e) :
    FaultReported (M.attempt m >>= k) :=
  .attempt_bind_gen (fun r => r = .err .DeviceError) hm hk (fun _ hr => hr ▸ hdev)

theorem FaultReported.attempt_bind_inner {σ γ β} {m : M (σ × Res γ)} {k : Res (σ × Res γ) → M β}
    (hm : MInner m) (hk : ∀ r, FaultReported (k r))
    (hdev : ∀ st s, ∃ e, (k (.ok (st, .err .DeviceError)) s).1 = .err e) :
    FaultReported (M.attempt m >>= k) :=
  .attempt_bind_gen (fun r => ∃ st, r = .ok (st, .err .DeviceError)) hm hk
    (fun _ ⟨st, hr⟩ => hr ▸ hdev st)

/-- Attempting something that leaves the device alone. -/
theorem FaultReported.attempt_bind_nodev {α β} {m : M α} {k : Res α → M β}
    (hm : ∀ s, (m s).2.dev = s.dev) (hk : ∀ r, FaultReported (k r)) :
    FaultReported (M.attempt m >>= k) :=
  .attempt_bind_gen (fun _ => False) (fun s h => by rw [hm s] at h; exact h rfl) hk (fun _ h => h.elim)

theorem MStrict.attempt_bind {α β} {m : M α} {k : Res α → M β}
    (hm : MStrict m) (hk : ∀ r, MStrict (k r))
    (hdev : ∀ s, (k (.err .DeviceError) s).1 = .err .DeviceError) :
    MStrict (M.attempt m >>= k) := by
  intro s h
  rw [M.attempt_bind_apply] at h ⊢
  by_cases hfail : (m s).2.dev.failed = s.dev.failed
  · rw [← hfail] at h; exact hk _ _ h
  · rw [hm s hfail]; exact hdev _

/-! ### Invariants -/

section Inv
variable {R : Mgr → Mgr → Prop}

theorem M.Inv.of_eq [RelOK R] {α} {m : M α} (h : ∀ s, (m s).2 = s) : M.Inv R m := by
  intro s; rw [h s]; exact RelOK.refl s

theorem M.Inv.pure [RelOK R] {α} (a : α) : M.Inv R (pure a : M α) := .of_eq fun _ => rfl
theorem M.Inv.lift [RelOK R] {α} (r : Res α) : M.Inv R (M.lift r) := .of_eq fun _ => rfl
theorem M.Inv.fail [RelOK R] {α} (e : Err) : M.Inv R (M.fail e : M α) := .of_eq fun _ => rfl
theorem M.Inv.panic [RelOK R] {α} (msg : String) : M.Inv R (M.panic msg : M α) := .of_eq fun _ => rfl
theorem M.Inv.get [RelOK R] : M.Inv R M.get := .of_eq fun _ => rfl
theorem M.Inv.getVolumeById [RelOK R] (raw : Nat) : M.Inv R (getVolumeById raw) := .of_eq (getVolumeById_state raw)
theorem M.Inv.getDirById [RelOK R] (raw : Nat) : M.Inv R (getDirById raw) := .of_eq (getDirById_state raw)
theorem M.Inv.getFileById [RelOK R] (raw : Nat) : M.Inv R (getFileById raw) := .of_eq (getFileById_state raw)
theorem M.Inv.getDir [RelOK R] (i : Nat) : M.Inv R (getDir i) := .of_eq (getDir_state i)
theorem M.Inv.getFile [RelOK R] (i : Nat) : M.Inv R (getFile i) := .of_eq (getFile_state i)
theorem M.Inv.getVolInfo [RelOK R] (i : Nat) : M.Inv R (getVolInfo i) := .of_eq (getVolInfo_state i)
theorem M.Inv.toSfn [RelOK R] (n : List Nat) : M.Inv R (toSfn n) := .of_eq (toSfn_state n)

theorem M.Inv.bind [RelOK R] {α β} {m : M α} {f : α → M β} (hm : M.Inv R m) (hf : ∀ a, M.Inv R (f a)) :
    M.Inv R (m >>= f) := by
  intro s
  have hms := hm s
  rcases hr : m s with ⟨r, s'⟩
  rw [hr] at hms
  cases r with
  | ok a => rw [M.bind_ok hr]; exact RelOK.trans hms (hf a s')
  | err e => rw [M.bind_err hr]; exact hms
  | panic msg => rw [M.bind_panic hr]; exact hms
  | diverged => rw [M.bind_diverged hr]; exact hms

theorem M.Inv.attempt {α} {m : M α} (hm : M.Inv R m) : M.Inv R (M.attempt m) := fun s => hm s

/-- A relation on manager states that only looks at the device and is the image of the
relation `RF` on FAT-level states. -/
class MDev (R : Mgr → Mgr → Prop) (RF : outParam (FS → FS → Prop)) : Prop extends RelOK R where
  of_dev_eq : ∀ s s', s'.dev = s.dev → s'.cache = s.cache → R s s'
  of_fs : ∀ (s : Mgr) (fs fs' : FS) (vs : List VolInfo), fs.dev = s.dev → fs.cache = s.cache → RF fs fs' →
    R s { s with dev := fs'.dev, cache := fs'.cache, vols := vs }

theorem M.Inv.modify_dev {RF} [MDev R RF] {f : Mgr → Mgr} (h : ∀ s, (f s).dev = s.dev ∧ (f s).cache = s.cache) :
    M.Inv R (M.modify f) :=
  fun s => MDev.of_dev_eq s _ (h s).1 (h s).2
theorem M.Inv.generate_dev {RF} [MDev R RF] : M.Inv R generate := fun s => MDev.of_dev_eq s _ rfl rfl
theorem M.Inv.setFile_dev {RF} [MDev R RF] (i : Nat) (f : FileInfo) : M.Inv R (setFile i f) :=
  fun s => MDev.of_dev_eq s _ rfl rfl
theorem M.Inv.modifyFile_dev {RF} [MDev R RF] (i : Nat) (g : FileInfo → FileInfo) : M.Inv R (modifyFile i g) :=
  fun s => MDev.of_dev_eq s _ rfl rfl

theorem M.Inv.withVol_dev {RF} [MDev R RF] {α} {f : F α} (i : Nat) (hf : F.Inv RF f) : M.Inv R (withVol i f) := by
  intro s
  rcases withVol_cases i f s with ⟨_, he⟩ | ⟨vi, _, he⟩
  · rw [he]; exact RelOK.refl s
  · rw [he]; exact MDev.of_fs s _ _ _ rfl rfl (hf _)

/-- Relations that `withVol` respects whatever runs inside (they look at the tables only). -/
class WithVolOK (R : Mgr → Mgr → Prop) : Prop extends RelOK R where
  withVol : ∀ {α} (i : Nat) (f : F α), M.Inv R (withVol i f)

theorem M.Inv.withVol_tables [WithVolOK R] {α} (i : Nat) (f : F α) : M.Inv R (withVol i f) := WithVolOK.withVol i f

end Inv

def MFailedLe (s s' : Mgr) : Prop := s.dev.failed ≤ s'.dev.failed
def MNoWrite (s s' : Mgr) : Prop := s'.dev.wlog = s.dev.wlog ∧ s'.dev.disk = s.dev.disk

instance : RelOK MFailedLe := ⟨fun _ => Nat.le_refl _, fun h1 h2 => Nat.le_trans h1 h2⟩
instance : RelOK MNoWrite := ⟨fun _ => ⟨rfl, rfl⟩, fun h1 h2 => ⟨h2.1.trans h1.1, h2.2.trans h1.2⟩⟩

instance : MDev MFailedLe FailedLe where
  of_dev_eq := fun s s' h _ => by unfold MFailedLe; rw [h]; exact Nat.le_refl _
  of_fs := fun s fs fs' vs h _ hr => by
    unfold MFailedLe; unfold FailedLe at hr; rw [h] at hr; exact hr

instance : MDev MNoWrite NoWrite where
  of_dev_eq := fun s s' h _ => by unfold MNoWrite; rw [h]; exact ⟨rfl, rfl⟩
  of_fs := fun s fs fs' vs h _ hr => by
    unfold MNoWrite; unfold NoWrite at hr; rw [h] at hr; exact hr

/-- The manager's cache is coherent with the medium. -/
def MCoh (s : Mgr) : Prop := ∀ i, s.cache.tag = some i → s.cache.blk = s.dev.disk.get i
def MCohRel (s s' : Mgr) : Prop := MCoh s → MCoh s'
instance : RelOK MCohRel := ⟨fun _ h => h, fun h1 h2 h => h2 (h1 h)⟩

instance : MDev MCohRel CohRel where
  of_dev_eq := fun s s' hd hc h => by unfold MCoh at h ⊢; rw [hd, hc]; exact h
  of_fs := fun s fs fs' vs hd hc hr h => by
    have h0 : Coh fs := by unfold Coh; unfold MCoh at h; rw [hd, hc]; exact h
    exact hr h0

end Sdmmc.Lemmas.Fault
