/-
Volume invariant (C03), layer 0: the slot vocabulary of `Sdmmc.Spec.Volume`.

* the definitions coincide (definitionally) with those of `Sdmmc.Lemmas.Listing` / `Props.C06`;
* how `beforeEnd`, `entries`, `CleanTail` behave when ONE slot of a directory is replaced
  (`entries_split`, `cleanTail_split`) and when zero slots are appended (`entries_append_zeros`).
-/
import Sdmmc.Spec.Volume
import Sdmmc.Lemmas.Listing

namespace Sdmmc.Lemmas.VolBase
open Sdmmc.Model Sdmmc.Model.Fat Sdmmc.Spec Sdmmc.Spec.Volume

/-! ### The same vocabulary as C06 -/

theorem blockSlots_eq (b : Nat) (blk : Block) : blockSlots b blk = Listing.blockSlots b blk := rfl
theorem runSlots_eq (d : Disk) (b n : Nat) : runSlots d b n = Listing.dirSlots d b n := rfl
theorem chainSlots_eq (v : FatVolume) (d : Disk) (cs : List Nat) : chainSlots v d cs = Listing.chainSlots v d cs := rfl
theorem beforeEnd_eq (ss : List Slot) : beforeEnd ss = Listing.beforeEnd ss := rfl
theorem live_eq (ss : List Slot) : live ss = Listing.live ss := rfl
theorem cleanTail_eq (ss : List Slot) : CleanTail ss = Listing.CleanTail ss := rfl
theorem entries_eq_listing (ss : List Slot) :
    entries ss = (Listing.live ss).filter fun s => !Listing.isFragment s.2.2 := rfl
theorem first_eq (s : Slot) : first s = Listing.firstByte s.2.2 := rfl

/-! ### One slot replaced -/

/-- What keeps a slot before the end marker among the entries: not deleted, not a fragment. -/
def keep (s : Slot) : Bool := decide (first s ≠ 0xE5) && !isFrag s

theorem entries_eq (ss : List Slot) : entries ss = (beforeEnd ss).filter keep := by
  unfold entries live keep
  rw [List.filter_filter]
  congr 1
  funext s
  rw [Bool.and_comm]

theorem beforeEnd_nil : beforeEnd [] = [] := rfl
theorem entries_nil : entries [] = [] := rfl

theorem beforeEnd_cons_z (x : Slot) (l : List Slot) (h : first x = 0) : beforeEnd (x :: l) = [] := by
  simp [beforeEnd, h]

theorem beforeEnd_cons_nz (x : Slot) (l : List Slot) (h : first x ≠ 0) : beforeEnd (x :: l) = x :: beforeEnd l := by
  simp [beforeEnd, h]

theorem beforeEnd_append_nz (pre rest : List Slot) (h : ∀ s ∈ pre, first s ≠ 0) :
    beforeEnd (pre ++ rest) = pre ++ beforeEnd rest := by
  induction pre with
  | nil => rfl
  | cons a pre ih =>
    rw [List.cons_append, beforeEnd_cons_nz _ _ (h a List.mem_cons_self), ih fun s hs => h s (List.mem_cons_of_mem _ hs)]
    rfl

theorem beforeEnd_zeros (l : List Slot) (h : ∀ t ∈ l, first t = 0) : beforeEnd l = [] := by
  cases l with
  | nil => rfl
  | cons a l => exact beforeEnd_cons_z a l (h a List.mem_cons_self)

theorem entries_zeros (l : List Slot) (h : ∀ t ∈ l, first t = 0) : entries l = [] := by
  rw [entries_eq, beforeEnd_zeros l h]; rfl

/-- The entries of a directory around a slot `x` all of whose predecessors are non-zero. -/
theorem entries_split (pre post : List Slot) (x : Slot) (hpre : ∀ s ∈ pre, first s ≠ 0) :
    entries (pre ++ x :: post) =
      pre.filter keep ++ (if first x = 0 then [] else (if keep x then [x] else []) ++ entries post) := by
  rw [entries_eq, beforeEnd_append_nz pre _ hpre, List.filter_append]
  congr 1
  by_cases hx : first x = 0
  · rw [beforeEnd_cons_z x post hx, if_pos hx]; rfl
  · rw [beforeEnd_cons_nz x post hx, if_neg hx, List.filter_cons, entries_eq]
    split <;> rfl

theorem dropWhile_append_nz (pre rest : List Slot) (h : ∀ s ∈ pre, first s ≠ 0) :
    (pre ++ rest).dropWhile (fun s => decide (first s ≠ 0)) = rest.dropWhile (fun s => decide (first s ≠ 0)) := by
  induction pre with
  | nil => rfl
  | cons a pre ih =>
    rw [List.cons_append, List.dropWhile_cons]
    simp only [h a List.mem_cons_self, ne_eq, not_false_eq_true, decide_true, if_true]
    exact ih fun s hs => h s (List.mem_cons_of_mem _ hs)

theorem cleanTail_cons_z (x : Slot) (l : List Slot) (h : first x = 0) : CleanTail (x :: l) ↔ ∀ t ∈ l, first t = 0 := by
  unfold CleanTail
  rw [List.dropWhile_cons]
  simp only [h, ne_eq, not_true_eq_false, decide_false, Bool.false_eq_true, if_false]
  constructor
  · intro hh t ht; exact hh t (List.mem_cons_of_mem _ ht)
  · intro hh t ht
    rcases List.mem_cons.1 ht with rfl | ht
    · exact h
    · exact hh t ht

theorem cleanTail_cons_nz (x : Slot) (l : List Slot) (h : first x ≠ 0) : CleanTail (x :: l) ↔ CleanTail l := by
  unfold CleanTail
  rw [List.dropWhile_cons]
  simp only [h, ne_eq, not_false_eq_true, decide_true, if_true]

theorem cleanTail_split (pre post : List Slot) (x : Slot) (hpre : ∀ s ∈ pre, first s ≠ 0) :
    CleanTail (pre ++ x :: post) ↔ (if first x = 0 then ∀ t ∈ post, first t = 0 else CleanTail post) := by
  have : CleanTail (pre ++ x :: post) ↔ CleanTail (x :: post) := by
    unfold CleanTail; rw [dropWhile_append_nz pre _ hpre]
  rw [this]
  by_cases hx : first x = 0
  · rw [if_pos hx]; exact cleanTail_cons_z x post hx
  · rw [if_neg hx]; exact cleanTail_cons_nz x post hx

theorem cleanTail_zeros (l : List Slot) (h : ∀ t ∈ l, first t = 0) : CleanTail l := by
  intro t ht
  exact h t (List.dropWhile_subset _ ht)

/-! ### Zero slots appended (a directory grows by a blank cluster) -/

theorem beforeEnd_append_zeros (ss zs : List Slot) (hz : ∀ t ∈ zs, first t = 0) : beforeEnd (ss ++ zs) = beforeEnd ss := by
  induction ss with
  | nil => rw [List.nil_append]; exact beforeEnd_zeros zs hz
  | cons a ss ih =>
    by_cases ha : first a = 0
    · rw [List.cons_append, beforeEnd_cons_z _ _ ha, beforeEnd_cons_z _ _ ha]
    · rw [List.cons_append, beforeEnd_cons_nz _ _ ha, beforeEnd_cons_nz _ _ ha, ih]

theorem entries_append_zeros (ss zs : List Slot) (hz : ∀ t ∈ zs, first t = 0) : entries (ss ++ zs) = entries ss := by
  rw [entries_eq, entries_eq, beforeEnd_append_zeros ss zs hz]

theorem cleanTail_append_zeros (ss zs : List Slot) (hz : ∀ t ∈ zs, first t = 0) (h : CleanTail ss) :
    CleanTail (ss ++ zs) := by
  induction ss with
  | nil => rw [List.nil_append]; exact cleanTail_zeros zs hz
  | cons a ss ih =>
    by_cases ha : first a = 0
    · rw [List.cons_append, cleanTail_cons_z _ _ ha]
      rw [cleanTail_cons_z _ _ ha] at h
      intro t ht
      rcases List.mem_append.1 ht with ht | ht
      · exact h t ht
      · exact hz t ht
    · rw [List.cons_append, cleanTail_cons_nz _ _ ha]
      rw [cleanTail_cons_nz _ _ ha] at h
      exact ih h

theorem mem_beforeEnd {ss : List Slot} {s : Slot} (h : s ∈ beforeEnd ss) : s ∈ ss ∧ first s ≠ 0 := by
  induction ss with
  | nil => cases h
  | cons a ss ih =>
    by_cases ha : first a = 0
    · rw [beforeEnd_cons_z _ _ ha] at h; cases h
    · rw [beforeEnd_cons_nz _ _ ha] at h
      rcases List.mem_cons.1 h with rfl | h
      · exact ⟨List.mem_cons_self, ha⟩
      · exact ⟨List.mem_cons_of_mem _ (ih h).1, (ih h).2⟩

theorem mem_entries {ss : List Slot} {s : Slot} (h : s ∈ entries ss) :
    s ∈ ss ∧ first s ≠ 0 ∧ first s ≠ 0xE5 ∧ isFrag s = false := by
  rw [entries_eq, List.mem_filter] at h
  obtain ⟨h1, h2⟩ := h
  obtain ⟨h3, h4⟩ := mem_beforeEnd h1
  unfold keep at h2
  simp only [Bool.and_eq_true, decide_eq_true_eq, Bool.not_eq_true'] at h2
  exact ⟨h3, h4, h2.1, h2.2⟩

end Sdmmc.Lemmas.VolBase
