/-
Tie of the SD-card driver to the source text (`Props/C12GenM`, `C13GenM`, `C14GenM`): the machine translations in
`Gen/FunsSd.lean` (tools/translate_sd.py) of the methods of `SdCardInner` and `Delay` are EQUAL to the hand-written
model `Model/Sd.lean`, as functions `St σ → SRes α × St σ`, for every bus `B`.  Part 1: the monad, the SPI wrappers,
`Delay::delay`, `wait_not_busy`, `card_command`, `card_acmd`.
-/
import Sdmmc.Gen.FunsSd
import Sdmmc.Lemmas.SdBasic
import Sdmmc.Lemmas.GenBits
import Sdmmc.Props.C19Gen

namespace Sdmmc.Lemmas.GenSd
open Sdmmc.Model Sdmmc.Model.Sd Sdmmc.Gen Sdmmc.Lemmas.Sd

variable {σ : Type} (B : BusOps σ)

/-- For evaluated examples (`SRes` has no decidable equality): the error / the panic message of an outcome. -/
def errOf {α : Type} : SRes α → Option SdErr
  | .err e => some e
  | _ => none
def panicOf {α : Type} : SRes α → Option String
  | .panic p => some p
  | _ => none
def isOk {α : Type} : SRes α → Bool
  | .ok _ => true
  | _ => false

@[simp] theorem panic_apply {α : Type} (m : String) (s : St σ) : (S.panic m : S σ α) s = (.panic m, s) := rfl

theorem delayUs_eq (us : Nat) : FunsSd.delayUs B us = delayTick B := rfl

theorem delay_zero (e : SdErr) : FunsSd.Delay_delay B 0 e = S.fail e := by
  unfold FunsSd.Delay_delay
  rw [if_pos rfl]

theorem delay_succ (n : Nat) (e : SdErr) : FunsSd.Delay_delay B (n + 1) e = (delayTick B >>= fun _ => pure n) := by
  unfold FunsSd.Delay_delay
  rw [if_neg (Nat.succ_ne_zero n), if_pos (Nat.le_add_left 1 n), delayUs_eq]
  rfl

theorem ofNat255 : UInt8.ofNat 255 = (0xFF : UInt8) := rfl

@[simp] theorem spi_apply (t : FunsSd.Tag) (mosi : Bytes) (s : St σ) :
    FunsSd.spi B t mosi s = (.ok (B.xfer s.bus mosi).2,
      { s with bus := (B.xfer s.bus mosi).1, events := t.event mosi (B.xfer s.bus mosi).2 :: s.events }) := rfl

@[simp] theorem ofOption_some {α : Type} (e : SdErr) (a : α) : (S.ofOption e (some a) : S σ α) = pure a := rfl
@[simp] theorem ofOption_none {α : Type} (e : SdErr) : (S.ofOption e (none : Option α) : S σ α) = S.fail e := rfl

theorem read_byte_eq : FunsSd.read_byte B = readByte B := by
  funext s
  unfold FunsSd.read_byte FunsSd.transfer_byte FunsSd.spiTransfer readByte
  simp only [bind_apply, ofNat255, spi_apply]
  cases h : (B.xfer s.bus [0xFF]).2 <;>
    simp [h, FunsSd.Tag.event, FunsSd.rdByte]

theorem xferEv_apply (ev : Event) (s : St σ) :
    xferEv B ev s = match (B.xfer s.bus ev.bytes).2 with
      | some miso => (.ok miso, { s with bus := (B.xfer s.bus ev.bytes).1, events := ev :: s.events })
      | none => (.err .Transport, { s with bus := (B.xfer s.bus ev.bytes).1, events := ev :: s.events }) := rfl

theorem write_byte_eq (x : Nat) : FunsSd.write_byte B x = writeByte B (UInt8.ofNat x) := by
  funext s
  unfold FunsSd.write_byte FunsSd.transfer_byte FunsSd.spiTransfer writeByte
  simp only [bind_apply, Event.bytes, spi_apply, xferEv_apply]
  cases h : (B.xfer s.bus [UInt8.ofNat x]).2 <;> simp [FunsSd.Tag.event]

theorem write_bytes_cmd_eq (out : Bytes) : FunsSd.write_bytes B .cmd out = (xferEv B (.cmd out) >>= fun _ => pure ()) := by
  funext s
  unfold FunsSd.write_bytes FunsSd.spiWrite
  simp only [bind_apply, Event.bytes, spi_apply, xferEv_apply]
  cases h : (B.xfer s.bus out).2 <;> simp [FunsSd.Tag.event]

theorem write_bytes_data_eq (out : Bytes) : FunsSd.write_bytes B .dataOut out = (xferEv B (.dataOut out) >>= fun _ => pure ()) := by
  funext s
  unfold FunsSd.write_bytes FunsSd.spiWrite
  simp only [bind_apply, Event.bytes, spi_apply, xferEv_apply]
  cases h : (B.xfer s.bus out).2 <;> simp [FunsSd.Tag.event]

theorem transfer_bytes_eq (n : Nat) :
    FunsSd.transfer_bytes B (List.replicate n 0xFF) = xferEv B (.dataIn n) := by
  funext s
  unfold FunsSd.transfer_bytes FunsSd.spiTransferInPlace
  simp only [bind_apply, Event.bytes, spi_apply, xferEv_apply]
  cases h : (B.xfer s.bus (List.replicate n 0xFF)).2 <;> simp [FunsSd.Tag.event]


theorem bind_assoc {α β γ : Type} (m : S σ α) (f : α → S σ β) (g : β → S σ γ) :
    (m >>= f) >>= g = m >>= fun a => f a >>= g := by
  funext s
  simp only [bind_apply]
  rcases m s with ⟨r, s'⟩
  cases r <;> rfl

@[simp] theorem pure_bind {α β : Type} (a : α) (f : α → S σ β) : (pure a : S σ α) >>= f = f a := rfl
@[simp] theorem fail_bind {α β : Type} (e : SdErr) (f : α → S σ β) : (S.fail e : S σ α) >>= f = S.fail e := rfl
@[simp] theorem panic_bind {α β : Type} (p : String) (f : α → S σ β) : (S.panic p : S σ α) >>= f = S.panic p := rfl

theorem ite_bind {α β : Type} (c : Prop) [Decidable c] (a b : S σ α) (f : α → S σ β) :
    (if c then a else b) >>= f = if c then a >>= f else b >>= f := by split <;> rfl

theorem wait_loop (n : Nat) :
    (FunsSd.wait_not_busy_loop1 B (n + 1) n >>= fun _ => pure ()) = waitNotBusy B n := by
  induction n with
  | zero =>
    simp only [FunsSd.wait_not_busy_loop1, waitNotBusy, read_byte_eq, delay_zero, bind_assoc, ite_bind, pure_bind, fail_bind]
  | succ k ih =>
    rw [FunsSd.wait_not_busy_loop1, waitNotBusy]
    simp only [read_byte_eq, delay_succ, bind_assoc, ite_bind, pure_bind, ih]

theorem wait_not_busy_eq (n : Nat) : FunsSd.wait_not_busy B n = waitNotBusy B n := wait_loop B n


theorem and128 (r : Nat) : ((r &&& 128) = 0) = (r / 128 % 2 = 0) := by
  have := Sdmmc.Lemmas.GenBits.and_bit r 7
  simp only [Nat.reducePow] at this
  rw [this]
  apply propext
  omega

theorem response_loop (command n : Nat) :
    FunsSd.card_command_loop1 B command (n + 1) n = waitResponse B command n := by
  induction n with
  | zero =>
    simp only [FunsSd.card_command_loop1, waitResponse, read_byte_eq, delay_zero, fail_bind, and128]
  | succ k ih =>
    rw [FunsSd.card_command_loop1, waitResponse]
    simp only [read_byte_eq, delay_succ, bind_assoc, pure_bind, ih, and128]

theorem ofNat_mod256 (n : Nat) : UInt8.ofNat (n % 256) = UInt8.ofNat n := by
  apply UInt8.eq_of_toBitVec_eq
  apply BitVec.eq_of_toNat_eq
  simp [UInt8.ofNat]

theorem frame_eq (command arg : Nat) :
    (List.set [UInt8.ofNat (64 ||| command), UInt8.ofNat ((arg >>> 24) % 256), UInt8.ofNat ((arg >>> 16) % 256),
        UInt8.ofNat ((arg >>> 8) % 256), UInt8.ofNat (arg % 256), UInt8.ofNat 0] 5
      (UInt8.ofNat (Funs.crc7 (List.take 5 [UInt8.ofNat (64 ||| command), UInt8.ofNat ((arg >>> 24) % 256),
        UInt8.ofNat ((arg >>> 16) % 256), UInt8.ofNat ((arg >>> 8) % 256), UInt8.ofNat (arg % 256), UInt8.ofNat 0]))))
      = frame command arg := by
  unfold frame
  simp only [Sdmmc.Lemmas.GenBits.shr, Nat.reducePow, List.take, List.set, Sdmmc.Props.C19Gen.crc7_eq, List.cons_append, List.nil_append,
    ofNat_mod256, Nat.div_one]
  rfl

theorem card_command_eq (command arg : Nat) : FunsSd.card_command B command arg = cardCommand B command arg := by
  unfold FunsSd.card_command cardCommand
  simp only [frame_eq, wait_not_busy_eq, write_bytes_cmd_eq, read_byte_eq, response_loop, bind_assoc, pure_bind,
    FunsSd.Delay_new_command, FunsSd.Delay_new, ite_bind]
  by_cases h1 : command ≠ 0 ∧ command ≠ 12 <;> by_cases h2 : command = 12 <;>
    simp [h1, h2, CMD0, CMD12, DEFAULT_COMMAND_RETRIES, bind_assoc]

theorem card_acmd_eq (command arg : Nat) : FunsSd.card_acmd B command arg = cardAcmd B command arg := by
  unfold FunsSd.card_acmd cardAcmd
  simp only [card_command_eq]
  rfl

theorem readByte_apply (s : St σ) :
    readByte B s = match (B.xfer s.bus [0xFF]).2 with
      | some miso => (.ok (miso.getD 0 0).toNat, { s with bus := (B.xfer s.bus [0xFF]).1, events := .poll (miso.getD 0 0).toNat :: s.events })
      | none => (.err .Transport, { s with bus := (B.xfer s.bus [0xFF]).1, events := .poll 256 :: s.events }) := rfl

theorem rdByte_eq (b : Bytes) (i : Nat) : FunsSd.rdByte b i = (b.getD i 0).toNat := rfl

end Sdmmc.Lemmas.GenSd
