/-
Bridge `CrashInv` → `Spec.Fs.fsck g d [] false`, part 3 (`VolFsck7`/`VolFsck8` restated over `CrashCore`): one step of
the fold over the objects of a directory (`objStep_ok`: no pending entries, so the effective fields are the raw ones;
no size clause, so a stale size — in either direction — is not looked at), the recursion over the directory tree
(`checkDir_ok`, with (H2) `DepthOK`), and the bridge theorem `crash_fsck_ok`.
-/
import Sdmmc.Lemmas.VolCrashFsck2

namespace Sdmmc.Lemmas.VolCrash.Fsck
open Sdmmc.Model Sdmmc.Model.Fat Sdmmc.Spec.Volume
open Sdmmc.Spec hiding NoFault Coherent
open Sdmmc.Lemmas.VolTree Sdmmc.Lemmas.VolMed Sdmmc.Lemmas.VolBase
open Sdmmc.Lemmas.VolFsck
open Sdmmc.Spec.Fs (Acc DirRef Pending Geom)

/-- Without pending entries the effective fields of a slot are the raw ones. -/
theorem effective_nil {v : FatVolume} {g : Geom} (hg : GeomOf v g) (x : Fs.Slot) :
    Fs.effective g [] x = (sCluster v.fatType (cv x), sSize (cv x)) := by
  show (Fs.clusterOf g x, Fs.sizeOf x) = _
  rw [clusterOf_cv hg, sizeOf_cv]

/-- The clusters an entry of a directory stands for: nothing if it is named `.`/`..`, else the chains of its tokens. -/
def RegV (v : FatVolume) (d : Disk) (gh : Ghost) (o : Slot) (y : Nat) : Prop :=
  dotsB o = false ∧ ∃ t, Tok v d gh o t ∧ y ∈ chainOf gh.G t

/-- What the recursive call of `checkDir` is assumed to do for the sub-directories of `h`. -/
def RecOK (v : FatVolume) (d : Disk) (gh : Ghost) (h : Nat) (rec : DirRef → Nat → Nat → String → Acc → Acc) : Prop :=
  ∀ c, (c, h) ∈ gh.dirs → ∀ (path' : String) (a : Acc), path' ≠ "/" → 1 ≤ path'.length → a.problems = [] →
    (∀ y, Has a y → ¬ Region v d gh c y) →
    (rec (.at c) c h path' a).problems = [] ∧ ∀ y, Has (rec (.at c) c h path' a) y → Has a y ∨ Region v d gh c y

section
variable {v : FatVolume} {d : Disk} {gh : Ghost} {g : Geom} {fat : Array Nat}

/-- The entries of a directory: its objects, after the two dot entries in a sub-directory. -/
theorem entries_shape (hC : CrashCore v d gh) {h : Nat} (hh : h ∈ dirIds gh.dirs) :
    (h = 0 ∧ entries (dirSlots v d gh.G h) = objects h (dirSlots v d gh.G h)) ∨
    (h ≠ 0 ∧ ∃ s0 s1, dotsB s0 = true ∧ dotsB s1 = true ∧
      entries (dirSlots v d gh.G h) = s0 :: s1 :: objects h (dirSlots v d gh.G h)) := by
  by_cases h0 : h = 0
  · left
    refine ⟨h0, ?_⟩
    unfold objects; rw [if_pos h0]
  · right
    refine ⟨h0, ?_⟩
    rcases mem_dirIds.1 hh with e | ⟨p, hp⟩
    · exact absurd e h0
    · obtain ⟨s0, s1, rest, hsl, hd0, hd1⟩ := hC.tree.dots h p hp
      refine ⟨s0, s1, ?_, ?_, ?_⟩
      · unfold dotsB; rw [hd0.1]; simp
      · unfold dotsB; rw [hd1.1]; simp
      · unfold objects
        rw [if_neg h0, hsl, entries_dots hd0 hd1]
        rfl

/-- An entry the checker does not skip is an object of the directory. -/
theorem entry_is_object (hC : CrashCore v d gh) {h : Nat} (hh : h ∈ dirIds gh.dirs) {o : Slot}
    (ho : o ∈ entries (dirSlots v d gh.G h)) (hd : dotsB o = false) :
    o ∈ objects h (dirSlots v d gh.G h) := by
  rcases entries_shape hC hh with ⟨_, e⟩ | ⟨_, s0, s1, d0, d1, e⟩
  · rw [← e]; exact ho
  · rw [e] at ho
    rcases List.mem_cons.1 ho with rfl | ho
    · rw [d0] at hd; cases hd
    · rcases List.mem_cons.1 ho with rfl | ho
      · rw [d1] at hd; cases hd
      · exact ho

/-- **One object.** -/
theorem objStep_ok (hC : CrashCore v d gh) (hg : GeomOf v g) (hfat : FatIs v d fat) (h1 : NoOne v d) {h : Nat}
    (hh : h ∈ dirIds gh.dirs) {path : String} (hpath : path = "/" ↔ h = 0)
    (hplen : 1 ≤ path.length) {rec : DirRef → Nat → Nat → String → Acc → Acc} (hrec : RecOK v d gh h rec)
    {x : Fs.Slot} (hx : cv x ∈ entries (dirSlots v d gh.G h)) {a : Acc} (ha : a.problems = [])
    (hfree : ∀ y, Has a y → ¬ RegV v d gh (cv x) y) :
    (objStep g fat [] false rec (refOf v h) path a x).problems = [] ∧
      ∀ y, Has (objStep g fat [] false rec (refOf v h) path a x) y → Has a y ∨ RegV v d gh (cv x) y := by
  have hG := lheads hC
  have hT := hC.tree
  unfold objStep
  cases hdots : Fs.isDots x with
  | true => exact ⟨ha, fun y hy => .inl hy⟩
  | false =>
    have hdv : dotsB (cv x) = false := by rw [← isDots_cv]; exact hdots
    have ho := entry_is_object hC hh hx hdv
    simp only [Bool.false_eq_true, if_false, effective_nil hg]
    cases hd : isDirE (cv x) with
    | true =>
      have hds : Fs.isDirSlot x = true := hd
      have hc := hT.subdirs h hh _ ho hd
      have hir : Fs.inRange g (sCluster v.fatType (cv x)) = true := by
        rw [hg.inRange]
        obtain ⟨m, e⟩ := chainOf_spec hG (dir_mem_heads hT hc)
        exact linRange hC m (List.mem_of_mem_head? e)
      simp only [hds, if_true, hir, Bool.not_true, Bool.false_eq_true, if_false, parentArg_eq hpath]
      obtain ⟨hp1, hp2⟩ := subpath_ne path (Fs.showName (Fs.nameOf x)) hplen
      have hreg : ∀ y, RegV v d gh (cv x) y ↔ Region v d gh (sCluster v.fatType (cv x)) y := by
        intro y
        unfold RegV Region
        constructor
        · rintro ⟨_, t, ht, hy⟩; exact ⟨t, (tok_dir hd t).1 ht, hy⟩
        · rintro ⟨t, ht, hy⟩; exact ⟨hdv, t, (tok_dir hd t).2 ht, hy⟩
      obtain ⟨r1, r2⟩ := hrec _ hc _ a hp1 hp2 ha (fun y hy hr => hfree y hy ((hreg y).2 hr))
      -- the two guards of the walk are inert: the sub-directory's first cluster is not yet claimed, no problem so far
      have hc2 : 2 ≤ sCluster v.fatType (cv x) := dir_ge_two hT hG hc
      have hself : Region v d gh (sCluster v.fatType (cv x)) (sCluster v.fatType (cv x)) := by
        obtain ⟨_, e⟩ := chainOf_spec hG (dir_mem_heads hT hc)
        have hne0 : sCluster v.fatType (cv x) ≠ 0 := by omega
        refine ⟨sCluster v.fatType (cv x), ⟨_, Under.refl, mem_dirIds.2 (.inr ⟨h, hc⟩), .inl ⟨fun hf => hne0 hf.1, ?_⟩⟩,
          List.mem_of_mem_head? e⟩
        unfold dirHead
        rw [if_neg hne0]
      have hnot : a.owned.contains (sCluster v.fatType (cv x)) = false := by
        cases hcon : a.owned.contains (sCluster v.fatType (cv x)) with
        | false => rfl
        | true =>
          exfalso
          refine hfree _ ?_ ((hreg _).2 hself)
          unfold Has
          intro hn
          have := Std.TreeMap.contains_eq_isSome_getElem? (t := a.owned) (a := sCluster v.fatType (cv x))
          rw [hn] at this
          rw [this] at hcon
          cases hcon
      have hlen : ¬ a.problems.length > 40 := by rw [ha]; simp
      rw [hnot]
      simp only [Bool.false_eq_true, if_false, hlen]
      exact ⟨r1, fun y hy => (r2 y hy).imp id (hreg y).2⟩
    | false =>
      have hds : Fs.isDirSlot x = false := hd
      simp only [hds, Bool.false_eq_true, if_false]
      by_cases hc0 : sCluster v.fatType (cv x) = 0
      · -- no cluster: the size (possibly stale) is not looked at
        simp only [hc0, if_true, Bool.not_false, or_true]
        exact ⟨ha, fun y hy => .inl hy⟩
      · rw [if_neg hc0]
        obtain ⟨m, e⟩ := chainOf_spec hG (fileRef_mem_heads hT hh ho hd hc0)
        have hch := lchain hC m
        rw [headD_of_head? e] at hch
        have hct := chainT_of_chain hg hC.geom hfat h1 hch
        simp only [hct]
        -- the chain's length (possibly shorter than the stale size asks for) is not looked at
        simp only [false_and, if_false]
        have hcl := claim_ok (chainOf gh.G (sCluster v.fatType (cv x)))
          { a with filesVisited := a.filesVisited + 1 } (path ++ Fs.showName (Fs.nameOf x)) (lchain_nodup hC m)
          (by
            intro y hy hhas
            exact hfree y hhas ⟨hdv, _, (tok_file hd _).2 ⟨rfl, hc0⟩, hy⟩)
        refine ⟨hcl.1.trans ha, fun y hy => ?_⟩
        rcases (hcl.2 y).1 hy with h' | h'
        · exact .inl h'
        · exact .inr ⟨hdv, _, (tok_file hd _).2 ⟨rfl, hc0⟩, h'⟩

/-- Disjoint token sets give disjoint regions. -/
theorem regV_disjoint (hC : CrashCore v d gh) {h : Nat} (hh : h ∈ dirIds gh.dirs) {o o' : Slot}
    (ho : o ∈ objects h (dirSlots v d gh.G h)) (ho' : o' ∈ objects h (dirSlots v d gh.G h))
    (hd : ∀ x, Tok v d gh o x → ¬ Tok v d gh o' x) : ∀ y, RegV v d gh o y → ¬ RegV v d gh o' y := by
  rintro y ⟨_, t, ht, hy⟩ ⟨_, t', ht', hy'⟩
  by_cases e : t = t'
  · subst e; exact hd t ht ht'
  · exact chains_disjoint hC (subTok_mem_heads hC (tok_subTok hC hh ho ht)) (subTok_mem_heads hC (tok_subTok hC hh ho' ht')) e y hy hy'

/-- Distinct entries of a directory stand for disjoint sets of clusters. -/
theorem entries_regV_pairwise (hC : CrashCore v d gh) {h : Nat} (hh : h ∈ dirIds gh.dirs) :
    (entries (dirSlots v d gh.G h)).Pairwise fun o o' => ∀ y, RegV v d gh o y → ¬ RegV v d gh o' y := by
  have hobj : (objects h (dirSlots v d gh.G h)).Pairwise fun o o' => ∀ y, RegV v d gh o y → ¬ RegV v d gh o' y :=
    List.Pairwise.imp_of_mem (fun ha hb hab => regV_disjoint hC hh ha hb hab) (objects_tok_pairwise hC hh)
  rcases entries_shape hC hh with ⟨_, e⟩ | ⟨_, s0, s1, d0, d1, e⟩
  · rw [e]; exact hobj
  · rw [e, List.pairwise_cons, List.pairwise_cons]
    refine ⟨?_, ?_, hobj⟩
    · rintro o' _ y ⟨hd, _⟩ _; rw [d0] at hd; cases hd
    · rintro o' _ y ⟨hd, _⟩ _; rw [d1] at hd; cases hd

/-- **F5.** Walking a directory of the tree with enough fuel, from an accumulator without problems that owns no
cluster of the directory's sub-tree: no problem is added, and only clusters of the sub-tree are claimed. -/
theorem checkDir_ok (hC : CrashCore v d gh) (hg : GeomOf v g) (hfat : FatIs v d fat) (h1 : NoOne v d)
    (h2 : DepthOK gh.dirs) :
    ∀ (fuel h k : Nat), Depth gh.dirs h k → 64 ≤ k + fuel → ∀ (self parent : Nat) (path : String) (a : Acc),
      (h ≠ 0 → self = h) → (h ≠ 0 → (h, parent) ∈ gh.dirs) → (path = "/" ↔ h = 0) → 1 ≤ path.length →
      a.problems = [] → (∀ y, Has a y → ¬ Region v d gh h y) →
      (Fs.checkDir g d fat [] false fuel (refOf v h) self parent path a).problems = [] ∧
        ∀ y, Has (Fs.checkDir g d fat [] false fuel (refOf v h) self parent path a) y → Has a y ∨ Region v d gh h y
  | 0, h, k, hd, hk, _, _, _, _, _, _, _, _, _, _ => by
    have := h2 h k hd
    omega
  | fuel + 1, h, k, hd, hk, self, parent, path, a, hself, hpar, hpath, hplen, ha, hfree => by
    have hG := lheads hC
    have hT := hC.tree
    have hh := depth_mem_dirIds hd
    obtain ⟨hds, hss⟩ := dirSlotsT_ok hC hg hfat h1 hh
    rw [checkDir_succ, hds]
    simp only
    rw [dirPre_eq hC hg hh hss hself hpar hpath]
    -- the directory's own chain
    have hown : ∀ y, y ∈ dirChain v gh.G h → Region v d gh h y := by
      intro y hy
      unfold dirChain at hy
      by_cases hf : isFixedRoot v h
      · rw [if_pos hf] at hy; cases hy
      · rw [if_neg hf] at hy
        exact ⟨dirHead v h, subTok_self ⟨hh, .inl ⟨hf, rfl⟩⟩, hy⟩
    have hnd : (dirChain v gh.G h).Nodup := by
      unfold dirChain
      by_cases hf : isFixedRoot v h
      · rw [if_pos hf]; exact List.nodup_nil
      · rw [if_neg hf]; exact lchain_nodup hC (dirChain_spec hC hh hf).1
    obtain ⟨c1, c2⟩ := claim_ok (dirChain v gh.G h) { a with dirsVisited := a.dirsVisited + 1 } path hnd
      (fun y hy hhas => hfree y hhas (hown y hy))
    -- the objects
    have hmap := objects_cv (fsDirSlots v g d gh.G h)
    rw [hss] at hmap
    have hmem : ∀ x, x ∈ Fs.objects (fsDirSlots v g d gh.G h) → cv x ∈ entries (dirSlots v d gh.G h) := by
      intro x hx
      have : cv x ∈ (Fs.objects (fsDirSlots v g d gh.G h)).map cv := List.mem_map_of_mem hx
      rw [hmap] at this
      exact (List.mem_filter.1 this).1
    have hpw : (Fs.objects (fsDirSlots v g d gh.G h)).Pairwise
        fun x x' => ∀ y, RegV v d gh (cv x) y → ¬ RegV v d gh (cv x') y := by
      rw [← List.pairwise_map (f := cv) (R := fun o o' => ∀ y, RegV v d gh o y → ¬ RegV v d gh o' y), hmap]
      exact List.Pairwise.sublist List.filter_sublist (entries_regV_pairwise hC hh)
    have hrec : RecOK v d gh h (Fs.checkDir g d fat [] false fuel) := by
      intro c hc path' a' hp1 hp2 ha' hfree'
      have hc0 : c ≠ 0 := by have := dir_ge_two hT hG hc; omega
      have := checkDir_ok hC hg hfat h1 h2 fuel c (k + 1) (.sub hc hd) (by omega) c h path' a' (fun _ => rfl) (fun _ => hc)
        ⟨fun e => absurd e hp1, fun e => absurd e hc0⟩ hp2 ha' hfree'
      rw [refOf_sub hc0] at this
      exact this
    -- a region of an entry lies in the sub-tree, and misses the directory's own chain
    have hsubreg : ∀ x, x ∈ Fs.objects (fsDirSlots v g d gh.G h) → ∀ y, RegV v d gh (cv x) y →
        Region v d gh h y ∧ y ∉ dirChain v gh.G h := by
      rintro x hx y ⟨hdv, t, ht, hy⟩
      have ho := entry_is_object hC hh (hmem x hx) hdv
      have hst := tok_subTok hC hh ho ht
      refine ⟨⟨t, hst, hy⟩, ?_⟩
      intro hyd
      unfold dirChain at hyd
      by_cases hf : isFixedRoot v h
      · rw [if_pos hf] at hyd; cases hyd
      · rw [if_neg hf] at hyd
        by_cases e : t = dirHead v h
        · subst e; exact dirHead_not_tok hC hh hf ho ht
        · exact chains_disjoint hC (subTok_mem_heads hC hst) (dirHead_mem hC hh hf) e y hy hyd
    obtain ⟨f1, f2⟩ := foldl_regions
      (objStep g fat [] false (Fs.checkDir g d fat [] false fuel) (refOf v h) path)
      (fun x y => RegV v d gh (cv x) y) _ hpw
      (fun x hx a' ha' hfree' => objStep_ok hC hg hfat h1 hh hpath hplen hrec (hmem x hx) ha' hfree')
      _ (c1.trans ha) (by
        intro x hx y hy hr
        obtain ⟨r1, r2⟩ := hsubreg x hx y hr
        rcases (c2 y).1 hy with h' | h'
        · exact hfree y h' r1
        · exact r2 h')
    refine ⟨f1, fun y hy => ?_⟩
    rcases f2 y hy with h' | ⟨x, hx, hr⟩
    · rcases (c2 y).1 h' with h'' | h''
      · exact .inl h''
      · exact .inr (hown y h'')
    · exact .inr (hsubreg x hx y hr).1

/-- The bridge over `CrashCore` (block lengths and the FAT entries of lost clusters stated separately). -/
theorem core_fsck_ok (hC : CrashCore v d gh) (hb : BlocksOK d) (hF : FatEntriesOK v d) (hg : GeomOf v g)
    (h1 : NoOne v d) (h2 : DepthOK gh.dirs) : (Fs.fsck g d [] false).problems = [] := by
  have hfat := fatIs_loadFat hg hb
  have hF' := checkFatEntries_ok hg hC.geom hF hfat h1
  have hD := (checkDir_ok hC hg hfat h1 h2 64 0 0 .root (by omega) (if g.fat32 then g.rootCluster else 0) 0 "/" {}
    (fun e => absurd rfl e) (fun e => absurd rfl e) ⟨fun _ => rfl, fun _ => rfl⟩ (by decide) rfl
    (fun y hy => absurd hy (has_empty y))).1
  rw [← rootRef_eq hg] at hD
  show Fs.checkFatEntries g (Fs.loadFat g d) ++
    (Fs.checkDir g d (Fs.loadFat g d) [] false 64 (Fs.rootRef g) (if g.fat32 then g.rootCluster else 0) 0 "/" {}).problems = []
  rw [hF', hD]
  rfl

end

end Sdmmc.Lemmas.VolCrash.Fsck

namespace Sdmmc.Lemmas.VolCrash
open Sdmmc.Model Sdmmc.Model.Fat Sdmmc.Spec.Volume
open Sdmmc.Spec hiding NoFault Coherent

/-- **The bridge for crashed media.**  On a medium satisfying the crash-consistency invariant `CrashInv` — structurally
sound up to lost clusters and stale sizes — whose FAT entries are all well-formed (`FatEntriesOK`: also those of lost
clusters, which `OwnsLoose` does not cover), the independent structure checker, run without pending entries and in its
crash-consistency variant (`sizeClause = false`: the two size checks D5 are skipped), finds no problem — provided (H1)
no FAT32 entry of a data cluster is `1` (`NoOne`) and (H2) no directory lies deeper than 63 levels (`DepthOK`), the
two hypotheses of the bridge `fsck_ok` from `VolInv`. -/
theorem crash_fsck_ok (v : FatVolume) (d : Disk) (gh : Ghost) (hC : CrashInv v d gh) (hF : FatEntriesOK v d)
    (g : Fs.Geom) (hg : GeomOf v g) (h1 : NoOne v d) (h2 : DepthOK gh.dirs) :
    (Fs.fsck g d [] false).problems = [] :=
  Fsck.core_fsck_ok (crashInv_iff.1 hC).2 hC.blocksOK hF hg h1 h2

end Sdmmc.Lemmas.VolCrash
