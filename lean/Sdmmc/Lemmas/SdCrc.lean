/-
Lemmas for C13, part 10: a corrupted data block is not accepted — `read_ok_implies_crc`
combined with the burst-detection theorem of C19.
-/
import Sdmmc.Lemmas.SdData
import Sdmmc.Lemmas.Crc

namespace Sdmmc.Lemmas.Sd
open Sdmmc.Model Sdmmc.Model.Sd Sdmmc.Gen Sdmmc.Spec

variable {σ : Type} (B : BusOps σ)

/-- A byte as the bit vector the CRC functions work on.  Same body as `Sdmmc.Props.C13.toBV`. -/
def toBV (b : UInt8) : BitVec 8 := BitVec.ofNat 8 b.toNat

theorem crc16Nat_eq (buf : Bytes) : crc16Nat buf = (crc16 (buf.map toBV)).toNat := rfl

theorem be_bytes_of_crc (X : BitVec 16) (c0 c1 : UInt8) (h : c0.toNat * 256 + c1.toNat = X.toNat) :
    toBV c0 = X.extractLsb' 8 8 ∧ toBV c1 = X.extractLsb' 0 8 := by
  have h0 := UInt8.toNat_lt c0
  have h1 := UInt8.toNat_lt c1
  constructor
  · apply BitVec.eq_of_toNat_eq
    simp [toBV, BitVec.extractLsb'_toNat, Nat.shiftRight_eq_div_pow]
    omega
  · apply BitVec.eq_of_toNat_eq
    simp [toBV, BitVec.extractLsb'_toNat]
    omega

/-- With CRC on, `read_data` accepts a block only if payload ++ CRC bytes is a consistent frame. -/
theorem read_ok_frame_consistent (s s' : St (σ × Transcript)) (hcrc : s.useCrc = true) (len : Nat)
    (buf crcBytes : Bytes) (hc : crcBytes.length = 2) (t : Transcript)
    (htr : s'.bus.2 = (List.replicate 2 0xFF, some crcBytes) :: (List.replicate len 0xFF, some buf) :: t)
    (b : Bytes) (h : readData (recBus B) len s = (.ok b, s')) :
    b = buf ∧ crc16 ((buf ++ crcBytes).map toBV) = 0#16 := by
  obtain ⟨crc', t', htr', hcheck⟩ := read_ok_implies_crc B len s s' b h
  rw [htr] at htr'
  obtain ⟨h1, h2⟩ := List.cons.inj htr'
  obtain ⟨h3, _⟩ := List.cons.inj h2
  obtain rfl := Option.some.inj (Prod.mk.inj h1).2
  obtain rfl := Option.some.inj (Prod.mk.inj h3).2
  refine ⟨rfl, ?_⟩
  have hcheck := hcheck hcrc
  rcases crcBytes with _ | ⟨c0, _ | ⟨c1, _ | ⟨c2, rest⟩⟩⟩
  · simp at hc
  · simp at hc
  · simp only [List.getD_cons_zero, List.getD_cons_succ] at hcheck
    rw [crc16Nat_eq] at hcheck
    obtain ⟨e0, e1⟩ := be_bytes_of_crc _ c0 c1 hcheck
    rw [List.map_append, List.map_cons, List.map_cons, List.map_nil, e0, e1]
    exact Lemmas.Crc.crc16_append_self _
  · simp at hc

/-- If the 514 bytes received for a block are a consistent frame (payload `m` with its CRC-16)
damaged by a burst of at most 16 bits, `read_data` with CRC on does not return success. -/
theorem corruption_detected (s s' : St (σ × Transcript)) (hcrc : s.useCrc = true)
    (m : List (BitVec 8)) (hm : m.length = 512) (off : Nat) (bits : List Bool) (hne : bits ≠ [])
    (hlen : bits.length ≤ 16) (hfirst : bits.head? = some true) (hfit : off + bits.length ≤ 4112)
    (buf crcBytes : Bytes) (hc : crcBytes.length = 2)
    (hrx : (buf ++ crcBytes).map toBV =
      xorMsg (m ++ [(crc16 m).extractLsb' 8 8, (crc16 m).extractLsb' 0 8]) (errPattern 514 off bits))
    (t : Transcript)
    (htr : s'.bus.2 = (List.replicate 2 0xFF, some crcBytes) :: (List.replicate 512 0xFF, some buf) :: t)
    (r : SRes Bytes) (h : readData (recBus B) 512 s = (r, s')) : ∀ b, r ≠ .ok b := by
  rintro b rfl
  obtain ⟨_, h0⟩ := read_ok_frame_consistent B s s' hcrc 512 buf crcBytes hc t htr b h
  rw [hrx] at h0
  exact Lemmas.Crc.crc16_frame_burst_detected m hm off bits hne hlen hfirst hfit h0

end Sdmmc.Lemmas.Sd
