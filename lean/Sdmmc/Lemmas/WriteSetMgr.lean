/-
C04 over whole calls, manager level, part 1: the plumbing between the manager monad and the engine
(`withVol`), and the calls that touch only a directory slot and the info sector — `flush_file`,
`close_file`, `close_volume`.
-/
import Sdmmc.Lemmas.WriteSetPrim
import Sdmmc.Lemmas.WriteRefinesStep
import Sdmmc.Lemmas.DirMgr

namespace Sdmmc.Lemmas.WriteSet
open Sdmmc.Model Sdmmc.Model.Fat Sdmmc.Spec
open Sdmmc.Lemmas.FBasic hiding NoFault Coherent
open Sdmmc.Lemmas.FatOps hiding BlocksOK Mirror HintOK
open Sdmmc.Lemmas.ReadRefines (MgrOK fsOf)
open Sdmmc.Lemmas.DirEntryIO (flushF)

/-! ### Between manager and engine -/

/-- The standing hypotheses on a manager state and one of its open volumes. -/
structure MSound (s : Mgr) (v : VolInfo) : Prop where
  ok : MgrOK s
  geom : WFGeom v.vol
  hint : HintOK v.vol
  mirror : Mirror v.vol s.dev.disk

theorem MSound.fs {s : Mgr} {v : VolInfo} (h : MSound s v) : Sound (fsOf s v) :=
  ⟨⟨h.ok.1, h.ok.2.1, h.ok.2.2.1, h.geom, h.hint⟩, h.mirror⟩

/-- Back from the engine: the state `withVol` builds from a sound engine state is sound. -/
theorem MSound.of_fs {s : Mgr} {v : VolInfo} {fs' : FS} (hunl : s.locked = false) (hs : Sound fs') (vols : List VolInfo) :
    MSound { s with dev := fs'.dev, cache := fs'.cache, vols := vols } { v with vol := fs'.vol } :=
  ⟨⟨hs.noFault, hs.coherent, hs.blocksOK, hunl⟩, hs.geom, hs.hint, hs.mirror⟩

/-- The writes a manager call added to the log are the writes of its licensed trace. -/
theorem LicD.toWrites {v : FatVolume} {L : Licence} {s s' : Mgr} (h : LicD v L s.dev s'.dev) :
    AllLicensed v s.dev.disk L (newWritesM s s') ∧ s'.dev.wlog = (newWritesM s s').reverse ++ s.dev.wlog ∧
    ∀ i, s'.dev.disk.get i = (s.dev.disk.applyWrites (newWritesM s s')).get i := by
  obtain ⟨ws, t, l⟩ := h
  have e : newWritesM s s' = ws := by
    unfold Spec.newWritesM
    rw [t.wlog, List.length_append, Nat.add_sub_cancel, List.take_left' rfl, List.reverse_reverse]
  rw [e]
  exact ⟨l, t.wlog, t.disk⟩

/-- A call that left the log alone wrote nothing. -/
theorem newWritesM_nil {s s' : Mgr} (h : s'.dev.wlog = s.dev.wlog) : newWritesM s s' = [] := by
  unfold Spec.newWritesM
  rw [h, Nat.sub_self, List.take_zero]
  rfl

/-! ### The licence of a flush -/

/-- What `flush_file` / `close_file` of the file with entry `e` may change: the entry's slot, and on
FAT32 the two counters of the info sector. -/
def flushLicence (v : FatVolume) (e : DirEntry) : Licence :=
  { slots := [(e.entryBlock, e.entryOffset)], info := decide (v.fatType = .fat32) }

/-- What `close_volume` may change: on FAT32 the two counters of the info sector. -/
def infoLicence (v : FatVolume) : Licence := { info := decide (v.fatType = .fat32) }

theorem infoLicence_le_flush (v : FatVolume) (e : DirEntry) : (infoLicence v).le (flushLicence v e) :=
  ⟨fun _ h => (by cases h), fun _ h => (by cases h), fun _ h => (by cases h), id, fun _ h => (by cases h)⟩

/-- `update_info_sector; write_entry_to_disk e` on a sound engine state. -/
theorem flushF_lic (s : FS) (e : DirEntry) (hs : Sound s)
    (hreg : regionOf s.vol e.entryBlock = .root ∨ regionOf s.vol e.entryBlock = .data)
    (ho : e.entryOffset + 32 ≤ 512) (hname : e.name.length = 11) :
    ∃ s', flushF e s = (.ok (), s') ∧ Sound s' ∧ s'.vol = s.vol ∧ LicD s.vol (flushLicence s.vol e) s.dev s'.dev := by
  obtain ⟨s1, h1, hs1, hv1, hl1, _, _⟩ := updateInfoSector_lic s (flushLicence s.vol e) hs
    (fun h => by show decide (s.vol.fatType = .fat32) = true; rw [h]; rfl)
  obtain ⟨s2, h2, hs2, hv2, hl2, _, _⟩ := writeEntry_lic s1 e (flushLicence s.vol e) hs1 List.mem_cons_self
    (by rw [hv1]; exact hreg) ho hname
  refine ⟨s2, ?_, hs2, hv2.trans hv1, hl1.trans (by rw [hv1] at hl2; exact hl2)⟩
  unfold flushF
  rw [bind_ok h1, h2]

/-- **`flush_file` of a dirty file is within its licence.**  `h` is an open handle (slot `i`, record `f`,
dirty) on the open volume `v` (slot `vi`); state and volume are sound; the `assert!` does not fire; the
entry's slot lies inside a directory block and its name has 11 bytes.  Then the call succeeds, its
writes are licensed by `flushLicence`, the tables are untouched, and the state is sound again. -/
theorem flushFile_lic (s : Mgr) (h i vi : Nat) (f : FileInfo) (v : VolInfo) (hs : MSound s v)
    (hh : s.files.findIdx? (·.rawFile = h) = some i) (hf : s.files[i]? = some f)
    (hv : s.vols.findIdx? (·.rawVolume = f.rawVolume) = some vi) (hvi : s.vols[vi]? = some v)
    (hd : f.dirty = true) (hassert : ¬ (f.entry.size ≠ 0 ∧ f.entry.cluster = 0))
    (hreg : regionOf v.vol f.entry.entryBlock = .root ∨ regionOf v.vol f.entry.entryBlock = .data)
    (ho : f.entry.entryOffset + 32 ≤ 512) (hname : f.entry.name.length = 11) :
    ∃ s', flushFile h s = (.ok (), s') ∧ s' = { s with dev := s'.dev, cache := s'.cache } ∧ MSound s' v ∧
      LicD v.vol (flushLicence v.vol f.entry) s.dev s'.dev := by
  obtain ⟨fs', hrun, hs', hv', hl⟩ := flushF_lic (fsOf s v) f.entry hs.fs hreg ho hname
  have hfl := DirMgr.flushFile_dirty h i vi f s (MHoare.getFileById_ok hh) (MHoare.getFile_ok hf) hd
    (MHoare.getVolumeById_ok hv) hassert
  rw [WriteRefines.withVol_run vi _ s v hvi, hrun] at hfl
  have hvol : ({ v with vol := fs'.vol } : VolInfo) = v := by rw [hv']; rfl
  dsimp only at hfl
  rw [hvol, ReadRefines.list_set_self _ _ _ hvi] at hfl
  refine ⟨_, hfl, rfl, ?_, hl⟩
  have := MSound.of_fs (v := v) hs.ok.2.2.2 hs' s.vols
  rw [hvol] at this
  exact this

/-- A file that is not dirty: `flush_file` does nothing. -/
theorem flushFile_clean_nowrite (s : Mgr) (h i : Nat) (f : FileInfo)
    (hh : s.files.findIdx? (·.rawFile = h) = some i) (hf : s.files[i]? = some f) (hd : f.dirty = false) :
    flushFile h s = (.ok (), s) :=
  DirMgr.flushFile_clean h i f s (MHoare.getFileById_ok hh) (MHoare.getFile_ok hf) hd

/-- `close_file`: the flush, then the record leaves the table — the device is the one the flush left. -/
theorem closeFile_of_flush (s s1 : Mgr) (h i : Nat) (hh : s.files.findIdx? (·.rawFile = h) = some i)
    (hfl : flushFile h s = (.ok (), s1)) (hfiles : s1.files = s.files) :
    closeFile h s = (.ok (), { s1 with files := swapRemove s.files i }) := by
  have hh1 : s1.files.findIdx? (·.rawFile = h) = some i := by rw [hfiles]; exact hh
  unfold closeFile
  rw [MHoare.attempt_bind, hfl]
  dsimp only
  rw [MHoare.bind_ok (MHoare.getFileById_ok hh1), MHoare.modify_bind, hfiles]
  rfl

/-- **`close_file` of a dirty file is within the same licence.** -/
theorem closeFile_lic (s : Mgr) (h i vi : Nat) (f : FileInfo) (v : VolInfo) (hs : MSound s v)
    (hh : s.files.findIdx? (·.rawFile = h) = some i) (hf : s.files[i]? = some f)
    (hv : s.vols.findIdx? (·.rawVolume = f.rawVolume) = some vi) (hvi : s.vols[vi]? = some v)
    (hd : f.dirty = true) (hassert : ¬ (f.entry.size ≠ 0 ∧ f.entry.cluster = 0))
    (hreg : regionOf v.vol f.entry.entryBlock = .root ∨ regionOf v.vol f.entry.entryBlock = .data)
    (ho : f.entry.entryOffset + 32 ≤ 512) (hname : f.entry.name.length = 11) :
    ∃ s', closeFile h s = (.ok (), s') ∧ s'.files = swapRemove s.files i ∧ s'.vols = s.vols ∧ MSound s' v ∧
      LicD v.vol (flushLicence v.vol f.entry) s.dev s'.dev := by
  obtain ⟨s1, hfl, heq, hs1, hl⟩ := flushFile_lic s h i vi f v hs hh hf hv hvi hd hassert hreg ho hname
  have hfiles : s1.files = s.files := by rw [heq]
  have hvols : s1.vols = s.vols := by rw [heq]
  exact ⟨_, closeFile_of_flush s s1 h i hh hfl hfiles, rfl, hvols, ⟨hs1.ok, hs1.geom, hs1.hint, hs1.mirror⟩, hl⟩

/-- … and of a clean file: nothing is written, the record leaves the table. -/
theorem closeFile_clean_nowrite (s : Mgr) (h i : Nat) (f : FileInfo)
    (hh : s.files.findIdx? (·.rawFile = h) = some i) (hf : s.files[i]? = some f) (hd : f.dirty = false) :
    closeFile h s = (.ok (), { s with files := swapRemove s.files i }) :=
  closeFile_of_flush s s h i hh (flushFile_clean_nowrite s h i f hh hf hd) rfl

/-! ### `close_volume` -/

/-- **`close_volume`** on a volume no open file or directory refers to: the call succeeds, the volume
leaves the table, and the only write — on FAT32, when there is something to record — is the info
sector's, bytes 488..495. -/
theorem closeVolume_lic (s : Mgr) (vol vi : Nat) (v : VolInfo) (hs : MSound s v)
    (hfiles : s.files.any (·.rawVolume = vol) = false) (hdirs : s.dirs.any (·.rawVolume = vol) = false)
    (hv : s.vols.findIdx? (·.rawVolume = vol) = some vi) (hvi : s.vols[vi]? = some v) :
    ∃ s', closeVolume vol s = (.ok (), s') ∧ LicD v.vol (infoLicence v.vol) s.dev s'.dev ∧
      (v.vol.fatType = .fat16 → s'.dev = s.dev) ∧ s'.files = s.files ∧ s'.dirs = s.dirs := by
  obtain ⟨fs', hrun, _, hv', hl, h16, _⟩ := updateInfoSector_lic (fsOf s v) (infoLicence v.vol) hs.fs
    (fun h => by
      have h' : v.vol.fatType = .fat32 := h
      show decide (v.vol.fatType = .fat32) = true
      rw [h']; rfl)
  have hw := WriteRefines.withVol_run vi Fat.updateInfoSector s v hvi
  rw [hrun] at hw
  have hl' : LicD v.vol (infoLicence v.vol) s.dev fs'.dev := hl
  refine ⟨{ s with dev := fs'.dev, cache := fs'.cache,
                   vols := swapRemove (s.vols.set vi { v with vol := fs'.vol }) vi }, ?_, hl', ?_, rfl, rfl⟩
  · unfold closeVolume
    rw [MHoare.get_bind, if_neg (by rw [hfiles]; exact Bool.false_ne_true), if_neg (by rw [hdirs]; exact Bool.false_ne_true),
      MHoare.bind_ok (MHoare.getVolumeById_ok hv), MHoare.bind_ok hw, MHoare.modify_run]
  · intro hft
    have := h16 hft
    show fs'.dev = s.dev
    rw [this]; rfl

end Sdmmc.Lemmas.WriteSet
