/-
Several open volumes: the simulation (`RunSim`) of `open_file_in_dir`, all modes.
-/
import Sdmmc.Lemmas.VolNFile
import Sdmmc.Lemmas.Modes

namespace Sdmmc.Lemmas.VolN
open Sdmmc.Model Sdmmc.Model.Fat Sdmmc.Spec.Volume
open Sdmmc.Spec hiding NoFault Coherent run step
open Sdmmc.Lemmas.MHoare
open Sdmmc.Lemmas.Modes (openFileTail openFileInDirAlt openFileInDir_eq)

section
variable {hv i : Nat} {σd σf : List (Nat × Nat)}

theorem RunSim2.get_bind {α β : Type} {R : α → β → Prop} {f : Mgr → M α} {g : Mgr → M β} {s : Mgr}
    (h : RunSim2 hv i R (f s) (g (projH hv i s)) s) : RunSim2 hv i R (M.get >>= f) (M.get >>= g) s :=
  ⟨h.res, h.rel, h.volKeys, h.restVols, h.restDirs, h.restFiles, h.limits⟩

theorem RunSim2.ite {α β : Type} {R : α → β → Prop} {c : Prop} [Decidable c] {a b : M α} {a' b' : M β} {s : Mgr}
    (ha : c → RunSim2 hv i R a a' s) (hb : ¬ c → RunSim2 hv i R b b' s) :
    RunSim2 hv i R (if c then a else b) (if c then a' else b') s := by
  by_cases h : c
  · rw [if_pos h, if_pos h]; exact ha h
  · rw [if_neg h, if_neg h]; exact hb h

/-- `SimAt.bind_run` with the continuation stated at an arbitrary state. -/
theorem SimAt.bind_run' {α β γ δ : Type} {R : α → β → Prop} {Q : γ → δ → Prop} {m : M α} {m' : M β} {f : α → M γ}
    {g : β → M δ} {s : Mgr} (h : SimAt hv i σd σf R m m' s)
    (hf : ∀ a b, R a b → ∀ s1, Skel hv i σd σf s1 → RunSim2 hv i Q (f a) (g b) s1) :
    RunSim2 hv i Q (m >>= f) (m' >>= g) s :=
  SimAt.bind_run h fun a b hab _ hs1 => hf a b hab _ hs1

/-- The outcome of the lookup, turned into "the entry, if any". -/
theorem sim_dirEntry {s : Mgr} (hs : Skel hv i σd σf s) (mode : Mode) (r : Res DirEntry) :
    SimAt hv i σd σf Eq
      (match r with
        | .ok e => pure (some e)
        | .err .NotFound =>
          if mode = .ReadWriteCreate ∨ mode = .ReadWriteCreateOrTruncate ∨ mode = .ReadWriteCreateOrAppend
          then pure none else M.fail .NotFound
        | other => M.lift (other.bind fun _ => .ok none) : M (Option DirEntry))
      (match r with
        | .ok e => pure (some e)
        | .err .NotFound =>
          if mode = .ReadWriteCreate ∨ mode = .ReadWriteCreateOrTruncate ∨ mode = .ReadWriteCreateOrAppend
          then pure none else M.fail .NotFound
        | other => M.lift (other.bind fun _ => .ok none) : M (Option DirEntry)) s := by
  cases r with
  | ok e => exact sim_pure hs _
  | err e =>
    cases e
    case NotFound => exact SimAt.ite (fun _ => sim_pure hs _) (fun _ => sim_fail hs _)
    all_goals exact sim_lift hs _
  | panic m => exact sim_lift hs _
  | diverged => exact sim_lift hs _

/-- A failing first step: the rest does not run. -/
theorem run_fail_bind {α β γ δ : Type} {Q : γ → δ → Prop} {s : Mgr} (hs : Skel hv i σd σf s) (e : Err) (f : α → M γ)
    (g : β → M δ) : RunSim2 hv i Q (M.fail e >>= f) (M.fail e >>= g) s :=
  SimAt.bind_run (sim_fail hs e (R := fun _ _ => True)) fun _ _ _ hok _ => nomatch hok

theorem openFileTail_run {s : Mgr} (hs : Skel hv i σd σf s) (d : DirInfo) (hd : d.rawVolume = hv) (sfn : Bytes)
    (mode : Mode) (r : Res DirEntry) :
    RunSim2 hv i Eq (openFileTail d i sfn mode r) (openFileTail d 0 sfn mode r) s := by
  subst hd
  unfold openFileTail
  refine SimAt.bind_run' (sim_dirEntry hs mode r) fun a b hab s1 hs1 => ?_
  subst hab
  clear hs s
  refine RunSim2.get_bind ?_
  cases a with
  | none =>
    cases mode <;> simp only [Option.isSome_none, Modes.solve_mode_table, projH_clock]
    case ReadWriteCreate | ReadWriteCreateOrTruncate | ReadWriteCreateOrAppend =>
      refine SimAt.bind_run (sim_getVolumeById hs1) fun a b hab _ hs2 => ?_
      obtain ⟨rfl, rfl⟩ := hab
      refine SimAt.bind_run (sim_withVol hs2 _) fun en en' he _ hs3 => ?_
      subst he
      refine SimAt.bind_run (sim_generate hs3) fun id id' hid _ hs4 => ?_
      subst hid
      exact RunSim2.bind_const (run_appendFile _ rfl) fun _ _ _ => ⟨.ok id, .ok id, fun _ => rfl, fun _ => rfl, rfl⟩
    all_goals exact RunSim2.of_simAt (sim_panic hs1 _)
  | some e =>
    cases mode <;> simp only [Option.isSome_some, Modes.solve_mode_table, projH_clock, projH_fileIsOpen]
    case ReadWriteCreate =>
      exact RunSim2.ite (fun _ => run_fail_bind hs1 _ _ _) fun _ => RunSim2.of_simAt (sim_fail hs1 _)
    all_goals
      refine RunSim2.ite (fun _ => run_fail_bind hs1 _ _ _) fun _ => ?_
      refine RunSim2.ite (fun _ => RunSim2.of_simAt (sim_fail hs1 _)) fun _ => ?_
      refine RunSim2.ite (fun _ => RunSim2.of_simAt (sim_fail hs1 _)) fun _ => ?_
      refine RunSim2.ite (fun _ => RunSim2.of_simAt (sim_fail hs1 _)) fun _ => ?_
      refine SimAt.bind_run (sim_generate hs1) fun id id' hid _ hs2 => ?_
      subst hid
      refine SimAt.bind_run (σd := σd) (σf := σf) (R := fun a b => a = b ∧ a.rawVolume = d.rawVolume) ?_ fun f f' hf _ hs3 => ?_
      · first
        | exact sim_pure_rel hs2 ⟨rfl, rfl⟩
        | exact SimAt.bind (sim_withVol hs2 _) fun _ _ _ _ hs => SimAt.bind (sim_withVol hs _) fun _ _ _ _ hs =>
            sim_pure_rel hs ⟨rfl, rfl⟩
      obtain ⟨rfl, hfv⟩ := hf
      exact RunSim2.bind_const (run_appendFile _ hfv) fun _ _ _ => ⟨.ok id, .ok id, fun _ => rfl, fun _ => rfl, rfl⟩

end

/-- `open_file_in_dir` on a directory of volume record `i`, all modes. -/
theorem openFile_runSim {s : Mgr} {hv i d : Nat} (hvol : s.vols.findIdx? (·.rawVolume = hv) = some i)
    (ht : dirTarget s d = some i) (name : List Nat) (mode : Mode) : RunSim hv i (openFileInDir d name mode) s := by
  obtain ⟨k, hk, hown⟩ := dirTarget_spec hvol ht
  have hs : Skel hv i (s.dirs.map dkey) (s.files.map fkeyN) s := ⟨hvol, rfl, rfl⟩
  apply RunSim2.toRunSim
  rw [openFileInDir_eq]
  unfold openFileInDirAlt
  refine RunSim2.get_bind ?_
  simp only [projH_files_full]
  refine RunSim2.ite (fun _ => RunSim2.of_simAt (sim_fail hs _)) fun _ => ?_
  refine SimAt.bind_run (sim_getDirById hs hk hown) fun a b hab _ hs1 => ?_
  obtain ⟨rfl, rfl⟩ := hab
  refine SimAt.bind_run (sim_getDir hs1 hown) fun dr dr' hdd hget hs2 => ?_
  subst hdd
  obtain ⟨_, _, hdv⟩ := getDir_skel hs1 hown hget
  rw [hdv]
  refine SimAt.bind_run (sim_getVolumeById hs2) fun a b hab _ hs3 => ?_
  obtain ⟨rfl, rfl⟩ := hab
  refine SimAt.bind_run (sim_toSfn hs3 name) fun sfn sfn' hsfn _ hs4 => ?_
  subst hsfn
  refine SimAt.bind_run (sim_withVol hs4 _).attempt fun r r' hrr _ hs5 => ?_
  have hr := hrr.eq
  subst hr
  exact openFileTail_run hs5 dr hdv sfn mode r'

end Sdmmc.Lemmas.VolN
