/-
C09 over whole histories, part 18: the fresh reader WALKS THE PATH.  `open_dir_ok`: `open_dir` of a name whose lookup
gives a directory entry; `openPath`: `open_dir` along a list of names; `walk_path`: on a crash-consistent medium on
which the sub-directory entries `ys` lead from directory `p` to `h`, a manager holding a handle of `p` opens, by any
spellings of the names of `ys`, a handle of `h` — writing nothing.
-/
import Sdmmc.Lemmas.SurviveRoot
import Sdmmc.Lemmas.VolCrashFsck

namespace Sdmmc.Lemmas.Survive
open Sdmmc.Model Sdmmc.Model.Fat Sdmmc.Spec.Volume Sdmmc.Lemmas.VolBase Sdmmc.Lemmas.VolTree
open Sdmmc.Spec hiding NoFault Coherent
open Sdmmc.Lemmas.VolDisk Sdmmc.Lemmas.VolMed Sdmmc.Lemmas.VolEng
open Sdmmc.Lemmas.MHoare
open Sdmmc.Lemmas.ReadRefines (MgrOK)
open Sdmmc.Lemmas.Modes (DirCtx lookup)

theorem findIdx?_dirs_fresh (l : List DirInfo) (x : DirInfo) (id : Nat) (hfresh : ∀ g, g ∈ l → g.rawDirectory ≠ id)
    (hx : x.rawDirectory = id) : (l ++ [x]).findIdx? (·.rawDirectory = id) = some l.length := by
  induction l with
  | nil => simp [List.findIdx?_cons, hx]
  | cons a l ih =>
    have ha : ¬ a.rawDirectory = id := hfresh a List.mem_cons_self
    rw [List.cons_append, List.findIdx?_cons, if_neg (by simpa using ha), ih fun g hg => hfresh g (List.mem_cons_of_mem _ hg)]
    rfl

/-! ### `open_dir` on a directory entry -/

theorem open_dir_ok {s : Mgr} {d : Nat} {name : List Nat} {dir : DirInfo} {vi : Nat} {sfn : Bytes}
    (hc : DirCtx s d name dir vi sfn) (hroom : s.dirs.length < s.maxDirs) (hnd : sfn ≠ Sfn.thisDir) {v : VolInfo}
    (hvi : s.vols[vi]? = some v) {en : DirEntry} (hl : (lookup vi dir sfn s).1 = .ok en)
    (hdir : Attr.isDirectory en.attributes = true) :
    ∃ t1, openDir d name s = (.ok s.nextId, t1) ∧ t1.nextId = (s.nextId + 1) % 4294967296 ∧
      t1.dirs = s.dirs ++ [{ rawDirectory := s.nextId, rawVolume := v.rawVolume, cluster := en.cluster }] ∧
      t1.vols = s.vols ∧ t1.files = s.files ∧ t1.dev.disk = s.dev.disk ∧ t1.dev.wlog = s.dev.wlog ∧
      t1.maxDirs = s.maxDirs ∧ t1.maxFiles = s.maxFiles ∧ (MgrOK (lookup vi dir sfn s).2 → MgrOK t1) := by
  obtain ⟨di, h1, h2⟩ := hc.1
  obtain ⟨ht1, ht2, ht3, ht4⟩ := Modes.lookup_tables vi dir sfn s
  obtain ⟨hw, hdk⟩ := Modes.lookup_writes_nothing vi dir sfn s
  have hmd : (lookup vi dir sfn s).2.maxDirs = s.maxDirs := by rw [Modes.lookup_state]
  have hmf : (lookup vi dir sfn s).2.maxFiles = s.maxFiles := by rw [Modes.lookup_state]
  unfold openDir
  have hlk : withVol vi (Fat.findDirectoryEntry dir.cluster sfn) = lookup vi dir sfn := rfl
  rw [get_bind, if_neg (by omega), bind_ok (getDirById_ok h1), bind_ok (getDir_ok h2),
    bind_ok (getVolumeById_ok hc.2.1), bind_ok (Modes.toSfn_ok hc.2.2 s), bind_ok (getVolInfo_ok hvi),
    if_neg hnd, hlk, bind_def]
  rcases hl' : lookup vi dir sfn s with ⟨r, s1⟩
  rw [hl'] at hl ht1 ht2 ht3 ht4 hw hdk hmd hmf
  dsimp only at hl ht1 ht2 ht3 ht4 hw hdk hmd hmf ⊢
  subst hl
  dsimp only
  rw [if_neg (by rw [hdir]; decide)]
  refine ⟨{ s1 with nextId := (s.nextId + 1) % 4294967296, dirs := s.dirs ++ [{ rawDirectory := s.nextId, rawVolume := v.rawVolume, cluster := en.cluster }] }, ?_, rfl, rfl, ht3, ht1, hdk, hw, hmd, hmf, fun h => h⟩
  show (generate >>= fun id => _) s1 = _
  unfold generate
  simp only [bind, M.bind', M.modify, pure, M.pure', ht2, ht4]

/-! ### Directories of a crash-consistent medium, for the reader -/

/-- The `cluster` field of a handle of directory number `q`. -/
def dcOf (q : Nat) : Nat := if q = 0 then Gen.CLUSTER_ROOT_DIR else q

section
variable {w : FatVolume} {d : Disk} {gh : Ghost}

theorem subdir_range (hC : VolCrash.CrashCore w d gh) {q p : Nat} (hq : (q, p) ∈ gh.dirs) : 2 ≤ q ∧ q < endCluster w := by
  have hG := VolCrash.Fsck.lheads hC
  obtain ⟨cs, hcs, hcs0⟩ := List.mem_map.1 (VolCrash.Fsck.dir_mem_heads hC.tree hq)
  have hch := VolCrash.Fsck.lchain hC hcs
  have hne := hG.ne cs hcs
  have := ChainL.chain_inRange hch _ (ForestBase.chain_head_mem hch)
  rw [hcs0] at this
  exact this

theorem dcOf_ne_root (hC : VolCrash.CrashCore w d gh) {q : Nat} (hq : q ∈ dirIds gh.dirs) (h0 : q ≠ 0) :
    dcOf q = q ∧ q ≠ Gen.CLUSTER_ROOT_DIR ∧ 2 ≤ q := by
  rcases mem_dirIds.1 hq with e | ⟨p, hp⟩
  · exact absurd e h0
  obtain ⟨h2, hE⟩ := subdir_range hC hp
  have hb := hC.geom.count_bound
  refine ⟨by unfold dcOf; rw [if_neg h0], ?_, h2⟩
  intro e
  have hR : Gen.CLUSTER_ROOT_DIR = 4294967292 := rfl
  cases hft : w.fatType <;> rw [hft] at hb <;> simp only at hb <;> omega

/-- The reader's slot list of a directory of the medium is the invariant's. -/
theorem dirSlotsOf_dir (hC : VolCrash.CrashCore w d gh) {q : Nat} (hq : q ∈ dirIds gh.dirs) :
    Reopen.dirSlotsOf w d (dcOf q) (dirChain w gh.G q) = dirSlots w d gh.G q := by
  by_cases h0 : q = 0
  · subst h0
    exact dirSlotsOf_root w d gh.G
  · obtain ⟨e1, e2, _⟩ := dcOf_ne_root hC hq h0
    rw [e1, dirSlots_eq]
    unfold Reopen.dirSlotsOf
    have hk : ¬ Reopen.IsFixedRoot w q := fun hk => e2 hk.2
    have hf : ¬ isFixedRoot w q := fun hf => h0 hf.1
    rw [if_neg hk, if_neg hf]
    rfl

/-- … and the directory is on the medium, for the reader. -/
theorem dir_dirOn (hC : VolCrash.CrashCore w d gh) {q : Nat} (hq : q ∈ dirIds gh.dirs) :
    Reopen.DirOn w d (dcOf q) (dirChain w gh.G q) := by
  by_cases h0 : q = 0
  · subst h0
    have hdc : dirChain w gh.G 0 = if w.fatType = .fat16 then [] else chainOf gh.G w.firstRootDirCluster := by
      by_cases h16 : w.fatType = .fat16
      · have hf : isFixedRoot w 0 := ⟨rfl, h16⟩
        unfold dirChain; rw [if_pos hf, if_pos h16]
      · have hf : ¬ isFixedRoot w 0 := fun hk => h16 hk.2
        unfold dirChain; rw [if_neg hf, if_neg h16]; unfold dirHead; rw [if_pos rfl]
    refine root_dirOn hC.geom fun h32 => ?_
    rw [hdc, if_neg (by rw [h32]; intro e; cases e)]
    have hf0 : ¬ isFixedRoot w 0 := fun h => by have := h.2; rw [h32] at this; cases this
    obtain ⟨m2, d2⟩ := VolCrash.Fsck.dirChain_spec hC (zero_mem_dirIds _) hf0
    have c2 := VolCrash.Fsck.lchain hC m2
    rw [headD_of_head? d2] at c2
    have hd0 : dirHead w 0 = w.firstRootDirCluster := by unfold dirHead; rw [if_pos rfl]
    rw [hd0] at c2
    exact c2
  · obtain ⟨e1, e2, _⟩ := dcOf_ne_root hC hq h0
    rw [e1]
    intro hk
    have hf : ¬ isFixedRoot w q := fun hf => h0 hf.1
    obtain ⟨m2, d2⟩ := VolCrash.Fsck.dirChain_spec hC hq hf
    have c2 := VolCrash.Fsck.lchain hC m2
    rw [headD_of_head? d2] at c2
    have hdh : dirHead w q = q := by unfold dirHead; rw [if_neg h0]
    rw [hdh] at c2
    have hdc : dirChain w gh.G q = chainOf gh.G q := by unfold dirChain; rw [if_neg hf, hdh]
    have hstart : Listing.startCluster w q = q := by
      unfold Listing.startCluster
      cases hft : w.fatType
      · rfl
      · exact if_neg e2
    rw [hdc]
    generalize chainOf gh.G q = cq at c2 ⊢
    obtain ⟨rest, hrest⟩ : ∃ rest, cq = q :: rest := by
      cases c2 with
      | last _ _ _ => exact ⟨[], rfl⟩
      | link _ n rest _ _ _ _ => exact ⟨rest, rfl⟩
    refine ⟨rest, by rw [hstart]; exact hrest, VolWalk.dirChain_of_chain hC.geom c2, ?_⟩
    have := (ForestFinal.chain_fits_fuel w d _ _ c2).1
    rw [hrest] at this
    simp only [List.length_cons] at this
    omega

end

/-! ### Walking the path -/

/-- `open_dir` along a list of names, from the handle `d`. -/
def openPath : Nat → List (List Nat) → M Nat
  | d, [] => pure d
  | d, n :: ns => openDir d n >>= fun d' => openPath d' ns

/-- The names `names` are spellings of the stored names of the entries `ys`. -/
def Spells : List (List Nat) → List Slot → Prop
  | [], [] => True
  | n :: ns, y :: ys => Sfn.createFromStr n = .ok (sName y) ∧ Spells ns ys
  | _, _ => False

/-- The handle `d` of the manager `t` designates directory number `q` of the volume record `W` (slot 0), all handle
values in use are below the counter. -/
structure AtDir (t : Mgr) (W : VolInfo) (d q : Nat) : Prop where
  ok : MgrOK t
  vols : t.vols = [W]
  files : t.files = []
  below : ∀ di, di ∈ t.dirs → di.rawDirectory < t.nextId
  handle : ∃ i dir, t.dirs.findIdx? (·.rawDirectory = d) = some i ∧ t.dirs[i]? = some dir ∧ dir.cluster = dcOf q ∧
    dir.rawVolume = W.rawVolume

/-- **Walking the path**: on a crash-consistent medium `dk` on which the sub-directory entries `ys` lead from directory
`p` to `h`, a manager on `dk` that holds a handle `d` of `p` (and has room for the handles) opens — by any spellings
of the names of `ys` — a handle of `h`, writing nothing. -/
theorem walk_path {W : VolInfo} {dk : Disk} {gh : Ghost} (hC : VolCrash.CrashCore W.vol dk gh) :
    ∀ (ys : List Slot) (names : List (List Nat)) (p h : Nat) (t : Mgr) (d : Nat),
      PathOn W.vol.fatType gh.dirs (dirSlots W.vol dk gh.G) p ys h → Spells names ys →
      (∀ y, y ∈ ys → sName y ≠ Sfn.thisDir) →
      AtDir t W d p → t.dev.disk = dk → t.dirs.length + ys.length ≤ t.maxDirs → t.nextId + ys.length < 4294967296 →
      ∃ d' t', openPath d names t = (.ok d', t') ∧ AtDir t' W d' h ∧ t'.dev.disk = dk ∧ t'.dev.wlog = t.dev.wlog ∧
        t'.nextId = t.nextId + ys.length ∧ t'.maxFiles = t.maxFiles
  | [], [], p, h, t, d, hP, _, _, hat, _, _, _ => by
    cases hP with
    | nil _ _ => exact ⟨d, t, rfl, hat, by assumption, rfl, rfl, rfl⟩
  | [], _ :: _, _, _, _, _, _, hs, _, _, _, _, _ => hs.elim
  | _ :: _, [], _, _, _, _, _, hs, _, _, _, _, _ => hs.elim
  | y :: ys, n :: ns, p, h, t, d, hP, hs, hnd, hat, hdisk, hroom, hid => by
    cases hP with
    | cons _ _ _ _ hp hy hd rest =>
      obtain ⟨i, dir, hidx, hget, hcl, hrv⟩ := hat.handle
      have hT : TreeView W.vol.fatType gh.dirs (dirSlots W.vol dk gh.G) := TreeView.of_treeLoose hC.tree
      -- the lookup of the name finds `y`
      have hye := VolEng.mem_entries_of_objects hy
      obtain ⟨hym, hnz, h5, hfr⟩ := mem_entries hye
      have hfh := firstHit_of_clean (hT.cleanTail p hp) (hT.names p hp) hym hnz h5 hfr
      rw [← dirSlotsOf_dir hC hp] at hfh
      have hctx : DirCtx t d n dir 0 (sName y) := by
        refine ⟨⟨i, hidx, hget⟩, ?_, hs.1⟩
        rw [hat.vols]; simp [hrv]
      have hvi : t.vols[0]? = some W := by rw [hat.vols]; rfl
      have hdirOn : Reopen.DirOn W.vol t.dev.disk dir.cluster (dirChain W.vol gh.G p) := by
        rw [hdisk, hcl]; exact dir_dirOn hC hp
      obtain ⟨hlk, hok1⟩ := Reopen.lookup_on_dir t 0 dir (sName y) W (dirChain W.vol gh.G p) hat.ok hvi hdirOn
      rw [hdisk, hcl, Reopen.dirLookup_of_firstHit _ _ _ _ _ y hfh] at hlk
      have hlk' : (lookup 0 dir (sName y) t).1 = .ok (Listing.decode W.vol.fatType y) := hlk
      -- the entry is a directory entry designating the next directory
      obtain ⟨_, hattr, _, _, _, hdcl⟩ := VolDisk.decode_fields W.vol.fatType y
      have hisdir : Attr.isDirectory (Listing.decode W.vol.fatType y).attributes = true := by
        rw [hattr]; unfold isDirE at hd; unfold Attr.isDirectory; exact hd
      have hnext : (sCluster W.vol.fatType y, p) ∈ gh.dirs := hT.subdirs p hp y hy hd
      have hq : sCluster W.vol.fatType y ∈ dirIds gh.dirs := mem_dirIds.2 (.inr ⟨p, hnext⟩)
      obtain ⟨h2, _⟩ := subdir_range hC hnext
      have hcl' : (Listing.decode W.vol.fatType y).cluster = dcOf (sCluster W.vol.fatType y) := by
        rw [hdcl, if_neg (by intro hh; omega)]
        unfold dcOf; rw [if_neg (by omega)]
      obtain ⟨t1, hopen, hnid0, hdirs1, hvols1, hfiles1, hdisk10, hwlog1, hmd1, hmf1, hok1'⟩ :=
        open_dir_ok hctx (by simp only [List.length_cons] at hroom; omega) (hnd y List.mem_cons_self) hvi hlk' hisdir
      have hnid : t1.nextId = t.nextId + 1 := by
        rw [hnid0]
        simp only [List.length_cons] at hid; omega
      have hat1 : AtDir t1 W t.nextId (sCluster W.vol.fatType y) := by
        refine ⟨?_, ?_, ?_, ?_, ?_⟩
        · exact hok1' hok1
        · rw [hvols1]; exact hat.vols
        · rw [hfiles1]; exact hat.files
        · intro di hdi
          rw [hdirs1] at hdi
          rw [hnid]
          rcases List.mem_append.1 hdi with h1 | h1
          · have := hat.below di h1; omega
          · rw [List.mem_singleton] at h1; rw [h1]; exact Nat.lt_succ_self _
        · refine ⟨t.dirs.length, { rawDirectory := t.nextId, rawVolume := W.rawVolume, cluster := (Listing.decode W.vol.fatType y).cluster }, ?_, ?_, hcl', rfl⟩
          · rw [hdirs1]
            exact findIdx?_dirs_fresh t.dirs _ t.nextId
              (fun g hg => by have := hat.below g hg; omega) rfl
          · rw [hdirs1]; simp
      have hdisk1 : t1.dev.disk = dk := hdisk10.trans hdisk
      obtain ⟨d', t', hrun, hat', hdk', hwl', hnid', hmf'⟩ := walk_path hC ys ns (sCluster W.vol.fatType y) h t1 t.nextId rest hs.2
        (fun z hz => hnd z (List.mem_cons_of_mem _ hz)) hat1 hdisk1
        (by rw [hdirs1, hmd1]; simp only [List.length_append, List.length_cons, List.length_nil] at hroom ⊢; omega)
        (by rw [hnid]; simp only [List.length_cons] at hid; omega)
      refine ⟨d', t', ?_, hat', hdk', hwl'.trans hwlog1, by rw [hnid', hnid]; simp only [List.length_cons]; omega,
        hmf'.trans hmf1⟩
      show (openDir d n >>= fun d' => openPath d' ns) t = _
      rw [bind_ok hopen]
      exact hrun

end Sdmmc.Lemmas.Survive
