/-
C11, arbitrary fault placement — THE TRUNCATING `open_file_in_dir` UNDER ANY SCHEDULE, part 3 (manager level):
`openFile_faultInv` — `open_file_in_dir` in EVERY mode, whatever device call fails, leaves the WEAK invariant `FaultInv`
(`Spec/VolumeFault.lean`) for a ghost of the same geometry and some lost chains.  In the truncating modes: a failure while
the chain is cut leaves the entry (old size) over the cut chain and what is left of the chain lost; a failure of the
entry's rewrite leaves the old size over the one-cluster chain — residue (3) of `FaultInv`; the handle is not created.
-/
import Sdmmc.Lemmas.FaultXTrunc2
import Sdmmc.Lemmas.FaultXOpen
import Sdmmc.Lemmas.FaultXUse
import Sdmmc.Lemmas.FaultXRawTrunc

namespace Sdmmc.Lemmas.FaultX
open Sdmmc.Model Sdmmc.Model.Fat Sdmmc.Spec.Volume Sdmmc.Lemmas.VolBase Sdmmc.Lemmas.VolTree
open Sdmmc.Spec hiding NoFault Coherent
open Sdmmc.Lemmas.VolDisk Sdmmc.Lemmas.VolMed Sdmmc.Lemmas.VolEng Sdmmc.Lemmas.VolX Sdmmc.Lemmas.VolApi
open Sdmmc.Lemmas.FBasic (NoFault Coherent)
open Sdmmc.Lemmas.CrashBase Sdmmc.Lemmas.CrashFat Sdmmc.Lemmas.CrashContDelete
open Sdmmc.Lemmas.Retry Sdmmc.Lemmas.FaultPre Sdmmc.Lemmas.FaultInv Sdmmc.Lemmas.FaultCoh Sdmmc.Lemmas.MHoare
open Sdmmc.Lemmas.Fault (Coh)

/-- The invariant up to the schedule and lost chains implies the weak invariant. -/
theorem faultInv_of_invF {gh : Ghost} {s : Mgr} (h : InvF gh s) :
    ∃ gh' X', Spec.Volume.FaultInv s gh' X' ∧ SameGeom gh.vol gh'.vol :=
  let ⟨gh', X', h1, h2⟩ := h
  ⟨gh', X', faultInv_of_volInvX h1, h2⟩

theorem writeEntryToDisk_len (e : DirEntry) (ho : e.entryOffset + 32 ≤ 512) (hname : e.name.length = 11) :
    Len (writeEntryToDisk e) := by
  unfold writeEntryToDisk
  refine Len.bind Len.getVol fun v => Len.bind (Len.cacheRead _) fun _ => Len.bind (Len.cacheModify _ fun blk hl => ?_) fun _ =>
    Len.writeBack
  rw [FatLens.splice_length _ _ _ (by rw [FatOps.serialize_length _ _ hname, hl]; omega), hl]

/-- `MFW` for a volume record of the same geometry. -/
theorem mfw_geom {files : List FileInfo} {v v' : FatVolume} {dirs : List (Nat × Nat)} {d : Disk} (h : MFW v files dirs d)
    (hs : SameGeom v v') (hh : HintOK v') : MFW v' files dirs d := by
  intro hb
  obtain ⟨cb, G', X', hM⟩ := h hb
  refine ⟨cb, G', X', ?_⟩
  exact medW_assemble (dw := d) (G0 := G') hM.geom hs hh hb (WriteRefines.owns_sameGeom hs hM.owns)
    (fun _ _ _ => rfl) (fun _ _ _ _ => rfl) hM.tree
    (fun g hg => ⟨fileLoose_congr hs (hM.fileOK g hg).1 (fun hne => by
      rcases (hM.fileOK g hg).1.chain with ⟨_, h2, _⟩ | hch
      · exact absurd h2 hne
      · exact ForestBase.chain_transfer hch hs.endCluster fun x _ => by rw [hs.nextOf]), (hM.fileOK g hg).2⟩)

/-- `FaultInv` after an engine call under a schedule, from the facts about the tables. -/
theorem faultInv_afterVol' {X' : List (List Nat)} {s : Mgr} {vi : VolInfo} (hv : s.vols = [vi]) (hul : s.locked = false)
    (hmv : s.maxVols = 1) (hfv : ∀ f, f ∈ s.files → f.rawVolume = vi.rawVolume) {dirs : List (Nat × Nat)}
    (hod : ∀ di, di ∈ s.dirs → ValidDir dirs di.cluster)
    (L : List Nat) {t : FS} {cb : Nat} {G' : List (List Nat)} (hc : Coherent t)
    (hM : MedW cb t.vol t.dev.disk s.files { vol := t.vol, G := G', dirs := dirs } X') :
    Spec.Volume.FaultInv (afterVol (withFaults L s) vi t) { vol := t.vol, G := G', dirs := dirs } X' :=
  ⟨hc, hul, hmv, .inr ⟨_, rfl, rfl⟩, medFault_iff_medW.2 ⟨cb, hM⟩, fun f hf => ⟨_, rfl, hfv f hf⟩, hod⟩

theorem writeEntryToDisk_vk {K : FatVolume → Prop} (e : DirEntry) : VK K (writeEntryToDisk e) := by
  unfold writeEntryToDisk; vk_auto

section
variable {v : FatVolume} {d : Disk} {files : List FileInfo} {gh : Ghost} {X : List (List Nat)}

/-- The chain of a closed file with data: a head in range, followed by a cluster in range or nothing. -/
theorem closed_next (hM : MedX v d files gh X) {h : Nat} (hh : h ∈ dirIds gh.dirs) {o : Slot}
    (ho : o ∈ objects h (dirSlots v d gh.G h)) (hod : isDirE o = false) (hfree : pendOf files o = none)
    (h0 : sCluster v.fatType o ≠ 0) :
    sCluster v.fatType o ≤ U32_MAX / 4 ∧ ∀ n, nextOf v d (sCluster v.fatType o) = .ok n → 2 ≤ n := by
  rcases closed_object_chain hM hh ho hod hfree with ⟨h1, _, _⟩ | ⟨_, _, hch, _⟩
  · exact absurd h1 h0
  · generalize chainOf gh.G (sCluster v.fatType o) = cs at hch
    refine ⟨ChainL.inRange_le _ hM.geom _ (ChainL.chain_inRange hch _ (ForestBase.chain_head_mem hch)), fun n hnx => ?_⟩
    cases hch with
    | last _ _ he => rw [he] at hnx; cases hnx
    | link _ n' _ _ hn' _ hrest =>
      rw [hn'] at hnx
      cases hnx
      exact (ChainL.chain_inRange hrest _ (ForestBase.chain_head_mem hrest)).1

/-- `truncate_cluster_chain` on the chain of a closed file, every crash point: FAT blocks only — the entries of the open
files keep their bytes. -/
theorem truncate_raw {fs : FS} (hM : MedX fs.vol fs.dev.disk files gh X) (hR : RawAllD fs.vol.fatType fs.dev.disk files)
    (hn : NoFault fs) (hc : Coherent fs) {h : Nat}
    (hh : h ∈ dirIds gh.dirs) {o : Slot} (ho : o ∈ objects h (dirSlots fs.vol fs.dev.disk gh.G h)) (hod : isDirE o = false)
    (hfree : pendOf files o = none) :
    CrashAll (fun d => RawAllD fs.vol.fatType d files) fs (truncateClusterChain (sCluster fs.vol.fatType o) fs).2 := by
  rcases closed_object_chain hM hh ho hod hfree with ⟨h0, _, _⟩ | ⟨h0, _, hch, hmem⟩
  · have : truncateClusterChain (sCluster fs.vol.fatType o) fs = (.ok (), fs) := by
      rw [h0]
      unfold truncateClusterChain
      rw [if_pos (by decide)]
      rfl
    rw [this]
    exact CrashAll.same rfl rfl hR
  · have hhd : (chainOf gh.G (sCluster fs.vol.fatType o)).head? = some (sCluster fs.vol.fatType o) := ChainL.chain_head? hch
    obtain ⟨tail, htail⟩ : ∃ tail, chainOf gh.G (sCluster fs.vol.fatType o) = sCluster fs.vol.fatType o :: tail := by
      cases hcs : chainOf gh.G (sCluster fs.vol.fatType o) with
      | nil => rw [hcs] at hhd; cases hhd
      | cons a l =>
        rw [hcs] at hhd
        simp only [List.head?_cons, Option.some.injEq] at hhd
        exact ⟨l, by rw [hhd]⟩
    rw [htail] at hch
    obtain ⟨fs1, hrun, hcr⟩ := truncate_crash fs (sCluster fs.vol.fatType o) (sCluster fs.vol.fatType o) [] tail hn hc
      hM.blocksOK hM.geom (by simpa using hch)
    rw [hrun]
    refine hcr.mono fun d hd => ?_
    rcases hd.1 with hv | ⟨j, _, hst⟩
    · exact rawAll_view hM hR hv
    · refine rawAll_dirBlocks hM hR fun x hx sl hs => hst.within.nonFat _ ?_ id
      rcases dirSlot_not_fat hM hx hs with e | e <;> rw [e] <;> decide

end

/-- **What the truncating branch of `open_file_in_dir` leaves under a schedule**: the invariant (up to the schedule) — or,
when a device call inside it failed, the table of open files as it was and the WEAK invariant; in both cases the
entries of the files that were open keep their bytes. -/
def TruncOut (gh : Ghost) (s t : Mgr) : Prop :=
  (InvF gh t ∨ (t.files = s.files ∧ ∃ gh' X', Spec.Volume.FaultInv t gh' X' ∧ SameGeom gh.vol gh'.vol)) ∧
  (RawAllD gh.vol.fatType s.dev.disk s.files → RawAllD gh.vol.fatType t.dev.disk s.files)

variable {X : List (List Nat)}

/-- **The truncating branch of `open_file_in_dir` under any schedule.** -/
theorem truncRun_faulted {s : Mgr} {gh : Ghost} (hI : VolInvX X s gh) {vi : VolInfo} (hvs : s.vols = [vi]) (hvol : vi.vol = gh.vol)
    {d : DirInfo} (hdv : ValidDir gh.dirs d.cluster) (hraw : vi.rawVolume = d.rawVolume) {sfn : Bytes} {e : DirEntry} {o : Slot}
    (hF : Found s gh d sfn e o) (hdir : Attr.isDirectory e.attributes = false) (hopen : fileIsOpen s d.rawVolume e = false)
    (id : Nat) (now : Timestamp) (L : List Nat) :
    TruncOut gh s (Modes.truncRun d 0 e id now (withFaults L s)).2 := by
  obtain ⟨ho, hod, hfree⟩ := VolX.Found_object hI hvs hdv hraw hF hdir hopen
  obtain ⟨hnm, hat, hsz, hb, hoo, hnd⟩ := hF.fields
  obtain ⟨_, hcl⟩ := hnd hdir
  obtain ⟨hn, hc, hM⟩ := VolX.volInv_fs hI
  obtain ⟨hid, _⟩ := validDir_id hM hdv
  have hfv : ∀ f, f ∈ s.files → f.rawVolume = vi.rawVolume := by
    intro f hf
    obtain ⟨vi', hv', he'⟩ := hI.fileVols f hf
    rw [hvs] at hv'; cases hv'; exact he'
  -- the fault-free run
  obtain ⟨fs1, fs2, hr1, hr2, hn2, hc2, hsg2, gh2, hgv2, hgd2, hM2, _⟩ :=
    truncate_med hM hn hc hid ho hod hfree (Modes.truncatedFile d id e now).entry hb hoo hnm hat hcl rfl
  have hclE : (Modes.truncatedFile d id e now).entry.cluster = e.cluster := rfl
  rw [hclE] at hr1
  obtain ⟨fs1', hr1', hcr1⟩ := truncate_mfw hM hn hc hid ho hod hfree
  have hcl' : e.cluster = sCluster (fsOf s gh).vol.fatType o := hcl
  rw [← hcl'] at hr1'
  have e1 : fs1 = fs1' := by
    rw [hr1] at hr1'; exact congrArg Prod.snd hr1'
  subst e1
  -- stage 1 under the schedule
  have hhint1 : HintOK (truncateClusterChain e.cluster (setFaults L (fsOf s gh))).2.vol := by
    by_cases h0 : sCluster (fsOf s gh).vol.fatType o = 0
    · rw [hcl', h0]
      unfold truncateClusterChain
      rw [if_pos (by decide)]
      exact hM.hint
    · obtain ⟨hle, hnext⟩ := closed_next hM hid ho hod hfree h0
      rw [hcl']
      exact truncateClusterChain_hint _ (setFaults L (fsOf s gh)) hc hle hM.hint hnext
  have hcr1' : CrashAll (MFW (fsOf s gh).vol s.files gh.dirs) (fsOf s gh) (truncateClusterChain e.cluster (fsOf s gh)).2 := by
    rw [hr1]; exact hcr1
  obtain ⟨hcoh1, hsg1, cb1, G1, X1, hMW1⟩ := eng_faulted_W hM.blocksOK hn hc L (truncateClusterChain_pre e.cluster)
    (truncateClusterChain_len e.cluster) (truncateClusterChain_geo e.cluster) (truncateClusterChain_coh e.cluster) hhint1 hcr1'
  obtain ⟨hP1, _, _, hdich1⟩ := withVol_faulted (truncateClusterChain_pre e.cluster) (Fault.truncateClusterChain_inv e.cluster)
    hn hvs hvol L
  have hw1 := withVol_one (Fat.truncateClusterChain e.cluster) (s := withFaults L s) (gh := gh) hvs hvol
  rw [fsOf_withFaults] at hw1
  have hw1c := withVol_one (Fat.truncateClusterChain e.cluster) (s := s) (gh := gh) hvs hvol
  rw [hr1] at hw1c
  have hfail1 : ∀ {r1 : Res Unit} {t1 : Mgr}, withVol 0 (Fat.truncateClusterChain e.cluster) (withFaults L s) = (r1, t1) →
      TruncOut gh s t1 := by
    intro r1 t1 hrun0
    have hrun := hrun0
    rw [hw1] at hrun
    have ht1 : t1 = afterVol (withFaults L s) vi (truncateClusterChain e.cluster (setFaults L (fsOf s gh))).2 :=
      (congrArg Prod.snd hrun).symm
    refine ⟨.inr ?_, fun hR => ?_⟩
    · rw [ht1]
      exact ⟨rfl, _, X1, faultInv_afterVol' hvs hI.unlocked hI.maxVols hfv hI.openDirs L hcoh1 hMW1, hsg1⟩
    · have := hP1 (fun d => RawAllD gh.vol.fatType d s.files) (by rw [hcl']; exact truncate_raw hM hR hn hc hid ho hod hfree)
      rw [hrun0] at this
      exact this
  unfold Modes.truncRun
  rcases hrun1 : withVol 0 (Fat.truncateClusterChain e.cluster) (withFaults L s) with ⟨r1, t1⟩
  have hF1 := hfail1 hrun1
  cases r1 with
  | err e' => rw [bind_err (bind_err hrun1)]; exact hF1
  | panic m => rw [bind_panic (bind_panic hrun1)]; exact hF1
  | diverged => rw [bind_diverged (bind_diverged hrun1)]; exact hF1
  | ok u =>
    -- the truncation hit no fault: the fault-free state with the schedule put back
    have ht1 : t1 = withFaults L (afterVol s vi fs1) := by
      rcases hdich1 with hq | hq
      · rw [hrun1, hw1c] at hq
        exact (Prod.mk.inj hq).2
      · rw [hrun1] at hq; cases hq
    subst ht1
    -- stage 2: the entry
    obtain ⟨fs1b, _, hr1b, hn1, hc1, hb1, hsgA, hh1, _⟩ := truncate_fat hM hn hc (c := sCluster (fsOf s gh).vol.fatType o) (by
      rcases closed_object_chain hM hid ho hod hfree with ⟨h1, _, _⟩ | ⟨_, _, h3, h4⟩
      · exact .inl h1
      · exact .inr ⟨h4, h3⟩)
    have e1b : fs1b = fs1 := by
      rw [← hcl', hr1] at hr1b; exact (congrArg Prod.snd hr1b).symm
    subst e1b
    obtain ⟨fs2b, hr2b, _, hv2, _, _⟩ := writeEntryToDisk_exact fs1b (Modes.truncatedFile d id e now).entry hn1 hc1
    have e2b : fs2b = fs2 := by
      rw [hr2] at hr2b; exact (congrArg Prod.snd hr2b).symm
    subst e2b
    -- stage 2: the entry
    have hvs2 : (afterVol s vi fs1b).vols = [{ vi with vol := fs1b.vol }] := rfl
    have hfs2 : fsOf (afterVol s vi fs1b) { gh with vol := fs1b.vol } = fs1b := rfl
    have hw2 := withVol_one (gh := { gh with vol := fs1b.vol }) (Fat.writeEntryToDisk (Modes.truncatedFile d id e now).entry)
      (s := withFaults L (afterVol s vi fs1b)) hvs2 rfl
    rw [fsOf_withFaults, hfs2] at hw2
    have hw2c := withVol_one (gh := { gh with vol := fs1b.vol }) (Fat.writeEntryToDisk (Modes.truncatedFile d id e now).entry)
      (s := afterVol s vi fs1b) hvs2 rfl
    rw [hfs2, hr2] at hw2c
    obtain ⟨hP2, _, _, hdich2⟩ := withVol_faulted (gh := { gh with vol := fs1b.vol })
      (writeEntryToDisk_pre (Modes.truncatedFile d id e now).entry) (Fault.writeEntryToDisk_inv _)
      (s0 := afterVol s vi fs1b) hn1 hvs2 rfl L
    have hol : o.2.1 + 32 ≤ 512 ∧ (sName o).length = 11 := by
      obtain ⟨pre, post, hsp, _, _, _, _⟩ := object_split hM hid ho
      have hmem : o ∈ dirSlots (fsOf s gh).vol (fsOf s gh).dev.disk gh.G (dirIdOf d.cluster) := by rw [hsp]; simp
      have hlen := mem_dirSlots_length hM.blocksOK hmem
      obtain ⟨i, hi, hoi⟩ := mem_dirSlots_offset hmem
      refine ⟨by omega, ?_⟩
      unfold sName; rw [List.length_take, hlen]; rfl
    have hcr2 : CrashAll (MFW fs1b.vol s.files gh.dirs) fs1b
        (writeEntryToDisk (Modes.truncatedFile d id e now).entry fs1b).2 := by
      rw [hr2]
      obtain ⟨ws, htr, hall⟩ := hcr1
      have hend : MFW (fsOf s gh).vol s.files gh.dirs fs1b.dev.disk := by
        have := hall ws.length
        rw [List.take_length, ← htr.disk] at this
        exact this
      obtain ⟨fs2', hr2', _, _, _, _, ⟨p, hw2, hd2⟩, _⟩ := DirEntryIO.writeEntry_frame fs1b (Modes.truncatedFile d id e now).entry
        hn1 hc1 hb1 (by show e.entryOffset + 32 ≤ 512; rw [hoo]; exact hol.1) (by show e.name.length = 11; rw [hnm]; exact hol.2)
      have e2 : fs2' = fs2b := by rw [hr2] at hr2'; exact (congrArg Prod.snd hr2').symm
      subst e2
      refine crash_le_one (.inr ⟨_, _, hw2, hd2⟩) (mfw_geom hend hsgA hh1) ?_
      have := mfw_of_med hM2
      rw [hgd2] at this
      rw [← hv2]
      exact this
    have hhint2 : HintOK (writeEntryToDisk (Modes.truncatedFile d id e now).entry (setFaults L fs1b)).2.vol := by
      have := writeEntryToDisk_vk (K := HintOK) (Modes.truncatedFile d id e now).entry (setFaults L fs1b) hh1
      exact this
    obtain ⟨hcoh2, hsg2', cb2, G2, X2, hMW2⟩ := eng_faulted_W hb1 hn1 hc1 L
      (writeEntryToDisk_pre (Modes.truncatedFile d id e now).entry)
      (writeEntryToDisk_len _ (by show e.entryOffset + 32 ≤ 512; rw [hoo]; exact hol.1) (by show e.name.length = 11; rw [hnm]; exact hol.2))
      (writeEntryToDisk_geo _) (writeEntryToDisk_coh _) hhint2 hcr2
    have hfail2 : ∀ {r2 : Res Unit} {t2 : Mgr},
        withVol 0 (Fat.writeEntryToDisk (Modes.truncatedFile d id e now).entry) (withFaults L (afterVol s vi fs1b)) = (r2, t2) →
        (t2.files = s.files ∧ ∃ gh' X', Spec.Volume.FaultInv t2 gh' X' ∧ SameGeom gh.vol gh'.vol) ∧
        (RawAllD gh.vol.fatType s.dev.disk s.files → RawAllD gh.vol.fatType t2.dev.disk s.files) := by
      intro r2 t2 hrun0
      have hrun := hrun0
      rw [hw2] at hrun
      have ht2 : t2 = afterVol (withFaults L (afterVol s vi fs1b)) { vi with vol := fs1b.vol }
          (writeEntryToDisk (Modes.truncatedFile d id e now).entry (setFaults L fs1b)).2 := (congrArg Prod.snd hrun).symm
      refine ⟨?_, fun hR => ?_⟩
      · rw [ht2]
        refine ⟨rfl, _, X2, faultInv_afterVol' (s := afterVol s vi fs1b) hvs2 hI.unlocked hI.maxVols hfv hI.openDirs L hcoh2 hMW2, ?_⟩
        exact hsgA.trans hsg2'
      · have hcrR := truncate_raw hM hR hn hc hid ho hod hfree
        rw [← hcl', hr1] at hcrR
        have hR1 : RawAllD gh.vol.fatType fs1b.dev.disk s.files := hcrR.final
        obtain ⟨fs1c, fs2c, hr1c, hr2c, hR2⟩ :=
          truncEntry_raw hM hR hn hc hid ho hod hfree (Modes.truncatedFile d id e now).entry hb hoo hnm hcl
        have ec1 : fs1c = fs1b := by
          have : truncateClusterChain e.cluster (fsOf s gh) = (.ok (), fs1c) := hr1c
          rw [hr1] at this; exact (congrArg Prod.snd this).symm
        subst ec1
        have ec2 : fs2c = fs2b := by rw [hr2] at hr2c; exact (congrArg Prod.snd hr2c).symm
        subst ec2
        obtain ⟨fs2', hr2', _, _, _, _, ⟨p, hw2', hd2'⟩, _⟩ := DirEntryIO.writeEntry_frame fs1c (Modes.truncatedFile d id e now).entry
          hn1 hc1 hb1 (by show e.entryOffset + 32 ≤ 512; rw [hoo]; exact hol.1) (by show e.name.length = 11; rw [hnm]; exact hol.2)
        have e2 : fs2' = fs2c := by rw [hr2] at hr2'; exact (congrArg Prod.snd hr2').symm
        subst e2
        have := hP2 (fun d => RawAllD gh.vol.fatType d s.files) (by
          show CrashAll _ fs1c (writeEntryToDisk (Modes.truncatedFile d id e now).entry fs1c).2
          rw [hr2]
          exact crash_le_one (.inr ⟨_, _, hw2', hd2'⟩) hR1 hR2)
        rw [hrun0] at this
        exact this
    rcases hrun2 : withVol 0 (Fat.writeEntryToDisk (Modes.truncatedFile d id e now).entry) (withFaults L (afterVol s vi fs1b))
      with ⟨r2, t2⟩
    have hF2 := hfail2 hrun2
    cases r2 with
    | err e' => rw [bind_err (by rw [bind_ok hrun1]; exact bind_err hrun2)]; exact ⟨.inr hF2.1, hF2.2⟩
    | panic m => rw [bind_panic (by rw [bind_ok hrun1]; exact bind_panic hrun2)]; exact ⟨.inr hF2.1, hF2.2⟩
    | diverged => rw [bind_diverged (by rw [bind_ok hrun1]; exact bind_diverged hrun2)]; exact ⟨.inr hF2.1, hF2.2⟩
    | ok u2 =>
      have ht2 : t2 = withFaults L (afterVol (afterVol s vi fs1b) { vi with vol := fs1b.vol } fs2b) := by
        rcases hdich2 with hq | hq
        · rw [hrun2, hw2c] at hq
          exact (Prod.mk.inj hq).2
        · rw [hrun2] at hq; cases hq
      subst ht2
      have hinner : ((do
          withVol 0 (Fat.truncateClusterChain e.cluster)
          withVol 0 (Fat.writeEntryToDisk (Modes.truncatedFile d id e now).entry)
          pure (Modes.truncatedFile d id e now) : M FileInfo)) (withFaults L s) =
          (.ok (Modes.truncatedFile d id e now),
            withFaults L (afterVol (afterVol s vi fs1b) { vi with vol := fs1b.vol } fs2b)) := by
        rw [bind_ok hrun1, bind_ok hrun2]; rfl
      have hinner0 : ((do
          withVol 0 (Fat.truncateClusterChain e.cluster)
          withVol 0 (Fat.writeEntryToDisk (Modes.truncatedFile d id e now).entry)
          pure (Modes.truncatedFile d id e now) : M FileInfo)) s =
          (.ok (Modes.truncatedFile d id e now), afterVol (afterVol s vi fs1b) { vi with vol := fs1b.vol } fs2b) := by
        rw [bind_ok hw1c, bind_ok hw2c]; rfl
      obtain ⟨gh', hI', hsg'⟩ := VolX.truncRun_inv hI hvs hvol hdv hraw hF hdir hopen id now
      have e0 : Modes.truncRun d 0 e id now s = (.ok id,
          { afterVol (afterVol s vi fs1b) { vi with vol := fs1b.vol } fs2b with
            files := (afterVol (afterVol s vi fs1b) { vi with vol := fs1b.vol } fs2b).files ++ [Modes.truncatedFile d id e now] }) := by
        unfold Modes.truncRun
        rw [bind_ok hinner0, modify_bind]; rfl
      have e1 : Modes.truncRun d 0 e id now (withFaults L s) = (.ok id, withFaults L
          { afterVol (afterVol s vi fs1b) { vi with vol := fs1b.vol } fs2b with
            files := (afterVol (afterVol s vi fs1b) { vi with vol := fs1b.vol } fs2b).files ++ [Modes.truncatedFile d id e now] }) := by
        unfold Modes.truncRun
        rw [bind_ok hinner, modify_bind]; rfl
      rw [e0] at hI'
      have e1' : (do
          let file ← (do
            withVol 0 (Fat.truncateClusterChain e.cluster)
            withVol 0 (Fat.writeEntryToDisk (Modes.truncatedFile d id e now).entry)
            pure (Modes.truncatedFile d id e now) : M FileInfo)
          M.modify fun s => { s with files := s.files ++ [file] }
          pure id : M Nat) (withFaults L s) = Modes.truncRun d 0 e id now (withFaults L s) := rfl
      rw [e1', e1]
      refine ⟨.inl ⟨gh', X, ?_, hsg'⟩, fun hR => hF2.2 hR⟩
      rw [mclr_withFaults hI'.noFault L]
      exact hI'

end Sdmmc.Lemmas.FaultX
