/-
Continuing after a crash, part 2b: THE FAT ENGINE UNDER THE WEAK MEDIUM INVARIANT `MedW` — the directory walk, the lookup
(`find_specW`), and `delete_directory_entry` followed by `free_cluster_chain` (`delete_medW`): RESTATEMENTS of
`Lemmas/VolEng.lean` (`dir_walk_facts`, `find_spec`) and of the engine part of `Lemmas/VolApiDelete.lean` for `MedW cb`
with arbitrary lost chains `X`.  Proofs verbatim unless noted `-- CHANGED`.
-/
import Sdmmc.Lemmas.CrashContDelete2
import Sdmmc.Lemmas.VolApiDelete

namespace Sdmmc.Lemmas.CrashContDelete
open Sdmmc.Model Sdmmc.Model.Fat Sdmmc.Spec.Volume Sdmmc.Lemmas.VolBase Sdmmc.Lemmas.VolTree
open Sdmmc.Spec hiding NoFault Coherent
open Sdmmc.Lemmas.VolDisk Sdmmc.Lemmas.VolMed Sdmmc.Lemmas.VolWalk Sdmmc.Lemmas.VolEng
open Sdmmc.Lemmas.FBasic (NoFault Coherent)

section
variable {cb : Nat} {v : FatVolume} {d : Disk} {files : List FileInfo} {gh : Ghost} {X : List (List Nat)}

/-- What the walks of the FAT engine need to know about the directory a handle designates. -/
theorem dir_walk_factsW (hM : MedW cb v d files gh X) {dc : Nat} (hv : ValidDir gh.dirs dc) :
    dirIdOf dc ∈ dirIds gh.dirs ∧
    ((dc = 0xFFFFFFFC ∧ v.fatType = .fat16 ∧ dirSlots v d gh.G (dirIdOf dc) = fixedRootSlots v d) ∨
     (¬ (v.fatType = .fat16 ∧ dc = 0xFFFFFFFC) ∧ ¬ isFixedRoot v (dirIdOf dc) ∧
       ∃ cs, chainOf gh.G (dirHead v (dirIdOf dc)) = Listing.startCluster v dc :: cs ∧
         Listing.startCluster v dc = dirHead v (dirIdOf dc) ∧
         Listing.DirChain v d (Listing.startCluster v dc :: cs) ∧ cs.length + 1 ≤ v.clusterCount ∧
         dirSlots v d gh.G (dirIdOf dc) = chainSlots v d (Listing.startCluster v dc :: cs))) := by
  obtain ⟨hh, hne⟩ := validDir_idW hM hv
  refine ⟨hh, ?_⟩
  by_cases hf : isFixedRoot v (dirIdOf dc)
  · left
    have hdc : dc = 0xFFFFFFFC := by
      by_contra hdc
      obtain ⟨h1, h2, _⟩ := hne hdc
      rw [h1] at hf
      have := hf.1
      omega
    exact ⟨hdc, hf.2, dirSlots_fixed hf⟩
  · right
    have hkind : ¬ (v.fatType = .fat16 ∧ dc = 0xFFFFFFFC) := by
      rintro ⟨h16, hdc⟩
      apply hf
      refine ⟨?_, h16⟩
      unfold dirIdOf
      rw [if_pos (show dc = Gen.CLUSTER_ROOT_DIR from hdc)]
    have hstart : Listing.startCluster v dc = dirHead v (dirIdOf dc) := by
      unfold Listing.startCluster dirHead dirIdOf
      by_cases hdc : dc = 0xFFFFFFFC
      · have h32 : v.fatType = .fat32 := by
          cases hft : v.fatType with
          | fat16 => exact absurd ⟨hft, hdc⟩ hkind
          | fat32 => rfl
        have hR : Gen.CLUSTER_ROOT_DIR = 4294967292 := rfl
        simp only [h32, hdc, hR, if_true]
      · have hdc' : ¬ dc = Gen.CLUSTER_ROOT_DIR := hdc
        obtain ⟨_, h2, _⟩ := hne hdc
        have h0 : dc ≠ 0 := by omega
        cases hft : v.fatType <;> simp only [hdc, hdc', if_false, h0]
    obtain ⟨hm, hhd⟩ := dirChain_specW hM hh hf
    have hch := med_chainW hM hm
    rw [headD_of_head? hhd] at hch
    obtain ⟨cs, hcs⟩ : ∃ cs, chainOf gh.G (dirHead v (dirIdOf dc)) = dirHead v (dirIdOf dc) :: cs := by
      cases hc : chainOf gh.G (dirHead v (dirIdOf dc)) with
      | nil => rw [hc] at hhd; cases hhd
      | cons a l =>
        rw [hc] at hhd
        simp only [List.head?_cons, Option.some.injEq] at hhd
        exact ⟨l, by rw [hhd]⟩
    refine ⟨hkind, hf, cs, by rw [hstart]; exact hcs, hstart, ?_, ?_, ?_⟩
    · rw [hstart, ← hcs]
      exact dirChain_of_chain hM.geom hch
    · have := (ForestFinal.chain_fits_fuel v d _ _ hch).1
      rw [hcs] at this
      simpa using this
    · rw [dirSlots_chain hf, hcs, hstart]

/-- **Lookup** on a directory of a sound volume, for a name that does not start with 0xE5: the unique live
short entry with that name, decoded; `NotFound` if there is none.  Nothing is written. -/
theorem find_specW {fs : FS} {files : List FileInfo} {gh : Ghost} {X : List (List Nat)}
    (hM : MedW cb fs.vol fs.dev.disk files gh X) (hn : NoFault fs) (hc : Coherent fs) {dc : Nat}
    (hv : ValidDir gh.dirs dc) (name : Bytes) (hname : name.head? ≠ some 0xE5) :
    ∃ fs', findDirectoryEntry dc name fs =
        ((((entries (dirSlots fs.vol fs.dev.disk gh.G (dirIdOf dc))).find? fun s => decide (sName s = name)).map
            (Listing.decode fs.vol.fatType)).elim (.err .NotFound) .ok, fs') ∧
      fs'.dev.disk = fs.dev.disk ∧ fs'.dev.wlog = fs.dev.wlog ∧ fs'.vol = fs.vol ∧ NoFault fs' ∧ Coherent fs' := by
  obtain ⟨hh, hcase⟩ := dir_walk_factsW hM hv
  have hct := hM.tree.cleanTail _ hh
  rcases hcase with ⟨hdc, h16, hsl⟩ | ⟨hkind, _, cs, _, _, hch, hlen, hsl⟩
  · subst hdc
    obtain ⟨fs', h, rest⟩ := Listing.find_fat16_root_spec name fs hn hc h16
    refine ⟨fs', ?_, rest⟩
    rw [hsl] at hct ⊢
    rw [show Fat.findDirectoryEntry 4294967292 name fs = Fat.findDirectoryEntry Gen.CLUSTER_ROOT_DIR name fs from rfl,
      h, h16]
    have := lookupBlocks_entries .fat16 fs.dev.disk name (fs.vol.lbaStart + fs.vol.firstRootDirBlock)
      (blockCountFromBytes (fs.vol.rootEntriesCount * 32)) hname hct
    rw [this]; rfl
  · obtain ⟨fs', h, rest⟩ := Listing.find_chain_spec fs dc name cs hn hc hkind hch (by omega)
    refine ⟨fs', ?_, rest⟩
    rw [hsl] at hct ⊢
    rw [h, lookupChain_entries _ _ _ _ hname hct]

/-- `delete_directory_entry` on a directory of a sound volume that holds a live short entry `o` with the name
(not starting with 0xE5): the first byte of `o`'s slot is set to 0xE5, nothing else is written. -/
theorem delete_markW {fs : FS} {files : List FileInfo} {gh : Ghost} {X : List (List Nat)}
    (hM : MedW cb fs.vol fs.dev.disk files gh X) (hn : NoFault fs) (hc : Coherent fs) {dc : Nat}
    (hv : ValidDir gh.dirs dc) (name : Bytes) (hname : name.head? ≠ some 0xE5) {o : Slot}
    (ho : o ∈ entries (dirSlots fs.vol fs.dev.disk gh.G (dirIdOf dc))) (hsn : sName o = name) :
    ∃ fs', deleteDirectoryEntry dc name fs = (.ok (), fs') ∧
      fs'.dev.disk = fs.dev.disk.set o.1 ((fs.dev.disk.get o.1).set o.2.1 (UInt8.ofNat 0xE5)) ∧
      fs'.vol = fs.vol ∧ NoFault fs' ∧ Coherent fs' := by
  obtain ⟨hh, hcase⟩ := dir_walk_factsW hM hv
  have hct := hM.tree.cleanTail _ hh
  have hfind : (entries (dirSlots fs.vol fs.dev.disk gh.G (dirIdOf dc))).find? (fun s => decide (sName s = name)) = some o := by
    rw [← hsn]
    exact find?_of_nodup_map sName _ o (hM.tree.names _ hh) ho
  rcases hcase with ⟨hdc, h16, hsl⟩ | ⟨hkind, _, cs, _, _, hch, hlen, hsl⟩
  · subst hdc
    have h := delete_fixedRoot name fs hn hc h16
    rw [hsl] at hct hfind
    have hl := lookupBlocks_entries .fat16 fs.dev.disk name (fs.vol.lbaStart + fs.vol.firstRootDirBlock)
      (blockCountFromBytes (fs.vol.rootEntriesCount * 32)) hname hct
    rw [show runSlots fs.dev.disk (fs.vol.lbaStart + fs.vol.firstRootDirBlock)
      (blockCountFromBytes (fs.vol.rootEntriesCount * 32)) = fixedRootSlots fs.vol fs.dev.disk from rfl, hfind] at hl
    rw [hl] at h
    exact h
  · have h := delete_chain fs dc cs name hn hc hkind hch (by omega)
    rw [hsl] at hct hfind
    rw [lookupChain_entries _ _ _ _ hname hct, hfind] at h
    exact h

/-- The first cluster of a directory chain is not what a file object names. -/
theorem dirHead_ne_fileRefW (hM : MedW cb v d files gh X) {h : Nat} (hh : h ∈ dirIds gh.dirs) {o : Slot}
    (ho : o ∈ objects h (dirSlots v d gh.G h)) (hod : isDirE o = false) (hc : effCluster v.fatType files o ≠ 0)
    {x : Nat} (hx : x ∈ dirIds gh.dirs) (hf : ¬ isFixedRoot v x) : dirHead v x ≠ effCluster v.fatType files o := by
  obtain ⟨h1, h2⟩ := fileRef_not_dir hM.tree (med_headsW hM) hh ho hod hc
  unfold dirHead
  by_cases h0 : x = 0
  · rw [if_pos h0]
    have h32 : v.fatType = .fat32 := by
      cases hft : v.fatType with
      | fat16 => exact absurd ⟨h0, hft⟩ hf
      | fat32 => rfl
    intro e
    apply h1
    rw [← e]
    unfold rootHead
    rw [h32]
    exact List.mem_singleton.2 rfl
  · rw [if_neg h0]
    intro e
    apply h2
    rw [← e]
    rcases mem_dirIds.1 hx with e0 | ⟨p, hp⟩
    · exact absurd e0 h0
    · exact List.mem_map.2 ⟨(x, p), hp, rfl⟩

/-- No open file names the chain a closed file object names. -/
theorem open_ne_closedW (hM : MedW cb v d files gh X) {h : Nat} (hh : h ∈ dirIds gh.dirs) {o : Slot}
    (ho : o ∈ objects h (dirSlots v d gh.G h)) (hod : isDirE o = false) (hfree : pendOf files o = none)
    (hc : sCluster v.fatType o ≠ 0) {f : FileInfo} (hf : f ∈ files) : f.entry.cluster ≠ sCluster v.fatType o := by
  intro e
  obtain ⟨h2, hh2, A2, o2, B2, hO2, _, hod2, _, _, hp2⟩ := file_object hM.tree hf
  have ho2 : o2 ∈ objects h2 (dirSlots v d gh.G h2) := by rw [hO2]; simp
  obtain ⟨A1, B1, hAB⟩ := List.append_of_mem ho
  have hO : objects h (dirSlots v d gh.G h) = A1 ++ [o] ++ B1 := by rw [hAB]; simp
  have := eff_ne_of_split hM.tree (med_headsW hM) hh hO hod h2 hh2 o2 ho2 ?_ hod2
    (by rw [effCluster_of_pend hp2, e]; exact hc)
  · rw [effCluster_of_pend hp2, effCluster_of_none hfree] at this
    exact this e
  · intro e2
    subst e2
    rw [hO] at ho2
    simp only [List.mem_append, List.mem_singleton] at ho2 ⊢
    rcases ho2 with (h1 | h1) | h1
    · exact .inl h1
    · exfalso
      rw [h1, hfree] at hp2
      cases hp2
    · exact .inr h1

/-- **The deleted mark on the medium**: the slot of a file object `o` no open file sits at gets 0xE5 as its
first byte.  If the entry had no cluster the invariant holds again; otherwise it holds for the chain list
without `o`'s chain, which is now an extra, unreferenced chain. -/
theorem mark_medW (hM : MedW cb v d files gh X) {h : Nat} (hh : h ∈ dirIds gh.dirs) {o : Slot}
    (ho : o ∈ objects h (dirSlots v d gh.G h)) (hod : isDirE o = false) (hfree : pendOf files o = none) :
    (sCluster v.fatType o = 0 ∧ MedW cb v (d.set o.1 ((d.get o.1).set o.2.1 (UInt8.ofNat 0xE5))) files gh X) ∨
    (∃ A B tail, gh.G = A ++ (sCluster v.fatType o :: tail) :: B ∧
      MedW cb v (d.set o.1 ((d.get o.1).set o.2.1 (UInt8.ofNat 0xE5))) files { vol := gh.vol, G := A ++ B, dirs := gh.dirs }
        ((sCluster v.fatType o :: tail) :: X)) := by
  have hG := med_headsW hM
  obtain ⟨pre, post, hsp, hpre, hlen, hnz, hkeep⟩ := object_splitW hM hh ho
  have hx : (UInt8.ofNat 0xE5).toNat ≠ 0 := by decide
  have hE := slotEdit_markW hM hh hsp hpre hlen (UInt8.ofNat 0xE5) hx
  obtain ⟨hb1, hfat1, hsl1, hoth1⟩ := slot_markW hM hh hsp (UInt8.ofNat 0xE5)
  have hmem : o ∈ dirSlots v d gh.G h := by rw [hsp]; simp
  have hnewkeep : keep (o.1, o.2.1, o.2.2.set 0 (UInt8.ofNat 0xE5)) = false := by
    unfold keep
    rw [first_set o _ (by rw [mem_dirSlots_length hM.blocksOK hmem]; decide)]
    rfl
  by_cases hc0 : sCluster v.fatType o = 0
  · left
    refine ⟨hc0, ?_⟩
    have htree := tree_delete (G' := gh.G) hM.tree hG hE ⟨hnz, hkeep⟩ hod hnewkeep hfree (fun _ _ _ => Nat.le_refl _)
      (by intro a; rw [if_neg (by rw [hc0]; exact fun h => h rfl)]; simp)
    exact medW_rebuild hM hb1 hfat1 (gh' := gh) rfl htree hM.fileOK
  · right
    rcases closed_object_chainW hM hh ho hod hfree with ⟨h1, _⟩ | ⟨_, _, hch, hcm⟩
    · exact absurd h1 hc0
    have hhd : (chainOf gh.G (sCluster v.fatType o)).head? = some (sCluster v.fatType o) := by
      rw [head?_of_ne (ChainL.chain_ne_nil hch), ForestBase.chain_head_eq hch]
    obtain ⟨tail, htl⟩ : ∃ tail, chainOf gh.G (sCluster v.fatType o) = sCluster v.fatType o :: tail := by
      cases hcs : chainOf gh.G (sCluster v.fatType o) with
      | nil => rw [hcs] at hhd; cases hhd
      | cons a l =>
        rw [hcs] at hhd
        simp only [List.head?_cons, Option.some.injEq] at hhd
        exact ⟨l, by rw [hhd]⟩
    rw [htl] at hcm
    obtain ⟨A, B, hGeq⟩ := List.append_of_mem hcm
    refine ⟨A, B, tail, hGeq, ?_⟩
    have hG0 : HeadsOK (A ++ (sCluster v.fatType o :: tail) :: B) := by rw [← hGeq]; exact hG
    have hG' : HeadsOK (A ++ B) := headsOK_erase hG0
    have hec : effCluster v.fatType files o = sCluster v.fatType o := effCluster_of_none hfree
    -- chains of the other first clusters
    have hother : ∀ x, x ≠ sCluster v.fatType o → chainOf (A ++ B) x = chainOf gh.G x := by
      intro x hxne
      rw [hGeq]
      exact chainOf_erase_other hG0 hxne
    -- the slot lists of the directories do not depend on the removed chain
    have hslots : ∀ (d' : Disk) x, x ∈ dirIds gh.dirs → dirSlots v d' (A ++ B) x = dirSlots v d' gh.G x := by
      intro d' x hx
      by_cases hf : isFixedRoot v x
      · rw [dirSlots_fixed hf, dirSlots_fixed hf]
      · rw [dirSlots_chain hf, dirSlots_chain hf, hother]
        have := dirHead_ne_fileRefW hM hh ho hod (by rw [hec]; exact hc0) hx hf
        rw [hec] at this
        exact this
    have hE' : SlotEdit gh.dirs (dirSlots v d gh.G)
        (dirSlots v (d.set o.1 ((d.get o.1).set o.2.1 (UInt8.ofNat 0xE5))) (A ++ B)) h pre post o
        (o.1, o.2.1, o.2.2.set 0 (UInt8.ofNat 0xE5)) :=
      ⟨hE.mem, fun x hx hne => (hslots _ x hx).trans (hE.other x hx hne), hE.before, (hslots _ h hh).trans hE.after,
        hE.pre_nz, hE.pre_len, hE.new_nz⟩
    have htree := tree_delete (G' := A ++ B) hM.tree hG hE' ⟨hnz, hkeep⟩ hod hnewkeep hfree
      (by
        intro c _ hcne
        rw [hother c hcne]
        exact Nat.le_refl _)
      (by
        intro a
        rw [if_pos hc0, hGeq]
        exact heads_erase_count A B _ a)
    -- CHANGED (bookkeeping of `X`): the chain moves from the middle of `G` to the front of the lost chains
    have hown0 : Owns v d ((A ++ (sCluster v.fatType o :: tail) :: B) ++ X) := by
      have := hM.owns
      rwa [hGeq] at this
    have hown1 : Owns v (d.set o.1 ((d.get o.1).set o.2.1 (UInt8.ofNat 0xE5))) ((A ++ (sCluster v.fatType o :: tail) :: B) ++ X) :=
      WriteRefines.owns_of_fat_eq hfat1 hown0
    refine ⟨hb1, hM.geom, hM.hint, ?_, htree, ?_⟩
    · refine owns_perm ?_ hown1
      show ((A ++ (sCluster v.fatType o :: tail) :: B) ++ X).Perm ((A ++ B) ++ (sCluster v.fatType o :: tail) :: X)
      rw [List.append_assoc, List.cons_append]
      refine List.perm_middle.trans ?_
      rw [← List.append_assoc]
      exact List.perm_middle.symm
    · intro f hf
      have hne := open_ne_closedW hM hh ho hod hfree hc0 hf
      show FileLoose v _ f (chainOf (A ++ B) f.entry.cluster) ∧ (chainOf (A ++ B) f.entry.cluster = [] → f.curCluster < 2)
      rw [hother _ hne]
      obtain ⟨hok, hcur⟩ := hM.fileOK f hf
      refine ⟨fileLoose_of_owns (SameGeom.refl v) hok hown1 ?_, hcur⟩
      by_cases hnil : chainOf gh.G f.entry.cluster = []
      · exact .inl hnil
      · right
        rw [← hGeq]
        exact List.mem_append_left _ (chainOf_spec hG ((chainOf_ne_nil_iff hG).1 hnil)).1

/-- `free_cluster_chain(c)` on a chain `c :: tail` of the medium that no entry names: the invariant holds
without the extra chain. -/
theorem free_unreferencedW {fs : FS} {files : List FileInfo} {gh : Ghost} {c : Nat} {tail : List Nat}
    (hM : MedW cb fs.vol fs.dev.disk files gh ((c :: tail) :: X)) (hn : NoFault fs) (hc : Coherent fs) :
    ∃ fs', freeClusterChain c fs = (.ok (), fs') ∧ NoFault fs' ∧ Coherent fs' ∧ SameGeom fs.vol fs'.vol ∧
      MedW cb fs'.vol fs'.dev.disk files { vol := fs'.vol, G := gh.G, dirs := gh.dirs } X := by
  have hr : Ready fs := ⟨hn, hc, hM.blocksOK, hM.geom, hM.hint⟩
  -- CHANGED (bookkeeping of `X`): `owns_free` with the remaining lost chains behind the freed one
  have hown : Owns fs.vol fs.dev.disk (gh.G ++ [c :: tail] ++ X) := by
    have := hM.owns
    rwa [show gh.G ++ (c :: tail) :: X = gh.G ++ [c :: tail] ++ X by simp] at this
  obtain ⟨fs', hrun, hr', hown', hsg, _, _⟩ := ForestStep.owns_free fs gh.G X c tail hr hown
  have hch : Chain fs.vol fs.dev.disk c (c :: tail) :=
    hM.owns.1 _ (List.mem_append_right _ List.mem_cons_self)
  obtain ⟨fs2, hrun2, _, _, _, _, _, hframe⟩ := ForestTrunc.free_spec fs c tail hn hc hM.blocksOK hM.geom hch
  have hfs : fs2 = fs' := by
    have := hrun2.symm.trans hrun
    exact (Prod.mk.inj this).2
  subst hfs
  refine ⟨fs2, hrun, hr'.noFault, hr'.coherent, hsg, ?_⟩
  have hown2 : Owns fs2.vol fs2.dev.disk (gh.G ++ X) := by
    simpa only [List.append_nil] using hown'
  have hG := med_headsW hM
  refine medW_fat_update (X' := X) (G' := gh.G) hM hsg hr'.hint hr'.blocksOK hown2 (fun _ _ _ => rfl) ?_ rfl hM.tree ?_
  · intro h hh s hs
    apply hframe.nonFat
    rcases dirSlot_not_fatW hM hh hs with h1 | h1 <;> rw [h1] <;> intro e <;> cases e
  · intro f hf
    obtain ⟨hok, hcur⟩ := hM.fileOK f hf
    refine ⟨fileLoose_of_owns hsg hok hown2 ?_, hcur⟩
    by_cases hnil : chainOf gh.G f.entry.cluster = []
    · exact .inl hnil
    · exact .inr (List.mem_append_left _ (chainOf_spec hG ((chainOf_ne_nil_iff hG).1 hnil)).1)

/-- **A file entry is deleted and its chain given back**: `delete_directory_entry` followed by
`free_cluster_chain` of the entry's start cluster, for a file object `o` of the directory with the given name
that no open file sits at.  Both succeed and the invariant holds again. -/
theorem delete_medW {fs : FS} {files : List FileInfo} {gh : Ghost} (hM : MedW cb fs.vol fs.dev.disk files gh X)
    (hn : NoFault fs) (hc : Coherent fs) {dc : Nat} (hv : ValidDir gh.dirs dc)
    (name : Bytes) (hname : name.head? ≠ some 0xE5) {o : Slot}
    (ho : o ∈ objects (dirIdOf dc) (dirSlots fs.vol fs.dev.disk gh.G (dirIdOf dc)))
    (hod : isDirE o = false) (hsn : sName o = name) (hfree : pendOf files o = none) :
    ∃ fs', (do Fat.deleteDirectoryEntry dc name; Fat.freeClusterChain (sCluster fs.vol.fatType o) : F Unit) fs = (.ok (), fs') ∧
      NoFault fs' ∧ Coherent fs' ∧ SameGeom fs.vol fs'.vol ∧
      ∃ gh', gh'.vol = fs'.vol ∧ gh'.dirs = gh.dirs ∧ MedW cb fs'.vol fs'.dev.disk files gh' X := by
  obtain ⟨hh, _⟩ := validDir_idW hM hv
  obtain ⟨fs1, hrun1, hd1, hv1, hn1, hc1⟩ := delete_markW hM hn hc hv name hname (mem_entries_of_objects ho) hsn
  rcases mark_medW hM hh ho hod hfree with ⟨hc0, hM1⟩ | ⟨A, B, tail, hGeq, hM1⟩
  · have hrun2 : freeClusterChain (sCluster fs.vol.fatType o) fs1 = (.ok (), fs1) := by
      rw [hc0]; rfl
    refine ⟨fs1, ?_, hn1, hc1, SameGeom.of_eq hv1, { gh with vol := fs1.vol }, rfl, rfl, ?_⟩
    · rw [FBasic.bind_ok hrun1, hrun2]
    · rw [hv1, hd1]
      exact medW_of_ghost hM1 rfl rfl
  · rw [← hd1, ← hv1] at hM1
    obtain ⟨fs2, hrun2, hn2, hc2, hsg2, hM2⟩ := free_unreferencedW hM1 hn1 hc1
    refine ⟨fs2, ?_, hn2, hc2, (SameGeom.of_eq hv1).trans hsg2, { vol := fs2.vol, G := A ++ B, dirs := gh.dirs }, rfl, rfl, hM2⟩
    rw [FBasic.bind_ok hrun1, ← hv1, hrun2]

end

end Sdmmc.Lemmas.CrashContDelete
