/-
`step_crash`: every `FatOp` on every state satisfying `Exact`, at every prefix of its device writes,
leaves a medium satisfying `StepCrash`.  `run_crash_sound`, `run_crash_chain`: the same over every
history and every crash point of the concatenated write sequence of the history.
-/
import Sdmmc.Lemmas.CrashStep
import Sdmmc.Lemmas.ForestFinal

namespace Sdmmc.Lemmas.CrashHist
open Sdmmc.Model Sdmmc.Model.Fat Sdmmc.Spec
open Sdmmc.Lemmas.FBasic hiding NoFault Coherent
open Sdmmc.Lemmas.FatOps hiding BlocksOK Mirror HintOK
open Sdmmc.Lemmas.ChainL Sdmmc.Lemmas.ForestBase Sdmmc.Lemmas.ForestTrunc Sdmmc.Lemmas.ForestAlloc
open Sdmmc.Lemmas.ForestOwns Sdmmc.Lemmas.ForestStep Sdmmc.Lemmas.CrashBase Sdmmc.Lemmas.CrashFat
open Sdmmc.Lemmas.CrashAlloc Sdmmc.Lemmas.CrashStep

/-! ### One step -/

theorem ne_of_other_chain {G : List (List Nat)} (hnd : G.flatten.Nodup) {i j : Nat} {cs X : List Nat}
    (hi : G[i]? = some cs) (hj : G[j]? = some X) (hne : j ≠ i) {p x : Nat} (hp : p ∈ cs) (hx : x ∈ X) : x ≠ p := by
  rintro rfl
  obtain ⟨a, ha⟩ := List.mem_iff_getElem?.1 hp
  obtain ⟨b, hb⟩ := List.mem_iff_getElem?.1 hx
  exact hne (ForestFinal.flatten_pos_unique G hnd i j a b cs X x hi hj ha hb).1.symm

theorem step_crash (st : FS × List (List Nat)) (op : FatOp) (h : Exact st) :
    CrashAll (StepCrash st.1.vol st.1.dev.disk st.2 (Spec.step st op).2 op) st.1 (Spec.step st op).1 := by
  have hok := (step_ok st op h).1
  obtain ⟨s, G⟩ := st
  have hr' : Ready s := h.1
  have ho' : Owns s.vol s.dev.disk G := h.2
  have hnoop : Spec.step (s, G) op = (s, G) →
      CrashAll (StepCrash s.vol s.dev.disk G (Spec.step (s, G) op).2 op) s (Spec.step (s, G) op).1 := fun e => by
    rw [e]; exact CrashAll.same rfl rfl (stepCrash_refl op ho')
  have hfail : ∀ s', RO s s' → Spec.step (s, G) op = (s', G) →
      CrashAll (StepCrash s.vol s.dev.disk G (Spec.step (s, G) op).2 op) s (Spec.step (s, G) op).1 := fun s' ro e => by
    rw [e]; exact CrashAll.of_ro ro (stepCrash_refl op ho')
  cases op with
  | newChain zero =>
    rcases alloc_cases s none zero hr'.noFault hr'.coherent with ⟨c, s', ha⟩ | ⟨s', ha, ro⟩
    · have e : Spec.step (s, G) (.newChain zero) = (s', G ++ [[c]]) := by simp only [Spec.step, ha]
      rw [e] at hok ⊢
      refine (alloc_stepCrash s s' G _ none zero c hr' ho' (fun p hp => by cases hp) ha hok.2).mono fun d hd => ?_
      obtain ⟨h1, h2, h3, h4, h5, h6⟩ := hd
      exact ⟨h1, (fun ⟨i, hi⟩ => by cases hi), fun j X hj _ x hx => h2 x (mem_flatten_of_get hj hx) (fun e => by cases e),
        h3, h4, h5, h6⟩
    · exact hfail s' ro (by simp only [Spec.step, ha])
  | extend i zero =>
    cases hG : G[i]? with
    | none => exact hnoop (by simp only [Spec.step, hG])
    | some cs =>
      cases hl : cs.getLast? with
      | none => exact hnoop (by simp only [Spec.step, hG, hl])
      | some p =>
        have hpcs : p ∈ cs := List.mem_of_getLast? hl
        rcases alloc_cases s (some p) zero hr'.noFault hr'.coherent with ⟨c, s', ha⟩ | ⟨s', ha, ro⟩
        · have e : Spec.step (s, G) (.extend i zero) = (s', G.set i (cs ++ [c])) := by simp only [Spec.step, hG, hl, ha]
          rw [e] at hok ⊢
          refine (alloc_stepCrash s s' G _ (some p) zero c hr' ho'
            (fun q hq => by cases hq; exact mem_flatten_of_get hG hpcs) ha hok.2).mono fun d hd => ?_
          obtain ⟨h1, h2, h3, h4, h5, h6⟩ := hd
          refine ⟨h1, (fun ⟨i, hi⟩ => by cases hi), fun j X hj hne x hx => ?_, h3, h4, h5, h6⟩
          have hji : j ≠ i := fun e => hne (by rw [e]; rfl)
          exact h2 x (mem_flatten_of_get hj hx) fun e =>
            ne_of_other_chain ho'.2.1 hG hj hji hpcs hx (Option.some.inj e).symm
        · exact hfail s' ro (by simp only [Spec.step, hG, hl, ha])
  | truncate i k =>
    cases hG : G[i]? with
    | none => exact hnoop (by simp only [Spec.step, hG])
    | some cs =>
      cases hk : cs[k]? with
      | none => exact hnoop (by simp only [Spec.step, hG, hk])
      | some x =>
        obtain ⟨hsplit, _⟩ := split_at hG
        obtain ⟨hcsplit, _⟩ := split_at hk
        have hcs : cs = cs.take k ++ x :: cs.drop (k + 1) := by
          conv => lhs; rw [hcsplit]
          rw [List.append_assoc]; rfl
        have ho2 : Owns s.vol s.dev.disk (G.take i ++ [cs.take k ++ x :: cs.drop (k + 1)] ++ G.drop (i + 1)) := by
          rw [← hcs, ← hsplit]; exact ho'
        obtain ⟨s', ht, hcr⟩ := truncate_stepCrash s _ _ (cs.take k) (cs.drop (k + 1)) x hr' ho2
        have e : Spec.step (s, G) (.truncate i k) = (s', G.set i (cs.take (k + 1))) := by simp only [Spec.step, hG, hk, ht]
        rw [e]
        refine hcr.mono fun d hd => ?_
        obtain ⟨h1, h2, h3, h5, h6⟩ := hd
        rw [← hcs, ← hsplit] at h1 h5
        have hset : G.set i (cs.take (k + 1)) = G.take i ++ [cs.take k ++ [x]] ++ G.drop (i + 1) := by
          rw [set_at hG, List.take_add_one, hk]; rfl
        refine ⟨by rw [hset]; exact h1, (fun ⟨i, hi⟩ => by cases hi), fun j X hj hne z hz => ?_,
          fun b hb hne => absurd (h3 b hb) hne, (fun hz => by cases hz), fun y hy => .inl (h5 y hy), h6⟩
        have hji : j ≠ i := fun e => hne (by rw [e]; rfl)
        exact h2 z (mem_split_of_ne hj hji hz)
  | free i =>
    cases hG : G[i]? with
    | none => exact hnoop (by simp only [Spec.step, hG])
    | some cs =>
      cases hh : cs.head? with
      | none => exact hnoop (by simp only [Spec.step, hG, hh])
      | some r =>
        obtain ⟨hsplit, _⟩ := split_at hG
        have hcs : cs = r :: cs.tail := by
          cases cs with
          | nil => cases hh
          | cons a t => cases hh; rfl
        have ho2 : Owns s.vol s.dev.disk (G.take i ++ [r :: cs.tail] ++ G.drop (i + 1)) := by
          rw [← hcs, ← hsplit]; exact ho'
        obtain ⟨s', hf, hcr⟩ := free_stepCrash s _ _ r cs.tail hr' ho2
        have e : Spec.step (s, G) (.free i) = (s', G.eraseIdx i) := by simp only [Spec.step, hG, hh, hf]
        rw [e]
        refine hcr.mono fun d hd => ?_
        obtain ⟨h1, h2, h3, h5, h6⟩ := hd
        rw [← eraseIdx_at] at h1
        rw [← hcs, ← hsplit] at h5
        refine ⟨.inr h1, fun _ => h1, fun j X hj hne z hz => ?_, fun b hb hne => absurd (h3 b hb) hne,
          (fun hz => by cases hz), fun y hy => .inl (h5 y hy), h6⟩
        have hji : j ≠ i := fun e => hne (by rw [e]; rfl)
        exact h2 z (mem_split_of_ne hj hji hz)

/-! ### What `StepCrash` gives for a chain the operation does not work on -/

/-- The chain and its data bytes are intact on the crashed medium. -/
theorem stepCrash_chain {v : FatVolume} {d0 d : Disk} {G G' : List (List Nat)} {op : FatOp} (hg : WFGeom v)
    (ho : Owns v d0 G) (hc : StepCrash v d0 G G' op d) {j : Nat} {X : List Nat} (hj : G[j]? = some X)
    (hne : opIndex op ≠ some j) :
    Chain v d (X.headD 0) X ∧ chainBytes v d X = chainBytes v d0 X := by
  have hX : X ∈ G := List.mem_of_getElem? hj
  refine ⟨chain_congr_raw (ho.1 X hX) (hc.others j X hj hne), chainBytes_congr v d0 d X fun x hx b hb => ?_⟩
  have hu : isUsed v d0 x := owns_mem_used ho (mem_flatten_of_mem hX hx)
  refine Classical.byContradiction fun hdiff => ?_
  have hreg : regionOf v (clusterToBlock v x + b) ≠ .fat := by
    rw [FatLens.cluster_blocks_in_data_region v hg x b hu.1.1 hu.1.2 hb]; decide
  obtain ⟨_, c, hrc, hfc, hin⟩ := hc.blocks _ hreg hdiff
  have hxc : x ≠ c := fun e => hu.2.1 (e ▸ hfc)
  obtain ⟨h1, h2⟩ := hin
  have := FatLens.cluster_blocks_disjoint v hg x c b (clusterToBlock v x + b - clusterToBlock v c) hu.1.1 hrc.1
    (FatLens.lt_end_ne_root v hg x hu.1.2) (FatLens.lt_end_ne_root v hg c hrc.2) hb (by omega) (by omega)
  exact hxc this.1

/-! ### Histories -/

theorem run_cons (st : FS × List (List Nat)) (op : FatOp) (ops : List FatOp) :
    Spec.run st (op :: ops) = Spec.run (Spec.step st op) ops := rfl

/-- At every crash point of a whole history — every prefix of the concatenated device writes of all
its operations — the medium is sound for the client's record at some moment of the history (the
record before or after the operation that was cut). -/
theorem run_crash_sound (ops : List FatOp) : ∀ (st : FS × List (List Nat)), Exact st →
    CrashAll (fun d => ∃ n, n ≤ ops.length ∧ OwnsLoose st.1.vol d (Spec.run st (ops.take n)).2) st.1 (Spec.run st ops).1 := by
  induction ops with
  | nil => intro st h; exact CrashAll.same rfl rfl ⟨0, Nat.le_refl _, ownsLoose_of_owns h.2⟩
  | cons op ops ih =>
    intro st h
    have hstep := step_ok st op h
    have h1 : CrashAll (fun d => ∃ n, n ≤ (op :: ops).length ∧ OwnsLoose st.1.vol d (Spec.run st ((op :: ops).take n)).2)
        st.1 (Spec.step st op).1 :=
      (step_crash st op h).mono fun d hd => by
        rcases hd.sound with hs | hs
        · exact ⟨0, Nat.zero_le _, hs⟩
        · exact ⟨1, by simp only [List.length_cons]; omega, hs⟩
    refine h1.trans ((ih (Spec.step st op) hstep.1).mono fun d hd => ?_)
    obtain ⟨n, hn, hs⟩ := hd
    exact ⟨n + 1, by simp only [List.length_cons]; omega, ownsLoose_sameGeom hstep.2.1.symm hs⟩

/-- FAT copies that are identical at the start of a history are identical except in at most one
sector at every crash point of the history. -/
theorem run_crash_mirror (ops : List FatOp) : ∀ (st : FS × List (List Nat)), Exact st → Mirror st.1.vol st.1.dev.disk →
    CrashAll (fun d => MirrorBut st.1.vol d) st.1 (Spec.run st ops).1 := by
  induction ops with
  | nil => intro st _ hm; exact CrashAll.same rfl rfl (mirrorBut_of_mirror hm)
  | cons op ops ih =>
    intro st h hm
    have hstep := step_ok st op h
    exact ((step_crash st op h).mono fun d hd => hd.mirror hm).trans
      ((ih (Spec.step st op) hstep.1 (hstep.2.2.1 hm)).mono fun d hd => mirrorBut_sameGeom hstep.2.1 hd)

/-- The record after a step still contains every chain the step did not work on. -/
theorem mem_step (st : FS × List (List Nat)) (op : FatOp) (X : List Nat) (hX : X ∈ st.2)
    (hne : opChain st.2 op ≠ some X) : X ∈ (Spec.step st op).2 := by
  obtain ⟨s, G⟩ := st
  have hset : ∀ i cs cs', G[i]? = some cs → cs ≠ X → X ∈ G.set i cs' := fun i cs cs' hi hc => by
    obtain ⟨j, hj⟩ := List.mem_iff_getElem?.1 hX
    have hji : i ≠ j := fun e => hc (Option.some.inj ((e ▸ hi).symm.trans hj))
    exact List.mem_of_getElem? (by rw [List.getElem?_set_ne hji]; exact hj)
  cases op with
  | newChain zero =>
    simp only [Spec.step]
    split
    · exact List.mem_append_left _ hX
    · exact hX
  | extend i zero =>
    simp only [Spec.step]
    cases hG : G[i]? with
    | none => exact hX
    | some cs =>
      have hc : cs ≠ X := fun e => hne (by show G[i]? = some X; rw [hG, e])
      simp only
      split
      · exact hX
      · split
        · exact hset i cs _ hG hc
        · exact hX
  | truncate i k =>
    simp only [Spec.step]
    cases hG : G[i]? with
    | none => exact hX
    | some cs =>
      have hc : cs ≠ X := fun e => hne (by show G[i]? = some X; rw [hG, e])
      simp only
      split
      · exact hX
      · split
        · exact hset i cs _ hG hc
        · exact hX
  | free i =>
    simp only [Spec.step]
    cases hG : G[i]? with
    | none => exact hX
    | some cs =>
      have hc : cs ≠ X := fun e => hne (by show G[i]? = some X; rw [hG, e])
      simp only
      split
      · exact hX
      · split
        · obtain ⟨hsplit, _⟩ := split_at hG
          rw [eraseIdx_at]
          rw [hsplit] at hX
          rcases List.mem_append.1 hX with hX | hX
          · rcases List.mem_append.1 hX with hX | hX
            · exact List.mem_append_left _ (List.mem_append_left _ hX)
            · exact absurd (List.mem_singleton.1 hX).symm hc
          · exact List.mem_append_right _ hX
        · exact hX

/-- One step leaves a chain it does not work on — and its data — intact at every crash point. -/
theorem step_crash_chain (st : FS × List (List Nat)) (op : FatOp) (h : Exact st) (X : List Nat) (hX : X ∈ st.2)
    (hne : opChain st.2 op ≠ some X) :
    CrashAll (fun d => Chain st.1.vol d (X.headD 0) X ∧ chainBytes st.1.vol d X = chainBytes st.1.vol st.1.dev.disk X)
      st.1 (Spec.step st op).1 := by
  refine (step_crash st op h).mono fun d hd => ?_
  obtain ⟨j, hj⟩ := List.mem_iff_getElem?.1 hX
  refine stepCrash_chain h.1.geom h.2 hd hj fun e => hne ?_
  unfold opChain; rw [e]; exact hj

/-- A chain no operation of the history works on, and the bytes of its clusters, are intact at every
crash point of the whole history; and it is still in the record at the end. -/
theorem run_crash_chain (X : List Nat) (ops : List FatOp) : ∀ (st : FS × List (List Nat)), Exact st → X ∈ st.2 →
    Untouched X st ops →
    CrashAll (fun d => Chain st.1.vol d (X.headD 0) X ∧ chainBytes st.1.vol d X = chainBytes st.1.vol st.1.dev.disk X)
      st.1 (Spec.run st ops).1 ∧ X ∈ (Spec.run st ops).2 := by
  induction ops with
  | nil =>
    intro st h hX _
    exact ⟨CrashAll.same rfl rfl ⟨h.2.1 X hX, rfl⟩, hX⟩
  | cons op ops ih =>
    intro st h hX hu
    obtain ⟨hne, hu'⟩ := hu
    have hstep := step_ok st op h
    have h1 := step_crash_chain st op h X hX hne
    obtain ⟨h2, hmem⟩ := ih (Spec.step st op) hstep.1 (mem_step st op X hX hne) hu'
    have hsg := hstep.2.1
    refine ⟨h1.trans (h2.mono fun d hd => ?_), hmem⟩
    obtain ⟨a, b⟩ := hd
    refine ⟨chain_sameGeom hsg.symm a, ?_⟩
    have e : ∀ d', chainBytes (Spec.step st op).1.vol d' X = chainBytes st.1.vol d' X := by
      obtain ⟨cnt, hint, hv⟩ := hsg
      intro d'; rw [hv]; rfl
    rw [← e d, b, e]
    exact h1.final.2

end Sdmmc.Lemmas.CrashHist
