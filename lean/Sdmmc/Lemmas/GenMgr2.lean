/-
`Gen/FunsMgr2.lean` (tools/translate_mgr2.py) against `Model/Mgr.lean`: `find_directory_entry`, `iterate_dir`,
`iterate_dir_lfn`, `make_dir_in_dir`, `get_root_volume_label`.  The statements are repeated, with their reading, in
`Props/C06GenMgr.lean` and `Props/C03GenMgr.lean`.
-/
import Sdmmc.Gen.FunsMgr2
import Sdmmc.Model.Wrap
import Sdmmc.Lemmas.GenMgr
import Sdmmc.Props.C06Gen
import Sdmmc.Props.C07GenM
import Sdmmc.Props.C08GenM
import Sdmmc.Lemmas.GenMgrIO
import Sdmmc.Lemmas.WrapIo

set_option linter.unusedSimpArgs false

namespace Sdmmc.Lemmas.GenMgr2

open Sdmmc Sdmmc.Model Sdmmc.Gen Sdmmc.Lemmas.GenMgr
open Sdmmc.Lemmas.GenMgrIO (PEq)
open Sdmmc.Props.C08GenM (get_dir_by_id_eq get_volume_by_id_eq)
open Sdmmc.Props.C07GenM (getDirById_state getVolumeById_state getDir_state toSfn_state is_directory_eq)

/-! ### The closures, folded -/

/-- `|de| if !de.attributes.is_lfn() { func(de) }` over the calls: the entries that are not LFN parts. -/
theorem fold_not_lfn (l : List DirEntry) (acc : List DirEntry) :
    l.foldl (fun st de => if ¬(FunsEnt.Attributes_is_lfn de.attributes = true) then st ++ [de] else st) acc =
      acc ++ l.filter fun e => !Attr.isLfn e.attributes := by
  induction l generalizing acc with
  | nil => simp
  | cons x xs ih =>
    rw [List.foldl_cons, ih, List.filter_cons, Props.C06Gen.attr_is_lfn_eq]
    cases Attr.isLfn x.attributes <;> simp

/-- The closure of `get_root_volume_label` over the calls: the first entry whose attributes are exactly `VOLUME`. -/
theorem fold_label (l : List DirEntry) :
    l.foldl (fun (st : Option (List UInt8)) de =>
      if (st = none) ∧ (de.attributes = FunsMgr.Attributes_create_from_fat 8) then some de.name else st) none =
      (l.find? fun e => e.attributes = ATTR_VOLUME).map (·.name) := by
  have hsome : ∀ (l : List DirEntry) (x : List UInt8), l.foldl (fun (st : Option (List UInt8)) de =>
      if (st = none) ∧ (de.attributes = FunsMgr.Attributes_create_from_fat 8) then some de.name else st) (some x) =
      some x := by
    intro l x
    induction l with
    | nil => rfl
    | cons y ys ih => rw [List.foldl_cons]; simpa using ih
  induction l with
  | nil => rfl
  | cons x xs ih =>
    rw [List.foldl_cons, List.find?_cons]
    have h8 : FunsMgr.Attributes_create_from_fat 8 = ATTR_VOLUME := rfl
    by_cases hx : x.attributes = ATTR_VOLUME
    · simp only [h8, hx, and_self, if_true, decide_true, Option.map]
      exact hsome xs x.name
    · simp only [h8, hx, and_false, if_false, decide_false]
      exact ih

/-! ### `find_directory_entry`, `iterate_dir`, `iterate_dir_lfn` -/

theorem find_directory_entry_eq (directory : Nat) (name : List Nat) (s : Mgr) :
    FunsMgr2.VolumeManager_find_directory_entry directory name s =
      if s.locked then (.err .LockError, s) else findDirectoryEntry directory name s := by
  unfold FunsMgr2.VolumeManager_find_directory_entry findDirectoryEntry
  simp only [bind_apply, get_apply, get_dir_by_id_eq, get_volume_by_id_eq]
  cases hl : s.locked
  · simp only [ite_apply, Bool.false_eq_true, if_false, bind_apply]
    have h1 := getDirById_state directory s
    rcases hg : getDirById directory s with ⟨r, s1⟩
    rw [hg] at h1; simp only at h1; subst h1
    cases r <;> simp only []
    rename_i di
    have h2 := getDir_state di s1
    rcases hd : getDir di s1 with ⟨r2, s2⟩
    rw [hd] at h2; simp only at h2; subst h2
    cases r2 <;> simp only []
    rename_i d
    have h3 := getVolumeById_state d.rawVolume s2
    rcases hv : getVolumeById d.rawVolume s2 with ⟨r3, s3⟩
    rw [hv] at h3; simp only at h3; subst h3
    cases r3 <;> simp only []
    rename_i vi
    have h4 := toSfn_state name s3
    rcases ht : toSfn name s3 with ⟨r4, s4⟩
    rw [ht] at h4; simp only at h4; subst h4
    cases r4 <;> simp only [hd]
  · simp only [ite_apply, if_true, fail_apply]

theorem iterate_dir_eq (directory : Nat) (s : Mgr) :
    FunsMgr2.VolumeManager_iterate_dir directory s =
      if s.locked then (.err .LockError, s) else iterateDir directory s := by
  unfold FunsMgr2.VolumeManager_iterate_dir iterateDir
  simp only [bind_apply, get_apply, get_dir_by_id_eq, get_volume_by_id_eq]
  cases hl : s.locked
  · simp only [ite_apply, Bool.false_eq_true, if_false, bind_apply]
    have h1 := getDirById_state directory s
    rcases hg : getDirById directory s with ⟨r, s1⟩
    rw [hg] at h1; simp only at h1; subst h1
    cases r <;> simp only []
    rename_i di
    have h2 := getDir_state di s1
    rcases hd : getDir di s1 with ⟨r2, s2⟩
    rw [hd] at h2; simp only at h2; subst h2
    cases r2 <;> simp only []
    rename_i d
    have h3 := getVolumeById_state d.rawVolume s2
    rcases hv : getVolumeById d.rawVolume s2 with ⟨r3, s3⟩
    rw [hv] at h3; simp only at h3; subst h3
    cases r3 <;> simp only [hd]
    rename_i vi
    rcases withVol vi (Fat.iterateRaw d.cluster) s3 with ⟨r5, s5⟩
    cases r5 <;> simp only [pure_apply, fold_not_lfn, List.nil_append]
  · simp only [ite_apply, if_true, fail_apply]

theorem iterate_dir_lfn_eq (directory : Nat) (buf : Lfn.Buf) (s : Mgr) :
    FunsMgr2.VolumeManager_iterate_dir_lfn directory buf s =
      if s.locked then (.err .LockError, s) else
        (getDirById directory >>= fun dirIdx => getDir dirIdx >>= fun d => getVolumeById d.rawVolume >>= fun volIdx =>
          withVol volIdx (Fat.iterateRaw d.cluster) >>= fun es => M.lift (lfnFold .Waiting buf es)) s := by
  unfold FunsMgr2.VolumeManager_iterate_dir_lfn
  simp only [bind_apply, get_apply, get_dir_by_id_eq, get_volume_by_id_eq]
  cases hl : s.locked
  · simp only [ite_apply, Bool.false_eq_true, if_false, bind_apply]
    have h1 := getDirById_state directory s
    rcases hg : getDirById directory s with ⟨r, s1⟩
    rw [hg] at h1; simp only at h1; subst h1
    cases r <;> simp only []
    rename_i di
    have h2 := getDir_state di s1
    rcases hd : getDir di s1 with ⟨r2, s2⟩
    rw [hd] at h2; simp only at h2; subst h2
    cases r2 <;> simp only []
    rename_i d
    have h3 := getVolumeById_state d.rawVolume s2
    rcases hv : getVolumeById d.rawVolume s2 with ⟨r3, s3⟩
    rw [hv] at h3; simp only at h3; subst h3
    cases r3 <;> simp only [hd]
  · simp only [ite_apply, if_true, fail_apply]

/-- With a fresh buffer of `n` bytes: the model's `iterateDirLfn`. -/
theorem iterate_dir_lfn_fresh (directory n : Nat) (s : Mgr) :
    FunsMgr2.VolumeManager_iterate_dir_lfn directory (Lfn.new (zeros n)) s =
      if s.locked then (.err .LockError, s) else iterateDirLfn directory n s := by
  rw [iterate_dir_lfn_eq]; rfl

/-! ### `make_dir_in_dir` -/

theorem make_dir_in_dir_eq (directory : Nat) (name : List Nat) (s : Mgr) :
    FunsMgr2.VolumeManager_make_dir_in_dir directory name s =
      if s.locked then (.err .LockError, s) else makeDirInDir directory name s := by
  unfold FunsMgr2.VolumeManager_make_dir_in_dir makeDirInDir
  simp only [bind_apply, get_apply, get_dir_by_id_eq, get_volume_by_id_eq]
  cases hl : s.locked
  · simp only [ite_apply, Bool.false_eq_true, if_false, bind_apply, get_apply]
    by_cases hfull : s.dirs.length ≥ s.maxDirs
    · simp only [hfull, if_true, fail_apply]
    · simp only [hfull, if_false, bind_apply]
      have h1 := getDirById_state directory s
      rcases hg : getDirById directory s with ⟨r, s1⟩
      rw [hg] at h1; simp only at h1; subst h1
      cases r <;> simp only []
      rename_i di
      have h2 := getDir_state di s1
      rcases hd : getDir di s1 with ⟨r2, s2⟩
      rw [hd] at h2; simp only at h2; subst h2
      cases r2 <;> simp only [hd]
      rename_i d
      have h3 := getVolumeById_state d.rawVolume s2
      rcases hv : getVolumeById d.rawVolume s2 with ⟨r3, s3⟩
      rw [hv] at h3; simp only at h3; subst h3
      cases r3 <;> simp only []
      rename_i vi
      have h4 := toSfn_state name s3
      rcases ht : toSfn name s3 with ⟨r4, s4⟩
      rw [ht] at h4; simp only at h4; subst h4
      cases r4 <;> simp only [attempt_apply]
      rename_i sfn
      have hclock := Lemmas.DirMgr.withVol_clock vi (Fat.findDirectoryEntry d.cluster sfn) s4
      rcases hw : withVol vi (Fat.findDirectoryEntry d.cluster sfn) s4 with ⟨r5, s5⟩
      rw [hw] at hclock; simp only at hclock
      cases r5 with
      | ok e =>
        simp only [is_directory_eq]
      | err e =>
        cases e <;> simp only [fail_apply, lift_apply, Res.bind, bind_apply, get_apply, hclock,
          show FunsMgr.Attributes_create_from_fat 16 = ATTR_DIRECTORY from rfl]
      | panic m => simp only [panic_apply, lift_apply, Res.bind]
      | diverged => simp only [lift_apply, Res.bind]; rfl
  · simp only [ite_apply, if_true, fail_apply]

/-! ### `get_root_volume_label` -/

theorem openRootDir_keeps (v : Nat) : KeepsLock (openRootDir v) := by
  unfold openRootDir
  exact KeepsLock.bind (fun _ => rfl) fun _ => KeepsLock.bind KeepsLock.get fun _ =>
    KeepsLock.ite _ (KeepsLock.fail _) (KeepsLock.bind (KeepsLock.modify _ fun _ => rfl) fun _ => KeepsLock.pure _)

theorem iterateDir_keeps (d : Nat) : KeepsLock (iterateDir d) := by
  unfold iterateDir
  exact KeepsLock.bind (getDirById_keeps d) fun _ => KeepsLock.bind (getDir_keeps _) fun _ =>
    KeepsLock.bind (getVolumeById_keeps _) fun _ => KeepsLock.bind (KeepsLock.withVol _ _) fun _ => KeepsLock.pure _

theorem getVolInfo_state (i : Nat) (s : Mgr) : (getVolInfo i s).2 = s := by
  unfold getVolInfo; split <;> rfl

/-- `get_root_volume_label`: the label of the boot sector if it is not blank; otherwise the root directory is opened,
listed (the first entry whose attributes are exactly `VOLUME`), and closed by the destructor on every path that
returns.  Equal to the model up to the state after a panic: when the listing panics or runs out of fuel the
translation stops there (an unwinding destructor is not modelled), the model still closes the directory. -/
theorem get_root_volume_label_eq (volume : Nat) (s : Mgr) :
    PEq (FunsMgr2.VolumeManager_get_root_volume_label volume s)
      (if s.locked then (.err .LockError, s) else getRootVolumeLabel volume s) := by
  unfold FunsMgr2.VolumeManager_get_root_volume_label getRootVolumeLabel
  simp only [bind_apply, get_apply, get_volume_by_id_eq]
  cases hl : s.locked
  · simp only [ite_apply, Bool.false_eq_true, if_false, bind_apply]
    have h1 := getVolumeById_state volume s
    rcases hg : getVolumeById volume s with ⟨r, s1⟩
    rw [hg] at h1; simp only at h1; subst h1
    cases r <;> try exact GenMgrIO.PEq.rfl' _
    rename_i vi
    simp only []
    have h2 := getVolInfo_state vi s1
    rcases hd : getVolInfo vi s1 with ⟨r2, s2⟩
    rw [hd] at h2; simp only at h2; subst h2
    cases r2 <;> try exact GenMgrIO.PEq.rfl' _
    rename_i v
    simp only []
    cases hemp : (volumeNameTrim v.vol.name).isEmpty
    · simp only [Bool.false_eq_true, not_false_eq_true, if_true, ite_apply, bind_apply, hd, pure_apply,
        Bool.not_false]
      exact GenMgrIO.PEq.rfl' _
    · simp only [not_true_eq_false, if_false, ite_apply, bind_apply, Bool.not_true, Bool.false_eq_true]
      rw [Props.C08GenM.open_root_dir_eq volume s2]
      simp only [hl, Bool.false_eq_true, if_false]
      have hk := openRootDir_keeps volume s2
      rcases ho : openRootDir volume s2 with ⟨r3, s3⟩
      rw [ho] at hk; simp only at hk
      cases r3 <;> try exact GenMgrIO.PEq.rfl' _
      rename_i dir
      simp only [attempt_apply, FunsMgr2.RawDirectory_to_directory, FunsMgr2.Directory_new,
        FunsMgr2.Directory_iterate_dir]
      have hl3 : s3.locked = false := hk.trans hl
      rw [iterate_dir_eq dir s3]
      simp only [hl3, Bool.false_eq_true, if_false]
      have hk4 := iterateDir_keeps dir s3
      rcases hi : iterateDir dir s3 with ⟨r4, s4⟩
      rw [hi] at hk4; simp only at hk4
      have hl4 : s4.locked = false := hk4.trans hl3
      have hdrop : FunsMgr2.Directory_Drop_drop dir s4 = (.ok (), (closeDir dir s4).2) := by
        unfold FunsMgr2.Directory_Drop_drop FunsMgr2.discardErr
        rw [Props.C08GenM.close_dir_eq dir s4]
        simp only [hl4, Bool.false_eq_true, if_false]
        rcases Lemmas.Wrap.closeDir_result s4 dir with he | ⟨s', he⟩ <;> rw [he]
      cases r4 with
      | ok es => simp only [bind_apply, hdrop, pure_apply, lift_apply, fold_label]; exact GenMgrIO.PEq.rfl' _
      | err e => simp only [bind_apply, hdrop, fail_apply, lift_apply]; exact GenMgrIO.PEq.rfl' _
      | panic m => simp only [panic_apply, lift_apply, bind_apply]; exact GenMgrIO.PEq.panic m _ _
      | diverged => simp only [lift_apply, bind_apply]; exact GenMgrIO.PEq.diverged _ _
  · simp only [ite_apply, if_true, fail_apply]
    exact GenMgrIO.PEq.rfl' _

end Sdmmc.Lemmas.GenMgr2
