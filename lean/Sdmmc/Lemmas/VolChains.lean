/-
Volume invariant (C03): the chain list under the edits the FAT engine makes — one chain replaced by
a chain with the same first cluster (extension, truncation), one chain removed, one chain added:
first clusters and `chainOf` of the other first clusters are unchanged.
-/
import Mathlib.Data.List.Nodup
import Sdmmc.Lemmas.VolFacts

namespace Sdmmc.Lemmas.VolTree
open Sdmmc.Model Sdmmc.Model.Fat Sdmmc.Spec Sdmmc.Spec.Volume

theorem heads_replace (A B : List (List Nat)) (ch ch1 : List Nat) (hh : ch1.headD 0 = ch.headD 0) :
    heads (A ++ ch1 :: B) = heads (A ++ ch :: B) := by
  unfold heads
  rw [List.map_append, List.map_append, List.map_cons, List.map_cons, hh]

theorem headsOK_mem_other {A B : List (List Nat)} {ch : List Nat} (hG : HeadsOK (A ++ ch :: B)) {cs : List Nat}
    (hcs : cs ∈ A ++ ch :: B) (hne : cs.headD 0 ≠ ch.headD 0) : cs ∈ A ++ B := by
  rcases List.mem_append.1 hcs with h | h
  · exact List.mem_append_left _ h
  · rcases List.mem_cons.1 h with rfl | h
    · exact absurd rfl hne
    · exact List.mem_append_right _ h

theorem chainOf_replace_other {A B : List (List Nat)} {ch ch1 : List Nat} (hG : HeadsOK (A ++ ch :: B))
    (hG1 : HeadsOK (A ++ ch1 :: B)) (hh : ch1.headD 0 = ch.headD 0) {x : Nat} (hx : x ≠ ch.headD 0) :
    chainOf (A ++ ch1 :: B) x = chainOf (A ++ ch :: B) x := by
  by_cases hm : x ∈ heads (A ++ ch :: B)
  · obtain ⟨hmem, hhd⟩ := chainOf_spec hG hm
    have hne : (chainOf (A ++ ch :: B) x).headD 0 ≠ ch.headD 0 := by rw [headD_of_head? hhd]; exact hx
    have := headsOK_mem_other hG hmem hne
    apply chainOf_of_mem hG1 _ hhd
    rcases List.mem_append.1 this with h | h
    · exact List.mem_append_left _ h
    · exact List.mem_append_right _ (List.mem_cons_of_mem _ h)
  · rw [chainOf_nil hm, chainOf_nil (by rw [heads_replace A B ch ch1 hh]; exact hm)]

theorem chainOf_replace_self {A B : List (List Nat)} {ch1 : List Nat} (hG1 : HeadsOK (A ++ ch1 :: B)) {x : Nat}
    (hd : ch1.head? = some x) : chainOf (A ++ ch1 :: B) x = ch1 :=
  chainOf_of_mem hG1 (List.mem_append_right _ List.mem_cons_self) hd

/-- One chain removed. -/
theorem heads_erase_count (A B : List (List Nat)) (ch : List Nat) (a : Nat) :
    (heads (A ++ ch :: B)).count a = [ch.headD 0].count a + (heads (A ++ B)).count a := by
  unfold heads
  simp only [List.map_append, List.map_cons, List.count_append, List.count_cons, List.count_nil]
  omega

theorem headsOK_erase {A B : List (List Nat)} {ch : List Nat} (hG : HeadsOK (A ++ ch :: B)) : HeadsOK (A ++ B) := by
  refine ⟨fun cs h => hG.ne cs ?_, fun cs h => hG.ge cs ?_, ?_⟩
  · rcases List.mem_append.1 h with h | h
    · exact List.mem_append_left _ h
    · exact List.mem_append_right _ (List.mem_cons_of_mem _ h)
  · rcases List.mem_append.1 h with h | h
    · exact List.mem_append_left _ h
    · exact List.mem_append_right _ (List.mem_cons_of_mem _ h)
  · have := hG.nodup
    unfold heads at this ⊢
    rw [List.map_append, List.map_cons] at this
    rw [List.map_append]
    exact (List.nodup_middle.1 this |> List.nodup_cons.1).2

theorem chainOf_erase_other {A B : List (List Nat)} {ch : List Nat} (hG : HeadsOK (A ++ ch :: B)) {x : Nat}
    (hx : x ≠ ch.headD 0) : chainOf (A ++ B) x = chainOf (A ++ ch :: B) x := by
  have hG' := headsOK_erase hG
  by_cases hm : x ∈ heads (A ++ ch :: B)
  · obtain ⟨hmem, hhd⟩ := chainOf_spec hG hm
    have hne : (chainOf (A ++ ch :: B) x).headD 0 ≠ ch.headD 0 := by rw [headD_of_head? hhd]; exact hx
    exact chainOf_of_mem hG' (headsOK_mem_other hG hmem hne) hhd
  · rw [chainOf_nil hm]
    apply chainOf_nil
    intro hm'
    apply hm
    unfold heads at hm' ⊢
    rw [List.map_append] at hm'
    rw [List.map_append, List.map_cons]
    rcases List.mem_append.1 hm' with h | h
    · exact List.mem_append_left _ h
    · exact List.mem_append_right _ (List.mem_cons_of_mem _ h)

/-- One chain added at the end. -/
theorem chainOf_append_other {G : List (List Nat)} {ch : List Nat} (hG1 : HeadsOK (G ++ [ch])) {x : Nat}
    (hx : x ≠ ch.headD 0) : chainOf (G ++ [ch]) x = chainOf G x := by
  have := chainOf_erase_other (A := G) (B := []) (ch := ch) hG1 hx
  rw [List.append_nil] at this
  exact this.symm

theorem heads_append_count (G : List (List Nat)) (ch : List Nat) (a : Nat) :
    (heads (G ++ [ch])).count a = [ch.headD 0].count a + (heads G).count a := by
  have := heads_erase_count G [] ch a
  rw [List.append_nil] at this
  exact this

end Sdmmc.Lemmas.VolTree
