/-
Refinement of the API to the abstract file system, part 10b: a new directory entry (`new_entry_views`,
the engine side, shared by create and `make_dir`) and the creating branch of `open_file_in_dir`
(`create_refines`).
-/
import Sdmmc.Lemmas.AbsFsOpenBase
import Sdmmc.Lemmas.AbsFsStage
import Sdmmc.Lemmas.VolEng6

namespace Sdmmc.Lemmas.AbsFs
open Sdmmc.Model Sdmmc.Model.Fat Sdmmc.Spec.Volume Sdmmc.Lemmas.VolBase Sdmmc.Lemmas.VolTree
open Sdmmc.Spec hiding NoFault Coherent
open Sdmmc.Spec.AbsFs (Meta view storedMeta fatRound OpenFile OpenDir absStep)
open Sdmmc.Lemmas.VolDisk Sdmmc.Lemmas.VolMed Sdmmc.Lemmas.VolApi Sdmmc.Lemmas.VolEng
open Sdmmc.Lemmas.FBasic (NoFault Coherent)
open Sdmmc.Lemmas.MHoare

/-! ### Where a new entry goes, abstractly -/

theorem isDeleted_absSlot (ft : FatType) (c : Slot → Bytes) (o : Slot) :
    Spec.AbsFs.Slot.isDeleted (absSlot ft c o) = decide (first o = 0xE5) := by
  unfold absSlot
  by_cases h1 : first o = 0xE5
  · rw [if_pos h1]; simp [Spec.AbsFs.Slot.isDeleted, h1]
  · rw [if_neg h1]
    have : decide (first o = 0xE5) = false := by simp [h1]
    rw [this]
    split
    · rfl
    · split <;> rfl

theorem findIdx?_at {α : Type} (p : α → Bool) (pre : List α) (x : α) (rest : List α) (hpre : ∀ a, a ∈ pre → p a = false)
    (hx : p x = true) : (pre ++ x :: rest).findIdx? p = some pre.length := by
  induction pre with
  | nil => simp [List.findIdx?_cons, hx]
  | cons a l ih =>
    rw [List.cons_append, List.findIdx?_cons, hpre a List.mem_cons_self]
    simp only [Bool.false_eq_true, if_false]
    rw [ih fun b hb => hpre b (List.mem_cons_of_mem _ hb)]
    rfl

theorem findIdx?_none_of {α : Type} (p : α → Bool) (l : List α) (h : ∀ a, a ∈ l → p a = false) : l.findIdx? p = none := by
  rw [List.findIdx?_eq_none_iff]
  intro a ha
  rw [h a ha]

/-- The first free slot of a directory, abstractly. -/
theorem freeIdx_abs (ft : FatType) (c : Slot → Bytes) {ss pre post : List Slot} {old : Slot} (hs : ss = pre ++ old :: post)
    (hpre : ∀ x, x ∈ pre → first x ≠ 0) (hpre5 : ∀ x, x ∈ pre → first x ≠ 0xE5) (hold : first old = 0 ∨ first old = 0xE5) :
    Spec.AbsFs.freeIdx ((beforeEnd ss).map (absSlot ft c)) = pre.length := by
  unfold Spec.AbsFs.freeIdx
  rw [hs, beforeEnd_append_nz pre _ hpre, List.findIdx?_map]
  have hp : ∀ a, a ∈ pre → (Spec.AbsFs.Slot.isDeleted ∘ absSlot ft c) a = false := by
    intro a ha
    simp only [Function.comp, isDeleted_absSlot, decide_eq_false_iff_not]
    exact hpre5 a ha
  rcases hold with h0 | h5
  · rw [beforeEnd_cons_z old post h0, List.append_nil, findIdx?_none_of _ _ hp]
    simp
  · have hnz : first old ≠ 0 := by rw [h5]; decide
    rw [beforeEnd_cons_nz old post hnz, findIdx?_at _ pre old _ hp (by simp [Function.comp, isDeleted_absSlot, h5])]
    rfl

/-! ### The engine: a new entry in the first free slot -/

section
variable {files : List FileInfo} {gh : Ghost} {X : List (List Nat)}

/-- What `writeNew_stage_x` gives, read for the abstraction: in the end state (ghost `(v1, G1)`) the view of the
directory is the old view with the new slot at the first free index; every other view is the same; the chain of
every file object is the same list with the same bytes. -/
theorem new_entry_views {fs fs' : FS} (hM : MedX fs.vol fs.dev.disk files gh X) {h : Nat} (hh : h ∈ dirIds gh.dirs)
    {r : Res DirEntry} {v1 : FatVolume} {d1 : Disk} {G1 : List (List Nat)} {pre post : List Slot} {old : Slot}
    (hS : Staged fs fs' files gh X h (fun _ => True) r v1 d1 G1 pre post old)
    (hview1 : ∀ x, x ∈ dirIds gh.dirs → beforeEnd (dirSlots v1 d1 G1 x) = beforeEnd (dirSlots fs.vol fs.dev.disk gh.G x))
    (bytes : Bytes) (hbl : bytes.length = 32) (hnz : first (old.1, old.2.1, bytes) ≠ 0)
    (hd' : fs'.dev.disk = d1.set old.1 (splice (d1.get old.1) old.2.1 bytes)) :
    beforeEnd (dirSlots v1 fs'.dev.disk G1 h) =
      putL (beforeEnd (dirSlots fs.vol fs.dev.disk gh.G h)) pre.length (old.1, old.2.1, bytes) ∧
    (∀ x, x ∈ dirIds gh.dirs → x ≠ h → beforeEnd (dirSlots v1 fs'.dev.disk G1 x) = beforeEnd (dirSlots fs.vol fs.dev.disk gh.G x)) ∧
    (∀ x, x ∈ dirIds gh.dirs → ∀ o, o ∈ beforeEnd (dirSlots fs.vol fs.dev.disk gh.G x) → keep o = true → isDirE o = false →
      ∀ n, fileContent v1 fs'.dev.disk (chainOf G1 (effCluster fs.vol.fatType files o)) n =
        fileContent fs.vol fs.dev.disk (chainOf gh.G (effCluster fs.vol.fatType files o)) n) ∧
    (first old = 0xE5 → (beforeEnd (dirSlots fs.vol fs.dev.disk gh.G h))[pre.length]? = some old) ∧
    (first old = 0 → (beforeEnd (dirSlots fs.vol fs.dev.disk gh.G h)).length = pre.length) := by
  have hM1 := hS.med
  have hh1 : h ∈ dirIds ({ vol := v1, G := G1, dirs := gh.dirs } : Ghost).dirs := hh
  obtain ⟨_, _, hnewsl, hothers⟩ := slot_write hM1 hh1 hS.split bytes hbl
  rw [← hd'] at hnewsl hothers
  have hct := hM1.tree.cleanTail h hh1
  have hold : first old ≠ 0 ∨ (first old = 0 ∧ ∀ t, t ∈ post → first t = 0) := by
    by_cases h0 : first old = 0
    · right
      refine ⟨h0, ?_⟩
      have := (cleanTail_split pre post old hS.pre_nz).1 (by rw [← hS.split]; exact hct)
      rw [if_pos h0] at this
      exact this
    · exact .inl h0
  obtain ⟨hv1, hv2, hv3⟩ := view_split hS.split hnewsl hS.pre_nz hnz hold
  have hft : v1.fatType = fs.vol.fatType := hS.sameGeom.fatType
  refine ⟨by rw [hv1, hview1 h hh], fun x hx hne => by rw [show dirSlots v1 fs'.dev.disk G1 x = dirSlots v1 d1 G1 x from hothers x hx hne, hview1 x hx],
    ?_, fun h5 => by rw [← hview1 h hh]; exact hv2 (by rw [h5]; decide), fun h0 => by rw [← hview1 h hh, hv3 h0]⟩
  intro x hx o ho hk hod n
  have hG := med_heads hM
  have hobj : o ∈ objects x (dirSlots fs.vol fs.dev.disk gh.G x) := view_object hM hx ho hk hod
  have ho1 : o ∈ beforeEnd (dirSlots v1 d1 G1 x) := by rw [hview1 x hx]; exact ho
  have hobj1 : o ∈ objects x (dirSlots v1 d1 G1 x) := view_object hM1 (show x ∈ dirIds ({ vol := v1, G := G1, dirs := gh.dirs } : Ghost).dirs from hx) ho1 hk hod
  by_cases hc0 : effCluster fs.vol.fatType files o = 0
  · rw [hc0, chainOf_lt_two (h := 0) (med_heads hM1) (by decide), chainOf_lt_two (h := 0) hG (by decide), fileContent_nil, fileContent_nil]
  · have hhead := fileRef_mem_heads hM.tree hx hobj hod hc0
    obtain ⟨hnr, hnd⟩ := fileRef_not_dir hM.tree hG hx hobj hod hc0
    have hceq := hS.chains_eq _ hhead hnr hnd
    rw [hceq, WriteRefines.sameGeom_fileContent hS.sameGeom]
    apply fileContent_congr'
    intro c hcm j hj
    obtain ⟨hmemG, _⟩ := chainOf_spec hG hhead
    have hcr := med_inRange hM hmemG hcm
    have hold_mem : old ∈ dirSlots v1 d1 G1 h := by rw [hS.split]; simp
    have hne : clusterToBlock v1 c + j ≠ old.1 := by
      have := dirBlock_not_fileChain hM1 hh1 hold_mem (show x ∈ dirIds ({ vol := v1, G := G1, dirs := gh.dirs } : Ghost).dirs from hx) hobj1
        hod c (by rw [hft]; show c ∈ chainOf G1 _; rw [hceq]; exact hcm) j
        (by rw [WriteRefines.sameGeom_bpc hS.sameGeom]; exact hj)
      exact this
    rw [hd', ← WriteRefines.sameGeom_clusterToBlock hS.sameGeom c, FBasic.Disk.get_set_ne _ _ _ _ (fun e => hne e.symm),
      WriteRefines.sameGeom_clusterToBlock hS.sameGeom c]
    exact hS.extra_blocks c j hcr.1 hcr.2 ⟨_, List.mem_append_left _ hmemG, hcm⟩ hj

end

/-! ### The creating branch of `open_file_in_dir` -/

theorem create_refines {s : Mgr} {gh : Ghost} {a : AState} (hI : VolInv s gh) (hA : Abs s gh a) {vi : VolInfo} (hvs : s.vols = [vi])
    (hvol : vi.vol = gh.vol) {d : DirInfo} (hdv : ValidDir gh.dirs d.cluster) (hraw : vi.rawVolume = d.rawVolume) (sfn : Bytes)
    (hlen : sfn.length = 11) (h0 : byteAt sfn 0 ≠ 0) (hE5 : byteAt sfn 0 ≠ 0xE5)
    (hfresh : sfn ∉ (entries (dirSlots gh.vol s.dev.disk gh.G (dirIdOf d.cluster))).map sName) :
    ∃ gh' a', VolInv (Modes.createRun d sfn s.clock s).2 gh' ∧ SameGeom gh.vol gh'.vol ∧ Abs (Modes.createRun d sfn s.clock s).2 gh' a' ∧
      ((a' = a ∧ (Modes.createRun d sfn s.clock s).1 = .err .NotEnoughSpace) ∨
       (a' = { Spec.AbsFs.gen (Spec.AbsFs.setSlot a (dirIdOf d.cluster) (Spec.AbsFs.freeIdx (a.slots (dirIdOf d.cluster))) (.file (storedMeta (Spec.AbsFs.newMeta sfn 0 a.clock)) [])) with files := a.files ++ [⟨a.nextId, d.rawVolume, .ReadWriteCreate, dirIdOf d.cluster, Spec.AbsFs.freeIdx (a.slots (dirIdOf d.cluster)), 0, Spec.AbsFs.newMeta sfn 0 a.clock, false⟩] } ∧
        (Modes.createRun d sfn s.clock s).1 = .ok s.nextId)) := by
  unfold Modes.createRun
  have hv0 : s.vols.findIdx? (·.rawVolume = d.rawVolume) = some 0 := by rw [hvs]; simp [hraw]
  rw [bind_ok (getVolumeById_ok hv0)]
  obtain ⟨hn, hc, hM⟩ := volInv_fs hI
  obtain ⟨hh, _⟩ := validDir_id hM hdv
  obtain ⟨r, fs', hrun, hn', hc', hcase⟩ := writeNew_stage_x hM hn hc hdv sfn 0 0 s.clock
  have hw := withVol_one (Fat.writeNewDirectoryEntry d.cluster sfn 0 Gen.CLUSTER_EMPTY s.clock) hvs hvol
  have hrun' : Fat.writeNewDirectoryEntry d.cluster sfn 0 Gen.CLUSTER_EMPTY s.clock (fsOf s gh) = (r, fs') := hrun
  rw [hrun'] at hw
  rcases hcase with ⟨hr, hd', hv'⟩ | ⟨v1, d1, G1, pre, post, old, hS, hr, hd', hview1, hpre5⟩
  · -- the directory is full
    subst hr
    rw [bind_err hw]
    have hvg : fs'.vol = gh.vol := hv'
    refine ⟨gh, a, ?_, SameGeom.refl _, abs_afterVol hA hvs fs' hd', .inl ⟨rfl, rfl⟩⟩
    refine volInv_afterVol hI hvs hn' hc' hvg.symm ?_ (fun _ h => h)
    rw [hd', hv']; exact hM
  · -- the entry is written
    subst hr
    rw [bind_ok hw, generate_bind, modify_bind]
    set h := dirIdOf d.cluster with hhdef
    have hM1 := hS.med
    have hh1 : h ∈ dirIds ({ vol := v1, G := G1, dirs := gh.dirs } : Ghost).dirs := hh
    set e := DirEntry.new sfn 0 0 s.clock old.1 old.2.1 with he
    obtain ⟨hbl, hfirst, hsn, hsa, hsc, hss⟩ := new_entry_slot v1.fatType sfn 0 0 s.clock old.1 old.2.1 hlen (by decide)
      (by cases v1.fatType <;> decide)
    set bytes := DirEntry.serialize v1.fatType e with hbytes
    set new : Slot := (old.1, old.2.1, bytes) with hnew
    have hnz : first new ≠ 0 := by rw [hfirst]; exact h0
    have hE := slotEdit_write hM1 hh1 hS.split hS.pre_nz hS.pre_len bytes hbl hnz
    have hkeep : keep new = true := by
      unfold keep isFrag
      rw [hfirst, hsa]
      simp [hE5]
    have hnd : isDirE new = false := by
      unfold isDirE; rw [hsa]; decide
    have hold_mem : old ∈ dirSlots v1 d1 G1 h := by rw [hS.split]; simp
    have hpend := pendOf_free_none hM1 hh1 hold_mem hS.free new rfl
    have htree := tree_insert_file hM1.tree (med_heads hM1) hE hS.free hkeep hnd
      (by rw [hsn, hS.entries_eq _ hh]; exact hfresh) hsc hss hpend
    obtain ⟨hb', hfat', _, _⟩ := slot_write hM1 hh1 hS.split bytes hbl
    have hM' := medX_rebuild hM1 hb' hfat' (gh' := { vol := v1, G := G1, dirs := gh.dirs }) rfl htree hM1.fileOK
    set gh' : Ghost := { vol := v1, G := G1, dirs := gh.dirs } with hgh'
    have hM'' : MedX fs'.vol fs'.dev.disk s.files gh' [] := by
      rw [hd', hS.vol']; exact hM'
    -- the new slot is an object of the directory
    have hobjnew : new ∈ objects h (dirSlots fs'.vol fs'.dev.disk gh'.G h) := by
      obtain ⟨A, _, hO', _, _⟩ := hE.objects_eq hM1.tree (hE.post_zero hM1.tree)
      rw [if_pos hkeep] at hO'
      rw [hS.vol', hd']
      show new ∈ objects h (dirSlots v1 _ G1 h)
      rw [hO']
      simp
      exact .inr (.inl rfl)
    have hfile : MedX fs'.vol fs'.dev.disk (s.files ++ [Modes.createdFile d s.nextId e]) gh' [] := by
      refine med_open hM'' hh1 hobjnew hnd hpend (f := Modes.createdFile d s.nextId e) rfl ?_ ?_ ?_ ?_ (Nat.zero_le _) rfl rfl
      · show e.name = sName new
        rw [hsn]; rfl
      · show e.attributes = sAttr new
        rw [hsa]; rfl
      · show e.cluster = sCluster fs'.vol.fatType new
        rw [hS.vol', hsc]; rfl
      · show e.size = sSize new
        rw [hss]; rfl
    have hI' := volInv_after (vi := vi) (files' := s.files ++ [Modes.createdFile d s.nextId e]) (dirs' := s.dirs) hI hn' hc'
      (show gh'.vol = fs'.vol from hS.vol'.symm) hfile
      (by
        intro g hg
        rcases List.mem_append.1 hg with hg | hg
        · obtain ⟨vi', hv', he'⟩ := hI.fileVols g hg
          rw [hvs] at hv'; cases hv'; exact he'
        · rw [List.mem_singleton.1 hg]; exact hraw.symm)
      (by intro di hdi; exact hI.openDirs di hdi) ((s.nextId + 1) % 4294967296)
    -- the views
    obtain ⟨hv_h, hv_o, hbytes_same, hidx5', hidx0'⟩ := new_entry_views hM hh hS hview1 bytes hbl hnz hd'
    have hidx5 : first old = 0xE5 → (DirView s gh h)[pre.length]? = some old := hidx5'
    have hidx0 : first old = 0 → (DirView s gh h).length = pre.length := hidx0'
    have hview1' : ∀ x, x ∈ dirIds gh.dirs → beforeEnd (dirSlots v1 d1 G1 x) = DirView s gh x := hview1
    set s' : Mgr := { afterVol s vi fs' with files := s.files ++ [Modes.createdFile d s.nextId e], dirs := s.dirs, nextId := (s.nextId + 1) % 4294967296 } with hs'
    have hview' : DirView s' gh' h = putL (DirView s gh h) pre.length new := hv_h
    have hother' : ∀ x, x ∈ dirIds gh.dirs → x ≠ h → DirView s' gh' x = DirView s gh x := hv_o
    have hft : v1.fatType = gh.vol.fatType := hS.sameGeom.fatType
    have hidx : Spec.AbsFs.freeIdx (a.slots h) = pre.length := by
      rw [hA.slots h hh, absSlots_eq, ← hview1' h hh]
      exact freeIdx_abs _ _ hS.split hS.pre_nz hpre5 hS.free
    set fnew := Modes.createdFile d s.nextId e with hfnew
    have hkeyn : fkey fnew = spos new := rfl
    -- no open file sits at the slot taken
    have hnofile : ∀ af1 f1, FileRel s gh af1 f1 → f1 ∈ s.files → af1.dir = h → af1.idx ≠ pre.length := by
      intro af1 f1 hr1 hf1 hd1 hi1
      obtain ⟨o1, ho1, hp1⟩ := hr1.slot
      rw [hd1, hi1] at ho1
      obtain ⟨_, hk1, _⟩ := open_file_object hM hf1 hh ho1 hp1
      rcases hS.free with f0 | f5
      · have hl := hidx0 f0
        have hlt : pre.length < (DirView s gh h).length := (List.getElem?_eq_some_iff.1 ho1).1
        omega
      · have h2 : (DirView s gh h)[pre.length]? = some old := hidx5 f5
        have : o1 = old := Option.some.inj (ho1.symm.trans h2)
        rw [this] at hk1
        unfold keep at hk1
        simp [f5] at hk1
    have hcont : ∀ x, x ∈ dirIds gh.dirs → ∀ j o', (DirView s gh x)[j]? = some o' → (x = h → j ≠ pre.length) →
        absSlot gh'.vol.fatType (contOf s' gh') o' = absSlot gh.vol.fatType (contOf s gh) o' := by
      intro x hx j o' ho' hne
      rw [show gh'.vol.fatType = gh.vol.fatType from hft]
      apply absSlot_cont_congr
      intro hk' hd'
      have hom : o' ∈ beforeEnd (dirSlots gh.vol s.dev.disk gh.G x) := List.mem_of_getElem? ho'
      -- the slot is not the one taken
      have hsp : spos o' ≠ fkey fnew := by
        intro hsp
        have ho1 : o' ∈ dirSlots v1 d1 G1 x := by
          have : o' ∈ beforeEnd (dirSlots v1 d1 G1 x) := by rw [hview1 x hx]; exact hom
          exact (mem_beforeEnd this).1
        obtain ⟨hxe, hoe⟩ := slot_unique hM1 (show x ∈ dirIds gh'.dirs from hx) hh1 ho1 hold_mem hsp
        subst hoe
        rcases hS.free with f0 | f5
        · exact (mem_beforeEnd hom).2 f0
        · unfold keep at hk'
          simp [f5] at hk'
      unfold contOf contentOf
      have hp : pendOf s'.files o' = pendOf s.files o' := pendOf_append_other s.files fnew hsp
      have e1 : effCluster gh'.vol.fatType s'.files o' = effCluster gh.vol.fatType s.files o' := by
        unfold effCluster; rw [hp]; show _ = _; rw [show gh'.vol.fatType = gh.vol.fatType from hft]
      have e2 : effSize s'.files o' = effSize s.files o' := by unfold effSize; rw [hp]
      rw [e1, e2]
      exact hbytes_same x hx o' hom hk' hd' _
    have hnewabs : absSlot gh'.vol.fatType (contOf s' gh') new = .file (storedMeta (Spec.AbsFs.newMeta sfn 0 a.clock)) [] := by
      rw [absSlot_file hkeep hnd]
      congr 1
      · show metaOf v1.fatType (old.1, old.2.1, DirEntry.serialize v1.fatType e) = _
        rw [metaOf_serialize _ _ _ _ (show e.name.length = 11 from hlen) (show e.attributes < 256 by show (0 : Nat) < 256; decide)
          (show e.size < 4294967296 by show (0 : Nat) < 4294967296; decide) (show e.cluster < 4294967296 by show (0 : Nat) < 4294967296; decide), hA.clock]
        rfl
      · unfold contOf
        rw [contentOf_open (pendOf_append_new s.files fnew hpend hkeyn)]
        show fileContent _ _ _ 0 = []
        unfold fileContent
        simp
    have hslotsE := slots_edit (s' := s') (gh' := gh') hA rfl hh hview' hother' hcont
    rw [hnewabs, ← hidx] at hslotsE
    refine ⟨gh', _, hI', by show SameGeom gh.vol v1; exact hS.sameGeom, ?_, .inr ⟨rfl, rfl⟩⟩
    refine ⟨by show (a.nextId + 1) % 4294967296 = _; rw [hA.nextId]; rfl, hA.maxDirs, hA.maxFiles, hA.clock, hA.locked, ?_, hA.dirs, ?_, hA.ids, hslotsE⟩
    · show a.vols = [({ vi with vol := fs'.vol } : VolInfo)].map _
      rw [hA.vols, hvs]; rfl
    · show List.Forall₂ (FileRel s' gh') (a.files ++ [_]) (s.files ++ [fnew])
      refine forall₂_append (forall₂_mono hA.files fun af1 f1 hf1 hr1 => ?_) (.cons ?_ .nil)
      · exact fileRel_edit hr1 rfl hview' hother' fun hd1 hi1 => absurd hi1 (hnofile af1 f1 hr1 hf1 hd1)
      · refine ⟨hA.nextId, rfl, rfl, rfl, ?_, rfl, hh, new, ?_, rfl⟩
        · show Spec.AbsFs.newMeta sfn 0 a.clock = view e
          rw [hA.clock]; rfl
        · show (DirView s' gh' h)[Spec.AbsFs.freeIdx (a.slots h)]? = some new
          rw [hview', hidx]
          apply putL_getElem?_self
          rcases hS.free with f0 | f5
          · rw [show (DirView s gh h).length = pre.length from hidx0 f0]; exact Nat.le_refl _
          · exact Nat.le_of_lt (List.getElem?_eq_some_iff.1 (hidx5 f5)).1

end Sdmmc.Lemmas.AbsFs
