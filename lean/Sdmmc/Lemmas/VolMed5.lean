/-
Volume invariant (C03), layer 1b: a file is opened on an existing file entry (`med_open`): the new
record carries the entry's fields; the invariant holds with the record added to the open-file table.
-/
import Sdmmc.Lemmas.VolMed4

namespace Sdmmc.Lemmas.VolMed
open Sdmmc.Model Sdmmc.Model.Fat Sdmmc.Spec Sdmmc.Spec.Volume Sdmmc.Lemmas.VolBase Sdmmc.Lemmas.VolTree
open Sdmmc.Lemmas.VolDisk

section
variable {v : FatVolume} {d : Disk} {files : List FileInfo} {gh : Ghost} {X : List (List Nat)}

/-- What the invariant says about a file object no open file sits at: its start cluster is 0 and it is
empty, or its start cluster is the first cluster of a chain long enough for its size. -/
theorem closed_object_chain (hM : MedX v d files gh X) {h : Nat} (hh : h ∈ dirIds gh.dirs) {o : Slot}
    (ho : o ∈ objects h (dirSlots v d gh.G h)) (hod : isDirE o = false) (hfree : pendOf files o = none) :
    (sCluster v.fatType o = 0 ∧ sSize o = 0 ∧ chainOf gh.G (sCluster v.fatType o) = []) ∨
    (sCluster v.fatType o ≠ 0 ∧ sSize o ≤ (chainOf gh.G (sCluster v.fatType o)).length * clusterBytesLen v ∧
      Chain v d (sCluster v.fatType o) (chainOf gh.G (sCluster v.fatType o)) ∧
      chainOf gh.G (sCluster v.fatType o) ∈ gh.G) := by
  have hG := med_heads hM
  have hs := hM.tree.sizes h hh o ho hod
  rw [effCluster_of_none hfree, effSize_of_none hfree] at hs
  rcases hs with ⟨h1, h2⟩ | ⟨h1, h2⟩
  · exact .inl ⟨h1, h2, by rw [h1]; exact chainOf_lt_two hG (by decide)⟩
  · right
    have hm := fileRef_mem_heads hM.tree hh ho hod (by rw [effCluster_of_none hfree]; exact h1)
    rw [effCluster_of_none hfree] at hm
    obtain ⟨hmem, hhd⟩ := chainOf_spec hG hm
    have hch := med_chain hM hmem
    rw [headD_of_head? hhd] at hch
    exact ⟨h1, h2, hch, hmem⟩

theorem sAttr_lt (o : Slot) : sAttr o < 256 := FatLens.byteAt_lt _ _
theorem sSize_lt (o : Slot) : sSize o < 4294967296 := FatLens.readU32_lt _ _

/-- **A file is opened** on the file entry `o` of directory `h`, which no open file sits at. -/
theorem med_open (hM : MedX v d files gh X) {h : Nat} (hh : h ∈ dirIds gh.dirs) {o : Slot}
    (ho : o ∈ objects h (dirSlots v d gh.G h)) (hod : isDirE o = false) (hfree : pendOf files o = none)
    {f : FileInfo} (hkey : fkey f = spos o) (hname : f.entry.name = sName o) (hattr : f.entry.attributes = sAttr o)
    (hcl : f.entry.cluster = sCluster v.fatType o) (hsz : f.entry.size = sSize o)
    (hoff : f.currentOffset ≤ f.entry.size) (hco : f.curClusterOff = 0) (hcc : f.curCluster = f.entry.cluster) :
    MedX v d (files ++ [f]) gh X := by
  have hG := med_heads hM
  have hoe : o ∈ entries (dirSlots v d gh.G h) := by
    unfold objects at ho
    split at ho
    · exact ho
    · exact List.mem_of_mem_drop ho
  obtain ⟨_, _, _, hfr⟩ := mem_entries hoe
  have hattrs : AttrsOK f := by
    unfold AttrsOK
    rw [hattr, hsz]
    unfold isFrag at hfr
    unfold isDirE at hod
    simp only [decide_eq_false_iff_not] at hfr hod
    refine ⟨sAttr_lt o, hfr, ?_, ?_⟩
    · have : sAttr o / 16 % 2 < 2 := Nat.mod_lt _ (by decide)
      omega
    · have := sSize_lt o
      have hm : Gen.MAX_FILE_SIZE = 4294967295 := rfl
      omega
  have htree := tree_open hM.tree hG (objPos_nodup hM) hh ho hod hfree hkey hname hattrs hcl hsz
  refine ⟨hM.blocksOK, hM.geom, hM.hint, hM.owns, htree, ?_⟩
  intro g hg
  rcases List.mem_append.1 hg with hg | hg
  · exact hM.fileOK g hg
  · rw [List.mem_singleton.1 hg, hcl]
    rcases closed_object_chain hM hh ho hod hfree with ⟨h1, h2, h3⟩ | ⟨h1, h2, h3, _⟩
    · rw [h3]
      refine ⟨⟨.inl ⟨by rw [hcl, h1]; decide, rfl, by rw [hsz]; exact h2⟩, by rw [hsz, h2]; exact Nat.zero_le _, hoff, .inl rfl⟩,
        fun _ => by rw [hcc, hcl, h1]; decide⟩
    · refine ⟨⟨.inr (by rw [hcl]; exact h3), by rw [hsz]; exact h2, hoff, .inr ⟨0, ?_, by rw [hco]; simp, ?_⟩⟩, ?_⟩
      · exact ChainL.chain_length_pos h3
      · rw [hcc, hcl]; exact ChainL.chain_get_zero h3
      · intro hnil
        exact absurd hnil (ChainL.chain_ne_nil h3)

end

end Sdmmc.Lemmas.VolMed
