/-
READING THROUGH A HANDLE WHOSE SIZE EXCEEDS ITS CHAIN (the handle a size-keeping `open_file_in_dir` of a DAMAGED closed file
hands out — `Props/C11HistD`: the one exclusion left).  `read` on a record that names a chain and whose cursor is on it, with
offset ≤ size — NOTHING assumed about the size against the chain, any fault schedule: the call answers `Ok` or an error
(never a panic, never a hang: the `assert!(to_copy != 0)` cannot fire, the cluster walk stops at the end-of-chain mark with
`EndOfFile`), changes only device bookkeeping, the cache, and offset and cursor of ITS record — the cursor stays on the
chain, the offset ≤ size.  (`Lemmas/RetryRead.lean` with the outcome tracked.)
-/
import Sdmmc.Lemmas.RetryRead
import Sdmmc.Spec.VolumeFault

namespace Sdmmc.Lemmas.Retry
open Sdmmc.Model Sdmmc.Model.Fat Sdmmc.Spec Sdmmc.Lemmas.Fault
open Sdmmc.Lemmas.FBasic hiding cacheRead_cases cacheRead_ok_tag NoFault Coherent
open Sdmmc.Lemmas.FatOps hiding BlocksOK Mirror HintOK
open Sdmmc.Lemmas.ChainL Sdmmc.Lemmas.ReadRefines
open Sdmmc.Spec.Volume (Clean)

/-- The outcome of a cluster walk: done, or an error. -/
def CleanU (r : Res Unit) : Prop := r = .ok () ∨ ∃ e, r = .err e

theorem decodeNext_clean (ft : FatType) (raw : Nat) : (∃ n, decodeNext ft raw = .ok n) ∨ ∃ e, decodeNext ft raw = .err e := by
  unfold decodeNext
  cases ft <;> simp only <;> (repeat' split) <;> first | exact .inl ⟨_, rfl⟩ | exact .inr ⟨_, rfl⟩

theorem nextOf_clean (v : FatVolume) (d : Disk) (c : Nat) : (∃ n, nextOf v d c = .ok n) ∨ ∃ e, nextOf v d c = .err e :=
  decodeNext_clean _ _

theorem readBlock_cases (b : Nat) (fs : FS) :
    (∃ blk fs', (do cacheRead b; cacheBlk : F Block) fs = (.ok blk, fs')) ∨
    ∃ fs', (do cacheRead b; cacheBlk : F Block) fs = (.err .DeviceError, fs') := by
  rcases hcr : cacheRead b fs with ⟨r, fs'⟩
  rcases cacheRead_result b fs with hr | hr
  · rw [hcr] at hr; simp only at hr; subst hr
    exact .inl ⟨fs'.cache.blk, fs', by rw [F.bind_ok hcr]; rfl⟩
  · rw [hcr] at hr; simp only at hr; subst hr
    exact .inr ⟨fs', by rw [F.bind_err hcr]⟩

theorem readBlock_ne_panic (b : Nat) (fs : FS) (m : String) (fs2 : FS) :
    (do cacheRead b; cacheBlk : F Block) fs ≠ (.panic m, fs2) := by
  intro h
  rcases readBlock_cases b fs with ⟨_, _, e⟩ | ⟨_, e⟩ <;> rw [e] at h <;> cases h

theorem readBlock_ne_div (b : Nat) (fs : FS) (fs2 : FS) :
    (do cacheRead b; cacheBlk : F Block) fs ≠ (.diverged, fs2) := by
  intro h
  rcases readBlock_cases b fs with ⟨_, _, e⟩ | ⟨_, e⟩ <;> rw [e] at h <;> cases h

theorem walk_on_chain_clean {c : Nat} {cs : List Nat} (bpc : Nat) :
    ∀ (n k o x : Nat) (s : FS), Coherent s → WFGeom s.vol → Chain s.vol s.dev.disk c cs → cs[k]? = some x →
      ∃ j z r s', walkClusters bpc n (o, x) s = (.ok ((o + j * bpc, z), r), s') ∧ cs[k + j]? = some z ∧ RO s s' ∧ CleanU r := by
  intro n
  induction n with
  | zero =>
    intro k o x s _ _ _ hx
    exact ⟨0, x, .ok (), s, by rw [Files.walk_zero, Nat.zero_mul, Nat.add_zero], by rw [Nat.add_zero]; exact hx, RO.refl s, .inl rfl⟩
  | succ n ih =>
    intro k o x s hc hg hch hx
    have hk := (List.getElem?_eq_some_iff.1 hx).1
    have hxr := chain_inRange_get hch k x hx
    have hro : RO s (nextCluster x s).2 := nextCluster_readOnly x s
    have hany := nextCluster_any x s hc (inRange_le s.vol hg x hxr)
    rw [Files.walk_succ]
    rcases hnc : nextCluster x s with ⟨r1, s1⟩
    rw [hnc] at hro hany
    simp only at hany
    have hstop : ∀ (r : Res Unit), CleanU r → ∃ j z r' s', ((Res.ok ((o, x), r) : Res ((Nat × Nat) × Res Unit)), s1) =
        (.ok ((o + j * bpc, z), r'), s') ∧ cs[k + j]? = some z ∧ RO s s' ∧ CleanU r' :=
      fun r hr => ⟨0, x, r, s1, by rw [Nat.zero_mul, Nat.add_zero], by rw [Nat.add_zero]; exact hx, hro, hr⟩
    cases r1 with
    | ok y =>
      simp only
      rcases hany with h | h
      · -- a true link
        by_cases hend : k + 1 = cs.length
        · rw [chain_next_last hch k x hx hend] at h; cases h
        · have hlt : k + 1 < cs.length := by omega
          have hz := chain_next hch k x cs[k + 1] hx (List.getElem?_eq_getElem hlt)
          rw [hz] at h
          cases h
          obtain ⟨j, z, r, s', hw, hz', hro', hcl⟩ := ih (k + 1) (o + bpc) cs[k + 1] s1 (hro.coherent hc)
            (by rw [hro.vol]; exact hg) (by rw [hro.vol, hro.disk]; exact hch) (List.getElem?_eq_getElem hlt)
          refine ⟨j + 1, z, r, s', ?_, by rw [← hz']; congr 1; omega, hro.trans hro', hcl⟩
          have e : o + bpc + j * bpc = o + (j * bpc + bpc) := by omega
          rw [hw, Nat.succ_mul, e]
      · cases h
    | err e => exact hstop _ (.inr ⟨e, rfl⟩)
    | panic m =>
      rcases hany with h | h
      · rcases nextOf_clean s.vol s.dev.disk x with ⟨n', hn'⟩ | ⟨e', he'⟩
        · rw [hn'] at h; cases h
        · rw [he'] at h; cases h
      · cases h
    | diverged =>
      rcases hany with h | h
      · rcases nextOf_clean s.vol s.dev.disk x with ⟨n', hn'⟩ | ⟨e', he'⟩
        · rw [hn'] at h; cases h
        · rw [he'] at h; cases h
      · cases h

/-- The cursor of a consistent file is on its chain; so is the cursor `find_data_on_disk` hands

back, whatever the outcome and whatever device call failed. -/
theorem find_cursor_clean (f : FileInfo) (cs : List Nat) (s : FS) (desired : Nat) (hc : Coherent s) (hg : WFGeom s.vol)
    (hch : Chain s.vol s.dev.disk f.entry.cluster cs)
    (hcur : ∃ k, k < cs.length ∧ f.curClusterOff = k * clusterBytesLen s.vol ∧ cs[k]? = some f.curCluster) :
    ∃ k z r s', findDataOnDisk f.entry.cluster desired (f.curClusterOff, f.curCluster) s = (.ok ((k * clusterBytesLen s.vol, z), r), s') ∧
      k < cs.length ∧ cs[k]? = some z ∧ RO s s' ∧
      ((∃ b off av, r = .ok (b, off, av) ∧ 0 < av) ∨ ∃ e, r = .err e) := by
  have hcb : 0 < clusterBytesLen s.vol := Nat.mul_pos hg.bpc_pos (by omega)
  obtain ⟨st', r, s', hw, heq, _⟩ := Files.find_data_eq f.entry.cluster desired (f.curClusterOff, f.curCluster) s
    (by rw [bpc_eq]; omega)
  obtain ⟨k0, hk0, hoff, hcurk⟩ := hcur
  rw [bpc_eq] at hw
  have hstart : ∃ k1 x1, Files.restart f.entry.cluster desired (f.curClusterOff, f.curCluster) =
      (k1 * clusterBytesLen s.vol, x1) ∧ cs[k1]? = some x1 := by
    unfold Files.restart
    split
    · exact ⟨0, f.entry.cluster, by rw [Nat.zero_mul], chain_get_zero hch⟩
    · exact ⟨k0, f.curCluster, by rw [hoff], hcurk⟩
  obtain ⟨k1, x1, hrs, hx1⟩ := hstart
  rw [hrs] at hw
  obtain ⟨j, z, r', s'', hw', hz, hro, hcl⟩ := walk_on_chain_clean (clusterBytesLen s.vol) _ k1 (k1 * clusterBytesLen s.vol) x1 s
    hc hg hch hx1
  rw [hw'] at hw
  simp only [Prod.mk.injEq, Res.ok.injEq] at hw
  obtain ⟨⟨hst, hr⟩, hs⟩ := hw
  subst hst; subst hr; subst hs
  refine ⟨k1 + j, z, Files.located s.vol desired (k1 * clusterBytesLen s.vol + j * clusterBytesLen s.vol, z) r', s'', ?_,
    (List.getElem?_eq_some_iff.1 hz).1, hz, hro, ?_⟩
  · rw [heq, Nat.add_mul]
  · rcases hcl with rfl | ⟨e, rfl⟩
    · exact .inl ⟨_, _, _, rfl, by omega⟩
    · exact .inr ⟨e, rfl⟩


/-- The loop of `read` on a record whose size may exceed its chain: outcome `Ok` or an error; only offset and cursor of the
record change; the cursor stays on the chain, the offset ≤ size. -/
theorem readLoop_loose (i vi so : Nat) (v : VolInfo) (cs : List Nat) (hg : WFGeom v.vol) :
    ∀ (fuel space : Nat) (acc : Bytes) (s : Mgr) (f : FileInfo), MgrOKF s → s.files[i]? = some f →
      s.vols[vi]? = some v → Chain v.vol s.dev.disk f.entry.cluster cs →
      (∃ k, k < cs.length ∧ f.curClusterOff = k * clusterBytesLen v.vol ∧ cs[k]? = some f.curCluster) →
      f.currentOffset ≤ f.entry.size → so ≤ f.entry.size →
      ∃ f', Keeps v.vol cs i s (readLoop i vi so fuel space acc s).2 f f' ∧ f'.currentOffset ≤ f.entry.size ∧
        Clean (readLoop i vi so fuel space acc s).1 := by
  intro fuel
  induction fuel with
  | zero =>
    intro space acc s f hs hf _ _ hcur hpos _
    exact ⟨f, ⟨Step.refl s i f hf, SameFile.refl f, rfl, hs.1, .inr hcur⟩, hpos, .inl ⟨acc, rfl⟩⟩
  | succ fuel ih =>
    intro space acc s f hs hf hv hch hcur hpos hso
    obtain ⟨hcoh, hblk, hunl⟩ := hs
    have hrefl : Keeps v.vol cs i s s f f := ⟨Step.refl s i f hf, SameFile.refl f, rfl, hcoh, .inr hcur⟩
    rw [readLoop]
    rw [M.bind_ok (MHoare.getFile_ok hf)]
    by_cases hstop : space = 0 ∨ f.eof = true
    · rw [if_pos hstop]; exact ⟨f, hrefl, hpos, .inl ⟨acc, rfl⟩⟩
    · rw [if_neg hstop]
      -- locate
      obtain ⟨k, z, r, fs1, hfind, hk, hz, hro1, hrcl⟩ := find_cursor_clean f cs (fsOf s v) f.currentOffset hcoh hg hch hcur
      have hfindM := withVol_ro vi (findDataOnDisk f.entry.cluster f.currentOffset (f.curClusterOff, f.curCluster)) s v hv
        (by rw [hfind]; exact hro1)
      rw [hfind] at hfindM
      rw [M.attempt_bind_apply, hfindM]
      simp only [WriteRefines.fsOf_vol] at hfind hk hz hfindM ⊢
      -- the state after the (read-only) locate
      have hcoh1 : ∀ j, fs1.cache.tag = some j → fs1.cache.blk = fs1.dev.disk.get j := hro1.coherent hcoh
      have hd1 : fs1.dev.disk = s.dev.disk := hro1.disk
      have hrestore : ∀ (o : Nat) (rr : Res Bytes) (sx : Mgr) (fx : FileInfo), Keeps v.vol cs i s sx f fx → o ≤ f.entry.size →
          Clean rr →
          ∃ f', Keeps v.vol cs i s ((modifyFile i (fun g => { g with currentOffset := o }) >>= fun _ => (M.lift rr : M Bytes)) sx).2 f f' ∧
            f'.currentOffset ≤ f.entry.size ∧
            Clean ((modifyFile i (fun g => { g with currentOffset := o }) >>= fun _ => (M.lift rr : M Bytes)) sx).1 := by
        intro o rr sx fx hkx ho hrr
        have hfx : sx.files[i]? = some fx := hkx.step.get hf
        refine ⟨{ fx with currentOffset := o }, ⟨?_, ⟨hkx.same.rawFile, hkx.same.rawVolume, hkx.same.mode, hkx.same.entry, hkx.same.dirty⟩,
          hkx.faults, hkx.coh, hkx.cursor⟩, ho, hrr⟩
        have : ((modifyFile i (fun g => { g with currentOffset := o }) >>= fun _ => (M.lift rr : M Bytes)) sx).2 =
            { sx with files := sx.files.set i { fx with currentOffset := o } } := by
          show ({ sx with files := sx.files.modify i _ } : Mgr) = _
          rw [WriteRefines.modify_eq_set _ _ _ _ hfx]
        rw [this]
        exact hkx.step.trans ⟨rfl, rfl, rfl⟩
      have hk1 : Keeps v.vol cs i s { s with dev := fs1.dev, cache := fs1.cache } f f :=
        ⟨⟨by rw [list_set_self _ _ _ hf], hd1, hro1.wlog⟩, SameFile.refl f, hro1.faults, hcoh1, .inr hcur⟩
      cases r with
      | ok x =>
        obtain ⟨blockIdx, blockOffset, blockAvail⟩ := x
        simp only
        -- the cursor is stored
        generalize hf1 : ({ f with curClusterOff := k * clusterBytesLen v.vol, curCluster := z } : FileInfo) = f1
        have hmod : modifyFile i (fun g => { g with curClusterOff := k * clusterBytesLen v.vol, curCluster := z })
            { s with dev := fs1.dev, cache := fs1.cache } =
            (.ok (), { s with dev := fs1.dev, cache := fs1.cache, files := s.files.set i f1 }) := by
          show (Res.ok (), ({ s with dev := fs1.dev, cache := fs1.cache, files := s.files.modify i _ } : Mgr)) = _
          rw [WriteRefines.modify_eq_set _ _ _ _ hf, hf1]
        rw [M.bind_ok hmod]
        generalize hs1 : ({ s with dev := fs1.dev, cache := fs1.cache, files := s.files.set i f1 } : Mgr) = s1
        have hv1 : s1.vols[vi]? = some v := by rw [← hs1]; exact hv
        have hilt : i < s.files.length := (List.getElem?_eq_some_iff.1 hf).1
        have hf1' : s1.files[i]? = some f1 := by rw [← hs1]; exact List.getElem?_set_self hilt
        have hcur1 : ∃ k, k < cs.length ∧ f1.curClusterOff = k * clusterBytesLen v.vol ∧ cs[k]? = some f1.curCluster := by
          rw [← hf1]; exact ⟨k, hk, rfl, hz⟩
        have hks1 : Keeps v.vol cs i s s1 f f1 := by
          rw [← hs1]
          exact ⟨⟨rfl, hd1, hro1.wlog⟩, by rw [← hf1]; exact ⟨rfl, rfl, rfl, rfl, rfl⟩, hro1.faults, hcoh1, .inr hcur1⟩
        -- the block is read
        have hro2 : RO (fsOf s1 v) ((do cacheRead blockIdx; cacheBlk : F Block) (fsOf s1 v)).2 := readBlock_readOnly blockIdx _
        have hreadM := withVol_ro vi (do cacheRead blockIdx; cacheBlk : F Block) s1 v hv1 hro2
        rw [M.attempt_bind_apply, hreadM]
        generalize hfs2 : (do cacheRead blockIdx; cacheBlk : F Block) (fsOf s1 v) = out at hro2
        obtain ⟨rb, fs2⟩ := out
        simp only at hro2 ⊢
        have hcoh2 : ∀ j, fs2.cache.tag = some j → fs2.cache.blk = fs2.dev.disk.get j :=
          hro2.coherent (by rw [← hs1]; exact hcoh1)
        have hd2 : fs2.dev.disk = s1.dev.disk := hro2.disk
        have hks2 : Keeps v.vol cs i s { s1 with dev := fs2.dev, cache := fs2.cache } f f1 :=
          ⟨hks1.step.trans ⟨by rw [list_set_self _ _ _ hf1'], hd2, hro2.wlog⟩, hks1.same,
            (show fs2.dev.faults = _ from hro2.faults).trans hks1.faults, hcoh2, .inr hcur1⟩
        cases rb with
        | ok blk =>
          simp only
          split
          · next htc0 =>
            exfalso
            obtain ⟨b0, off0, av0, hr0, hav0⟩ | ⟨e0, he0⟩ := hrcl
            · simp only [Res.ok.injEq, Prod.mk.injEq] at hr0
              obtain ⟨_, _, hav⟩ := hr0
              have hne : ¬ (space = 0 ∨ f.currentOffset = f.entry.size) := by
                intro hh; apply hstop
                rcases hh with hh | hh
                · exact .inl hh
                · exact .inr (by unfold FileInfo.eof; exact decide_eq_true hh)
              unfold FileInfo.left at htc0
              rw [hav] at htc0
              omega
            · cases he0
          · next htc =>
            generalize htdef : min (min blockAvail space) f.left = t
            generalize hf2 : ({ f1 with currentOffset := f1.currentOffset + t } : FileInfo) = f2
            have hmod2 : modifyFile i (fun g => { g with currentOffset := g.currentOffset + t })
                { s1 with dev := fs2.dev, cache := fs2.cache } =
                (.ok (), { s1 with dev := fs2.dev, cache := fs2.cache, files := s1.files.set i f2 }) := by
              show (Res.ok (), ({ s1 with dev := fs2.dev, cache := fs2.cache, files := s1.files.modify i _ } : Mgr)) = _
              rw [WriteRefines.modify_eq_set _ _ _ _ hf1', hf2]
            rw [M.bind_ok hmod2]
            generalize hs3 : ({ s1 with dev := fs2.dev, cache := fs2.cache, files := s1.files.set i f2 } : Mgr) = s3
            have hi1 : i < s1.files.length := (List.getElem?_eq_some_iff.1 hf1').1
            have hks3 : Keeps v.vol cs i s s3 f f2 := by
              rw [← hs3]
              refine ⟨hks1.step.trans ⟨rfl, hd2, hro2.wlog⟩, ?_, (show fs2.dev.faults = _ from hro2.faults).trans hks1.faults, hcoh2, ?_⟩
              · rw [← hf2]
                exact ⟨hks1.same.rawFile, hks1.same.rawVolume, hks1.same.mode, hks1.same.entry, hks1.same.dirty⟩
              · rw [← hf2]; exact .inr hcur1
            have ht : t ≤ f.entry.size - f.currentOffset := by
              rw [← htdef]; unfold FileInfo.left; omega
            obtain ⟨f', hk', hpos', hcl'⟩ := ih (space - t) (acc ++ slice blk blockOffset t) s3 f2
              ⟨hks3.coh, by intro j; rw [hks3.step.disk]; exact hblk j, by rw [hks3.step.eq]; exact hunl⟩
              (by rw [← hs3]; exact List.getElem?_set_self hi1)
              (by rw [hks3.step.vols]; exact hv)
              (by rw [hks3.step.disk, hks3.same.entry]; exact hch)
              (by rw [← hf2]; exact hcur1)
              (by rw [← hf2, ← hf1]; show f.currentOffset + t ≤ f.entry.size; omega)
              (by rw [← hf2, ← hf1]; exact hso)
            have he2 : f2.entry = f.entry := by rw [← hf2, ← hf1]
            rw [he2] at hpos'
            exact ⟨f', ⟨hks3.step.trans hk'.step, hks3.same.trans hk'.same, hk'.faults.trans hks3.faults, hk'.coh, hk'.cursor⟩,
              hpos', hcl'⟩
        | err e => exact hrestore so _ _ f1 hks2 hso (.inr ⟨e, rfl⟩)
        | panic m => exact absurd hfs2 (readBlock_ne_panic blockIdx _ m fs2)
        | diverged => exact absurd hfs2 (readBlock_ne_div blockIdx _ fs2)
      | err e => exact hrestore so _ _ f hk1 hso (.inr ⟨e, rfl⟩)
      | panic m => rcases hrcl with ⟨_, _, _, h, _⟩ | ⟨_, h⟩ <;> cases h
      | diverged => rcases hrcl with ⟨_, _, _, h, _⟩ | ⟨_, h⟩ <;> cases h

end Sdmmc.Lemmas.Retry
