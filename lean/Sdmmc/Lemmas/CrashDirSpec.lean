/-
From the working predicates of the directory-plane crash lemmas (`AllocCrash`, `Grown`, `NoEntryWith`,
`DirReady`) to the specification vocabulary of `Spec/CrashDir.lean`.
-/
import Sdmmc.Spec.CrashDir
import Sdmmc.Lemmas.CrashMakeDir

namespace Sdmmc.Lemmas.CrashDirSpec
open Sdmmc.Model Sdmmc.Model.Fat Sdmmc.Spec
open Sdmmc.Lemmas.CrashBase Sdmmc.Lemmas.CrashAlloc Sdmmc.Lemmas.CrashDirWalk Sdmmc.Lemmas.CrashDirEntry
open Sdmmc.Lemmas.CrashMakeDir

theorem allocStage_of {v : FatVolume} {d0 dfin d : Disk} {zero : Bool} {c : Nat} (h : AllocCrash v d0 dfin zero c d) :
    AllocStage v d0 dfin zero c d := by
  rcases h with hA | ⟨hB, he, hz⟩ | ⟨hC, hz⟩
  · exact .inl ⟨fun y hy => hA.other y hy List.not_mem_nil, hA.nonFat⟩
  · exact .inr (.inl ⟨he, fun y hy hyc => hB.other y hy (fun hm => hyc (List.mem_singleton.1 hm)), hB.nonFat, hz⟩)
  · exact .inr (.inr ⟨⟨hC.fat, hC.nonFat⟩, hz⟩)

theorem dirGrown_of {v : FatVolume} {d0 dM : Disk} {p c : Nat} (h : Grown v d0 dM p c) : DirGrown v d0 dM p c :=
  ⟨h.inRange, h.wasFree, h.lastUsed, h.zero, h.link, h.eof,
   fun y hy hc hp => h.within.other y hy (by simp [hc, hp]),
   fun i hi hn => h.within.nonFat i hi (fun hz => hn hz.2)⟩

theorem freshOnly_of {v : FatVolume} {d0 d : Disk} {dcs : List Nat} {c : Nat} {fresh : List Nat} {plast : Option Nat}
    (h : NoEntryWith v d0 d dcs c fresh plast) : FreshOnly v d0 d c fresh plast :=
  ⟨h.wasFree,
   fun y hy hf hp => h.within.other y hy (fun hm => (List.mem_append.1 hm).elim hf (fun h' => hp (by
      cases plast with
      | none => cases h'
      | some q => rw [Option.toList_some, List.mem_singleton] at h'; rw [h']))),
   fun i hi hn => h.within.nonFat i hi (fun ⟨x, hx, hin⟩ => hn x hx hin),
   h.blank⟩

theorem newDirReady_of {v : FatVolume} {d : Disk} {c parent att : Nat} {now : Timestamp} (h : DirReady v d c parent att now) :
    NewDirReady v d c parent att now := by
  obtain ⟨_, h1, h2, h3⟩ := DirMake.dirBlock_facts v.fatType c parent att now (clusterToBlock v c)
  refine ⟨h.eof, ?_, ?_, ?_, h.rest⟩
  · rw [h.first]; exact h1
  · rw [h.first]; exact h2
  · rw [h.first]; exact h3

/-- Existing blocks at the crash points of a creation: a block outside the FAT that lies in no cluster
that was free before the call is unchanged — except the block of the new slot, where every byte outside
the 32 bytes of the slot is unchanged. -/
theorem newEntry_frame {v : FatVolume} {name : Bytes} {att fc : Nat} {now : Timestamp} {s sM s' : FS} {e : DirEntry} {d : Disk}
    (hsw : SlotWrite name att fc now sM s' e) (hl : (sM.dev.disk.get e.entryBlock).length = 512) (hname : name.length = 11)
    (hM : ∀ i, regionOf v i ≠ .fat → (∀ x, InRange v x → isFree v s.dev.disk x → ¬ InCluster v x i) →
      sM.dev.disk.get i = s.dev.disk.get i)
    (hd : (∀ i, regionOf v i ≠ .fat → (∀ x, InRange v x → isFree v s.dev.disk x → ¬ InCluster v x i) →
      d.get i = s.dev.disk.get i) ∨ d = s'.dev.disk)
    (i : Nat) (hi : regionOf v i ≠ .fat) (hx : ∀ x, InRange v x → isFree v s.dev.disk x → ¬ InCluster v x i) :
    (i ≠ e.entryBlock → d.get i = s.dev.disk.get i) ∧
    (∀ k, k < e.entryOffset ∨ e.entryOffset + 32 ≤ k → (d.get i).getD k 0 = (s.dev.disk.get i).getD k 0) := by
  rcases hd with hd | rfl
  · exact ⟨fun _ => hd i hi hx, fun k _ => by rw [hd i hi hx]⟩
  · have hser : (DirEntry.serialize sM.vol.fatType e).length = 32 := by
      rw [hsw.entry]; exact FatOps.serialize_length _ _ hname
    obtain ⟨hlt, _⟩ := DirSlots.firstFreeSlot_off _ _ hsw.free
    have hmod : e.entryOffset % 32 = 0 := (DirSlots.firstFreeSlot_off _ _ hsw.free).2
    have hfit : e.entryOffset + (DirEntry.serialize sM.vol.fatType e).length ≤ (sM.dev.disk.get e.entryBlock).length := by
      rw [hser, hl]; omega
    refine ⟨fun hne => by rw [hsw.disk, FBasic.Disk.get_set_ne _ _ _ _ (fun e' => hne e'.symm)]; exact hM i hi hx, fun k hk => ?_⟩
    rw [hsw.disk, FBasic.Disk.get_set]
    split
    · next heq =>
      subst heq
      rw [FatLens.splice_getD_outside _ _ _ k hfit (by rw [hser]; exact hk), hM _ hi hx]
    · rw [hM i hi hx]

end Sdmmc.Lemmas.CrashDirSpec
