/-
An executable checker of the volume invariant `VolInv s gh` of `Sdmmc.Spec.Volume` and its soundness:
`checkVolInv s gh = true → VolInv s gh`.

One `def …B : Bool` and one `theorem …B_sound` per clause.  Everything is checked, including
`BlocksOK` (on the entries of the disk map; absent blocks are `zeroBlock`).  `explainVolInv` names the
clauses that fail (used by the evaluation tests of `VolExample`).
-/
import Sdmmc.Spec.Volume
import Sdmmc.Lemmas.Chain
import Sdmmc.Lemmas.FatOps

namespace Sdmmc.Lemmas.VolCheck

open Sdmmc.Model Sdmmc.Model.Fat Sdmmc.Spec Sdmmc.Spec.Volume

/-! ### Blocks -/

/-- every stored block has 512 bytes (absent blocks read as `zeroBlock`) -/
def blocksB (d : Disk) : Bool := d.m.toList.all fun p => decide (p.2.length = 512)

theorem blocksB_sound {d : Disk} (h : blocksB d = true) : BlocksOK d := by
  intro i
  unfold Disk.get
  rw [Std.TreeMap.getD_eq_getD_getElem?]
  cases hg : d.m[i]? with
  | none => exact FatOps.zeroBlock_length
  | some b =>
    have hm : (i, b) ∈ d.m.toList := Std.TreeMap.mem_toList_iff_getElem?_eq_some.2 hg
    exact of_decide_eq_true (List.all_eq_true.1 h _ hm)

/-! ### Geometry and hint -/

def secondB (v : FatVolume) : Bool :=
  match v.secondFatStart with
  | some s => decide (v.fatStart + fatBlocksUsed v ≤ s)
  | none => true

def countBoundB (v : FatVolume) : Bool :=
  match v.fatType with
  | .fat16 => decide (endCluster v ≤ 0xFFF7)
  | .fat32 => decide (endCluster v ≤ 0x0FFFFFF7)

def geomB (v : FatVolume) : Bool :=
  decide (0 < v.blocksPerCluster) && decide (1 ≤ v.fatStart) && secondB v &&
  decide (v.fatType = .fat16 →
    fatsEnd v ≤ v.firstRootDirBlock ∧
    v.firstRootDirBlock + blockCountFromBytes (v.rootEntriesCount * Gen.DIRENT_LEN) ≤ v.firstDataBlock) &&
  decide (v.fatType = .fat32 →
    fatsEnd v ≤ v.firstDataBlock ∧ v.lbaStart < v.infoLocation ∧ v.infoLocation < v.lbaStart + v.fatStart ∧
    2 ≤ v.firstRootDirCluster ∧ v.firstRootDirCluster < endCluster v) &&
  decide (v.firstDataBlock + v.clusterCount * v.blocksPerCluster ≤ v.numBlocks) && countBoundB v

theorem geomB_sound {v : FatVolume} (h : geomB v = true) : WFGeom v := by
  simp only [geomB, Bool.and_eq_true, decide_eq_true_eq] at h
  obtain ⟨⟨⟨⟨⟨⟨h1, h2⟩, h3⟩, h4⟩, h5⟩, h6⟩, h7⟩ := h
  refine ⟨h1, h2, ?_, h4, h5, h6, ?_⟩
  · intro s hs
    unfold secondB at h3
    rw [hs] at h3
    exact of_decide_eq_true h3
  · unfold countBoundB at h7
    revert h7
    cases v.fatType <;> intro h7 <;> exact of_decide_eq_true h7

def hintB (v : FatVolume) : Bool :=
  match v.nextFreeCluster with
  | some n => decide (2 ≤ n)
  | none => true

theorem hintB_sound {v : FatVolume} (h : hintB v = true) : HintOK v := by
  intro n hn
  unfold hintB at h
  rw [hn] at h
  exact of_decide_eq_true h

/-! ### Chains and ownership -/

def isEof : Res Nat → Bool
  | .err .EndOfFile => true
  | _ => false

def isOkTo (n : Nat) : Res Nat → Bool
  | .ok m => decide (m = n)
  | _ => false

theorem isEof_sound {r : Res Nat} (h : isEof r = true) : r = .err .EndOfFile := by
  unfold isEof at h
  split at h
  · rfl
  · cases h

theorem isOkTo_sound {n : Nat} {r : Res Nat} (h : isOkTo n r = true) : r = .ok n := by
  unfold isOkTo at h
  split at h
  · rw [of_decide_eq_true h]
  · cases h

/-- `cs` is the chain of `c` -/
def chainB (v : FatVolume) (d : Disk) : Nat → List Nat → Bool
  | _, [] => false
  | c, [x] => decide (c = x) && decide (InRange v c) && isEof (nextOf v d c)
  | c, x :: y :: rest =>
    decide (c = x) && decide (InRange v c) && isOkTo y (nextOf v d c) && decide (c ∉ y :: rest) &&
    chainB v d y (y :: rest)

theorem chainB_sound {v : FatVolume} {d : Disk} : ∀ {cs : List Nat} {c : Nat}, chainB v d c cs = true → Chain v d c cs
  | [], _, h => by cases h
  | [x], c, h => by
    simp only [chainB, Bool.and_eq_true, decide_eq_true_eq] at h
    obtain ⟨⟨h1, h2⟩, h3⟩ := h
    subst h1
    exact Chain.last c h2 (isEof_sound h3)
  | x :: y :: rest, c, h => by
    simp only [chainB, Bool.and_eq_true, decide_eq_true_eq] at h
    obtain ⟨⟨⟨⟨h1, h2⟩, h3⟩, h4⟩, h5⟩ := h
    subst h1
    exact Chain.link c y _ h2 (isOkTo_sound h3) h4 (chainB_sound h5)

def ownsB (v : FatVolume) (d : Disk) (G : List (List Nat)) : Bool :=
  (G.all fun cs => chainB v d (cs.headD 0) cs) && decide (G.flatten.Nodup) &&
  ((List.range (endCluster v)).all fun c => decide (isUsed v d c ↔ c ∈ G.flatten))

theorem ownsB_sound {v : FatVolume} {d : Disk} {G : List (List Nat)} (h : ownsB v d G = true) : Owns v d G := by
  simp only [ownsB, Bool.and_eq_true, decide_eq_true_eq] at h
  obtain ⟨⟨h1, h2⟩, h3⟩ := h
  have hch : ∀ cs, cs ∈ G → Chain v d (cs.headD 0) cs := fun cs hcs => chainB_sound (List.all_eq_true.1 h1 cs hcs)
  refine ⟨hch, h2, ?_⟩
  intro c
  by_cases hc : c < endCluster v
  · exact of_decide_eq_true (List.all_eq_true.1 h3 c (List.mem_range.2 hc))
  · constructor
    · intro hu; exact absurd hu.1.2 hc
    · intro hm
      obtain ⟨cs, hcs, hmem⟩ := List.mem_flatten.1 hm
      exact absurd (ChainL.chain_inRange (hch cs hcs) c hmem).2 hc

/-! ### The directory tree, clause by clause -/

section Tree

variable (ft : FatType) (cb : Nat) (root : List Nat) (G : List (List Nat)) (dirs : List (Nat × Nat))
  (slots : Nat → List Slot) (files : List FileInfo)

def cleanTailB : Bool :=
  (dirIds dirs).all fun h => ((slots h).dropWhile fun s => decide (first s ≠ 0)).all fun t => decide (first t = 0)

def namesB : Bool := (dirIds dirs).all fun h => decide (((entries (slots h)).map sName).Nodup)

def orderB : Bool :=
  (List.range dirs.length).all fun i =>
    match dirs[i]? with
    | some hp => decide (hp.2 = 0 ∨ hp.2 ∈ (dirs.take i).map Prod.fst)
    | none => true

def isDotB (name : Bytes) (c : Nat) (s : Slot) : Bool :=
  decide (sName s = name) && isDirE s && !isFrag s && decide (sCluster ft s = c)

def dotsB : Bool :=
  dirs.all fun hp =>
    match slots hp.1 with
    | s0 :: s1 :: _ => isDotB ft Sfn.thisDir hp.1 s0 && isDotB ft Sfn.parentDir hp.2 s1
    | _ => false

def subdirsB : Bool :=
  (dirIds dirs).all fun h => (objects h (slots h)).all fun o => !isDirE o || decide ((sCluster ft o, h) ∈ dirs)

def dirRefsB : Bool :=
  ((dirIds dirs).flatMap fun h => subdirRefs ft (objects h (slots h))).isPerm (dirs.map Prod.fst)

def allRefsB : Bool :=
  (root ++ dirs.map Prod.fst ++ (dirIds dirs).flatMap fun h => fileRefs ft files (objects h (slots h))).isPerm
    (G.map fun cs => cs.headD 0)

def sizesB : Bool :=
  (dirIds dirs).all fun h => (objects h (slots h)).all fun o => isDirE o ||
    decide ((effCluster ft files o = 0 ∧ effSize files o = 0) ∨
      (effCluster ft files o ≠ 0 ∧ effSize files o ≤ (chainOf G (effCluster ft files o)).length * cb))

def fileSlotsB : Bool :=
  files.all fun f => (dirIds dirs).any fun h => (objects h (slots h)).any fun o =>
    decide (o.1 = f.entry.entryBlock ∧ o.2.1 = f.entry.entryOffset ∧ isDirE o = false ∧ sName o = f.entry.name ∧
      (f.dirty = false → sCluster ft o = f.entry.cluster ∧ sSize o = f.entry.size))

def fileAttrsB : Bool :=
  files.all fun f => decide (f.entry.attributes < 256 ∧ f.entry.attributes % 16 ≠ 15 ∧
    f.entry.attributes / 16 % 2 = 0 ∧ f.entry.size ≤ Gen.MAX_FILE_SIZE)

def filesDistinctB : Bool := decide ((files.map fun f => (f.entry.entryBlock, f.entry.entryOffset)).Nodup)

def treeB : Bool :=
  cleanTailB dirs slots && namesB dirs slots && orderB dirs && dotsB ft dirs slots && subdirsB ft dirs slots &&
  dirRefsB ft dirs slots && allRefsB ft root G dirs slots files && sizesB ft cb G dirs slots files &&
  fileSlotsB ft dirs slots files && fileAttrsB files && filesDistinctB files

variable {ft cb root G dirs slots files}

theorem cleanTailB_sound (h : cleanTailB dirs slots = true) : ∀ h, h ∈ dirIds dirs → CleanTail (slots h) := by
  intro i hi t ht
  exact of_decide_eq_true (List.all_eq_true.1 (List.all_eq_true.1 h i hi) t ht)

theorem namesB_sound (h : namesB dirs slots = true) : ∀ h, h ∈ dirIds dirs → ((entries (slots h)).map sName).Nodup :=
  fun i hi => of_decide_eq_true (List.all_eq_true.1 h i hi)

theorem orderB_sound (h : orderB dirs = true) :
    ∀ i h p, dirs[i]? = some (h, p) → p = 0 ∨ p ∈ (dirs.take i).map Prod.fst := by
  intro i a p hi
  have hlt : i < dirs.length := (List.getElem?_eq_some_iff.1 hi).1
  have := List.all_eq_true.1 h i (List.mem_range.2 hlt)
  simp only [hi] at this
  exact of_decide_eq_true this

theorem isDotB_sound {name : Bytes} {c : Nat} {s : Slot} (h : isDotB ft name c s = true) : IsDot ft name c s := by
  simp only [isDotB, Bool.and_eq_true, decide_eq_true_eq, Bool.not_eq_true'] at h
  obtain ⟨⟨⟨h1, h2⟩, h3⟩, h4⟩ := h
  exact ⟨h1, h2, h3, h4⟩

theorem dotsB_sound (h : dotsB ft dirs slots = true) :
    ∀ h p, (h, p) ∈ dirs → ∃ s0 s1 rest, slots h = s0 :: s1 :: rest ∧
      IsDot ft Sfn.thisDir h s0 ∧ IsDot ft Sfn.parentDir p s1 := by
  intro a p hm
  have := List.all_eq_true.1 h (a, p) hm
  simp only at this
  split at this
  · rename_i s0 s1 rest heq
    rw [Bool.and_eq_true] at this
    exact ⟨s0, s1, rest, heq, isDotB_sound this.1, isDotB_sound this.2⟩
  · cases this

theorem subdirsB_sound (h : subdirsB ft dirs slots = true) :
    ∀ h, h ∈ dirIds dirs → ∀ o, o ∈ objects h (slots h) → isDirE o = true → (sCluster ft o, h) ∈ dirs := by
  intro i hi o ho hd
  have := List.all_eq_true.1 (List.all_eq_true.1 h i hi) o ho
  rw [hd] at this
  simpa using this

theorem sizesB_sound (h : sizesB ft cb G dirs slots files = true) :
    ∀ h, h ∈ dirIds dirs → ∀ o, o ∈ objects h (slots h) → isDirE o = false →
      (effCluster ft files o = 0 ∧ effSize files o = 0) ∨
      (effCluster ft files o ≠ 0 ∧ effSize files o ≤ (chainOf G (effCluster ft files o)).length * cb) := by
  intro i hi o ho hd
  have := List.all_eq_true.1 (List.all_eq_true.1 h i hi) o ho
  rw [hd, Bool.false_or] at this
  exact of_decide_eq_true this

theorem fileSlotsB_sound (h : fileSlotsB ft dirs slots files = true) :
    ∀ f, f ∈ files → ∃ h, h ∈ dirIds dirs ∧ ∃ o, o ∈ objects h (slots h) ∧
      o.1 = f.entry.entryBlock ∧ o.2.1 = f.entry.entryOffset ∧ isDirE o = false ∧ sName o = f.entry.name ∧
      (f.dirty = false → sCluster ft o = f.entry.cluster ∧ sSize o = f.entry.size) := by
  intro f hf
  obtain ⟨i, hi, h2⟩ := List.any_eq_true.1 (List.all_eq_true.1 h f hf)
  obtain ⟨o, ho, h3⟩ := List.any_eq_true.1 h2
  exact ⟨i, hi, o, ho, of_decide_eq_true h3⟩

theorem fileAttrsB_sound (h : fileAttrsB files = true) :
    ∀ f, f ∈ files → f.entry.attributes < 256 ∧ f.entry.attributes % 16 ≠ 15 ∧
      f.entry.attributes / 16 % 2 = 0 ∧ f.entry.size ≤ Gen.MAX_FILE_SIZE :=
  fun f hf => of_decide_eq_true (List.all_eq_true.1 h f hf)

theorem treeB_sound (h : treeB ft cb root G dirs slots files = true) : TreeOK ft cb root G dirs slots files := by
  simp only [treeB, Bool.and_eq_true] at h
  obtain ⟨⟨⟨⟨⟨⟨⟨⟨⟨⟨h1, h2⟩, h3⟩, h4⟩, h5⟩, h6⟩, h7⟩, h8⟩, h9⟩, h10⟩, h11⟩ := h
  exact
    { cleanTail := cleanTailB_sound h1
      names := namesB_sound h2
      order := orderB_sound h3
      dots := dotsB_sound h4
      subdirs := subdirsB_sound h5
      dirRefs := List.isPerm_iff.1 h6
      allRefs := List.isPerm_iff.1 h7
      sizes := sizesB_sound h8
      fileSlots := fileSlotsB_sound h9
      fileAttrs := fileAttrsB_sound h10
      filesDistinct := of_decide_eq_true h11 }

end Tree

/-! ### Open files -/

def fileOKB (v : FatVolume) (d : Disk) (f : FileInfo) (cs : List Nat) : Bool :=
  (decide (f.entry.cluster < 2 ∧ cs = [] ∧ f.entry.size = 0) || chainB v d f.entry.cluster cs) &&
  decide (f.entry.size ≤ cs.length * clusterBytesLen v) && decide (f.currentOffset ≤ f.entry.size) &&
  (decide (cs = []) || (List.range cs.length).any fun k =>
    decide (f.curClusterOff = k * clusterBytesLen v ∧ cs[k]? = some f.curCluster))

theorem fileOKB_sound {v : FatVolume} {d : Disk} {f : FileInfo} {cs : List Nat} (h : fileOKB v d f cs = true) :
    FileOK v d f cs := by
  simp only [fileOKB, Bool.and_eq_true, Bool.or_eq_true, decide_eq_true_eq] at h
  obtain ⟨⟨⟨h1, h2⟩, h3⟩, h4⟩ := h
  refine ⟨h1.imp id chainB_sound, h2, h3, h4.imp id ?_⟩
  intro ha
  obtain ⟨k, hk, hk2⟩ := List.any_eq_true.1 ha
  have := of_decide_eq_true hk2
  exact ⟨k, List.mem_range.1 hk, this.1, this.2⟩

def filesOKB (v : FatVolume) (d : Disk) (files : List FileInfo) (G : List (List Nat)) : Bool :=
  files.all fun f => fileOKB v d f (chainOf G f.entry.cluster) &&
    decide (chainOf G f.entry.cluster = [] → f.curCluster < 2)

theorem filesOKB_sound {v : FatVolume} {d : Disk} {files : List FileInfo} {G : List (List Nat)}
    (h : filesOKB v d files G = true) :
    ∀ f, f ∈ files → FileOK v d f (chainOf G f.entry.cluster) ∧ (chainOf G f.entry.cluster = [] → f.curCluster < 2) := by
  intro f hf
  have := List.all_eq_true.1 h f hf
  rw [Bool.and_eq_true] at this
  exact ⟨fileOKB_sound this.1, of_decide_eq_true this.2⟩

/-! ### The medium -/

def medB (v : FatVolume) (d : Disk) (files : List FileInfo) (gh : Ghost) : Bool :=
  blocksB d && geomB v && hintB v && ownsB v d gh.G &&
  treeB v.fatType (clusterBytesLen v) (rootHead v) gh.G gh.dirs (dirSlots v d gh.G) files &&
  filesOKB v d files gh.G

theorem medB_sound {v : FatVolume} {d : Disk} {files : List FileInfo} {gh : Ghost} (h : medB v d files gh = true) :
    MedInv v d files gh := by
  simp only [medB, Bool.and_eq_true] at h
  obtain ⟨⟨⟨⟨⟨h1, h2⟩, h3⟩, h4⟩, h5⟩, h6⟩ := h
  exact ⟨blocksB_sound h1, geomB_sound h2, hintB_sound h3, ownsB_sound h4, treeB_sound h5, filesOKB_sound h6⟩

/-! ### The manager -/

def coherentB (s : Mgr) : Bool :=
  match s.cache.tag with
  | some i => decide (s.cache.blk = s.dev.disk.get i)
  | none => true

theorem coherentB_sound {s : Mgr} (h : coherentB s = true) : ∀ i, s.cache.tag = some i → s.cache.blk = s.dev.disk.get i := by
  intro i hi
  unfold coherentB at h
  rw [hi] at h
  exact of_decide_eq_true h

def volsB (s : Mgr) (gh : Ghost) : Bool :=
  match s.vols with
  | [] => true
  | [vi] => decide (vi.vol = gh.vol)
  | _ => false

theorem volsB_sound {s : Mgr} {gh : Ghost} (h : volsB s gh = true) : s.vols = [] ∨ ∃ vi, s.vols = [vi] ∧ vi.vol = gh.vol := by
  unfold volsB at h
  split at h
  · rename_i heq; exact Or.inl heq
  · rename_i vi heq; exact Or.inr ⟨vi, heq, of_decide_eq_true h⟩
  · cases h

def fileVolsB (s : Mgr) : Bool :=
  s.files.all fun f =>
    match s.vols with
    | [vi] => decide (f.rawVolume = vi.rawVolume)
    | _ => false

theorem fileVolsB_sound {s : Mgr} (h : fileVolsB s = true) :
    ∀ f, f ∈ s.files → ∃ vi, s.vols = [vi] ∧ f.rawVolume = vi.rawVolume := by
  intro f hf
  have := List.all_eq_true.1 h f hf
  split at this
  · rename_i vi heq; exact ⟨vi, heq, of_decide_eq_true this⟩
  · cases this

instance (dirs : List (Nat × Nat)) (cluster : Nat) : Decidable (ValidDir dirs cluster) := by
  unfold ValidDir; infer_instance

def openDirsB (s : Mgr) (gh : Ghost) : Bool := s.dirs.all fun di => decide (ValidDir gh.dirs di.cluster)

theorem openDirsB_sound {s : Mgr} {gh : Ghost} (h : openDirsB s gh = true) :
    ∀ di, di ∈ s.dirs → ValidDir gh.dirs di.cluster :=
  fun di hdi => of_decide_eq_true (List.all_eq_true.1 h di hdi)

/-- executable check of `VolInv s gh` -/
def checkVolInv (s : Mgr) (gh : Ghost) : Bool :=
  decide (s.dev.faults = []) && coherentB s && decide (s.locked = false) && decide (s.maxVols = 1) && volsB s gh &&
  medB gh.vol s.dev.disk s.files gh && fileVolsB s && openDirsB s gh

/-- The checker is sound (no side hypothesis: the block sizes are checked on the stored blocks). -/
theorem checkVolInv_sound (s : Mgr) (gh : Ghost) (h : checkVolInv s gh = true) : VolInv s gh := by
  simp only [checkVolInv, Bool.and_eq_true, decide_eq_true_eq] at h
  obtain ⟨⟨⟨⟨⟨⟨⟨h1, h2⟩, h3⟩, h4⟩, h5⟩, h6⟩, h7⟩, h8⟩ := h
  exact ⟨h1, coherentB_sound h2, h3, h4, volsB_sound h5, medB_sound h6, fileVolsB_sound h7, openDirsB_sound h8⟩

/-- The form with the block-size hypothesis (implied by the checker; kept for callers that have `hb` at hand). -/
theorem checkVolInv_sound' (s : Mgr) (gh : Ghost) (_hb : ∀ i, (s.dev.disk.get i).length = 512)
    (h : checkVolInv s gh = true) : VolInv s gh := checkVolInv_sound s gh h

/-! ### Which clause fails -/

/-- the clauses of the invariant with their verdicts -/
def clausesVolInv (s : Mgr) (gh : Ghost) : List (String × Bool) :=
  let v := gh.vol
  let d := s.dev.disk
  let ft := v.fatType
  let sl := dirSlots v d gh.G
  [ ("noFault", decide (s.dev.faults = [])), ("coherent", coherentB s), ("unlocked", decide (s.locked = false)),
    ("maxVols", decide (s.maxVols = 1)), ("vols", volsB s gh), ("fileVols", fileVolsB s), ("openDirs", openDirsB s gh),
    ("blocksOK", blocksB d), ("geom", geomB v), ("hint", hintB v),
    ("owns.chains", gh.G.all fun cs => chainB v d (cs.headD 0) cs),
    ("owns.nodup", decide (gh.G.flatten.Nodup)),
    ("owns.used", (List.range (endCluster v)).all fun c => decide (isUsed v d c ↔ c ∈ gh.G.flatten)),
    ("tree.cleanTail", cleanTailB gh.dirs sl), ("tree.names", namesB gh.dirs sl), ("tree.order", orderB gh.dirs),
    ("tree.dots", dotsB ft gh.dirs sl), ("tree.subdirs", subdirsB ft gh.dirs sl), ("tree.dirRefs", dirRefsB ft gh.dirs sl),
    ("tree.allRefs", allRefsB ft (rootHead v) gh.G gh.dirs sl s.files),
    ("tree.sizes", sizesB ft (clusterBytesLen v) gh.G gh.dirs sl s.files),
    ("tree.fileSlots", fileSlotsB ft gh.dirs sl s.files), ("tree.fileAttrs", fileAttrsB s.files),
    ("tree.filesDistinct", filesDistinctB s.files), ("fileOK", filesOKB v d s.files gh.G) ]

/-- the names of the clauses of `VolInv s gh` that the checker rejects -/
def explainVolInv (s : Mgr) (gh : Ghost) : List String := ((clausesVolInv s gh).filter fun p => !p.2).map Prod.fst

/-- `explainVolInv` and `checkVolInv` agree. -/
theorem explainVolInv_nil_iff (s : Mgr) (gh : Ghost) : explainVolInv s gh = [] ↔ checkVolInv s gh = true := by
  unfold explainVolInv clausesVolInv checkVolInv medB ownsB treeB
  simp only [List.map_eq_nil_iff, List.filter_eq_nil_iff,
    List.mem_cons, List.not_mem_nil, or_false, forall_eq_or_imp, forall_eq, Bool.not_eq_true', Bool.and_eq_true,
    Bool.not_eq_false]
  constructor
  · intro h; simp only [h, and_self]
  · intro h; simp only [h, and_self]

end Sdmmc.Lemmas.VolCheck
