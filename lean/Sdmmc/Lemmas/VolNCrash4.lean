/-
Crash consistency with several open volumes, part 4 — one call, every crash point, every open volume; histories.
-/
import Sdmmc.Lemmas.VolNCrash3
import Sdmmc.Props.C01Multi

namespace Sdmmc.Lemmas.VolNCrash
open Sdmmc.Model Sdmmc.Model.Fat Sdmmc.Spec.Volume
open Sdmmc.Spec hiding run step NoFault Coherent
open Sdmmc.Props
open Sdmmc.Props.C03Multi (CoveredN CoveredNRun)
open Sdmmc.Props.C01Multi (FreshRun)
open Sdmmc.Lemmas.VolN (LabelFresh)
open Sdmmc.Lemmas.MHoare

theorem crashDisk_nil (d : Disk) (k : Nat) : crashDisk d [] k = d := by
  unfold crashDisk; rw [List.take_nil]; rfl

theorem crashDisk_single (d : Disk) (w : Nat × Block) (k : Nat) :
    crashDisk d [w] k = d ∨ crashDisk d [w] k = d.set w.1 w.2 := by
  unfold crashDisk
  cases k with
  | zero => left; rfl
  | succ k => right; rw [List.take_succ_cons, List.take_nil]; rfl

/-- **One call, every crash point, every open volume.**  `s` satisfies `VolInvNC`; `op` is ANY call (all constructors of
`Op`); `k` any number of its block writes.  Then for EVERY open volume the crashed medium is crash-consistent, all its FAT
entries are valid, and it mounts if the medium before the call did. -/
theorem step_crash_multi {s : Mgr} {ghs : List Ghost} (hI : VolInvNC s ghs) (op : Op) (hf : LabelFresh s op) (k : Nat)
    {j : Nat} {vj : VolInfo} {gh : Ghost} (hvj : s.vols[j]? = some vj) (hgh : ghs[j]? = some gh) :
    VolumeSafe gh s.dev.disk (crashDisk s.dev.disk (step s op).2.writes k) := by
  cases ht : target s op with
  | some i =>
    obtain ⟨vi, hvi⟩ := C03Multi.target_lt ht
    have hilt : i < ghs.length := by rw [hI.inv.len]; exact (List.getElem?_eq_some_iff.1 hvi).1
    obtain ⟨ghi, hghi⟩ : ∃ g, ghs[i]? = some g := ⟨_, List.getElem?_eq_getElem hilt⟩
    obtain ⟨hout, _⟩ := C03Multi.step_proj hI.inv op ht hvi hf
    have hd : (proj s i).dev = s.dev := (C04Multi.proj_tables hvi).2.2
    have hC := volInvC_proj hI hvi hghi
    -- the volume worked on, through the projection
    obtain ⟨⟨gh', hcr⟩, hfat⟩ := Lemmas.VolCrash.step_crashInv hC op (Lemmas.VolN.nameCovered_all op) k
    have hmnt := Lemmas.VolCrash.step_mounts hC op (Lemmas.VolN.nameCovered_all op) k
    rw [hout, hd] at hcr hfat hmnt
    by_cases hji : j = i
    · subst hji
      rw [hvi] at hvj; cases hvj
      rw [hghi] at hgh; cases hgh
      exact ⟨⟨gh', hcr⟩, hfat, hmnt⟩
    · obtain ⟨_, _, _, hw⟩ := C03Multi.lifted_of_target hI.inv hI.mirror op ht hvi hghi hf
      have hnot : ∀ b, (b = 0 ∨ InPartition gh.vol b) → ∀ w, w ∈ (step s op).2.writes → w.1 ≠ b := by
        intro b hb w hwm e
        obtain ⟨hin, h0, _⟩ := hw w hwm
        rcases hb with rfl | hb
        · exact h0 e
        · rw [← hI.inv.vols i vi ghi hvi hghi] at hin
          rw [← hI.inv.vols j vj gh hvj hgh] at hb
          exact hI.inv.parts i j vi vj hvi hvj (fun e2 => hji e2.symm) _ (e ▸ hin) hb
      exact volumeSafe_untouched hI hvj hgh hcr.blocksOK
        (crashDisk_get_other _ _ _ _ (hnot 0 (.inl rfl)))
        (fun b hb => crashDisk_get_other _ _ _ _ (hnot b (.inr hb)))
  | none =>
    by_cases hcl : ∃ v, op = .closeVolume v
    · obtain ⟨v, rfl⟩ := hcl
      rcases Lemmas.VolN.closeVolume_step hI.inv v with ⟨h1, _⟩ | ⟨c, vc, blk, h1, h2, h3, h4, _, h6, h7⟩
      · rw [h1, crashDisk_nil]; exact volumeSafe_self hI hvj hgh
      · rw [h4]
        rcases crashDisk_single s.dev.disk (vc.vol.infoLocation, blk) k with e | e
        · rw [e]; exact volumeSafe_self hI hvj hgh
        · have e' : crashDisk s.dev.disk [(vc.vol.infoLocation, blk)] k = s.dev.disk.set vc.vol.infoLocation blk := e
          rw [e']
          have hclt : c < ghs.length := by rw [hI.inv.len]; exact (List.getElem?_eq_some_iff.1 h2).1
          have hin : InPartition vc.vol vc.vol.infoLocation := by
            have := FatLens.region_inside_partition vc.vol vc.vol.infoLocation (by rw [h7]; simp)
            exact ⟨Nat.le_of_lt this.1, this.2⟩
          have hne0 : vc.vol.infoLocation ≠ 0 := by
            have := FatLens.region_inside_partition vc.vol vc.vol.infoLocation (by rw [h7]; simp)
            omega
          have hset : ∀ b, b ≠ vc.vol.infoLocation →
              (s.dev.disk.set vc.vol.infoLocation blk).get b = s.dev.disk.get b :=
            fun b hb => Lemmas.FBasic.Disk.get_set_ne _ _ _ _ (fun e2 => hb e2.symm)
          have hbk : BlocksOK (s.dev.disk.set vc.vol.infoLocation blk) := by
            intro b
            by_cases hb : b = vc.vol.infoLocation
            · rw [hb, Lemmas.FBasic.Disk.get_set_self]; exact h6.2.2.2.1
            · rw [hset b hb]; exact (hI.inv.med j vj gh hvj hgh).blocksOK b
          by_cases hjc : j = c
          · have hvc : vj = vc := by rw [hjc] at hvj; exact Option.some.inj (hvj.symm.trans h2)
            have hvol : vc.vol = gh.vol := by rw [← hvc]; exact hI.inv.vols j vj gh hvj hgh
            have hg : WFGeom gh.vol := (hI.inv.med j vj gh hvj hgh).geom
            rw [hvol] at hset hne0 h3 h7 h6 hbk ⊢
            refine volumeSafe_of_agree hI hvj hgh hbk (hset 0 (fun e2 => hne0 e2.symm)) ?_ ?_ ?_
            · refine hset _ (fun e2 => ?_)
              have := (hg.root32 h3).2.1
              omega
            · intro b hs
              refine hset b (fun e2 => ?_)
              rw [e2] at hs
              unfold Structural at hs
              rw [h7] at hs
              rcases hs with h | h | h <;> cases h
            · intro _ i hi
              rw [Lemmas.FBasic.Disk.get_set_self]
              exact h6.2.2.2.2 i hi
          · refine volumeSafe_untouched hI hvj hgh hbk (hset 0 (fun e2 => hne0 e2.symm)) ?_
            intro b hb
            refine hset b (fun e2 => ?_)
            rw [← hI.inv.vols j vj gh hvj hgh] at hb
            exact hI.inv.parts c j vc vj h2 hvj (fun e3 => hjc e3.symm) _ hin (e2 ▸ hb)
    · obtain ⟨h1, _⟩ := Lemmas.VolN.untargeted_nowrite hI.inv op ht (fun v e => hcl ⟨v, e⟩)
      rw [h1, crashDisk_nil]; exact volumeSafe_self hI hvj hgh

/-! ### The invariant along histories -/

/-- **Every call keeps `VolInvNC`.** -/
theorem step_invariantNC {s : Mgr} {ghs : List Ghost} (hI : VolInvNC s ghs) (op : Op) (hc : CoveredN s op)
    (hf : LabelFresh s op) : ∃ ghs', VolInvNC (step s op).1 ghs' := by
  cases ht : target s op with
  | some i => exact step_target hI op ht hf
  | none =>
    obtain ⟨ghs', h1, h2⟩ := C03Multi.api_step_invariant_multi s op ghs hI.inv hI.mirror hc
    exact ⟨ghs', h1, h2, step_untarget hI op ht hc⟩

/-- **Every history keeps `VolInvNC`.** -/
theorem history_invariantNC : ∀ (ops : List Op) {s : Mgr} {ghs : List Ghost}, VolInvNC s ghs → CoveredNRun s ops →
    FreshRun s ops → ∃ ghs', VolInvNC (run s ops).1 ghs'
  | [], _, ghs, hI, _, _ => ⟨ghs, hI⟩
  | op :: ops, s, _, hI, hc, hf => by
    obtain ⟨ghs1, h1⟩ := step_invariantNC hI op hc.1 hf.1
    obtain ⟨ghs2, h2⟩ := history_invariantNC ops h1 hc.2 hf.2
    exact ⟨ghs2, by unfold run; exact h2⟩

theorem freshRun_take : ∀ (ops : List Op) (s : Mgr), FreshRun s ops → ∀ j, FreshRun s (ops.take j)
  | [], _, _, _ => by simp [FreshRun]
  | _ :: _, _, _, 0 => trivial
  | _ :: ops, _, h, j + 1 => ⟨h.1, freshRun_take ops _ h.2 j⟩

theorem freshRun_get : ∀ (ops : List Op) (s : Mgr), FreshRun s ops → ∀ (n : Nat) (op : Op), ops[n]? = some op →
    LabelFresh (run s (ops.take n)).1 op
  | [], _, _, _, _, h => by cases h
  | o :: ops, s, hf, 0, op, h => by
    have : o = op := by simpa using h
    subst this
    exact hf.1
  | o :: ops, s, hf, n + 1, op, h => by
    have ih := freshRun_get ops (step s o).1 hf.2 n op (by simpa using h)
    rw [List.take_succ_cons]
    show LabelFresh (run (step s o).1 (ops.take n)).1 op
    exact ih

end Sdmmc.Lemmas.VolNCrash
