/-
Refinement of the API to the abstract file system, part 14: the volume calls — `close_volume`
(`refines_closeVolume`) and `open_volume` (`refines_openVolume`).
-/
import Sdmmc.Lemmas.AbsFsMkdir
import Sdmmc.Lemmas.VolApiMount

namespace Sdmmc.Lemmas.AbsFs
open Sdmmc.Model Sdmmc.Model.Fat Sdmmc.Spec.Volume Sdmmc.Lemmas.VolBase Sdmmc.Lemmas.VolTree
open Sdmmc.Spec hiding NoFault Coherent
open Sdmmc.Spec.AbsFs (Meta view storedMeta fatRound OpenFile OpenDir absStep)
open Sdmmc.Lemmas.VolDisk Sdmmc.Lemmas.VolMed Sdmmc.Lemmas.VolApi Sdmmc.Lemmas.VolEng
open Sdmmc.Lemmas.FBasic (NoFault Coherent)
open Sdmmc.Lemmas.MHoare

/-! ### Carrying the abstraction to a state whose directories and files read the same -/

theorem abs_transfer {s s' : Mgr} {gh gh' : Ghost} {a a' : AState} (hA : Abs s gh a)
    (h1 : a'.nextId = s'.nextId) (h2 : a'.maxDirs = s'.maxDirs) (h3 : a'.maxFiles = s'.maxFiles) (h4 : a'.clock = s'.clock)
    (h5 : a'.locked = s'.locked) (h6 : a'.vols = s'.vols.map fun v => (v.rawVolume, v.idx)) (h7 : a'.dirs = s'.dirs.map absDir)
    (hf : s'.files = s.files) (haf : a'.files = a.files) (hids : a'.ids = a.ids) (hsl : a'.slots = a.slots)
    (hgd : gh'.dirs = gh.dirs)
    (hF : SameFs s.files gh.dirs gh.vol s.dev.disk gh.G gh'.vol s'.dev.disk gh'.G) : Abs s' gh' a' := by
  refine ⟨h1, h2, h3, h4, h5, h6, h7, ?_, by rw [hids, hA.ids, hgd], ?_⟩
  · rw [haf, hf]
    refine forall₂_mono hA.files fun af f _ h => ⟨h.handle, h.volume, h.mode, h.pos, h.pm, h.dirty, by rw [hgd]; exact h.dirMem, ?_⟩
    obtain ⟨o, ho, hp⟩ := h.slot
    refine ⟨o, ?_, hp⟩
    rw [hF.views _ h.dirMem]; exact ho
  · intro h hh
    rw [hgd] at hh
    rw [hsl, hA.slots h hh]
    unfold absSlots
    rw [hF.views h hh, hF.ft, hf]
    apply List.map_congr_left
    intro o ho
    apply absSlot_cont_congr
    intro hk hd
    unfold contentOf
    rw [hF.ft]
    exact (hF.bytes h hh o ho hk hd _).symm

/-! ### `close_volume` -/

theorem refines_closeVolume (v : Nat) {s : Mgr} {gh : Ghost} {a : AState} (hI : VolInv s gh) (hA : Abs s gh a) :
    Refines (.closeVolume v) s gh a := by
  have hl : a.locked = false := hA.locked.trans hI.unlocked
  unfold Refines
  rw [show runOp (.closeVolume v) s = (closeVolume v >>= fun _ => pure Payload.unit) s from rfl, run_seq]
  have hgoal : ∀ (a' : AState) (r : Res Payload), absStep a (.closeVolume v) (a', r) ↔ Spec.AbsFs.closeVolumeS a v a' r := by
    intro a' r
    unfold absStep
    rw [if_neg (by rw [hl]; exact Bool.false_ne_true)]
  have hfa : (a.files.any fun f => decide (f.volume = v)) = s.files.any (·.rawVolume = v) :=
    forall₂_any hA.files _ _ fun x y h => by rw [h.volume]
  have hda : (a.dirs.any fun d => decide (d.volume = v)) = s.dirs.any (·.rawVolume = v) := by
    rw [hA.dirs, List.any_map]; rfl
  have hvi : (a.vols.findIdx? fun x => decide (x.1 = v)) = s.vols.findIdx? (·.rawVolume = v) := by
    rw [hA.vols, List.findIdx?_map]; rfl
  unfold closeVolume
  rw [get_bind]
  by_cases hfs : (s.files.any (·.rawVolume = v)) = true
  · rw [if_pos hfs]
    refine ⟨gh, a, hI, SameGeom.refl _, hA, (hgoal a _).2 ?_⟩
    unfold Spec.AbsFs.closeVolumeS
    rw [if_pos (by rw [hfa]; exact hfs)]
    exact ⟨rfl, rfl⟩
  rw [if_neg hfs]
  by_cases hds : (s.dirs.any (·.rawVolume = v)) = true
  · rw [if_pos hds]
    refine ⟨gh, a, hI, SameGeom.refl _, hA, (hgoal a _).2 ?_⟩
    unfold Spec.AbsFs.closeVolumeS
    rw [if_neg (by rw [hfa]; exact hfs), if_pos (by rw [hda]; exact hds)]
    exact ⟨rfl, rfl⟩
  rw [if_neg hds]
  cases hv : s.vols.findIdx? (·.rawVolume = v) with
  | none =>
    rw [bind_err (getVolumeById_bad hv)]
    refine ⟨gh, a, hI, SameGeom.refl _, hA, (hgoal a _).2 ?_⟩
    unfold Spec.AbsFs.closeVolumeS
    rw [if_neg (by rw [hfa]; exact hfs), if_neg (by rw [hda]; exact hds), hvi, hv]
    exact ⟨rfl, rfl⟩
  | some volIdx =>
    obtain ⟨h0, vi, hvs, hvol, hraw⟩ := vol_of_handle hI hv
    subst h0
    rw [bind_ok (getVolumeById_ok hv)]
    have hnofile : ∀ f, f ∈ s.files → False := by
      intro f hf
      apply hfs
      rw [List.any_eq_true]
      obtain ⟨vi', hv', he⟩ := hI.fileVols f hf
      rw [hvs] at hv'
      cases hv'
      exact ⟨f, hf, by simp [he, hraw]⟩
    obtain ⟨hn, hc, hM⟩ := volInv_fs hI
    obtain ⟨fs1, hr1, hn1, hc1, hv1, hM1, hfr1⟩ := updateInfo_frame hM hn hc
    have hw := withVol_one updateInfoSector hvs hvol
    rw [hr1] at hw
    rw [bind_ok hw]
    have hvg : fs1.vol = gh.vol := hv1
    have hI' : VolInv { afterVol s vi fs1 with vols := swapRemove (afterVol s vi fs1).vols 0 } gh := by
      refine ⟨hn1, hc1, hI.unlocked, hI.maxVols, .inl rfl, ?_, fun f hf => (hnofile f hf).elim, hI.openDirs⟩
      have := med_of_medX hM1
      rw [hvg] at this
      exact this
    have hF : SameFs s.files gh.dirs gh.vol s.dev.disk gh.G gh.vol fs1.dev.disk gh.G :=
      sameFs_of_blocks hM (SameGeom.refl _)
        (fun h hh o ho => hfr1 _ (by rcases dirSlot_not_fat hM hh ho with h1 | h1 <;> simp [h1]))
        fun cs hcs c hc' j hj => hfr1 _ (by
          have hr' := med_inRange hM hcs hc'
          exact .inr (.inl (FatLens.cluster_blocks_in_data_region gh.vol hM.geom c j hr'.1 hr'.2 hj)))
    refine ⟨gh, { a with vols := swapRemove a.vols 0 }, hI', SameGeom.refl _, ?_, (hgoal _ _).2 ?_⟩
    · refine abs_transfer hA hA.nextId hA.maxDirs hA.maxFiles hA.clock hA.locked ?_ hA.dirs rfl rfl rfl rfl rfl hF
      show swapRemove a.vols 0 = (swapRemove [({ vi with vol := fs1.vol } : VolInfo)] 0).map _
      rw [hA.vols, hvs]
      rfl
    · unfold Spec.AbsFs.closeVolumeS
      rw [if_neg (by rw [hfa]; exact hfs), if_neg (by rw [hda]; exact hds), hvi, hv]
      exact ⟨rfl, rfl⟩

/-! ### `open_volume` -/

/-- Outcomes of `open_raw_volume idx` started from `s`: up to device bookkeeping and cache the state is `s` and the
answer is not `ok`, or — with the answer `ok` — `s` with one more volume record, whose hint is sound. -/
def Good' (idx : Nat) (s : Mgr) (p : Res Nat × Mgr) : Prop :=
  ∃ t, RdF s t ∧ ((p.2 = t ∧ ∀ h, p.1 ≠ .ok h) ∨ ∃ v, HintOK v ∧ p = (.ok t.nextId, addVol t idx v))

theorem good_bind' {α : Type} {idx : Nat} {s s0 : Mgr} (m : M α) (f : α → M Nat) (hm : RdF s (m s0).2)
    (hf : ∀ a s1, m s0 = (.ok a, s1) → Good' idx s (f a s1)) : Good' idx s ((m >>= f) s0) := by
  rw [bind_def]
  rcases h : m s0 with ⟨r, s1⟩
  rw [h] at hm
  cases r with
  | ok a => exact hf a s1 h
  | err e => exact ⟨s1, hm, .inl ⟨rfl, fun _ h => by cases h⟩⟩
  | panic msg => exact ⟨s1, hm, .inl ⟨rfl, fun _ h => by cases h⟩⟩
  | diverged => exact ⟨s1, hm, .inl ⟨rfl, fun _ h => by cases h⟩⟩

theorem openRaw_good' (idx : Nat) (s : Mgr) : Good' idx s (openRawVolume idx s) := by
  have hstop : ∀ {t : Mgr} (e : Err), RdF s t → Good' idx s (.err e, t) :=
    fun _ ht => ⟨_, ht, .inl ⟨rfl, fun _ h => by cases h⟩⟩
  rw [openRawVolume_eq, get_bind]
  split
  · exact hstop _ (RdF.refl s)
  split
  · exact hstop _ (RdF.refl s)
  -- block 0
  have f1 := rdBlock_frame 0 s
  refine good_bind' _ _ f1 ?_
  intro mbr s1 h1
  have g1 : RdF s s1 := rdF_of_run f1 h1
  -- the partition table
  refine good_bind' _ _ g1 ?_
  rintro ⟨ptype, lba, nb⟩ s1' h2
  have : s1' = s1 := by
    have := congrArg Prod.snd h2
    exact this.symm
  subst this
  dsimp only
  split
  · exact hstop _ g1
  -- the boot sector
  have f2 : RdF s (rdBlock lba s1').2 := g1.trans (rdBlock_frame lba s1')
  refine good_bind' _ _ f2 ?_
  intro bpb s2 h3
  have g2 : RdF s s2 := rdF_of_run f2 h3
  refine good_bind' _ _ g2 ?_
  intro v s2' h4
  have hs2 : s2' = s2 := (congrArg Prod.snd h4).symm
  subst hs2
  have hv : parseVolumeBpb bpb lba nb = .ok v := congrArg Prod.fst h4
  have hnone := parseVolumeBpb_hint hv
  -- the information sector
  have hinfo : ∀ (m : M FatVolume), RdF s (m s2').2 → (∀ v' s3, m s2' = (.ok v', s3) → HintOK v') →
      Good' idx s ((m >>= fun v => generate >>= fun id =>
        M.modify (fun s => { s with vols := s.vols ++ [{ rawVolume := id, idx := idx, vol := v }] }) >>= fun _ =>
          pure id) s2') := by
    intro m hm hh
    refine good_bind' _ _ hm ?_
    intro v' s3 h5
    exact ⟨s3, rdF_of_run hm h5, .inr ⟨v', hh v' s3 h5, rfl⟩⟩
  cases hft : v.fatType with
  | fat16 =>
    refine hinfo _ g2 ?_
    intro v' s3 h5
    have : v' = v := (congrArg Prod.fst h5 |> Res.ok.inj).symm
    subst this
    intro n hn
    rw [hnone] at hn
    cases hn
  | fat32 =>
    have f3 : RdF s (rdBlock v.infoLocation s2').2 := g2.trans (rdBlock_frame _ s2')
    refine hinfo _ ?_ ?_
    · show RdF s ((rdBlock v.infoLocation >>= fun info => M.lift (parseVolumeInfo v info)) s2').2
      rw [bind_lift_state]
      exact f3
    · intro v' s3 h5
      have h5' : (rdBlock v.infoLocation >>= fun info => M.lift (parseVolumeInfo v info)) s2' = (.ok v', s3) := h5
      rw [bind_def] at h5'
      rcases h6 : rdBlock v.infoLocation s2' with ⟨r, s4⟩
      rw [h6] at h5'
      cases r with
      | ok info =>
        have : parseVolumeInfo v info = .ok v' := congrArg Prod.fst h5'
        exact parseVolumeInfo_hint this
      | err e => cases h5'
      | panic msg => cases h5'
      | diverged => cases h5'

/-- `open_volume`: while a volume is open the call is refused; else it mounts the partition — PROVIDED (hypothesis
`hsame`, as in `Props/C03Inv`) the record it builds has the geometry of the volume the relations speak about —
or fails, and nothing changed. -/
theorem refines_openVolume (idx : Nat) {s : Mgr} {gh : Ghost} {a : AState} (hI : VolInv s gh) (hA : Abs s gh a)
    (hsame : s.vols ≠ [] ∨ ∀ h s', openRawVolume idx s = (.ok h, s') → ∀ vi, vi ∈ s'.vols → SameGeom gh.vol vi.vol) :
    Refines (.openVolume idx) s gh a := by
  have hl : a.locked = false := hA.locked.trans hI.unlocked
  unfold Refines
  rw [show runOp (.openVolume idx) s = (openRawVolume idx >>= fun h => pure (Payload.handle h)) s from rfl, run_map]
  have hgoal : ∀ (a' : AState) (r : Res Payload), absStep a (.openVolume idx) (a', r) ↔ Spec.AbsFs.openVolumeS a idx a' r := by
    intro a' r
    unfold absStep
    rw [if_neg (by rw [hl]; exact Bool.false_ne_true)]
  have hlen : a.vols.length = s.vols.length := by rw [hA.vols, List.length_map]
  by_cases hv : s.vols = []
  swap
  · rw [openVolume_api_open hI hv idx]
    refine ⟨gh, a, hI, SameGeom.refl _, hA, (hgoal a _).2 ?_⟩
    unfold Spec.AbsFs.openVolumeS
    rw [if_pos (by
      rw [hlen]
      cases hvs : s.vols with
      | nil => exact absurd hvs hv
      | cons x l => simp)]
    exact ⟨rfl, rfl⟩
  have hsame' := hsame.resolve_left (fun h => h hv)
  have hnv : ¬ a.vols.length ≥ 1 := by rw [hlen, hv]; simp
  obtain ⟨t, ⟨dev', cache', rfl, hd, hf, hc⟩, hcase⟩ := openRaw_good' idx s
  rcases hcase with ⟨h, hnok⟩ | ⟨v, hh, h⟩
  · -- the call failed
    rcases hrun : openRawVolume idx s with ⟨r, s'⟩
    rw [hrun] at h hnok
    simp only at h hnok
    subst h
    have hI' : VolInv { s with dev := dev', cache := cache' } gh :=
      volInv_ro (s' := { s with dev := dev', cache := cache' }) hI hd (hf.trans hI.noFault) (hc hI.coherent) rfl rfl rfl rfl hI.openDirs
    have hA' : Abs { s with dev := dev', cache := cache' } gh a :=
      abs_transfer hA hA.nextId hA.maxDirs hA.maxFiles hA.clock hA.locked hA.vols hA.dirs rfl rfl rfl rfl rfl
        (by show SameFs s.files gh.dirs gh.vol s.dev.disk gh.G gh.vol dev'.disk gh.G; rw [hd]; exact SameFs.refl _ _ _ _ _)
    refine ⟨gh, a, hI', SameGeom.refl _, hA', (hgoal a _).2 ?_⟩
    unfold Spec.AbsFs.openVolumeS
    rw [if_neg hnv]
    refine .inl ⟨rfl, fun p hp => ?_⟩
    cases r with
    | ok x => exact hnok x rfl
    | err e => cases hp
    | panic m => cases hp
    | diverged => cases hp
  · -- a volume is mounted
    have hsg : SameGeom gh.vol v := by
      have := hsame' _ _ h { rawVolume := s.nextId, idx := idx, vol := v } (by
        show _ ∈ s.vols ++ [_]
        simp)
      exact this
    have hnofile : s.files = [] := by
      cases hfs : s.files with
      | nil => rfl
      | cons f l =>
        obtain ⟨vi, hvi, _⟩ := hI.fileVols f (by rw [hfs]; simp)
        rw [hv] at hvi
        cases hvi
    rw [h]
    have hM := medX_of_med hI.med
    have hI' : VolInv (addVol { s with dev := dev', cache := cache' } idx v) { gh with vol := v } := by
      refine ⟨hf.trans hI.noFault, hc hI.coherent, hI.unlocked, hI.maxVols,
        .inr ⟨{ rawVolume := s.nextId, idx := idx, vol := v }, ?_, rfl⟩, ?_, ?_, hI.openDirs⟩
      · show s.vols ++ [_] = [_]
        rw [hv]; rfl
      · show MedInv v dev'.disk s.files { gh with vol := v }
        rw [hd]
        have hM' := med_congr hM hsg hh hI.med.blocksOK (fun _ _ => rfl) (fun _ _ => rfl)
        exact med_of_medX (medX_ghost (gh' := { gh with vol := v }) hM' rfl rfl)
      · intro f hf'
        have : f ∈ s.files := hf'
        rw [hnofile] at this
        cases this
    have hF : SameFs s.files gh.dirs gh.vol s.dev.disk gh.G v dev'.disk gh.G := by
      rw [hd]
      exact sameFs_of_blocks hM hsg (fun _ _ _ _ => rfl) (fun _ _ _ _ _ _ => rfl)
    refine ⟨{ gh with vol := v }, { Spec.AbsFs.gen a with vols := a.vols ++ [(a.nextId, idx)] }, hI', hsg, ?_, (hgoal _ _).2 ?_⟩
    · refine abs_transfer (gh' := { gh with vol := v }) hA ?_ hA.maxDirs hA.maxFiles hA.clock hA.locked ?_ hA.dirs rfl rfl rfl rfl rfl hF
      · show (a.nextId + 1) % 4294967296 = (s.nextId + 1) % 4294967296
        rw [hA.nextId]
      · show a.vols ++ [(a.nextId, idx)] = (s.vols ++ [({ rawVolume := s.nextId, idx := idx, vol := v } : VolInfo)]).map _
        rw [List.map_append, ← hA.vols, hA.nextId]
        rfl
    · unfold Spec.AbsFs.openVolumeS
      rw [if_neg hnv]
      refine .inr ⟨rfl, ?_⟩
      show Res.ok (Payload.handle s.nextId) = _
      rw [hA.nextId]

end Sdmmc.Lemmas.AbsFs
