/-
Several open volumes: EVERY OPEN PARTITION STILL MOUNTS, with the geometry of its record — the invariant `MountsN`, kept
by every API call (second half of the lemmas of `Props.C16MultiClose`; the first half is `Lemmas.VolNRemount`).

The one-volume fact is `Lemmas.AcctAll.step_mountSame` (no call changes what mounting reads: block 0, the boot sector, the
information sector outside its two record words), chained along a history in `Props.C16Hist2.history_accounting` for the
ONE volume that was open at the start.  With several volumes, volumes come (`open_volume`) and go (`close_volume`) during a
history, so the fact is carried as an invariant of the state:

* `MountsN s` — for every open volume record `vi`, mounting partition `vi.idx` of the present medium succeeds and gives a
  record with the geometry of `vi.vol` (`SameGeom`: equal up to free count and next-free hint);
* `mountsN_of_mountSame` — the step rule: if every record of `s'` is a record of `s` up to `SameGeom` with the same
  partition index, and nothing its mount reads has changed (`MountSame`), then `MountsN s'`
  (`Lemmas.Reopen.mount_sameGeom`);
* `openRawVolume_ok_mount` — **a successful `open_raw_volume idx` IS `mountPure` of the present medium**: the record it
  appends is what `mountPure` computes (converse of `Lemmas.Reopen.openRawVolume_spec`; the error branches follow
  `Lemmas.Mounted.openRawVolume_total`, without its assumption that no volume is open);
* `mountsN_openVolume` — hence `open_raw_volume` keeps `MountsN` (the medium is only read);
* `mountSame_targeted`, `record_targeted`, `mountsN_targeted` — a call addressed to volume record `i`: for record `i` the
  one-volume theorem on the projection (hypothesis `hMS`, supplied by the caller), for the other partitions the frame
  (`Lifted.frame`, `VolInvN.parts`); block 0 belongs to no partition and is covered by the one-volume theorem;
* `untargeted_frame`, `mountsN_untargeted` — the calls that work on no volume record (`close_volume`:
  `VolNRemount.closeVolume_mountSame`).

Hypothesis for `open_volume` (`hnew`): IF the mount succeeds, every block of the medium has 512 bytes — part of
`Props.C03Multi.CoveredN` (through `MedInv.blocksOK`); `VolInvN` with NO open volume says nothing about the medium.
-/
import Sdmmc.Lemmas.VolNRemount
import Sdmmc.Lemmas.MountedInv

namespace Sdmmc.Lemmas.VolN
open Sdmmc.Model Sdmmc.Model.Fat Sdmmc.Spec.Volume
open Sdmmc.Spec hiding NoFault Coherent run step
open Sdmmc.Lemmas.MHoare
open Sdmmc.Lemmas.AcctAll (MountSame Keeps)
open Sdmmc.Lemmas.ReadRefines (MgrOK)

/-! ### The invariant -/

/-- Every open partition mounts on the present medium, with the geometry of its volume record. -/
def MountsN (s : Mgr) : Prop :=
  ∀ vi, vi ∈ s.vols → ∃ w, mountPure (s.dev.disk.get 0) vi.idx s.dev.disk.get = .ok w ∧ SameGeom w vi.vol

theorem mountsN_of_same {s s' : Mgr} (hv : s'.vols = s.vols) (hd : s'.dev.disk = s.dev.disk) (h : MountsN s) :
    MountsN s' := by
  intro w hw
  rw [hv] at hw
  rw [hd]; exact h w hw

theorem mountsN_keeps {α} {m : M α} (hm : Keeps m) {s : Mgr} (h : MountsN s) : MountsN (m s).2 :=
  mountsN_of_same (hm s).1 (hm s).2 h

/-- **The step rule.** -/
theorem mountsN_of_mountSame {s s' : Mgr} (hM : MountsN s)
    (hrec : ∀ w', w' ∈ s'.vols → ∃ w, w ∈ s.vols ∧ w.idx = w'.idx ∧ SameGeom w.vol w'.vol ∧
      MountSame w.vol s.dev.disk s'.dev.disk) : MountsN s' := by
  intro w' hw'
  obtain ⟨w, hw, hidx, hsg, hms⟩ := hrec w' hw'
  obtain ⟨m, hm, hmg⟩ := hM w hw
  have hms' : MountSame m s.dev.disk s'.dev.disk := AcctAll.MountSame.sameGeom hmg.symm hms
  obtain ⟨m', hm', hmg'⟩ := Reopen.mount_sameGeom s.dev.disk s'.dev.disk w.idx m hm hms'.1 hms'.2.1 hms'.2.2
  have hmm : SameGeom m m' := ⟨_, _, hmg'⟩
  exact ⟨m', by rw [← hidx]; exact hm', hmm.symm.trans (hmg.trans hsg)⟩

/-! ### `open_raw_volume` -/

/-- If `mountPure` of the medium answers an error, so does `open_raw_volume` (when there is room and the partition is
not open yet). -/
theorem openRawVolume_err_of_mount_err {s : Mgr} (hs : MgrOK s) (idx : Nat) (hroom : ¬ s.vols.length ≥ s.maxVols)
    (hnot : ¬ (s.vols.any (·.idx = idx)) = true) (e : Err)
    (hm : mountPure (s.dev.disk.get 0) idx s.dev.disk.get = .err e) : ∃ e' t1, openRawVolume idx s = (.err e', t1) := by
  obtain ⟨s1, hr1, hs1⟩ := Reopen.rdBlock_spec s hs 0
  rw [Reopen.openRawVolume_eq_alt]
  unfold Reopen.openRawVolumeAlt
  rw [get_bind, if_neg hroom, if_neg hnot, bind_ok hr1]
  unfold mountPure at hm
  rcases C15.parsePartition_noPanic (s.dev.disk.get 0) idx with ⟨⟨pt, lba, nb⟩, hpp⟩ | ⟨e1, hpp⟩
  swap
  · rw [hpp]
    exact ⟨e1, s1, by rw [bind_err (lift_run _ s1)]⟩
  rw [hpp] at hm ⊢
  rw [bind_ok (lift_run _ s1)]
  simp only [Res.bind_ok] at hm
  dsimp only
  cases hsup : supportedPartitionType pt with
  | false =>
    simp only [Bool.not_false, if_true]
    exact ⟨_, s1, rfl⟩
  | true =>
    rw [hsup] at hm
    simp only [Bool.not_true, Bool.false_eq_true, if_false] at hm ⊢
    obtain ⟨s2, hr2, hs2⟩ := Reopen.rdBlock_spec s1 hs1.ok lba
    rw [hs1.disk] at hr2
    have h12 := hs1.trans hs2
    rw [bind_ok hr2]
    rcases C15.parseVolumeBpb_noPanic (s.dev.disk.get lba) lba nb with ⟨v0, hbpb⟩ | ⟨e2, hbpb⟩
    swap
    · rw [hbpb]
      exact ⟨e2, s2, by rw [bind_err (lift_run _ s2)]⟩
    rw [hbpb] at hm ⊢
    rw [bind_ok (lift_run _ s2)]
    simp only [Res.bind_ok] at hm
    cases hft : v0.fatType with
    | fat16 =>
      rw [hft] at hm
      simp only [Res.pure_eq] at hm
      cases hm
    | fat32 =>
      rw [hft] at hm
      simp only at hm
      dsimp only
      obtain ⟨s3, hr3, hs3⟩ := Reopen.rdBlock_spec s2 hs2.ok v0.infoLocation
      rw [h12.disk] at hr3
      have hinner : (Reopen.rdBlock v0.infoLocation >>= fun info => M.lift (parseVolumeInfo v0 info)) s2 = (.err e, s3) := by
        rw [bind_ok hr3, hm]; rfl
      rw [bind_err hinner]
      exact ⟨e, s3, rfl⟩

/-- **A successful `open_raw_volume idx` is `mountPure` of the present medium**: the record it appends is the one
`mountPure` computes from block 0, the boot sector and the information sector; the medium is not written. -/
theorem openRawVolume_ok_mount {s : Mgr} (hs : MgrOK s) (idx h : Nat) (s' : Mgr)
    (hr : openRawVolume idx s = (.ok h, s')) :
    ∃ v, mountPure (s.dev.disk.get 0) idx s.dev.disk.get = .ok v ∧
      s'.vols = s.vols ++ [{ rawVolume := h, idx := idx, vol := v }] ∧ s'.dev.disk = s.dev.disk := by
  by_cases hroom : s.vols.length ≥ s.maxVols
  · exfalso
    rw [Reopen.openRawVolume_eq_alt] at hr
    unfold Reopen.openRawVolumeAlt at hr
    rw [get_bind, if_pos hroom] at hr
    cases hr
  by_cases hnot : (s.vols.any (·.idx = idx)) = true
  · exfalso
    rw [Reopen.openRawVolume_eq_alt] at hr
    unfold Reopen.openRawVolumeAlt at hr
    rw [get_bind, if_neg hroom, if_pos hnot] at hr
    cases hr
  rcases C15.mount_total (s.dev.disk.get 0) idx s.dev.disk.get with ⟨v, hm⟩ | ⟨e, hm⟩
  · obtain ⟨s1, hrun, heq, hd, _, _⟩ := Reopen.openRawVolume_spec s idx v hs (by omega) (Bool.eq_false_iff.2 hnot) hm
    rw [hrun] at hr
    cases hr
    exact ⟨v, hm, by rw [heq], hd⟩
  · exfalso
    obtain ⟨e', t1, h1⟩ := openRawVolume_err_of_mount_err hs idx hroom hnot e hm
    rw [h1] at hr
    cases hr

/-- **`open_raw_volume`** keeps `MountsN`: the medium is only read; the record a successful mount appends is what
`mountPure` gives. -/
theorem mountsN_openVolume {s : Mgr} (hnf : s.dev.faults = [])
    (hcoh : ∀ i, s.cache.tag = some i → s.cache.blk = s.dev.disk.get i)
    (hunl : s.locked = false) (idx : Nat) (hM : MountsN s)
    (hnew : ∀ hd s', openRawVolume idx s = (.ok hd, s') → ∀ vi, s'.vols.getLast? = some vi →
      ∀ i, (s.dev.disk.get i).length = 512) : MountsN (openRawVolume idx s).2 := by
  obtain ⟨t, ⟨dev', cache', rfl, hd, _, _⟩, hcase⟩ := VolApi.openRaw_good idx s
  rcases hcase with h1 | ⟨vnew, _, h1⟩
  · rw [h1]
    exact mountsN_of_same (s := s) (s' := { s with dev := dev', cache := cache' }) rfl hd hM
  · have hblk := hnew _ _ h1 { rawVolume := s.nextId, idx := idx, vol := vnew } (by
      show (s.vols ++ [_]).getLast? = _
      rw [List.getLast?_concat])
    obtain ⟨v, hm, hvols, hdisk⟩ := openRawVolume_ok_mount ⟨hnf, hcoh, hblk, hunl⟩ idx _ _ h1
    rw [h1]
    intro w hw
    simp only at hw ⊢
    rw [hdisk]
    rw [hvols] at hw
    rcases List.mem_append.1 hw with hw | hw
    · exact hM w hw
    · rw [List.mem_singleton.1 hw]
      exact ⟨v, hm, SameGeom.refl _⟩

/-- `open_raw_volume` does not write. -/
theorem openVolume_disk (idx : Nat) (s : Mgr) : (openRawVolume idx s).2.dev.disk = s.dev.disk := by
  obtain ⟨t, ⟨dev', cache', rfl, hd, _, _⟩, hcase⟩ := VolApi.openRaw_good idx s
  rcases hcase with h1 | ⟨vnew, _, h1⟩
  · rw [h1]; exact hd
  · rw [h1]; exact hd

/-! ### A call addressed to one volume record -/

/-- **A call addressed to volume record `i`** changes nothing the mount of ANY open partition `j` reads: for `j = i` by the
one-volume theorem on the projection (`hMS`), for `j ≠ i` block 0 by the same theorem and the rest by the frame. -/
theorem mountSame_targeted {s s' t' : Mgr} {ghs : List Ghost} {i : Nat} {vi : VolInfo} {gh gh' : Ghost}
    (hI : VolInvN s ghs) (hvi : s.vols[i]? = some vi) (hgh : ghs[i]? = some gh) (hL : Lifted s s' t' i vi gh gh')
    (hMS : MountSame gh.vol s.dev.disk t'.dev.disk) {j : Nat} {vj : VolInfo} (hvj : s.vols[j]? = some vj) :
    MountSame vj.vol s.dev.disk s'.dev.disk := by
  have hvol : vi.vol = gh.vol := hI.vols i vi gh hvi hgh
  rw [hL.rel.dev] at hMS
  by_cases hji : j = i
  · subst hji
    rw [hvi] at hvj; cases hvj
    rw [hvol]; exact hMS
  · obtain ⟨_, _, hgj⟩ := wf_of_mem hI (List.mem_of_getElem? hvj)
    have hfr : ∀ b, InPartition vj.vol b → s'.dev.disk.get b = s.dev.disk.get b := by
      intro b hb
      apply hL.frame
      rw [← hvol]
      exact fun hbi => hI.parts i j vi vj hvi hvj (Ne.symm hji) b hbi hb
    refine ⟨hMS.1, hfr _ (lba_inPartition hgj), fun h32 k _ => ?_⟩
    rw [hfr _ (info_facts hgj h32).2.1]

/-- The records after a call addressed to record `i`: record `i` with the same handle, the same partition index and the
same geometry, every other record unchanged. -/
theorem record_targeted {s s' t' : Mgr} {ghs : List Ghost} {i : Nat} {vi : VolInfo} {gh gh' : Ghost}
    (hI : VolInvN s ghs) (hvi : s.vols[i]? = some vi) (hgh : ghs[i]? = some gh) (hL : Lifted s s' t' i vi gh gh') :
    ∀ w', w' ∈ s'.vols → ∃ (j : Nat) (w : VolInfo), s.vols[j]? = some w ∧ w.idx = w'.idx ∧ w.rawVolume = w'.rawVolume ∧
      SameGeom w.vol w'.vol := by
  have hlen : s'.vols.length = s.vols.length := by
    have := congrArg List.length hL.volKeys
    simpa using this
  have hother : ∀ j, j ≠ i → s'.vols[j]? = s.vols[j]? := fun j hj => getElem?_of_eraseIdx_eq hL.restVols hlen hj
  have hvol : vi.vol = gh.vol := hI.vols i vi gh hvi hgh
  intro w hw
  obtain ⟨j, hj⟩ : ∃ j : Nat, s'.vols[j]? = some w := List.getElem?_of_mem hw
  by_cases hji : j = i
  · subst hji
    have htv : t'.vols = [w] := by rw [hL.rel.vols, hj]; rfl
    have hkey : vkey w = vkey vi := by
      have h1 : (s'.vols.map vkey)[j]? = some (vkey w) := by rw [List.getElem?_map, hj]; rfl
      have h2 : (s.vols.map vkey)[j]? = some (vkey vi) := by rw [List.getElem?_map, hvi]; rfl
      rw [hL.volKeys, h2] at h1
      exact (Option.some.inj h1).symm
    have hwv : w.vol = gh'.vol := by
      rcases hL.inv.vols with h0 | ⟨w', hw', hwv⟩
      · rw [htv] at h0; cases h0
      · rw [htv] at hw'; cases hw'; exact hwv
    refine ⟨j, vi, hvi, (congrArg Prod.snd hkey).symm, (congrArg Prod.fst hkey).symm, ?_⟩
    rw [hvol, hwv]; exact hL.geom
  · exact ⟨j, w, by rw [← hother j hji]; exact hj, rfl, rfl, SameGeom.refl _⟩

/-- **A call addressed to volume record `i`** keeps `MountsN`. -/
theorem mountsN_targeted {s s' t' : Mgr} {ghs : List Ghost} {i : Nat} {vi : VolInfo} {gh gh' : Ghost}
    (hI : VolInvN s ghs) (hvi : s.vols[i]? = some vi) (hgh : ghs[i]? = some gh) (hL : Lifted s s' t' i vi gh gh')
    (hMS : MountSame gh.vol s.dev.disk t'.dev.disk) (hM : MountsN s) : MountsN s' := by
  refine mountsN_of_mountSame hM fun w' hw' => ?_
  obtain ⟨j, w, hj, hidx, _, hsg⟩ := record_targeted hI hvi hgh hL w' hw'
  exact ⟨w, List.mem_of_getElem? hj, hidx, hsg, mountSame_targeted hI hvi hgh hL hMS hj⟩

/-! ### The calls that work on no volume record -/

/-- Every call with `target s op = none` other than `open_volume`: records only leave, and nothing the mount of an open
partition reads changes. -/
theorem untargeted_frame {s : Mgr} {ghs : List Ghost} (hI : VolInvN s ghs) (op : Op) (ht : target s op = none)
    (hno : ∀ idx, op ≠ .openVolume idx) :
    (∀ w, w ∈ (step s op).1.vols → w ∈ s.vols) ∧
    ∀ (j : Nat) (vj : VolInfo), s.vols[j]? = some vj → MountSame vj.vol s.dev.disk (step s op).1.dev.disk := by
  have hI0 := volInvN_resetLogs hI
  have hsame : ∀ s' : Mgr, s'.vols = s.vols → s'.dev.disk = s.dev.disk →
      (∀ w, w ∈ s'.vols → w ∈ s.vols) ∧
      ∀ (j : Nat) (vj : VolInfo), s.vols[j]? = some vj → MountSame vj.vol s.dev.disk s'.dev.disk := by
    intro s' hv hd
    rw [hv, hd]
    exact ⟨fun _ h => h, fun _ _ _ => AcctAll.MountSame.refl _ _⟩
  rw [step_unlocked s op hI.unlocked]
  simp only
  cases op with
  | openVolume idx => exact absurd rfl (hno idx)
  | closeVolume v =>
    rw [show (runOp (.closeVolume v) (resetLogs s)).2 = (closeVolume v (resetLogs s)).2 from VolApi.seq_state _ _ _]
    exact ⟨closeVolume_vols_sub hI0 v, fun j vj hvj => closeVolume_mountSame hI0 v hvj⟩
  | openRoot v =>
    rw [show (runOp (.openRoot v) (resetLogs s)).2 = (openRootDir v (resetLogs s)).2 from VolApi.map_state _ _ _]
    exact hsame _ (AcctAll.keeps_openRootDir v (resetLogs s)).1 (AcctAll.keeps_openRootDir v (resetLogs s)).2
  | closeDir d =>
    rw [show (runOp (.closeDir d) (resetLogs s)).2 = (closeDir d (resetLogs s)).2 from VolApi.seq_state _ _ _]
    exact hsame _ (AcctAll.keeps_closeDir d (resetLogs s)).1 (AcctAll.keeps_closeDir d (resetLogs s)).2
  | hasOpen => exact hsame _ rfl rfl
  | label v =>
    rw [untargeted_state hI0 _ (by exact ht) (fun _ h => by cases h) (fun _ h => by cases h)
      (fun _ h => by cases h) (fun _ h => by cases h) (fun h => by cases h)]
    exact hsame _ rfl rfl
  | _ =>
    rw [untargeted_state hI0 _ (by exact ht) (fun _ h => by cases h) (fun _ h => by cases h)
      (fun _ h => by cases h) (fun _ h => by cases h) (fun h => by cases h)]
    exact hsame _ rfl rfl

/-- Every call with `target s op = none` keeps `MountsN`; for `open_volume` the hypothesis on the successful mount. -/
theorem mountsN_untargeted {s : Mgr} {ghs : List Ghost} (hI : VolInvN s ghs) (op : Op) (ht : target s op = none)
    (hM : MountsN s)
    (hnew : ∀ idx, op = .openVolume idx → ∀ hd s', openRawVolume idx (resetLogs s) = (.ok hd, s') →
      ∀ vi, s'.vols.getLast? = some vi → ∀ i, (s.dev.disk.get i).length = 512) : MountsN (step s op).1 := by
  by_cases hov : ∃ idx, op = .openVolume idx
  · obtain ⟨idx, rfl⟩ := hov
    have hI0 := volInvN_resetLogs hI
    rw [step_unlocked s _ hI.unlocked]
    simp only
    rw [show (runOp (.openVolume idx) (resetLogs s)).2 = (openRawVolume idx (resetLogs s)).2 from VolApi.map_state _ _ _]
    exact mountsN_openVolume hI0.noFault hI0.coherent hI0.unlocked idx hM (hnew idx rfl)
  · obtain ⟨hsub, hms⟩ := untargeted_frame hI op ht (fun idx e => hov ⟨idx, e⟩)
    refine mountsN_of_mountSame hM fun w' hw' => ?_
    have hw := hsub w' hw'
    obtain ⟨j, hj⟩ : ∃ j : Nat, s.vols[j]? = some w' := List.getElem?_of_mem hw
    exact ⟨w', hw, rfl, SameGeom.refl _, hms j w' hj⟩

/-- **`get_root_volume_label`** changes neither the volume table nor the medium. -/
theorem mountsN_label {s : Mgr} (hl : s.locked = false) (v : Nat) (hM : MountsN s) : MountsN (step s (.label v)).1 := by
  rw [step_unlocked s _ hl]
  simp only
  rw [show (runOp (.label v) (resetLogs s)).2 = (getRootVolumeLabel v (resetLogs s)).2 from VolApi.map_state _ _ _]
  exact mountsN_keeps (AcctAll.keeps_label v) (s := resetLogs s) hM

end Sdmmc.Lemmas.VolN
