/-
C15 meets C03, part 1 — on a formatted medium (`Spec.Formatted.Formatted`) the crate's mounting (`mountPure`)
succeeds and returns exactly the record the specification's formulas give (`layoutOn`), with the count / hint of the
FSInfo sector (`mount_of_formatted`).
-/
import Sdmmc.Lemmas.C15
import Sdmmc.Lemmas.AcctInfo
import Sdmmc.Spec.Formatted

namespace Sdmmc.Lemmas.Mounted
open Sdmmc.Model Sdmmc.Model.Fat Sdmmc.Spec Sdmmc.Spec.FatLayout Sdmmc.Spec.Volume Sdmmc.Spec.Formatted

theorem fieldsOf_eq (bpb : Bytes) : Formatted.fieldsOf bpb = C15.fieldsOf bpb := rfl

/-- **The parser locates everything where the formulas put it**: for a boot sector with the signature and
well-formed fields, `parse_volume`'s first half returns exactly `layoutOf`. -/
theorem parseVolumeBpb_layout (bpb : Bytes) (lba nb : Nat) (hsig : readU16 bpb 510 = 0xAA55)
    (hwf : WFBpb (Formatted.fieldsOf bpb)) (hlba : lba + (Formatted.fieldsOf bpb).fsInfo ≤ 4294967295) :
    parseVolumeBpb bpb lba nb = .ok (layoutOf (Formatted.fieldsOf bpb) (labelOf (Formatted.fieldsOf bpb) bpb) lba nb) := by
  rw [fieldsOf_eq] at hwf hlba ⊢
  obtain ⟨hbps, hspc, _, _, _, _, hts16, _, hts32, _, _, _, hfds, hcc, h32⟩ := hwf
  have hspc0 : Bpb.blocksPerCluster bpb ≠ 0 := by
    show (C15.fieldsOf bpb).secPerClus ≠ 0
    intro h0; rw [h0] at hspc; simp at hspc
  have htot : totSec (C15.fieldsOf bpb) < 4294967296 := by
    unfold totSec; split <;> omega
  have hnd : C15.nonData bpb ≤ Bpb.totalBlocks bpb := by rw [C15.nonData_eq, C15.totalBlocks_eq]; exact hfds
  have hnd32 : C15.nonData bpb ≤ 4294967295 := by rw [C15.totalBlocks_eq] at hnd; omega
  have hcc' : 4085 ≤ (Bpb.totalBlocks bpb - C15.nonData bpb) / Bpb.blocksPerCluster bpb := by
    rw [C15.clusters_eq]; exact hcc
  have hcreate := C15.createFromBytes_of bpb hsig hnd32 hnd hspc0 hcc'
  rw [C15.clusters_eq] at hcreate
  by_cases hlt : countOfClusters (C15.fieldsOf bpb) < 65525
  · rw [if_pos hlt] at hcreate
    have hk : kind (C15.fieldsOf bpb) = .fat16 := by
      unfold kind; rw [if_neg (by omega), if_pos hlt]
    rw [C15.parseVolumeBpb_fat16 lba nb hcreate, if_neg (not_not_intro (show Bpb.bytesPerBlock bpb = 512 from hbps))]
    congr 1
    unfold layoutOf labelOf
    rw [hk]
    rfl
  · have hk : kind (C15.fieldsOf bpb) = .fat32 := by
      unfold kind; rw [if_neg (by omega), if_neg hlt]
    obtain ⟨hver, hroot⟩ := h32 hk
    rw [if_neg hlt, if_pos (show Bpb.fsVer bpb = 0 from hver)] at hcreate
    rw [C15.parseVolumeBpb_fat32 lba nb hcreate, if_neg (by show ¬ (lba + (C15.fieldsOf bpb).fsInfo > 4294967295); omega)]
    congr 1
    unfold layoutOf labelOf
    rw [hk]
    have hfd : Bpb.reservedBlockCount bpb + Bpb.numFats bpb * Bpb.fatSize bpb = firstDataSector (C15.fieldsOf bpb) := by
      show _ = (C15.fieldsOf bpb).rsvdSecCnt + (C15.fieldsOf bpb).numFATs * fatSz (C15.fieldsOf bpb) +
        ((C15.fieldsOf bpb).rootEntCnt * 32 + 511) / 512
      rw [hroot]; rfl
    unfold C15.vol32
    rw [hfd]
    rfl

/-- **Mounting a formatted medium** succeeds with a record that is the specification's layout up to the two
bookkeeping fields, and whose hint is unknown or at least 2. -/
theorem mount_of_formatted {d : Disk} {idx : Nat} {gh : Ghost} (hF : Formatted d idx gh) :
    ∃ v1, mountPure (d.get 0) idx d.get = .ok v1 ∧ SameGeom (layoutOn d idx) v1 ∧ HintOK v1 := by
  obtain ⟨_, _, hmbr3, hsup⟩ := C15.mbr_rules (d.get 0) idx
  have hpp := hmbr3 hF.mbrSig hF.idxLe hF.mbrLen hF.status
  have hs : supportedPartitionType (byteAt (d.get 0) (446 + 16 * idx + 4)) = true := (hsup _).2 hF.ptype
  have hbpb := parseVolumeBpb_layout (d.get (partStart (d.get 0) idx)) (partStart (d.get 0) idx) (partLen (d.get 0) idx)
    hF.bootSig hF.wf hF.infoAddr
  unfold mountPure
  rw [hpp]
  simp only [Res.bind_ok, hs, Bool.not_true, Bool.false_eq_true, if_false]
  have hbpb' : parseVolumeBpb (d.get (readU32 (d.get 0) (446 + 16 * idx + 8))) (readU32 (d.get 0) (446 + 16 * idx + 8))
      (readU32 (d.get 0) (446 + 16 * idx + 12)) = .ok (layoutOn d idx) := hbpb
  rw [hbpb']
  simp only [Res.bind_ok]
  by_cases hk : kind (Formatted.fieldsOf (d.get (partStart (d.get 0) idx))) = .fat32
  · have hft : (layoutOn d idx).fatType = .fat32 := by
      unfold layoutOn layoutOf; simp only [hk, if_true]
    have hloc : (layoutOn d idx).infoLocation =
        partStart (d.get 0) idx + (Formatted.fieldsOf (d.get (partStart (d.get 0) idx))).fsInfo := by
      unfold layoutOn layoutOf; simp only [hk, if_true]
    rw [hft]
    simp only
    obtain ⟨hs1, _⟩ := C15.info_sentinels (d.get (layoutOn d idx).infoLocation)
    rw [hloc] at hs1 ⊢
    have hparse := hs1 (hF.infoSigs hk)
    unfold parseVolumeInfo
    rw [hparse]
    simp only [Res.bind_ok, Res.pure_eq]
    refine ⟨_, rfl, ⟨_, _, rfl⟩, ?_⟩
    intro n hn
    simp only at hn
    split at hn
    · cases hn
    · rename_i hne
      have := Option.some.inj hn
      omega
  · have hft : (layoutOn d idx).fatType = .fat16 := by
      unfold layoutOn layoutOf; simp only [hk, if_false]
    rw [hft]
    simp only [Res.pure_eq]
    refine ⟨_, rfl, SameGeom.refl _, ?_⟩
    intro n hn
    have : (layoutOn d idx).nextFreeCluster = none := rfl
    rw [this] at hn; cases hn

end Sdmmc.Lemmas.Mounted
