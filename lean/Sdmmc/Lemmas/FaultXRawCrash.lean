/-
C11, arbitrary fault placement — `EntryNotAhead` AS AN INVARIANT, part 2: EVERY CRASH POINT of the engine functions
keeps `RawAllD` (the entries of the open files on the medium are not ahead of their records): allocation, truncation /
release of a chain (only FAT blocks and blocks of a free cluster change), the entry of a new object (written into a FREE
slot: no open file sits there), the mark of a deleted entry (not an open file's), `flush` (the info sector; the entry of
the flushed file then IS its record).
-/
import Sdmmc.Lemmas.FaultXRaw
import Sdmmc.Lemmas.FaultXMkdir

namespace Sdmmc.Lemmas.FaultX
open Sdmmc.Model Sdmmc.Model.Fat Sdmmc.Spec.Volume Sdmmc.Lemmas.VolBase Sdmmc.Lemmas.VolTree
open Sdmmc.Spec hiding NoFault Coherent
open Sdmmc.Lemmas.VolDisk Sdmmc.Lemmas.VolMed Sdmmc.Lemmas.VolWalk Sdmmc.Lemmas.VolEng Sdmmc.Lemmas.VolX
open Sdmmc.Lemmas.FBasic (NoFault Coherent)
open Sdmmc.Lemmas.CrashBase Sdmmc.Lemmas.CrashFat Sdmmc.Lemmas.VolCrash

section
variable {files : List FileInfo} {gh : Ghost} {X : List (List Nat)}

/-- **`alloc_cluster`**, every crash point. -/
theorem alloc_raw {s : FS} (hM : MedX s.vol s.dev.disk files gh X) (hR : RawAllD s.vol.fatType s.dev.disk files)
    (hn : NoFault s) (hc : Coherent s) (prev : Option Nat) (zero : Bool) (hp : ∀ p, prev = some p → p < endCluster s.vol) :
    CrashAll (fun d => RawAllD s.vol.fatType d files) s (allocCluster prev zero s).2 := by
  rcases CrashStep.alloc_cases s prev zero hn hc with ⟨c, s', h⟩ | ⟨s', h, ro⟩
  · rw [h]
    obtain ⟨hc2, hcE, hfree⟩ := FatOps.alloc_in_range_and_free s s' prev zero c hn hc hM.hint h
    have hcA : c ∉ (gh.G ++ X).flatten := fun hx => ((hM.owns.2.2 c).2 hx).2.1 hfree
    have hcG : c ∉ gh.G.flatten := fun hx => hcA (by rw [List.flatten_append]; exact List.mem_append_left _ hx)
    obtain ⟨hcr, hfin⟩ := CrashAlloc.alloc_crash s s' prev zero c hn hc hM.blocksOK hM.geom hM.hint hp h
    have hclean := dirClean_cluster hM ⟨hc2, hcE⟩ hcG (zero = true)
    refine hcr.mono fun d hd => ?_
    rcases hd.1 with hA | ⟨hB, _, _⟩ | ⟨hC, _⟩
    · exact rawAll_within hM hR hA hclean
    · exact rawAll_within hM hR hB hclean
    · refine rawAll_dirBlocks hM hR fun h hh sl hs => ?_
      have hnf : regionOf s.vol sl.1 ≠ .fat := by
        rcases dirSlot_not_fat hM hh hs with e | e <;> rw [e] <;> decide
      rw [hC.nonFat sl.1 hnf]
      exact hfin.nonFat sl.1 hnf (hclean h hh sl hs)
  · rw [h]
    exact CrashAll.of_ro ro hR

/-- **`free_cluster_chain`** of a chain, every crash point. -/
theorem free_raw {s : FS} (hM : MedX s.vol s.dev.disk files gh X) (hR : RawAllD s.vol.fatType s.dev.disk files)
    (hn : NoFault s) (hc : Coherent s) {r : Nat} {tail : List Nat} (hch : Chain s.vol s.dev.disk r (r :: tail)) :
    CrashAll (fun d => RawAllD s.vol.fatType d files) s (freeClusterChain r s).2 := by
  obtain ⟨s', hf, hcr⟩ := free_crash s r tail hn hc hM.blocksOK hM.geom hch
  rw [hf]
  refine hcr.mono fun d hd => ?_
  have hkey : ∀ {eofs freed : List Nat}, Stage s.vol s.dev.disk d eofs freed → RawAllD s.vol.fatType d files := by
    intro eofs freed hst
    refine rawAll_dirBlocks hM hR fun h hh sl hs => hst.within.nonFat _ ?_ id
    rcases dirSlot_not_fat hM hh hs with e | e <;> rw [e] <;> decide
  rcases hd.1 with (hv | ⟨j, _, hst⟩) | hst
  · exact rawAll_view hM hR hv
  · exact hkey hst
  · exact hkey hst

/-- The blocks of a cluster that lies in no chain of the tree. -/
theorem cluster_raw {v : FatVolume} {d0 d : Disk} (hM : MedX v d0 files gh X) (hR : RawAllD v.fatType d0 files) {c : Nat}
    (hcR : InRange v c) (hcG : c ∉ gh.G.flatten)
    (hd : ∀ i, (∀ j, j < v.blocksPerCluster → i ≠ clusterToBlock v c + j) → d.get i = d0.get i) : RawAllD v.fatType d files :=
  rawAll_dirBlocks hM hR fun h hh sl hs => hd _ fun j hj => dirSlot_not_cluster hM hh hs hcR hcG hj

/-- An entry is written into a FREE slot of a directory. -/
theorem newEntry_raw {v : FatVolume} {d : Disk} (hM : MedX v d files gh X) (hR : RawAllD v.fatType d files)
    {h : Nat} (hh : h ∈ dirIds gh.dirs) {slot : Slot}
    (hf : (dirSlots v d gh.G h).find? isFreeSlot = some slot) (bytes : Bytes) (hbl : bytes.length = 32) :
    RawAllD v.fatType (d.set slot.1 (splice (d.get slot.1) slot.2.1 bytes)) files := by
  obtain ⟨pre, post, hsp, _, _, hfree⟩ := free_split hM hh hf
  obtain ⟨_, _, hsp', hother⟩ := slot_write hM hh hsp bytes hbl
  have hold : slot ∈ dirSlots v d gh.G h := by rw [hsp]; simp
  have hnone := pendOf_free_none hM hh hold hfree slot rfl
  refine rawAll_edit hM hR hsp hsp' ⟨rfl, rfl⟩ hother fun f hf hb hof => ?_
  exact absurd (show fkey f = spos slot from Prod.ext hb hof) ((pendOf_none_iff files slot).1 hnone f hf)

/-- **`write_new_directory_entry`**, every crash point. -/
theorem writeNew_raw {fs : FS} (hM : MedX fs.vol fs.dev.disk files gh X) (hR : RawAllD fs.vol.fatType fs.dev.disk files)
    (hn : NoFault fs) (hc : Coherent fs) {dc : Nat} (hv : ValidDir gh.dirs dc) (name : Bytes) (hlen : name.length = 11)
    (att fc : Nat) (now : Timestamp) :
    CrashAll (fun d => RawAllD fs.vol.fatType d files) fs (writeNewDirectoryEntry dc name att fc now fs).2 := by
  obtain ⟨hh, hcase⟩ := dir_walk_facts hM hv
  have hwrote : ∀ slot fs', (dirSlots fs.vol fs.dev.disk gh.G (dirIdOf dc)).find? isFreeSlot = some slot →
      Wrote name att fc now slot fs fs' → CrashAll (fun d => RawAllD fs.vol.fatType d files) fs fs' := by
    intro slot fs' hfs hwr
    obtain ⟨hd', _, _, _, _, hw'⟩ := hwr
    refine FaultInv.crash_le_one (.inr ⟨_, _, hw', hd'⟩) hR ?_
    rw [hd']
    exact newEntry_raw hM hR hh hfs _ (FatOps.serialize_length _ _ hlen)
  rcases hcase with ⟨hdc, h16, hsl⟩ | ⟨hkind, hnf, cs, hchain, hstart, hch, hlen', hsl⟩
  · subst hdc
    have := VolCrash.writeNew_fixedRoot_w fs name att fc now hn hc h16
    rw [← hsl] at this
    cases hfs : (dirSlots fs.vol fs.dev.disk gh.G (dirIdOf 4294967292)).find? isFreeSlot with
    | none =>
      rw [hfs] at this
      obtain ⟨fs', hr, hd', _, _, _, hw'⟩ := this
      have hr' : writeNewDirectoryEntry 4294967292 name att fc now fs = _ := hr
      rw [hr']; exact CrashAll.same hw' hd' hR
    | some slot =>
      rw [hfs] at this
      obtain ⟨fs', hr, hwr⟩ := this
      have hr' : writeNewDirectoryEntry 4294967292 name att fc now fs = _ := hr
      rw [hr']; exact hwrote slot fs' hfs hwr
  · cases hfs : (dirSlots fs.vol fs.dev.disk gh.G (dirIdOf dc)).find? isFreeSlot with
    | some slot =>
      obtain ⟨fs', hr, hwr⟩ :=
        VolCrash.writeNew_chain_found_w fs dc cs name att fc now hn hc hkind hch (by omega) slot (by rw [← hsl]; exact hfs)
      rw [hr]; exact hwrote slot fs' hfs hwr
    | none =>
      obtain ⟨s1, hd1, hv1, hn1, hc1, hw1, heq⟩ :=
        writeNew_chain_full_eq fs dc cs name att fc now hn hc hkind hch (by omega) (by rw [← hsl]; exact hfs)
      have hM1 : MedX s1.vol s1.dev.disk files gh X := by rw [hd1, hv1]; exact hM
      have hR1 : RawAllD s1.vol.fatType s1.dev.disk files := by rw [hd1, hv1]; exact hR
      have hne : (Listing.startCluster fs.vol dc :: cs) ≠ [] := by simp
      obtain ⟨pre, hpre⟩ : ∃ pre, Listing.startCluster fs.vol dc :: cs =
          pre ++ [(Listing.startCluster fs.vol dc :: cs).getLast hne] :=
        ⟨_, (List.dropLast_append_getLast hne).symm⟩
      generalize hp : (Listing.startCluster fs.vol dc :: cs).getLast hne = p at hpre heq
      have c01 : CrashAll (fun d => RawAllD fs.vol.fatType d files) fs s1 := CrashAll.same hw1 hd1 hR
      have hcs1 : chainOf gh.G (dirHead s1.vol (dirIdOf dc)) = pre ++ [p] := by rw [hv1, hchain, hpre]
      have hpE : p < endCluster s1.vol := by
        obtain ⟨hm, _⟩ := dirChain_spec hM1 hh (by rw [hv1]; exact hnf)
        rw [hcs1] at hm
        exact (med_inRange hM1 hm (List.mem_append_right _ (List.mem_singleton.2 rfl))).2
      have c12 : CrashAll (fun d => RawAllD fs.vol.fatType d files) s1 (allocCluster (some p) true s1).2 := by
        have := alloc_raw hM1 hR1 hn1 hc1 (some p) true (fun q hq => by cases hq; exact hpE)
        rwa [hv1] at this
      rcases CrashStep.alloc_cases s1 (some p) true hn1 hc1 with ⟨c, s2, ha⟩ | ⟨s2, ha, ro2⟩
      · -- the directory grows: the entry goes into the new cluster, where no open file sits
        obtain ⟨hn2, hc2, hsg, G1, hM2, hch1, hsl1, hzero, hoth, hkeep, hcR, hcnot, hheads1, hchains1⟩ :=
          grow_med hM1 hn1 hc1 hh (by rw [hv1]; exact hnf) hcs1 ha
        obtain ⟨hc2', hcE, hfree⟩ := FatOps.alloc_in_range_and_free s1 s2 (some p) true c hn1 hc1 hM1.hint ha
        have hcA : c ∉ (gh.G ++ X).flatten := fun hx => ((hM1.owns.2.2 c).2 hx).2.1 hfree
        have hcG : c ∉ gh.G.flatten := fun hx => hcA (by rw [List.flatten_append]; exact List.mem_append_left _ hx)
        rw [ha] at c12
        simp only at c12
        have hR2 : RawAllD fs.vol.fatType s2.dev.disk files := c12.final
        rw [hv1] at hsg hzero
        have hbpc : s2.vol.blocksPerCluster = fs.vol.blocksPerCluster := WriteRefines.sameGeom_bpc hsg
        have hctb : clusterToBlock s2.vol c = clusterToBlock fs.vol c := WriteRefines.sameGeom_clusterToBlock hsg c
        have hpos : 0 < fs.vol.blocksPerCluster := hM.geom.bpc_pos
        have hfirst := find?_isFreeSlot_first s2.dev.disk (clusterToBlock fs.vol c) fs.vol.blocksPerCluster hpos (by
          have := hzero 0 hpos
          rw [Nat.add_zero] at this
          rw [this]; decide)
        rw [ha] at heq
        simp only at heq
        obtain ⟨k, hk⟩ : ∃ k, chainFuel fs.vol - cs.length = k + 1 :=
          ⟨chainFuel fs.vol - cs.length - 1, by unfold chainFuel; omega⟩
        rw [hk] at heq
        obtain ⟨fs', hrun', hwr⟩ := writeNewWalk_here name att fc now k
          ⟨c, clusterToBlock s2.vol c, fs.vol.blocksPerCluster, false⟩ s2 hn2 hc2 _ (by rw [hctb]; exact hfirst)
        rw [hrun'] at heq
        obtain ⟨hd', _, _, _, _, hw'⟩ := hwr
        rw [heq]
        refine (c01.trans c12).trans (FaultInv.crash_le_one (.inr ⟨_, _, hw', hd'⟩) hR2 ?_)
        -- the block written lies in the new cluster
        have hin := VolWalk.mem_runSlots (List.mem_of_find?_eq_some hfirst)
        have hM1' : MedX fs.vol s1.dev.disk files gh X := by rw [← hv1]; exact hM1
        have hcR' : InRange fs.vol c := by rw [← hv1]; exact ⟨hc2', hcE⟩
        have hR2' : RawAllD fs.vol.fatType s1.dev.disk files := by rw [← hv1]; exact hR1
        rw [hd']
        refine rawAll_blocks hR2 fun f hf => ?_
        obtain ⟨x, hx, o, ho, h1, _⟩ := file_dirSlot hM1' hf
        apply FBasic.Disk.get_set_ne
        intro e
        rw [← h1] at e
        exact dirSlot_not_cluster hM1' hx ho hcR' hcG (j := o.1 - clusterToBlock fs.vol c) (by omega) (by omega)
      · rw [ha] at heq c12
        simp only at heq c12
        rw [heq]
        exact c01.trans c12

/-- The mark of a deleted entry (no open file sits at it). -/
theorem mark_raw {v : FatVolume} {d : Disk} (hM : MedX v d files gh X) (hR : RawAllD v.fatType d files)
    {h : Nat} (hh : h ∈ dirIds gh.dirs) {o : Slot} (ho : o ∈ objects h (dirSlots v d gh.G h))
    (hfree : pendOf files o = none) :
    RawAllD v.fatType (d.set o.1 ((d.get o.1).set o.2.1 (UInt8.ofNat 0xE5))) files := by
  obtain ⟨pre, post, hsp, _, _, _, _⟩ := object_split hM hh ho
  obtain ⟨_, _, hsl1, hoth1⟩ := slot_mark hM hh hsp (UInt8.ofNat 0xE5)
  refine rawAll_edit hM hR hsp hsl1 ⟨rfl, rfl⟩ hoth1 fun f hf hb hof => ?_
  exact absurd (show fkey f = spos o from Prod.ext hb hof) ((pendOf_none_iff files o).1 hfree f hf)

/-- **The body of `delete_file_in_dir`**, every crash point. -/
theorem deleteBody_raw {fs : FS} (hM : MedX fs.vol fs.dev.disk files gh X) (hR : RawAllD fs.vol.fatType fs.dev.disk files)
    (hn : NoFault fs) (hc : Coherent fs)
    {dc : Nat} (hv : ValidDir gh.dirs dc) (name : Bytes) (hname : name.head? ≠ some 0xE5) {o : Slot}
    (ho : o ∈ objects (dirIdOf dc) (dirSlots fs.vol fs.dev.disk gh.G (dirIdOf dc)))
    (hod : isDirE o = false) (hsn : sName o = name) (hfree : pendOf files o = none) :
    CrashAll (fun d => RawAllD fs.vol.fatType d files) fs
      ((do Fat.deleteDirectoryEntry dc name; Fat.freeClusterChain (sCluster fs.vol.fatType o) : F Unit) fs).2 := by
  obtain ⟨hh, _⟩ := validDir_id hM hv
  obtain ⟨fs1, hrun1, hd1, hv1, hn1, hc1⟩ := delete_mark hM hn hc hv name hname (mem_entries_of_objects ho) hsn
  obtain ⟨b, off, hm, _⟩ := CrashDelete.deleteDirectoryEntry_ok dc name fs fs1 hn hc hM.geom hrun1
  have hR1 : RawAllD fs.vol.fatType fs1.dev.disk files := by rw [hd1]; exact mark_raw hM hR hh ho hfree
  have h1 : CrashAll (fun d => RawAllD fs.vol.fatType d files) fs fs1 :=
    FaultInv.crash_le_one (.inr ⟨_, _, hm.wlog, hm.disk⟩) hR hR1
  rcases VolX.mark_med hM hh ho hod hfree with ⟨hc0, hM1⟩ | ⟨A, B, tail, hGeq, hM1⟩
  · have hrun2 : freeClusterChain (sCluster fs.vol.fatType o) fs1 = (.ok (), fs1) := by
      rw [hc0]; rfl
    have hrun : (do Fat.deleteDirectoryEntry dc name; Fat.freeClusterChain (sCluster fs.vol.fatType o) : F Unit) fs = (.ok (), fs1) := by
      rw [FBasic.bind_ok hrun1, hrun2]
    rw [hrun]; exact h1
  · have hM1' : MedX fs1.vol fs1.dev.disk files { vol := gh.vol, G := A ++ B, dirs := gh.dirs }
        ((sCluster fs1.vol.fatType o :: tail) :: X) := by
      rw [hd1, hv1]; exact hM1
    have hch : Chain fs1.vol fs1.dev.disk (sCluster fs1.vol.fatType o) (sCluster fs1.vol.fatType o :: tail) := by
      have := hM1'.owns.1 (sCluster fs1.vol.fatType o :: tail) (List.mem_append_right _ List.mem_cons_self)
      simpa using this
    have h2 := free_raw hM1' (by rw [hv1]; exact hR1) hn1 hc1 hch
    rw [hv1] at h2
    have hrun : (do Fat.deleteDirectoryEntry dc name; Fat.freeClusterChain (sCluster fs.vol.fatType o) : F Unit) fs =
        freeClusterChain (sCluster fs.vol.fatType o) fs1 := by
      rw [FBasic.bind_ok hrun1]
    rw [hrun]
    exact h1.trans h2

/-- The blocks of the new cluster of `make_dir`, every crash point. -/
theorem mid_raw {fs1 : FS} {c : Nat} (hM1 : MedX fs1.vol fs1.dev.disk files gh X) (hR1 : RawAllD fs1.vol.fatType fs1.dev.disk files)
    (hn1 : NoFault fs1) (hcR : InRange fs1.vol c) (hcG : c ∉ gh.G.flatten) (parent att : Nat) (now : Timestamp) :
    CrashAll (fun d => RawAllD fs1.vol.fatType d files) fs1 (FaultInv.mdMid fs1.vol c parent att now fs1).2 := by
  obtain ⟨fs4, hrun, _, _, _, _, hcr⟩ := FaultInv.mdMid_clean fs1 c parent att now hn1
  have hpos : 0 < fs1.vol.blocksPerCluster := hM1.geom.bpc_pos
  rw [hrun]
  refine hcr.mono fun d hd => cluster_raw hM1 hR1 hcR hcG fun i hi => hd i ?_
  rintro ⟨h1, h2⟩
  exact hi (i - clusterToBlock fs1.vol c) (by omega) (by omega)

/-- The entry of an open file is written: it then IS the record; the other entries keep their bytes. -/
theorem entry_raw {fs : FS} (hM : MedX fs.vol fs.dev.disk files gh X) (hR : RawAllD fs.vol.fatType fs.dev.disk files)
    (hn : NoFault fs) (hc : Coherent fs) {f : FileInfo} (hf : f ∈ files) :
    ∃ fs', writeEntryToDisk f.entry fs = (.ok (), fs') ∧ RawAllD fs.vol.fatType fs'.dev.disk files := by
  obtain ⟨fs', hrun, hd', _, _, _⟩ := writeEntryToDisk_exact fs f.entry hn hc
  refine ⟨fs', hrun, ?_⟩
  rw [hd']
  obtain ⟨h, hh, A, o, B, hO, hpo, _, hnm, _, hp⟩ := file_object hM.tree hf
  have ho : o ∈ objects h (dirSlots fs.vol fs.dev.disk gh.G h) := by rw [hO]; simp
  obtain ⟨pre, post, hsp, _, _, _, _⟩ := object_split hM hh ho
  have hmem : o ∈ dirSlots fs.vol fs.dev.disk gh.G h := by rw [hsp]; simp
  have hol := mem_dirSlots_length hM.blocksOK hmem
  have hname : f.entry.name.length = 11 := by
    rw [← hnm]; unfold sName; rw [List.length_take, hol]; rfl
  obtain ⟨hp1, hp2⟩ := Prod.mk.inj hpo
  obtain ⟨hcb, hsb⟩ := file_record_facts hM hf
  have hbl : (DirEntry.serialize fs.vol.fatType f.entry).length = 32 := VolDisk.serialize_length _ _ hname
  obtain ⟨_, _, hsl', hoth'⟩ := slot_write hM hh hsp (DirEntry.serialize fs.vol.fatType f.entry) hbl
  have hp1' : o.1 = f.entry.entryBlock := hp1
  have hp2' : o.2.1 = f.entry.entryOffset := hp2
  rw [← hp1', ← hp2']
  refine rawAll_edit hM hR hsp hsl' ⟨rfl, rfl⟩ hoth' fun g hg hb hof => ?_
  have hgf : g = f := by
    have h1 : pendOf files o = some g := (pendOf_some_iff hM.tree.filesDistinct o g).2 ⟨hg, Prod.ext hb hof⟩
    rw [hp] at h1
    exact (Option.some.inj h1).symm
  subst hgf
  exact .inr ⟨serialize_sCluster _ _ _ _ hname hcb, Nat.le_of_eq (serialize_sSize _ _ _ _ hname hsb)⟩

/-- **`flush`** of an open file (info sector, then the entry), every crash point. -/
theorem flushF_raw {fs : FS} (hM : MedX fs.vol fs.dev.disk files gh X) (hR : RawAllD fs.vol.fatType fs.dev.disk files)
    (hn : NoFault fs) (hc : Coherent fs) {f : FileInfo} (hf : f ∈ files) (ho : f.entry.entryOffset + 32 ≤ 512)
    (hname : f.entry.name.length = 11) :
    CrashAll (fun d => RawAllD fs.vol.fatType d files) fs (DirEntryIO.flushF f.entry fs).2 := by
  obtain ⟨fs1, hr1, hn1, hc1, hv1, hM1⟩ := updateInfo_med hM hn hc
  have hstep1 : ((fs1.dev.wlog = fs.dev.wlog ∧ fs1.dev.disk = fs.dev.disk) ∨
      ∃ b p, fs1.dev.wlog = (b, p) :: fs.dev.wlog ∧ fs1.dev.disk = fs.dev.disk.set b p) ∧
      ∀ i, (regionOf fs.vol i = .root ∨ regionOf fs.vol i = .data) → fs1.dev.disk.get i = fs.dev.disk.get i := by
    by_cases hidle : fs.vol.fatType = .fat16 ∨ (fs.vol.freeClustersCount = none ∧ fs.vol.nextFreeCluster = none)
    · have := FatOps.updateInfoSector_idle fs hidle
      rw [hr1] at this
      have e1 : fs1 = fs := congrArg Prod.snd this
      rw [e1]; exact ⟨.inl ⟨rfl, rfl⟩, fun _ _ => rfl⟩
    · have hft : fs.vol.fatType = .fat32 := by
        cases hf' : fs.vol.fatType with
        | fat16 => exact absurd (.inl hf') hidle
        | fat32 => rfl
      obtain ⟨s1, h1', _, _, _, hd1, hw1⟩ := DirEntryIO.updateInfoSector_state32 fs hn hc hft (fun h' => hidle (.inr h'))
      rw [hr1] at h1'
      have e1 : fs1 = s1 := congrArg Prod.snd h1'
      rw [e1]
      refine ⟨.inr ⟨_, _, hw1, hd1⟩, fun i hreg => ?_⟩
      rw [hd1]
      apply FBasic.Disk.get_set_ne
      intro e
      have hgf := FatLens.geom_facts fs.vol hM.geom
      have := FatLens.info_block_in_info_region fs.vol hM.geom hft (by
        have := FatLens.fatsEnd_ge fs.vol hM.geom
        omega)
      rw [e] at this
      rcases hreg with hi | hi <;> rw [hi] at this <;> cases this
  have hR1 : RawAllD fs.vol.fatType fs1.dev.disk files :=
    rawAll_dirBlocks hM hR fun h hh sl hs => hstep1.2 _ ((dirSlot_not_fat hM hh hs).symm)
  have hR1' : RawAllD fs1.vol.fatType fs1.dev.disk files := by rw [hv1]; exact hR1
  obtain ⟨fs2, hr2, hR2⟩ := entry_raw hM1 hR1' hn1 hc1 hf
  obtain ⟨fs2', hr2', _, _, _, _, ⟨p, hw2, hd2⟩, _⟩ := DirEntryIO.writeEntry_frame fs1 f.entry hn1 hc1 hM1.blocksOK ho hname
  have e2 : fs2' = fs2 := by rw [hr2] at hr2'; exact (congrArg Prod.snd hr2').symm
  subst e2
  have hrun : DirEntryIO.flushF f.entry fs = (.ok (), fs2') := by
    unfold DirEntryIO.flushF
    rw [FBasic.bind_ok hr1, hr2]
  rw [hrun]
  rw [hv1] at hR2
  exact (FaultInv.crash_le_one hstep1.1 hR hR1).trans (FaultInv.crash_le_one (.inr ⟨_, _, hw2, hd2⟩) hR1 hR2)

/-- **`update_info_sector`**, every crash point (the info sector holds no directory slot). -/
theorem updateInfo_raw {fs : FS} (hM : MedX fs.vol fs.dev.disk files gh X) (hR : RawAllD fs.vol.fatType fs.dev.disk files)
    (hn : NoFault fs) (hc : Coherent fs) :
    CrashAll (fun d => RawAllD fs.vol.fatType d files) fs (updateInfoSector fs).2 := by
  obtain ⟨fs1, hr1, hn1, hc1, hv1, hM1⟩ := updateInfo_med hM hn hc
  rw [hr1]
  by_cases hidle : fs.vol.fatType = .fat16 ∨ (fs.vol.freeClustersCount = none ∧ fs.vol.nextFreeCluster = none)
  · have := FatOps.updateInfoSector_idle fs hidle
    rw [hr1] at this
    have e1 : fs1 = fs := congrArg Prod.snd this
    rw [e1]; exact CrashAll.same rfl rfl hR
  · have hft : fs.vol.fatType = .fat32 := by
      cases hf' : fs.vol.fatType with
      | fat16 => exact absurd (.inl hf') hidle
      | fat32 => rfl
    obtain ⟨s1, h1', _, _, _, hd1, hw1⟩ := DirEntryIO.updateInfoSector_state32 fs hn hc hft (fun h' => hidle (.inr h'))
    rw [hr1] at h1'
    have e1 : fs1 = s1 := congrArg Prod.snd h1'
    rw [e1]
    refine FaultInv.crash_le_one (.inr ⟨_, _, hw1, hd1⟩) hR ?_
    refine rawAll_dirBlocks hM hR fun h hh sl hs => ?_
    rw [hd1]
    apply FBasic.Disk.get_set_ne
    intro e
    have hgf := FatLens.geom_facts fs.vol hM.geom
    have := FatLens.info_block_in_info_region fs.vol hM.geom hft (by
      have := FatLens.fatsEnd_ge fs.vol hM.geom
      omega)
    rw [e] at this
    rcases dirSlot_not_fat hM hh hs with hi | hi <;> rw [hi] at this <;> cases this

end

end Sdmmc.Lemmas.FaultX
