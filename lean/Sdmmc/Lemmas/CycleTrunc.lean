/-
C05, giving clusters back — `open_file_in_dir(dir, name, ReadWriteTruncate)` on a state satisfying the
volume invariant (`truncate_reclaims`): the call answers the new handle, the invariant holds again, and
exactly the clusters of the file's chain BEHIND THE FIRST ONE were given back (`Gave`).
-/
import Sdmmc.Lemmas.CycleDelete

namespace Sdmmc.Lemmas.Cycle
open Sdmmc.Model Sdmmc.Model.Fat Sdmmc.Spec.Volume Sdmmc.Lemmas.VolBase Sdmmc.Lemmas.VolTree
open Sdmmc.Spec hiding NoFault Coherent
open Sdmmc.Lemmas.VolDisk Sdmmc.Lemmas.VolMed Sdmmc.Lemmas.VolEng Sdmmc.Lemmas.VolApi Sdmmc.Lemmas.VolWalk
open Sdmmc.Lemmas.FBasic (NoFault Coherent)
open Sdmmc.Lemmas.MHoare
open Sdmmc.Lemmas.AcctAll (Gave)

/-- Writing a block outside the FAT region keeps both FAT copies. -/
theorem set_nonfat_fat_eq {v : FatVolume} (hg : WFGeom v) (d : Disk) {b : Nat} (hreg : regionOf v b ≠ .fat) (blk : Block) :
    ∀ x, IsFatBlock v x → (d.set b blk).get x = d.get x := by
  intro x hx
  apply FBasic.Disk.get_set_ne
  intro e
  obtain ⟨c, hc, hcase⟩ := hx
  have hregx : regionOf v x = .fat := by
    rcases hcase with e1 | e2
    · rw [e1]; exact (FatLens.fat_blocks_in_fat_region v hg c hc).1
    · exact (FatLens.fat_blocks_in_fat_region v hg c hc).2 x e2
  rw [← e] at hregx
  exact hreg hregx

/-- The truncating branch of `open_file_in_dir` (`Modes.truncRun`), from the state in which the handle id has
been drawn, with its accounting: it answers the id; the volume table holds one record; the clusters of the
file's chain behind the first one were given back. -/
theorem truncRun_gave {sn : Mgr} {gh : Ghost} (hI : VolInv sn gh) {vi : VolInfo} (hvs : sn.vols = [vi]) (hvol : vi.vol = gh.vol)
    {d : DirInfo} (hdv : ValidDir gh.dirs d.cluster) (hraw : vi.rawVolume = d.rawVolume) {sfn : Bytes} {e : DirEntry} {o : Slot}
    (hF : Found sn gh d sfn e o) (hdir : Attr.isDirectory e.attributes = false) (hopen : fileIsOpen sn d.rawVolume e = false)
    (id : Nat) (now : Timestamp) :
    ∃ s' vi', Modes.truncRun d 0 e id now sn = (.ok id, s') ∧ s'.vols = [vi'] ∧
      Gave gh.vol vi'.vol sn.dev.disk s'.dev.disk ((chainOf gh.G (sCluster gh.vol.fatType o)).length - 1) := by
  obtain ⟨hnm, hea, hsz, heb, heo, hnd⟩ := hF.fields
  obtain ⟨_, hcl⟩ := hnd hdir
  have hid : dirIdOf d.cluster ∈ dirIds gh.dirs := (validDir_id (medX_of_med hI.med) hdv).1
  obtain ⟨ho_n, hod_n, hfree_n⟩ := hF.object hI hvs hdv hraw hdir hopen
  obtain ⟨hn, hc, hM⟩ := volInv_fs hI
  obtain ⟨fs1, fs2, hr1, hr2, hn2, hc2, hsg, gh2, hgv, hgd, hM2, _⟩ :=
    truncate_med hM hn hc hid ho_n hod_n hfree_n (Modes.truncatedFile d id e now).entry
      heb heo hnm hea hcl rfl
  have hw1 := withVol_one (Fat.truncateClusterChain e.cluster) hvs hvol
  have hr1' : Fat.truncateClusterChain e.cluster (fsOf sn gh) = (.ok (), fs1) := hr1
  rw [hr1'] at hw1
  have hvs1' : (afterVol sn vi fs1).vols = [{ vi with vol := fs1.vol }] := rfl
  have hw2 := withVol_one (gh := { gh with vol := fs1.vol })
    (Fat.writeEntryToDisk (Modes.truncatedFile d id e now).entry) hvs1' rfl
  have hfs1 : fsOf (afterVol sn vi fs1) { gh with vol := fs1.vol } = fs1 := rfl
  rw [hfs1, hr2] at hw2
  unfold Modes.truncRun
  have hinner : ((do
      withVol 0 (Fat.truncateClusterChain e.cluster)
      withVol 0 (Fat.writeEntryToDisk (Modes.truncatedFile d id e now).entry)
      pure (Modes.truncatedFile d id e now) : M FileInfo)) sn =
      (.ok (Modes.truncatedFile d id e now),
        afterVol (afterVol sn vi fs1) { vi with vol := fs1.vol } fs2) := by
    rw [bind_ok hw1, bind_ok hw2]; rfl
  rw [bind_ok hinner, modify_bind]
  refine ⟨_, { vi with vol := fs2.vol }, rfl, rfl, ?_⟩
  show Gave gh.vol fs2.vol sn.dev.disk fs2.dev.disk _
  -- the accounting of the two engine calls
  have hd_n : (fsOf sn gh).dev.disk = sn.dev.disk := rfl
  have hg1 : Gave gh.vol fs1.vol sn.dev.disk fs1.dev.disk ((chainOf gh.G (sCluster gh.vol.fatType o)).length - 1) ∧
      SameGeom gh.vol fs1.vol ∧ NoFault fs1 ∧ Coherent fs1 := by
    rcases closed_object_chain hM hid ho_n hod_n hfree_n with ⟨hc0, _, hnil⟩ | ⟨hcne, _, hch, _⟩
    · have hc0' : sCluster gh.vol.fatType o = 0 := hc0
      have hnil' : chainOf gh.G (sCluster gh.vol.fatType o) = [] := hnil
      have : Fat.truncateClusterChain e.cluster (fsOf sn gh) = (.ok (), fsOf sn gh) := by
        rw [hcl, hc0']; rfl
      rw [this] at hr1'
      have hfs : fs1 = fsOf sn gh := (Prod.mk.inj hr1').2.symm
      rw [hfs, hnil']
      refine ⟨?_, SameGeom.refl _, hn, hc⟩
      show Gave gh.vol gh.vol sn.dev.disk (fsOf sn gh).dev.disk _
      rw [hd_n]
      exact AcctAll.Gave.refl _ _
    · have hch' : Chain gh.vol (fsOf sn gh).dev.disk (sCluster gh.vol.fatType o) (chainOf gh.G (sCluster gh.vol.fatType o)) := hch
      obtain ⟨tail, htl⟩ : ∃ tail, chainOf gh.G (sCluster gh.vol.fatType o) = sCluster gh.vol.fatType o :: tail := by
        have hh := ChainL.chain_head? hch'
        cases hcs : chainOf gh.G (sCluster gh.vol.fatType o) with
        | nil => rw [hcs] at hh; cases hh
        | cons a l =>
          rw [hcs] at hh
          simp only [List.head?_cons, Option.some.injEq] at hh
          exact ⟨l, by rw [hh]⟩
      rw [htl] at hch' ⊢
      obtain ⟨fs1', hrun1', hgave1, _, hsg1, hn1, hc1⟩ := AcctAll.truncate_gave (fsOf sn gh) _ tail hn hc hM.blocksOK hM.geom hch'
        (fun y hy => (ForestBase.chain_mem_used hch' y hy).2.1)
      rw [hcl] at hr1'
      have hfs : fs1' = fs1 := by
        have := hrun1'.symm.trans hr1'
        exact (Prod.mk.inj this).2
      subst hfs
      refine ⟨?_, hsg1, hn1, hc1⟩
      have hg' : Gave gh.vol fs1'.vol (fsOf sn gh).dev.disk fs1'.dev.disk tail.length := hgave1
      rw [hd_n] at hg'
      simpa using hg'
  obtain ⟨hgave1, hsg1, hn1, hc1⟩ := hg1
  obtain ⟨fs2', hrun2', hd2, hv2, _, _⟩ := VolEng.writeEntryToDisk_exact fs1
    (Modes.truncatedFile d id e now).entry hn1 hc1
  have hfs2 : fs2' = fs2 := by
    have := hrun2'.symm.trans hr2
    exact (Prod.mk.inj this).2
  subst hfs2
  have hreg : regionOf fs1.vol (Modes.truncatedFile d id e now).entry.entryBlock ≠ .fat := by
    show regionOf fs1.vol e.entryBlock ≠ .fat
    have hrg : regionOf fs1.vol e.entryBlock = regionOf gh.vol e.entryBlock := by
      obtain ⟨cnt, hint, hv⟩ := hsg1
      rw [hv]; rfl
    rw [hrg, heb]
    have hom : o ∈ dirSlots gh.vol sn.dev.disk gh.G (dirIdOf d.cluster) := mem_of_mem_objects ho_n
    have hrg2 : regionOf gh.vol o.1 = .data ∨ regionOf gh.vol o.1 = .root := dirSlot_not_fat hM hid hom
    rcases hrg2 with h2 | h2 <;> rw [h2] <;> intro e' <;> cases e'
  have hgave2 : Gave fs1.vol fs2'.vol fs1.dev.disk fs2'.dev.disk 0 := by
    rw [hv2, hd2]
    exact AcctAll.gave_of_fat_eq (set_nonfat_fat_eq (hsg1.wfGeom hI.med.geom) _ hreg _)
  have := AcctAll.Gave.trans hsg1 hgave1 hgave2
  rw [Nat.add_zero] at this
  exact this

/-- **Truncation through the API.**  `s` satisfies the volume invariant; the directory handle resolves, its
volume is open, the file table has room; `o` is a plain-file object of the directory named `sfn`, not
read-only, that no open file sits at.  Then `open_file_in_dir(.., ReadWriteTruncate)` answers the handle
`s.nextId`; the invariant holds again (same geometry); and the clusters of the file's chain behind its first
one — `(chain length) - 1` of them, none if the file had no cluster — were given back: the number of free
clusters and the in-memory count grew by exactly that. -/
theorem truncate_reclaims {s : Mgr} {gh : Ghost} (hI : VolInv s gh) (directory di : Nat) (name : List Nat) (d : DirInfo)
    (sfn : Bytes) (hroom : s.files.length < s.maxFiles)
    (hdi : s.dirs.findIdx? (·.rawDirectory = directory) = some di) (hd : s.dirs[di]? = some d)
    (hvo : ∃ volIdx, s.vols.findIdx? (·.rawVolume = d.rawVolume) = some volIdx)
    (hsfn : Sfn.createFromStr name = .ok sfn) (hne5 : sfn.head? ≠ some 0xE5) {o : Slot}
    (ho : o ∈ objects (dirIdOf d.cluster) (dirSlots gh.vol s.dev.disk gh.G (dirIdOf d.cluster)))
    (hod : isDirE o = false) (hsn : sName o = sfn) (hfree : pendOf s.files o = none)
    (hro : Attr.isReadOnly (sAttr o) = false) :
    ∃ s' gh', openFileInDir directory name .ReadWriteTruncate s = (.ok s.nextId, s') ∧
      VolInv s' gh' ∧ SameGeom gh.vol gh'.vol ∧
      Gave gh.vol gh'.vol s.dev.disk s'.dev.disk ((chainOf gh.G (sCluster gh.vol.fatType o)).length - 1) := by
  -- the invariant afterwards: the existing API theorem
  obtain ⟨gh', hI', hsg'⟩ := openFile_api hI directory name .ReadWriteTruncate (fun sfn' h' => by
    rw [hsfn] at h'; cases h'; exact hne5)
  obtain ⟨volIdx, hv⟩ := hvo
  obtain ⟨h0, vi, hvs, hvol, hraw⟩ := vol_of_handle hI hv
  subst h0
  have hdm : d ∈ s.dirs := List.mem_of_getElem? hd
  have hdv := hI.openDirs d hdm
  have hM0 := medX_of_med hI.med
  obtain ⟨hid, _⟩ := validDir_id hM0 hdv
  have hoe : o ∈ entries (dirSlots gh.vol s.dev.disk gh.G (dirIdOf d.cluster)) := mem_entries_of_objects ho
  -- the run
  have hrunEq : ∃ s' vi', openFileInDir directory name .ReadWriteTruncate s = (.ok s.nextId, s') ∧ s'.vols = [vi'] ∧
      Gave gh.vol vi'.vol s.dev.disk s'.dev.disk ((chainOf gh.G (sCluster gh.vol.fatType o)).length - 1) := by
    rw [Modes.openFileInDir_eq]
    unfold Modes.openFileInDirAlt
    rw [get_bind, if_neg (by omega), bind_ok (getDirById_ok hdi), bind_ok (getDir_ok hd), bind_ok (getVolumeById_ok hv),
      bind_ok (Modes.toSfn_ok hsfn s), attempt_bind]
    obtain ⟨r0, fs', hlk, hdisk, hvol', h1, hcase⟩ := lookup_found hI hvs hvol hdv sfn hne5
    rw [hlk]
    show ∃ s' vi', Modes.openFileTail d 0 sfn .ReadWriteTruncate r0 (afterVol s vi fs') = (.ok s.nextId, s') ∧ _
    rcases hcase with ⟨_, hfresh⟩ | ⟨e, o', hr, hF⟩
    · exact absurd (List.mem_map.2 ⟨o, hoe, hsn⟩) hfresh
    subst hr
    have hoo : o = o' := by
      have hm := hF.mem
      rw [hdisk] at hm
      exact (List.inj_on_of_nodup_map (hI.med.tree.names _ hid) hm hoe (hF.name.trans hsn.symm)).symm
    subst hoo
    obtain ⟨hnm, hea, hsz, heb, heo, hnd⟩ := hF.fields
    have hdir : Attr.isDirectory e.attributes = false := by rw [hea]; exact hod
    obtain ⟨_, hcl⟩ := hnd hdir
    have hfiles1 : (afterVol s vi fs').files = s.files := rfl
    have hopen : fileIsOpen (afterVol s vi fs') d.rawVolume e = false := by
      cases hfo : fileIsOpen (afterVol s vi fs') d.rawVolume e with
      | false => rfl
      | true =>
        exfalso
        unfold fileIsOpen at hfo
        rw [List.any_eq_true] at hfo
        obtain ⟨g, hg, hgp⟩ := hfo
        simp only [decide_eq_true_eq] at hgp
        rw [hfiles1] at hg
        exact (pendOf_none_iff _ _).1 hfree g hg (Prod.ext (hgp.2.1.trans heb) (hgp.2.2.trans heo))
    rw [Modes.tail_truncate_eq d 0 sfn _ .ReadWriteTruncate (.inl rfl) e hopen (by rw [hea]; exact hro) hdir]
    -- the state in which the handle has been drawn
    have hvs1 : (afterVol s vi fs').vols = [{ vi with vol := fs'.vol }] := rfl
    have hraw1 : ({ vi with vol := fs'.vol } : VolInfo).rawVolume = d.rawVolume := hraw
    have h1' : VolInv { afterVol s vi fs' with nextId := ((afterVol s vi fs').nextId + 1) % 4294967296 } gh :=
      volInv_ro h1 rfl h1.noFault h1.coherent rfl rfl rfl rfl h1.openDirs
    generalize hsn1 : ({ afterVol s vi fs' with nextId := ((afterVol s vi fs').nextId + 1) % 4294967296 } : Mgr) = sn at h1'
    have hvsn : sn.vols = [{ vi with vol := fs'.vol }] := by rw [← hsn1]; rfl
    have hdisk_n : sn.dev.disk = s.dev.disk := by rw [← hsn1]; exact hdisk
    have hfiles_n : sn.files = s.files := by rw [← hsn1]; rfl
    have hF' : Found sn gh d sfn e o := ⟨by rw [hdisk_n]; exact hoe, hsn, hF.dec⟩
    have hopen_n : fileIsOpen sn d.rawVolume e = false := by
      rw [← hsn1]; exact hopen
    obtain ⟨s', vi', hrun', hvs', hgave'⟩ := truncRun_gave h1' hvsn hvol' hdv hraw1 hF' hdir hopen_n
      (afterVol s vi fs').nextId (afterVol s vi fs').clock
    rw [hdisk_n] at hgave'
    exact ⟨s', vi', hrun', hvs', hgave'⟩
  obtain ⟨s', vi', hrun, hvs', hgave⟩ := hrunEq
  have hI'' : VolInv s' gh' := by rw [hrun] at hI'; exact hI'
  refine ⟨s', gh', hrun, hI'', hsg', ?_⟩
  rcases hI''.vols with h0 | ⟨vi'', hv'', hvol''⟩
  · rw [hvs'] at h0; cases h0
  · rw [hvs'] at hv''
    cases hv''
    rw [← hvol'']
    exact hgave

end Sdmmc.Lemmas.Cycle
