/-
Bridge `VolInv` → `Spec.Fs.fsck`, layer F4 (part 1): `checkDir` taken apart — the per-directory checks
(`dirPre`: claim of the directory's chain, D2, D3, D4) and the step of the fold over the objects (`objStep`) —,
and what `claim` does to the accumulator.
-/
import Sdmmc.Lemmas.VolFsck3

namespace Sdmmc.Lemmas.VolFsck
open Sdmmc.Model Sdmmc.Model.Fat Sdmmc.Spec Sdmmc.Spec.Volume
open Sdmmc.Lemmas.VolTree Sdmmc.Lemmas.VolMed Sdmmc.Lemmas.VolBase
open Sdmmc.Spec.Fs (Acc DirRef Pending Geom)

/-! ### `checkDir` taken apart -/

/-- The per-directory part of `checkDir`: claim the directory's chain, D2, D3, D4. -/
def dirPre (g : Geom) (ref : DirRef) (self parent : Nat) (path : String) (ss : List Fs.Slot) (cs : List Nat) (a : Acc) : Acc :=
  let a := Fs.claim { a with dirsVisited := a.dirsVisited + 1 } cs path
  let after := (ss.dropWhile fun s => Fs.firstByte s ≠ 0)
  let a := if after.all fun s => Fs.firstByte s = 0 then a else a.problem s!"D2-entry-after-end-marker:{path}"
  let objs := Fs.objects ss
  let names := objs.map Fs.nameOf
  let a := if names.eraseDups.length = names.length then a else a.problem s!"D3-duplicate-name:{path}"
  match ref with
    | .fixedRoot => a
    | .at _ =>
      if path = "/" then a else
      match Fs.liveSlots ss with
      | s1 :: s2 :: _ =>
        let a := if Fs.nameOf s1 = Fs.dotName ∧ Fs.isDirSlot s1 ∧ Fs.clusterOf g s1 = self then a else a.problem s!"D4-bad-dot:{path}"
        if Fs.nameOf s2 = Fs.dotDotName ∧ Fs.isDirSlot s2 ∧ Fs.clusterOf g s2 = parent then a else a.problem s!"D4-bad-dotdot:{path}"
      | _ => a.problem s!"D4-missing-dot-entries:{path}"

/-- The number `checkDir` hands to the sub-directories of `ref` as their parent's. -/
def parentArg (ref : DirRef) (path : String) : Nat :=
  match ref with | .fixedRoot => 0 | .at r => if path = "/" then 0 else r

/-- One step of the fold over the objects of a directory; `rec` is the recursive call. -/
def objStep (g : Geom) (fat : Array Nat) (ps : List Pending) (sizeClause : Bool)
    (rec : DirRef → Nat → Nat → String → Acc → Acc) (ref : DirRef) (path : String) (a : Acc) (s : Fs.Slot) : Acc :=
  if Fs.isDots s then a else
  let p := path ++ Fs.showName (Fs.nameOf s)
  let (c, sz) := Fs.effective g ps s
  if Fs.isDirSlot s then
    if !Fs.inRange g c then a.problem s!"D4-subdir-without-cluster:{p}:{c}"
    else if a.owned.contains c then a.problem s!"S1-shared-cluster:{c}:{(a.owned.get? c).getD ""}:{p}"
    else if a.problems.length > 40 then a
    else rec (.at c) c (parentArg ref path) (p ++ "/") a
  else
    let a := { a with filesVisited := a.filesVisited + 1 }
    if c = 0 then (if sz = 0 ∨ !sizeClause then a else a.problem s!"D5-size-without-cluster:{p}:{sz}")
    else match Fs.chainT g fat c with
      | .error e => a.problem s!"D5-{e}:{p}"
      | .ok cs =>
        let a := Fs.claim a cs p
        if sizeClause ∧ sz > cs.length * g.bpc * 512 then a.problem s!"D5-chain-too-short:{p}:{sz}:{cs.length}" else a

theorem checkDir_zero (g : Geom) (d : Disk) (fat : Array Nat) (ps : List Pending) (sc : Bool) (ref : DirRef)
    (self parent : Nat) (path : String) (a : Acc) :
    Fs.checkDir g d fat ps sc 0 ref self parent path a = a.problem s!"D1-nesting-too-deep:{path}" := rfl

theorem checkDir_succ (g : Geom) (d : Disk) (fat : Array Nat) (ps : List Pending) (sc : Bool) (fuel : Nat) (ref : DirRef)
    (self parent : Nat) (path : String) (a : Acc) :
    Fs.checkDir g d fat ps sc (fuel + 1) ref self parent path a =
      match Fs.dirSlotsT g d fat ref with
      | .error e => a.problem s!"D1-{e}:{path}"
      | .ok (ss, cs) =>
        (Fs.objects ss).foldl (objStep g fat ps sc (Fs.checkDir g d fat ps sc fuel) ref path)
          (dirPre g ref self parent path ss cs a) := rfl

/-! ### The accumulator -/

/-- Cluster `c` has been claimed. -/
def Has (a : Acc) (c : Nat) : Prop := a.owned[c]? ≠ none

theorem has_insert (a : Acc) (k : Nat) (o : String) (c : Nat) :
    Has { a with owned := a.owned.insert k o } c ↔ Has a c ∨ c = k := by
  unfold Has
  simp only [Std.TreeMap.getElem?_insert, Nat.compare_eq_eq]
  by_cases h : k = c
  · simp [h]
  · simp only [h, if_false]
    constructor
    · exact .inl
    · rintro (h' | h')
      · exact h'
      · exact absurd h'.symm h

/-- Claiming clusters none of which is claimed yet: no problem is added, and exactly these become claimed. -/
theorem claim_ok : ∀ (cs : List Nat) (a : Acc) (owner : String), cs.Nodup → (∀ c, c ∈ cs → ¬ Has a c) →
    (Fs.claim a cs owner).problems = a.problems ∧ (∀ c, Has (Fs.claim a cs owner) c ↔ Has a c ∨ c ∈ cs)
  | [], a, owner, _, _ => ⟨rfl, fun c => by simp [Fs.claim]⟩
  | k :: cs, a, owner, hnd, hfree => by
    have hk : a.owned.get? k = none := by
      have := hfree k List.mem_cons_self
      unfold Has at this
      rw [Std.TreeMap.get?_eq_getElem?]
      exact Classical.not_not.1 this
    have hstep : Fs.claim a (k :: cs) owner = Fs.claim { a with owned := a.owned.insert k owner } cs owner := by
      unfold Fs.claim
      rw [List.foldl_cons]
      simp only [hk]
    rw [List.nodup_cons] at hnd
    have ih := claim_ok cs { a with owned := a.owned.insert k owner } owner hnd.2 (by
      intro c hc hh
      rcases (has_insert a k owner c).1 hh with h' | h'
      · exact hfree c (List.mem_cons_of_mem _ hc) h'
      · exact hnd.1 (h' ▸ hc))
    rw [hstep]
    refine ⟨ih.1, fun c => ?_⟩
    rw [ih.2 c, has_insert, List.mem_cons]
    constructor
    · rintro ((h | h) | h)
      · exact .inl h
      · exact .inr (.inl h)
      · exact .inr (.inr h)
    · rintro (h | h | h)
      · exact .inl (.inl h)
      · exact .inl (.inr h)
      · exact .inr h

theorem has_empty (c : Nat) : ¬ Has ({} : Acc) c := by
  unfold Has
  simp only [ne_eq, not_not]
  exact Std.TreeMap.getElem?_emptyc

theorem eraseDups_of_nodup {α : Type} [BEq α] [LawfulBEq α] : ∀ (l : List α), l.Nodup → l.eraseDups = l
  | [], _ => by simp
  | a :: l, h => by
    rw [List.nodup_cons] at h
    rw [List.eraseDups_cons]
    have : l.filter (fun b => !b == a) = l := by
      rw [List.filter_eq_self]
      intro b hb
      simp only [Bool.not_eq_true', beq_eq_false_iff_ne, ne_eq]
      rintro rfl
      exact h.1 hb
    rw [this, eraseDups_of_nodup l h.2]

/-! ### F4: the per-directory checks -/

theorem live_dots {ft : FatType} {h p : Nat} {s0 s1 : Slot} {rest : List Slot} (h0 : IsDot ft Sfn.thisDir h s0)
    (h1 : IsDot ft Sfn.parentDir p s1) : live (s0 :: s1 :: rest) = s0 :: s1 :: live rest := by
  obtain ⟨a0, k0⟩ := VolTree.isDot_keep h0 VolTree.thisDir_first
  obtain ⟨a1, k1⟩ := VolTree.isDot_keep h1 VolTree.parentDir_first
  unfold keep at k0 k1
  simp only [Bool.and_eq_true] at k0 k1
  unfold live
  rw [beforeEnd_cons_nz _ _ a0, beforeEnd_cons_nz _ _ a1, List.filter_cons, List.filter_cons]
  simp only [k0.1, k1.1, if_true]

section
variable {s : Mgr} {gh : Ghost} {g : Geom}

/-- **F4.** The per-directory checks D2 (nothing after the end marker), D3 (unique names), D4 (dot entries) add no
problem for a directory of the tree: what remains of `dirPre` is the claim of the directory's chain. -/
theorem dirPre_eq (hI : VolInv s gh) (hg : GeomOf gh.vol g) {h : Nat} (hh : h ∈ dirIds gh.dirs)
    {ss : List Fs.Slot} (hss : ss.map cv = dirSlots gh.vol s.dev.disk gh.G h)
    {self parent : Nat} {path : String} (hself : h ≠ 0 → self = h) (hpar : h ≠ 0 → (h, parent) ∈ gh.dirs)
    (hpath : path = "/" ↔ h = 0) (cs : List Nat) (a : Acc) :
    dirPre g (refOf gh.vol h) self parent path ss cs a = Fs.claim { a with dirsVisited := a.dirsVisited + 1 } cs path := by
  have hT := hI.med.tree
  -- D2
  have hD2 : ((ss.dropWhile fun x => decide (Fs.firstByte x ≠ 0)).all fun x => decide (Fs.firstByte x = 0)) = true := by
    rw [List.all_eq_true]
    intro x hx
    have hx' : cv x ∈ (ss.map cv).dropWhile fun t => decide (first t ≠ 0) := by
      rw [← dropWhile_cv]; exact List.mem_map_of_mem hx
    rw [hss] at hx'
    exact decide_eq_true (hT.cleanTail h hh _ hx')
  -- D3
  have hD3 : ((Fs.objects ss).map Fs.nameOf).eraseDups.length = ((Fs.objects ss).map Fs.nameOf).length := by
    have hnd : ((Fs.objects ss).map Fs.nameOf).Nodup := by
      have e : (Fs.objects ss).map Fs.nameOf = ((Fs.objects ss).map cv).map sName := by
        rw [List.map_map]; rfl
      rw [e, objects_cv, hss]
      exact List.Nodup.sublist (List.Sublist.map sName List.filter_sublist) (hT.names h hh)
    rw [eraseDups_of_nodup _ hnd]
  unfold dirPre
  simp only [hD2, hD3, if_true]
  unfold refOf
  by_cases hf : isFixedRoot gh.vol h
  · rw [if_pos hf]
  · rw [if_neg hf]
    simp only
    by_cases hp : path = "/"
    · rw [if_pos hp]
    · rw [if_neg hp]
      have h0 : h ≠ 0 := fun e => hp (hpath.2 e)
      obtain ⟨s0, s1, rest, hsl, hd0, hd1⟩ := hT.dots h parent (hpar h0)
      have hl : (Fs.liveSlots ss).map cv = s0 :: s1 :: live rest := by
        rw [liveSlots_cv, hss, hsl, live_dots hd0 hd1]
      obtain ⟨x1, l1, e1, c1, hl1⟩ := List.map_eq_cons_iff.1 hl
      obtain ⟨x2, l2, e2, c2, _⟩ := List.map_eq_cons_iff.1 hl1
      rw [e1, e2]
      have n1 : Fs.nameOf x1 = Fs.dotName := by rw [nameOf_cv, c1, hd0.1]; rfl
      have n2 : Fs.nameOf x2 = Fs.dotDotName := by rw [nameOf_cv, c2, hd1.1]; rfl
      have d1 : Fs.isDirSlot x1 = true := by rw [isDir_cv, c1, hd0.2.1]
      have d2 : Fs.isDirSlot x2 = true := by rw [isDir_cv, c2, hd1.2.1]
      have k1 : Fs.clusterOf g x1 = self := by rw [clusterOf_cv hg, c1, hd0.2.2.2, hself h0]
      have k2 : Fs.clusterOf g x2 = parent := by rw [clusterOf_cv hg, c2, hd1.2.2.2]
      simp only [n1, n2, d1, d2, k1, k2, and_self, if_true]

end

end Sdmmc.Lemmas.VolFsck
