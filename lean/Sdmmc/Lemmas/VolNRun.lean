/-
Several open volumes: whole calls.  `RunSim2 hv i R m m' s` — `m` on `s` and `m'` on the projection give `R`-related
answers and reach states related by `ProjRel` (projection up to table order), the other volumes' records untouched (up
to table order).  An exact simulation of the first part of a call (`SimAt`) composes with a `RunSim2` of the rest
(`SimAt.bind_run`); the table-changing tails are `run_appendFile`, `run_appendDir`, `run_swapRemoveFile`,
`run_swapRemoveDir`; a state-independent epilogue (`pure id`, `M.lift r`) is `RunSim2.bind_const`.
-/
import Sdmmc.Lemmas.VolNSim

namespace Sdmmc.Lemmas.VolN
open Sdmmc.Model Sdmmc.Model.Fat Sdmmc.Spec.Volume
open Sdmmc.Spec hiding NoFault Coherent run step
open Sdmmc.Lemmas.MHoare

structure RunSim2 {α β : Type} (hv i : Nat) (R : α → β → Prop) (m : M α) (m' : M β) (s : Mgr) : Prop where
  res : ResRel R (m s).1 (m' (projH hv i s)).1
  rel : ProjRel hv i (m s).2 (m' (projH hv i s)).2
  volKeys : (m s).2.vols.map vkey = s.vols.map vkey
  restVols : (m s).2.vols.eraseIdx i = s.vols.eraseIdx i
  restDirs : (otherDirs (m s).2 hv).Perm (otherDirs s hv)
  restFiles : (otherFiles (m s).2 hv).Perm (otherFiles s hv)
  limits : (m s).2.maxVols = s.maxVols ∧ (m s).2.maxDirs = s.maxDirs ∧ (m s).2.maxFiles = s.maxFiles

section
variable {hv i : Nat} {σd σf : List (Nat × Nat)}

theorem RunSim2.toRunSim {α : Type} {m : M α} {s : Mgr} (h : RunSim2 hv i Eq m m s) : RunSim hv i m s :=
  ⟨h.res.eq, h.rel, h.volKeys, h.restVols, h.restDirs, h.restFiles, h.limits⟩

theorem RunSim2.of_simAt {α β : Type} {R : α → β → Prop} {m : M α} {m' : M β} {s : Mgr} (h : SimAt hv i σd σf R m m' s) :
    RunSim2 hv i R m m' s := by
  obtain ⟨_, h2, h3, h4⟩ := h
  have h4' := h4
  unfold rest at h4'
  simp only [Prod.mk.injEq] at h4'
  obtain ⟨r1, r2, r3, r4, r5, r6, r7⟩ := h4'
  exact ⟨h3, ProjRel.of_eq h2, r4, r1, by rw [r2], by rw [r3], r5, r6, r7⟩

/-- An exactly simulated first part, then the rest. -/
theorem SimAt.bind_run {α β γ δ : Type} {R : α → β → Prop} {Q : γ → δ → Prop} {m : M α} {m' : M β} {f : α → M γ} {g : β → M δ}
    {s : Mgr} (h : SimAt hv i σd σf R m m' s)
    (hf : ∀ a b, R a b → (m s).1 = .ok a → Skel hv i σd σf (m s).2 → RunSim2 hv i Q (f a) (g b) (m s).2) :
    RunSim2 hv i Q (m >>= f) (m' >>= g) s := by
  obtain ⟨_, h0rel, h0k, h0v, h0d, h0f, h0l⟩ := RunSim2.of_simAt h
  obtain ⟨h1, h2, h3, h4⟩ := h
  rcases hms : m s with ⟨r, s1⟩
  rcases hmp : m' (projH hv i s) with ⟨r', t1⟩
  rw [hms] at h1 h2 h3 h4 hf h0rel h0k h0v h0d h0f h0l
  rw [hmp] at h2 h3 h0rel
  simp only at h1 h2 h3 h4 hf h0rel h0k h0v h0d h0f h0l
  subst h2
  have hfail : ∀ (x : Res γ) (y : Res δ), ResRel Q x y → (m >>= f) s = (x, s1) → (m' >>= g) (projH hv i s) = (y, projH hv i s1) →
      RunSim2 hv i Q (m >>= f) (m' >>= g) s := by
    intro x y hxy e1 e2
    refine ⟨by rw [e1, e2]; exact hxy, by rw [e1, e2]; exact h0rel, by rw [e1]; exact h0k, by rw [e1]; exact h0v,
      by rw [e1]; exact h0d, by rw [e1]; exact h0f, by rw [e1]; exact h0l⟩
  cases r with
  | ok a =>
    cases r' with
    | ok b =>
      have k := hf a b h3 rfl h1
      have e1 := bind_ok (f := f) hms
      have e2 := bind_ok (f := g) hmp
      refine ⟨by rw [e1, e2]; exact k.res, by rw [e1, e2]; exact k.rel, by rw [e1]; exact k.volKeys.trans h0k,
        by rw [e1]; exact k.restVols.trans h0v, by rw [e1]; exact k.restDirs.trans h0d,
        by rw [e1]; exact k.restFiles.trans h0f, ?_⟩
      rw [e1]
      exact ⟨k.limits.1.trans h0l.1, k.limits.2.1.trans h0l.2.1, k.limits.2.2.trans h0l.2.2⟩
    | err e => exact absurd h3 (by simp [ResRel])
    | panic e => exact absurd h3 (by simp [ResRel])
    | diverged => exact absurd h3 (by simp [ResRel])
  | err e =>
    cases r' with
    | err e' => exact hfail (.err e) (.err e') (by simpa [ResRel] using h3) (bind_err hms) (bind_err hmp)
    | ok b => exact absurd h3 (by simp [ResRel])
    | panic e => exact absurd h3 (by simp [ResRel])
    | diverged => exact absurd h3 (by simp [ResRel])
  | panic e =>
    cases r' with
    | panic e' => exact hfail (.panic e) (.panic e') (by simpa [ResRel] using h3) (bind_panic hms) (bind_panic hmp)
    | ok b => exact absurd h3 (by simp [ResRel])
    | err e => exact absurd h3 (by simp [ResRel])
    | diverged => exact absurd h3 (by simp [ResRel])
  | diverged =>
    cases r' with
    | diverged => exact hfail .diverged .diverged (by simp [ResRel]) (bind_diverged hms) (bind_diverged hmp)
    | ok b => exact absurd h3 (by simp [ResRel])
    | err e => exact absurd h3 (by simp [ResRel])
    | panic e => exact absurd h3 (by simp [ResRel])

/-- A whole simulated computation followed by an epilogue that does not touch the state (`pure x`, `M.lift r`,
`M.fail e`). -/
theorem RunSim2.bind_const {α β γ δ : Type} {R : α → β → Prop} {Q : γ → δ → Prop} {m : M α} {m' : M β} {f : α → M γ} {g : β → M δ}
    {s : Mgr} (h : RunSim2 hv i R m m' s)
    (hfg : ∀ a b, R a b → ∃ x y, (∀ t, f a t = (x, t)) ∧ (∀ t, g b t = (y, t)) ∧ ResRel Q x y) :
    RunSim2 hv i Q (m >>= f) (m' >>= g) s := by
  rcases hms : m s with ⟨r, s1⟩
  rcases hmp : m' (projH hv i s) with ⟨r', t1⟩
  obtain ⟨h1, h2, h3, h4, h5, h6, h7⟩ := h
  rw [hms] at h1 h2 h3 h4 h5 h6 h7
  rw [hmp] at h1 h2
  simp only at h1 h2 h3 h4 h5 h6 h7
  have hfin : ∀ (x : Res γ) (y : Res δ), ResRel Q x y → (m >>= f) s = (x, s1) → (m' >>= g) (projH hv i s) = (y, t1) →
      RunSim2 hv i Q (m >>= f) (m' >>= g) s := by
    intro x y hxy e1 e2
    exact ⟨by rw [e1, e2]; exact hxy, by rw [e1, e2]; exact h2, by rw [e1]; exact h3, by rw [e1]; exact h4,
      by rw [e1]; exact h5, by rw [e1]; exact h6, by rw [e1]; exact h7⟩
  cases r with
  | ok a =>
    cases r' with
    | ok b =>
      obtain ⟨x, y, hx, hy, hxy⟩ := hfg a b h1
      exact hfin x y hxy (by rw [bind_ok hms, hx]) (by rw [bind_ok hmp, hy])
    | err e => exact absurd h1 (by simp [ResRel])
    | panic e => exact absurd h1 (by simp [ResRel])
    | diverged => exact absurd h1 (by simp [ResRel])
  | err e =>
    cases r' with
    | err e' => exact hfin (.err e) (.err e') (by simpa [ResRel] using h1) (bind_err hms) (bind_err hmp)
    | ok b => exact absurd h1 (by simp [ResRel])
    | panic e => exact absurd h1 (by simp [ResRel])
    | diverged => exact absurd h1 (by simp [ResRel])
  | panic e =>
    cases r' with
    | panic e' => exact hfin (.panic e) (.panic e') (by simpa [ResRel] using h1) (bind_panic hms) (bind_panic hmp)
    | ok b => exact absurd h1 (by simp [ResRel])
    | err e => exact absurd h1 (by simp [ResRel])
    | diverged => exact absurd h1 (by simp [ResRel])
  | diverged =>
    cases r' with
    | diverged => exact hfin .diverged .diverged (by simp [ResRel]) (bind_diverged hms) (bind_diverged hmp)
    | ok b => exact absurd h1 (by simp [ResRel])
    | err e => exact absurd h1 (by simp [ResRel])
    | panic e => exact absurd h1 (by simp [ResRel])

/-! ### Table-changing tails -/

/-- A state change `g` on `s` and `g'` on the projection whose results are related. -/
theorem run_modify {g g' : Mgr → Mgr} {s : Mgr} (hrel : ProjRel hv i (g s) (g' (projH hv i s)))
    (hk : (g s).vols.map vkey = s.vols.map vkey) (hv' : (g s).vols.eraseIdx i = s.vols.eraseIdx i)
    (hd : (otherDirs (g s) hv).Perm (otherDirs s hv)) (hf : (otherFiles (g s) hv).Perm (otherFiles s hv))
    (hl : (g s).maxVols = s.maxVols ∧ (g s).maxDirs = s.maxDirs ∧ (g s).maxFiles = s.maxFiles) :
    RunSim2 hv i Eq (M.modify g) (M.modify g') s :=
  ⟨rfl, hrel, hk, hv', hd, hf, hl⟩

/-- Appending a file record of the volume. -/
theorem run_appendFile {s : Mgr} (x : FileInfo) (hx : x.rawVolume = hv) :
    RunSim2 hv i Eq (M.modify fun s => { s with files := s.files ++ [x] }) (M.modify fun s => { s with files := s.files ++ [x] }) s := by
  have hp : ownF hv x = true := by simp [hx]
  have e1 : (s.files ++ [x]).filter (ownF hv) = s.files.filter (ownF hv) ++ [x] := by
    rw [List.filter_append, List.filter_cons, if_pos hp]; rfl
  have e2 : (s.files ++ [x]).filter (fun f => !ownF hv f) = s.files.filter (fun f => !ownF hv f) := by
    rw [List.filter_append, List.filter_cons]; simp [hp]
  refine run_modify (ProjRel.of_eq ?_) rfl rfl (List.Perm.refl _) ?_ ⟨rfl, rfl, rfl⟩
  · show ({ projH hv i s with files := (projH hv i s).files ++ [x] } : Mgr) = projH hv i { s with files := s.files ++ [x] }
    unfold projH volDirs volFiles otherDirs otherFiles
    simp only
    rw [e1, e2]
  · show (({ s with files := s.files ++ [x] } : Mgr).files.filter fun f => !ownF hv f).Perm _
    rw [e2]
    exact List.Perm.refl _

/-- Appending a directory record of the volume. -/
theorem run_appendDir {s : Mgr} (x : DirInfo) (hx : x.rawVolume = hv) :
    RunSim2 hv i Eq (M.modify fun s => { s with dirs := s.dirs ++ [x] }) (M.modify fun s => { s with dirs := s.dirs ++ [x] }) s := by
  have hp : ownD hv x = true := by simp [hx]
  have e1 : (s.dirs ++ [x]).filter (ownD hv) = s.dirs.filter (ownD hv) ++ [x] := by
    rw [List.filter_append, List.filter_cons, if_pos hp]; rfl
  have e2 : (s.dirs ++ [x]).filter (fun f => !ownD hv f) = s.dirs.filter (fun f => !ownD hv f) := by
    rw [List.filter_append, List.filter_cons]; simp [hp]
  refine run_modify (ProjRel.of_eq ?_) rfl rfl ?_ (List.Perm.refl _) ⟨rfl, rfl, rfl⟩
  · show ({ projH hv i s with dirs := (projH hv i s).dirs ++ [x] } : Mgr) = projH hv i { s with dirs := s.dirs ++ [x] }
    unfold projH volDirs volFiles otherDirs otherFiles
    simp only
    rw [e1, e2]
  · show (({ s with dirs := s.dirs ++ [x] } : Mgr).dirs.filter fun f => !ownD hv f).Perm _
    rw [e2]
    exact List.Perm.refl _

/-- `swap_remove` of a file record of the volume: position `k` resp. its position `k'` in the projected table. -/
theorem run_swapRemoveFile {s : Mgr} {k k' : Nat} {f : FileInfo} (hk : s.files[k]? = some f) (hf : f.rawVolume = hv)
    (hk' : k' = pidx (ownF hv) s.files k) :
    RunSim2 hv i Eq (M.modify fun s => { s with files := swapRemove s.files k })
      (M.modify fun s => { s with files := swapRemove s.files k' }) s := by
  subst hk'
  have hp : ownF hv f = true := by simp [hf]
  have p1 := swapRemove_filter_perm (ownF hv) s.files k f hk hp
  have p2 := swapRemove_filter_other (fun f => !ownF hv f) s.files k f hk (by simp [hp])
  refine run_modify ⟨rfl, rfl, rfl, rfl, rfl, rfl, List.Perm.refl _, p1.symm, rfl, rfl, ?_⟩ rfl rfl (List.Perm.refl _) p2 ⟨rfl, rfl, rfl⟩
  show s.maxFiles - (s.files.filter fun f => !ownF hv f).length = s.maxFiles - ((swapRemove s.files k).filter fun f => !ownF hv f).length
  rw [p2.length_eq]

/-- `swap_remove` of a directory record of the volume. -/
theorem run_swapRemoveDir {s : Mgr} {k k' : Nat} {d : DirInfo} (hk : s.dirs[k]? = some d) (hd : d.rawVolume = hv)
    (hk' : k' = pidx (ownD hv) s.dirs k) :
    RunSim2 hv i Eq (M.modify fun s => { s with dirs := swapRemove s.dirs k })
      (M.modify fun s => { s with dirs := swapRemove s.dirs k' }) s := by
  subst hk'
  have hp : ownD hv d = true := by simp [hd]
  have p1 := swapRemove_filter_perm (ownD hv) s.dirs k d hk hp
  have p2 := swapRemove_filter_other (fun f => !ownD hv f) s.dirs k d hk (by simp [hp])
  refine run_modify ⟨rfl, rfl, rfl, rfl, rfl, rfl, p1.symm, List.Perm.refl _, rfl, ?_, rfl⟩ rfl rfl p2 (List.Perm.refl _) ⟨rfl, rfl, rfl⟩
  show s.maxDirs - (s.dirs.filter fun f => !ownD hv f).length = s.maxDirs - ((swapRemove s.dirs k).filter fun f => !ownD hv f).length
  rw [p2.length_eq]

end

end Sdmmc.Lemmas.VolN
