/-
Several open volumes: the two calls that change the VOLUME TABLE, proved directly for `VolInvN`.

* `swapRemove_length`, `swapRemove_getElem?` — `Vec::swap_remove` by index: record `k` is dropped and the LAST record takes its
  place; `mem_swapRemove_of_ne`, `swapRemove_nodup_map`;
* `volInvN_dev` — the device and the cache change, every open volume staying sound on the new medium;
* `withVol_updateInfo_multi` — `update_info_sector` of volume record `k`: volume `k` by `updateInfo_med`, every OTHER volume
  because the only block written (the FAT32 information sector of volume `k`) lies in partition `k`;
* `volInvN_remove` — the record of a volume that no open file / directory names is removed from the table (and its ghost
  from the ghost list, by the same `swapRemove`);
* `closeVolume_multi` — **`close_volume` keeps `VolInvN` and `MirrorN`**;
* `openRawVolume_ok_idx` — a successful `open_raw_volume idx` found no open record of partition `idx`;
* `openVolume_multi` — **`open_raw_volume` keeps `VolInvN` and `MirrorN`**, provided a SUCCESSFUL mount answers a handle no
  open volume carries, mounts a partition that overlaps no open one, and describes a sound volume with agreeing FAT copies.
-/
import Sdmmc.Lemmas.VolNInv
import Sdmmc.Lemmas.VolApiRO
import Sdmmc.Lemmas.VolApiMount
import Sdmmc.Lemmas.VolEng2

namespace Sdmmc.Lemmas.VolN
open Sdmmc.Model Sdmmc.Model.Fat Sdmmc.Spec.Volume
open Sdmmc.Spec hiding NoFault Coherent run step
open Sdmmc.Lemmas.VolBase Sdmmc.Lemmas.VolTree Sdmmc.Lemmas.VolMed Sdmmc.Lemmas.VolDisk
open Sdmmc.Lemmas.VolEng Sdmmc.Lemmas.VolApi
open Sdmmc.Lemmas.FBasic (NoFault Coherent)
open Sdmmc.Lemmas.MHoare

/-! ### `swap_remove` by index -/

theorem swapRemove_getElem? {α : Type} {l : List α} {k : Nat} (hk : k < l.length) (j : Nat) :
    (swapRemove l k)[j]? = if j < l.length - 1 then l[if j = k then l.length - 1 else j]? else none := by
  have hne : l ≠ [] := by intro e; rw [e] at hk; cases hk
  have hlast : l[l.length - 1]? = some (l.getLast hne) := by
    rw [List.getLast_eq_getElem hne]
    exact List.getElem?_eq_getElem (by omega)
  unfold swapRemove
  rw [List.getLast?_eq_some_getLast hne, List.getElem?_eq_getElem hk]
  simp only
  by_cases hkl : k = l.length - 1
  · rw [if_pos hkl, List.getElem?_dropLast]
    by_cases hj : j < l.length - 1
    · rw [if_pos hj, if_pos hj, if_neg (by omega)]
    · rw [if_neg hj, if_neg hj]
  · rw [if_neg hkl, List.getElem?_dropLast, List.length_set]
    by_cases hj : j < l.length - 1
    · rw [if_pos hj, if_pos hj, List.getElem?_set]
      by_cases hjk : j = k
      · rw [if_pos hjk.symm, if_pos hk, if_pos hjk, hlast]
      · rw [if_neg (fun e => hjk e.symm), if_neg hjk]
    · rw [if_neg hj, if_neg hj]

theorem swapRemove_length {α : Type} {l : List α} {k : Nat} (hk : k < l.length) : (swapRemove l k).length = l.length - 1 := by
  have hne : l ≠ [] := by intro e; rw [e] at hk; cases hk
  unfold swapRemove
  rw [List.getLast?_eq_some_getLast hne, List.getElem?_eq_getElem hk]
  simp only
  by_cases hkl : k = l.length - 1
  · rw [if_pos hkl, List.length_dropLast]
  · rw [if_neg hkl, List.length_dropLast, List.length_set]

/-- The index in `l` of entry `j` of `swapRemove l k`. -/
def swapIdx (n k j : Nat) : Nat := if j = k then n - 1 else j

theorem swapRemove_get {α : Type} {l : List α} {k : Nat} (hk : k < l.length) {j : Nat} {x : α}
    (h : (swapRemove l k)[j]? = some x) : j < l.length - 1 ∧ l[swapIdx l.length k j]? = some x := by
  rw [swapRemove_getElem? hk] at h
  by_cases hj : j < l.length - 1
  · rw [if_pos hj] at h; exact ⟨hj, h⟩
  · rw [if_neg hj] at h; cases h

theorem swapIdx_ne {n k j : Nat} (hj : j < n - 1) : swapIdx n k j ≠ k := by
  unfold swapIdx
  split <;> omega

theorem swapIdx_inj {n k i j : Nat} (hi : i < n - 1) (hj : j < n - 1) (h : swapIdx n k i = swapIdx n k j) : i = j := by
  unfold swapIdx at h
  split at h <;> split at h <;> omega

theorem mem_swapRemove_of_ne {α : Type} {l : List α} {k i : Nat} {x y : α} (hk : l[k]? = some y) (hi : l[i]? = some x)
    (hne : i ≠ k) : x ∈ swapRemove l k :=
  (swapRemove_perm l k y hk).symm.subset (List.mem_eraseIdx_iff_getElem?.2 ⟨i, hne, hi⟩)

theorem swapRemove_nodup_map {α β : Type} {l : List α} {k : Nat} {y : α} (f : α → β) (hk : l[k]? = some y)
    (hnd : (l.map f).Nodup) : ((swapRemove l k).map f).Nodup :=
  ((swapRemove_perm l k y hk).map f).nodup_iff.2 (((List.eraseIdx_sublist l k).map f).nodup hnd)

/-! ### The device and the cache change -/

/-- Device and cache are replaced; every open volume is sound on the new medium. -/
theorem volInvN_dev {s : Mgr} {ghs : List Ghost} (hI : VolInvN s ghs) (dev' : Dev) (cache' : Cache)
    (hnf : dev'.faults = []) (hc : ∀ i, cache'.tag = some i → cache'.blk = dev'.disk.get i)
    (hmed : ∀ (i : Nat) (vi : VolInfo) (gh : Ghost), s.vols[i]? = some vi → ghs[i]? = some gh →
      MedInv gh.vol dev'.disk (volFiles s vi.rawVolume) gh) :
    VolInvN { s with dev := dev', cache := cache' } ghs :=
  { noFault := hnf, coherent := hc, unlocked := hI.unlocked, len := hI.len, vols := hI.vols, handles := hI.handles,
    indices := hI.indices, parts := hI.parts, med := hmed, fileVols := hI.fileVols, openDirs := hI.openDirs,
    inertDirs := hI.inertDirs }

/-- … with the same medium. -/
theorem volInvN_ro {s : Mgr} {ghs : List Ghost} (hI : VolInvN s ghs) (dev' : Dev) (cache' : Cache)
    (hd : dev'.disk = s.dev.disk) (hnf : dev'.faults = []) (hc : ∀ i, cache'.tag = some i → cache'.blk = dev'.disk.get i) :
    VolInvN { s with dev := dev', cache := cache' } ghs :=
  volInvN_dev hI dev' cache' hnf hc fun i vi gh hvi hgh => by rw [hd]; exact hI.med i vi gh hvi hgh

theorem mirrorN_ro {s : Mgr} {ghs : List Ghost} (hm : MirrorN s ghs) (dev' : Dev) (cache' : Cache)
    (hd : dev'.disk = s.dev.disk) : MirrorN { s with dev := dev', cache := cache' } ghs := by
  intro gh hgh
  show Mirror gh.vol dev'.disk
  rw [hd]; exact hm gh hgh

/-! ### `update_info_sector` of one of several volumes -/

/-- `update_info_sector` keeps the invariant of its volume and changes no block outside the information sector. -/
theorem updateInfo_frame {fs : FS} {files : List FileInfo} {gh : Ghost} (hM : MedX fs.vol fs.dev.disk files gh [])
    (hn : NoFault fs) (hc : Coherent fs) :
    ∃ fs', updateInfoSector fs = (.ok (), fs') ∧ NoFault fs' ∧ Coherent fs' ∧ fs'.vol = fs.vol ∧
      MedX fs.vol fs'.dev.disk files gh [] ∧
      (∀ b, regionOf fs.vol b ≠ .info → fs'.dev.disk.get b = fs.dev.disk.get b) := by
  obtain ⟨fs', h, hn', hc', hv, hM'⟩ := updateInfo_med hM hn hc
  obtain ⟨fs'', h2, _, _, _, _, hother, _, hcase⟩ := DirEntryIO.updateInfoSector_state fs hn hc hM.blocksOK
  have hfs : fs'' = fs' := by
    rw [h] at h2
    exact (congrArg Prod.snd h2).symm
  subst hfs
  rw [hv] at hM'
  refine ⟨fs'', h, hn', hc', hv, hM', ?_⟩
  intro b hb
  rcases hcase with ⟨_, hd⟩ | ⟨h32, _⟩
  · rw [hd]
  · apply hother
    intro e
    apply hb
    have hgf := FatLens.geom_facts fs.vol hM.geom
    have := FatLens.info_block_in_info_region fs.vol hM.geom h32 (by
      have := FatLens.fatsEnd_ge fs.vol hM.geom
      omega)
    rw [e]; exact this

theorem inPartition_of_info {v : FatVolume} {b : Nat} (h : regionOf v b = .info) : InPartition v b := by
  have := FatLens.region_inside_partition v b (by rw [h]; simp)
  exact ⟨Nat.le_of_lt this.1, this.2⟩

/-- `update_info_sector` run on volume record `k` of several: the state changes in device and cache only, and every open
volume stays sound, with agreeing FAT copies. -/
theorem withVol_updateInfo_multi {s : Mgr} {ghs : List Ghost} (hI : VolInvN s ghs) (hm : MirrorN s ghs) {k : Nat}
    {vi : VolInfo} (hvi : s.vols[k]? = some vi) :
    ∃ dev' cache', withVol k updateInfoSector s = (.ok (), { s with dev := dev', cache := cache' }) ∧
      VolInvN { s with dev := dev', cache := cache' } ghs ∧ MirrorN { s with dev := dev', cache := cache' } ghs := by
  have hklt : k < s.vols.length := (List.getElem?_eq_some_iff.1 hvi).1
  obtain ⟨gh, hgh⟩ : ∃ gh, ghs[k]? = some gh := ⟨_, List.getElem?_eq_getElem (by rw [hI.len]; exact hklt)⟩
  have hvol := hI.vols k vi gh hvi hgh
  have hMk := hI.med k vi gh hvi hgh
  have hMX : MedX vi.vol s.dev.disk (volFiles s vi.rawVolume) gh [] := by rw [hvol]; exact medX_of_med hMk
  obtain ⟨fs', hr, hn', hc', hv', hM', hfr⟩ :=
    updateInfo_frame (fs := { dev := s.dev, cache := s.cache, vol := vi.vol }) hMX hI.noFault hI.coherent
  have hv'' : fs'.vol = vi.vol := hv'
  have hM'' : MedInv gh.vol fs'.dev.disk (volFiles s vi.rawVolume) gh := by
    have := med_of_medX hM'
    rw [← hvol]; exact this
  have hfr' : ∀ b, regionOf vi.vol b ≠ .info → fs'.dev.disk.get b = s.dev.disk.get b := hfr
  -- the frame: nothing outside partition `k` changes
  have hout : ∀ b, ¬ InPartition vi.vol b → fs'.dev.disk.get b = s.dev.disk.get b :=
    fun b hb => hfr' b fun e => hb (inPartition_of_info e)
  have hother : ∀ (j : Nat) (vj : VolInfo), s.vols[j]? = some vj → j ≠ k → ∀ b, InPartition vj.vol b →
      fs'.dev.disk.get b = s.dev.disk.get b :=
    fun j vj hvj hj b hb => hout b fun hbk => hI.parts k j vi vj hvi hvj (Ne.symm hj) b hbk hb
  refine ⟨fs'.dev, fs'.cache, ?_, ?_, ?_⟩
  · rw [DirMgr.withVol_eq k _ s vi hvi, hr]
    show (Res.ok (), { s with dev := fs'.dev, cache := fs'.cache, vols := s.vols.set k { vi with vol := fs'.vol } }) = _
    rw [hv'']
    have : s.vols.set k { vi with vol := vi.vol } = s.vols := ReadRefines.list_set_self _ _ _ hvi
    rw [this]
  · refine volInvN_dev hI fs'.dev fs'.cache hn' hc' ?_
    intro j vj g hvj hg
    by_cases hj : j = k
    · subst hj
      rw [hvi] at hvj; cases hvj
      rw [hgh] at hg; cases hg
      exact hM''
    · refine medInv_congr_partition (hI.med j vj g hvj hg) hM''.blocksOK ?_
      intro b hb
      rw [← hI.vols j vj g hvj hg] at hb
      exact hother j vj hvj hj b hb
  · intro g hg
    show Mirror g.vol fs'.dev.disk
    obtain ⟨j, hj⟩ := List.getElem?_of_mem hg
    have hjlt : j < s.vols.length := by rw [← hI.len]; exact (List.getElem?_eq_some_iff.1 hj).1
    obtain ⟨vj, hvj⟩ : ∃ vj, s.vols[j]? = some vj := ⟨_, List.getElem?_eq_getElem hjlt⟩
    have hMj := hI.med j vj g hvj hj
    have hvj' := hI.vols j vj g hvj hj
    by_cases hjk : j = k
    · subst hjk
      rw [hvi] at hvj; cases hvj
      intro c hcl b2 hb2
      obtain ⟨r1, r2⟩ := FatLens.fat_blocks_in_fat_region g.vol hMj.geom c hcl
      have e1 : fs'.dev.disk.get (fatBlock g.vol c) = s.dev.disk.get (fatBlock g.vol c) :=
        hfr' _ (by rw [hvj', r1]; simp)
      have e2 : fs'.dev.disk.get b2 = s.dev.disk.get b2 := hfr' _ (by rw [hvj', r2 b2 hb2]; simp)
      rw [e1, e2]
      exact hm g hg c hcl b2 hb2
    · refine mirror_congr_partition hMj.geom (hm g hg) fun b hb => ?_
      rw [← hvj'] at hb
      exact hother j vj hvj hjk b hb

/-! ### A volume record leaves the table -/

/-- Record `k` of the volume table, which no open file and no open directory names, is removed (`swap_remove`), and its
ghost with it. -/
theorem volInvN_remove {s : Mgr} {ghs : List Ghost} (hI : VolInvN s ghs) {k : Nat} {vi : VolInfo} (hvi : s.vols[k]? = some vi)
    (hnf : ∀ f, f ∈ s.files → f.rawVolume ≠ vi.rawVolume) (hnd : ∀ d, d ∈ s.dirs → d.rawVolume ≠ vi.rawVolume) :
    VolInvN { s with vols := swapRemove s.vols k } (swapRemove ghs k) := by
  have hklt : k < s.vols.length := (List.getElem?_eq_some_iff.1 hvi).1
  have hkg : k < ghs.length := by rw [hI.len]; exact hklt
  have hV : ∀ (j : Nat) (v : VolInfo), (swapRemove s.vols k)[j]? = some v →
      j < s.vols.length - 1 ∧ s.vols[swapIdx s.vols.length k j]? = some v := fun j v h => swapRemove_get hklt h
  have hG : ∀ (j : Nat) (g : Ghost), (swapRemove ghs k)[j]? = some g → ghs[swapIdx s.vols.length k j]? = some g := by
    intro j g h
    have := (swapRemove_get hkg h).2
    rwa [hI.len] at this
  -- a record other than `k` stays
  have hstay : ∀ w, w ∈ s.vols → w.rawVolume ≠ vi.rawVolume → w ∈ swapRemove s.vols k := by
    intro w hw hne
    obtain ⟨i, hi⟩ := List.getElem?_of_mem hw
    refine mem_swapRemove_of_ne hvi hi ?_
    intro e
    subst e
    rw [hvi] at hi; cases hi
    exact hne rfl
  refine
    { noFault := hI.noFault, coherent := hI.coherent, unlocked := hI.unlocked
      len := by
        show (swapRemove ghs k).length = (swapRemove s.vols k).length
        rw [swapRemove_length hkg, swapRemove_length hklt, hI.len]
      vols := fun i v g hv hg => hI.vols _ v g (hV i v hv).2 (hG i g hg)
      handles := swapRemove_nodup_map _ hvi hI.handles
      indices := swapRemove_nodup_map _ hvi hI.indices
      parts := ?_
      med := fun i v g hv hg => hI.med _ v g (hV i v hv).2 (hG i g hg)
      fileVols := ?_
      openDirs := fun di hdi i v g hv hg => hI.openDirs di hdi _ v g (hV i v hv).2 (hG i g hg)
      inertDirs := ?_ }
  · intro i j v w hv hw hij
    obtain ⟨hi, hv'⟩ := hV i v hv
    obtain ⟨hj, hw'⟩ := hV j w hw
    exact hI.parts _ _ v w hv' hw' fun e => hij (swapIdx_inj hi hj e)
  · intro f hf
    obtain ⟨w, hw, e⟩ := hI.fileVols f hf
    exact ⟨w, hstay w hw (by rw [← e]; exact hnf f hf), e⟩
  · intro di hdi hno
    refine hI.inertDirs di hdi fun w hw => ?_
    by_cases e : w.rawVolume = vi.rawVolume
    · rw [e]; exact hnd di hdi
    · exact hno w (hstay w hw e)

theorem mirrorN_remove {s : Mgr} {ghs : List Ghost} (hm : MirrorN s ghs) (k : Nat) :
    MirrorN { s with vols := swapRemove s.vols k } (swapRemove ghs k) :=
  fun g hg => hm g (mem_of_mem_swapRemove hg)

/-! ### `close_volume` -/

/-- **`close_volume` with several open volumes.** -/
theorem closeVolume_multi {s : Mgr} {ghs : List Ghost} (hI : VolInvN s ghs) (hm : MirrorN s ghs) (volume : Nat) :
    ∃ ghs', VolInvN (closeVolume volume s).2 ghs' ∧ MirrorN (closeVolume volume s).2 ghs' := by
  unfold closeVolume
  rw [get_bind]
  by_cases hfa : (s.files.any (·.rawVolume = volume)) = true
  · rw [if_pos hfa]; exact ⟨ghs, hI, hm⟩
  rw [if_neg hfa]
  by_cases hda : (s.dirs.any (·.rawVolume = volume)) = true
  · rw [if_pos hda]; exact ⟨ghs, hI, hm⟩
  rw [if_neg hda]
  cases hv : s.vols.findIdx? (·.rawVolume = volume) with
  | none => rw [bind_err (getVolumeById_bad hv)]; exact ⟨ghs, hI, hm⟩
  | some k =>
    obtain ⟨vi, hvi, hp⟩ := findIdx?_some_get hv
    have hraw : vi.rawVolume = volume := by simpa using hp
    rw [bind_ok (getVolumeById_ok hv)]
    obtain ⟨dev', cache', hw, hI1, hm1⟩ := withVol_updateInfo_multi hI hm hvi
    rw [bind_ok hw]
    refine ⟨swapRemove ghs k, ?_, ?_⟩
    · show VolInvN { ({ s with dev := dev', cache := cache' } : Mgr) with
        vols := swapRemove ({ s with dev := dev', cache := cache' } : Mgr).vols k } (swapRemove ghs k)
      refine volInvN_remove hI1 hvi ?_ ?_
      · intro f hf e
        apply hfa
        rw [List.any_eq_true]
        exact ⟨f, hf, by simp [e, hraw]⟩
      · intro d hd e
        apply hda
        rw [List.any_eq_true]
        exact ⟨d, hd, by simp [e, hraw]⟩
    · exact mirrorN_remove hm1 k

/-! ### `open_raw_volume` -/

/-- A successful `open_raw_volume idx` found no open record of partition `idx`. -/
theorem openRawVolume_ok_idx {idx : Nat} {s s' : Mgr} {h : Nat} (hr : openRawVolume idx s = (.ok h, s')) :
    idx ∉ s.vols.map fun vi => vi.idx := by
  intro hmem
  obtain ⟨w, hw, e⟩ := List.mem_map.1 hmem
  have hany : (s.vols.any (·.idx = idx)) = true := by
    rw [List.any_eq_true]
    exact ⟨w, hw, by simpa using e⟩
  rw [openRawVolume_eq, get_bind] at hr
  by_cases hfull : s.vols.length ≥ s.maxVols
  · rw [if_pos hfull] at hr
    exact absurd (congrArg Prod.fst hr) (by intro h; cases h)
  · rw [if_neg hfull, if_pos hany] at hr
    exact absurd (congrArg Prod.fst hr) (by intro h; cases h)

theorem getElem?_concat_cases {α : Type} {l : List α} {x y : α} {i : Nat} (h : (l ++ [x])[i]? = some y) :
    (i < l.length ∧ l[i]? = some y) ∨ (i = l.length ∧ y = x) := by
  by_cases hi : i < l.length
  · rw [List.getElem?_append_left hi] at h; exact .inl ⟨hi, h⟩
  · rw [List.getElem?_append_right (by omega)] at h
    have hlt := (List.getElem?_eq_some_iff.1 h).1
    have h0 : i - l.length = 0 := by simpa using hlt
    rw [h0] at h
    exact .inr ⟨by omega, by simpa using h.symm⟩

/-- A sound volume is appended to the table under a fresh handle, with its ghost. -/
theorem volInvN_add {s : Mgr} {ghs : List Ghost} (hI : VolInvN s ghs) (hm : MirrorN s ghs) (dev' : Dev) (cache' : Cache)
    (hd : dev'.disk = s.dev.disk) (hnf : dev'.faults = []) (hc : ∀ i, cache'.tag = some i → cache'.blk = dev'.disk.get i)
    (idx : Nat) (v : FatVolume) (gh : Ghost) (hfresh : s.nextId ∉ s.vols.map fun vi => vi.rawVolume)
    (hidx : idx ∉ s.vols.map fun vi => vi.idx)
    (hparts : ∀ w, w ∈ s.vols → PartDisjoint w.vol v ∧ PartDisjoint v w.vol)
    (hgv : gh.vol = v) (hM : MedInv v s.dev.disk [] gh) (hmir : Mirror v s.dev.disk) :
    VolInvN (addVol { s with dev := dev', cache := cache' } idx v) (ghs ++ [gh]) ∧
      MirrorN (addVol { s with dev := dev', cache := cache' } idx v) (ghs ++ [gh]) := by
  have hvols : (addVol { s with dev := dev', cache := cache' } idx v).vols =
      s.vols ++ [{ rawVolume := s.nextId, idx := idx, vol := v }] := rfl
  have hfiles : ∀ hv, volFiles (addVol { s with dev := dev', cache := cache' } idx v) hv = volFiles s hv := fun _ => rfl
  have hdisk : (addVol { s with dev := dev', cache := cache' } idx v).dev.disk = s.dev.disk := hd
  have hnofile : volFiles s s.nextId = [] := by
    unfold volFiles
    rw [List.filter_eq_nil_iff]
    intro f hf hfe
    obtain ⟨w, hw, e⟩ := hI.fileVols f hf
    apply hfresh
    refine List.mem_map.2 ⟨w, hw, ?_⟩
    rw [← e]; simpa using hfe
  -- a record and a ghost at the same index: both old, or both new
  have hcases : ∀ (i : Nat) (vi : VolInfo) (g : Ghost),
      (s.vols ++ [({ rawVolume := s.nextId, idx := idx, vol := v } : VolInfo)])[i]? = some vi → (ghs ++ [gh])[i]? = some g →
      (s.vols[i]? = some vi ∧ ghs[i]? = some g) ∨ (vi = { rawVolume := s.nextId, idx := idx, vol := v } ∧ g = gh) := by
    intro i vi g hv hg
    rcases getElem?_concat_cases hv with ⟨h1, h2⟩ | ⟨h1, h2⟩
    · rcases getElem?_concat_cases hg with ⟨h3, h4⟩ | ⟨h3, _⟩
      · exact .inl ⟨h2, h4⟩
      · rw [hI.len] at h3; omega
    · rcases getElem?_concat_cases hg with ⟨h3, _⟩ | ⟨_, h4⟩
      · rw [hI.len] at h3; omega
      · exact .inr ⟨h2, h4⟩
  have hrootdir : ∀ di, di ∈ s.dirs → di.rawVolume = s.nextId → di.cluster = Gen.CLUSTER_ROOT_DIR := by
    intro di hdi e
    refine hI.inertDirs di hdi fun w hw e' => hfresh (List.mem_map.2 ⟨w, hw, ?_⟩)
    rw [← e', e]
  constructor
  · refine
      { noFault := hnf, coherent := hc, unlocked := hI.unlocked
        len := by
          rw [hvols, List.length_append, List.length_append, hI.len]; rfl
        vols := ?_, handles := ?_, indices := ?_, parts := ?_, med := ?_, fileVols := ?_, openDirs := ?_, inertDirs := ?_ }
    · intro i vi g hv hg
      rw [hvols] at hv
      rcases hcases i vi g hv hg with ⟨h1, h2⟩ | ⟨rfl, rfl⟩
      · exact hI.vols i vi g h1 h2
      · exact hgv.symm
    · rw [hvols, List.map_append, List.nodup_append]
      refine ⟨hI.handles, by simp, ?_⟩
      intro a ha b hb e
      have : b = s.nextId := by simpa using hb
      rw [this] at e
      exact hfresh (e ▸ ha)
    · rw [hvols, List.map_append, List.nodup_append]
      refine ⟨hI.indices, by simp, ?_⟩
      intro a ha b hb e
      have : b = idx := by simpa using hb
      rw [this] at e
      exact hidx (e ▸ ha)
    · intro i j vi vj hv hw hij
      rw [hvols] at hv hw
      rcases getElem?_concat_cases hv with ⟨h1, h2⟩ | ⟨h1, h2⟩
      · rcases getElem?_concat_cases hw with ⟨h3, h4⟩ | ⟨h3, h4⟩
        · exact hI.parts i j vi vj h2 h4 hij
        · rw [h4]; exact (hparts vi (List.mem_of_getElem? h2)).1
      · rcases getElem?_concat_cases hw with ⟨h3, h4⟩ | ⟨h3, h4⟩
        · rw [h2]; exact (hparts vj (List.mem_of_getElem? h4)).2
        · omega
    · intro i vi g hv hg
      rw [hvols] at hv
      rw [hfiles, hdisk]
      rcases hcases i vi g hv hg with ⟨h1, h2⟩ | ⟨rfl, rfl⟩
      · exact hI.med i vi g h1 h2
      · show MedInv g.vol s.dev.disk (volFiles s s.nextId) g
        rw [hnofile, hgv]; exact hM
    · intro f hf
      obtain ⟨w, hw, e⟩ := hI.fileVols f hf
      exact ⟨w, by rw [hvols]; exact List.mem_append_left _ hw, e⟩
    · intro di hdi i vi g hv hg hdv
      rw [hvols] at hv
      rcases hcases i vi g hv hg with ⟨h1, h2⟩ | ⟨rfl, rfl⟩
      · exact hI.openDirs di hdi i vi g h1 h2 hdv
      · exact .inl (hrootdir di hdi hdv)
    · intro di hdi hno
      refine hI.inertDirs di hdi fun w hw => hno w ?_
      rw [hvols]; exact List.mem_append_left _ hw
  · intro g hg
    rw [hdisk]
    rcases List.mem_append.1 hg with h | h
    · exact hm g h
    · rw [List.mem_singleton.1 h, hgv]; exact hmir

/-- **`open_raw_volume` with several open volumes.**  Hypothesis `hnew` speaks about the SUCCESSFUL mount only: the handle it
answers is carried by no open volume (the generator wraps around after 2^32 handles), the partition it mounted overlaps
no open one, and the record it appended describes a sound volume, without open files, whose FAT copies agree, on the
present medium.  (That the open directories naming the new handle carry the root marker follows from the invariant.) -/
theorem openVolume_multi {s : Mgr} {ghs : List Ghost} (hI : VolInvN s ghs) (hm : MirrorN s ghs) (idx : Nat)
    (hnew : ∀ h s', openRawVolume idx s = (.ok h, s') → ∀ vi, s'.vols.getLast? = some vi →
      h ∉ s.vols.map (·.rawVolume) ∧ (∀ w, w ∈ s.vols → PartDisjoint w.vol vi.vol ∧ PartDisjoint vi.vol w.vol) ∧
      ∃ gh, gh.vol = vi.vol ∧ MedInv vi.vol s.dev.disk [] gh ∧ Mirror vi.vol s.dev.disk) :
    ∃ ghs', VolInvN (openRawVolume idx s).2 ghs' ∧ MirrorN (openRawVolume idx s).2 ghs' := by
  obtain ⟨t, ⟨dev', cache', rfl, hd, hf, hc⟩, hcase⟩ := openRaw_good idx s
  rcases hcase with h | ⟨v, _, h⟩
  · rw [h]
    exact ⟨ghs, volInvN_ro hI dev' cache' hd (hf.trans hI.noFault) (hc hI.coherent), mirrorN_ro hm dev' cache' hd⟩
  · obtain ⟨hfresh, hparts, gh, hgv, hM, hmir⟩ := hnew _ _ h { rawVolume := s.nextId, idx := idx, vol := v } (by
      show (s.vols ++ [_]).getLast? = _
      rw [List.getLast?_concat])
    rw [h]
    exact ⟨ghs ++ [gh], volInvN_add hI hm dev' cache' hd (hf.trans hI.noFault) (hc hI.coherent) idx v gh hfresh
      (openRawVolume_ok_idx h) hparts hgv hM hmir⟩

end Sdmmc.Lemmas.VolN
