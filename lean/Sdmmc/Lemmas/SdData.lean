/-
Lemmas for C13/C14, part 9: data blocks — exactly what `read_data` / `write_data` log, when they
fail, and what the CRC check of `read_data` means on the wire.
-/
import Sdmmc.Lemmas.SdCmd
import Sdmmc.Lemmas.SdSpi

namespace Sdmmc.Lemmas.Sd
open Sdmmc.Model Sdmmc.Model.Sd Sdmmc.Gen

variable {σ : Type} {α β : Type} (B : BusOps σ)

/-- `k` polls that all returned 0xFF. -/
def ffPolls (k : Nat) : List Event := List.replicate k (Event.poll 255)

theorem ffPolls_succ (k : Nat) : ffPolls (k + 1) = Event.poll 255 :: ffPolls k := rfl

/-- What the token wait logs. -/
def TokenWait (n : Nat) (r : SRes Nat) (evs : List Event) : Prop :=
  (∃ k g, k ≤ n ∧ g < 255 ∧ r = .ok g ∧ evs = ffPolls k ++ [.poll g]) ∨
  (∃ k, k ≤ n ∧ r = .err .Transport ∧ evs = ffPolls k ++ [.poll 256]) ∨
  (r = .err .TimeoutReadBuffer ∧ evs = ffPolls (n + 1))

theorem waitToken_tr (n : Nat) : Tr (waitToken B n) (TokenWait n) := by
  induction n with
  | zero =>
    unfold waitToken
    refine (Tr.bind (readByte_tr B) fun g => Tr.ite (fun _ => Tr.pure g) (fun _ => Tr.fail _)).conseq ?_
    rintro r evs (⟨g, e1, e2, rfl, h1, (⟨hg, rfl, rfl⟩ | ⟨hg, rfl, rfl⟩)⟩ | ⟨e, rfl, h⟩ | ⟨p, rfl, h⟩)
    · rcases h1 with ⟨g', hlt, hg', rfl⟩ | ⟨h, _⟩
      · cases hg'; exact Or.inl ⟨0, g, by omega, by omega, rfl, by simp [ffPolls]⟩
      · cases h
    · rcases h1 with ⟨g', hlt, hg', rfl⟩ | ⟨h, _⟩
      · cases hg'
        have : g = 255 := by omega
        subst this; exact Or.inr (Or.inr ⟨rfl, by simp [ffPolls]⟩)
      · cases h
    · rcases h with ⟨g', _, h, _⟩ | ⟨h, rfl⟩
      · cases h
      · cases h; exact Or.inr (Or.inl ⟨0, by omega, rfl, by simp [ffPolls]⟩)
    · rcases h with ⟨g', _, h, _⟩ | ⟨h, _⟩ <;> cases h
  | succ n ih =>
    unfold waitToken
    refine (Tr.bind (readByte_tr B) fun g => Tr.ite (fun _ => Tr.pure g)
      (fun _ => Tr.bind (delayTick_tr B) fun _ => ih)).conseq ?_
    rintro r evs (⟨g, e1, e2, rfl, h1, (⟨hg, rfl, rfl⟩ | ⟨hg, hrest⟩)⟩ | ⟨e, rfl, h⟩ | ⟨p, rfl, h⟩)
    · rcases h1 with ⟨g', hlt, hg', rfl⟩ | ⟨h, _⟩
      · cases hg'; exact Or.inl ⟨0, g, by omega, by omega, rfl, by simp [ffPolls]⟩
      · cases h
    · rcases h1 with ⟨g', hlt, hg', rfl⟩ | ⟨h, _⟩
      · cases hg'
        have : g = 255 := by omega
        subst this
        rcases hrest with ⟨_, d1, d2, rfl, ⟨_, rfl⟩, hw⟩ | ⟨e, rfl, h, _⟩ | ⟨p, rfl, h, _⟩
        · rcases hw with ⟨k, g, hk, hg, rfl, rfl⟩ | ⟨k, hk, rfl, rfl⟩ | ⟨rfl, rfl⟩
          · exact Or.inl ⟨k + 1, g, by omega, hg, rfl, by simp [ffPolls_succ]⟩
          · exact Or.inr (Or.inl ⟨k + 1, by omega, rfl, by simp [ffPolls_succ]⟩)
          · exact Or.inr (Or.inr ⟨rfl, by simp [ffPolls_succ]⟩)
        · cases h
        · cases h
      · cases h
    · rcases h with ⟨g', _, h, _⟩ | ⟨h, rfl⟩
      · cases h
      · cases h; exact Or.inr (Or.inl ⟨0, by omega, rfl, by simp [ffPolls]⟩)
    · rcases h with ⟨g', _, h, _⟩ | ⟨h, _⟩ <;> cases h

theorem TrAt.bind' {m : S σ α} {f : α → S σ β} {s : St σ} {P : SRes α → List Event → Prop}
    {Q : α → SRes β → List Event → Prop}
    (hm : TrAt m s P) (hf : ∀ a s', m s = (.ok a, s') → s'.useCrc = s.useCrc → TrAt (f a) s' (Q a)) :
    TrAt (m >>= f) s (seqP P Q) :=
  hm.bind fun a s' h => hf a s' h (by obtain ⟨_, _, h2, _⟩ := hm; rw [h] at h2; exact h2)

/-- What `read_data` logs and returns: the token wait, then (only after the start token 0xFE)
the payload transaction and the two-byte CRC transaction. -/
def ReadChunk (len : Nat) (r : SRes Bytes) (evs : List Event) : Prop :=
  (r = .err .TimeoutReadBuffer ∧ evs = ffPolls (DEFAULT_READ_RETRIES + 1)) ∨
  (∃ k, r = .err .Transport ∧ evs = ffPolls k ++ [.poll 256]) ∨
  (∃ k g, g < 255 ∧ g ≠ 254 ∧ r = .err .ReadError ∧ evs = ffPolls k ++ [.poll g]) ∨
  (∃ k, r = .err .Transport ∧ evs = ffPolls k ++ [.poll 254, .dataIn len]) ∨
  (∃ k, evs = ffPolls k ++ [.poll 254, .dataIn len, .dataIn 2] ∧
    (r = .err .Transport ∨ (∃ buf, r = .ok buf) ∨ ∃ a b, r = .err (.CrcError a b)))

theorem readData_tr (len : Nat) : Tr (readData B len) (ReadChunk len) := by
  unfold readData
  have htail : ∀ buf crcBytes : Bytes, Tr (do
      let s ← (S.get : S σ (St σ))
      if s.useCrc = true then
        if (crcBytes.getD 0 0).toNat * 256 + (crcBytes.getD 1 0).toNat ≠ crc16Nat buf then
          S.fail (SdErr.CrcError ((crcBytes.getD 0 0).toNat * 256 + (crcBytes.getD 1 0).toNat) (crc16Nat buf))
        else pure buf
      else pure buf)
      (fun r evs => evs = [] ∧ (r = .ok buf ∨ ∃ a b, r = .err (.CrcError a b))) := by
    intro buf crcBytes s
    refine TrAt.get_bind ?_
    split
    · split
      · exact (Tr.fail _ s).conseq fun r evs h => ⟨h.2, Or.inr ⟨_, _, h.1⟩⟩
      · exact (Tr.pure _ s).conseq fun r evs h => ⟨h.2, Or.inl h.1⟩
    · exact (Tr.pure _ s).conseq fun r evs h => ⟨h.2, Or.inl h.1⟩
  refine (Tr.bind (waitToken_tr B _) fun status => Tr.ite (fun _ => Tr.fail _)
    (fun _ => Tr.bind (xferEv_tr B _) fun buf => Tr.bind (xferEv_tr B _) fun crcBytes => htail buf crcBytes)).conseq ?_
  rintro r evs (⟨g, e1, e2, rfl, hw, (⟨hg, rfl, rfl⟩ | ⟨hg, hrest⟩)⟩ | ⟨e, rfl, hw⟩ | ⟨p, rfl, hw⟩)
  · -- unexpected token
    rcases hw with ⟨k, g', _, hlt, hg', rfl⟩ | ⟨k, _, h, _⟩ | ⟨h, _⟩
    · cases hg'
      exact Or.inr (Or.inr (Or.inl ⟨k, g, hlt, by simpa [DATA_START_BLOCK] using hg, rfl, by simp⟩))
    · cases h
    · cases h
  · -- start token
    have hg' : g = 254 := by simpa [DATA_START_BLOCK] using hg
    subst hg'
    rcases hw with ⟨k, g', _, hlt, hg', rfl⟩ | ⟨k, _, h, _⟩ | ⟨h, _⟩
    · cases hg'
      rcases hrest with ⟨buf, d1, d2, rfl, ⟨rfl, _⟩, h2⟩ | ⟨e, rfl, rfl, he⟩ | ⟨p, rfl, _, h⟩
      · rcases h2 with ⟨crcBytes, c1, c2, rfl, ⟨rfl, _⟩, rfl, h3⟩ | ⟨e, rfl, rfl, h⟩ | ⟨p, rfl, _, h⟩
        · refine Or.inr (Or.inr (Or.inr (Or.inr ⟨k, by simp, ?_⟩)))
          rcases h3 with h3 | h3
          · exact Or.inr (Or.inl ⟨_, h3⟩)
          · exact Or.inr (Or.inr h3)
        · refine Or.inr (Or.inr (Or.inr (Or.inr ⟨k, by simp, ?_⟩)))
          rcases h with ⟨_, h⟩ | h
          · cases h
          · cases h; exact Or.inl rfl
        · rcases h with ⟨_, h⟩ | h <;> cases h
      · rcases he with ⟨_, he⟩ | he
        · cases he
        · cases he; exact Or.inr (Or.inr (Or.inr (Or.inl ⟨k, rfl, by simp⟩)))
      · rcases h with ⟨_, h⟩ | h <;> cases h
    · cases h
    · cases h
  · rcases hw with ⟨k, g', _, _, h, _⟩ | ⟨k, _, h, rfl⟩ | ⟨h, rfl⟩
    · cases h
    · cases h; exact Or.inr (Or.inl ⟨k, rfl, rfl⟩)
    · cases h; exact Or.inl ⟨rfl, rfl⟩
  · rcases hw with ⟨k, g', _, _, h, _⟩ | ⟨k, _, h, _⟩ | ⟨h, _⟩ <;> cases h

/-- The two CRC bytes `write_data` sends.  Same body as `Sdmmc.Props.C14.crcOut`. -/
def crcOut (useCrc : Bool) (buf : Bytes) : Bytes :=
  if useCrc = true then [UInt8.ofNat (crc16Nat buf / 256), UInt8.ofNat (crc16Nat buf % 256)] else [0xFF, 0xFF]

/-- What `write_data` logs and returns. -/
def WriteChunk (u : Bool) (tok : Nat) (buf : Bytes) (r : SRes Unit) (evs : List Event) : Prop :=
  (r = .err .Transport ∧
    (evs = [.byte (UInt8.ofNat tok)] ∨ evs = [.byte (UInt8.ofNat tok), .dataOut buf] ∨
     evs = [.byte (UInt8.ofNat tok), .dataOut buf, .dataOut (crcOut u buf)] ∨
     evs = [.byte (UInt8.ofNat tok), .dataOut buf, .dataOut (crcOut u buf), .poll 256])) ∨
  (∃ st, st < 256 ∧ evs = [.byte (UInt8.ofNat tok), .dataOut buf, .dataOut (crcOut u buf), .poll st] ∧
    ((st % 32 = 5 ∧ r = .ok ()) ∨ (st % 32 ≠ 5 ∧ r = .err .WriteError)))

/-- The last step of `write_data`: read the data-response byte. -/
def WriteStatus (r : SRes Unit) (evs : List Event) : Prop :=
  (r = .err .Transport ∧ evs = [.poll 256]) ∨
  (∃ st, st < 256 ∧ evs = [.poll st] ∧ ((st % 32 = 5 ∧ r = .ok ()) ∨ (st % 32 ≠ 5 ∧ r = .err .WriteError)))

theorem writeStatus_tr : Tr (do
    let status ← readByte B
    if status % 32 ≠ DATA_RES_ACCEPTED then S.fail SdErr.WriteError else pure ()) WriteStatus := by
  refine (Tr.bind (readByte_tr B) fun status =>
    Tr.ite (c := status % 32 ≠ DATA_RES_ACCEPTED) (fun _ => Tr.fail SdErr.WriteError) (fun _ => Tr.pure ())).conseq ?_
  rintro r evs (⟨st, b1, b2, rfl, hb, h5⟩ | ⟨e, rfl, he⟩ | ⟨p, rfl, h⟩)
  · rcases hb with ⟨g, hg, hgeq, rfl⟩ | ⟨h, _⟩
    · cases hgeq
      rcases h5 with ⟨hc, rfl, rfl⟩ | ⟨hc, rfl, rfl⟩
      · exact Or.inr ⟨st, hg, by simp, Or.inr ⟨by simpa [DATA_RES_ACCEPTED] using hc, rfl⟩⟩
      · exact Or.inr ⟨st, hg, by simp, Or.inl ⟨by simpa [DATA_RES_ACCEPTED] using hc, rfl⟩⟩
    · cases h
  · rcases he with ⟨g, _, h, _⟩ | ⟨h, rfl⟩
    · cases h
    · cases h; exact Or.inl ⟨rfl, rfl⟩
  · rcases h with ⟨g, _, h, _⟩ | ⟨h, _⟩ <;> cases h

def WriteTail (u : Bool) (buf : Bytes) (r : SRes Unit) (evs : List Event) : Prop :=
  (r = .err .Transport ∧ evs = [.dataOut (crcOut u buf)]) ∨
  (∃ e2, evs = .dataOut (crcOut u buf) :: e2 ∧ WriteStatus r e2)

theorem writeTail_tr (buf : Bytes) (s : St σ) : TrAt (do
    let s ← (S.get : S σ (St σ))
    let _ ← xferEv B (.dataOut (if s.useCrc = true then
      [UInt8.ofNat (crc16Nat buf / 256), UInt8.ofNat (crc16Nat buf % 256)] else [0xFF, 0xFF]))
    let status ← readByte B
    if status % 32 ≠ DATA_RES_ACCEPTED then S.fail SdErr.WriteError else pure ()) s
    (WriteTail s.useCrc buf) := by
  refine TrAt.get_bind ?_
  refine ((Tr.bind (xferEv_tr B (.dataOut (crcOut s.useCrc buf))) fun _ => writeStatus_tr B) s).conseq ?_
  rintro r evs (⟨_, e1, e2, rfl, ⟨rfl, _⟩, h2⟩ | ⟨e, rfl, rfl, he⟩ | ⟨p, rfl, _, h⟩)
  · exact Or.inr ⟨e2, rfl, h2⟩
  · rcases he with ⟨_, h⟩ | h
    · cases h
    · cases h; exact Or.inl ⟨rfl, rfl⟩
  · rcases h with ⟨_, h⟩ | h <;> cases h

theorem writeData_tr (tok : Nat) (buf : Bytes) (s : St σ) :
    TrAt (writeData B tok buf) s (WriteChunk s.useCrc tok buf) := by
  unfold writeData
  refine ((writeByte_tr B _ s).bind' fun _ s1 _ hu1 => (xferEv_tr B _ s1).bind' fun _ s2 _ hu2 =>
    (hu2.trans hu1) ▸ writeTail_tr B buf s2).conseq ?_
  rintro r evs (⟨_, e1, e2, rfl, ⟨rfl, _⟩, h2⟩ | ⟨e, rfl, rfl, he⟩ | ⟨p, rfl, _, h⟩)
  · rcases h2 with ⟨_, d1, d2, rfl, ⟨rfl, _⟩, h3⟩ | ⟨e, rfl, rfl, he⟩ | ⟨p, rfl, _, h⟩
    · rcases h3 with ⟨rfl, rfl⟩ | ⟨c2, rfl, h4⟩
      · exact Or.inl ⟨rfl, Or.inr (Or.inr (Or.inl (by simp)))⟩
      · rcases h4 with ⟨rfl, rfl⟩ | ⟨st, hst, rfl, h5⟩
        · exact Or.inl ⟨rfl, Or.inr (Or.inr (Or.inr (by simp)))⟩
        · exact Or.inr ⟨st, hst, by simp, h5⟩
    · rcases he with ⟨_, h⟩ | h
      · cases h
      · cases h; exact Or.inl ⟨rfl, Or.inr (Or.inl (by simp))⟩
    · rcases h with ⟨_, h⟩ | h <;> cases h
  · rcases he with h | h
    · cases h
    · cases h; exact Or.inl ⟨rfl, Or.inl rfl⟩
  · rcases h with h | h <;> cases h

/-! ### Consequences for C13 -/

theorem crcOut_length (u : Bool) (buf : Bytes) : (crcOut u buf).length = 2 := by
  cases u <;> rfl

/-- A data block the card does not acknowledge as accepted is an error, in either CRC mode:
if the last thing `write_data` did was to read the data-response byte `st` and
`st & 0x1F ≠ 0b00101`, it returns `WriteError` (`Transport` if that read itself failed,
which the log shows as 256). -/
theorem unacknowledged_write_is_error (tok : Nat) (buf : Bytes) (s : St σ) (st : Nat)
    (h : (writeData B tok buf s).2.events.head? = some (.poll st)) (hst : st % 32 ≠ 5) :
    (writeData B tok buf s).1 = .err (if st = 256 then .Transport else .WriteError) := by
  obtain ⟨evs, h1, _, _, h4⟩ := writeData_tr B tok buf s
  rw [h1] at h
  rcases h4 with ⟨hr, (rfl | rfl | rfl | rfl)⟩ | ⟨st', hlt, rfl, h5⟩
  · simp at h
  · simp at h
  · simp at h
  · simp at h; subst h; simpa using hr
  · simp at h; subst h
    rcases h5 with ⟨h5, _⟩ | ⟨_, hr⟩
    · exact absurd h5 hst
    · rw [hr, if_neg (by omega)]

/-- `write_data` succeeds only if the data-response byte said "accepted". -/
theorem write_ok_acknowledged (tok : Nat) (buf : Bytes) (s : St σ)
    (h : (writeData B tok buf s).1 = .ok ()) :
    ∃ st, (writeData B tok buf s).2.events.head? = some (.poll st) ∧ st % 32 = 5 := by
  obtain ⟨evs, h1, _, _, h4⟩ := writeData_tr B tok buf s
  rw [h] at h4
  rcases h4 with ⟨hr, _⟩ | ⟨st', hlt, rfl, h5⟩
  · cases hr
  · rcases h5 with ⟨h5, _⟩ | ⟨_, hr⟩
    · exact ⟨st', by rw [h1]; simp, h5⟩
    · cases hr

theorem traffic_of_events {s s' : St σ} {evs : List Event} (h : s'.events = evs.reverse ++ s.events) :
    traffic s' = evTraffic evs + traffic s := by
  simp [traffic, evTraffic, h, List.sum_reverse]

/-- Without an SPI error `write_data` puts exactly token + payload + 2 CRC bytes + 1 poll on the bus. -/
theorem writeData_traffic_exact (tok : Nat) (buf : Bytes) (s : St σ)
    (h : (writeData B tok buf s).1 ≠ .err .Transport) :
    traffic (writeData B tok buf s).2 = traffic s + (1 + buf.length + 2 + 1) := by
  obtain ⟨evs, h1, _, _, h4⟩ := writeData_tr B tok buf s
  rw [traffic_of_events h1]
  rcases h4 with ⟨hr, _⟩ | ⟨st', hlt, rfl, _⟩
  · exact absurd hr h
  · simp [evTraffic, Event.bytes, crcOut_length]; omega

theorem head?_reverse_ffPolls_succ (k : Nat) (l : List Event) :
    ((ffPolls (k + 1)).reverse ++ l).head? = some (.poll 255) := by
  rw [ffPolls, List.reverse_replicate, List.replicate_succ]
  rfl

/-- An unexpected token is an error, in either CRC mode: if the last byte `read_data` fetched
is neither 0xFF (still waiting) nor the start token 0xFE (nor an SPI failure, logged as 256),
everything before it was 0xFF and the result is `ReadError`. -/
theorem unexpected_token_is_error (len : Nat) (s : St σ) (g : Nat)
    (h : (readData B len s).2.events.head? = some (.poll g)) (hg : g < 255) (hne : g ≠ 254) :
    (readData B len s).1 = .err .ReadError ∧ ∃ k, evsNew s (readData B len s).2 = ffPolls k ++ [.poll g] := by
  obtain ⟨evs, h1, _, _, h4⟩ := readData_tr B len s
  rw [evsNew_of_eq h1]
  rw [h1] at h
  rcases h4 with ⟨_, rfl⟩ | ⟨k, _, rfl⟩ | ⟨k, g', _, _, hr, rfl⟩ | ⟨k, _, rfl⟩ | ⟨k, rfl, _⟩
  · rw [head?_reverse_ffPolls_succ] at h
    cases h; omega
  · simp at h; omega
  · simp at h; subst h; exact ⟨hr, k, rfl⟩
  · simp at h
  · simp at h

/-! ### The status check of a single-block write -/

/-- A single-block write up to (not including) the status query: CMD24, the data block, the
busy wait.  Same body as `Sdmmc.Props.C13.writeSingleData`. -/
def writeSingleData (B : BusOps σ) (b : Bytes) (start : Nat) : S σ Unit := do
  let _ ← cardCommand B CMD24 start
  writeData B DATA_START_BLOCK b
  waitNotBusy B DEFAULT_WRITE_RETRIES

/-- The status query that ends a single-block write: CMD13, whose R2 answer is the R1 byte
returned by `card_command` plus one more byte.  Same body as `Sdmmc.Props.C13.writeStatusCheck`. -/
def writeStatusCheck (B : BusOps σ) : S σ Unit := do
  let r ← cardCommand B CMD13 0
  if r ≠ 0 then S.fail .WriteError else
  let r2 ← readByte B
  if r2 ≠ 0 then S.fail .WriteError else pure ()

/-- `write` of one block is exactly: address, data phase, status check. -/
theorem write_single_eq (b : Bytes) (idx : Nat) : write B [b] idx = (do
    let s ← S.get
    let start ← S.lift (startIdx s.cardType idx)
    writeSingleData B b start
    writeStatusCheck B) := by
  funext s
  simp only [write, writeSingleData, writeStatusCheck, bind_apply, get_apply, lift_apply]
  cases startIdx s.cardType idx <;> simp only []
  rcases cardCommand B CMD24 _ s with ⟨r1, s1⟩
  cases r1 <;> simp only []
  rcases writeData B DATA_START_BLOCK b s1 with ⟨r2, s2⟩
  cases r2 <;> simp only []

/-- A single-block write whose status the card reports as failed is an error, in either CRC
mode: if CMD13's R1 byte is not zero, or the byte after it is not zero, `write` returns `WriteError`. -/
theorem failed_status_is_error (b : Bytes) (idx start : Nat) (s s1 : St σ)
    (hstart : startIdx s.cardType idx = .ok start) (hpre : writeSingleData B b start s = (.ok (), s1))
    (r : Nat) (s2 : St σ) (h13 : cardCommand B CMD13 0 s1 = (.ok r, s2)) :
    (r ≠ 0 → write B [b] idx s = (.err .WriteError, s2)) ∧
    (r = 0 → ∀ r2 s3, readByte B s2 = (.ok r2, s3) → r2 ≠ 0 → write B [b] idx s = (.err .WriteError, s3)) := by
  rw [write_single_eq]
  simp only [bind_apply, get_apply, lift_apply, hstart, hpre, writeStatusCheck, h13]
  constructor
  · intro hr; simp [hr]
  · intro hr r2 s3 hrb hr2; simp [hr, hrb, hr2]

/-! ### The CRC check of `read_data`, on the recorded bus -/

theorem xferEv_rec (ev : Event) (s : St (σ × Transcript)) :
    xferEv (recBus B) ev s =
      match (B.xfer s.bus.1 ev.bytes).2 with
      | some miso => (.ok miso, { s with bus := ((B.xfer s.bus.1 ev.bytes).1, (ev.bytes, some miso) :: s.bus.2),
                                          events := ev :: s.events })
      | none => (.err .Transport, { s with bus := ((B.xfer s.bus.1 ev.bytes).1, (ev.bytes, none) :: s.bus.2),
                                           events := ev :: s.events }) := by
  unfold xferEv recBus
  rcases h : B.xfer s.bus.1 ev.bytes with ⟨b', r⟩
  cases r <;> simp [h]

/-- `read_data` returns `ok buf` only if the last two transactions on the bus were the payload
transaction, answered with `buf`, and the two-byte CRC transaction, answered with bytes that —
when CRC checking is on — are the big-endian CRC-16 of `buf`. -/
theorem read_ok_implies_crc (len : Nat) (s s' : St (σ × Transcript)) (buf : Bytes)
    (h : readData (recBus B) len s = (.ok buf, s')) :
    ∃ crcBytes t, s'.bus.2 = (List.replicate 2 0xFF, some crcBytes) :: (List.replicate len 0xFF, some buf) :: t ∧
      (s.useCrc = true → (crcBytes.getD 0 0).toNat * 256 + (crcBytes.getD 1 0).toNat = crc16Nat buf) := by
  obtain ⟨_, _, hu, _, _⟩ := waitToken_tr (recBus B) DEFAULT_READ_RETRIES s
  unfold readData at h
  rw [bind_apply] at h
  rcases hw : waitToken (recBus B) DEFAULT_READ_RETRIES s with ⟨r1, s1⟩
  rw [hw] at h hu
  simp only at hu
  cases r1 with
  | err e => simp at h
  | panic p => simp at h
  | ok status =>
    simp only at h
    split at h
    · simp at h
    · rw [bind_apply, xferEv_rec] at h
      rcases hx1 : (B.xfer s1.bus.1 (Event.dataIn len).bytes).2 with _ | buf1
      · rw [hx1] at h; simp at h
      · rw [hx1] at h
        simp only at h
        rw [bind_apply, xferEv_rec] at h
        simp only at h
        rcases hx2 : (B.xfer (B.xfer s1.bus.1 (Event.dataIn len).bytes).1 (Event.dataIn 2).bytes).2 with _ | crc1
        · rw [hx2] at h; simp at h
        · rw [hx2] at h
          simp only [bind_apply, get_apply] at h
          refine ⟨crc1, s1.bus.2, ?_, ?_⟩
          · split at h
            · split at h
              · simp at h
              · simp at h; obtain ⟨rfl, rfl⟩ := h; rfl
            · simp at h; obtain ⟨rfl, rfl⟩ := h; rfl
          · intro hcrc
            rw [← hu] at hcrc
            rw [if_pos hcrc] at h
            split at h
            · simp at h
            · next hc =>
              simp at h; obtain ⟨rfl, _⟩ := h
              simpa using hc

end Sdmmc.Lemmas.Sd
