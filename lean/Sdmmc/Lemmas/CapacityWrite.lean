/-
Capacity (C05, second sentence), part 3 — the call `write` with exact cluster accounting:
`write_count` is `WriteRefines.write_refines` (same proof) with three more conclusions: the free
clusters that disappeared are exactly the clusters the chain gained (the first cluster of an empty
file included); unless the call ended with `NotEnoughSpace` the chain has exactly
`max (max cs.length 1) ⌈(offset + k) / bytes per cluster⌉` clusters; and (below `MAX_FILE_SIZE`)
`DiskFull` is reported only with the chain filled to its last byte.
-/
import Sdmmc.Lemmas.CapacityLoop
import Sdmmc.Lemmas.WriteRefinesCall

namespace Sdmmc.Lemmas.Capacity
open Sdmmc.Model Sdmmc.Model.Fat Sdmmc.Spec
open Sdmmc.Lemmas.FBasic hiding NoFault Coherent
open Sdmmc.Lemmas.FatOps hiding BlocksOK Mirror HintOK
open Sdmmc.Lemmas.ChainL Sdmmc.Lemmas.ForestBase Sdmmc.Lemmas.ForestOwns Sdmmc.Lemmas.ReadRefines
open Sdmmc.Lemmas.WriteRefines

/-- `WriteRefines.writeRest_spec` with exact cluster accounting. -/
theorem writeRest_count (i vi : Nat) (A B : List (List Nat)) (sc : Mgr) (fc : FileInfo) (v1 : VolInfo) (cs1 : List Nat)
    (rv : Nat) (data : Bytes) (hfc : sc.files[i]? = some fc)
    (hv : sc.vols.findIdx? (·.rawVolume = rv) = some vi)
    (hinv : WInv i vi A B { sc with files := sc.files.set i (fixup fc) } (fixup fc) v1 cs1) :
    ∃ k r s' f' v' cs', writeRest rv i data sc = (r, s') ∧ k ≤ data.length ∧
      ((r = .ok () ∧ k = data.length) ∨
       (r = .err .DiskFull ∧ k < data.length ∧
         (Full v'.vol s'.dev.disk ∨ Gen.MAX_FILE_SIZE ≤ (fixup fc).currentOffset + k))) ∧
      WInv i vi A B s' f' v' cs' ∧
      WProg i vi { sc with files := sc.files.set i (fixup fc) } s' (fixup fc) f' v1 v' cs1 cs' (data.take k) ∧
      freeCount v1.vol sc.dev.disk = freeCount v'.vol s'.dev.disk + (cs'.length - cs1.length) ∧
      cs'.length = max cs1.length (cdiv ((fixup fc).currentOffset + k) (clusterBytesLen v1.vol)) ∧
      ((fixup fc).currentOffset + data.length ≤ Gen.MAX_FILE_SIZE → r = .err .DiskFull →
        (fixup fc).currentOffset + k = cs'.length * clusterBytesLen v1.vol) := by
  generalize hn : min data.length (Gen.MAX_FILE_SIZE - (fixup fc).currentOffset) = n
  have hnle : n ≤ data.length := by omega
  have hlen : (data.take n).length = n := by rw [List.length_take]; omega
  obtain ⟨k, r, s', f', v', cs', hrun, hk, hres, hinv', hprog, hfcnt, hlenc, hdf⟩ :=
    writeLoop_count i vi A B (n + 1) (data.take n) _ _ _ _ (by omega) hinv
  rw [hlen] at hk hres
  rw [List.take_take, Nat.min_eq_left hk] at hprog
  have hrunEq : writeRest rv i data sc =
      (writeLoop i vi (n + 1) (data.take n) >>= fun _ => if n < data.length then M.fail .DiskFull else pure ())
        { sc with files := sc.files.set i (fixup fc) } := by
    unfold writeRest
    rw [MHoare.bind_ok (MHoare.getVolumeById_ok hv)]
    show (modifyFile i fixup >>= _) sc = _
    have hmod : modifyFile i fixup sc = (.ok (), { sc with files := sc.files.set i (fixup fc) }) := by
      show (Res.ok (), ({ sc with files := sc.files.modify i fixup } : Mgr)) = _
      rw [modify_eq_set _ _ _ _ hfc]
    rw [MHoare.bind_ok hmod, MHoare.bind_ok (MHoare.getFile_ok hinv.file)]
    simp only [hn]
  rcases hres with ⟨hr, hkn⟩ | ⟨hr, hkn, hfull⟩
  · subst hr
    by_cases hcut : n < data.length
    · refine ⟨k, .err .DiskFull, s', f', v', cs', ?_, by omega, .inr ⟨rfl, by omega, .inr (by omega)⟩, hinv', hprog,
        hfcnt, hlenc, fun hmax _ => by omega⟩
      rw [hrunEq, MHoare.bind_ok hrun, if_pos hcut]
      rfl
    · refine ⟨k, .ok (), s', f', v', cs', ?_, by omega, .inl ⟨rfl, by omega⟩, hinv', hprog, hfcnt, hlenc,
        fun _ hr => by cases hr⟩
      rw [hrunEq, MHoare.bind_ok hrun, if_neg hcut]
      rfl
  · subst hr
    refine ⟨k, .err .DiskFull, s', f', v', cs', ?_, by omega, .inr ⟨rfl, by omega, .inl hfull⟩, hinv', hprog, hfcnt, hlenc,
      fun _ _ => hdf rfl⟩
    rw [hrunEq, MHoare.bind_err hrun]


/-- `write` with exact cluster accounting (see the header). -/
theorem write_count (s : Mgr) (h i vi : Nat) (data : Bytes) (f : FileInfo) (v : VolInfo) (cs : List Nat)
    (A B : List (List Nat)) (hs : MOK s)
    (hh : s.files.findIdx? (·.rawFile = h) = some i) (hf : s.files[i]? = some f)
    (hv : s.vols.findIdx? (·.rawVolume = f.rawVolume) = some vi) (hvi : s.vols[vi]? = some v)
    (hmode : f.mode ≠ .ReadOnly) (hg : WFGeom v.vol) (hhint : HintOK v.vol)
    (hok : FileOK v.vol s.dev.disk f cs) (hcur : cs = [] → f.curCluster < 2)
    (hown : Owns v.vol s.dev.disk (withChain A cs B))
    (hmax : f.currentOffset + data.length ≤ Gen.MAX_FILE_SIZE) :
    ∃ k r s' f' v' cs', Model.write h data s = (r, s') ∧ k ≤ data.length ∧
      ((r = .ok () ∧ k = data.length) ∨
       (r = .err .DiskFull ∧ k < data.length ∧ cs' ≠ [] ∧
         (Full v'.vol s'.dev.disk ∨ Gen.MAX_FILE_SIZE ≤ f.currentOffset + k)) ∨
       (r = .err .NotEnoughSpace ∧ k = 0 ∧ cs' = [] ∧ Full v'.vol s'.dev.disk)) ∧
      s' = { s with dev := s'.dev, cache := s'.cache, files := s.files.set i f', vols := s.vols.set vi v' } ∧
      v' = { v with vol := v'.vol } ∧ SameGeom v.vol v'.vol ∧
      absFile v'.vol s'.dev.disk f' cs' = (absFile v.vol s.dev.disk f cs).write (data.take k) ∧
      FileOK v'.vol s'.dev.disk f' cs' ∧ (cs' = [] → f'.curCluster < 2) ∧ cs <+: cs' ∧
      Owns v'.vol s'.dev.disk (withChain A cs' B) ∧ MOK s' ∧ HintOK v'.vol ∧ WFGeom v'.vol ∧
      Touch v.vol cs' s.dev s'.dev ∧ WriteFile s.clock f f' k ∧
      freeCount v.vol s.dev.disk = freeCount v'.vol s'.dev.disk + (cs'.length - cs.length) ∧
      (r ≠ .err .NotEnoughSpace →
        cs'.length = max (max cs.length 1) (cdiv (f.currentOffset + k) (clusterBytesLen v.vol))) ∧
      (r = .err .DiskFull → f.currentOffset + k = cs'.length * clusterBytesLen v.vol) := by
  obtain ⟨hnf, hcoh, hblk, hunl⟩ := hs
  have hilt : i < s.files.length := (List.getElem?_eq_some_iff.1 hf).1
  have hvilt : vi < s.vols.length := (List.getElem?_eq_some_iff.1 hvi).1
  rw [write_run s h i vi data f hh hf hv hmode]
  generalize hfa : touchFile s.clock f = fa
  have hfa_cl : fa.entry.cluster = f.entry.cluster := by rw [← hfa]; rfl
  have hfa_cur : fa.curCluster = f.curCluster ∧ fa.curClusterOff = f.curClusterOff := by rw [← hfa]; exact ⟨rfl, rfl⟩
  have hfa_off : fa.currentOffset = f.currentOffset := by rw [← hfa]; rfl
  have hfa_size : fa.entry.size = f.entry.size := by rw [← hfa]; rfl
  have hfa_rv : fa.rawVolume = f.rawVolume := by rw [← hfa]; rfl
  -- the common end: from a loop outcome to the statement
  have hfinish : ∀ (sd : Mgr) (fd : FileInfo) (v1 : VolInfo) (cs1 : List Nat) (k : Nat) (r : Res Unit) (s' : Mgr)
      (f' : FileInfo) (v' : VolInfo) (cs' : List Nat),
      WStep i vi s sd fd v1 → cs <+: cs1 → SameGeom v.vol v1.vol → v1 = { v with vol := v1.vol } →
      fileContent v1.vol sd.dev.disk cs1 fd.entry.size = fileContent v.vol s.dev.disk cs f.entry.size →
      fd.currentOffset = f.currentOffset → fd.entry.size = f.entry.size → Touch v.vol cs1 s.dev sd.dev →
      PreFile s.clock f fd → k ≤ data.length →
      ((r = .ok () ∧ k = data.length) ∨
       (r = .err .DiskFull ∧ k < data.length ∧ (Full v'.vol s'.dev.disk ∨ Gen.MAX_FILE_SIZE ≤ fd.currentOffset + k))) →
      WInv i vi A B s' f' v' cs' → WProg i vi sd s' fd f' v1 v' cs1 cs' (data.take k) →
      freeCount v.vol s.dev.disk = freeCount v1.vol sd.dev.disk + (cs1.length - cs.length) →
      cs1.length = max cs.length 1 →
      freeCount v1.vol sd.dev.disk = freeCount v'.vol s'.dev.disk + (cs'.length - cs1.length) →
      cs'.length = max cs1.length (cdiv (fd.currentOffset + k) (clusterBytesLen v1.vol)) →
      (r = .err .DiskFull → fd.currentOffset + k = cs'.length * clusterBytesLen v1.vol) →
      k ≤ data.length ∧
      ((r = .ok () ∧ k = data.length) ∨
       (r = .err .DiskFull ∧ k < data.length ∧ cs' ≠ [] ∧
         (Full v'.vol s'.dev.disk ∨ Gen.MAX_FILE_SIZE ≤ f.currentOffset + k)) ∨
       (r = .err .NotEnoughSpace ∧ k = 0 ∧ cs' = [] ∧ Full v'.vol s'.dev.disk)) ∧
      s' = { s with dev := s'.dev, cache := s'.cache, files := s.files.set i f', vols := s.vols.set vi v' } ∧
      v' = { v with vol := v'.vol } ∧ SameGeom v.vol v'.vol ∧
      absFile v'.vol s'.dev.disk f' cs' = (absFile v.vol s.dev.disk f cs).write (data.take k) ∧
      FileOK v'.vol s'.dev.disk f' cs' ∧ (cs' = [] → f'.curCluster < 2) ∧ cs <+: cs' ∧
      Owns v'.vol s'.dev.disk (withChain A cs' B) ∧ MOK s' ∧ HintOK v'.vol ∧ WFGeom v'.vol ∧
      Touch v.vol cs' s.dev s'.dev ∧ WriteFile s.clock f f' k ∧
      freeCount v.vol s.dev.disk = freeCount v'.vol s'.dev.disk + (cs'.length - cs.length) ∧
      (r ≠ .err .NotEnoughSpace →
        cs'.length = max (max cs.length 1) (cdiv (f.currentOffset + k) (clusterBytesLen v.vol))) ∧
      (r = .err .DiskFull → f.currentOffset + k = cs'.length * clusterBytesLen v.vol) := by
    intro sd fd v1 cs1 k r s' f' v' cs' hstep hpre hsg hvid hcont hoff hsize htouch hprefile hk hres hinv' hprog
      hc1 hc2 hc3 hc4 hc5
    have hl1 : cs.length ≤ cs1.length := hpre.length_le
    have hl2 : cs1.length ≤ cs'.length := hprog.pre.length_le
    have hsg' : SameGeom v.vol v'.vol := hsg.trans hprog.geom
    have htk : (data.take k).length = k := by rw [List.length_take]; omega
    refine ⟨hk, ?_, (hstep.trans hprog.step).eq, volInfo_vid_trans hvid hprog.vid, hsg', ?_, hinv'.fileOK,
      fun e => absurd e hinv'.ne, hpre.trans hprog.pre, by rw [withChain_ne hinv'.ne]; exact hinv'.owns, hinv'.ok,
      hinv'.hint, hinv'.geom, ?_, ?_, by omega,
      fun _ => by rw [hc4, hc2, hoff, sameGeom_clusterBytesLen hsg],
      fun hr => by have := hc5 hr; rw [hoff, sameGeom_clusterBytesLen hsg] at this; exact this⟩
    · rcases hres with h1 | ⟨h1, h2, h3⟩
      · exact .inl h1
      · exact .inr (.inl ⟨h1, h2, hinv'.ne, by rw [← hoff]; exact h3⟩)
    · rw [sameGeom_absFile hsg', byteFile_write_eq]
      show ({ bytes := fileContent v.vol s'.dev.disk cs' f'.entry.size, pos := f'.currentOffset } : ByteFile) =
        { bytes := splice (fileContent v.vol s.dev.disk cs f.entry.size) f.currentOffset (data.take k),
          pos := f.currentOffset + (data.take k).length }
      have hc := hprog.content
      rw [hcont, sameGeom_fileContent hsg, hoff] at hc
      rw [hc, hprog.off, hoff]
    · exact (htouch.mono fun x hx => hprog.pre.mem hx).trans (Touch.sameGeom hsg hprog.touch)
    · have h1 := hprog.off
      have h2 := hprog.size
      rw [htk] at h1 h2
      exact writeFile_of s.clock f fd f' k hprefile hprog.file h1 h2
  by_cases hcl : f.entry.cluster < 2
  · -- an empty file that owns no cluster: the first cluster is allocated
    have hcs : cs = [] ∧ f.entry.size = 0 := by
      rcases hok.chain with ⟨_, h1, h2⟩ | h1
      · exact ⟨h1, h2⟩
      · have := (chain_inRange h1 _ (chain_head_mem h1)).1
        omega
    obtain ⟨hcsnil, hsize0⟩ := hcs
    subst hcsnil
    have hoff0 : f.currentOffset = 0 := by have := hok.pos_le; omega
    rw [withChain_nil] at hown
    have hcurlt := hcur rfl
    generalize hsa : ({ s with files := s.files.set i fa } : Mgr) = sa
    have hsa_vol : sa.vols[vi]? = some v := by rw [← hsa]; exact hvi
    have hfs : fsOf sa v = fsOf s v := by rw [← hsa]; rfl
    have hready : Ready (fsOf s v) := ⟨hnf, hcoh, hblk, hg, hhint⟩
    have hallocM := withVol_run vi (allocCluster none false) sa v hsa_vol
    rw [hfs] at hallocM
    have hcond : f.entry.cluster < Gen.RESERVED_ENTRIES := hcl
    rcases ForestAlloc.alloc_total (fsOf s v) none false hnf hcoh with ⟨c, fs2, ha⟩ | ⟨fs2, ha, hd2, hv2, hn2, hc2⟩
    · -- the allocation succeeded
      obtain ⟨hready2, hown2, hsg, hrc⟩ := owns_insert (fsOf s v) fs2 A B c hready hown ha
      obtain ⟨_, _, _, _, _, _, _, hcfree, hceof, _, hcother, _⟩ :=
        ForestAlloc.alloc_spec (fsOf s v) fs2 none false c hnf hcoh hblk hg hhint (fun p hp => by cases hp) ha
      have hcount : freeCount v.vol s.dev.disk = freeCount v.vol fs2.dev.disk + 1 := by
        refine ForestCount.freeCount_add (v := v.vol) (d := fs2.dev.disk) (d' := s.dev.disk) [c]
          (List.nodup_cons.2 ⟨List.not_mem_nil, List.nodup_nil⟩) ?_ ?_ ?_ ?_
        · intro x hx; rw [List.mem_singleton] at hx; subst hx; exact hrc
        · intro x hx; rw [List.mem_singleton] at hx; subst hx; exact (not_free_of_eof hceof).1
        · intro x hx; rw [List.mem_singleton] at hx; subst hx; exact hcfree
        · intro x hxr hxc
          have hxc' : x ≠ c := fun e => hxc (by rw [e]; exact List.mem_singleton.2 rfl)
          exact (ForestStep.isFree_congr_raw (hcother x hxr.2 hxc' (fun e => by cases e))).symm
      simp only [fsOf_vol] at hsg hrc
      obtain ⟨_, _, _, _, _, hframe⟩ := DirFat.alloc_frame (fsOf s v) fs2 none false c hnf hcoh hblk hg hhint
        (fun q hq => by cases hq) ha
      obtain ⟨sZ, s3, s4, ch⟩ := alloc_chain (fsOf s v) fs2 none false c hnf hcoh ha
      rw [ha] at hallocM
      simp only at hallocM
      generalize hv1def : ({ v with vol := fs2.vol } : VolInfo) = v1 at hallocM
      have hv1vol : v1.vol = fs2.vol := by rw [← hv1def]
      have hsg' : SameGeom v.vol v1.vol := by rw [hv1vol]; exact hsg
      -- the record before the loop
      generalize hfcdef : ({ fa with entry := { fa.entry with cluster := c } } : FileInfo) = fc
      have hfix : fixup fc = { fc with curClusterOff := 0, curCluster := c } := by
        unfold fixup
        have h1 : fc.curCluster < fc.entry.cluster := by
          rw [← hfcdef]; show fa.curCluster < c; rw [hfa_cur.1]; have := hrc.1; omega
        rw [if_pos h1, ← hfcdef]
      generalize hfddef : fixup fc = fd at hfix
      generalize hscdef : ({ sa with dev := fs2.dev, cache := fs2.cache, vols := sa.vols.set vi v1, files := (s.files.set i fa).set i fc } : Mgr) = sc
      have hsc_files : sc.files = s.files.set i fc := by rw [← hscdef, ← hsa]; simp only [List.set_set]
      have hsc_vols : sc.vols = s.vols.set vi v1 := by rw [← hscdef, ← hsa]
      have hfc : sc.files[i]? = some fc := by rw [hsc_files]; exact List.getElem?_set_self hilt
      have hvfind : sc.vols.findIdx? (·.rawVolume = f.rawVolume) = some vi := by
        rw [hsc_vols, findIdx?_set_same _ s.vols vi v v1 hvi (by rw [← hv1def])]; exact hv
      generalize hsddef : ({ sc with files := sc.files.set i fd } : Mgr) = sd
      have hsd_eq : sd = { s with dev := fs2.dev, cache := fs2.cache, files := s.files.set i fd, vols := s.vols.set vi v1 } := by
        rw [← hsddef, hsc_files, List.set_set, ← hscdef, ← hsa]
      have hfd_fields : fd.entry.cluster = c ∧ fd.curCluster = c ∧ fd.curClusterOff = 0 ∧ fd.currentOffset = 0 ∧
          fd.entry.size = 0 := by
        rw [hfix, ← hfcdef]
        exact ⟨rfl, rfl, rfl, by show fa.currentOffset = 0; rw [hfa_off, hoff0], by show fa.entry.size = 0; rw [hfa_size, hsize0]⟩
      obtain ⟨hd_cl, hd_cur, hd_co, hd_off, hd_size⟩ := hfd_fields
      have hchain1 : Chain v1.vol fs2.dev.disk c [c] := by
        have := hown2.1 [c] (List.mem_append_left _ (List.mem_append_right _ (List.mem_singleton.2 rfl)))
        rw [hv1vol]; exact this
      have hinv : WInv i vi A B sd fd v1 [c] := by
        rw [hsd_eq]
        refine ⟨⟨hready2.noFault, hready2.coherent, hready2.blocksOK, hunl⟩, List.getElem?_set_self hilt,
          List.getElem?_set_self hvilt, by rw [hv1vol]; exact hready2.geom, by rw [hv1vol]; exact hready2.hint, ?_,
          by simp, by rw [hv1vol]; exact hown2⟩
        refine ⟨.inr (by rw [hd_cl]; exact hchain1), by rw [hd_size]; exact Nat.zero_le _, by rw [hd_off, hd_size]; exact Nat.le_refl _,
          .inr ⟨0, by simp, by rw [hd_co, Nat.zero_mul], by rw [hd_cur]; rfl⟩⟩
      have hrest := writeRest_count i vi A B sc fc v1 [c] f.rawVolume data hfc hvfind
        (by rw [hfddef, hsddef]; exact hinv)
      rw [hfddef, hsddef] at hrest
      obtain ⟨k, r, s', f', v', cs', hrun, hk, hres, hinv', hprog, hfcnt, hlenc, hdfc⟩ := hrest
      have hscdev : sc.dev = fs2.dev := by rw [← hscdef]
      have hsddev : sd.dev = fs2.dev := by rw [hsd_eq]
      refine ⟨k, r, s', f', v', cs', ?_, ?_⟩
      · unfold writeTail
        rw [if_pos hcond]
        rw [MHoare.bind_ok hallocM]
        have hmodc : modifyFile i (fun f => { f with entry := { f.entry with cluster := c } })
            { sa with dev := fs2.dev, cache := fs2.cache, vols := sa.vols.set vi v1 } = (.ok (), sc) := by
          show (Res.ok (), _) = _
          congr 1
          rw [← hscdef, ← hsa, ← hfcdef]
          show ({ s with dev := fs2.dev, cache := fs2.cache, vols := s.vols.set vi v1, files := (s.files.set i fa).modify i _ } : Mgr) = _
          rw [modify_eq_set _ _ _ _ (List.getElem?_set_self hilt)]
        rw [MHoare.bind_ok hmodc]
        exact hrun
      · refine hfinish sd fd v1 [c] k r s' f' v' cs' ⟨by rw [hsd_eq]⟩ (List.nil_prefix) hsg' (by rw [← hv1def]) ?_
          (by rw [hd_off, hoff0]) (by rw [hd_size, hsize0]) ?_ ?_ hk hres hinv' hprog ?_ ?_ ?_ ?_ ?_
        · rw [hd_size, hsize0, fileContent_zero, fileContent_zero]
        · have hcE : c < endCluster v.vol := hrc.2
          refine ⟨fun b hb1 _ => ?_, ?_⟩
          · rw [hsd_eq]
            show fs2.dev.disk.get b = s.dev.disk.get b
            exact hframe b (fun hm => hb1 (isFatBlock_of_mem hcE hm)) (fun p hp => by cases hp) (fun hz => by cases hz.1)
          · have hlink : s4 = s3 := ch.link
            refine ⟨fatWriteLog v.vol c (fatPayload sZ c Gen.CLUSTER_END_OF_FILE), ?_, fun w hw => .inl ?_⟩
            · rw [hsd_eq]
              show fs2.dev.wlog = _
              rw [ch.wlog', hlink, ch.wlog3, ch.wlogZ]
              simp only [zeroLog, Bool.false_eq_true, if_false, List.nil_append]
              rfl
            · exact isFatBlock_of_mem hcE (mem_fatWriteLog hw)
        · unfold PreFile
          rw [hfix, ← hfcdef, ← hfa]
          rfl
        · rw [hsddev, hsg'.freeCount]; exact hcount
        · rfl
        · rw [hsddev, ← hscdev]; exact hfcnt
        · exact hlenc
        · exact hdfc (by rw [hd_off, ← hoff0]; exact hmax)
    · -- the volume is full: `NotEnoughSpace`, nothing written
      rw [ha] at hallocM
      simp only at hallocM
      have hvself : ({ v with vol := fs2.vol } : VolInfo) = v := by rw [hv2]; rfl
      rw [hvself, list_set_self _ _ _ hsa_vol] at hallocM
      have hfull : Full v.vol s.dev.disk := by
        intro c hc hfree
        obtain ⟨c', fs', ha'⟩ := alloc_succeeds_if_free (fsOf s v) none false hnf hcoh hhint ⟨c, hc.1, hc.2, hfree⟩
        rw [ha] at ha'; cases ha'
      have hwl : fs2.dev.wlog = s.dev.wlog := by
        have := (alloc_fails_if_full (fsOf s v) none false hnf hcoh hhint ?_).2
        · rw [ha] at this; exact this
        · intro c h2 hE hfree
          exact hfull c ⟨h2, hE⟩ hfree
      refine ⟨0, .err .NotEnoughSpace, { sa with dev := fs2.dev, cache := fs2.cache }, fa, v, [], ?_, Nat.zero_le _,
        .inr (.inr ⟨rfl, rfl, rfl, by show Full v.vol fs2.dev.disk; rw [hd2]; exact hfull⟩), ?_, rfl, SameGeom.refl _, ?_, ?_,
        fun _ => by rw [hfa_cur.1]; exact hcurlt, List.prefix_refl _, ?_, ⟨hn2, hc2, ?_, ?_⟩, hhint, hg,
        Touch.of_eq (by show fs2.dev.disk = _; rw [hd2]; rfl) hwl, ?_,
        by show freeCount v.vol s.dev.disk = freeCount v.vol fs2.dev.disk + _; rw [hd2]; rfl,
        fun hne => absurd rfl hne, fun hr => by cases hr⟩
      · unfold writeTail
        rw [if_pos hcond]
        rw [MHoare.bind_err hallocM]
      · rw [← hsa]
        show _ = ({ s with dev := fs2.dev, cache := fs2.cache, files := s.files.set i fa, vols := s.vols.set vi v } : Mgr)
        rw [list_set_self _ _ _ hvi]
      · rw [List.take_zero, byteFile_write_eq, splice_nil]
        show ({ bytes := fileContent v.vol fs2.dev.disk [] fa.entry.size, pos := fa.currentOffset } : ByteFile) =
          { bytes := fileContent v.vol s.dev.disk [] f.entry.size, pos := f.currentOffset + 0 }
        rw [hfa_size, hfa_off, hd2]; rfl
      · show FileOK v.vol fs2.dev.disk fa []
        exact ⟨.inl ⟨by rw [hfa_cl]; exact hcl, rfl, by rw [hfa_size]; exact hsize0⟩, by rw [hfa_size, hsize0]; exact Nat.zero_le _,
          by rw [hfa_off, hfa_size]; exact hok.pos_le, .inl rfl⟩
      · rw [withChain_nil]
        show Owns v.vol fs2.dev.disk _
        rw [hd2]; exact hown
      · intro j; show (fs2.dev.disk.get j).length = 512; rw [hd2]; exact hblk j
      · rw [← hsa]; exact hunl
      · unfold WriteFile
        rw [← hfa]
        show touchFile s.clock f = _
        unfold touchFile
        rw [Nat.add_zero, Nat.max_eq_left hok.pos_le]
  · -- the file owns clusters
    have hch : Chain v.vol s.dev.disk f.entry.cluster cs := by
      rcases hok.chain with ⟨h1, _, _⟩ | h1
      · exact absurd h1 hcl
      · exact h1
    have hne : cs ≠ [] := chain_ne_nil hch
    rw [withChain_ne hne] at hown
    have hcond : ¬ f.entry.cluster < Gen.RESERVED_ENTRIES := hcl
    generalize hsa : ({ s with files := s.files.set i fa } : Mgr) = sa
    have hfc : sa.files[i]? = some fa := by rw [← hsa]; exact List.getElem?_set_self hilt
    have hvfind : sa.vols.findIdx? (·.rawVolume = f.rawVolume) = some vi := by rw [← hsa]; exact hv
    generalize hfddef : fixup fa = fd
    have hfd_fields : fd.entry = fa.entry ∧ fd.currentOffset = fa.currentOffset := by
      rw [← hfddef]; unfold fixup; split <;> exact ⟨rfl, rfl⟩
    obtain ⟨hd_entry, hd_off⟩ := hfd_fields
    have hd_cursor : ∃ k, k < cs.length ∧ fd.curClusterOff = k * clusterBytesLen v.vol ∧ cs[k]? = some fd.curCluster := by
      rcases hok.cursor with hnil | ⟨k0, hk0, hk0off, hk0c⟩
      · exact absurd hnil hne
      · rw [← hfddef]
        unfold fixup
        split
        · exact ⟨0, chain_length_pos hch, by show 0 = _; rw [Nat.zero_mul], by
            show cs[0]? = some fa.entry.cluster; rw [hfa_cl]; exact chain_get_zero hch⟩
        · exact ⟨k0, hk0, by rw [hfa_cur.2]; exact hk0off, by rw [hfa_cur.1]; exact hk0c⟩
    generalize hsddef : ({ sa with files := sa.files.set i fd } : Mgr) = sd
    have hsd_eq : sd = { s with files := s.files.set i fd } := by
      rw [← hsddef, ← hsa]
      show ({ s with files := (s.files.set i fa).set i fd } : Mgr) = _
      rw [List.set_set]
    have hinv : WInv i vi A B sd fd v cs := by
      rw [hsd_eq]
      refine ⟨⟨hnf, hcoh, hblk, hunl⟩, List.getElem?_set_self hilt, hvi, hg, hhint, ?_, hne, hown⟩
      refine ⟨.inr (by rw [hd_entry, hfa_cl]; exact hch), by rw [hd_entry, hfa_size]; exact hok.size_fits,
        by rw [hd_off, hd_entry, hfa_off, hfa_size]; exact hok.pos_le, .inr hd_cursor⟩
    have hrest := writeRest_count i vi A B sa fa v cs f.rawVolume data hfc hvfind
      (by rw [hfddef, hsddef]; exact hinv)
    rw [hfddef, hsddef] at hrest
    obtain ⟨k, r, s', f', v', cs', hrun, hk, hres, hinv', hprog, hfcnt, hlenc, hdfc⟩ := hrest
    have hsadev : sa.dev = s.dev := by rw [← hsa]
    have hsddev : sd.dev = s.dev := by rw [hsd_eq]
    refine ⟨k, r, s', f', v', cs', ?_, ?_⟩
    · unfold writeTail
      rw [if_neg hcond]
      exact hrun
    · refine hfinish sd fd v cs k r s' f' v' cs' ⟨?_⟩ (List.prefix_refl _) (SameGeom.refl _) rfl ?_
        (by rw [hd_off, hfa_off]) (by rw [hd_entry, hfa_size]) (Touch.of_eq (by rw [hsd_eq]) (by rw [hsd_eq])) ?_ hk hres hinv' hprog ?_ ?_ ?_ ?_ ?_
      · rw [hsd_eq]
        show _ = ({ s with files := s.files.set i fd, vols := s.vols.set vi v } : Mgr)
        rw [list_set_self _ _ _ hvi]
      · rw [hsd_eq, hd_entry, hfa_size]
      · unfold PreFile
        rw [← hfddef, ← hfa]
        unfold fixup
        split <;> rfl
      · rw [hsddev, Nat.sub_self, Nat.add_zero]
      · have := chain_length_pos hch; omega
      · rw [hsddev, ← hsadev]; exact hfcnt
      · exact hlenc
      · exact hdfc (by rw [hd_off, hfa_off]; exact hmax)


end Sdmmc.Lemmas.Capacity
