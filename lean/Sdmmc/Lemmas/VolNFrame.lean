/-
Several open volumes: which blocks `close_volume` can change — only the FAT32 info sector of the volume being closed.
-/
import Sdmmc.Lemmas.VolNVol

namespace Sdmmc.Lemmas.VolN
open Sdmmc.Model Sdmmc.Model.Fat Sdmmc.Spec.Volume
open Sdmmc.Spec hiding NoFault Coherent run step
open Sdmmc.Lemmas.MHoare Sdmmc.Lemmas.VolMed

theorem closeVolume_disk {s : Mgr} {ghs : List Ghost} (hI : VolInvN s ghs) (v b : Nat)
    (hb : (closeVolume v s).2.dev.disk.get b ≠ s.dev.disk.get b) :
    ∃ (k : Nat) (vi : VolInfo), s.vols[k]? = some vi ∧ vi.rawVolume = v ∧ regionOf vi.vol b = .info := by
  unfold closeVolume at hb
  rw [get_bind] at hb
  by_cases hfa : (s.files.any (·.rawVolume = v)) = true
  · rw [if_pos hfa] at hb; exact absurd rfl hb
  rw [if_neg hfa] at hb
  by_cases hda : (s.dirs.any (·.rawVolume = v)) = true
  · rw [if_pos hda] at hb; exact absurd rfl hb
  rw [if_neg hda] at hb
  cases hv : s.vols.findIdx? (·.rawVolume = v) with
  | none => rw [bind_err (getVolumeById_bad hv)] at hb; exact absurd rfl hb
  | some k =>
    obtain ⟨vi, hvi, hp⟩ := findIdx?_some_get hv
    have hraw : vi.rawVolume = v := by simpa using hp
    rw [bind_ok (getVolumeById_ok hv)] at hb
    have hklt : k < s.vols.length := (List.getElem?_eq_some_iff.1 hvi).1
    obtain ⟨gh, hgh⟩ : ∃ gh, ghs[k]? = some gh := ⟨_, List.getElem?_eq_getElem (by rw [hI.len]; exact hklt)⟩
    have hvol := hI.vols k vi gh hvi hgh
    have hMX : MedX vi.vol s.dev.disk (volFiles s vi.rawVolume) gh [] := by
      rw [hvol]; exact medX_of_med (hI.med k vi gh hvi hgh)
    obtain ⟨fs', hr, _, _, _, _, hfr⟩ :=
      updateInfo_frame (fs := { dev := s.dev, cache := s.cache, vol := vi.vol }) hMX hI.noFault hI.coherent
    have hw := DirMgr.withVol_eq k updateInfoSector s vi hvi
    rw [hr] at hw
    rw [bind_ok hw] at hb
    refine ⟨k, vi, hvi, hraw, ?_⟩
    by_contra hne
    exact hb (hfr b hne)

end Sdmmc.Lemmas.VolN
