/-
Helpers for the headline theorem `Props/C11Main2.lean`: the licence clauses (objects no call names are intact; the medium
mounts) along histories from the invariant with size slack, with no restriction on where device calls fail.
-/
import Sdmmc.Lemmas.DLicXRun
import Sdmmc.Lemmas.FaultDSpec

namespace Sdmmc.Lemmas.MainC11D
open Sdmmc.Model Sdmmc.Model.Fat Sdmmc.Spec.Volume
open Sdmmc.Spec hiding NoFault Coherent
open Sdmmc.Lemmas.FaultInv Sdmmc.Lemmas.Retry Sdmmc.Lemmas.FaultHist
open Sdmmc.Lemmas.WriteSetInv (LicenceFor NotNamed)
open Sdmmc.Lemmas.VolD

variable {sk : Nat} {X : List (List Nat)}

/-- One licence per call, each described in the state its call is issued in; an object none of the first `n` licences names
is intact after the first `n` calls. -/
theorem others_D (ops : List Op) {s : Mgr} {gh : Ghost} (hI : VolInvD sk X (mclr s) gh) (hR : FaultX.RawAll s)
    (hc : CoveredRunF s ops) (hn : NotDamagedRun s ops) :
    ∃ Ls : List Licence, Ls.length = ops.length ∧
      (∀ L, L ∈ Ls → ∃ n op sk' gh' X', ops[n]? = some op ∧ VolInvD sk' X' (mclr (run s (ops.take n)).1) gh' ∧
        SameGeom gh.vol gh'.vol ∧
        LicenceFor gh' (run s (ops.take n)).1.files (run s (ops.take n)).1.dirs (run s (ops.take n)).1.dev.disk op L) ∧
      ∀ (n sb so c : Nat) (cs : List Nat), Chain gh.vol s.dev.disk c cs →
        (regionOf gh.vol sb = .root ∨ regionOf gh.vol sb = .data) → so % 32 = 0 →
        (∀ L, L ∈ Ls.take n → NotNamed gh.vol L sb so cs) →
        slice ((run s (ops.take n)).1.dev.disk.get sb) so 32 = slice (s.dev.disk.get sb) so 32 ∧
        Chain gh.vol (run s (ops.take n)).1.dev.disk c cs ∧
        chainBytes gh.vol (run s (ops.take n)).1.dev.disk cs = chainBytes gh.vol s.dev.disk cs := by
  obtain ⟨sk', _, Ls, hRun, _⟩ := runLic1_ofD gh.vol ops ⟨⟨gh, X, hI, SameGeom.refl _⟩, hR⟩ (SameGeom.refl _) hc hn
  refine ⟨Ls, runLic1_length hRun, fun L hL => ?_, ?_⟩
  · obtain ⟨n, op, gh', X', h1, h2, h3, h4⟩ := runLic1_nth hRun L hL
    exact ⟨n, op, sk', gh', X', h1, h2, h3, h4⟩
  · intro n sb so c cs hch hreg hso hnn
    exact unnamed_unchanged_1 hI.med.geom (runLic1_take hRun n) hI.med.blocksOK sb so c cs hch hreg hso hnn

/-- The medium keeps mounting. -/
theorem mounts_D (ops : List Op) {s : Mgr} {gh : Ghost} (hI : VolInvD sk X (mclr s) gh) (hR : FaultX.RawAll s)
    (hc : CoveredRunF s ops) (hn : NotDamagedRun s ops) (n : Nat) (idx : Nat) (vm : FatVolume)
    (hmt : mountPure (s.dev.disk.get 0) idx s.dev.disk.get = .ok vm) (hsg : SameGeom vm gh.vol) :
    ∃ w, mountPure ((run s (ops.take n)).1.dev.disk.get 0) idx (run s (ops.take n)).1.dev.disk.get = .ok w ∧
      SameGeom gh.vol w := by
  obtain ⟨sk', _, Ls, hRun, _⟩ := runLic1_ofD gh.vol ops ⟨⟨gh, X, hI, SameGeom.refl _⟩, hR⟩ (SameGeom.refl _) hc hn
  exact runLic1_mounts hI.med.geom (runLic1_take hRun n) hI.med.blocksOK idx vm hmt hsg

/-- The closing calls. -/
def isClose : Op → Bool
  | .closeFile _ | .closeDir _ | .closeVolume _ => true
  | _ => false

theorem closes_covered : ∀ (ops : List Op) (s : Mgr), (∀ op, op ∈ ops → isClose op = true) →
    CoveredRunF s ops ∧ NotDamagedRun s ops
  | [], _, _ => ⟨trivial, trivial⟩
  | op :: ops, s, h => by
    have h1 := h op List.mem_cons_self
    obtain ⟨a, b⟩ := closes_covered ops (step s op).1 fun o ho => h o (List.mem_cons_of_mem _ ho)
    refine ⟨⟨?_, a⟩, ⟨?_, b⟩⟩
    · cases op <;> first | trivial | cases h1
    · cases op <;> first | trivial | cases h1

theorem closeList_isClose (fs ds vs : List Nat) :
    ∀ op, op ∈ fs.map Op.closeFile ++ ds.map Op.closeDir ++ vs.map Op.closeVolume → isClose op = true := by
  intro op h
  simp only [List.mem_append, List.mem_map] at h
  rcases h with (⟨_, _, rfl⟩ | ⟨_, _, rfl⟩) | ⟨_, _, rfl⟩ <;> rfl

/-- Closing handles keeps the medium mounting. -/
theorem closes_mount {s : Mgr} {gh : Ghost} (hI : VolInvD sk X (mclr s) gh) (hR : FaultX.RawAll s) (fs ds vs : List Nat)
    (idx : Nat) (vm : FatVolume) (hmt : mountPure (s.dev.disk.get 0) idx s.dev.disk.get = .ok vm) (hsg : SameGeom vm gh.vol) :
    ∃ w, mountPure ((run s (fs.map Op.closeFile ++ ds.map Op.closeDir ++ vs.map Op.closeVolume)).1.dev.disk.get 0) idx
        (run s (fs.map Op.closeFile ++ ds.map Op.closeDir ++ vs.map Op.closeVolume)).1.dev.disk.get = .ok w ∧
      SameGeom gh.vol w := by
  obtain ⟨a, b⟩ := closes_covered _ s (closeList_isClose fs ds vs)
  have := mounts_D _ hI hR a b (fs.map Op.closeFile ++ ds.map Op.closeDir ++ vs.map Op.closeVolume).length idx vm hmt hsg
  rw [List.take_length] at this
  exact this

end Sdmmc.Lemmas.MainC11D
