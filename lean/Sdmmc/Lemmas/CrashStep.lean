/-
Crash points of one `FatOp` on a state satisfying the history invariant `Exact`: at EVERY prefix of
the device writes of the call (`CrashAll`), the crashed medium satisfies `StepCrash`:

* `sound`: the client's record before the call or after it is structurally sound (`OwnsLoose`);
  for `free` it is the record with the chain removed (`freed`) — the chain being freed is broken
  while it is walked;
* `others`: the FAT entries of every chain the operation does not work on read as before the call;
* `blocks`: a non-FAT block differs from before only if the operation blanks its new cluster, and then
  it is a block of a cluster that was free before the call;
* `zeroed`: when the operation blanks its new cluster, a cluster that was free before the call and is
  marked at the crash point is entirely blank;
* `leak`: every cluster in use on the crashed medium belongs to the record before or after the call —
  what a crash can lose are clusters of the chain being worked on, nothing else;
* `mirror`: if the two FAT copies were identical before the call, they are identical at the crash point
  except possibly in one sector.
-/
import Sdmmc.Lemmas.CrashAlloc

namespace Sdmmc.Lemmas.CrashStep
open Sdmmc.Model Sdmmc.Model.Fat Sdmmc.Spec
open Sdmmc.Lemmas.FBasic hiding NoFault Coherent
open Sdmmc.Lemmas.FatOps hiding BlocksOK Mirror HintOK
open Sdmmc.Lemmas.ChainL Sdmmc.Lemmas.ForestBase Sdmmc.Lemmas.ForestTrunc Sdmmc.Lemmas.ForestAlloc
open Sdmmc.Lemmas.ForestOwns Sdmmc.Lemmas.ForestStep Sdmmc.Lemmas.CrashBase Sdmmc.Lemmas.CrashFat
open Sdmmc.Lemmas.CrashAlloc

/-- What holds of a crashed medium `d` of one step (`d0` the medium, `G` the record before the step,
`G'` the record after it). -/
structure StepCrash (v : FatVolume) (d0 : Disk) (G G' : List (List Nat)) (op : FatOp) (d : Disk) : Prop where
  sound : OwnsLoose v d G ∨ OwnsLoose v d G'
  freed : (∃ i, op = .free i) → OwnsLoose v d G'
  others : ∀ j X, G[j]? = some X → opIndex op ≠ some j → ∀ x, x ∈ X → fatRaw v d x = fatRaw v d0 x
  blocks : ∀ i, regionOf v i ≠ .fat → d.get i ≠ d0.get i →
    opZero op = true ∧ ∃ c, InRange v c ∧ isFree v d0 c ∧ InCluster v c i
  zeroed : opZero op = true → ∀ c, InRange v c → isFree v d0 c → ¬ isFree v d c → ClusterZero v d c
  leak : ∀ y, isUsed v d y → y ∈ G.flatten ∨ y ∈ G'.flatten
  mirror : Mirror v d0 → MirrorBut v d

/-- Nothing written: the medium before the step, with either record equal to the old one. -/
theorem stepCrash_refl {v : FatVolume} {d0 : Disk} {G : List (List Nat)} (op : FatOp) (ho : Owns v d0 G) :
    StepCrash v d0 G G op d0 :=
  ⟨.inl (ownsLoose_of_owns ho), fun _ => ownsLoose_of_owns ho, fun _ _ _ _ _ _ => rfl,
   fun _ _ h => absurd rfl h, fun _ _ _ hf hn => absurd hf hn, fun y hy => .inl ((ho.2.2 y).1 hy),
   mirrorBut_of_mirror⟩

/-- The chains at other indices lie in the part of the record before or behind chain `i`. -/
theorem mem_split_of_ne {G : List (List Nat)} {i j : Nat} {X : List Nat} (hj : G[j]? = some X) (hne : j ≠ i)
    {x : Nat} (hx : x ∈ X) : x ∈ (G.take i).flatten ∨ x ∈ (G.drop (i + 1)).flatten := by
  rcases Nat.lt_or_gt_of_ne hne with hlt | hgt
  · refine .inl (mem_flatten_of_mem (cs := X) ?_ hx)
    have : (G.take i)[j]? = some X := by rw [List.getElem?_take_of_lt hlt]; exact hj
    exact List.mem_of_getElem? this
  · refine .inr (mem_flatten_of_mem (cs := X) ?_ hx)
    have : (G.drop (i + 1))[j - (i + 1)]? = some X := by
      rw [List.getElem?_drop, show i + 1 + (j - (i + 1)) = j by omega]; exact hj
    exact List.mem_of_getElem? this

theorem mem_flatten_of_get {G : List (List Nat)} {j : Nat} {X : List Nat} (hj : G[j]? = some X) {x : Nat} (hx : x ∈ X) :
    x ∈ G.flatten :=
  mem_flatten_of_mem (List.mem_of_getElem? hj) hx

/-! ### Allocation (new chain, extension) -/

/-- The common part of `newChain` and `extend`: a successful allocation whose end state is described
by the record `G'`. -/
theorem alloc_stepCrash (s s' : FS) (G G' : List (List Nat)) (prev : Option Nat) (zero : Bool) (c : Nat)
    (hr : Ready s) (ho : Owns s.vol s.dev.disk G) (hp : ∀ p, prev = some p → p ∈ G.flatten)
    (h : allocCluster prev zero s = (.ok c, s')) (ho' : Owns s'.vol s'.dev.disk G') :
    CrashAll (fun d =>
      (OwnsLoose s.vol d G ∨ OwnsLoose s.vol d G') ∧
      (∀ x, x ∈ G.flatten → prev ≠ some x → fatRaw s.vol d x = fatRaw s.vol s.dev.disk x) ∧
      (∀ i, regionOf s.vol i ≠ .fat → d.get i ≠ s.dev.disk.get i →
        zero = true ∧ ∃ c, InRange s.vol c ∧ isFree s.vol s.dev.disk c ∧ InCluster s.vol c i) ∧
      (zero = true → ∀ c', InRange s.vol c' → isFree s.vol s.dev.disk c' → ¬ isFree s.vol d c' → ClusterZero s.vol d c') ∧
      (∀ y, isUsed s.vol d y → y ∈ G.flatten ∨ y ∈ G'.flatten) ∧
      (Mirror s.vol s.dev.disk → MirrorBut s.vol d))
      s s' := by
  have hpu : ∀ p, prev = some p → isUsed s.vol s.dev.disk p := fun p hp' => owns_mem_used ho (hp p hp')
  obtain ⟨_, _, _, hsg, _, _, hrc, hfree, heof, _, _, _⟩ :=
    alloc_spec s s' prev zero c hr.noFault hr.coherent hr.blocksOK hr.geom hr.hint
      (fun q hq => ⟨(hpu q hq).1.2, (hpu q hq).2.1⟩) h
  obtain ⟨hcr, hWfin⟩ := alloc_crash s s' prev zero c hr.noFault hr.coherent hr.blocksOK hr.geom hr.hint
    (fun q hq => (hpu q hq).1.2) h
  have hcG : c ∉ G.flatten := fun hx => free_not_used hfree (owns_mem_used ho hx)
  have hfin : OwnsLoose s.vol s'.dev.disk G' := ownsLoose_sameGeom hsg.symm (ownsLoose_of_owns ho')
  -- entries of the old record on a medium that differs in `touched ⊆ c :: prev`
  have hkeep : ∀ (d : Disk) (t : List Nat), (∀ y, y ∈ t → y = c ∨ prev = some y) →
      Within s.vol s.dev.disk d t (zeroing s.vol zero c) →
      ∀ x, x ∈ G.flatten → prev ≠ some x → fatRaw s.vol d x = fatRaw s.vol s.dev.disk x := fun d t ht hw x hx hnp =>
    hw.other x (owns_mem_used ho hx).1.2 fun hm => (ht x hm).elim (fun e => hcG (e ▸ hx)) (fun e => hnp e)
  have hblocks : ∀ (d : Disk) (t : List Nat), Within s.vol s.dev.disk d t (zeroing s.vol zero c) →
      ∀ i, regionOf s.vol i ≠ .fat → d.get i ≠ s.dev.disk.get i →
        zero = true ∧ ∃ c, InRange s.vol c ∧ isFree s.vol s.dev.disk c ∧ InCluster s.vol c i := fun d t hw i hi hne => by
    by_cases hz : zeroing s.vol zero c i
    · exact ⟨hz.1, c, hrc, hfree, hz.2⟩
    · exact absurd (hw.nonFat i hi hz) hne
  -- a cluster that was free and is marked now is `c`
  have hmarked : ∀ (d : Disk) (t : List Nat), (∀ y, y ∈ t → y = c ∨ prev = some y) →
      Within s.vol s.dev.disk d t (zeroing s.vol zero c) →
      ∀ c', InRange s.vol c' → isFree s.vol s.dev.disk c' → ¬ isFree s.vol d c' → c' = c := fun d t ht hw c' hr' hf' hnf => by
    refine Classical.byContradiction fun hne => hnf ((isFree_congr_raw (hw.other c' hr'.2 fun hm => ?_)).2 hf')
    exact (ht c' hm).elim hne (fun e => (hpu c' e).2.1 hf')
  have hcG' : c ∈ G'.flatten := (ho'.2.2 c).1 ((hsg.isUsed _ _).2 ⟨hrc, not_free_of_eof heof⟩)
  have hused : ∀ (d : Disk) (t : List Nat), (∀ y, y ∈ t → y = c ∨ prev = some y) →
      Within s.vol s.dev.disk d t (zeroing s.vol zero c) →
      ∀ y, isUsed s.vol d y → y ∈ G.flatten ∨ y ∈ G'.flatten := fun d t ht hw y hy => by
    by_cases hm : y ∈ t
    · exact (ht y hm).elim (fun e => .inr (e ▸ hcG')) (fun e => .inl (hp y e))
    · exact .inl ((ho.2.2 y).1 ((isUsed_congr_raw (hw.other y hy.1.2 hm)).1 hy))
  refine hcr.mono fun d hd => ?_
  obtain ⟨hd, hlag⟩ := hd
  rcases hd with hA | ⟨hB, _, hzB⟩ | ⟨hC, hzC⟩
  · refine ⟨.inl (ownsLoose_congr (ownsLoose_of_owns ho) fun x hx => hA.other x (owns_mem_used ho hx).1.2 List.not_mem_nil),
      hkeep d [] (fun _ hy => by cases hy) hA, hblocks d [] hA, fun _ c' hr' hf' hnf => ?_,
      hused d [] (fun _ hy => by cases hy) hA, hlag⟩
    exact absurd ((isFree_congr_raw (hA.other c' hr'.2 List.not_mem_nil)).2 hf') hnf
  · have ht : ∀ y, y ∈ [c] → y = c ∨ prev = some y := fun y hy => .inl (List.mem_singleton.1 hy)
    refine ⟨.inl (ownsLoose_congr (ownsLoose_of_owns ho) fun x hx =>
        hB.other x (owns_mem_used ho hx).1.2 fun hm => hcG (List.mem_singleton.1 hm ▸ hx)),
      hkeep d [c] ht hB, hblocks d [c] hB, fun hz c' hr' hf' hnf => ?_, hused d [c] ht hB, hlag⟩
    rw [hmarked d [c] ht hB c' hr' hf' hnf]
    exact hzB hz
  · have hW : Within s.vol s.dev.disk d (c :: prev.toList) (zeroing s.vol zero c) := hWfin.view hC
    have ht : ∀ y, y ∈ c :: prev.toList → y = c ∨ prev = some y := fun y hy => by
      rcases List.mem_cons.1 hy with hy | hy
      · exact .inl hy
      · exact .inr (by cases prev with
          | none => cases hy
          | some p => rw [Option.toList_some, List.mem_singleton] at hy; rw [hy])
    refine ⟨.inr (ownsLoose_view hfin hC), hkeep d _ ht hW, hblocks d _ hW, fun hz c' hr' hf' hnf => ?_,
      hused d _ ht hW, hlag⟩
    rw [hmarked d _ ht hW c' hr' hf' hnf]
    exact hzC hz

/-- A failing allocation (volume full) writes nothing. -/
theorem alloc_cases (s : FS) (prev : Option Nat) (zero : Bool) (hn : NoFault s) (hc : Coherent s) :
    (∃ c s', allocCluster prev zero s = (.ok c, s')) ∨
    (∃ s', allocCluster prev zero s = (.err .NotEnoughSpace, s') ∧ RO s s') := by
  cases hp : pick s.vol s.dev.disk with
  | some c =>
    obtain ⟨_, _, _, s', ch⟩ := alloc_forward s prev zero c hn hc hp
    exact .inl ⟨c, s', ch.run⟩
  | none =>
    obtain ⟨s1, h1, ro1, _, _⟩ := allocPick_eq s hn hc
    rw [hp] at h1
    exact .inr ⟨s1, by rw [allocCluster_seq, bind_err h1], ro1⟩

/-! ### Truncation and deletion -/

theorem truncate_stepCrash (s : FS) (A B : List (List Nat)) (pre tail : List Nat) (x : Nat) (hr : Ready s)
    (ho : Owns s.vol s.dev.disk (A ++ [pre ++ x :: tail] ++ B)) :
    ∃ s', truncateClusterChain x s = (.ok (), s') ∧
      CrashAll (fun d =>
        (OwnsLoose s.vol d (A ++ [pre ++ x :: tail] ++ B) ∨ OwnsLoose s.vol d (A ++ [pre ++ [x]] ++ B)) ∧
        (∀ z, z ∈ A.flatten ∨ z ∈ B.flatten → fatRaw s.vol d z = fatRaw s.vol s.dev.disk z) ∧
        (∀ i, regionOf s.vol i ≠ .fat → d.get i = s.dev.disk.get i) ∧
        (∀ y, isUsed s.vol d y → y ∈ (A ++ [pre ++ x :: tail] ++ B).flatten) ∧
        (Mirror s.vol s.dev.disk → MirrorBut s.vol d)) s s' := by
  have hch : Chain s.vol s.dev.disk ((pre ++ x :: tail).headD 0) (pre ++ x :: tail) :=
    ho.1 _ (List.mem_append_left _ (List.mem_append_right _ (List.mem_singleton.2 rfl)))
  obtain ⟨s', ht, hcr⟩ := truncate_crash s _ x pre tail hr.noFault hr.coherent hr.blocksOK hr.geom hch
  refine ⟨s', ht, hcr.mono fun d hd => ?_⟩
  have hmemG : ∀ z, z ∈ A.flatten ∨ z ∈ B.flatten → z ∈ (A ++ [pre ++ x :: tail] ++ B).flatten := fun z hz =>
    (mem_flatten3 _ _ _ z).2 (hz.elim .inl (fun h => .inr (.inr h)))
  have hnodup := ho.2.1
  rw [flatten3, nodup3, flatten_one] at hnodup
  obtain ⟨_, ncs, _, dAM, _, dMB⟩ := hnodup
  obtain ⟨hxt, hxp, hpre, ntail⟩ := nodup_split ncs
  obtain ⟨hd, hlag⟩ := hd
  rcases hd with hv | ⟨j, _, hst⟩
  · exact ⟨.inl (ownsLoose_view (ownsLoose_of_owns ho) hv),
      fun z hz => hv.fatRaw (owns_mem_used ho (hmemG z hz)).1.2, hv.nonFat,
      fun y hy => (ho.2.2 y).1 ((isUsed_congr_raw (hv.fatRaw hy.1.2)).1 hy), hlag⟩
  · have hkeep : ∀ z, z ∈ A.flatten ∨ z ∈ B.flatten → fatRaw s.vol d z = fatRaw s.vol s.dev.disk z := fun z hz =>
      hst.within.other z (owns_mem_used ho (hmemG z hz)).1.2 fun hm => by
        have hm' : z ∈ pre ++ x :: tail := by
          rcases List.mem_append.1 hm with hm | hm
          · rw [List.mem_singleton.1 hm]; exact List.mem_append_right _ List.mem_cons_self
          · exact List.mem_append_right _ (List.mem_cons_of_mem _ (List.mem_of_mem_take hm))
        exact hz.elim (fun hA => dAM z hA hm') (fun hB => dMB z hm' hB)
    have hsub : ∀ z, z ∈ pre ++ [x] → z ∈ pre ++ x :: tail := fun z hz => by
      rcases List.mem_append.1 hz with hz | hz
      · exact List.mem_append_left _ hz
      · rw [List.mem_singleton] at hz; subst hz; exact List.mem_append_right _ List.mem_cons_self
    have hch' : Chain s.vol d ((pre ++ [x]).headD 0) (pre ++ [x]) := by
      have hhd : (pre ++ [x]).headD 0 = (pre ++ x :: tail).headD 0 := by cases pre <;> rfl
      rw [hhd]
      refine chain_cut pre hch rfl (hst.eof x (List.mem_singleton.2 rfl)) fun y hy => ?_
      refine nextOf_congr rfl (hst.within.other y (chain_inRange hch y (List.mem_append_left _ hy)).2 fun hm => ?_)
      rcases List.mem_append.1 hm with hm | hm
      · exact hxp (List.mem_singleton.1 hm ▸ hy)
      · exact hpre y hy (List.mem_cons_of_mem _ (List.mem_of_mem_take hm))
    have hleak : ∀ y, isUsed s.vol d y → y ∈ (A ++ [pre ++ x :: tail] ++ B).flatten := fun y hy => by
      by_cases hm : y ∈ [x] ++ tail.take j
      · refine (mem_flatten3 _ _ _ y).2 (.inr (.inl ?_))
        rw [flatten_one]
        rcases List.mem_append.1 hm with hm | hm
        · rw [List.mem_singleton.1 hm]; exact List.mem_append_right _ List.mem_cons_self
        · exact List.mem_append_right _ (List.mem_cons_of_mem _ (List.mem_of_mem_take hm))
      · exact (ho.2.2 y).1 ((isUsed_congr_raw (hst.within.other y hy.1.2 hm)).1 hy)
    refine ⟨.inr (ownsLoose_splice (ownsLoose_of_owns ho) hkeep ?_ ?_), hkeep, fun i hi => hst.within.nonFat i hi id,
      hleak, hlag⟩
    · refine ⟨fun cs hcs => ?_, ?_, fun z hz => ?_⟩
      · rw [List.mem_singleton.1 hcs]; exact hch'
      · rw [flatten_one]; exact chain_nodup hch'
      · rw [flatten_one] at hz; exact chain_mem_used hch' z hz
    · intro z hz
      rw [flatten_one] at hz
      exact ⟨fun hA => dAM z hA (hsub z hz), fun hB => dMB z (hsub z hz) hB⟩

theorem free_stepCrash (s : FS) (A B : List (List Nat)) (r : Nat) (tail : List Nat) (hr : Ready s)
    (ho : Owns s.vol s.dev.disk (A ++ [r :: tail] ++ B)) :
    ∃ s', freeClusterChain r s = (.ok (), s') ∧
      CrashAll (fun d =>
        OwnsLoose s.vol d (A ++ [] ++ B) ∧
        (∀ z, z ∈ A.flatten ∨ z ∈ B.flatten → fatRaw s.vol d z = fatRaw s.vol s.dev.disk z) ∧
        (∀ i, regionOf s.vol i ≠ .fat → d.get i = s.dev.disk.get i) ∧
        (∀ y, isUsed s.vol d y → y ∈ (A ++ [r :: tail] ++ B).flatten) ∧
        (Mirror s.vol s.dev.disk → MirrorBut s.vol d)) s s' := by
  have hch : Chain s.vol s.dev.disk r (r :: tail) :=
    ho.1 _ (List.mem_append_left _ (List.mem_append_right _ (List.mem_singleton.2 rfl)))
  obtain ⟨s', hf, hcr⟩ := free_crash s r tail hr.noFault hr.coherent hr.blocksOK hr.geom hch
  refine ⟨s', hf, hcr.mono fun d hd => ?_⟩
  have hmemG : ∀ z, z ∈ A.flatten ∨ z ∈ B.flatten → z ∈ (A ++ [r :: tail] ++ B).flatten := fun z hz =>
    (mem_flatten3 _ _ _ z).2 (hz.elim .inl (fun h => .inr (.inr h)))
  have hnodup := ho.2.1
  rw [flatten3, nodup3, flatten_one] at hnodup
  obtain ⟨_, _, _, dAM, _, dMB⟩ := hnodup
  -- in every stage the medium differs from the start at most in the entries of the chain
  obtain ⟨hd, hlag⟩ := hd
  have hw : Within s.vol s.dev.disk d (r :: tail) clean := by
    rcases hd with (hv | ⟨j, _, hst⟩) | hst
    · exact hv.within _ _
    · exact hst.within.mono (fun y hy => by
        rcases List.mem_append.1 hy with hy | hy
        · rw [List.mem_singleton.1 hy]; exact List.mem_cons_self
        · exact List.mem_cons_of_mem _ (List.mem_of_mem_take hy)) (fun _ h => h)
    · exact hst.within.mono (fun y hy => by simpa using hy) (fun _ h => h)
  have hkeep : ∀ z, z ∈ A.flatten ∨ z ∈ B.flatten → fatRaw s.vol d z = fatRaw s.vol s.dev.disk z := fun z hz =>
    hw.other z (owns_mem_used ho (hmemG z hz)).1.2 fun hm => hz.elim (fun hA => dAM z hA hm) (fun hB => dMB z hm hB)
  refine ⟨ownsLoose_drop (ownsLoose_of_owns ho) hkeep, hkeep, fun i hi => hw.nonFat i hi id, fun y hy => ?_, hlag⟩
  by_cases hm : y ∈ r :: tail
  · exact (mem_flatten3 _ _ _ y).2 (.inr (.inl (by rw [flatten_one]; exact hm)))
  · exact (ho.2.2 y).1 ((isUsed_congr_raw (hw.other y hy.1.2 hm)).1 hy)

end Sdmmc.Lemmas.CrashStep
