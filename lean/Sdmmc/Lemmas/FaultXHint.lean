/-
C11, arbitrary fault placement — THE VOLUME RECORD UNDER ANY SCHEDULE.  `VK K m`: a property `K` of the volume record is
kept by `m` whatever fails (the device primitives never touch the record; `F.modifyVol` sites are discharged one by
one).  `HintOK` (the next-free hint never names a reserved entry) is kept by `truncate_cluster_chain` /
`free_cluster_chain` of a cluster whose FAT link, if any, leads to a data cluster.
-/
import Sdmmc.Lemmas.FaultInvLen
import Sdmmc.Lemmas.RetryRead
import Sdmmc.Lemmas.ForestTrunc

namespace Sdmmc.Lemmas.FaultX
open Sdmmc.Model Sdmmc.Model.Fat
open Sdmmc.Spec hiding NoFault Coherent
open Sdmmc.Lemmas.FaultPre Sdmmc.Lemmas.Fault Sdmmc.Lemmas.FaultInv
open Sdmmc.Lemmas.FBasic (NoFault Coherent)

/-- `m` keeps the property `K` of the volume record, whatever fails. -/
def VK (K : FatVolume → Prop) {α} (m : F α) : Prop := ∀ s, K s.vol → K (m s).2.vol

section
variable {K : FatVolume → Prop}

theorem VK.of_eq {α} {m : F α} (h : ∀ s, (m s).2.vol = s.vol) : VK K m := fun s hs => by rw [h s]; exact hs

theorem VK.pure {α} (a : α) : VK K (pure a : F α) := .of_eq fun _ => rfl
theorem VK.lift {α} (r : Res α) : VK K (F.lift r) := .of_eq fun _ => rfl
theorem VK.fail {α} (e : Err) : VK K (F.fail e : F α) := .of_eq fun _ => rfl
theorem VK.panic {α} (msg : String) : VK K (F.panic msg : F α) := .of_eq fun _ => rfl
theorem VK.diverge {α} : VK K (F.diverge : F α) := .of_eq fun _ => rfl
theorem VK.getVol : VK K F.getVol := .of_eq fun _ => rfl
theorem VK.cacheBlk : VK K cacheBlk := .of_eq fun _ => rfl
theorem VK.blankMut (i : Nat) : VK K (blankMut i) := .of_eq fun _ => rfl
theorem VK.cacheModify (f : Block → Block) : VK K (cacheModify f) := .of_eq fun _ => rfl
theorem VK.cacheRead (idx : Nat) : VK K (cacheRead idx) := .of_eq fun s => (Modes.ro_cacheRead idx s).2.2.2

theorem VK.modifyVol (f : FatVolume → FatVolume) (hf : ∀ v, K v → K (f v)) : VK K (F.modifyVol f) := fun s hs => hf s.vol hs

theorem VK.writeBack : VK K writeBack := by
  refine .of_eq fun s => ?_
  cases ht : s.cache.tag with
  | none => rw [writeBack_none ht]
  | some i => rw [Fault.writeBack_tagged ht, Fault.untagIfErr_vol]; exact devWrite_vol i s

theorem VK.writeBackWithDuplicate (dup : Nat) : VK K (writeBackWithDuplicate dup) := by
  refine .of_eq fun s => ?_
  cases ht : s.cache.tag with
  | none => rw [writeBackDup_none dup ht]
  | some i =>
    rw [Fault.writeBackDup_tagged dup ht, Fault.untagIfErr_vol, Fault.F.bind_apply]
    rcases hd : devWrite i s with ⟨r, s1⟩
    have h1 := devWrite_vol i s
    rw [hd] at h1
    cases r with
    | ok a => simp only; rw [devWrite_vol]; exact h1
    | err e => exact h1
    | panic m => exact h1
    | diverged => exact h1

theorem VK.bind {α β} {m : F α} {f : α → F β} (hm : VK K m) (hf : ∀ a, VK K (f a)) : VK K (m >>= f) := by
  intro s hs
  have h1 := hm s hs
  rcases hr : m s with ⟨r, s'⟩
  rw [hr] at h1
  cases r with
  | ok a => rw [F.bind_ok hr]; exact hf a s' h1
  | err e => rw [F.bind_err hr]; exact h1
  | panic msg => rw [F.bind_panic hr]; exact h1
  | diverged => rw [F.bind_diverged hr]; exact h1

theorem VK.attempt {α} {m : F α} (hm : VK K m) : VK K (F.attempt m) := fun s hs => hm s hs

end

/-- One step of decomposing a goal `VK K _`; `F.modifyVol` sites that leave the property alone by computation are
closed, the others are left to the caller. -/
macro "vk_step" : tactic => `(tactic| first
  | with_reducible first
    | apply_hyp
    | exact VK.pure _
    | exact VK.lift _
    | exact VK.fail _
    | exact VK.panic _
    | exact VK.diverge
    | exact VK.getVol
    | exact VK.cacheBlk
    | exact VK.blankMut _
    | exact VK.cacheModify _
    | exact VK.cacheRead _
    | exact VK.writeBack
    | exact VK.writeBackWithDuplicate _
    | apply VK.attempt
    | apply VK.bind
  | exact VK.modifyVol _ (fun _ h => h)
  | intro_pi
  | dsimp only
  | split)

macro "vk_auto" : tactic => `(tactic| repeat vk_step)

/-! ### `HintOK` -/

theorem updateFat_hk (c n : Nat) : VK HintOK (updateFat c n) := by unfold updateFat; vk_auto
theorem nextCluster_hk (c : Nat) : VK HintOK (nextCluster c) := by unfold nextCluster; vk_auto

theorem truncateLoop_hk (fuel next : Nat) : VK HintOK (truncateLoop fuel next) := by
  have := nextCluster_hk
  have := updateFat_hk
  induction fuel generalizing next with
  | zero => unfold truncateLoop; vk_auto
  | succ n ih => unfold truncateLoop; vk_auto

/-- `truncate_cluster_chain(c)` under any schedule keeps the hint valid, provided the FAT link of `c` — if it has one —
leads to a data cluster (true of every cluster of a chain). -/
theorem truncateClusterChain_hint (c : Nat) (s : FS) (hc : Coherent s) (hle : c ≤ U32_MAX / 4) (hh : HintOK s.vol)
    (hnext : ∀ n, nextOf s.vol s.dev.disk c = .ok n → 2 ≤ n) : HintOK (truncateClusterChain c s).2.vol := by
  unfold truncateClusterChain
  by_cases hlt : c < Gen.RESERVED_ENTRIES
  · rw [if_pos hlt]; exact hh
  rw [if_neg hlt]
  have hv1 := nextCluster_hk c s hh
  have hany := Retry.nextCluster_any c s hc hle
  rcases hr : nextCluster c s with ⟨r, s1⟩
  rw [hr] at hv1 hany
  simp only at hany
  have hatt : F.attempt (nextCluster c) s = (.ok r, s1) := by rw [FBasic.attempt_apply, hr]
  rw [F.bind_ok hatt]
  cases r with
  | ok next =>
    have h2 : 2 ≤ next := by
      rcases hany with h | h
      · exact hnext next h.symm
      · cases h
    simp only
    have hk : VK HintOK (do
        F.modifyVol fun v => { v with nextFreeCluster :=
          match v.nextFreeCluster with
          | some nf => if nf > next then some next else some nf
          | none => some next }
        updateFat c Gen.CLUSTER_END_OF_FILE
        let v ← F.getVol
        truncateLoop (chainFuel v) next : F Unit) := by
      have := updateFat_hk
      have := truncateLoop_hk
      refine VK.bind (VK.modifyVol _ fun v hv => ?_) fun _ => ?_
      · exact ForestTrunc.hintMin_hintOK next v h2 hv
      · vk_auto
    exact hk s1 hv1
  | err e =>
    cases e <;> exact hv1
  | panic m => exact hv1
  | diverged => exact hv1

/-- The same for `free_cluster_chain(c)`. -/
theorem freeClusterChain_hint (c : Nat) (s : FS) (hc : Coherent s) (hle : c ≤ U32_MAX / 4) (hh : HintOK s.vol)
    (hnext : ∀ n, nextOf s.vol s.dev.disk c = .ok n → 2 ≤ n) : HintOK (freeClusterChain c s).2.vol := by
  unfold freeClusterChain
  by_cases hlt : c < Gen.RESERVED_ENTRIES
  · rw [if_pos hlt]; exact hh
  rw [if_neg hlt]
  have h1 := truncateClusterChain_hint c s hc hle hh hnext
  rcases hr : truncateClusterChain c s with ⟨r, s1⟩
  rw [hr] at h1
  cases r with
  | ok a =>
    rw [F.bind_ok hr]
    have hk : VK HintOK (do
        updateFat c Gen.CLUSTER_EMPTY
        F.modifyVol fun v => { v with
          freeClustersCount := v.freeClustersCount.map satInc
          nextFreeCluster := match v.nextFreeCluster with
            | some nf => if nf ≤ c then some nf else some c
            | none => some c } : F Unit) := by
      refine VK.bind (updateFat_hk _ _) fun _ => VK.modifyVol _ fun v hv => ?_
      exact ForestTrunc.freeHint_hintOK c v (by have : ¬ c < 2 := hlt; omega) hv
    exact hk s1 h1
  | err e => rw [F.bind_err hr]; exact h1
  | panic m => rw [F.bind_panic hr]; exact h1
  | diverged => rw [F.bind_diverged hr]; exact h1

/-! ### The directory walks never touch the record -/

section
variable {K : FatVolume → Prop}

theorem findBlocks_vk (name : Bytes) (n b : Nat) : VK K (findBlocks name n b) := by
  induction n generalizing b with
  | zero => unfold findBlocks; vk_auto
  | succ n ih => unfold findBlocks; vk_auto

theorem nextCluster_vk (c : Nat) : VK K (nextCluster c) := by unfold nextCluster; vk_auto

theorem findWalk_vk (name : Bytes) (fuel : Nat) (w : DirWalk) : VK K (findWalk name fuel w) := by
  have := @nextCluster_vk K
  have := @findBlocks_vk K
  induction fuel generalizing w with
  | zero => unfold findWalk; vk_auto
  | succ n ih => unfold findWalk; vk_auto

theorem findDirectoryEntry_vk (d : Nat) (name : Bytes) : VK K (Fat.findDirectoryEntry d name) := by
  have := @findWalk_vk K
  unfold Fat.findDirectoryEntry; vk_auto

theorem deleteBlocks_vk (name : Bytes) (n b : Nat) : VK K (deleteBlocks name n b) := by
  induction n generalizing b with
  | zero => unfold deleteBlocks; vk_auto
  | succ n ih => unfold deleteBlocks; vk_auto

theorem deleteWalk_vk (name : Bytes) (fuel : Nat) (w : DirWalk) : VK K (deleteWalk name fuel w) := by
  have := @nextCluster_vk K
  have := @deleteBlocks_vk K
  induction fuel generalizing w with
  | zero => unfold deleteWalk; vk_auto
  | succ n ih => unfold deleteWalk; vk_auto

theorem deleteDirectoryEntry_vk (d : Nat) (name : Bytes) : VK K (deleteDirectoryEntry d name) := by
  have := @deleteWalk_vk K
  unfold deleteDirectoryEntry; vk_auto

end

end Sdmmc.Lemmas.FaultX

namespace Sdmmc.Lemmas.FaultX
open Sdmmc.Model Sdmmc.Model.Fat
open Sdmmc.Spec hiding NoFault Coherent
open Sdmmc.Lemmas.FaultPre Sdmmc.Lemmas.Fault Sdmmc.Lemmas.FaultInv

/-! ### `alloc_cluster` keeps the hint valid under any schedule -/

/-- `find_next_free_cluster` answers a cluster at or after its start, whatever fails. -/
theorem findNextFreeCluster_ge : ∀ (fuel cur endC : Nat) (s : FS) (c : Nat),
    (findNextFreeCluster fuel cur endC s).1 = .ok c → cur ≤ c
  | 0, _, _, _, _, h => by unfold findNextFreeCluster at h; cases h
  | fuel + 1, cur, endC, s, c, h => by
    unfold findNextFreeCluster at h
    by_cases hge : cur ≥ endC
    · rw [FBasic.ite_apply, if_pos hge] at h; cases h
    rw [FBasic.ite_apply, if_neg hge] at h
    rw [F.bind_ok (show F.getVol s = (.ok s.vol, s) from rfl)] at h
    rcases hcr : cacheRead (fatBlock s.vol cur) s with ⟨r, s1⟩
    cases r with
    | ok u =>
      rw [F.bind_ok hcr, F.bind_ok (show cacheBlk s1 = (.ok s1.cache.blk, s1) from rfl)] at h
      rw [FBasic.ite_apply] at h
      split at h <;> split at h
      all_goals first
        | (have hp : (pure cur : F Nat) s1 = (.ok cur, s1) := rfl
           rw [hp] at h
           cases h
           exact Nat.le_refl _)
        | (have := findNextFreeCluster_ge fuel (cur + 1) endC s1 c h
           omega)
    | err e => rw [F.bind_err hcr] at h; cases h
    | panic m => rw [F.bind_panic hcr] at h; cases h
    | diverged => rw [F.bind_diverged hcr] at h; cases h

theorem findNextFree_ge (start endC : Nat) (s : FS) (c : Nat) (h : (findNextFree start endC s).1 = .ok c) : start ≤ c :=
  findNextFreeCluster_ge _ _ _ s c h

theorem findNextFree_hk (a b : Nat) : VK HintOK (findNextFree a b) := by
  have : ∀ fuel cur, VK HintOK (findNextFreeCluster fuel cur b) := by
    intro fuel
    induction fuel with
    | zero => intro cur; unfold findNextFreeCluster; vk_auto
    | succ n ih => intro cur; unfold findNextFreeCluster; vk_auto
  exact this _ _

theorem zeroBlocks_hk (n first : Nat) : VK HintOK (zeroBlocks n first) := by
  induction n generalizing first with
  | zero => unfold zeroBlocks; vk_auto
  | succ n ih => unfold zeroBlocks; vk_auto

end Sdmmc.Lemmas.FaultX

namespace Sdmmc.Lemmas.FaultX
open Sdmmc.Model Sdmmc.Model.Fat
open Sdmmc.Spec hiding NoFault Coherent
open Sdmmc.Lemmas.FaultPre Sdmmc.Lemmas.Fault Sdmmc.Lemmas.FaultInv

/-- `m` keeps the hint valid, and what it answers satisfies `Q` — whatever fails. -/
def HQ {α} (m : F α) (Q : α → Prop) : Prop :=
  ∀ s, HintOK s.vol → HintOK (m s).2.vol ∧ ∀ a, (m s).1 = .ok a → Q a

theorem HQ.bind {α β} {m : F α} {f : α → F β} {Q : α → Prop} {R : β → Prop} (hm : HQ m Q) (hf : ∀ a, Q a → HQ (f a) R) :
    HQ (m >>= f) R := by
  intro s hs
  obtain ⟨h1, h2⟩ := hm s hs
  rcases hr : m s with ⟨r, s'⟩
  rw [hr] at h1 h2
  cases r with
  | ok a => rw [F.bind_ok hr]; exact hf a (h2 a rfl) s' h1
  | err e => rw [F.bind_err hr]; exact ⟨h1, fun a ha => by cases ha⟩
  | panic msg => rw [F.bind_panic hr]; exact ⟨h1, fun a ha => by cases ha⟩
  | diverged => rw [F.bind_diverged hr]; exact ⟨h1, fun a ha => by cases ha⟩

theorem HQ.of_vk {α} {m : F α} (h : VK HintOK m) : HQ m (fun _ => True) := fun s hs => ⟨h s hs, fun _ _ => trivial⟩

theorem HQ.mono {α} {m : F α} {Q R : α → Prop} (h : HQ m Q) (hqr : ∀ a, Q a → R a) : HQ m R :=
  fun s hs => ⟨(h s hs).1, fun a ha => hqr a ((h s hs).2 a ha)⟩

theorem HQ.getVol : HQ F.getVol HintOK := fun s hs => ⟨hs, fun a ha => by cases ha; exact hs⟩

theorem HQ.pure {α} (a : α) {Q : α → Prop} (h : Q a) : HQ (pure a : F α) Q := fun s hs => ⟨hs, fun b hb => by cases hb; exact h⟩

theorem HQ.notOk {α} {m : F α} {Q : α → Prop} (hv : VK HintOK m) (h : ∀ s a, (m s).1 ≠ .ok a) : HQ m Q :=
  fun s hs => ⟨hv s hs, fun a ha => absurd ha (h s a)⟩

theorem HQ.findNextFree (start endC : Nat) : HQ (findNextFree start endC) (fun c => start ≤ c) :=
  fun s hs => ⟨findNextFree_hk start endC s hs, fun c hc => findNextFree_ge start endC s c hc⟩

theorem HQ.attempt {α} {m : F α} {Q : α → Prop} (h : HQ m Q) : HQ (F.attempt m) (fun r => ∀ a, r = .ok a → Q a) := by
  intro s hs
  obtain ⟨h1, h2⟩ := h s hs
  refine ⟨h1, fun r hr => ?_⟩
  have : (F.attempt m s).1 = .ok (m s).1 := rfl
  rw [this] at hr
  cases hr
  exact h2

end Sdmmc.Lemmas.FaultX
