/-
C02 over arbitrary histories, the reader (abstract side): what `open_root_dir`, `open_dir`,
`open_file_in_dir … ReadOnly`, `file_length`, `read`, `iterate_dir` answer in an abstract state whose handle
generator does not wrap — these calls are deterministic (`openRoot_eval`, `openDir_eval`, `openFile_ro_eval`,
`read_eval`, `length_eval`, `list_eval`), and the walk along a path of directory names (`walk_run`).
-/
import Sdmmc.Lemmas.AbsFsTimesRun

namespace Sdmmc.Lemmas.AbsFsTimes
open Sdmmc.Model Sdmmc.Spec.AbsFs Sdmmc.Lemmas.AbsFsTouch
open Sdmmc.Spec (ByteFile)

/-- Every open directory handle was drawn before: it is below the generator. -/
def DirsBelow (a : AbsFs) : Prop := ∀ od, od ∈ a.dirs → od.handle < a.nextId

section
variable {a : AbsFs} {out : AbsFs × Res Payload}

theorem absStep_openRoot (hl : a.locked = false) {v : Nat} (h : absStep a (.openRoot v) out) : out = openRootF a v := by
  unfold absStep at h; rw [if_neg (by rw [hl]; exact Bool.false_ne_true)] at h; exact h
theorem absStep_openDir (hl : a.locked = false) {d : Nat} {n : List Nat} (h : absStep a (.openDir d n) out) :
    openDirS a d n out.1 out.2 := by
  unfold absStep at h; rw [if_neg (by rw [hl]; exact Bool.false_ne_true)] at h; exact h
theorem absStep_openFile (hl : a.locked = false) {d : Nat} {n : List Nat} {m : Mode} (h : absStep a (.openFile d n m) out) :
    openFileS a d n m out.1 out.2 := by
  unfold absStep at h; rw [if_neg (by rw [hl]; exact Bool.false_ne_true)] at h; exact h
theorem absStep_read (hl : a.locked = false) {f n : Nat} (h : absStep a (.read f n) out) : readS a f n out.1 out.2 := by
  unfold absStep at h; rw [if_neg (by rw [hl]; exact Bool.false_ne_true)] at h; exact h
theorem absStep_length (hl : a.locked = false) {f : Nat} (h : absStep a (.length f) out) : lengthS a f out.1 out.2 := by
  unfold absStep at h; rw [if_neg (by rw [hl]; exact Bool.false_ne_true)] at h; exact h
theorem absStep_list (hl : a.locked = false) {d : Nat} (h : absStep a (.list d) out) : listS a d out.1 out.2 := by
  unfold absStep at h; rw [if_neg (by rw [hl]; exact Bool.false_ne_true)] at h; exact h

end

/-- The state after a directory handle was handed out. -/
def withDir (a : AbsFs) (v x : Nat) : AbsFs := { gen a with dirs := a.dirs ++ [⟨a.nextId, v, x⟩] }

theorem findIdx?_append_new {α : Type} {l : List α} {p : α → Bool} {x : α} (hl : ∀ y, y ∈ l → p y = false) (hx : p x = true) :
    (l ++ [x]).findIdx? p = some l.length := by
  rw [List.findIdx?_append]
  have : l.findIdx? p = none := List.findIdx?_eq_none_iff.2 fun y hy => by rw [hl y hy]
  rw [this]
  simp [List.findIdx?_cons, hx]

/-- The handle just handed out designates the new record. -/
theorem dirOf_withDir {a : AbsFs} (hb : DirsBelow a) {v x : Nat} (hv : volOpen a v = true) :
    dirOf (withDir a v x) a.nextId = .ok ⟨a.nextId, v, x⟩ := by
  unfold dirOf dirIdx
  have hi : (withDir a v x).dirs.findIdx? (fun y => decide (y.handle = a.nextId)) = some a.dirs.length := by
    show (a.dirs ++ [_]).findIdx? _ = _
    refine findIdx?_append_new (fun y hy => ?_) (by simp)
    have := hb y hy
    simp; omega
  rw [hi]
  simp only
  have hg : (withDir a v x).dirs[a.dirs.length]? = some ⟨a.nextId, v, x⟩ := by
    show (a.dirs ++ [_])[a.dirs.length]? = _
    simp
  rw [hg]
  simp only
  have : volOpen (withDir a v x) v = true := hv
  rw [if_pos this]

theorem withDir_below {a : AbsFs} (hb : DirsBelow a) (hn : a.nextId + 1 < 4294967296) (v x : Nat) : DirsBelow (withDir a v x) := by
  intro od hod
  have hnext : (withDir a v x).nextId = a.nextId + 1 := by
    show (a.nextId + 1) % 4294967296 = _
    exact Nat.mod_eq_of_lt hn
  rw [hnext]
  rcases List.mem_append.1 hod with h | h
  · exact Nat.lt_succ_of_lt (hb od h)
  · rw [List.mem_singleton] at h; rw [h]; exact Nat.lt_succ_self _

/-! ### The calls of the reader -/

section
variable {a a1 : AbsFs} {r : Res Payload}

theorem openRoot_eval (hl : a.locked = false) (hroom : a.dirs.length < a.maxDirs) (v : Nat)
    (h : absStep a (.openRoot v) (a1, r)) : a1 = withDir a v 0 ∧ r = .ok (.handle a.nextId) := by
  have h' : (a1, r) = openRootF a v := absStep_openRoot hl h
  unfold openRootF at h'
  rw [if_neg (by omega)] at h'
  injection h' with h1 h2
  exact ⟨h1, h2⟩

theorem openDir_eval (hl : a.locked = false) (hroom : a.dirs.length < a.maxDirs) {d : Nat} {name : List Nat}
    {od : OpenDir} {sfn : Bytes} (hd : dirOf a d = .ok od) (hs : Sfn.createFromStr name = .ok sfn) (hnt : sfn ≠ Sfn.thisDir)
    {i : Nat} {m : Meta} {t : Nat} (hlk : lookup (a.slots od.dir) sfn = some i) (hsl : (a.slots od.dir)[i]? = some (.dir m t))
    (h : absStep a (.openDir d name) (a1, r)) : a1 = withDir a od.volume t ∧ r = .ok (.handle a.nextId) := by
  have h' : openDirS a d name a1 r := absStep_openDir hl h
  unfold openDirS at h'
  rw [if_neg (by omega)] at h'
  have hctx : dirCtx a d name = .ok (od, sfn) := by unfold dirCtx; rw [hd]; simp only; rw [hs]
  rw [hctx] at h'
  dsimp only at h'
  rw [if_neg hnt, hlk] at h'
  dsimp only at h'
  rw [hsl] at h'
  exact h'

theorem openFile_ro_eval (hl : a.locked = false) (hroom : a.files.length < a.maxFiles) {d : Nat} {name : List Nat}
    {od : OpenDir} {sfn : Bytes} (hd : dirOf a d = .ok od) (hs : Sfn.createFromStr name = .ok sfn)
    {i : Nat} {m : Meta} {bytes : Bytes} (hlk : lookup (a.slots od.dir) sfn = some i)
    (hsl : (a.slots od.dir)[i]? = some (.file m bytes)) (hno : isOpenAt a od.volume od.dir i = false)
    (h : absStep a (.openFile d name .ReadOnly) (a1, r)) :
    a1 = openedSt a od i m .ReadOnly ∧ r = .ok (.handle a.nextId) := by
  have h' : openFileS a d name .ReadOnly a1 r := absStep_openFile hl h
  unfold openFileS at h'
  rw [if_neg (by omega)] at h'
  have hctx : dirCtx a d name = .ok (od, sfn) := by unfold dirCtx; rw [hd]; simp only; rw [hs]
  rw [hctx] at h'
  dsimp only at h'
  rw [hlk] at h'
  dsimp only at h'
  rw [hsl] at h'
  dsimp only at h'
  rw [hno] at h'
  simp only [Bool.false_eq_true, if_false] at h'
  rw [if_neg (by intro e; cases e), if_neg (fun hc => hc.2 rfl)] at h'
  obtain ⟨hr, h'⟩ := h'
  have hmode : solveModeVariant .ReadOnly true = .ReadOnly := rfl
  rw [if_neg (by rw [hmode]; intro e; cases e)] at h'
  exact ⟨h', hr⟩

/-- With an empty file table the new record is the one the handle designates. -/
theorem fileOf_opened (hf : a.files = []) (od : OpenDir) (i : Nat) (m : Meta) (mode : Mode) :
    fileOf (openedSt a od i m mode) a.nextId = some (0, openedRec a od i m mode) := by
  unfold fileOf fileIdx
  show (match (a.files ++ [openedRec a od i m mode]).findIdx? _ with | none => none | some i => _) = _
  rw [hf]
  simp only [List.nil_append, List.findIdx?_cons, openedRec, decide_true, if_true]
  show Option.map _ ((a.files ++ [openedRec a od i m mode])[0]?) = _
  rw [hf]
  rfl

theorem read_eval {h n i : Nat} {f : OpenFile} {m : Meta} {bytes : Bytes} (hl : a.locked = false)
    (hf : fileOf a h = some (i, f)) (hv : volOpen a f.volume = true)
    (hsl : (a.slots f.dir)[f.idx]? = some (.file m bytes)) (hs : absStep a (.read h n) (a1, r)) :
    r = .ok (.bytes ((bytes.drop f.pos).take n)) ∧
    a1 = { a with files := a.files.set i { f with pos := f.pos + ((bytes.drop f.pos).take n).length } } := by
  have h' : readS a h n a1 r := absStep_read hl hs
  unfold readS at h'
  rw [hf] at h'
  dsimp only at h'
  rw [hv] at h'
  simp only [Bool.not_true, Bool.false_eq_true, if_false] at h'
  obtain ⟨m', b', hs', hr, ha⟩ := h'
  rw [hsl] at hs'
  injection hs' with hs'
  injection hs' with _ eb
  rw [hr, ha, ← eb]
  exact ⟨rfl, rfl⟩

theorem length_eval {h i : Nat} {f : OpenFile} (hl : a.locked = false) (hf : fileOf a h = some (i, f))
    (hs : absStep a (.length h) (a1, r)) : a1 = a ∧ r = .ok (.num f.pm.size) := by
  have h' : lengthS a h a1 r := absStep_length hl hs
  unfold lengthS at h'
  rw [hf] at h'
  exact h'

theorem list_eval {d : Nat} {od : OpenDir} (hl : a.locked = false) (hd : dirOf a d = .ok od)
    (hs : absStep a (.list d) (a1, r)) :
    a1 = a ∧ ∃ es, r = .ok (.entries es) ∧ es.map view = listing (a.slots od.dir) := by
  have h' : listS a d a1 r := absStep_list hl hs
  obtain ⟨e1, r0, hr0, hr⟩ := h'
  unfold ListsAs at hr0
  rw [hd] at hr0
  obtain ⟨es, rfl, hes⟩ := hr0
  exact ⟨e1, es, hr, hes⟩

theorem mem_listing {ss : List Slot} {j : Nat} {m : Meta} {b : Bytes} (h : ss[j]? = some (.file m b)) : m ∈ listing ss := by
  unfold listing
  exact List.mem_filterMap.2 ⟨_, List.mem_of_getElem? h, rfl⟩

end

end Sdmmc.Lemmas.AbsFsTimes
