/-
C11 over histories with SEVERAL OPEN VOLUMES, part 2: ONE CALL.  `step_addressed`: a covered call addressed to volume record `i`
(through its directory / file handle) on an N-volume manager, under ANY fault schedule, whatever device call fails, with the
side condition `NotDamagedOpen` on the projection: `VolInvNS` holds again (the ghost of volume `i` replaced), the answer is `Ok`
or an error, no block outside the partition of volume `i` changed.  No `Mirror`.  `step_untargeted`: the calls addressed to no
volume record other than `open_volume` / `close_volume`.
-/
import Sdmmc.Lemmas.MultiS
import Sdmmc.Lemmas.FaultDTruncRun
import Sdmmc.Lemmas.VolNFault3

namespace Sdmmc.Lemmas.MultiS
open Sdmmc.Model Sdmmc.Model.Fat Sdmmc.Spec.Volume
open Sdmmc.Spec hiding NoFault Coherent run step
open Sdmmc.Lemmas.VolN (projH ProjRel vkey LabelFresh StepSim)
open Sdmmc.Lemmas.VolD (MedD VolInvD InvFE InvF)
open Sdmmc.Lemmas.Retry (mclr)
open Sdmmc.Lemmas.FaultX (RawAllD RawAll)
open Sdmmc.Lemmas.FaultInv (FCovered)

/-- **One addressed call under any schedule.** -/
theorem step_addressed {s : Mgr} {ghs : List Ghost} (hI : VolInvNS s ghs) (op : Op) {i : Nat} {vi : VolInfo} {gh : Ghost}
    (ht : target s op = some i) (hvi : s.vols[i]? = some vi) (hgh : ghs[i]? = some gh) (hf : LabelFresh s op)
    (hc : FCovered s op) (hn : NotDamagedOpen (projH vi.rawVolume i s) op) :
    (∃ gh', VolInvNS (Model.step s op).1 (ghs.set i gh') ∧ SameGeom gh.vol gh'.vol) ∧
    FaultInv.Clean (Model.step s op).2.result ∧
    (∀ b, ¬ InPartition gh.vol b → (Model.step s op).1.dev.disk.get b = s.dev.disk.get b) ∧
    (∀ j, j ≠ i → (Model.step s op).1.vols[j]? = s.vols[j]?) := by
  obtain ⟨⟨k, X, hD⟩, hR⟩ := volInvD_projH hI hvi hgh
  have hE : InvFE k gh (projH vi.rawVolume i s) := ⟨⟨gh, X, hD, SameGeom.refl _⟩, hR⟩
  have hcp : FCovered (projH vi.rawVolume i s) op := by
    cases op <;> first | exact hc | cases ht
  obtain ⟨⟨k', _, hE'⟩, hcl⟩ := VolD.step_outD hE op hcp hn
  have hsim := VolN.step_sim (s := s) hI.unlocked (VolN.findIdx?_of_nodup (s := s) hI.handles hvi) op ht hf
  obtain ⟨hfr, _⟩ := staysIn_D hD op hcp
  have hframe : ∀ b, ¬ InPartition gh.vol b → (Model.step s op).1.dev.disk.get b = s.dev.disk.get b := by
    intro b hb
    have := hfr b hb
    rw [hsim.rel.dev] at this
    exact this
  obtain ⟨⟨gh', X', hD', hg'⟩, hR'⟩ := hE'
  refine ⟨⟨gh', volInvNS_reassemble hI hvi hgh
    ⟨hsim.rel, hsim.volKeys, hsim.restVols, hsim.restDirs, hsim.restFiles, ⟨k', X', hD'⟩, hR', hg', hframe⟩, hg'⟩, ?_, hframe,
    fun j hj => VolN.getElem?_of_eraseIdx_eq hsim.restVols (by simpa using congrArg List.length hsim.volKeys) hj⟩
  rw [← hsim.out]; exact hcl

/-! ### Calls addressed to no volume record -/

open Sdmmc.Lemmas.MHoare in
theorem fileTarget_noneS {s : Mgr} {ghs : List Ghost} (hI : VolInvNS s ghs) {f : Nat} (ht : fileTarget s f = none) :
    s.files.findIdx? (·.rawFile = f) = none := by
  unfold fileTarget at ht
  cases hk : s.files.findIdx? (·.rawFile = f) with
  | none => rfl
  | some j =>
    exfalso
    rw [hk] at ht
    simp only at ht
    obtain ⟨fi, hfi, _⟩ := findIdx?_some_get hk
    rw [hfi] at ht
    simp only at ht
    obtain ⟨vi, hvi, he⟩ := hI.fileVols fi (List.mem_of_getElem? hfi)
    have : fi.rawVolume ∈ s.vols.map (·.rawVolume) := List.mem_map.2 ⟨vi, hvi, he.symm⟩
    obtain ⟨j', w, hj', _⟩ := findIdx?_some_of_mem s.vols (·.rawVolume) fi.rawVolume this
    rw [ht] at hj'
    cases hj'

/-- The invariant does not look at the logs. -/
theorem volInvNS_resetLogs {s : Mgr} {ghs : List Ghost} (hI : VolInvNS s ghs) : VolInvNS (MHoare.resetLogs s) ghs :=
  ⟨hI.coherent, hI.unlocked, hI.len, hI.vols, hI.handles, hI.indices, hI.parts, hI.med, hI.entries, hI.fileVols, hI.openDirs,
    hI.inertDirs⟩

/-- Only the directory table and the handle counter change. -/
theorem volInvNS_dirs {s : Mgr} {ghs : List Ghost} (hI : VolInvNS s ghs) (dirs' : List DirInfo) (nid : Nat)
    (hd : ∀ di, di ∈ dirs' → di ∈ s.dirs ∨ di.cluster = Gen.CLUSTER_ROOT_DIR) :
    VolInvNS { s with dirs := dirs', nextId := nid } ghs :=
  ⟨hI.coherent, hI.unlocked, hI.len, hI.vols, hI.handles, hI.indices, hI.parts, hI.med, hI.entries, hI.fileVols,
    fun di hdi i vi gh hvi hgh hr => (hd di hdi).elim (fun h => hI.openDirs di h i vi gh hvi hgh hr) (fun h => .inl h),
    fun di hdi hno => (hd di hdi).elim (fun h => hI.inertDirs di h hno) id⟩

open Sdmmc.Lemmas.MHoare in
/-- **A call addressed to no volume record, other than `open_volume` and `close_volume`** (`open_root_dir`, `close_dir`,
`has_open_handles`, any call whose handle leads to no open volume), under any schedule: `VolInvNS` again with THE SAME
ghosts; the medium is untouched. -/
theorem step_untargeted {s : Mgr} {ghs : List Ghost} (hI : VolInvNS s ghs) (op : Op) (ht : target s op = none)
    (hnov : ∀ i, op ≠ .openVolume i) (hncl : ∀ v, op ≠ .closeVolume v) :
    VolInvNS (Model.step s op).1 ghs ∧ (Model.step s op).1.dev.disk = s.dev.disk ∧ (Model.step s op).1.vols = s.vols := by
  have hI' := volInvNS_resetLogs hI
  have hft : ∀ f, fileTarget (resetLogs s) f = none → (resetLogs s).files.findIdx? (·.rawFile = f) = none :=
    fun f h => fileTarget_noneS hI' h
  rw [step_unlocked s op hI.unlocked]
  simp only
  by_cases h3 : ∃ v, op = .openRoot v
  · obtain ⟨v, rfl⟩ := h3
    rw [show (runOp (.openRoot v) (resetLogs s)).2 = (openRootDir v (resetLogs s)).2 from Lemmas.VolApi.map_state _ _ _,
      Lemmas.VolN.openRootDir_eq]
    split
    · exact ⟨volInvNS_dirs hI' _ _ fun di h => .inl h, rfl, rfl⟩
    · refine ⟨volInvNS_dirs hI' _ _ fun di h => ?_, rfl, rfl⟩
      rcases List.mem_append.1 h with h | h
      · exact .inl h
      · rw [List.mem_singleton.1 h]; exact .inr rfl
  by_cases h4 : ∃ d, op = .closeDir d
  · obtain ⟨d, rfl⟩ := h4
    rw [show (runOp (.closeDir d) (resetLogs s)).2 = (closeDir d (resetLogs s)).2 from Lemmas.VolApi.seq_state _ _ _]
    unfold closeDir
    rw [get_bind]
    cases hidx : (resetLogs s).dirs.findIdx? (·.rawDirectory = d) with
    | none => exact ⟨hI', rfl, rfl⟩
    | some k =>
      refine ⟨?_, rfl, rfl⟩
      show VolInvNS { resetLogs s with dirs := swapRemove (resetLogs s).dirs k } ghs
      exact volInvNS_dirs hI' _ (resetLogs s).nextId fun di h => .inl (Lemmas.VolApi.mem_of_mem_swapRemove h)
  by_cases h5 : op = .hasOpen
  · subst h5
    exact ⟨hI', rfl, rfl⟩
  rw [Lemmas.VolNFault.untargeted_state_F hft op (by exact ht) hnov hncl (fun v e => h3 ⟨v, e⟩) (fun d e => h4 ⟨d, e⟩) h5]
  exact ⟨hI', rfl, rfl⟩

end Sdmmc.Lemmas.MultiS
