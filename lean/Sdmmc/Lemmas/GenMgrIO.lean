/-
Facts used by `Props/C01GenRead.lean` / `Props/C01GenWrite.lean` (the machine translations of
`find_data_on_disk`, `read`, `write` against `Model/Mgr.lean`):

* `withVol` on a valid slot in explicit form, `withVol` of a computation that keeps the volume record;
* `cacheOp f` (the manager's block cache used outside any volume) is `withVol i f` for a computation that
  does not look at the volume record (`CacheOnly`);
* `Keeps`: F computations that leave the volume record and the medium alone and keep the cached block 512
  bytes long;
* `PEq`: equality of two outcomes of the manager up to the state after a panic.
-/
import Sdmmc.Lemmas.GenMgr

namespace Sdmmc.Lemmas.GenMgrIO

open Sdmmc Sdmmc.Model Sdmmc.Gen Sdmmc.Lemmas.GenMgr
open Sdmmc.Lemmas.FatOps (BlocksOK)

/-! ### Lists -/

theorem list_set_self {α : Type} (l : List α) (i : Nat) (a : α) (h : l[i]? = some a) : l.set i a = l := by
  apply List.ext_getElem?
  intro j
  by_cases hj : i = j
  · subst hj
    rw [List.getElem?_set_self', h]
    simp
  · rw [List.getElem?_set_ne hj]

theorem lt_of_getElem? {α : Type} {l : List α} {i : Nat} {a : α} (h : l[i]? = some a) : i < l.length := by
  rcases Nat.lt_or_ge i l.length with hl | hl
  · exact hl
  · rw [List.getElem?_eq_none hl] at h; cases h

theorem list_modify_eq_set {α : Type} (l : List α) (i : Nat) (g : α → α) (a : α) (h : l[i]? = some a) :
    l.modify i g = l.set i (g a) := by
  apply List.ext_getElem?
  intro j
  rw [List.getElem?_modify]
  by_cases hj : i = j
  · subst hj
    rw [List.getElem?_set_self (lt_of_getElem? h), h]
    simp
  · rw [List.getElem?_set_ne hj]
    simp [hj]

/-! ### The state of a FAT computation run from the manager -/

/-- The F-level state of volume record `v` inside manager state `s`. -/
def fsOf (s : Mgr) (v : VolInfo) : FS := { dev := s.dev, cache := s.cache, vol := v.vol }

/-- The manager state after a FAT computation that kept the volume record ended in `fs`. -/
def upd (s : Mgr) (fs : FS) : Mgr := { s with dev := fs.dev, cache := fs.cache }

@[simp] theorem fsOf_vol (s : Mgr) (v : VolInfo) : (fsOf s v).vol = v.vol := rfl
theorem upd_fsOf (s : Mgr) (v : VolInfo) : upd s (fsOf s v) = s := rfl
theorem upd_upd (s : Mgr) (fs fs' : FS) : upd (upd s fs) fs' = upd s fs' := rfl
theorem upd_files (s : Mgr) (fs : FS) : (upd s fs).files = s.files := rfl
theorem upd_vols (s : Mgr) (fs : FS) : (upd s fs).vols = s.vols := rfl
theorem upd_locked (s : Mgr) (fs : FS) : (upd s fs).locked = s.locked := rfl
theorem upd_clock (s : Mgr) (fs : FS) : (upd s fs).clock = s.clock := rfl
theorem fsOf_upd (s : Mgr) (v : VolInfo) (fs : FS) (h : fs.vol = v.vol) : fsOf (upd s fs) v = fs := by
  cases fs
  simp only [fsOf, upd] at *
  rw [h]

theorem withVol_run {α : Type} (vi : Nat) (m : F α) (s : Mgr) (v : VolInfo) (hv : s.vols[vi]? = some v) :
    withVol vi m s = ((m (fsOf s v)).1,
      { s with dev := (m (fsOf s v)).2.dev, cache := (m (fsOf s v)).2.cache,
               vols := s.vols.set vi { v with vol := (m (fsOf s v)).2.vol } }) := by
  unfold withVol
  rw [hv]
  rfl

theorem withVol_none {α : Type} (vi : Nat) (m : F α) (s : Mgr) (hv : s.vols[vi]? = none) :
    withVol vi m s = (.panic "volume index out of range", s) := by
  unfold withVol
  rw [hv]

/-- The manager state after a FAT computation on slot `vi` (record `v`) ended in `fs`. -/
def updV (s : Mgr) (vi : Nat) (v : VolInfo) (fs : FS) : Mgr :=
  { s with dev := fs.dev, cache := fs.cache, vols := s.vols.set vi { v with vol := fs.vol } }

theorem withVol_runV {α : Type} (vi : Nat) (m : F α) (s : Mgr) (v : VolInfo) (hv : s.vols[vi]? = some v) :
    withVol vi m s = ((m (fsOf s v)).1, updV s vi v (m (fsOf s v)).2) := withVol_run vi m s v hv

theorem updV_files (s : Mgr) (vi : Nat) (v : VolInfo) (fs : FS) : (updV s vi v fs).files = s.files := rfl
theorem updV_locked (s : Mgr) (vi : Nat) (v : VolInfo) (fs : FS) : (updV s vi v fs).locked = s.locked := rfl
theorem updV_clock (s : Mgr) (vi : Nat) (v : VolInfo) (fs : FS) : (updV s vi v fs).clock = s.clock := rfl
theorem updV_vols_get (s : Mgr) (vi : Nat) (v : VolInfo) (fs : FS) (hv : s.vols[vi]? = some v) :
    (updV s vi v fs).vols[vi]? = some { v with vol := fs.vol } := by
  show (s.vols.set vi { v with vol := fs.vol })[vi]? = _
  rw [List.getElem?_set_self (lt_of_getElem? hv)]
theorem fsOf_updV (s : Mgr) (vi : Nat) (v : VolInfo) (fs : FS) : fsOf (updV s vi v fs) { v with vol := fs.vol } = fs := rfl

/-- A computation that keeps the volume record, run on a valid slot. -/
theorem withVol_keep {α : Type} (vi : Nat) (m : F α) (s : Mgr) (v : VolInfo) (hv : s.vols[vi]? = some v)
    (hk : (m (fsOf s v)).2.vol = v.vol) :
    withVol vi m s = ((m (fsOf s v)).1, upd s (m (fsOf s v)).2) := by
  rw [withVol_run vi m s v hv, hk]
  have : ({ v with vol := v.vol } : VolInfo) = v := rfl
  rw [this, list_set_self _ _ _ hv]
  rfl

theorem getVolInfo_ok (s : Mgr) (i : Nat) (v : VolInfo) (h : s.vols[i]? = some v) : getVolInfo i s = (.ok v, s) := by
  unfold getVolInfo; rw [h]

theorem getVolInfo_none (s : Mgr) (i : Nat) (h : s.vols[i]? = none) :
    getVolInfo i s = (.panic "volume index out of range", s) := by
  unfold getVolInfo; rw [h]

/-! ### F computations that keep the volume record, the medium and the length of the cached block -/

structure Keeps (s s' : FS) : Prop where
  vol : s'.vol = s.vol
  disk : s'.dev.disk = s.dev.disk
  blk : BlocksOK s.dev.disk → s.cache.blk.length = 512 → s'.cache.blk.length = 512

theorem Keeps.refl (s : FS) : Keeps s s := ⟨rfl, rfl, fun _ h => h⟩
theorem Keeps.trans {s s' s'' : FS} (h1 : Keeps s s') (h2 : Keeps s' s'') : Keeps s s'' :=
  ⟨h2.vol.trans h1.vol, h2.disk.trans h1.disk, fun hb hl => h2.blk (by rw [h1.disk]; exact hb) (h1.blk hb hl)⟩

def KeepsF {α : Type} (m : F α) : Prop := ∀ s, Keeps s (m s).2

section KeepsF
variable {α β : Type}
open Sdmmc.Lemmas.FBasic (bind_apply')

theorem KeepsF.pure (a : α) : KeepsF (pure a : F α) := fun s => Keeps.refl s
theorem KeepsF.lift (r : Res α) : KeepsF (F.lift r) := fun s => Keeps.refl s
theorem KeepsF.fail (e : Err) : KeepsF (F.fail e : F α) := fun s => Keeps.refl s
theorem KeepsF.panic (msg : String) : KeepsF (F.panic msg : F α) := fun s => Keeps.refl s
theorem KeepsF.getVol : KeepsF F.getVol := fun s => Keeps.refl s
theorem KeepsF.cacheBlk : KeepsF cacheBlk := fun s => Keeps.refl s
theorem KeepsF.bind {m : F α} {f : α → F β} (hm : KeepsF m) (hf : ∀ a, KeepsF (f a)) : KeepsF (m >>= f) := by
  intro s
  rw [bind_apply']
  have h := hm s
  cases hr : (m s).1 with
  | ok a => exact h.trans (hf a _)
  | err e => exact h
  | panic msg => exact h
  | diverged => exact h
theorem KeepsF.attempt {m : F α} (hm : KeepsF m) : KeepsF (F.attempt m) := fun s => hm s
theorem KeepsF.ite (c : Prop) [Decidable c] {m1 m2 : F α} (h1 : KeepsF m1) (h2 : KeepsF m2) :
    KeepsF (if c then m1 else m2) := by
  split
  · exact h1
  · exact h2

theorem scribble_length : scribbleBlock.length = 512 := by
  show (List.replicate 512 (UInt8.ofNat 0xEE)).length = 512
  rw [List.length_replicate]

theorem KeepsF.cacheRead (idx : Nat) : KeepsF (cacheRead idx) := by
  intro s
  unfold Model.cacheRead
  by_cases ht : s.cache.tag = some idx
  · rw [if_pos ht]; exact Keeps.refl s
  · rw [if_neg ht]
    unfold devRead
    dsimp only
    by_cases hf : s.dev.faults.contains s.dev.calls = true
    · rw [if_pos hf]
      exact ⟨rfl, rfl, fun _ _ => scribble_length⟩
    · rw [if_neg hf]
      exact ⟨rfl, rfl, fun hb _ => hb idx⟩
end KeepsF

/-! ### The file table -/

/-- Slot `i` of the file table replaced. -/
def setF (s : Mgr) (i : Nat) (f : FileInfo) : Mgr := { s with files := s.files.set i f }

theorem setF_files_get (s : Mgr) (i : Nat) (f f' : FileInfo) (h : s.files[i]? = some f) :
    (setF s i f').files[i]? = some f' := by
  show (s.files.set i f')[i]? = some f'
  rw [List.getElem?_set_self (lt_of_getElem? h)]
theorem setF_vols (s : Mgr) (i : Nat) (f : FileInfo) : (setF s i f).vols = s.vols := rfl
theorem setF_dev (s : Mgr) (i : Nat) (f : FileInfo) : (setF s i f).dev = s.dev := rfl
theorem setF_cache (s : Mgr) (i : Nat) (f : FileInfo) : (setF s i f).cache = s.cache := rfl
theorem setF_locked (s : Mgr) (i : Nat) (f : FileInfo) : (setF s i f).locked = s.locked := rfl
theorem setF_clock (s : Mgr) (i : Nat) (f : FileInfo) : (setF s i f).clock = s.clock := rfl
theorem fsOf_setF (s : Mgr) (i : Nat) (f : FileInfo) (v : VolInfo) : fsOf (setF s i f) v = fsOf s v := rfl
theorem setF_setF (s : Mgr) (i : Nat) (f f' : FileInfo) : setF (setF s i f) i f' = setF s i f' := by
  show ({ s with files := (s.files.set i f).set i f' } : Mgr) = { s with files := s.files.set i f' }
  rw [List.set_set]
theorem setF_self (s : Mgr) (i : Nat) (f : FileInfo) (h : s.files[i]? = some f) : setF s i f = s := by
  show ({ s with files := s.files.set i f } : Mgr) = s
  rw [list_set_self _ _ _ h]
theorem upd_setF (s : Mgr) (i : Nat) (f : FileInfo) (fs : FS) : upd (setF s i f) fs = setF (upd s fs) i f := rfl

theorem getFile_ok (s : Mgr) (i : Nat) (f : FileInfo) (h : s.files[i]? = some f) : getFile i s = (.ok f, s) := by
  unfold getFile; rw [h]

theorem modifyFile_ok (s : Mgr) (i : Nat) (g : FileInfo → FileInfo) (f : FileInfo) (h : s.files[i]? = some f) :
    modifyFile i g s = (.ok (), setF s i (g f)) := by
  show (Res.ok (), ({ s with files := s.files.modify i g } : Mgr)) = _
  rw [list_modify_eq_set _ _ _ _ h]
  rfl

theorem setFile_apply (s : Mgr) (i : Nat) (f : FileInfo) : setFile i f s = (.ok (), setF s i f) := rfl

/-! ### The manager's block cache used outside a volume -/

/-- An F computation that neither reads nor writes the volume record. -/
def CacheOnly {α : Type} (m : F α) : Prop :=
  ∀ (fs : FS) (w : FatVolume), m { fs with vol := w } = ((m fs).1, { (m fs).2 with vol := w })

theorem cacheOp_run {α : Type} (m : F α) (hm : CacheOnly m) (s : Mgr) (v : VolInfo) :
    FunsMgr.cacheOp m s = ((m (fsOf s v)).1, upd s (m (fsOf s v)).2) := by
  have h := hm { dev := s.dev, cache := s.cache, vol := default } v.vol
  have e : ({ ({ dev := s.dev, cache := s.cache, vol := default } : FS) with vol := v.vol } : FS) = fsOf s v := rfl
  rw [e] at h
  rw [h]
  rfl

theorem CacheOnly.vol {α : Type} {m : F α} (hm : CacheOnly m) (fs : FS) : (m fs).2.vol = fs.vol := by
  have h := hm fs fs.vol
  have e : ({ fs with vol := fs.vol } : FS) = fs := rfl
  rw [e] at h
  have h2 := congrArg (fun x => x.2.vol) h
  exact h2

theorem CacheOnly.cacheBlk : CacheOnly cacheBlk := fun _ _ => rfl
theorem CacheOnly.cacheModify (g : Block → Block) : CacheOnly (cacheModify g) := fun _ _ => rfl
theorem CacheOnly.blankMut (i : Nat) : CacheOnly (blankMut i) := fun _ _ => rfl

theorem CacheOnly.cacheRead (idx : Nat) : CacheOnly (cacheRead idx) := by
  intro fs w
  unfold Model.cacheRead
  dsimp only
  by_cases ht : fs.cache.tag = some idx
  · rw [if_pos ht, if_pos ht]
  · rw [if_neg ht, if_neg ht]
    unfold devRead
    dsimp only
    by_cases hf : fs.dev.faults.contains fs.dev.calls = true
    · rw [if_pos hf, if_pos hf]
    · rw [if_neg hf, if_neg hf]

theorem CacheOnly.writeBack : CacheOnly writeBack := by
  intro fs w
  unfold Model.writeBack
  dsimp only
  cases ht : fs.cache.tag with
  | none => rfl
  | some idx =>
    dsimp only
    unfold devWrite
    dsimp only
    by_cases hf : fs.dev.faults.contains fs.dev.calls = true
    · rw [if_pos hf, if_pos hf]
    · rw [if_neg hf, if_neg hf]

section CacheOnlyLaws
variable {α β : Type}
open Sdmmc.Lemmas.FBasic (bind_apply')

theorem CacheOnly.pure (a : α) : CacheOnly (Pure.pure a : F α) := fun _ _ => rfl

theorem CacheOnly.bind {m : F α} {g : α → F β} (hm : CacheOnly m) (hg : ∀ a, CacheOnly (g a)) : CacheOnly (m >>= g) := by
  intro fs w
  rw [bind_apply', bind_apply', hm fs w]
  cases hr : (m fs).1 with
  | ok a => exact hg a _ w
  | err e => rfl
  | panic msg => rfl
  | diverged => rfl

theorem CacheOnly.ite (c : Prop) [Decidable c] {m1 m2 : F α} (h1 : CacheOnly m1) (h2 : CacheOnly m2) :
    CacheOnly (if c then m1 else m2) := by
  split
  · exact h1
  · exact h2

/-- The state `cacheOp` runs a computation in. -/
def fs0 (s : Mgr) : FS := { dev := s.dev, cache := s.cache, vol := default }

theorem cacheOp_def (m : F α) (s : Mgr) : FunsMgr.cacheOp m s = ((m (fs0 s)).1, upd s (m (fs0 s)).2) := rfl

theorem fs0_upd (s : Mgr) (fs : FS) (h : fs.vol = default) : fs0 (upd s fs) = fs := by
  cases fs
  simp only [fs0, upd] at *
  rw [h]

/-- Two uses of the cache in a row are one use of the sequence (for a first part that ignores the volume record). -/
theorem cacheOp_bind {m : F α} {g : α → F β} (hm : CacheOnly m) (s : Mgr) :
    FunsMgr.cacheOp (m >>= g) s = (FunsMgr.cacheOp m >>= fun a => FunsMgr.cacheOp (g a)) s := by
  rw [bind_apply, cacheOp_def, cacheOp_def, bind_apply']
  have hvol : (m (fs0 s)).2.vol = default := hm.vol (fs0 s)
  cases hr : (m (fs0 s)).1 with
  | ok a =>
    simp only []
    rw [cacheOp_def, fs0_upd _ _ hvol]
    rfl
  | err e => rfl
  | panic msg => rfl
  | diverged => rfl

theorem cacheOp_ite (c : Prop) [Decidable c] (m1 m2 : F α) :
    FunsMgr.cacheOp (if c then m1 else m2) = if c then FunsMgr.cacheOp m1 else FunsMgr.cacheOp m2 := by
  split <;> rfl

/-- On a valid slot, a computation that ignores the volume record is the same through `withVol` and `cacheOp`. -/
theorem withVol_cacheOnly (vi : Nat) (m : F α) (hm : CacheOnly m) (s : Mgr) (v : VolInfo) (hv : s.vols[vi]? = some v) :
    withVol vi m s = FunsMgr.cacheOp m s := by
  rw [withVol_keep vi m s v hv (hm.vol _), cacheOp_run m hm s v]

theorem cacheOp_cacheBlk (s : Mgr) : FunsMgr.cacheOp cacheBlk s = (.ok s.cache.blk, s) := rfl
theorem cacheOp_files (m : F α) (s : Mgr) : (FunsMgr.cacheOp m s).2.files = s.files := rfl
theorem cacheOp_vols (m : F α) (s : Mgr) : (FunsMgr.cacheOp m s).2.vols = s.vols := rfl
end CacheOnlyLaws

/-- `cacheRead` answers `Ok` or the device's error. -/
theorem cacheRead_result (idx : Nat) (fs : FS) :
    (cacheRead idx fs).1 = .ok () ∨ (cacheRead idx fs).1 = .err .DeviceError := by
  unfold Model.cacheRead
  by_cases ht : fs.cache.tag = some idx
  · rw [if_pos ht]; exact .inl rfl
  · rw [if_neg ht]
    unfold devRead
    dsimp only
    by_cases hf : fs.dev.faults.contains fs.dev.calls = true
    · rw [if_pos hf]; exact .inr rfl
    · rw [if_neg hf]; exact .inl rfl

/-! ### Handle lookups -/

theorem getFileById_state (raw : Nat) (s : Mgr) : (getFileById raw s).2 = s := by
  unfold getFileById; split <;> rfl
theorem getVolumeById_state (raw : Nat) (s : Mgr) : (getVolumeById raw s).2 = s := by
  unfold getVolumeById; split <;> rfl

theorem getFileById_valid {raw i : Nat} {s s' : Mgr} (h : getFileById raw s = (.ok i, s')) :
    ∃ f, s.files[i]? = some f := by
  unfold getFileById at h
  split at h
  · rename_i j hj
    cases h
    obtain ⟨hlt, _⟩ := List.findIdx?_eq_some_iff_getElem.mp hj
    exact ⟨s.files[i], List.getElem?_eq_getElem hlt⟩
  · cases h

theorem getVolumeById_valid {raw i : Nat} {s s' : Mgr} (h : getVolumeById raw s = (.ok i, s')) :
    ∃ v, s.vols[i]? = some v := by
  unfold getVolumeById at h
  split at h
  · rename_i j hj
    cases h
    obtain ⟨hlt, _⟩ := List.findIdx?_eq_some_iff_getElem.mp hj
    exact ⟨s.vols[i], List.getElem?_eq_getElem hlt⟩
  · cases h

/-! ### Equality up to the state after a panic -/

/-- The same outcome, and the same state unless the outcome is a panic or an exhausted fuel (after which no
state is observed). -/
def PEq {α : Type} (x y : Res α × Mgr) : Prop :=
  x.1 = y.1 ∧ ((∃ a, x.1 = .ok a) ∨ (∃ e, x.1 = .err e) → x.2 = y.2)

theorem PEq.rfl' {α : Type} (x : Res α × Mgr) : PEq x x := ⟨rfl, fun _ => rfl⟩
theorem PEq.of_eq {α : Type} {x y : Res α × Mgr} (h : x = y) : PEq x y := h ▸ PEq.rfl' x
theorem PEq.panic {α : Type} (m : String) (s s' : Mgr) : PEq ((.panic m, s) : Res α × Mgr) (.panic m, s') :=
  ⟨rfl, fun h => by rcases h with ⟨_, h⟩ | ⟨_, h⟩ <;> cases h⟩
theorem PEq.diverged {α : Type} (s s' : Mgr) : PEq ((.diverged, s) : Res α × Mgr) (.diverged, s') :=
  ⟨rfl, fun h => by rcases h with ⟨_, h⟩ | ⟨_, h⟩ <;> cases h⟩

end Sdmmc.Lemmas.GenMgrIO
