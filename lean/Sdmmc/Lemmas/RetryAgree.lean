/-
C11, the retry clause, part 1 — fault erasure.

`Agree m` (FAT level) / `MAgree m` (manager level): during `m` the ghost counter `failed` never
decreases, and whenever it did not grow — no scheduled fault index was hit — the run is, outcome and
state, the run from the same state with the fault schedule emptied.  So every fault-free
specification (`read_refines`, the listing / lookup specifications of C06) applies to every run
under an arbitrary fault schedule in which no device call failed.

Proved compositionally (`Agree.bind`, `Agree.attempt`, …, tactic `agree_auto`) for the device read,
the cache, `nextCluster`, the cluster walk of `find_data_on_disk`, the directory walks, and at the
manager level for `read`, `findDirectoryEntry`, `iterateDir`, `iterateDirLfn` and the observers.

Also here: `Quiet` — with an empty schedule `failed` does not move (for every reading function).
-/
import Sdmmc.Lemmas.Fault
import Sdmmc.Lemmas.ReadRefines

namespace Sdmmc.Lemmas.Retry
open Sdmmc.Model Sdmmc.Model.Fat Sdmmc.Lemmas.Fault

/-! ### Replacing the fault schedule -/

/-- The same FAT-level state with the fault schedule `L`. -/
def setFaults (L : List Nat) (s : FS) : FS := { s with dev := { s.dev with faults := L } }
/-- … with no fault scheduled. -/
abbrev clr (s : FS) : FS := setFaults [] s

/-- The same manager state with the fault schedule `L`. -/
def msetFaults (L : List Nat) (s : Mgr) : Mgr := { s with dev := { s.dev with faults := L } }
abbrev mclr (s : Mgr) : Mgr := msetFaults [] s

/-! ### FAT level -/

/-- `failed` never decreases during `m`, and a run in which it did not grow is the run without any
fault scheduled. -/
def Agree {α} (m : F α) : Prop :=
  ∀ s, s.dev.failed ≤ (m s).2.dev.failed ∧ ((m s).2.dev.failed = s.dev.failed → m (clr s) = ((m s).1, clr (m s).2))

theorem Agree.of_nodev {α} {m : F α} (h : ∀ s, (m s).2.dev = s.dev ∧ m (clr s) = ((m s).1, clr (m s).2)) : Agree m :=
  fun s => ⟨by rw [(h s).1]; exact Nat.le_refl _, fun _ => (h s).2⟩

theorem Agree.pure {α} (a : α) : Agree (pure a : F α) := .of_nodev fun _ => ⟨rfl, rfl⟩
theorem Agree.lift {α} (r : Res α) : Agree (F.lift r) := .of_nodev fun _ => ⟨rfl, rfl⟩
theorem Agree.fail {α} (e : Err) : Agree (F.fail e : F α) := .of_nodev fun _ => ⟨rfl, rfl⟩
theorem Agree.panic {α} (msg : String) : Agree (F.panic msg : F α) := .of_nodev fun _ => ⟨rfl, rfl⟩
theorem Agree.diverge {α} : Agree (F.diverge : F α) := .of_nodev fun _ => ⟨rfl, rfl⟩
theorem Agree.getVol : Agree F.getVol := .of_nodev fun _ => ⟨rfl, rfl⟩
theorem Agree.cacheBlk : Agree cacheBlk := .of_nodev fun _ => ⟨rfl, rfl⟩

theorem Agree.bind {α β} {m : F α} {f : α → F β} (hm : Agree m) (hf : ∀ a, Agree (f a)) : Agree (m >>= f) := by
  intro s
  obtain ⟨hle, hag⟩ := hm s
  rcases hr : m s with ⟨r, s'⟩
  rw [hr] at hle hag
  cases r with
  | ok a =>
    obtain ⟨hle2, hag2⟩ := hf a s'
    rw [F.bind_ok hr]
    refine ⟨Nat.le_trans hle hle2, fun heq => ?_⟩
    have h1 : s'.dev.failed = s.dev.failed := by simp only at hle; omega
    have h2 : (f a s').2.dev.failed = s'.dev.failed := by omega
    rw [F.bind_ok (hag h1)]
    exact hag2 h2
  | err e =>
    rw [F.bind_err hr]
    exact ⟨hle, fun heq => by rw [F.bind_err (hag heq)]⟩
  | panic msg =>
    rw [F.bind_panic hr]
    exact ⟨hle, fun heq => by rw [F.bind_panic (hag heq)]⟩
  | diverged =>
    rw [F.bind_diverged hr]
    exact ⟨hle, fun heq => by rw [F.bind_diverged (hag heq)]⟩

theorem Agree.attempt {α} {m : F α} (hm : Agree m) : Agree (F.attempt m) := by
  intro s
  obtain ⟨hle, hag⟩ := hm s
  refine ⟨hle, fun heq => ?_⟩
  show (Res.ok (m (clr s)).1, (m (clr s)).2) = _
  rw [hag heq]
  rfl

theorem Agree.ite {α} (c : Prop) [Decidable c] {m1 m2 : F α} (h1 : Agree m1) (h2 : Agree m2) :
    Agree (if c then m1 else m2) := by
  split <;> assumption

theorem Agree.cacheRead (idx : Nat) : Agree (cacheRead idx) := by
  intro s
  by_cases ht : s.cache.tag = some idx
  · have h0 : Model.cacheRead idx s = (.ok (), s) := by unfold Model.cacheRead; rw [if_pos ht]
    have h1 : Model.cacheRead idx (clr s) = (.ok (), clr s) := by
      unfold Model.cacheRead; rw [if_pos (show (clr s).cache.tag = some idx from ht)]
    rw [h0]
    exact ⟨Nat.le_refl _, fun _ => h1⟩
  · cases hf : s.dev.faults.contains s.dev.calls with
    | true =>
      have h1 : (Model.cacheRead idx s).2.dev.failed = s.dev.failed + 1 := by
        unfold Model.cacheRead Model.devRead; rw [if_neg ht]; simp only [hf]; rfl
      rw [h1]
      exact ⟨Nat.le_succ _, fun h => by omega⟩
    | false =>
      have h1 : Model.cacheRead idx s = (.ok (), { s with
          dev := { s.dev with calls := s.dev.calls + 1, rlog := idx :: s.dev.rlog },
          cache := { tag := some idx, blk := s.dev.disk.get idx } }) := by
        unfold Model.cacheRead Model.devRead; rw [if_neg ht]; simp only [hf]; rfl
      have h2 : Model.cacheRead idx (clr s) = (.ok (), { clr s with
          dev := { (clr s).dev with calls := s.dev.calls + 1, rlog := idx :: s.dev.rlog },
          cache := { tag := some idx, blk := s.dev.disk.get idx } }) := by
        unfold Model.cacheRead Model.devRead
        rw [if_neg (show ¬ (clr s).cache.tag = some idx from ht)]
        have : (clr s).dev.faults.contains (clr s).dev.calls = false := rfl
        simp only [this]; rfl
      rw [h1]
      exact ⟨Nat.le_refl _, fun _ => h2⟩

/-- One step of decomposing a goal `Agree _`. -/
macro "agree_step" : tactic => `(tactic| first
  | with_reducible first
    | apply_hyp
    | exact Agree.pure _
    | exact Agree.lift _
    | exact Agree.fail _
    | exact Agree.panic _
    | exact Agree.diverge
    | exact Agree.getVol
    | exact Agree.cacheBlk
    | exact Agree.cacheRead _
    | apply Agree.attempt
    | apply Agree.bind
  | intro_pi
  | dsimp only
  | split)

macro "agree_auto" : tactic => `(tactic| repeat agree_step)

theorem nextCluster_agree (c : Nat) : Agree (nextCluster c) := by
  unfold nextCluster; agree_auto

theorem walkClusters_agree (bpc n : Nat) (st : Nat × Nat) : Agree (walkClusters bpc n st) := by
  have := nextCluster_agree
  induction n generalizing st with
  | zero => unfold walkClusters; agree_auto
  | succ n ih => unfold walkClusters; agree_auto

theorem findDataOnDisk_agree (fileStart off : Nat) (start : Nat × Nat) : Agree (findDataOnDisk fileStart off start) := by
  have := walkClusters_agree
  unfold findDataOnDisk; agree_auto

theorem iterateBlocks_agree (n b : Nat) : Agree (iterateBlocks n b) := by
  induction n generalizing b with
  | zero => unfold iterateBlocks; agree_auto
  | succ n ih => unfold iterateBlocks; agree_auto

theorem iterateWalk_agree (fuel : Nat) (w : DirWalk) : Agree (iterateWalk fuel w) := by
  have := nextCluster_agree
  have := iterateBlocks_agree
  induction fuel generalizing w with
  | zero => unfold iterateWalk; agree_auto
  | succ n ih => unfold iterateWalk; agree_auto

theorem iterateRaw_agree (d : Nat) : Agree (iterateRaw d) := by
  have := iterateWalk_agree
  unfold iterateRaw; agree_auto

theorem findBlocks_agree (name : Bytes) (n b : Nat) : Agree (findBlocks name n b) := by
  induction n generalizing b with
  | zero => unfold findBlocks; agree_auto
  | succ n ih => unfold findBlocks; agree_auto

theorem findWalk_agree (name : Bytes) (fuel : Nat) (w : DirWalk) : Agree (findWalk name fuel w) := by
  have := nextCluster_agree
  have := findBlocks_agree
  induction fuel generalizing w with
  | zero => unfold findWalk; agree_auto
  | succ n ih => unfold findWalk; agree_auto

theorem findDirectoryEntry_agree (d : Nat) (name : Bytes) : Agree (Fat.findDirectoryEntry d name) := by
  have := findWalk_agree
  unfold Fat.findDirectoryEntry; agree_auto

theorem readBlock_agree (b : Nat) : Agree (do cacheRead b; cacheBlk : F Block) := by
  agree_auto

/-! ### Manager level -/

def MAgree {α} (m : M α) : Prop :=
  ∀ s, s.dev.failed ≤ (m s).2.dev.failed ∧ ((m s).2.dev.failed = s.dev.failed → m (mclr s) = ((m s).1, mclr (m s).2))

theorem MAgree.of_nodev {α} {m : M α} (h : ∀ s, (m s).2.dev = s.dev ∧ m (mclr s) = ((m s).1, mclr (m s).2)) : MAgree m :=
  fun s => ⟨by rw [(h s).1]; exact Nat.le_refl _, fun _ => (h s).2⟩

theorem MAgree.pure {α} (a : α) : MAgree (pure a : M α) := .of_nodev fun _ => ⟨rfl, rfl⟩
theorem MAgree.lift {α} (r : Res α) : MAgree (M.lift r) := .of_nodev fun _ => ⟨rfl, rfl⟩
theorem MAgree.fail {α} (e : Err) : MAgree (M.fail e : M α) := .of_nodev fun _ => ⟨rfl, rfl⟩
theorem MAgree.panic {α} (msg : String) : MAgree (M.panic msg : M α) := .of_nodev fun _ => ⟨rfl, rfl⟩
theorem MAgree.modifyFile (i : Nat) (g : FileInfo → FileInfo) : MAgree (modifyFile i g) := .of_nodev fun _ => ⟨rfl, rfl⟩

theorem MAgree.getFileById (raw : Nat) : MAgree (getFileById raw) := .of_nodev fun s => by
  unfold Model.getFileById
  show _ ∧ (match s.files.findIdx? _ with | some i => _ | none => _) = _
  cases s.files.findIdx? (·.rawFile = raw) <;> exact ⟨rfl, rfl⟩
theorem MAgree.getDirById (raw : Nat) : MAgree (getDirById raw) := .of_nodev fun s => by
  unfold Model.getDirById
  show _ ∧ (match s.dirs.findIdx? _ with | some i => _ | none => _) = _
  cases s.dirs.findIdx? (·.rawDirectory = raw) <;> exact ⟨rfl, rfl⟩
theorem MAgree.getVolumeById (raw : Nat) : MAgree (getVolumeById raw) := .of_nodev fun s => by
  unfold Model.getVolumeById
  show _ ∧ (match s.vols.findIdx? _ with | some i => _ | none => _) = _
  cases s.vols.findIdx? (·.rawVolume = raw) <;> exact ⟨rfl, rfl⟩
theorem MAgree.getFile (i : Nat) : MAgree (getFile i) := .of_nodev fun s => by
  unfold Model.getFile
  show _ ∧ (match s.files[i]? with | some f => _ | none => _) = _
  cases s.files[i]? <;> exact ⟨rfl, rfl⟩
theorem MAgree.getDir (i : Nat) : MAgree (getDir i) := .of_nodev fun s => by
  unfold Model.getDir
  show _ ∧ (match s.dirs[i]? with | some f => _ | none => _) = _
  cases s.dirs[i]? <;> exact ⟨rfl, rfl⟩
theorem MAgree.toSfn (name : List Nat) : MAgree (toSfn name) := .of_nodev fun s => by
  unfold Model.toSfn
  cases Sfn.createFromStr name <;> exact ⟨rfl, rfl⟩

theorem MAgree.bind {α β} {m : M α} {f : α → M β} (hm : MAgree m) (hf : ∀ a, MAgree (f a)) : MAgree (m >>= f) := by
  intro s
  obtain ⟨hle, hag⟩ := hm s
  rcases hr : m s with ⟨r, s'⟩
  rw [hr] at hle hag
  cases r with
  | ok a =>
    obtain ⟨hle2, hag2⟩ := hf a s'
    rw [M.bind_ok hr]
    refine ⟨Nat.le_trans hle hle2, fun heq => ?_⟩
    have h1 : s'.dev.failed = s.dev.failed := by simp only at hle; omega
    have h2 : (f a s').2.dev.failed = s'.dev.failed := by omega
    rw [M.bind_ok (hag h1)]
    exact hag2 h2
  | err e =>
    rw [M.bind_err hr]
    exact ⟨hle, fun heq => by rw [M.bind_err (hag heq)]⟩
  | panic msg =>
    rw [M.bind_panic hr]
    exact ⟨hle, fun heq => by rw [M.bind_panic (hag heq)]⟩
  | diverged =>
    rw [M.bind_diverged hr]
    exact ⟨hle, fun heq => by rw [M.bind_diverged (hag heq)]⟩

theorem MAgree.attempt {α} {m : M α} (hm : MAgree m) : MAgree (M.attempt m) := by
  intro s
  obtain ⟨hle, hag⟩ := hm s
  refine ⟨hle, fun heq => ?_⟩
  show (Res.ok (m (mclr s)).1, (m (mclr s)).2) = _
  rw [hag heq]
  rfl

theorem MAgree.withVol {α} {f : F α} (i : Nat) (hf : Agree f) : MAgree (withVol i f) := by
  intro s
  unfold Model.withVol
  cases hv : s.vols[i]? with
  | none =>
    have : (mclr s).vols[i]? = none := hv
    simp only [this]
    exact ⟨Nat.le_refl _, fun _ => trivial⟩
  | some vi =>
    have : (mclr s).vols[i]? = some vi := hv
    simp only [this]
    obtain ⟨hle, hag⟩ := hf { dev := s.dev, cache := s.cache, vol := vi.vol }
    refine ⟨hle, fun heq => ?_⟩
    have h := hag heq
    have e : ({ dev := (mclr s).dev, cache := (mclr s).cache, vol := vi.vol } : FS) =
        clr { dev := s.dev, cache := s.cache, vol := vi.vol } := rfl
    rw [e, h]
    rfl

macro "magree_step" : tactic => `(tactic| first
  | with_reducible first
    | apply_hyp
    | exact MAgree.pure _
    | exact MAgree.lift _
    | exact MAgree.fail _
    | exact MAgree.panic _
    | exact MAgree.modifyFile _ _
    | exact MAgree.getFileById _
    | exact MAgree.getDirById _
    | exact MAgree.getVolumeById _
    | exact MAgree.getFile _
    | exact MAgree.getDir _
    | exact MAgree.toSfn _
    | exact MAgree.withVol _ (findDataOnDisk_agree _ _ _)
    | exact MAgree.withVol _ (readBlock_agree _)
    | exact MAgree.withVol _ (findDirectoryEntry_agree _ _)
    | exact MAgree.withVol _ (iterateRaw_agree _)
    | apply MAgree.attempt
    | apply MAgree.bind
  | intro_pi
  | dsimp only
  | split)

macro "magree_auto" : tactic => `(tactic| repeat magree_step)

theorem readLoop_magree (fi vi start fuel space : Nat) (acc : Bytes) : MAgree (readLoop fi vi start fuel space acc) := by
  induction fuel generalizing space acc with
  | zero => unfold readLoop; magree_auto
  | succ n ih => unfold readLoop; magree_auto

theorem read_magree (h n : Nat) : MAgree (Model.read h n) := by
  have := readLoop_magree
  unfold Model.read; magree_auto

theorem findDirectoryEntry_magree (d : Nat) (name : List Nat) : MAgree (Model.findDirectoryEntry d name) := by
  unfold Model.findDirectoryEntry; magree_auto

theorem iterateDir_magree (d : Nat) : MAgree (iterateDir d) := by
  unfold iterateDir; magree_auto

theorem iterateDirLfn_magree (d n : Nat) : MAgree (iterateDirLfn d n) := by
  unfold iterateDirLfn; magree_auto

/-- What erasure gives: a run that hit no scheduled fault has the outcome of the run without faults,
and its end state is that run's end state up to the schedule. -/
theorem MAgree.run {α} {m : M α} (hm : MAgree m) (s : Mgr) (h : (m s).2.dev.failed = s.dev.failed) :
    (m s).1 = (m (mclr s)).1 ∧ mclr (m s).2 = (m (mclr s)).2 := by
  rw [(hm s).2 h]
  exact ⟨rfl, rfl⟩

/-! ### Without scheduled faults nothing fails -/

/-- With an empty schedule the schedule stays empty and `failed` does not move. -/
def Quiet (s s' : FS) : Prop := s.dev.faults = [] → s'.dev.faults = [] ∧ s'.dev.failed = s.dev.failed
instance : RelOK Quiet :=
  ⟨fun _ h => ⟨h, rfl⟩, fun h1 h2 h => ⟨(h2 (h1 h).1).1, (h2 (h1 h).1).2.trans (h1 h).2⟩⟩

theorem Quiet.cacheRead (idx : Nat) : F.Inv Quiet (cacheRead idx) := by
  intro s hn
  by_cases ht : s.cache.tag = some idx
  · have h0 : Model.cacheRead idx s = (.ok (), s) := by unfold Model.cacheRead; rw [if_pos ht]
    rw [h0]; exact ⟨hn, rfl⟩
  · have hf : s.dev.faults.contains s.dev.calls = false := by rw [hn]; rfl
    have h1 : Model.cacheRead idx s = (.ok (), { s with
        dev := { s.dev with calls := s.dev.calls + 1, rlog := idx :: s.dev.rlog },
        cache := { tag := some idx, blk := s.dev.disk.get idx } }) := by
      unfold Model.cacheRead Model.devRead; rw [if_neg ht]; simp only [hf]; rfl
    rw [h1]; exact ⟨hn, rfl⟩

instance : ReadOK Quiet := { cacheRead := Quiet.cacheRead }

def MQuiet (s s' : Mgr) : Prop := s.dev.faults = [] → s'.dev.faults = [] ∧ s'.dev.failed = s.dev.failed
instance : RelOK MQuiet :=
  ⟨fun _ h => ⟨h, rfl⟩, fun h1 h2 h => ⟨(h2 (h1 h).1).1, (h2 (h1 h).1).2.trans (h1 h).2⟩⟩

instance : MDev MQuiet Quiet where
  of_dev_eq := fun s s' hd _ h => by rw [hd]; exact ⟨h, rfl⟩
  of_fs := fun s fs fs' vs hd _ hr h => by
    have := hr (by rw [hd]; exact h)
    rw [hd] at this
    exact this

/-- Every read-only call of the API: with an empty schedule no device call fails. -/
theorem readonly_quiet (op : Op) (h : readOnlyOp op = true) (s : Mgr) (hn : s.dev.faults = []) :
    (runOp op s).2.dev.failed = s.dev.failed :=
  (runOp_readonly_inv (R := MQuiet) op h s hn).2

end Sdmmc.Lemmas.Retry
