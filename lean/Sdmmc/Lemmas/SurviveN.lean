/-
C09 with SEVERAL OPEN VOLUMES, part 1: what the one-volume invariant `Kept` (`Lemmas/SurviveStep.lean`) READS.

`Kept v0 e cs ys h t gh` — the one-volume manager `t` (ghost `gh`) shows the flushed file `e` — depends on `t` only through
* the medium on the STRUCTURAL blocks of the volume (FAT, root-directory and data region: `Lemmas.VolNCrash.Structural`) —
  not on block 0, the boot sector, the FAT32 info sector or any block outside the partition;
* the open files up to their ORDER (`List.Perm`), the open directories as a SET of valid handles, the volume table;
* the standing facts (no scheduled fault, coherent cache, unlocked, `maxVols = 1`).

`Kept.transport` — hence `Kept` moves, WITH THE SAME GHOST, to every manager `t'` that agrees with `t` in these respects.
This is what carries the invariant of the flushed file (a) from the state the projection `proj s i` reaches to the
projection of the state the multi-volume manager reaches (same medium, tables permuted: `Lemmas.VolN.ProjRel`), and (b)
across every call that works on ANOTHER volume (the medium changes outside the partition only) or on no volume.

`sameFile_of_agree` — a medium that agrees with the medium of a `Kept` state on the structural blocks keeps the file
(`Lemmas.Survive.SameFile`: slot bytes, FAT entries and bytes of the chain, links of the directory chains, slots on the path):
the crash points of calls on other volumes.

Nothing here mentions several volumes; the lemmas are about one `Kept` state and a second manager / medium.
-/
import Sdmmc.Lemmas.SurviveEstablish
import Sdmmc.Lemmas.VolNCrash4

namespace Sdmmc.Lemmas.SurviveN
open Sdmmc.Model Sdmmc.Model.Fat Sdmmc.Spec.Volume Sdmmc.Lemmas.VolBase Sdmmc.Lemmas.VolTree
open Sdmmc.Spec hiding NoFault Coherent run step
open Sdmmc.Lemmas.VolDisk Sdmmc.Lemmas.VolMed Sdmmc.Lemmas.VolEng
open Sdmmc.Lemmas.Survive
open Sdmmc.Lemmas.VolNCrash (Structural)

/-- The slots of a directory of the tree are read from structural blocks only. -/
theorem dirSlots_agree {v : FatVolume} {d d' : Disk} {files : List FileInfo} {gh : Ghost} (hM : MedInv v d files gh)
    (hsame : ∀ b, Structural v b → d'.get b = d.get b) {h : Nat} (hh : h ∈ dirIds gh.dirs) :
    dirSlots v d' gh.G h = dirSlots v d gh.G h := by
  have hX := medX_of_med hM
  apply dirSlots_congr
  intro sl hs
  rcases dirSlot_not_fat hX hh hs with e | e
  · exact hsame _ (.inr (.inl e))
  · exact hsame _ (.inr (.inr e))

/-- A path only looks at the slots of directories of the tree. -/
theorem pathOn_congr {ft : FatType} {dirs : List (Nat × Nat)} {slots slots' : Nat → List Slot}
    (h : ∀ q, q ∈ dirIds dirs → slots' q = slots q) {p hh : Nat} {ys : List Slot} (hP : PathOn ft dirs slots p ys hh) :
    PathOn ft dirs slots' p ys hh := by
  induction hP with
  | nil q hq => exact .nil q hq
  | cons q y ys h' hq hy hd _ ih => exact .cons q y ys h' hq (by rw [h q hq]; exact hy) hd ih

/-- Identical FAT copies: read from the FAT region only. -/
theorem mirror_agree {v : FatVolume} {d d' : Disk} (hg : WFGeom v) (hm : Mirror v d)
    (hsame : ∀ b, Structural v b → d'.get b = d.get b) : Mirror v d' := by
  intro c hc b2 hb2
  obtain ⟨r1, r2⟩ := FatLens.fat_blocks_in_fat_region v hg c hc
  rw [hsame _ (.inl (r2 b2 hb2)), hsame _ (.inl r1)]
  exact hm c hc b2 hb2

section
variable {v0 : FatVolume} {e : DirEntry} {cs : List Nat} {ys : List Slot} {h : Nat} {t : Mgr} {gh : Ghost}

/-- Structural blocks of the reference geometry are structural blocks of the ghost's record. -/
theorem structural_geom (hK : Kept v0 e cs ys h t gh) {b : Nat}
    (hb : regionOf v0 b = .fat ∨ regionOf v0 b = .data ∨ regionOf v0 b = .root) : Structural gh.vol b := by
  unfold Structural
  rw [hK.geom.regionOf]
  exact hb

/-- **A medium that agrees with the medium of a `Kept` state on the structural blocks of the volume keeps the file.** -/
theorem sameFile_of_agree (hK : Kept v0 e cs ys h t gh) (hst : Reopen.Storable v0.fatType e) {dk : Disk} (hb : BlocksOK dk)
    (hsame : ∀ b, Structural gh.vol b → dk.get b = t.dev.disk.get b) : SameFile v0 e cs gh ys t.dev.disk dk := by
  have hI := hK.inv
  have hM := medX_of_med hI.med
  have hg0 : WFGeom v0 := hK.geom.symm.wfGeom hI.med.geom
  obtain ⟨_, _, _, _, hreg, _, _, hin⟩ := hK.facts hst
  have hfat : ∀ c, InRange v0 c → fatRaw v0 dk c = fatRaw v0 t.dev.disk c := by
    intro c hc
    unfold fatRaw
    rw [hsame _ (structural_geom hK (.inl (FatLens.fat_blocks_in_fat_region v0 hg0 c hc.2).1))]
  refine ⟨hb, ?_, fun x hx => hfat x (hin x hx), ?_, ?_, ?_⟩
  · rw [hsame _ (structural_geom hK (by rcases hreg with h1 | h1; exact .inr (.inr h1); exact .inr (.inl h1)))]
  · refine WriteRefines.chainBytes_congr v0 _ _ cs fun x hx j hj => ?_
    exact hsame _ (structural_geom hK (.inr (.inl
      (WriteSet.data_block_region v0 hg0 x _ (hin x hx) (Nat.le_add_right _ _) (by omega)))))
  · intro q hq c hc
    have hcm := dirChain_sub hM (List.dropLast_subset _ hc)
    exact hfat c ((hK.geom.inRange c).1 (chainOf_inRange hM hcm))
  · intro y hy
    obtain ⟨q, hq, hyo, _⟩ := hK.path.entry y hy
    rcases dirSlot_not_fat hM hq (mem_of_mem_objects hyo) with h1 | h1
    · rw [hsame _ (.inr (.inl h1))]
    · rw [hsame _ (.inr (.inr h1))]

/-- **`Kept` moves, with the same ghost, to a manager that agrees on what `Kept` reads**: the medium on the structural
blocks, the open files up to order, open directories that are old ones or root handles, the volume table. -/
theorem Kept.transport (hK : Kept v0 e cs ys h t gh) (hst : Reopen.Storable v0.fatType e) {t' : Mgr}
    (hnf : t'.dev.faults = []) (hco : ∀ i, t'.cache.tag = some i → t'.cache.blk = t'.dev.disk.get i)
    (hul : t'.locked = false) (hmv : t'.maxVols = 1) (hvols : t'.vols = t.vols) (hfiles : t.files.Perm t'.files)
    (hdirs : ∀ di, di ∈ t'.dirs → di ∈ t.dirs ∨ di.cluster = Gen.CLUSTER_ROOT_DIR)
    (hb : BlocksOK t'.dev.disk) (hsame : ∀ b, Structural gh.vol b → t'.dev.disk.get b = t.dev.disk.get b) :
    Kept v0 e cs ys h t' gh := by
  have hI := hK.inv
  have hslots : ∀ q, q ∈ dirIds gh.dirs → dirSlots gh.vol t'.dev.disk gh.G q = dirSlots gh.vol t.dev.disk gh.G q :=
    fun q hq => dirSlots_agree hI.med hsame hq
  have hS := sameFile_of_agree hK hst hb hsame
  have hmed : MedInv gh.vol t'.dev.disk t'.files gh :=
    VolN.medInv_files_perm (VolNCrash.medInv_congr_regions hI.med hb hsame) hfiles
  have hI' : VolInv t' gh := by
    refine ⟨hnf, hco, hul, hmv, by rw [hvols]; exact hI.vols, hmed, ?_, ?_⟩
    · intro f hf
      rw [hvols]
      exact hI.fileVols f (hfiles.symm.subset hf)
    · intro di hdi
      rcases hdirs di hdi with h1 | h1
      · exact hI.openDirs di h1
      · exact .inl h1
  refine ⟨hI', mirror_agree hI.med.geom hK.mirror hsame, ?_, hK.geom, hS.flushed hK.flushed, hK.dir, ?_, hK.file, ?_, ?_,
    hK.pathNames⟩
  · intro f hf
    have hf0 : f ∈ t.files := hfiles.symm.subset hf
    obtain ⟨_, _, hreg, _⟩ := AcctAll.file_slot_facts hI hf0
    rw [VolNCrash.slotAt_congr (hsame _ (by rcases hreg with h1 | h1; exact .inr (.inl h1); exact .inr (.inr h1)))]
    exact hK.raw f hf0
  · rw [hslots h hK.dir]; exact hK.mem
  · exact fun f hf hk => hK.synced f (hfiles.symm.subset hf) hk
  · exact pathOn_congr (fun q hq => hslots q hq) hK.path

end

end Sdmmc.Lemmas.SurviveN
