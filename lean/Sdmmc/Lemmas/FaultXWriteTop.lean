/-
C11, arbitrary fault placement — `write` UNDER ANY SCHEDULE, part 2: the call (`write_F`, `write_faulted`): the record is
marked modified; a file without clusters gets its first one (`alloc_cluster(None)`, every crash point of which carries
the invariant — the marked cluster is a chain nothing refers to); then the loop (`writeLoop_F`).
-/
import Sdmmc.Lemmas.FaultXWrite
import Sdmmc.Lemmas.RetryWriteTop

namespace Sdmmc.Lemmas.FaultX
open Sdmmc.Model Sdmmc.Model.Fat Sdmmc.Spec.Volume Sdmmc.Lemmas.VolBase Sdmmc.Lemmas.VolTree
open Sdmmc.Spec hiding NoFault Coherent
open Sdmmc.Lemmas.VolDisk Sdmmc.Lemmas.VolMed Sdmmc.Lemmas.VolEng Sdmmc.Lemmas.VolX
open Sdmmc.Lemmas.FBasic (NoFault Coherent)
open Sdmmc.Lemmas.Retry Sdmmc.Lemmas.FaultInv Sdmmc.Lemmas.MHoare
open Sdmmc.Lemmas.WriteRefines (WInv WStep LoopFile MOK withChain_ne withChain_nil touchFile fixup writeTail writeRest)

theorem fixup_entry (f : FileInfo) : (fixup f).entry = f.entry := by unfold fixup; split <;> rfl
theorem fixup_offset (f : FileInfo) : (fixup f).currentOffset = f.currentOffset := by unfold fixup; split <;> rfl
theorem fixup_dirty (f : FileInfo) : (fixup f).dirty = f.dirty := by unfold fixup; split <;> rfl
theorem fixup_rv (f : FileInfo) : (fixup f).rawVolume = f.rawVolume := by unfold fixup; split <;> rfl

theorem attrsOK_touch {f : FileInfo} (h : AttrsOK f) (now : Timestamp) : AttrsOK (touchFile now f) := by
  obtain ⟨a1, a2, a3, a4⟩ := h
  obtain ⟨b1, b2, b3⟩ := VolApi.setArchive_ok a1 a2 a3
  exact ⟨b1, b2, b3, a4⟩

theorem attrsOK_entry {f g : FileInfo} (h : AttrsOK f) (ha : g.entry.attributes = f.entry.attributes)
    (hs : g.entry.size = f.entry.size) : AttrsOK g := by
  unfold AttrsOK at h ⊢
  rw [ha, hs]; exact h

section
variable {X : List (List Nat)} {gh : Ghost}

/-- **`write` under any fault schedule keeps the invariant** (up to the schedule; lost chains may appear). -/
theorem write_F {s : Mgr} (hI : VolInvX X (mclr s) gh) (file : Nat) (data : Bytes) : InvF gh (Model.write file data s).2 := by
  have hself : InvF gh s := ⟨gh, X, hI, SameGeom.refl _⟩
  cases hidx : s.files.findIdx? (·.rawFile = file) with
  | none =>
    have : Model.write file data s = (.err .BadHandle, s) := by
      unfold Model.write
      rw [bind_err (getFileById_bad hidx)]
    rw [this]; exact hself
  | some i =>
    obtain ⟨f, hf, _⟩ := findIdx?_some_get hidx
    have hfm : f ∈ (mclr s).files := List.mem_of_getElem? hf
    obtain ⟨vi, hv, hvol, hrv, _⟩ := vol_of_file hI hfm
    have hvs : s.vols = [vi] := hv
    have hvfind : s.vols.findIdx? (·.rawVolume = f.rawVolume) = some 0 := by rw [hvs]; simp [hrv]
    have hvi : s.vols[0]? = some vi := by rw [hvs]; rfl
    by_cases hmode : f.mode = .ReadOnly
    · rw [WriteRefines.write_readOnly s file i 0 data f hidx hf hvfind hmode]
      exact hself
    have hM := medX_of_med hI.med
    have hG : HeadsOK gh.G := med_heads hM
    have hT := hI.med.tree
    obtain ⟨hok, hcur⟩ := hI.med.fileOK f hfm
    generalize hcsdef : chainOf gh.G f.entry.cluster = cs at hok hcur
    have hhead : cs ≠ [] → cs ∈ gh.G ∧ cs.head? = some f.entry.cluster := by
      intro hne
      rw [← hcsdef] at hne ⊢
      exact chainOf_spec hG ((chainOf_ne_nil_iff hG).1 hne)
    obtain ⟨A, B, hGeq⟩ : ∃ A B, gh.G = withChain A cs B := by
      by_cases hne : cs = []
      · exact ⟨[], gh.G, by rw [hne, WriteRefines.withChain_nil]; rfl⟩
      · obtain ⟨A, B, h⟩ := List.append_of_mem (hhead hne).1
        exact ⟨A, B, by rw [WriteRefines.withChain_ne hne, h]; simp⟩
    have hmok : MOK (mclr s) := by
      show _ ∧ _ ∧ _ ∧ _
      exact ⟨hI.noFault, hI.coherent, hI.med.blocksOK, hI.unlocked⟩
    have C : WCtx X (mclr s) gh i f vi cs A B := ⟨hI, hf, hv, hvol, hrv, hcsdef, hGeq⟩
    have hg : WFGeom vi.vol := by rw [hvol]; exact hI.med.geom
    have hhint : HintOK vi.vol := by rw [hvol]; exact hI.med.hint
    have hokv : FileOK vi.vol (mclr s).dev.disk f cs := by rw [hvol]; exact hok
    have hown : Owns vi.vol (mclr s).dev.disk (withChain A cs (B ++ X)) := by
      rw [hvol, ← withChain_append, ← hGeq]; exact hI.med.owns
    have hsgv : SameGeom gh.vol vi.vol := by rw [hvol]; exact SameGeom.refl _
    have hattr0 : AttrsOK f := hT.fileAttrs f hfm
    have hilt : i < s.files.length := (List.getElem?_eq_some_iff.1 hf).1
    rw [WriteRefines.write_run s file i 0 data f hidx hf hvfind hmode]
    generalize hfa : touchFile s.clock f = fa
    have hfa_entry : fa.entry.size = f.entry.size ∧ fa.entry.cluster = f.entry.cluster ∧ fa.entry.name = f.entry.name ∧
        fkey fa = fkey f ∧ fa.dirty = true ∧ fa.rawVolume = f.rawVolume ∧ fa.currentOffset = f.currentOffset := by
      rw [← hfa]; exact ⟨rfl, rfl, rfl, rfl, rfl, rfl, rfl⟩
    obtain ⟨hfa_size, hfa_cl, hfa_name, hfa_key, hfa_dirty, hfa_rv, hfa_off⟩ := hfa_entry
    have hfa_attr : AttrsOK fa := by rw [← hfa]; exact attrsOK_touch hattr0 _
    generalize hsa : ({ s with files := s.files.set i fa } : Mgr) = sa
    have hsa_f : sa.files[i]? = some fa := by rw [← hsa]; exact List.getElem?_set_self hilt
    have hsa_v : sa.vols.findIdx? (·.rawVolume = f.rawVolume) = some 0 := by rw [← hsa]; exact hvfind
    have hposle : f.currentOffset ≤ Gen.MAX_FILE_SIZE := Nat.le_trans hok.pos_le hattr0.2.2.2
    unfold writeTail
    by_cases hcl : f.entry.cluster < 2
    · -- a file without clusters: the first one is allocated
      have hcs : cs = [] := by
        rcases hok.chain with ⟨_, h1, _⟩ | h1
        · exact h1
        · have := (ChainL.chain_inRange h1 _ (ForestBase.chain_head_mem h1)).1; omega
      subst hcs
      rw [if_pos (show f.entry.cluster < Gen.RESERVED_ENTRIES from hcl)]
      rw [withChain_nil] at hown
      -- the invariant after the record was marked
      have haa : Asm (mclr s) gh i f vi [] sa fa vi [] := by
        refine ⟨?_, rfl, hsgv, List.prefix_refl _, fun b _ _ => by rw [← hsa]; rfl, hfa_key, hfa_name, hfa_attr, hfa_dirty, hfa_rv,
          fun _ => hfa_cl⟩
        rw [← hsa]
        show ({ mclr s with files := s.files.set i fa } : Mgr) = { mclr s with files := (mclr s).files.set i fa, vols := (mclr s).vols.set 0 vi }
        rw [ReadRefines.list_set_self _ _ _ (show (mclr s).vols[0]? = some vi from hvi)]
        rfl
      have hoka : FileOK vi.vol sa.dev.disk fa [] := by
        rw [← hsa, ← hfa]
        exact ⟨hokv.chain, hokv.size_fits, hokv.pos_le, hokv.cursor⟩
      have hIa : VolInvX X (mclr sa) { vol := vi.vol, G := withChain A [] B, dirs := gh.dirs } := by
        refine asm_state C haa hoka (fun _ => by rw [← hfa]; exact hcur rfl) ?_ ?_ ?_ hhint
        · rw [withChain_append, withChain_nil, ← hsa]; exact hown
        · rw [← hsa]; exact hI.coherent
        · rw [← hsa]; exact hI.med.blocksOK
      have hvsa : sa.vols = [vi] := by rw [← hsa]; exact hvs
      have hn1 : NoFault (VolApi.fsOf (mclr sa) { vol := vi.vol, G := withChain A [] B, dirs := gh.dirs }) := hIa.noFault
      have hc1 : Coherent (VolApi.fsOf (mclr sa) { vol := vi.vol, G := withChain A [] B, dirs := gh.dirs }) := hIa.coherent
      have hcases := CrashStep.alloc_cases _ none false hn1 hc1
      have hfsEq : VolApi.fsOf (mclr sa) { vol := vi.vol, G := withChain A [] B, dirs := gh.dirs } = ReadRefines.fsOf (mclr s) vi := by
        rw [← hsa]; rfl
      have hcr : CrashBase.CrashAll (MX vi.vol sa.files gh.dirs)
          (VolApi.fsOf (mclr sa) { vol := vi.vol, G := withChain A [] B, dirs := gh.dirs })
          (allocCluster none false (VolApi.fsOf (mclr sa) { vol := vi.vol, G := withChain A [] B, dirs := gh.dirs })).2 := by
        rcases hcases with ⟨c, fs2, hal0⟩ | ⟨fs2, hal0, ro2⟩
        · rw [hal0]
          obtain ⟨hc2, hcE, hfree⟩ := FatOps.alloc_in_range_and_free _ fs2 none false c hn1 hc1 hIa.med.hint hal0
          obtain ⟨_, hWn⟩ := CrashAlloc.alloc_crash _ fs2 none false c hn1 hc1 hIa.med.blocksOK hIa.med.geom hIa.med.hint
            (fun p hp => by cases hp) hal0
          obtain ⟨_, _, hb', hsg, _, _, _, _, heof, _, _, _⟩ :=
            ForestAlloc.alloc_spec _ fs2 none false c hn1 hc1 hIa.med.blocksOK hIa.med.geom hIa.med.hint (fun p hp => by cases hp) hal0
          have heof' : nextOf vi.vol fs2.dev.disk c = .err .EndOfFile := heof
          have hMk := medX_mark (P := false = true) hIa.med hb' ⟨hc2, hcE⟩ hfree hWn heof'
          exact alloc_mx (gh := { vol := vi.vol, G := withChain A [] B, dirs := gh.dirs }) hIa.med hn1 hc1 (fun p hp => by cases hp) hal0 hb'
            (mx_of_med (gh := { vol := vi.vol, G := withChain A [] B, dirs := gh.dirs }) hMk)
        · rw [hal0]
          exact CrashBase.CrashAll.of_ro ro2
            (mx_of_med (gh := { vol := vi.vol, G := withChain A [] B, dirs := gh.dirs }) hIa.med)
      obtain ⟨hinv2, hdich⟩ := withVolS_F hIa hvsa rfl (FaultPre.allocCluster_pre none false)
        (Fault.allocCluster_inv (R := FaultsSame) none false) (allocCluster_len _ _) (allocCluster_geo _ _)
        (FaultCoh.allocCluster_coh _ _) (allocCluster_hint none false _ hhint) (fun _ h => h) hcr
      rcases hal : withVol 0 (allocCluster none false) sa with ⟨ra, sb⟩
      rw [hal] at hinv2 hdich
      simp only at hinv2 hdich
      have hinv2' : InvF gh sb := hinv2.sameGeom hsgv
      rcases hdich with hqe | hde
      swap
      · subst hde
        rw [Fault.M.bind_err hal]; exact hinv2'
      have hv1m : (mclr sa).vols[0]? = some vi := by rw [← hsa]; exact hvi
      have hrunM := WriteRefines.withVol_run 0 (allocCluster none false) (mclr sa) vi hv1m
      have hfsEq' : ReadRefines.fsOf (mclr sa) vi = ReadRefines.fsOf (mclr s) vi := by rw [← hsa]; rfl
      rw [hfsEq] at hcases
      rw [hfsEq'] at hrunM
      rcases hcases with ⟨c, fs2, hal0⟩ | ⟨fs2, hal0, ro2⟩
      swap
      · rw [hal0] at hrunM
        simp only at hrunM
        rw [hrunM] at hqe
        obtain ⟨hra, _⟩ := Prod.mk.inj hqe
        subst hra
        rw [Fault.M.bind_err hal]; exact hinv2'
      rw [hal0] at hrunM
      simp only at hrunM
      rw [hrunM] at hqe
      obtain ⟨hra, hsb⟩ := Prod.mk.inj hqe
      subst hra
      rw [Fault.M.bind_ok hal]
      -- the loop invariant with the first cluster
      obtain ⟨hinv, hsg1⟩ := Retry.prologue_inv_first (mclr s) i 0 f vi A (B ++ X) c fs2 hmok hf hvi hg hhint hokv (hcur rfl) hown hal0
      have hnfB : fs2.dev.faults = [] := hinv.ok.1
      obtain ⟨_, _, _, _, _, hframe⟩ := DirFat.alloc_frame (ReadRefines.fsOf (mclr s) vi) fs2 none false c hmok.1 hmok.2.1 hmok.2.2.1 hg hhint
        (fun q hq => by cases hq) hal0
      obtain ⟨hc2, hcE, _⟩ := FatOps.alloc_in_range_and_free (ReadRefines.fsOf (mclr s) vi) fs2 none false c hmok.1 hmok.2.1 hhint hal0
      generalize hfcdef : ({ fa with entry := { fa.entry with cluster := c } } : FileInfo) = fc
      have hmodc : modifyFile i (fun g => { g with entry := { g.entry with cluster := c } }) sb =
          (.ok (), { sb with files := sb.files.set i fc }) := by
        show (Res.ok (), ({ sb with files := sb.files.modify i _ } : Mgr)) = _
        rw [WriteRefines.modify_eq_set _ _ _ _ (by rw [hsb]; exact hsa_f), hfcdef]
      rw [Fault.M.bind_ok hmodc]
      generalize hsc : ({ sb with files := sb.files.set i fc } : Mgr) = sc
      have hsc_f : sc.files[i]? = some fc := by
        rw [← hsc]; exact List.getElem?_set_self (by rw [hsb, ← hsa]; show i < (s.files.set i fa).length; rw [List.length_set]; exact hilt)
      have hsc_v : sc.vols.findIdx? (·.rawVolume = f.rawVolume) = some 0 := by
        rw [← hsc, hsb, ← hsa]
        show (s.vols.set 0 { vi with vol := fs2.vol }).findIdx? _ = _
        rw [hvs]; simp [hrv]
      have hst := Retry.writeRest_state' i 0 f.rawVolume data sc fc hsc_f hsc_v
      show InvF gh (writeRest f.rawVolume i data sc).2
      rw [hst]
      generalize hn : min data.length (Gen.MAX_FILE_SIZE - (fixup fc).currentOffset) = n
      generalize hsd : ({ sc with files := sc.files.set i (fixup fc) } : Mgr) = sd
      have hmsb : mclr sb = { mclr sa with dev := fs2.dev, cache := fs2.cache, vols := (mclr sa).vols.set 0 { vi with vol := fs2.vol } } := by
        rw [hsb]; exact mclr_withFaults hnfB _
      have hmsd : mclr sd = { mclr s with dev := fs2.dev, cache := fs2.cache, files := (mclr s).files.set i (fixup fc), vols := (mclr s).vols.set 0 { vi with vol := fs2.vol } } := by
        have e1 : mclr sd = { mclr sb with files := (sb.files.set i fc).set i (fixup fc) } := by rw [← hsd, ← hsc]; rfl
        have e2 : sb.files = s.files.set i fa := by
          have := congrArg Mgr.files hmsb
          rw [← hsa] at this; exact this
        rw [e1, hmsb, e2, List.set_set, List.set_set, ← hsa]; rfl
      have hW : WInv i 0 A (B ++ X) (mclr sd) (fixup fc) { vi with vol := fs2.vol } [c] := by
        rw [hmsd, ← hfcdef, ← hfa]; exact hinv
      have hfc_e : (fixup fc).entry = fc.entry := fixup_entry fc
      have hfc_attr : AttrsOK (fixup fc) := by
        refine attrsOK_entry hfa_attr ?_ ?_
        · rw [hfc_e, ← hfcdef]
        · rw [hfc_e, ← hfcdef]
      have hasd : Asm (mclr s) gh i f vi [] sd (fixup fc) { vi with vol := fs2.vol } [c] := by
        refine ⟨by rw [hmsd], rfl, hsgv.trans hsg1, List.nil_prefix, fun b h1 h2 => ?_, ?_, ?_, hfc_attr, ?_, ?_, fun e => by cases e⟩
        · have hd : sd.dev.disk = fs2.dev.disk := congrArg (fun t => t.dev.disk) hmsd
          rw [hd]
          have h1' : ¬ IsFatBlock vi.vol b := fun hx => h1 (by rw [← hvol]; exact hx)
          exact hframe b (fun hm => h1' (WriteRefines.isFatBlock_of_mem hcE hm)) (fun p hp hm => by cases hp) (fun hz => by cases hz.1)
        · show (((fixup fc).entry.entryBlock, (fixup fc).entry.entryOffset) : Nat × Nat) = _
          rw [hfc_e, ← hfcdef]; exact hfa_key
        · rw [hfc_e, ← hfcdef]; exact hfa_name
        · rw [fixup_dirty, ← hfcdef]; exact hfa_dirty
        · rw [fixup_rv, ← hfcdef]; exact hfa_rv
      refine writeLoop_F C (n + 1) (data.take n) sd (fixup fc) _ [c] hW hasd ?_
      have hoff : (fixup fc).currentOffset = f.currentOffset := by rw [fixup_offset, ← hfcdef]; exact hfa_off
      rw [List.length_take]
      rw [hoff] at hn
      rw [hoff]; omega
    · -- the file owns clusters
      rw [if_neg (show ¬ f.entry.cluster < Gen.RESERVED_ENTRIES from hcl)]
      have hinv := Retry.prologue_inv_chain (mclr s) i 0 f vi cs A (B ++ X) hmok hf hvi hg hhint hokv hown hcl
      have hst := Retry.writeRest_state' i 0 f.rawVolume data sa fa hsa_f hsa_v
      show InvF gh (writeRest f.rawVolume i data sa).2
      rw [hst]
      generalize hn : min data.length (Gen.MAX_FILE_SIZE - (fixup fa).currentOffset) = n
      generalize hsd : ({ sa with files := sa.files.set i (fixup fa) } : Mgr) = sd
      have hsd_eq : sd = { s with files := (s.files.set i fa).set i (fixup fa) } := by rw [← hsd, ← hsa]
      have hW : WInv i 0 A (B ++ X) (mclr sd) (fixup fa) vi cs := by
        rw [hsd_eq, ← hfa]; exact hinv
      have hfa_e : (fixup fa).entry = fa.entry := fixup_entry fa
      have hasd : Asm (mclr s) gh i f vi cs sd (fixup fa) vi cs := by
        refine ⟨?_, rfl, hsgv, List.prefix_refl _, fun b _ _ => by rw [hsd_eq]; rfl, ?_, ?_, ?_, ?_, ?_, fun _ => ?_⟩
        · rw [hsd_eq, List.set_set]
          show ({ mclr s with files := s.files.set i (fixup fa) } : Mgr) =
            { mclr s with files := (mclr s).files.set i (fixup fa), vols := (mclr s).vols.set 0 vi }
          rw [ReadRefines.list_set_self _ _ _ (show (mclr s).vols[0]? = some vi from hvi)]
          rfl
        · show (((fixup fa).entry.entryBlock, (fixup fa).entry.entryOffset) : Nat × Nat) = _
          rw [hfa_e]; exact hfa_key
        · rw [hfa_e]; exact hfa_name
        · exact attrsOK_entry hfa_attr (by rw [hfa_e]) (by rw [hfa_e])
        · rw [fixup_dirty]; exact hfa_dirty
        · rw [fixup_rv]; exact hfa_rv
        · rw [hfa_e]; exact hfa_cl
      refine writeLoop_F C (n + 1) (data.take n) sd (fixup fa) vi cs hW hasd ?_
      have hoff : (fixup fa).currentOffset = f.currentOffset := by rw [fixup_offset]; exact hfa_off
      rw [List.length_take]
      rw [hoff] at hn
      rw [hoff]; omega

/-- **`write` under any fault schedule**, from a state satisfying the invariant. -/
theorem write_faulted {s0 : Mgr} (hI : VolInvX X s0 gh) (L : List Nat) (file : Nat) (data : Bytes) :
    InvF gh (Model.write file data (withFaults L s0)).2 :=
  write_F (s := withFaults L s0) (by rw [mclr_withFaults hI.noFault L]; exact hI) file data

end

end Sdmmc.Lemmas.FaultX
