/-
Volume invariant (C03): what `ShortFileName::create_from_str` produces — 11 bytes, none of them zero
(`sfn_facts`).  So a created entry never reads as an end marker.
-/
import Sdmmc.Model.Name
import Sdmmc.Lemmas.C18

namespace Sdmmc.Lemmas.VolSfn
open Sdmmc.Model

/-- The loop invariant: 11 bytes, none zero. -/
def Good (c : Bytes) : Prop := c.length = 11 ∧ ∀ b, b ∈ c → b ≠ 0

theorem good_set (c : Bytes) (i : Nat) (b : UInt8) (h : Good c) (hb : b ≠ 0) : Good (c.set i b) := by
  refine ⟨by rw [List.length_set]; exact h.1, ?_⟩
  intro x hx
  rcases List.mem_or_eq_of_mem_set hx with hx | rfl
  · exact h.2 x hx
  · exact hb

theorem upper_ne_zero (ch : Nat) (h1 : Sfn.invalidChar ch = false) (h2 : ¬ ch > 0xFF) : UInt8.ofNat (Sfn.upper ch) ≠ 0 := by
  have hgt : 0x1F < ch := by
    unfold Sfn.invalidChar at h1
    simp only [Bool.or_eq_false_iff, decide_eq_false_iff_not] at h1
    omega
  have hup : 0 < Sfn.upper ch ∧ Sfn.upper ch < 256 := by
    unfold Sfn.upper
    split <;> omega
  intro e
  have := congrArg UInt8.toNat e
  rw [UInt8.toNat_ofNat'] at this
  simp only [UInt8.toNat_zero] at this
  omega

theorem step_good (st st' : Sfn.PState) (ch : Nat) (h : Good st.contents) (hs : Sfn.step st ch = .ok st') :
    Good st'.contents := by
  unfold Sfn.step at hs
  by_cases h1 : Sfn.invalidChar ch = true
  · rw [if_pos h1] at hs; cases hs
  · rw [if_neg h1] at hs
    have h1' : Sfn.invalidChar ch = false := by simpa using h1
    by_cases h2 : ch > 0xFF
    · rw [if_pos h2] at hs; cases hs
    · rw [if_neg h2] at hs
      by_cases h3 : ch = 0x2E
      · rw [if_pos h3] at hs
        split at hs
        · cases hs; exact h
        · cases hs
      · rw [if_neg h3] at hs
        simp only at hs
        split at hs
        · split at hs
          · cases hs; exact good_set _ _ _ h (upper_ne_zero ch h1' h2)
          · cases hs
        · split at hs
          · cases hs; exact good_set _ _ _ h (upper_ne_zero ch h1' h2)
          · cases hs

theorem loop_good (name : List Nat) : ∀ (st st' : Sfn.PState), Good st.contents → Sfn.loop st name = .ok st' → Good st'.contents := by
  induction name with
  | nil =>
    intro st st' h hl
    rw [C18.loop_nil] at hl
    injection hl with hl
    rw [← hl]; exact h
  | cons ch rest ih =>
    intro st st' h hl
    obtain ⟨st1, hs, hl'⟩ := (C18.loop_cons_ok st st' ch rest).1 hl
    exact ih st1 st' (step_good st st1 ch h hs) hl'

theorem good_init : Good (List.replicate Sfn.TOTAL_LEN (UInt8.ofNat 32)) := by
  refine ⟨by simp [Sfn.TOTAL_LEN, Gen.SFN_TOTAL_LEN], ?_⟩
  intro b hb
  rw [List.mem_replicate] at hb
  rw [hb.2]
  decide

theorem good_thisDir : Good Sfn.thisDir := by
  refine ⟨by decide, ?_⟩
  intro b hb
  revert b
  decide

theorem good_parentDir : Good Sfn.parentDir := by
  refine ⟨by decide, ?_⟩
  intro b hb
  revert b
  decide

/-- A short file name made by `create_from_str` has 11 bytes and its first byte is not zero. -/
theorem sfn_facts {name : List Nat} {sfn : Bytes} (h : Sfn.createFromStr name = .ok sfn) :
    sfn.length = 11 ∧ byteAt sfn 0 ≠ 0 := by
  have hg : Good sfn := by
    unfold Sfn.createFromStr at h
    split at h
    · cases h; exact good_parentDir
    · split at h
      · cases h; exact good_thisDir
      · split at h
        · cases h
        · next st hst =>
          split at h
          · cases h
          · cases h
            have hg := loop_good _ _ _ good_init hst
            exact ⟨by rw [C18.kanjiStore_length]; exact hg.1, C18.kanjiStore_mem_ne_zero _ hg.2⟩
  refine ⟨hg.1, ?_⟩
  unfold byteAt
  cases sfn with
  | nil => have := hg.1; cases this
  | cons a l =>
    simp only [List.getD_cons_zero]
    have := hg.2 a List.mem_cons_self
    intro e
    apply this
    exact UInt8.toNat_inj.1 (by rw [e]; rfl)

/-- … and with `head? ≠ some 0xE5` its first byte is not 0xE5 either. -/
theorem sfn_first_ne_e5 {sfn : Bytes} (h : sfn.head? ≠ some 0xE5) : byteAt sfn 0 ≠ 0xE5 := by
  unfold byteAt
  cases sfn with
  | nil => simp
  | cons a l =>
    simp only [List.getD_cons_zero]
    intro e
    apply h
    simp only [List.head?_cons, Option.some.injEq]
    exact UInt8.toNat_inj.1 (by rw [e]; rfl)

end Sdmmc.Lemmas.VolSfn
