/-
C16 — "a count marked unknown stays unknown", through ALL calls.

The accounting theorems (`Props.C16Hist2.step_accounting`, `Props.C16Multi.step_accounting_multi`) say: every call keeps
the balance `Bal δ` — the in-memory free count, WHEN KNOWN, plus `δ` is the number of free FAT entries — with the SAME offset
`δ`, for every `δ` in the range `DeltaOK` where the `u32` count cannot saturate.  A record whose count is UNKNOWN is in
balance with EVERY offset.  So after the call it is in balance with offset `0` and with offset `-1` (both in range): were
its count known then, `n = free` and `n - 1 = free` — impossible.  Hence no call makes an unknown count known.  No look at
the code of the 24 calls is needed: this is a consequence of the accounting being exact for two different offsets.
-/
import Sdmmc.Props.C16Multi
import Sdmmc.Lemmas.MainK16

namespace Sdmmc.Lemmas.CountUnknown
open Sdmmc.Model Sdmmc.Model.Fat Sdmmc.Spec.Volume
open Sdmmc.Spec hiding run step NoFault Coherent
open Sdmmc.Props
open Sdmmc.Props.C03Inv (Covered CoveredRun)
open Sdmmc.Props.C04Hist (VolInvM)
open Sdmmc.Props.C16Hist2 (Bal DeltaOK CountOK)
open Sdmmc.Props.C16Multi (VolInvCN CountOKN DeltaOKN CoveredCN CoveredCNRun MountInBalance isMount)

/-- The offset `-1` is in range too: `endCluster + 1 ≤ u32::MAX`. -/
theorem deltaOK_neg_one (v : FatVolume) (hg : WFGeom v) : DeltaOK v (-1) := by
  have h := hg.count_bound
  refine ⟨by decide, ?_⟩
  have : endCluster v ≤ 0x0FFFFFF7 := by
    cases hft : v.fatType <;> rw [hft] at h <;> simp only at h <;> omega
  show (endCluster v : Int) - (-1) ≤ ((4294967295 : Nat) : Int)
  omega

/-- Two balances with offsets `0` and `-1` leave no room for a known count. -/
theorem none_of_two_balances {v : FatVolume} {d : Disk} (h0 : Bal 0 v d) (h1 : Bal (-1) v d) : v.freeClustersCount = none := by
  cases hc : v.freeClustersCount with
  | none => rfl
  | some n =>
    have a := h0 n hc
    have b := h1 n hc
    omega

/-! ### One open volume -/

/-- **One call, one open volume.**  Every covered call — all 24 constructors of `Op`, whatever it answers — leaves the
count of every open volume unknown if it was unknown in every open volume before. -/
theorem step_unknown {s : Mgr} {gh : Ghost} (hI : VolInvM s gh) (op : Op) (hc : Covered s op)
    (hu : ∀ vi, vi ∈ s.vols → vi.vol.freeClustersCount = none) :
    ∀ vi, vi ∈ (step s op).1.vols → vi.vol.freeClustersCount = none := by
  have hg := hI.1.med.geom
  have hcnt : ∀ δ : Int, CountOK δ s := fun δ vi hvi n hn => by rw [hu vi hvi] at hn; cases hn
  obtain ⟨_, h0, _⟩ := C16Hist2.step_accounting s gh 0 op ⟨hI, hcnt 0, C16Hist2.deltaOK_zero _ hg⟩ hc
  obtain ⟨_, h1, _⟩ := C16Hist2.step_accounting s gh (-1) op ⟨hI, hcnt (-1), deltaOK_neg_one _ hg⟩ hc
  exact fun vi hvi => none_of_two_balances (h0.count vi hvi) (h1.count vi hvi)

/-- **Every history, one open volume**: after every prefix. -/
theorem history_unknown (ops : List Op) {s : Mgr} {gh : Ghost} (hI : VolInvM s gh) (hc : CoveredRun s ops)
    (hu : ∀ vi, vi ∈ s.vols → vi.vol.freeClustersCount = none) (k : Nat) :
    ∀ vi, vi ∈ (run s (ops.take k)).1.vols → vi.vol.freeClustersCount = none := by
  have hg := hI.1.med.geom
  have hcnt : ∀ δ : Int, CountOK δ s := fun δ vi hvi n hn => by rw [hu vi hvi] at hn; cases hn
  have hck := Lemmas.MainK16.coveredRun_take ops s hc k
  obtain ⟨_, h0, _⟩ := C16Hist2.history_accounting (ops.take k) s gh 0 ⟨hI, hcnt 0, C16Hist2.deltaOK_zero _ hg⟩ hck
  obtain ⟨_, h1, _⟩ := C16Hist2.history_accounting (ops.take k) s gh (-1) ⟨hI, hcnt (-1), deltaOK_neg_one _ hg⟩ hck
  exact fun vi hvi => none_of_two_balances (h0.count vi hvi) (h1.count vi hvi)

/-! ### Several open volumes -/

/-- The offsets `δ` with the offset of handle `h` replaced by `x`. -/
def setAt (δ : Nat → Int) (h : Nat) (x : Int) : Nat → Int := fun j => if j = h then x else δ j

/-- The count of every open volume record with handle `h` is unknown. -/
def UnknownAt (h : Nat) (s : Mgr) : Prop := ∀ w, w ∈ s.vols → w.rawVolume = h → w.vol.freeClustersCount = none

theorem volInvCN_setAt {s : Mgr} {ghs : List Ghost} {δ : Nat → Int} (hI : VolInvCN s ghs δ) {h : Nat} (hu : UnknownAt h s)
    {x : Int} (hx : ∀ w, w ∈ s.vols → w.rawVolume = h → DeltaOK w.vol x) : VolInvCN s ghs (setAt δ h x) := by
  refine ⟨hI.inv, hI.mirror, fun w hw => ?_, fun w hw => ?_⟩
  · unfold setAt
    by_cases e : w.rawVolume = h
    · rw [if_pos e]; intro n hn; rw [hu w hw e] at hn; cases hn
    · rw [if_neg e]; exact hI.count w hw
  · unfold setAt
    by_cases e : w.rawVolume = h
    · rw [if_pos e]; exact hx w hw e
    · rw [if_neg e]; exact hI.delta w hw

theorem wf_of_mem {s : Mgr} {ghs : List Ghost} (hI : VolInvN s ghs) {w : VolInfo} (hw : w ∈ s.vols) : WFGeom w.vol :=
  (Lemmas.VolN.wf_of_mem hI hw).choose_spec.2

/-- **One call, several open volumes.**  `s` satisfies the accounting invariant `VolInvCN`; the volume with handle `h` is
open and its count is unknown.  Every covered call keeps it unknown.  (That volume `h` is open matters for `open_volume`
only: the handle a successful mount hands out is then not `h` — `CoveredN` — so that what the mount appends is a record of
another handle.) -/
theorem step_unknown_multi {s : Mgr} {ghs : List Ghost} {δ : Nat → Int} (hI : VolInvCN s ghs δ) (op : Op)
    (hc : CoveredCN δ s op) {h : Nat} (hopen : h ∈ s.vols.map (·.rawVolume)) (hu : UnknownAt h s) :
    UnknownAt h (step s op).1 := by
  have cov : ∀ x : Int, CoveredCN (setAt δ h x) s op := by
    intro x
    refine ⟨hc.1, ?_⟩
    cases op with
    | openVolume idx =>
      intro hd s' hr vi hvi
      have hne : hd ≠ h := fun e => (hc.1 hd s' hr vi hvi).1 (e ▸ hopen)
      have := hc.2 hd s' hr vi hvi
      unfold setAt
      rw [if_neg hne]
      exact this
    | _ => trivial
  obtain ⟨_, h0⟩ := C16Multi.step_accounting_multi s op ghs _
    (volInvCN_setAt hI hu (x := 0) fun w hw _ => C16Hist2.deltaOK_zero _ (wf_of_mem hI.inv hw)) (cov 0)
  obtain ⟨_, h1⟩ := C16Multi.step_accounting_multi s op ghs _
    (volInvCN_setAt hI hu (x := -1) fun w hw _ => deltaOK_neg_one _ (wf_of_mem hI.inv hw)) (cov (-1))
  intro w hw e
  have a := h0.count w hw
  have b := h1.count w hw
  unfold setAt at a b
  rw [if_pos e] at a b
  exact none_of_two_balances a b

/-- **Every history without `open_volume`, several open volumes**: after every prefix the count of volume `h` is
unknown (if volume `h` is closed on the way there is no record with that handle any more). -/
theorem history_unknown_multi (ops : List Op) {s : Mgr} {ghs : List Ghost} {δ : Nat → Int} (hI : VolInvCN s ghs δ)
    (hnm : (ops.all fun op => !isMount op) = true) {h : Nat} (hu : UnknownAt h s) (k : Nat) :
    UnknownAt h (run s (ops.take k)).1 := by
  have hnk : ((ops.take k).all fun op => !isMount op) = true := by
    rw [List.all_eq_true] at hnm ⊢
    exact fun x hx => hnm x (List.mem_of_mem_take hx)
  obtain ⟨_, h0⟩ := C16Multi.history_accounting_multi (ops.take k) s ghs _
    (volInvCN_setAt hI hu (x := 0) fun w hw _ => C16Hist2.deltaOK_zero _ (wf_of_mem hI.inv hw))
    (C16Multi.coveredCNRun_of_no_mount _ _ _ hnk)
  obtain ⟨_, h1⟩ := C16Multi.history_accounting_multi (ops.take k) s ghs _
    (volInvCN_setAt hI hu (x := -1) fun w hw _ => deltaOK_neg_one _ (wf_of_mem hI.inv hw))
    (C16Multi.coveredCNRun_of_no_mount _ _ _ hnk)
  intro w hw e
  have a := h0.count w hw
  have b := h1.count w hw
  unfold setAt at a b
  rw [if_pos e] at a b
  exact none_of_two_balances a b

end Sdmmc.Lemmas.CountUnknown
