/-
C11 — the cache after any call, part 3: every call of the API keeps the cache coherent under any fault schedule,
whatever its outcome (`runOp_mcoh`, `step_coherent`).
-/
import Sdmmc.Lemmas.FaultCohFat
import Sdmmc.Lemmas.FaultApi

namespace Sdmmc.Lemmas.FaultCoh
open Sdmmc.Model Sdmmc.Model.Fat Sdmmc.Lemmas.Fault Sdmmc.Lemmas.FaultPre

/-- `m` keeps the cache coherent, whatever it answers. -/
def MCohK {α} (m : M α) : Prop := ∀ s, MCoh s → MCoh (m s).2

theorem MCohK.of_same {α} {m : M α} (h : ∀ s, (m s).2.dev = s.dev ∧ (m s).2.cache = s.cache) : MCohK m := fun s hs => by
  obtain ⟨h1, h2⟩ := h s
  intro i hi
  rw [h2] at hi ⊢
  rw [h1]
  exact hs i hi
theorem MCohK.of_eq {α} {m : M α} (h : ∀ s, (m s).2 = s) : MCohK m := fun s hs => by rw [h s]; exact hs

theorem MCohK.pure {α} (a : α) : MCohK (pure a : M α) := .of_eq fun _ => rfl
theorem MCohK.lift {α} (r : Res α) : MCohK (M.lift r) := .of_eq fun _ => rfl
theorem MCohK.fail {α} (e : Err) : MCohK (M.fail e : M α) := .of_eq fun _ => rfl
theorem MCohK.panic {α} (msg : String) : MCohK (M.panic msg : M α) := .of_eq fun _ => rfl
theorem MCohK.get : MCohK M.get := .of_eq fun _ => rfl
theorem MCohK.generate : MCohK generate := .of_same fun _ => ⟨rfl, rfl⟩
theorem MCohK.setFile (i : Nat) (f : FileInfo) : MCohK (setFile i f) := .of_same fun _ => ⟨rfl, rfl⟩
theorem MCohK.modifyFile (i : Nat) (g : FileInfo → FileInfo) : MCohK (modifyFile i g) := .of_same fun _ => ⟨rfl, rfl⟩
theorem MCohK.modify {g : Mgr → Mgr} (h : ∀ s, (g s).dev = s.dev ∧ (g s).cache = s.cache) : MCohK (M.modify g) := .of_same h
theorem MCohK.getVolumeById (raw : Nat) : MCohK (getVolumeById raw) := .of_eq (getVolumeById_state raw)
theorem MCohK.getDirById (raw : Nat) : MCohK (getDirById raw) := .of_eq (getDirById_state raw)
theorem MCohK.getFileById (raw : Nat) : MCohK (getFileById raw) := .of_eq (getFileById_state raw)
theorem MCohK.getDir (i : Nat) : MCohK (getDir i) := .of_eq (getDir_state i)
theorem MCohK.getFile (i : Nat) : MCohK (getFile i) := .of_eq (getFile_state i)
theorem MCohK.getVolInfo (i : Nat) : MCohK (getVolInfo i) := .of_eq (getVolInfo_state i)
theorem MCohK.toSfn (n : List Nat) : MCohK (toSfn n) := .of_eq (toSfn_state n)

theorem MCohK.withVol {α} {f : F α} (i : Nat) (hf : CohT Coh f Coh) : MCohK (withVol i f) := by
  intro s hs
  rcases withVol_cases i f s with ⟨_, he⟩ | ⟨vi, _, he⟩
  · rw [he]; exact hs
  · rw [he]
    exact hf.all { dev := s.dev, cache := s.cache, vol := vi.vol } hs

theorem MCohK.rdBlock (idx : Nat) : MCohK (rdBlock idx) := fun s hs =>
  (readBlock_coh idx).all { dev := s.dev, cache := s.cache, vol := default } hs

theorem MCohK.bind {α β} {m : M α} {f : α → M β} (hm : MCohK m) (hf : ∀ a, MCohK (f a)) : MCohK (m >>= f) := by
  intro s hs
  have h1 := hm s hs
  rcases hr : m s with ⟨r, s'⟩
  rw [hr] at h1
  cases r with
  | ok a => rw [M.bind_ok hr]; exact hf a s' h1
  | err e => rw [M.bind_err hr]; exact h1
  | panic msg => rw [M.bind_panic hr]; exact h1
  | diverged => rw [M.bind_diverged hr]; exact h1

theorem MCohK.attempt {α} {m : M α} (hm : MCohK m) : MCohK (M.attempt m) := fun s hs => hm s hs

macro "mcoh_step" : tactic => `(tactic| first
  | with_reducible first
    | apply_hyp
    | exact MCohK.pure _
    | exact MCohK.lift _
    | exact MCohK.fail _
    | exact MCohK.panic _
    | exact MCohK.get
    | exact MCohK.generate
    | exact MCohK.setFile _ _
    | exact MCohK.modifyFile _ _
    | exact MCohK.getFileById _
    | exact MCohK.getDirById _
    | exact MCohK.getVolumeById _
    | exact MCohK.getFile _
    | exact MCohK.getDir _
    | exact MCohK.getVolInfo _
    | exact MCohK.toSfn _
    | exact MCohK.rdBlock _
    | refine MCohK.modify ?_
    | apply MCohK.withVol
    | apply MCohK.attempt
    | apply MCohK.bind
  | exact fun _ => ⟨rfl, rfl⟩
  | exact MCohK.rdBlock _
  | apply MCohK.bind
  | coh_step)

macro "mcoh_auto" : tactic => `(tactic| repeat mcoh_step)

theorem openRawVolume_mcoh (i : Nat) : MCohK (openRawVolume i) := by
  unfold openRawVolume; mcoh_auto

theorem closeVolume_mcoh (v : Nat) : MCohK (closeVolume v) := by
  have := @updateInfoSector_coh
  unfold closeVolume; mcoh_auto
theorem openRootDir_mcoh (v : Nat) : MCohK (openRootDir v) := by unfold openRootDir; mcoh_auto
theorem openDir_mcoh (d : Nat) (name : List Nat) : MCohK (openDir d name) := by
  have := @findDirectoryEntry_coh
  unfold openDir; mcoh_auto
theorem closeDir_mcoh (d : Nat) : MCohK (closeDir d) := by unfold closeDir; mcoh_auto
theorem openFileInDir_mcoh (d : Nat) (name : List Nat) (mode : Mode) : MCohK (openFileInDir d name mode) := by
  have := @findDirectoryEntry_coh
  have := @writeNewDirectoryEntry_coh
  have := @truncateClusterChain_coh
  have := @writeEntryToDisk_coh
  unfold openFileInDir; mcoh_auto
theorem readLoop_mcoh (fi vi so fuel space : Nat) (acc : Bytes) : MCohK (readLoop fi vi so fuel space acc) := by
  have := @findDataOnDisk_coh
  have := @readBlock_coh
  induction fuel generalizing space acc with
  | zero => unfold readLoop; mcoh_auto
  | succ n ih => unfold readLoop; mcoh_auto
theorem read_mcoh (f n : Nat) : MCohK (Model.read f n) := by
  have := @readLoop_mcoh
  unfold Model.read; mcoh_auto
theorem writeLoop_mcoh (fi vi fuel : Nat) (buf : Bytes) : MCohK (writeLoop fi vi fuel buf) := by
  have := @findDataOnDisk_coh
  have := @allocCluster_coh
  have := @writeBlockPart_coh
  induction fuel generalizing buf with
  | zero => unfold writeLoop; mcoh_auto
  | succ n ih => unfold writeLoop; mcoh_auto
theorem write_mcoh (f : Nat) (buf : Bytes) : MCohK (Model.write f buf) := by
  have := @writeLoop_mcoh
  have := @allocCluster_coh
  unfold Model.write; mcoh_auto
theorem fileSeekFromStart_mcoh (f n : Nat) : MCohK (fileSeekFromStart f n) := by unfold fileSeekFromStart; mcoh_auto
theorem fileSeekFromCurrent_mcoh (f : Nat) (n : Int) : MCohK (fileSeekFromCurrent f n) := by unfold fileSeekFromCurrent; mcoh_auto
theorem fileSeekFromEnd_mcoh (f n : Nat) : MCohK (fileSeekFromEnd f n) := by unfold fileSeekFromEnd; mcoh_auto
theorem flushFile_mcoh (f : Nat) : MCohK (flushFile f) := by
  have := @updateInfoSector_coh
  have := @writeEntryToDisk_coh
  unfold flushFile; mcoh_auto
theorem closeFile_mcoh (f : Nat) : MCohK (closeFile f) := by
  have := @flushFile_mcoh
  unfold closeFile; mcoh_auto
theorem deleteFileInDir_mcoh (d : Nat) (name : List Nat) : MCohK (deleteFileInDir d name) := by
  have := @findDirectoryEntry_coh
  have := @deleteDirectoryEntry_coh
  have := @freeClusterChain_coh
  unfold deleteFileInDir; mcoh_auto
theorem makeDirInDir_mcoh (d : Nat) (name : List Nat) : MCohK (makeDirInDir d name) := by
  have := @findDirectoryEntry_coh
  have := @makeDir_coh
  unfold makeDirInDir; mcoh_auto
theorem findDirectoryEntry_mcoh (d : Nat) (name : List Nat) : MCohK (Model.findDirectoryEntry d name) := by
  have := @findDirectoryEntry_coh
  unfold Model.findDirectoryEntry; mcoh_auto
theorem iterateDir_mcoh (d : Nat) : MCohK (iterateDir d) := by
  have := @iterateRaw_coh
  unfold iterateDir; mcoh_auto
theorem iterateDirLfn_mcoh (d n : Nat) : MCohK (iterateDirLfn d n) := by
  have := @iterateRaw_coh
  unfold iterateDirLfn; mcoh_auto
theorem fileLength_mcoh (f : Nat) : MCohK (fileLength f) := by unfold fileLength; mcoh_auto
theorem fileOffset_mcoh (f : Nat) : MCohK (fileOffset f) := by unfold fileOffset; mcoh_auto
theorem fileEof_mcoh (f : Nat) : MCohK (fileEof f) := by unfold fileEof; mcoh_auto
theorem getRootVolumeLabel_mcoh (v : Nat) : MCohK (getRootVolumeLabel v) := by
  have := @openRootDir_mcoh
  have := @iterateDir_mcoh
  have := @closeDir_mcoh
  unfold getRootVolumeLabel; mcoh_auto

theorem MCohK.map {α β} {m : M α} (g : α → β) (h : MCohK m) : MCohK (m >>= fun a => (Pure.pure (g a) : M β)) :=
  MCohK.bind h fun _ => MCohK.pure _

/-- **Every call.** -/
theorem runOp_mcoh (op : Op) : MCohK (runOp op) := by
  cases op
  case openVolume i => exact .map _ (openRawVolume_mcoh i)
  case closeVolume v => exact .map _ (closeVolume_mcoh v)
  case openRoot v => exact .map _ (openRootDir_mcoh v)
  case openDir d n => exact .map _ (openDir_mcoh d n)
  case closeDir d => exact .map _ (closeDir_mcoh d)
  case openFile d n m => exact .map _ (openFileInDir_mcoh d n m)
  case read f n => exact .map _ (read_mcoh f n)
  case write f b => exact .map _ (write_mcoh f b)
  case seekStart f n => exact .map _ (fileSeekFromStart_mcoh f n)
  case seekCur f n => exact .map _ (fileSeekFromCurrent_mcoh f n)
  case seekEnd f n => exact .map _ (fileSeekFromEnd_mcoh f n)
  case flush f => exact .map _ (flushFile_mcoh f)
  case closeFile f => exact .map _ (closeFile_mcoh f)
  case delete d n => exact .map _ (deleteFileInDir_mcoh d n)
  case mkdir d n => exact .map _ (makeDirInDir_mcoh d n)
  case find d n => exact .map _ (findDirectoryEntry_mcoh d n)
  case list d => exact .map _ (iterateDir_mcoh d)
  case listLfn d n => exact .map _ (iterateDirLfn_mcoh d n)
  case length f => exact .map _ (fileLength_mcoh f)
  case offset f => exact .map _ (fileOffset_mcoh f)
  case eof f => exact .map _ (fileEof_mcoh f)
  case hasOpen => exact .of_eq fun _ => rfl
  case label v => exact .map _ (getRootVolumeLabel_mcoh v)


/-- **After any call under any fault schedule the cache is coherent** (untagged, or holding what the medium holds),
if it was before — whatever the call answered. -/
theorem step_coherent (s : Mgr) (op : Op) (hc : MCoh s) : MCoh (step s op).1 := by
  unfold step
  by_cases hl : s.locked = true
  · rw [if_pos hl]; split <;> exact hc
  · rw [if_neg hl]
    exact runOp_mcoh op { s with dev := { s.dev with wlog := [], rlog := [] } } hc

end Sdmmc.Lemmas.FaultCoh
