/-
Volume invariant (C03), `make_dir_in_dir`, part 1: preparations.

* what `ShortFileName::create_from_str` returns has 11 bytes and a non-zero first byte
  (`sfn_length`, `sfn_first_nz`);
* the blocks of a cluster that lies in no chain hold no slot of any directory (`dirSlot_block`,
  `dirSlot_not_cluster`), hence writing them keeps `MedX` (`medX_cluster_write`);
* the slot list of a fresh directory cluster: dot entries, then zeros (`newDir_slots`).
-/
import Sdmmc.Lemmas.VolEng6
import Sdmmc.Lemmas.DirMake

namespace Sdmmc.Lemmas.VolEng
open Sdmmc.Model Sdmmc.Model.Fat Sdmmc.Spec.Volume Sdmmc.Lemmas.VolBase Sdmmc.Lemmas.VolTree
open Sdmmc.Spec hiding NoFault Coherent
open Sdmmc.Lemmas.VolDisk Sdmmc.Lemmas.VolMed Sdmmc.Lemmas.VolWalk
open Sdmmc.Lemmas.FBasic
open Sdmmc.Lemmas.FatOps hiding BlocksOK Mirror HintOK

/-! ### Short names -/

/-- The loop invariant of `create_from_str`: 11 bytes; once a character was stored, byte 0 is non-zero. -/
def SfnInv (st : Sfn.PState) : Prop := st.contents.length = 11 ∧ (st.idx ≠ 0 → byteAt st.contents 0 ≠ 0)

theorem upper_byte_nz {ch : Nat} (hv : Sfn.invalidChar ch = false) (hle : ¬ ch > 0xFF) :
    (UInt8.ofNat (Sfn.upper ch)).toNat ≠ 0 := by
  have h1 : ¬ ch ≤ 0x1F := by
    intro h
    unfold Sfn.invalidChar at hv
    simp [h] at hv
  have hu : 0x20 ≤ Sfn.upper ch ∧ Sfn.upper ch ≤ 0xFF := by
    unfold Sfn.upper
    split <;> omega
  rw [UInt8.toNat_ofNat']
  omega

theorem sfn_step_inv {st st' : Sfn.PState} {ch : Nat} (h : Sfn.step st ch = .ok st') (hi : SfnInv st) : SfnInv st' := by
  obtain ⟨hl, h0⟩ := hi
  unfold Sfn.step at h
  have hset : ∀ (b : UInt8), b.toNat ≠ 0 →
      SfnInv { st with contents := st.contents.set st.idx b, idx := st.idx + 1 } := by
    intro b hb
    refine ⟨by show (st.contents.set st.idx b).length = 11; rw [List.length_set]; exact hl, fun _ => ?_⟩
    show byteAt (st.contents.set st.idx b) 0 ≠ 0
    rw [DirSlots.byteAt_set]
    split
    · exact hb
    · rename_i hne
      apply h0
      intro e
      apply hne
      rw [e, hl]
      exact ⟨rfl, by decide⟩
  cases hv : Sfn.invalidChar ch with
  | true => rw [hv] at h; simp at h
  | false =>
    rw [hv] at h
    simp only [Bool.false_eq_true, if_false] at h
    by_cases hgt : ch > 0xFF
    · rw [if_pos hgt] at h; cases h
    · rw [if_neg hgt] at h
      have hb := upper_byte_nz hv hgt
      by_cases hdot : ch = 0x2E
      · rw [if_pos hdot] at h
        split at h
        · rename_i hc
          cases h
          refine ⟨hl, fun _ => h0 (by omega)⟩
        · cases h
      · rw [if_neg hdot] at h
        split at h
        · split at h
          · cases h; exact hset _ hb
          · cases h
        · split at h
          · cases h; exact hset _ hb
          · cases h

theorem sfn_loop_inv (cs : List Nat) : ∀ {st st' : Sfn.PState}, Sfn.loop st cs = .ok st' → SfnInv st → SfnInv st' := by
  induction cs with
  | nil =>
    intro st st' h hi
    rw [C18.loop_nil] at h
    cases h; exact hi
  | cons c cs ih =>
    intro st st' h hi
    rw [C18.loop_cons] at h
    cases hs : Sfn.step st c with
    | error e => rw [hs] at h; cases h
    | ok st1 =>
      rw [hs] at h
      exact ih h (sfn_step_inv hs hi)

/-- A short name has 11 bytes and does not start with a zero byte. -/
theorem sfn_facts {name : List Nat} {sfn : Bytes} (h : Sfn.createFromStr name = .ok sfn) :
    sfn.length = 11 ∧ byteAt sfn 0 ≠ 0 := by
  unfold Sfn.createFromStr at h
  split at h
  · cases h; exact ⟨by decide, by decide⟩
  · split at h
    · cases h; exact ⟨by decide, by decide⟩
    · split at h
      · cases h
      · rename_i st hst
        split at h
        · cases h
        · rename_i hidx
          cases h
          have hinit : SfnInv { contents := List.replicate Sfn.TOTAL_LEN (UInt8.ofNat 32), idx := 0, seenDot := false } :=
            ⟨by decide, fun h => absurd rfl h⟩
          obtain ⟨h1, h2⟩ := sfn_loop_inv name hst hinit
          exact ⟨by rw [C18.kanjiStore_length]; exact h1, C18.byteAt_kanjiStore_ne_zero _ (h2 hidx)⟩

theorem sfn_length {name : List Nat} {sfn : Bytes} (h : Sfn.createFromStr name = .ok sfn) : sfn.length = 11 :=
  (sfn_facts h).1

theorem sfn_first_nz {name : List Nat} {sfn : Bytes} (h : Sfn.createFromStr name = .ok sfn) : byteAt sfn 0 ≠ 0 :=
  (sfn_facts h).2

/-! ### Blocks of a cluster outside all chains -/

section
variable {v : FatVolume} {d : Disk} {files : List FileInfo} {gh : Ghost} {X : List (List Nat)}

/-- Where a directory slot lives: in the FAT16 root region, or in a block of a cluster of a chain of `G`. -/
theorem dirSlot_block (hM : MedX v d files gh X) {h : Nat} (hh : h ∈ dirIds gh.dirs) {d' : Disk} {s : Slot}
    (hs : s ∈ dirSlots v d' gh.G h) :
    regionOf v s.1 = .root ∨ ∃ cs c', cs ∈ gh.G ∧ c' ∈ cs ∧ InRange v c' ∧ clusterToBlock v c' ≤ s.1 ∧
      s.1 < clusterToBlock v c' + v.blocksPerCluster := by
  by_cases hf : isFixedRoot v h
  · rw [dirSlots_fixed hf] at hs
    exact .inl (fixedRootSlots_region hM.geom hf.2 hs)
  · rw [dirSlots_chain hf] at hs
    obtain ⟨hm, _⟩ := dirChain_spec hM hh hf
    obtain ⟨c', hc', hle, hlt⟩ := chainSlots_block hs
    exact .inr ⟨_, c', hm, hc', med_inRange hM hm hc', hle, hlt⟩

/-- A block of a cluster outside all chains of `G` holds no directory slot. -/
theorem dirSlot_not_cluster (hM : MedX v d files gh X) {h : Nat} (hh : h ∈ dirIds gh.dirs) {d' : Disk} {s : Slot}
    (hs : s ∈ dirSlots v d' gh.G h) {c : Nat} (hc : InRange v c) (hcG : c ∉ gh.G.flatten) {j : Nat}
    (hj : j < v.blocksPerCluster) : s.1 ≠ clusterToBlock v c + j := by
  intro e
  have hreg := FatLens.cluster_blocks_in_data_region v hM.geom c j hc.1 hc.2 hj
  rcases dirSlot_block hM hh hs with hr | ⟨cs, c', hcs, hc', hr', hle, hlt⟩
  · rw [e, hreg] at hr; cases hr
  · have := FatLens.cluster_blocks_disjoint_of_lt v hM.geom c' c (s.1 - clusterToBlock v c') j hr'.1 hc.1 hr'.2 hc.2
      (by omega) hj (by omega)
    exact hcG (this.1 ▸ List.mem_flatten_of_mem hcs hc')

/-- A medium that differs only in blocks of clusters outside the chains (and outside the FAT16 root
region) has the same directory blocks. -/
theorem dir_blocks_keep (hM : MedX v d files gh X) {c : Nat} (hcG : c ∉ gh.G.flatten) {d' : Disk}
    (hk1 : ∀ c' j, 2 ≤ c' → c' < endCluster v → c' ≠ c → j < v.blocksPerCluster →
      d'.get (clusterToBlock v c' + j) = d.get (clusterToBlock v c' + j))
    (hk2 : ∀ i, regionOf v i = .root → d'.get i = d.get i) :
    ∀ h, h ∈ dirIds gh.dirs → ∀ s, s ∈ dirSlots v d gh.G h → d'.get s.1 = d.get s.1 := by
  intro h hh s hs
  rcases dirSlot_block hM hh hs with hr | ⟨cs, c', hcs, hc', hr', hle, hlt⟩
  · exact hk2 _ hr
  · have hne : c' ≠ c := fun e => hcG (e ▸ List.mem_flatten_of_mem hcs hc')
    have := hk1 c' (s.1 - clusterToBlock v c') hr'.1 hr'.2 hne (by omega)
    rwa [show clusterToBlock v c' + (s.1 - clusterToBlock v c') = s.1 by omega] at this

/-- Writing the blocks of a cluster that lies in no chain of `G` keeps the invariant and every
directory's slot list. -/
theorem medX_cluster_write (hM : MedX v d files gh X) {c : Nat} (hc : InRange v c) (hcG : c ∉ gh.G.flatten) {d' : Disk}
    (hb : BlocksOK d')
    (hsame : ∀ i, (∀ j, j < v.blocksPerCluster → i ≠ clusterToBlock v c + j) → d'.get i = d.get i) :
    MedX v d' files gh X ∧ ∀ h, h ∈ dirIds gh.dirs → dirSlots v d' gh.G h = dirSlots v d gh.G h := by
  have hslots : ∀ h, h ∈ dirIds gh.dirs → dirSlots v d' gh.G h = dirSlots v d gh.G h := by
    intro h hh
    apply dirSlots_congr
    intro s hs
    exact hsame _ fun j hj => dirSlot_not_cluster hM hh hs hc hcG hj
  refine ⟨med_congr hM (SameGeom.refl v) hM.hint hb ?_ hslots, hslots⟩
  intro c' hc'
  apply hsame
  intro j hj e
  have h1 := (FatLens.fat_blocks_in_fat_region v hM.geom c' hc').1
  rw [e, FatLens.cluster_blocks_in_data_region v hM.geom c j hc.1 hc.2 hj] at h1
  cases h1

end

/-! ### The slot list of a fresh directory cluster -/

theorem range16 : List.range 16 = [0, 1, 2, 3, 4, 5, 6, 7, 8, 9, 10, 11, 12, 13, 14, 15] := by decide

/-- The cluster number fits the cluster field(s) of a directory entry. -/
def ClusterFits (ft : FatType) (c : Nat) : Prop :=
  match ft with
  | .fat16 => c < 65536
  | .fat32 => c < 4294967296

/-- A dot entry serialised into a slot. -/
theorem isDot_serialize (ft : FatType) (e : DirEntry) (b off : Nat) (hn : e.name.length = 11) (ha : e.attributes = 16)
    {cl : Nat} (hcl : e.cluster = cl) (hc : ClusterFits ft cl) :
    IsDot ft e.name cl (b, off, DirEntry.serialize ft e) := by
  subst hcl
  have hattr := serialize_sAttr ft e b off hn (by rw [ha]; decide)
  refine ⟨serialize_sName ft e b off hn, ?_, ?_, serialize_sCluster ft e b off hn hc⟩
  · unfold isDirE; rw [hattr, ha]; decide
  · unfold isFrag; rw [hattr, ha]; decide

/-- The slots of a cluster whose first block is the block `make_dir` builds and whose other blocks are
blank: the two dot entries and nothing else. -/
theorem newDir_slots {ft : FatType} {d : Disk} {sb n c dc p : Nat} {now : Timestamp} (hn : 0 < n)
    (h0 : d.get sb = DirMake.dirBlock ft c dc 16 now sb) (hz : ∀ i, i < n - 1 → d.get (sb + 1 + i) = zeroBlock)
    (hc : ClusterFits ft c) (hpe : dirIdOf dc = p) (hp : ClusterFits ft p) (hc0 : c ≠ 0) :
    CleanTail (runSlots d sb n) ∧ ((entries (runSlots d sb n)).map sName).Nodup ∧
    DotsOK ft c p (runSlots d sb n) ∧ objects c (runSlots d sb n) = [] := by
  obtain ⟨hlen, hs0, hs1, hrest⟩ := DirMake.dirBlock_facts ft c dc 16 now sb
  generalize hB : DirMake.dirBlock ft c dc 16 now sb = B at h0 hlen hs0 hs1 hrest
  set s0 : Slot := (sb, 32 * 0, (B.drop (32 * 0)).take 32) with hs0d
  set s1 : Slot := (sb, 32 * 1, (B.drop (32 * 1)).take 32) with hs1d
  -- the shape of the list
  obtain ⟨rest, hshape, hzero⟩ : ∃ rest, runSlots d sb n = s0 :: s1 :: rest ∧ ∀ t, t ∈ rest → first t = 0 := by
    obtain ⟨m, rfl⟩ : ∃ m, n = 1 + m := ⟨n - 1, by omega⟩
    rw [runSlots_append, runSlots_one, h0]
    refine ⟨((List.range 14).map fun i => ((sb, 32 * (i + 2), (B.drop (32 * (i + 2))).take 32) : Slot)) ++
      runSlots d (sb + 1) m, ?_, ?_⟩
    · unfold blockSlots
      rw [range16]
      rfl
    · intro t ht
      rcases List.mem_append.1 ht with ht | ht
      · obtain ⟨i, hi, rfl⟩ := List.mem_map.1 ht
        rw [List.mem_range] at hi
        show byteAt ((B.drop (32 * (i + 2))).take 32) 0 = 0
        unfold byteAt
        rw [(Listing.slot_bytes B hlen (i + 2) (by omega)).2 0 (by omega), hrest _ (by omega)]
        rfl
      · exact runSlots_zero (fun j hj => hz j (by omega)) t ht
  -- the two dot slots
  have e0 : s0 = (sb, 0, DirEntry.serialize ft (DirMake.dotEntry c 16 now sb)) := by
    rw [hs0d, ← hs0]; rfl
  have e1 : s1 = (sb, 32, DirEntry.serialize ft (DirMake.dotdotEntry dc 16 now sb)) := by
    rw [hs1d, ← hs1]; rfl
  have hd0 : IsDot ft Sfn.thisDir c s0 := by
    rw [e0]
    exact isDot_serialize ft (DirMake.dotEntry c 16 now sb) sb 0 rfl rfl rfl hc
  have hd1 : IsDot ft Sfn.parentDir p s1 := by
    rw [e1]
    have hcl : (DirMake.dotdotEntry dc 16 now sb).cluster = p := by
      rw [← hpe]; unfold dirIdOf DirMake.dotdotEntry; rfl
    exact isDot_serialize ft (DirMake.dotdotEntry dc 16 now sb) sb 32 rfl rfl hcl hp
  have hk0 := isDot_keep hd0 thisDir_first
  have hk1 := isDot_keep hd1 parentDir_first
  have hent : entries (s0 :: s1 :: rest) = [s0, s1] := by
    have a := entries_split [] (s1 :: rest) s0 (fun _ h => by cases h)
    rw [List.nil_append] at a
    rw [a, if_neg hk0.1, if_pos hk0.2]
    have b := entries_split [] rest s1 (fun _ h => by cases h)
    rw [List.nil_append] at b
    rw [b, if_neg hk1.1, if_pos hk1.2, entries_zeros rest hzero]
    rfl
  rw [hshape]
  refine ⟨?_, ?_, ⟨s0, s1, rest, rfl, hd0, hd1⟩, ?_⟩
  · rw [cleanTail_cons_nz _ _ hk0.1, cleanTail_cons_nz _ _ hk1.1]
    exact cleanTail_zeros rest hzero
  · rw [hent]
    show [sName s0, sName s1].Nodup
    rw [hd0.1, hd1.1]
    decide
  · unfold objects
    rw [if_neg hc0, hent]
    rfl

end Sdmmc.Lemmas.VolEng
