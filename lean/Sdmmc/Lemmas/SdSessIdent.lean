/-
Lemmas for C14 over sessions, part 2: the recorded card type follows the `identified`/`reset`
marks of the session; data commands only go to an identified card; every `identified` mark
closes a complete identification run in the prescribed order.
-/
import Sdmmc.Lemmas.SdSessBase

namespace Sdmmc.Lemmas.Sd
open Sdmmc.Model Sdmmc.Model.Sd Sdmmc.Gen Sdmmc.Spec.SdSession

variable {σ : Type} (B : BusOps σ)

/-! ### Generic list facts -/

theorem split_app {α : Type} {a b pre post : List α} {x : α} (h : a ++ b = pre ++ x :: post) :
    (∃ a', pre = a ++ a' ∧ b = a' ++ x :: post) ∨ (∃ b', post = b' ++ b ∧ a = pre ++ x :: b') := by
  rcases List.append_eq_append_iff.mp h with ⟨a', h1, h2⟩ | ⟨c', h1, h2⟩
  · exact Or.inl ⟨a', h1, h2⟩
  · cases c' with
    | nil => exact Or.inl ⟨[], by simpa using h1.symm, by simpa using h2.symm⟩
    | cons y c'' =>
      simp only [List.cons_append, List.cons.injEq] at h2
      exact Or.inr ⟨c'', h2.2, by rw [h1, h2.1]⟩

theorem split_unique {α : Type} {A Bs pre post : List α} {x : α} (hA : x ∉ A) (hB : x ∉ Bs)
    (h : A ++ x :: Bs = pre ++ x :: post) : pre = A ∧ post = Bs := by
  induction A generalizing pre with
  | nil =>
    cases pre with
    | nil => simp at h; exact ⟨rfl, h.symm⟩
    | cons p pre' =>
      simp only [List.nil_append, List.cons_append, List.cons.injEq] at h
      exact absurd (by rw [h.2]; simp) hB
  | cons a A' ih =>
    cases pre with
    | nil =>
      simp only [List.nil_append, List.cons_append, List.cons.injEq] at h
      exact absurd (by rw [h.1]; simp) hA
    | cons p pre' =>
      simp only [List.cons_append, List.cons.injEq] at h
      have := ih (fun hx => hA (List.mem_cons_of_mem _ hx)) h.2
      exact ⟨by rw [h.1, this.1], this.2⟩

/-! ### Reading the marks -/

/-- A data command (anything but an identification command) may only appear when identified. -/
def markOK (b : Bool) : Mark → Prop
  | .ev (.cmd f) => cmdIdx f ∉ identCmds → b = true
  | _ => True

/-- Reading the marked log from state `b` (identified or not): every data command is sent while
identified. -/
def dataOK : Bool → List Mark → Prop
  | _, [] => True
  | b, m :: l => markOK b m ∧ dataOK (identStep b m) l

theorem foldl_identStep_map_ev (b : Bool) (l : List Event) : (l.map Mark.ev).foldl identStep b = b := by
  induction l with
  | nil => rfl
  | cons e l ih => simpa [identStep] using ih

theorem dataOK_append (b : Bool) (A C : List Mark) :
    dataOK b (A ++ C) ↔ dataOK b A ∧ dataOK (A.foldl identStep b) C := by
  induction A generalizing b with
  | nil => simp [dataOK]
  | cons m A ih => simp [dataOK, ih, and_assoc]

theorem dataOK_map_ev_true (l : List Event) : dataOK true (l.map Mark.ev) := by
  induction l with
  | nil => trivial
  | cons e l ih =>
    refine ⟨?_, ih⟩
    cases e <;> simp [markOK]

theorem dataOK_map_ev_identOnly (b : Bool) {l : List Event} (h : IdentOnly l) : dataOK b (l.map Mark.ev) := by
  induction l with
  | nil => trivial
  | cons e l ih =>
    refine ⟨?_, ih fun f hf => h f (List.mem_cons_of_mem _ hf)⟩
    cases e with
    | cmd f => exact fun hn => absurd (h f (by simp)) hn
    | _ => trivial

theorem dataOK_spec {b : Bool} {L : List Mark} (h : dataOK b L) (pre : List Mark) (f : Bytes) (post : List Mark)
    (hL : L = pre ++ Mark.ev (.cmd f) :: post) (hn : cmdIdx f ∉ identCmds) : pre.foldl identStep b = true := by
  subst hL
  exact ((dataOK_append b pre _).mp h).2.1 hn

theorem sessionMarks_cons (c : Call) (cs : List Call) (s : St σ) :
    sessionMarks B (c :: cs) s = callMarks B c s ++ sessionMarks B cs (call B c s).2 := by
  simp [sessionMarks, sessionBlocks]

/-! ### One call -/

theorem acquire_identOnly_at (s s1 : St σ) (r : SRes Unit) (h : acquire B s = (r, s1)) : IdentOnly (evsNew s s1) := by
  have := (acquire_identOnly B s).evsNew
  rw [h] at this; exact this

/-- One call keeps "card type recorded = identified according to the marks" and sends data
commands only while identified. -/
theorem callMarks_step (c : Call) (s : St σ) :
    dataOK s.cardType.isSome (callMarks B c s) ∧
      (callMarks B c s).foldl identStep s.cardType.isSome = (call B c s).2.cardType.isSome := by
  rcases callMarks_cases B c s with ⟨rfl, hm, hct⟩ | ⟨_, hs, _, hm, hct⟩ | ⟨_, hs, s1, hacq, _, hm, hct⟩ |
    ⟨_, hs, e, s1, hacq, hm, hct⟩
  · rw [hm, hct]; simp [dataOK, markOK, identStep]
  · rw [hm, hct, hs]
    refine ⟨⟨trivial, dataOK_map_ev_true _⟩, ?_⟩
    simp [identStep, foldl_identStep_map_ev]
  · have hio := acquire_identOnly_at B s s1 _ hacq
    rw [hm, hct, hs]
    refine ⟨⟨trivial, ?_⟩, ?_⟩
    · rw [dataOK_append]
      refine ⟨dataOK_map_ev_identOnly _ hio, trivial, ?_⟩
      simp only [identStep]
      exact dataOK_map_ev_true _
    · simp [identStep, foldl_identStep_map_ev]
  · have hio := acquire_identOnly_at B s s1 _ hacq
    rw [hm, hct, hs]
    refine ⟨⟨trivial, ?_⟩, ?_⟩
    · rw [dataOK_append]
      exact ⟨dataOK_map_ev_identOnly _ hio, trivial, trivial⟩
    · simp [identStep, foldl_identStep_map_ev]

/-! ### The session -/

theorem session_step (cs : List Call) (s : St σ) :
    dataOK s.cardType.isSome (sessionMarks B cs s) ∧
      (sessionMarks B cs s).foldl identStep s.cardType.isSome = (runCalls B cs s).cardType.isSome := by
  induction cs generalizing s with
  | nil => exact ⟨trivial, rfl⟩
  | cons c cs ih =>
    obtain ⟨h1, h2⟩ := callMarks_step B c s
    obtain ⟨g1, g2⟩ := ih (call B c s).2
    rw [sessionMarks_cons, dataOK_append, List.foldl_append, h2]
    exact ⟨⟨h1, g1⟩, g2⟩

theorem initialMarks_foldl (s : St σ) : (initialMarks s).foldl identStep false = s.cardType.isSome := by
  unfold initialMarks
  cases h : s.cardType.isSome <;> simp [identStep]

/-- Same body as `Sdmmc.Props.C14Session.DataAfterIdent`. -/
def DataAfterIdent (L : List Mark) : Prop :=
  ∀ pre f post, L = pre ++ Mark.ev (.cmd f) :: post → cmdIdx f ∉ identCmds → identifiedAfter pre = true

/-- The recorded card type is exactly what the marks say. -/
theorem session_cardType (cs : List Call) (s : St σ) :
    identifiedAfter (initialMarks s ++ sessionMarks B cs s) = (runCalls B cs s).cardType.isSome := by
  unfold identifiedAfter
  rw [List.foldl_append, initialMarks_foldl]
  exact (session_step B cs s).2

/-- Every data command of the session is sent while identified. -/
theorem session_dataAfterIdent (cs : List Call) (s : St σ) :
    DataAfterIdent (initialMarks s ++ sessionMarks B cs s) := by
  have h : dataOK false (initialMarks s ++ sessionMarks B cs s) := by
    rw [dataOK_append, initialMarks_foldl]
    refine ⟨?_, (session_step B cs s).1⟩
    unfold initialMarks
    split <;> simp [dataOK, markOK]
  exact fun pre f post hL hn => dataOK_spec h pre f post hL hn

/-! ### Every `identified` mark closes a complete identification run -/

/-- What a successful `acquire` put on the bus: the identification sequence, in order, and the
one trailing byte that is clocked after it. -/
theorem acquire_ok_shape (s s1 : St σ) (h : acquire B s = (.ok (), s1)) :
    ∃ body g, evsNew s s1 = body ++ [Event.poll g] ∧ g < 256 ∧ IdentOnly body ∧
      IdentOrder s.useCrc (cmdIdxs body) := by
  have hio := acquire_identOnly_at B s s1 _ h
  obtain ⟨eb, b1, _, _, b4⟩ := acquireBody_order B s
  obtain ⟨er, r1, _, _, r4⟩ := readByte_tr B (acquireBody B s).2
  rw [acquire_eq] at h
  simp only [bind_apply, attempt_apply] at h
  rcases hab : acquireBody B s with ⟨rb, sb⟩
  rw [hab] at h b1 b4 r1 r4
  rcases hrb : readByte B sb with ⟨rt, st⟩
  rw [hrb] at h r1 r4
  simp only at h b1 b4 r1 r4
  cases rb with
  | ok u =>
    cases rt with
    | ok g =>
      simp only [pure_apply, Prod.mk.injEq] at h
      obtain ⟨_, rfl⟩ := h
      rcases r4 with ⟨g', hg', hg, rfl⟩ | ⟨hr, _⟩
      · have hev : evsNew s st = eb ++ [Event.poll g'] := evsNew_of_eq (by rw [r1, b1]; simp)
        rw [hev] at hio
        exact ⟨eb, g', hev, hg', fun f hf => hio f (List.mem_append_left _ hf), b4.2 ⟨u, rfl⟩⟩
      · cases hr
    | err e => simp at h
    | panic p => simp at h
  | err e => simp at h
  | panic p => simp at h

/-- Same body as `Sdmmc.Props.C14Session.IdentComplete`. -/
def IdentComplete (u : Bool) (L : List Mark) : Prop :=
  ∀ pre post, L = pre ++ Mark.identified :: post →
    ∃ p0 c body g, pre = p0 ++ Mark.call c :: (body ++ [Event.poll g]).map Mark.ev ∧ g < 256 ∧
      IdentOnly body ∧ IdentOrder u (cmdIdxs body)

theorem identified_not_mem_map_ev (l : List Event) : Mark.identified ∉ l.map Mark.ev := by simp

theorem callMarks_identified (c : Call) (s : St σ) (pre post : List Mark)
    (h : callMarks B c s = pre ++ Mark.identified :: post) :
    ∃ body g, pre = Mark.call c :: (body ++ [Event.poll g]).map Mark.ev ∧ g < 256 ∧
      IdentOnly body ∧ IdentOrder s.useCrc (cmdIdxs body) := by
  have hmem : Mark.identified ∈ callMarks B c s := by rw [h]; simp
  rcases callMarks_cases B c s with ⟨rfl, hm, _⟩ | ⟨_, _, _, hm, _⟩ | ⟨_, _, s1, hacq, _, hm, _⟩ |
    ⟨_, _, e, s1, _, hm, _⟩
  · rw [hm] at hmem; simp at hmem
  · rw [hm] at hmem; simp at hmem
  · obtain ⟨body, g, hev, hg, hio, hord⟩ := acquire_ok_shape B s s1 hacq
    rw [hm, ← List.cons_append] at h
    obtain ⟨hpre, _⟩ := split_unique (by simp) (by simp) h
    exact ⟨body, g, by rw [hpre, hev], hg, hio, hord⟩
  · rw [hm] at hmem; simp at hmem

theorem session_identComplete (cs : List Call) (s : St σ) : IdentComplete s.useCrc (sessionMarks B cs s) := by
  induction cs generalizing s with
  | nil =>
    intro pre post h
    have : Mark.identified ∈ sessionMarks B [] s := by rw [h]; simp
    simp [sessionMarks, sessionBlocks] at this
  | cons c cs ih =>
    intro pre post h
    rw [sessionMarks_cons] at h
    rcases split_app h with ⟨a', hpre, hrest⟩ | ⟨b', _, hcm⟩
    · obtain ⟨p0, c', body, g, h1, h2, h3, h4⟩ := ih (call B c s).2 a' post hrest
      rw [(call_events_extend B c s).2.1] at h4
      exact ⟨callMarks B c s ++ p0, c', body, g, by rw [hpre, h1]; simp, h2, h3, h4⟩
    · obtain ⟨body, g, h1, h2, h3, h4⟩ := callMarks_identified B c s pre b' hcm
      exact ⟨[], c, body, g, by simpa using h1, h2, h3, h4⟩

end Sdmmc.Lemmas.Sd
