/-
C04 over histories, part 4: the licences `LicenceFor` describes are well formed (`LicWF`: licensed FAT
clusters are clusters of the volume, licensed slots are aligned slots of directory blocks, the clusters of
licensed file chains are data clusters), hence "the history does not name the object" (`NotNamed`) implies
"the history spares the object", and the object is unchanged (`unnamed_object_unchanged`).
-/
import Sdmmc.Lemmas.WriteSetInvHist

namespace Sdmmc.Lemmas.WriteSetInv
open Sdmmc.Model Sdmmc.Model.Fat Sdmmc.Spec.Volume Sdmmc.Lemmas.VolBase Sdmmc.Lemmas.VolTree
open Sdmmc.Spec hiding NoFault Coherent
open Sdmmc.Lemmas.VolDisk Sdmmc.Lemmas.VolMed Sdmmc.Lemmas.VolEng Sdmmc.Lemmas.VolApi
open Sdmmc.Lemmas.WriteSet (flushLicence infoLicence writeLicence DirBlock)

/-- A well-formed licence. -/
structure LicWF (v : FatVolume) (L : Licence) : Prop where
  fatRange : ∀ c, c ∈ L.fatClusters → c < endCluster v
  slots : ∀ p, p ∈ L.slots → p.2 % 32 = 0 ∧ (regionOf v p.1 = .root ∨ regionOf v p.1 = .data)
  files : ∀ r, r ∈ L.files → ∀ c, c ∈ r.1 → InRange v c

theorem LicWF.sameGeom {v v' : FatVolume} (h : SameGeom v v') {L : Licence} (hw : LicWF v' L) : LicWF v L := by
  obtain ⟨a, b, rfl⟩ := h
  exact ⟨hw.fatRange, hw.slots, hw.files⟩

theorem licWF_none (v : FatVolume) : LicWF v Licence.none :=
  ⟨(fun _ h => nomatch h), (fun _ h => nomatch h), (fun _ h => nomatch h)⟩

/-- The clusters of the chain `G` records for a start cluster are clusters of the volume. -/
theorem chainOf_inRange {s : Mgr} {gh : Ghost} (hI : VolInv s gh) (x : Nat) : ∀ c, c ∈ chainOf gh.G x → InRange gh.vol c := by
  have hM := medX_of_med hI.med
  intro c hc
  by_cases hm : x ∈ heads gh.G
  · exact med_inRange hM (chainOf_spec (med_heads hM) hm).1 hc
  · rw [chainOf_nil hm] at hc; cases hc

theorem dirChainOf_inRange {s : Mgr} {gh : Ghost} (hI : VolInv s gh) (dc : Nat) : ∀ c, c ∈ dirChainOf gh dc → InRange gh.vol c := by
  intro c hc
  unfold dirChainOf dirChain at hc
  split at hc
  · cases hc
  · exact chainOf_inRange hI _ c hc

theorem dirBlock_region_inv {s : Mgr} {gh : Ghost} (hI : VolInv s gh) {dc b : Nat} (h : DirBlock gh.vol dc (dirChainOf gh dc) b) :
    regionOf gh.vol b = .root ∨ regionOf gh.vol b = .data :=
  WriteSet.dirBlock_region gh.vol hI.med.geom dc _ b (fun _ => dirChainOf_inRange hI dc) h

theorem object_slot_wf {s : Mgr} {gh : Ghost} (hI : VolInv s gh) {dir : DirInfo} (hdir : dir ∈ s.dirs) {o : Slot}
    (ho : o ∈ objects (dirIdOf dir.cluster) (dirSlots gh.vol s.dev.disk gh.G (dirIdOf dir.cluster))) :
    o.2.1 % 32 = 0 ∧ (regionOf gh.vol o.1 = .root ∨ regionOf gh.vol o.1 = .data) := by
  have hM := medX_of_med hI.med
  obtain ⟨hid, _⟩ := validDir_id hM (hI.openDirs dir hdir)
  obtain ⟨pre, post, hsp, _⟩ := object_split hM hid ho
  have hmem : o ∈ dirSlots gh.vol s.dev.disk gh.G (dirIdOf dir.cluster) := by rw [hsp]; simp
  obtain ⟨i, _, he⟩ := mem_dirSlots_offset hmem
  refine ⟨by rw [he]; omega, ?_⟩
  rcases dirSlot_not_fat hM hid hmem with h1 | h1
  · exact .inr h1
  · exact .inl h1

/-- **Every licence `LicenceFor` describes on a state satisfying the invariant is well formed.** -/
theorem licenceFor_wf {s : Mgr} {gh : Ghost} (hI : VolInv s gh) {op : Op} {L : Licence}
    (h : LicenceFor gh s.files s.dirs s.dev.disk op L) : LicWF gh.vol L := by
  have one : ∀ {p : Nat × Nat} {b off : Nat}, p ∈ [(b, off)] → p = (b, off) := fun h => List.mem_singleton.1 h
  cases h with
  | nothing => exact licWF_none _
  | write h data f hf hh cs' k hpre hk hin =>
    refine ⟨fun c hc => ?_, (fun _ h => nomatch h), fun r hr c hc => ?_⟩
    · have hc' : c ∈ (chainOf gh.G f.entry.cluster).getLast?.toList ++ cs'.drop (chainOf gh.G f.entry.cluster).length := hc
      rcases List.mem_append.1 hc' with h1 | h1
      · have : (chainOf gh.G f.entry.cluster).getLast? = some c := by
          cases hgl : (chainOf gh.G f.entry.cluster).getLast? with
          | none => rw [hgl] at h1; cases h1
          | some x => rw [hgl] at h1; rw [List.mem_singleton.1 h1]
        exact (hin c (hpre.mem (List.mem_of_getLast? this))).2
      · exact (hin c (List.mem_of_mem_drop h1)).2
    · have : r = (cs', f.currentOffset, f.currentOffset + k) := List.mem_singleton.1 hr
      rw [this] at hc
      exact hin c hc
  | flush h f hf hh =>
    obtain ⟨hreg, _, _, _, hal⟩ := file_slot_facts hI hf
    refine ⟨(fun _ h => nomatch h), fun p hp => ?_, (fun _ h => nomatch h)⟩
    rw [one hp]; exact ⟨hal, hreg⟩
  | closeFile h f hf hh =>
    obtain ⟨hreg, _, _, _, hal⟩ := file_slot_facts hI hf
    refine ⟨(fun _ h => nomatch h), fun p hp => ?_, (fun _ h => nomatch h)⟩
    rw [one hp]; exact ⟨hal, hreg⟩
  | closeVolume v => exact ⟨(fun _ h => nomatch h), (fun _ h => nomatch h), (fun _ h => nomatch h)⟩
  | delete dh name sfn dir o hdir hdh hsfn ho hn hfile =>
    refine ⟨fun c hc => (chainOf_inRange hI _ c hc).2, fun p hp => ?_, (fun _ h => nomatch h)⟩
    rw [one hp]; exact object_slot_wf hI hdir ho
  | truncate dh name mode sfn dir o hdir hdh hsfn hm ho hn hfile =>
    refine ⟨fun c hc => (chainOf_inRange hI _ c hc).2, fun p hp => ?_, (fun _ h => nomatch h)⟩
    rw [one hp]; exact object_slot_wf hI hdir ho
  | createSlot dh name mode dir hdir hdh b off hb ho hal =>
    refine ⟨(fun _ h => nomatch h), fun p hp => ?_, (fun _ h => nomatch h)⟩
    rw [one hp]; exact ⟨hal, dirBlock_region_inv hI hb⟩
  | createGrow dh name mode dir hdir hdh last c hl hr hfree =>
    refine ⟨fun x hx => ?_, (fun _ h => nomatch h), (fun _ h => nomatch h)⟩
    have hx' : x ∈ [last, c] := hx
    simp only [List.mem_cons, List.not_mem_nil, or_false] at hx'
    rcases hx' with rfl | rfl
    · exact (dirChainOf_inRange hI _ _ (List.mem_of_getLast? hl)).2
    · exact hr.2
  | mkdirSlot dh name dir hdir hdh cn hrn hfn b off hb ho hal =>
    refine ⟨fun x hx => ?_, fun p hp => ?_, (fun _ h => nomatch h)⟩
    · rw [List.mem_singleton.1 hx]; exact hrn.2
    · rw [one hp]; exact ⟨hal, dirBlock_region_inv hI hb⟩
  | mkdirGrow dh name dir hdir hdh cn hrn hfn last c hl hr =>
    refine ⟨fun x hx => ?_, (fun _ h => nomatch h), (fun _ h => nomatch h)⟩
    have hx' : x ∈ [cn, last, c] := hx
    simp only [List.mem_cons, List.not_mem_nil, or_false] at hx'
    rcases hx' with rfl | rfl | rfl
    · exact hrn.2
    · exact (dirChainOf_inRange hI _ _ (List.mem_of_getLast? hl)).2
    · exact hr.2
  | mkdirFull dh name cn hrn hfn =>
    refine ⟨fun x hx => ?_, (fun _ h => nomatch h), (fun _ h => nomatch h)⟩
    rw [List.mem_singleton.1 hx]; exact hrn.2

theorem runLicensed_wf {v0 : FatVolume} : ∀ {s : Mgr} {ops : List Op} {Ls : List Licence}, RunLicensed v0 s ops Ls →
    ∀ L, L ∈ Ls → LicWF v0 L
  | _, _, _, .nil _, _, h => nomatch h
  | _, _, _, .cons s op ops L Ls gh hI hg hl ha hd rest, L', hL' => by
    rcases List.mem_cons.1 hL' with rfl | h
    · exact (licenceFor_wf hI hl).sameGeom hg
    · exact runLicensed_wf rest L' h

/-- The licence `L` does not name the object with slot `(sb, so)` and chain `cs`. -/
structure NotNamed (v : FatVolume) (L : Licence) (sb so : Nat) (cs : List Nat) : Prop where
  /-- no cluster of the object's chain is a cluster whose FAT entry the call may change -/
  fat : ∀ c, c ∈ cs → c ∉ L.fatClusters
  /-- no cluster the call may overwrite is a cluster of the chain or holds the slot's block -/
  data : ∀ c, c ∈ L.dataClusters → c ∉ cs ∧ ¬ InCluster v c sb
  /-- the slots the call may change are other slots, in blocks outside the object's clusters -/
  slots : ∀ p, p ∈ L.slots → p ≠ (sb, so) ∧ ∀ c, c ∈ cs → ¬ InCluster v c p.1
  /-- no cluster of a file the call may write to is a cluster of the chain or holds the slot's block -/
  files : ∀ r, r ∈ L.files → ∀ c, c ∈ r.1 → c ∉ cs ∧ ¬ InCluster v c sb

theorem avoids_of {v : FatVolume} {L : Licence} {sb so : Nat} {cs : List Nat} (hw : LicWF v L) (hn : NotNamed v L sb so cs) :
    Avoids v L sb so cs :=
  ⟨hw.fatRange, hn.fat, hn.data, fun p hp => ⟨(hw.slots p hp).1, (hw.slots p hp).2, (hn.slots p hp).1, (hn.slots p hp).2⟩,
   fun r hr c hc => ⟨hw.files r hr c hc, (hn.files r hr c hc).1, (hn.files r hr c hc).2⟩⟩

/-- **An object no call of the history names is unchanged**: slot bytes, chain, chain bytes. -/
theorem unnamed_object_unchanged {v0 : FatVolume} (hg : WFGeom v0) {s : Mgr} {ops : List Op} {Ls : List Licence}
    (hR : RunLicensed v0 s ops Ls) (hb : BlocksOK s.dev.disk) (hb' : BlocksOK (run s ops).1.dev.disk) (sb so c : Nat)
    (cs : List Nat) (hch : Chain v0 s.dev.disk c cs) (hsreg : regionOf v0 sb = .root ∨ regionOf v0 sb = .data)
    (hso : so % 32 = 0) (hnn : ∀ L, L ∈ Ls → NotNamed v0 L sb so cs) :
    slice ((run s ops).1.dev.disk.get sb) so 32 = slice (s.dev.disk.get sb) so 32 ∧
    Chain v0 (run s ops).1.dev.disk c cs ∧
    chainBytes v0 (run s ops).1.dev.disk cs = chainBytes v0 s.dev.disk cs :=
  spared_object_unchanged hR hb hb' sb so c cs hch fun L hL =>
    spares_of_avoids hg (ChainL.chain_inRange hch) hsreg hso (avoids_of (runLicensed_wf hR L hL) (hnn L hL))

/-- Every licence of a licensed history is a licence `LicenceFor` describes for the call at its position, in the
state that call is issued in. -/
theorem runLicensed_nth {v0 : FatVolume} : ∀ {s : Mgr} {ops : List Op} {Ls : List Licence}, RunLicensed v0 s ops Ls →
    ∀ L, L ∈ Ls → ∃ k op gh, ops[k]? = some op ∧ VolInv (run s (ops.take k)).1 gh ∧ SameGeom v0 gh.vol ∧
      LicenceFor gh (run s (ops.take k)).1.files (run s (ops.take k)).1.dirs (run s (ops.take k)).1.dev.disk op L
  | _, _, _, .nil _, _, h => nomatch h
  | _, _, _, .cons s op ops L Ls gh hI hg hl ha hd rest, L', hL' => by
    rcases List.mem_cons.1 hL' with rfl | h
    · exact ⟨0, op, gh, rfl, hI, hg, hl⟩
    · obtain ⟨k, op', gh', h1, h2, h3, h4⟩ := runLicensed_nth rest L' h
      refine ⟨k + 1, op', gh', h1, ?_, h3, ?_⟩
      · rw [List.take_succ_cons, run_cons]; exact h2
      · rw [List.take_succ_cons, run_cons]; exact h4

end Sdmmc.Lemmas.WriteSetInv
