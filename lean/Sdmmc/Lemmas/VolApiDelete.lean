/-
Volume invariant (C03), layers 2 and 3 for `delete_file_in_dir`: the entry's first byte becomes 0xE5
(`delete_mark`), its chain — unreferenced from then on — is given back (`free_unreferenced`); together
`delete_med`; the API call `delete_api` and its `step` wrapper.
-/
import Sdmmc.Lemmas.VolApiRO
import Sdmmc.Lemmas.VolMed5
import Sdmmc.Lemmas.VolChains
import Sdmmc.Lemmas.ForestStep

namespace Sdmmc.Lemmas.VolEng
open Sdmmc.Model Sdmmc.Model.Fat Sdmmc.Spec.Volume Sdmmc.Lemmas.VolBase Sdmmc.Lemmas.VolTree
open Sdmmc.Spec hiding NoFault Coherent
open Sdmmc.Lemmas.VolDisk Sdmmc.Lemmas.VolMed Sdmmc.Lemmas.VolWalk
open Sdmmc.Lemmas.FBasic (NoFault Coherent)

/-! ### Small list facts -/

/-- In a list whose images under `f` are distinct, looking for the image of a member finds that member. -/
theorem find?_of_nodup_map {α β : Type} [DecidableEq β] (f : α → β) :
    ∀ (l : List α) (o : α), (l.map f).Nodup → o ∈ l → l.find? (fun s => decide (f s = f o)) = some o
  | [], _, _, h => by cases h
  | a :: l, o, hnd, hm => by
    rw [List.map_cons, List.nodup_cons] at hnd
    rw [List.find?_cons]
    by_cases ha : f a = f o
    · simp only [ha, decide_true]
      rcases List.mem_cons.1 hm with rfl | hm
      · rfl
      · exact absurd (ha ▸ List.mem_map.2 ⟨o, hm, rfl⟩) hnd.1
    · have : decide (f a = f o) = false := by simpa using ha
      rw [this]
      rcases List.mem_cons.1 hm with rfl | hm
      · exact absurd rfl ha
      · exact find?_of_nodup_map f l o hnd.2 hm

theorem mem_entries_of_objects {h : Nat} {ss : List Slot} {o : Slot} (ho : o ∈ objects h ss) : o ∈ entries ss := by
  unfold objects at ho
  split at ho
  · exact ho
  · exact List.mem_of_mem_drop ho

/-- A live short entry that is not a directory entry is an object: in a sub-directory the two dot entries are
directory entries. -/
theorem entry_object {ft : FatType} {h : Nat} {ss : List Slot} {o : Slot} (ho : o ∈ entries ss) (hod : isDirE o = false)
    (hdots : h ≠ 0 → ∃ p s0 s1 rest, ss = s0 :: s1 :: rest ∧ IsDot ft Sfn.thisDir h s0 ∧ IsDot ft Sfn.parentDir p s1) :
    o ∈ objects h ss := by
  unfold objects
  by_cases h0 : h = 0
  · rw [if_pos h0]; exact ho
  · rw [if_neg h0]
    obtain ⟨p, s0, s1, rest, hss, hd0, hd1⟩ := hdots h0
    have hk0 := isDot_keep hd0 thisDir_first
    have hk1 := isDot_keep hd1 parentDir_first
    have e1 : entries (s0 :: s1 :: rest) = s0 :: s1 :: entries rest := by
      have := entries_split [] (s1 :: rest) s0 (fun _ h => by cases h)
      rw [List.nil_append] at this
      rw [this, if_neg hk0.1, if_pos hk0.2]
      have := entries_split [] rest s1 (fun _ h => by cases h)
      rw [List.nil_append] at this
      rw [this, if_neg hk1.1, if_pos hk1.2]
      rfl
    rw [hss, e1] at ho ⊢
    rcases List.mem_cons.1 ho with rfl | ho
    · rw [hd0.2.1] at hod; cases hod
    rcases List.mem_cons.1 ho with rfl | ho
    · rw [hd1.2.1] at hod; cases hod
    · exact ho

/-! ### The deleted mark -/

/-- `delete_directory_entry` on a directory of a sound volume that holds a live short entry `o` with the name
(not starting with 0xE5): the first byte of `o`'s slot is set to 0xE5, nothing else is written. -/
theorem delete_mark {fs : FS} {files : List FileInfo} {gh : Ghost} {X : List (List Nat)}
    (hM : MedX fs.vol fs.dev.disk files gh X) (hn : NoFault fs) (hc : Coherent fs) {dc : Nat}
    (hv : ValidDir gh.dirs dc) (name : Bytes) (hname : name.head? ≠ some 0xE5) {o : Slot}
    (ho : o ∈ entries (dirSlots fs.vol fs.dev.disk gh.G (dirIdOf dc))) (hsn : sName o = name) :
    ∃ fs', deleteDirectoryEntry dc name fs = (.ok (), fs') ∧
      fs'.dev.disk = fs.dev.disk.set o.1 ((fs.dev.disk.get o.1).set o.2.1 (UInt8.ofNat 0xE5)) ∧
      fs'.vol = fs.vol ∧ NoFault fs' ∧ Coherent fs' := by
  obtain ⟨hh, hcase⟩ := dir_walk_facts hM hv
  have hct := hM.tree.cleanTail _ hh
  have hfind : (entries (dirSlots fs.vol fs.dev.disk gh.G (dirIdOf dc))).find? (fun s => decide (sName s = name)) = some o := by
    rw [← hsn]
    exact find?_of_nodup_map sName _ o (hM.tree.names _ hh) ho
  rcases hcase with ⟨hdc, h16, hsl⟩ | ⟨hkind, _, cs, _, _, hch, hlen, hsl⟩
  · subst hdc
    have h := delete_fixedRoot name fs hn hc h16
    rw [hsl] at hct hfind
    have hl := lookupBlocks_entries .fat16 fs.dev.disk name (fs.vol.lbaStart + fs.vol.firstRootDirBlock)
      (blockCountFromBytes (fs.vol.rootEntriesCount * 32)) hname hct
    rw [show runSlots fs.dev.disk (fs.vol.lbaStart + fs.vol.firstRootDirBlock)
      (blockCountFromBytes (fs.vol.rootEntriesCount * 32)) = fixedRootSlots fs.vol fs.dev.disk from rfl, hfind] at hl
    rw [hl] at h
    exact h
  · have h := delete_chain fs dc cs name hn hc hkind hch (by omega)
    rw [hsl] at hct hfind
    rw [lookupChain_entries _ _ _ _ hname hct, hfind] at h
    exact h

/-! ### The medium after the mark -/

section
variable {v : FatVolume} {d : Disk} {files : List FileInfo} {gh : Ghost} {X : List (List Nat)}

/-- The first cluster of a directory chain is not what a file object names. -/
theorem dirHead_ne_fileRef (hM : MedX v d files gh X) {h : Nat} (hh : h ∈ dirIds gh.dirs) {o : Slot}
    (ho : o ∈ objects h (dirSlots v d gh.G h)) (hod : isDirE o = false) (hc : effCluster v.fatType files o ≠ 0)
    {x : Nat} (hx : x ∈ dirIds gh.dirs) (hf : ¬ isFixedRoot v x) : dirHead v x ≠ effCluster v.fatType files o := by
  obtain ⟨h1, h2⟩ := fileRef_not_dir hM.tree (med_heads hM) hh ho hod hc
  unfold dirHead
  by_cases h0 : x = 0
  · rw [if_pos h0]
    have h32 : v.fatType = .fat32 := by
      cases hft : v.fatType with
      | fat16 => exact absurd ⟨h0, hft⟩ hf
      | fat32 => rfl
    intro e
    apply h1
    rw [← e]
    unfold rootHead
    rw [h32]
    exact List.mem_singleton.2 rfl
  · rw [if_neg h0]
    intro e
    apply h2
    rw [← e]
    rcases mem_dirIds.1 hx with e0 | ⟨p, hp⟩
    · exact absurd e0 h0
    · exact List.mem_map.2 ⟨(x, p), hp, rfl⟩

/-- No open file names the chain a closed file object names. -/
theorem open_ne_closed (hM : MedX v d files gh X) {h : Nat} (hh : h ∈ dirIds gh.dirs) {o : Slot}
    (ho : o ∈ objects h (dirSlots v d gh.G h)) (hod : isDirE o = false) (hfree : pendOf files o = none)
    (hc : sCluster v.fatType o ≠ 0) {f : FileInfo} (hf : f ∈ files) : f.entry.cluster ≠ sCluster v.fatType o := by
  intro e
  obtain ⟨h2, hh2, A2, o2, B2, hO2, _, hod2, _, _, hp2⟩ := file_object hM.tree hf
  have ho2 : o2 ∈ objects h2 (dirSlots v d gh.G h2) := by rw [hO2]; simp
  obtain ⟨A1, B1, hAB⟩ := List.append_of_mem ho
  have hO : objects h (dirSlots v d gh.G h) = A1 ++ [o] ++ B1 := by rw [hAB]; simp
  have := eff_ne_of_split hM.tree (med_heads hM) hh hO hod h2 hh2 o2 ho2 ?_ hod2
    (by rw [effCluster_of_pend hp2, e]; exact hc)
  · rw [effCluster_of_pend hp2, effCluster_of_none hfree] at this
    exact this e
  · intro e2
    subst e2
    rw [hO] at ho2
    simp only [List.mem_append, List.mem_singleton] at ho2 ⊢
    rcases ho2 with (h1 | h1) | h1
    · exact .inl h1
    · exfalso
      rw [h1, hfree] at hp2
      cases hp2
    · exact .inr h1

/-- **The deleted mark on the medium**: the slot of a file object `o` no open file sits at gets 0xE5 as its
first byte.  If the entry had no cluster the invariant holds again; otherwise it holds for the chain list
without `o`'s chain, which is now an extra, unreferenced chain. -/
theorem mark_med (hM : MedX v d files gh []) {h : Nat} (hh : h ∈ dirIds gh.dirs) {o : Slot}
    (ho : o ∈ objects h (dirSlots v d gh.G h)) (hod : isDirE o = false) (hfree : pendOf files o = none) :
    (sCluster v.fatType o = 0 ∧ MedX v (d.set o.1 ((d.get o.1).set o.2.1 (UInt8.ofNat 0xE5))) files gh []) ∨
    (∃ A B tail, gh.G = A ++ (sCluster v.fatType o :: tail) :: B ∧
      MedX v (d.set o.1 ((d.get o.1).set o.2.1 (UInt8.ofNat 0xE5))) files { vol := gh.vol, G := A ++ B, dirs := gh.dirs }
        [sCluster v.fatType o :: tail]) := by
  have hG := med_heads hM
  obtain ⟨pre, post, hsp, hpre, hlen, hnz, hkeep⟩ := object_split hM hh ho
  have hx : (UInt8.ofNat 0xE5).toNat ≠ 0 := by decide
  have hE := slotEdit_mark hM hh hsp hpre hlen (UInt8.ofNat 0xE5) hx
  obtain ⟨hb1, hfat1, hsl1, hoth1⟩ := slot_mark hM hh hsp (UInt8.ofNat 0xE5)
  have hmem : o ∈ dirSlots v d gh.G h := by rw [hsp]; simp
  have hnewkeep : keep (o.1, o.2.1, o.2.2.set 0 (UInt8.ofNat 0xE5)) = false := by
    unfold keep
    rw [first_set o _ (by rw [mem_dirSlots_length hM.blocksOK hmem]; decide)]
    rfl
  by_cases hc0 : sCluster v.fatType o = 0
  · left
    refine ⟨hc0, ?_⟩
    have htree := tree_delete (G' := gh.G) hM.tree hG hE ⟨hnz, hkeep⟩ hod hnewkeep hfree (fun _ _ _ => Nat.le_refl _)
      (by intro a; rw [if_neg (by rw [hc0]; exact fun h => h rfl)]; simp)
    exact medX_rebuild hM hb1 hfat1 (gh' := gh) rfl htree hM.fileOK
  · right
    rcases closed_object_chain hM hh ho hod hfree with ⟨h1, _⟩ | ⟨_, _, hch, hcm⟩
    · exact absurd h1 hc0
    have hhd : (chainOf gh.G (sCluster v.fatType o)).head? = some (sCluster v.fatType o) := by
      rw [head?_of_ne (ChainL.chain_ne_nil hch), ForestBase.chain_head_eq hch]
    obtain ⟨tail, htl⟩ : ∃ tail, chainOf gh.G (sCluster v.fatType o) = sCluster v.fatType o :: tail := by
      cases hcs : chainOf gh.G (sCluster v.fatType o) with
      | nil => rw [hcs] at hhd; cases hhd
      | cons a l =>
        rw [hcs] at hhd
        simp only [List.head?_cons, Option.some.injEq] at hhd
        exact ⟨l, by rw [hhd]⟩
    rw [htl] at hcm
    obtain ⟨A, B, hGeq⟩ := List.append_of_mem hcm
    refine ⟨A, B, tail, hGeq, ?_⟩
    have hG0 : HeadsOK (A ++ (sCluster v.fatType o :: tail) :: B) := by rw [← hGeq]; exact hG
    have hG' : HeadsOK (A ++ B) := headsOK_erase hG0
    have hec : effCluster v.fatType files o = sCluster v.fatType o := effCluster_of_none hfree
    -- chains of the other first clusters
    have hother : ∀ x, x ≠ sCluster v.fatType o → chainOf (A ++ B) x = chainOf gh.G x := by
      intro x hxne
      rw [hGeq]
      exact chainOf_erase_other hG0 hxne
    -- the slot lists of the directories do not depend on the removed chain
    have hslots : ∀ (d' : Disk) x, x ∈ dirIds gh.dirs → dirSlots v d' (A ++ B) x = dirSlots v d' gh.G x := by
      intro d' x hx
      by_cases hf : isFixedRoot v x
      · rw [dirSlots_fixed hf, dirSlots_fixed hf]
      · rw [dirSlots_chain hf, dirSlots_chain hf, hother]
        have := dirHead_ne_fileRef hM hh ho hod (by rw [hec]; exact hc0) hx hf
        rw [hec] at this
        exact this
    have hE' : SlotEdit gh.dirs (dirSlots v d gh.G)
        (dirSlots v (d.set o.1 ((d.get o.1).set o.2.1 (UInt8.ofNat 0xE5))) (A ++ B)) h pre post o
        (o.1, o.2.1, o.2.2.set 0 (UInt8.ofNat 0xE5)) :=
      ⟨hE.mem, fun x hx hne => (hslots _ x hx).trans (hE.other x hx hne), hE.before, (hslots _ h hh).trans hE.after,
        hE.pre_nz, hE.pre_len, hE.new_nz⟩
    have htree := tree_delete (G' := A ++ B) hM.tree hG hE' ⟨hnz, hkeep⟩ hod hnewkeep hfree
      (by
        intro c _ hcne
        rw [hother c hcne]
        exact Nat.le_refl _)
      (by
        intro a
        rw [if_pos hc0, hGeq]
        exact heads_erase_count A B _ a)
    have hown0 : Owns v d (A ++ (sCluster v.fatType o :: tail) :: B) := by
      have := hM.owns
      rwa [List.append_nil, hGeq] at this
    have hown1 : Owns v (d.set o.1 ((d.get o.1).set o.2.1 (UInt8.ofNat 0xE5))) (A ++ (sCluster v.fatType o :: tail) :: B) :=
      WriteRefines.owns_of_fat_eq hfat1 hown0
    refine ⟨hb1, hM.geom, hM.hint, ?_, htree, ?_⟩
    · refine owns_perm ?_ hown1
      exact List.perm_middle.trans (List.perm_append_singleton _ _).symm
    · intro f hf
      have hne := open_ne_closed hM hh ho hod hfree hc0 hf
      show FileOK v _ f (chainOf (A ++ B) f.entry.cluster) ∧ (chainOf (A ++ B) f.entry.cluster = [] → f.curCluster < 2)
      rw [hother _ hne]
      obtain ⟨hok, hcur⟩ := hM.fileOK f hf
      refine ⟨fileOK_of_owns (SameGeom.refl v) hok hown1 ?_, hcur⟩
      by_cases hnil : chainOf gh.G f.entry.cluster = []
      · exact .inl hnil
      · right
        rw [← hGeq]
        exact (chainOf_spec hG ((chainOf_ne_nil_iff hG).1 hnil)).1

end

/-! ### Giving back an unreferenced chain -/

/-- `free_cluster_chain(c)` on a chain `c :: tail` of the medium that no entry names: the invariant holds
without the extra chain. -/
theorem free_unreferenced {fs : FS} {files : List FileInfo} {gh : Ghost} {c : Nat} {tail : List Nat}
    (hM : MedX fs.vol fs.dev.disk files gh [c :: tail]) (hn : NoFault fs) (hc : Coherent fs) :
    ∃ fs', freeClusterChain c fs = (.ok (), fs') ∧ NoFault fs' ∧ Coherent fs' ∧ SameGeom fs.vol fs'.vol ∧
      MedX fs'.vol fs'.dev.disk files { vol := fs'.vol, G := gh.G, dirs := gh.dirs } [] := by
  have hr : Ready fs := ⟨hn, hc, hM.blocksOK, hM.geom, hM.hint⟩
  have hown : Owns fs.vol fs.dev.disk (gh.G ++ [c :: tail] ++ []) := by rw [List.append_nil]; exact hM.owns
  obtain ⟨fs', hrun, hr', hown', hsg, _, _⟩ := ForestStep.owns_free fs gh.G [] c tail hr hown
  have hch : Chain fs.vol fs.dev.disk c (c :: tail) :=
    hM.owns.1 _ (List.mem_append_right _ (List.mem_singleton.2 rfl))
  obtain ⟨fs2, hrun2, _, _, _, _, _, hframe⟩ := ForestTrunc.free_spec fs c tail hn hc hM.blocksOK hM.geom hch
  have hfs : fs2 = fs' := by
    have := hrun2.symm.trans hrun
    exact (Prod.mk.inj this).2
  subst hfs
  refine ⟨fs2, hrun, hr'.noFault, hr'.coherent, hsg, ?_⟩
  have hown2 : Owns fs2.vol fs2.dev.disk (gh.G ++ []) := by
    simpa only [List.append_nil] using hown'
  have hG := med_heads hM
  refine medX_fat_update (X' := []) (G' := gh.G) hM hsg hr'.hint hr'.blocksOK hown2 (fun _ _ _ => rfl) ?_ rfl hM.tree ?_
  · intro h hh s hs
    apply hframe.nonFat
    rcases dirSlot_not_fat hM hh hs with h1 | h1 <;> rw [h1] <;> intro e <;> cases e
  · intro f hf
    obtain ⟨hok, hcur⟩ := hM.fileOK f hf
    refine ⟨fileOK_of_owns hsg hok hown2 ?_, hcur⟩
    by_cases hnil : chainOf gh.G f.entry.cluster = []
    · exact .inl hnil
    · exact .inr (List.mem_append_left _ (chainOf_spec hG ((chainOf_ne_nil_iff hG).1 hnil)).1)

/-! ### The deletion -/

/-- **A file entry is deleted and its chain given back**: `delete_directory_entry` followed by
`free_cluster_chain` of the entry's start cluster, for a file object `o` of the directory with the given name
that no open file sits at.  Both succeed and the invariant holds again. -/
theorem delete_med {fs : FS} {files : List FileInfo} {gh : Ghost} (hM : MedX fs.vol fs.dev.disk files gh [])
    (hn : NoFault fs) (hc : Coherent fs) {dc : Nat} (hv : ValidDir gh.dirs dc)
    (name : Bytes) (hname : name.head? ≠ some 0xE5) {o : Slot}
    (ho : o ∈ objects (dirIdOf dc) (dirSlots fs.vol fs.dev.disk gh.G (dirIdOf dc)))
    (hod : isDirE o = false) (hsn : sName o = name) (hfree : pendOf files o = none) :
    ∃ fs', (do Fat.deleteDirectoryEntry dc name; Fat.freeClusterChain (sCluster fs.vol.fatType o) : F Unit) fs = (.ok (), fs') ∧
      NoFault fs' ∧ Coherent fs' ∧ SameGeom fs.vol fs'.vol ∧
      ∃ gh', gh'.vol = fs'.vol ∧ gh'.dirs = gh.dirs ∧ MedX fs'.vol fs'.dev.disk files gh' [] := by
  obtain ⟨hh, _⟩ := validDir_id hM hv
  obtain ⟨fs1, hrun1, hd1, hv1, hn1, hc1⟩ := delete_mark hM hn hc hv name hname (mem_entries_of_objects ho) hsn
  rcases mark_med hM hh ho hod hfree with ⟨hc0, hM1⟩ | ⟨A, B, tail, hGeq, hM1⟩
  · have hrun2 : freeClusterChain (sCluster fs.vol.fatType o) fs1 = (.ok (), fs1) := by
      rw [hc0]; rfl
    refine ⟨fs1, ?_, hn1, hc1, SameGeom.of_eq hv1, { gh with vol := fs1.vol }, rfl, rfl, ?_⟩
    · rw [FBasic.bind_ok hrun1, hrun2]
    · rw [hv1, hd1]
      exact medX_of_ghost hM1 rfl rfl
  · rw [← hd1, ← hv1] at hM1
    obtain ⟨fs2, hrun2, hn2, hc2, hsg2, hM2⟩ := free_unreferenced hM1 hn1 hc1
    refine ⟨fs2, ?_, hn2, hc2, (SameGeom.of_eq hv1).trans hsg2, { vol := fs2.vol, G := A ++ B, dirs := gh.dirs }, rfl, rfl, hM2⟩
    rw [FBasic.bind_ok hrun1, ← hv1, hrun2]

end Sdmmc.Lemmas.VolEng

namespace Sdmmc.Lemmas.VolApi
open Sdmmc.Model Sdmmc.Model.Fat Sdmmc.Spec.Volume Sdmmc.Lemmas.VolBase Sdmmc.Lemmas.VolTree
open Sdmmc.Spec hiding NoFault Coherent
open Sdmmc.Lemmas.VolDisk Sdmmc.Lemmas.VolMed Sdmmc.Lemmas.VolEng
open Sdmmc.Lemmas.FBasic (NoFault Coherent)
open Sdmmc.Lemmas.MHoare

/-- **`delete_file_in_dir`** keeps the volume invariant, whatever it answers (for a name whose short form does
not start with 0xE5): refusals change nothing on the medium; on success the entry is marked deleted and its
chain is free. -/
theorem delete_api {s : Mgr} {gh : Ghost} (hI : VolInv s gh) (directory : Nat) (name : List Nat)
    (hname : ∀ sfn, Sfn.createFromStr name = .ok sfn → sfn.head? ≠ some 0xE5) :
    ∃ gh', VolInv (deleteFileInDir directory name s).2 gh' ∧ SameGeom gh.vol gh'.vol := by
  unfold deleteFileInDir
  refine dirPrologue_state directory name _ hI fun d volIdx sfn hdm hv hsfn => ?_
  obtain ⟨h0, vi, hvs, hvol, hraw⟩ := vol_of_handle hI hv
  subst h0
  have hpv := hI.openDirs d hdm
  have hro := DirMgr.findDirectoryEntry_readOnly d.cluster sfn
  have h1 := withVol_ro_inv 0 _ hro hI
  have hw := withVol_one (Fat.findDirectoryEntry d.cluster sfn) hvs hvol
  obtain ⟨hn, hc, hM⟩ := volInv_fs hI
  obtain ⟨fs', hfind, hdisk, _, hvol', _, _⟩ := find_spec hM hn hc hpv sfn (hname sfn hsfn)
  rw [hfind] at hw
  rw [bind_def]
  rcases hrun : withVol 0 (Fat.findDirectoryEntry d.cluster sfn) s with ⟨r, s1⟩
  rw [hrun] at h1 hw
  have hr : r = _ := congrArg Prod.fst hw
  have hs1 : s1 = _ := congrArg Prod.snd hw
  cases r with
  | ok e =>
    simp only
    by_cases hdir : Attr.isDirectory e.attributes = true
    · rw [if_pos hdir]; exact ⟨gh, h1, SameGeom.refl _⟩
    rw [if_neg hdir, get_bind]
    by_cases hopen : fileIsOpen s1 d.rawVolume e = true
    · rw [if_pos hopen]; exact ⟨gh, h1, SameGeom.refl _⟩
    rw [if_neg hopen]
    simp only at hr hs1
    subst hs1
    -- the entry found
    cases hfo : (entries (dirSlots (fsOf s gh).vol (fsOf s gh).dev.disk gh.G (dirIdOf d.cluster))).find?
        fun s => decide (sName s = sfn) with
    | none => rw [hfo] at hr; cases hr
    | some o =>
      rw [hfo] at hr
      have he : e = Listing.decode (fsOf s gh).vol.fatType o := Res.ok.inj hr
      have hom := List.mem_of_find?_eq_some hfo
      have hsn : sName o = sfn := by
        have := List.find?_some hfo
        simpa using this
      obtain ⟨hdn, hda, _, hdb, hdo, hdc⟩ := decode_fields (fsOf s gh).vol.fatType o
      have hod : isDirE o = false := by
        have : Attr.isDirectory (sAttr o) = false := by
          rw [← hda, ← he]
          simpa using hdir
        exact this
      have hattr : ¬ sAttr o / 16 % 2 = 1 := by
        unfold isDirE at hod
        exact of_decide_eq_false hod
      have hcl : e.cluster = sCluster (fsOf s gh).vol.fatType o := by
        rw [he, hdc, if_neg (fun h => hattr h.2)]
      -- the state after the lookup
      have hvols1 : (afterVol s vi fs').vols = [{ vi with vol := fs'.vol }] := rfl
      have hvol1 : ({ vi with vol := fs'.vol } : VolInfo).vol = gh.vol := hvol'
      have hv1 : (afterVol s vi fs').vols.findIdx? (·.rawVolume = d.rawVolume) = some 0 := by
        rw [hvols1]
        simp [hraw]
      rw [bind_ok (getVolumeById_ok hv1), withVol_one _ hvols1 hvol1]
      obtain ⟨hn1, hc1, hM1⟩ := volInv_fs h1
      have hdisk1 : (fsOf (afterVol s vi fs') gh).dev.disk = (fsOf s gh).dev.disk := hdisk
      have hvv1 : (fsOf (afterVol s vi fs') gh).vol = (fsOf s gh).vol := rfl
      obtain ⟨hid, _⟩ := validDir_id hM hpv
      have ho : o ∈ objects (dirIdOf d.cluster)
          (dirSlots (fsOf (afterVol s vi fs') gh).vol (fsOf (afterVol s vi fs') gh).dev.disk gh.G (dirIdOf d.cluster)) := by
        rw [hdisk1, hvv1]
        refine entry_object (ft := (fsOf s gh).vol.fatType) hom hod ?_
        intro hne
        rcases mem_dirIds.1 hid with e0 | ⟨p, hp⟩
        · exact absurd e0 hne
        · obtain ⟨s0, s1, rest, hss, hd0, hd1⟩ := hM.tree.dots _ p hp
          exact ⟨p, s0, s1, rest, hss, hd0, hd1⟩
      have hfree : pendOf (afterVol s vi fs').files o = none := by
        rw [pendOf_none_iff]
        intro g hg hk
        apply hopen
        unfold fileIsOpen
        rw [List.any_eq_true]
        obtain ⟨vi', hv', he'⟩ := h1.fileVols g hg
        rw [hvols1] at hv'
        cases hv'
        obtain ⟨hk1, hk2⟩ := Prod.mk.inj hk
        refine ⟨g, hg, ?_⟩
        simp only [decide_eq_true_eq]
        refine ⟨he'.trans hraw, ?_, ?_⟩
        · rw [he, hdb]; exact hk1
        · rw [he, hdo]; exact hk2
      obtain ⟨fs2, hrun2, hn2, hc2, hsg2, gh2, hgv2, hgd2, hM2⟩ :=
        delete_med hM1 hn1 hc1 hpv sfn (hname sfn hsfn) ho hod hsn hfree
      rw [hcl, ← hvv1, hrun2]
      refine ⟨gh2, ?_, by rw [hgv2]; exact hsg2⟩
      exact volInv_afterVol h1 hvols1 hn2 hc2 hgv2 hM2 (fun c hc' => by rw [hgd2]; exact hc')
  | err e => exact ⟨gh, h1, SameGeom.refl _⟩
  | panic m => exact ⟨gh, h1, SameGeom.refl _⟩
  | diverged => exact ⟨gh, h1, SameGeom.refl _⟩

theorem step_delete_api {s : Mgr} {gh : Ghost} (hI : VolInv s gh) (d : Nat) (name : List Nat)
    (hname : ∀ sfn, Sfn.createFromStr name = .ok sfn → sfn.head? ≠ some 0xE5) :
    ∃ gh', VolInv (step s (.delete d name)).1 gh' ∧ SameGeom gh.vol gh'.vol := by
  refine step_keeps_of (op := .delete d name) ?_ s gh hI
  intro s gh hI
  show ∃ gh', VolInv ((deleteFileInDir d name >>= fun _ => (pure Payload.unit : M Payload)) s).2 gh' ∧ SameGeom gh.vol gh'.vol
  rw [seq_state]
  exact delete_api hI d name hname

end Sdmmc.Lemmas.VolApi
