/-
C11 — frame facts at the manager level: `failed` never decreases in any method; the read-only
methods write nothing.
-/
import Sdmmc.Lemmas.FaultApi

namespace Sdmmc.Lemmas.Fault

open Sdmmc.Model

section
variable {R : Mgr → Mgr → Prop} {RF : FS → FS → Prop}

/-! ### Methods that only read -/

theorem openRawVolume_inv [MDev R RF] [ReadOK RF] (i : Nat) : M.Inv R (openRawVolume i) := by
  unfold openRawVolume; mfault_auto

theorem openRootDir_inv [MDev R RF] (v : Nat) : M.Inv R (openRootDir v) := by
  unfold openRootDir; mfault_auto

theorem openDir_inv [MDev R RF] [ReadOK RF] (d : Nat) (name : List Nat) : M.Inv R (openDir d name) := by
  unfold openDir; mfault_auto

theorem closeDir_inv [MDev R RF] (d : Nat) : M.Inv R (closeDir d) := by
  unfold closeDir; mfault_auto

theorem findDirectoryEntry_minv [MDev R RF] [ReadOK RF] (d : Nat) (name : List Nat) :
    M.Inv R (Model.findDirectoryEntry d name) := by
  unfold Model.findDirectoryEntry; mfault_auto

theorem iterateDir_inv [MDev R RF] [ReadOK RF] (d : Nat) : M.Inv R (iterateDir d) := by
  unfold iterateDir; mfault_auto

theorem iterateDirLfn_inv [MDev R RF] [ReadOK RF] (d n : Nat) : M.Inv R (iterateDirLfn d n) := by
  unfold iterateDirLfn; mfault_auto

theorem readLoop_inv [MDev R RF] [ReadOK RF] (fi vi start fuel space : Nat) (acc : Bytes) :
    M.Inv R (readLoop fi vi start fuel space acc) := by
  induction fuel generalizing space acc with
  | zero => unfold readLoop; mfault_auto
  | succ n ih => unfold readLoop; mfault_auto

theorem read_inv [MDev R RF] [ReadOK RF] (f n : Nat) : M.Inv R (Model.read f n) := by
  have := @readLoop_inv R RF _ _
  unfold Model.read; mfault_auto

theorem fileEof_inv [MDev R RF] (f : Nat) : M.Inv R (fileEof f) := by unfold fileEof; mfault_auto
theorem fileLength_inv [MDev R RF] (f : Nat) : M.Inv R (fileLength f) := by unfold fileLength; mfault_auto
theorem fileOffset_inv [MDev R RF] (f : Nat) : M.Inv R (fileOffset f) := by unfold fileOffset; mfault_auto
theorem fileSeekFromStart_inv [MDev R RF] (f n : Nat) : M.Inv R (fileSeekFromStart f n) := by
  unfold fileSeekFromStart; mfault_auto
theorem fileSeekFromCurrent_inv [MDev R RF] (f : Nat) (n : Int) : M.Inv R (fileSeekFromCurrent f n) := by
  unfold fileSeekFromCurrent; mfault_auto
theorem fileSeekFromEnd_inv [MDev R RF] (f n : Nat) : M.Inv R (fileSeekFromEnd f n) := by
  unfold fileSeekFromEnd; mfault_auto

theorem getRootVolumeLabel_inv [MDev R RF] [ReadOK RF] (v : Nat) : M.Inv R (getRootVolumeLabel v) := by
  have := @openRootDir_inv R RF _
  have := @iterateDir_inv R RF _ _
  have := @closeDir_inv R RF _
  unfold getRootVolumeLabel; mfault_auto

/-! ### Methods that write -/

theorem closeVolume_inv [MDev R RF] [WriteOK RF] (v : Nat) : M.Inv R (closeVolume v) := by
  unfold closeVolume; mfault_auto

theorem openFileInDir_inv [MDev R RF] [WriteOK RF] (d : Nat) (name : List Nat) (mode : Mode) :
    M.Inv R (openFileInDir d name mode) := by
  unfold openFileInDir; mfault_auto

theorem deleteFileInDir_inv [MDev R RF] [WriteOK RF] (d : Nat) (name : List Nat) : M.Inv R (deleteFileInDir d name) := by
  unfold deleteFileInDir; mfault_auto

theorem makeDirInDir_inv [MDev R RF] [WriteOK RF] (d : Nat) (name : List Nat) : M.Inv R (makeDirInDir d name) := by
  unfold makeDirInDir; mfault_auto

theorem writeLoop_inv [MDev R RF] [WriteOK RF] (fi vi fuel : Nat) (buf : Bytes) : M.Inv R (writeLoop fi vi fuel buf) := by
  induction fuel generalizing buf with
  | zero => unfold writeLoop; mfault_auto
  | succ n ih => unfold writeLoop; mfault_auto

theorem write_inv [MDev R RF] [WriteOK RF] (f : Nat) (buf : Bytes) : M.Inv R (write f buf) := by
  have := @writeLoop_inv R RF _ _
  unfold write; mfault_auto

theorem flushFile_inv [MDev R RF] [WriteOK RF] (f : Nat) : M.Inv R (flushFile f) := by
  unfold flushFile; mfault_auto

theorem closeFile_inv [MDev R RF] [WriteOK RF] (f : Nat) : M.Inv R (closeFile f) := by
  have := @flushFile_inv R RF _ _
  unfold closeFile; mfault_auto

theorem runOp_inv [MDev R RF] [WriteOK RF] (op : Op) : M.Inv R (runOp op) := by
  have := @openRawVolume_inv R RF _ _
  have := @closeVolume_inv R RF _ _
  have := @openRootDir_inv R RF _
  have := @openDir_inv R RF _ _
  have := @closeDir_inv R RF _
  have := @openFileInDir_inv R RF _ _
  have := @read_inv R RF _ _
  have := @write_inv R RF _ _
  have := @closeFile_inv R RF _ _
  have := @flushFile_inv R RF _ _
  have := @deleteFileInDir_inv R RF _ _
  have := @makeDirInDir_inv R RF _ _
  have := @getRootVolumeLabel_inv R RF _ _
  have := @fileSeekFromStart_inv R RF _
  have := @fileSeekFromCurrent_inv R RF _
  have := @fileSeekFromEnd_inv R RF _
  have := @findDirectoryEntry_minv R RF _ _
  have := @iterateDir_inv R RF _ _
  have := @iterateDirLfn_inv R RF _ _
  have := @fileLength_inv R RF _
  have := @fileOffset_inv R RF _
  have := @fileEof_inv R RF _
  cases op <;> unfold runOp <;> mfault_auto
  exact M.Inv.of_eq fun _ => rfl

/-- The operations that never write: everything except `closeVolume`, `openFile`, `write`,
`flush`, `closeFile`, `delete`, `mkdir`. -/
def readOnlyOp : Op → Bool
  | .closeVolume _ | .openFile _ _ _ | .write _ _ | .flush _ | .closeFile _ | .delete _ _ | .mkdir _ _ => false
  | _ => true

theorem runOp_readonly_inv [MDev R RF] [ReadOK RF] (op : Op) (h : readOnlyOp op = true) : M.Inv R (runOp op) := by
  have := @openRawVolume_inv R RF _ _
  have := @openRootDir_inv R RF _
  have := @openDir_inv R RF _ _
  have := @closeDir_inv R RF _
  have := @read_inv R RF _ _
  have := @getRootVolumeLabel_inv R RF _ _
  have := @fileSeekFromStart_inv R RF _
  have := @fileSeekFromCurrent_inv R RF _
  have := @fileSeekFromEnd_inv R RF _
  have := @findDirectoryEntry_minv R RF _ _
  have := @iterateDir_inv R RF _ _
  have := @iterateDirLfn_inv R RF _ _
  have := @fileLength_inv R RF _
  have := @fileOffset_inv R RF _
  have := @fileEof_inv R RF _
  cases op <;> first | (cases h; done) | (unfold runOp; mfault_auto)
  exact M.Inv.of_eq fun _ => rfl

end

/-- `failed` never decreases during an API call. -/
theorem step_failed_mono (s : Mgr) (op : Op) : s.dev.failed ≤ (step s op).1.dev.failed := by
  unfold step
  by_cases hl : s.locked = true
  · rw [if_pos hl]; split <;> exact Nat.le_refl _
  · rw [if_neg hl]
    exact runOp_inv (R := MFailedLe) op { s with dev := { s.dev with wlog := [], rlog := [] } }

/-- A read-only call — failed or not — leaves the medium untouched and issues no device write. -/
theorem step_readonly_nowrite (s : Mgr) (op : Op) (h : readOnlyOp op = true) :
    (step s op).1.dev.disk = s.dev.disk ∧ (step s op).2.writes = [] := by
  unfold step
  by_cases hl : s.locked = true
  · rw [if_pos hl]; split <;> exact ⟨rfl, rfl⟩
  · rw [if_neg hl]
    have := runOp_readonly_inv (R := MNoWrite) op h { s with dev := { s.dev with wlog := [], rlog := [] } }
    obtain ⟨hw, hd⟩ := this
    refine ⟨hd, ?_⟩
    show List.reverse _ = []
    rw [hw]; rfl

/-- A read-only call — failed or not — keeps the cache coherent with the medium: a buffer that
a failed device read scribbled on is never tagged, so it is never served later. -/
theorem step_readonly_coherent (s : Mgr) (op : Op) (h : readOnlyOp op = true) (hc : MCoh s) :
    MCoh (step s op).1 := by
  unfold step
  by_cases hl : s.locked = true
  · rw [if_pos hl]; split <;> exact hc
  · rw [if_neg hl]
    exact runOp_readonly_inv (R := MCohRel) op h { s with dev := { s.dev with wlog := [], rlog := [] } } hc

end Sdmmc.Lemmas.Fault
