/-
C10 strengthened (`Props/C10InvX.lean`): `VolCrashHist.lean` restated for `CIX` / `RawOKX`: every API call (`runOp_callCX`, `step_stepCX`).
-/
import Sdmmc.Lemmas.VolCrashXRO
import Sdmmc.Lemmas.VolCrashXFlush
import Sdmmc.Lemmas.VolCrashXWrite
import Sdmmc.Lemmas.VolCrashXDelete
import Sdmmc.Lemmas.VolCrashXOpen
import Sdmmc.Lemmas.VolCrashXMkdir
import Sdmmc.Lemmas.VolCrashHist

namespace Sdmmc.Lemmas.VolCrashX
open Sdmmc.Lemmas.VolCrash
open Sdmmc.Model Sdmmc.Model.Fat Sdmmc.Spec.Volume
open Sdmmc.Spec hiding NoFault Coherent run step
open Sdmmc.Lemmas.FBasic
open Sdmmc.Lemmas.VolApi Sdmmc.Lemmas.CrashBase Sdmmc.Lemmas.CrashMgr Sdmmc.Lemmas.MHoare
open Sdmmc.Lemmas.WriteSetInv (NameCovered)

theorem callCX_congr {v : FatVolume} {s s' t : Mgr} (h : CallCX v s s') (e : t = s') : CallCX v s t := e ▸ h

/-- **Every operation**, run on the state with cleared logs. -/
theorem runOp_callCX {s : Mgr} {gh : Ghost} (hI : VolInv s gh) (hR : RawOKX gh.vol.fatType s.dev.disk s.files) (op : Op)
    (hc : NameCovered op) : CallCX gh.vol s (runOp op s).2 := by
  by_cases hro : Fault.readOnlyOp op = true
  · exact readonly_callCX hI hR op hro
  · cases op with
    | closeVolume v => exact callCX_congr (closeVolume_callCX hI hR v) (WriteSet.runOp_closeVolume v s)
    | openFile d n m => exact callCX_congr (openFile_callCX hI hR d n m hc) (WriteSet.runOp_openFile d n m s)
    | write f b => exact callCX_congr (write_callCX hI hR f b) (WriteSet.runOp_write f b s)
    | flush f => exact callCX_congr (flush_callCX hI hR f) (WriteSet.runOp_flush f s)
    | closeFile f => exact callCX_congr (closeFile_callCX hI hR f) (WriteSet.runOp_closeFile f s)
    | delete d n => exact callCX_congr (delete_callCX hI hR d n hc) (WriteSet.runOp_delete d n s)
    | mkdir d n => exact callCX_congr (mkdir_callCX hI hR d n hc) (WriteSet.runOp_mkdir d n s)
    | _ => exact absurd rfl hro

/-- **Every operation through `step`.** -/
theorem step_stepCX {s : Mgr} {gh : Ghost} (hI : VolInv s gh) (hR : RawOKX gh.vol.fatType s.dev.disk s.files) (op : Op)
    (hc : NameCovered op) : StepCX gh.vol s op :=
  stepCX_of_callCX hI.unlocked (runOp_callCX (volInv_resetLogs hI) hR op hc)

theorem rawOKX_of_invCX {s : Mgr} {gh : Ghost} (hI : VolInvCX s gh) : RawOKX gh.vol.fatType s.dev.disk s.files :=
  ⟨hI.inv.raw, hI.rawEmpty⟩

/-- **Every crash point of every call satisfies `CrashInvX`**: crash-consistent, the lost clusters forming chains, file
entries without a cluster empty — for explicit `gh'`, `X'`. -/
theorem step_crashInvX {s : Mgr} {gh : Ghost} (hI : VolInvCX s gh) (op : Op) (hc : NameCovered op) (k : Nat) :
    ∃ gh' X', CrashInvX gh.vol (crashDisk s.dev.disk (Model.step s op).2.writes k) gh' X' :=
  ((step_stepCX hI.inv.inv (rawOKX_of_invCX hI) op hc).crash k).crashInvX
    (step_prefixOK hI.inv.inv hI.inv.mirror op hc k).blocksOK

/-- `RawEmptyOK` after the call. -/
theorem step_rawEmpty {s : Mgr} {gh : Ghost} (hI : VolInvCX s gh) (op : Op) (hc : NameCovered op) :
    RawEmptyOK gh.vol.fatType (Model.step s op).1.dev.disk (Model.step s op).1.files :=
  (step_stepCX hI.inv.inv (rawOKX_of_invCX hI) op hc).raw.empty

end Sdmmc.Lemmas.VolCrashX
