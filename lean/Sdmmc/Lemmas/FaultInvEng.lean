/-
C11 under the invariant, part 4 (engine, fault-free runs): at EVERY crash point of the engine calls that store a
directory entry — `update_info_sector`, `flush` (info sector, entry), the deleting pair (`delete_directory_entry`,
`free_cluster_chain`), `truncate_cluster_chain` — the directories are sound (`DirsInv`).  With `Pre.transfer` this
is what a run under any fault schedule leaves.
-/
import Sdmmc.Lemmas.FaultInvBase
import Sdmmc.Lemmas.VolApiDelete
import Sdmmc.Lemmas.CrashFat
import Sdmmc.Lemmas.CrashDelete

namespace Sdmmc.Lemmas.FaultInv
open Sdmmc.Model Sdmmc.Model.Fat Sdmmc.Spec.Volume Sdmmc.Lemmas.VolBase Sdmmc.Lemmas.VolTree
open Sdmmc.Spec hiding NoFault Coherent
open Sdmmc.Lemmas.VolDisk Sdmmc.Lemmas.VolMed Sdmmc.Lemmas.VolApi Sdmmc.Lemmas.VolEng
open Sdmmc.Lemmas.FBasic (NoFault Coherent)
open Sdmmc.Lemmas.CrashBase Sdmmc.Lemmas.Retry Sdmmc.Lemmas.FaultPre

/-- A call that issues at most one device write: both the medium before and the medium after satisfy `P`. -/
theorem crash_le_one {P : Disk → Prop} {s s' : FS}
    (hcase : (s'.dev.wlog = s.dev.wlog ∧ s'.dev.disk = s.dev.disk) ∨
      ∃ b p, s'.dev.wlog = (b, p) :: s.dev.wlog ∧ s'.dev.disk = s.dev.disk.set b p)
    (h0 : P s.dev.disk) (h1 : P s'.dev.disk) : CrashAll P s s' := by
  rcases hcase with ⟨hw, hd⟩ | ⟨b, p, hw, hd⟩
  · exact CrashAll.same hw hd h0
  · exact (CrashData.single_write_crash hw hd).mono fun d hd' => by rcases hd' with rfl | rfl <;> assumption

section
variable {files : List FileInfo} {gh : Ghost} {X : List (List Nat)}

/-- `update_info_sector`, every crash point. -/
theorem updateInfo_crash_dirs {fs : FS} (hM : MedX fs.vol fs.dev.disk files gh X) (hn : NoFault fs) (hc : Coherent fs) :
    ∃ fs', updateInfoSector fs = (.ok (), fs') ∧ NoFault fs' ∧ Coherent fs' ∧ fs'.vol = fs.vol ∧
      MedX fs'.vol fs'.dev.disk files gh X ∧ CrashAll (fun d => DirsInv fs.vol d gh) fs fs' := by
  obtain ⟨fs', hr, hn', hc', hv, hM'⟩ := updateInfo_med hM hn hc
  refine ⟨fs', hr, hn', hc', hv, hM', ?_⟩
  have h1 : DirsInv fs.vol fs'.dev.disk gh := by rw [← hv]; exact dirsInv_of_med hM'
  refine crash_le_one ?_ (dirsInv_of_med hM) h1
  by_cases hidle : fs.vol.fatType = .fat16 ∨ (fs.vol.freeClustersCount = none ∧ fs.vol.nextFreeCluster = none)
  · have := FatOps.updateInfoSector_idle fs hidle
    rw [hr] at this
    have e1 : fs' = fs := congrArg Prod.snd this
    rw [e1]; exact .inl ⟨rfl, rfl⟩
  · have hft : fs.vol.fatType = .fat32 := by
      cases hf : fs.vol.fatType with
      | fat16 => exact absurd (.inl hf) hidle
      | fat32 => rfl
    obtain ⟨s1, h1', _, _, _, hd1, hw1⟩ := DirEntryIO.updateInfoSector_state32 fs hn hc hft (fun h' => hidle (.inr h'))
    rw [hr] at h1'
    have e1 : fs' = s1 := congrArg Prod.snd h1'
    rw [e1]
    exact .inr ⟨_, _, hw1, hd1⟩

/-- `flush` of an open file (info sector, then the entry), every crash point. -/
theorem flush_crash_dirs {fs : FS} (hM : MedX fs.vol fs.dev.disk files gh X) (hn : NoFault fs) (hc : Coherent fs)
    {f : FileInfo} (hf : f ∈ files) (ho : f.entry.entryOffset + 32 ≤ 512) (hname : f.entry.name.length = 11) :
    CrashAll (fun d => DirsInv fs.vol d gh) fs (DirEntryIO.flushF f.entry fs).2 := by
  obtain ⟨fs1, hr1, hn1, hc1, hv1, hM1, hcr1⟩ := updateInfo_crash_dirs hM hn hc
  obtain ⟨fs2, hr2, hn2, hc2, hv2, hM2, _⟩ := flush_med hM1 hn1 hc1 hf
  obtain ⟨fs2', hr2', _, _, _, _, ⟨p, hw2, hd2⟩, _⟩ := DirEntryIO.writeEntry_frame fs1 f.entry hn1 hc1 hM1.blocksOK ho hname
  have e2 : fs2' = fs2 := by rw [hr2] at hr2'; exact (congrArg Prod.snd hr2').symm
  subst e2
  have hrun : DirEntryIO.flushF f.entry fs = (.ok (), fs2') := by
    unfold DirEntryIO.flushF
    rw [FBasic.bind_ok hr1, hr2]
  rw [hrun]
  refine hcr1.trans ?_
  have hvv : fs2'.vol = fs.vol := hv2.trans hv1
  refine crash_le_one (.inr ⟨_, _, hw2, hd2⟩) ?_ ?_
  · rw [← hv1]; exact dirsInv_of_med hM1
  · rw [← hvv]; exact dirsInv_of_med hM2

/-- The directories are sound for SOME record of chains (the chain of a deleted file, a grown directory, … may
have left or changed the record). -/
def DirsP (v : FatVolume) (dirs : List (Nat × Nat)) (d : Disk) : Prop :=
  ∃ G', DirsInv v d { vol := v, G := G', dirs := dirs }

theorem dirsP_of_med {v : FatVolume} {d : Disk} (hM : MedX v d files gh X) : DirsP v gh.dirs d :=
  ⟨gh.G, dirsInv_of_med (gh := { vol := v, G := gh.G, dirs := gh.dirs }) (medX_ghost hM rfl rfl)⟩

/-- **The deleting pair** (`delete_directory_entry`, then `free_cluster_chain` of the entry's cluster) on a closed
file, every crash point: the medium before; or the entry is marked and the FAT is somewhere in the freeing of the
file's own chain. -/
theorem delete_crash_dirs {fs : FS} (hM : MedX fs.vol fs.dev.disk files gh []) (hn : NoFault fs) (hc : Coherent fs)
    {dc : Nat} (hv : ValidDir gh.dirs dc) (name : Bytes) (hname : name.head? ≠ some 0xE5) {o : Slot}
    (ho : o ∈ objects (dirIdOf dc) (dirSlots fs.vol fs.dev.disk gh.G (dirIdOf dc)))
    (hod : isDirE o = false) (hsn : sName o = name) (hfree : pendOf files o = none) :
    CrashAll (DirsP fs.vol gh.dirs) fs
      ((do Fat.deleteDirectoryEntry dc name; Fat.freeClusterChain (sCluster fs.vol.fatType o) : F Unit) fs).2 := by
  obtain ⟨hh, _⟩ := validDir_id hM hv
  obtain ⟨fs1, hrun1, hd1, hv1, hn1, hc1⟩ := delete_mark hM hn hc hv name hname (mem_entries_of_objects ho) hsn
  obtain ⟨b, off, hm, hbr⟩ := CrashDelete.deleteDirectoryEntry_ok dc name fs fs1 hn hc hM.geom hrun1
  rcases mark_med hM hh ho hod hfree with ⟨hc0, hM1⟩ | ⟨A, B, tail, hGeq, hM1⟩
  · have hrun2 : freeClusterChain (sCluster fs.vol.fatType o) fs1 = (.ok (), fs1) := by
      rw [hc0]; rfl
    have hrun : (do Fat.deleteDirectoryEntry dc name; Fat.freeClusterChain (sCluster fs.vol.fatType o) : F Unit) fs = (.ok (), fs1) := by
      rw [FBasic.bind_ok hrun1, hrun2]
    rw [hrun]
    refine crash_le_one (.inr ⟨_, _, hm.wlog, hm.disk⟩) (dirsP_of_med hM) ?_
    rw [hd1]; exact dirsP_of_med hM1
  · have hmem : (sCluster fs.vol.fatType o :: tail) ∈ gh.G := by rw [hGeq]; simp
    have hch : Chain fs.vol fs.dev.disk (sCluster fs.vol.fatType o) (sCluster fs.vol.fatType o :: tail) := med_chain hM hmem
    obtain ⟨b', off', s', hm', hbr', hrun, hcr⟩ :=
      CrashDelete.deleteBody_crash dc name (sCluster fs.vol.fatType o) tail fs fs1 hn hc hM.blocksOK hM.geom hch hrun1
    have hrun' : (do Fat.deleteDirectoryEntry dc name; Fat.freeClusterChain (sCluster fs.vol.fatType o) : F Unit) fs = (.ok (), s') := hrun
    rw [hrun']
    refine hcr.mono fun d hd => ?_
    rcases hd with rfl | ⟨hblk, hfat, hoth⟩
    · exact dirsP_of_med hM
    · -- relative to the medium after the mark
      have hM1' : MedX fs.vol fs1.dev.disk files { vol := gh.vol, G := A ++ B, dirs := gh.dirs } [sCluster fs.vol.fatType o :: tail] := by
        rw [hd1]; exact hM1
      have hraw1 : ∀ y, y < endCluster fs.vol → fatRaw fs.vol fs1.dev.disk y = fatRaw fs.vol fs.dev.disk y := fun y hy => by
        unfold fatRaw
        rw [hm'.disk, FBasic.Disk.get_set_ne _ _ _ _ (fun e => hbr' (by
          rw [e]; exact (FatLens.fat_blocks_in_fat_region fs.vol hM.geom y hy).1))]
      refine ⟨A ++ B, ?_⟩
      have h0 := dirsInv_of_med (gh := { vol := fs.vol, G := A ++ B, dirs := gh.dirs }) (medX_ghost hM1' rfl rfl)
      refine h0.congr (fun h hh' hf x hx => ?_) (fun h hh' s hs => ?_)
      · have hcm := (dirChain_spec hM1' hh' hf)
        have hxr := med_inRange hM1' hcm.1 hx
        have hxn : x ∉ sCluster fs.vol.fatType o :: tail := by
          intro hin
          have := med_disjoint hM1' (cs := chainOf (A ++ B) (dirHead fs.vol h)) (cs' := sCluster fs.vol.fatType o :: tail)
            (List.mem_append_left _ hcm.1) (List.mem_append_right _ (List.mem_singleton.2 rfl)) ?_ x hx
          · exact this hin
          · intro e
            have hnd := hM1'.owns.2.1
            rw [List.flatten_append, List.nodup_append] at hnd
            have hx0 : (chainOf (A ++ B) (dirHead fs.vol h)).headD 0 ∈ (A ++ B).flatten :=
              List.mem_flatten_of_mem hcm.1 (by
                cases hcs : chainOf (A ++ B) (dirHead fs.vol h) with
                | nil => rw [hcs] at hx; cases hx
                | cons a l => exact List.mem_cons_self)
            exact hnd.2.2 _ hx0 _ (by rw [e]; simp) rfl
        rw [hfat x hxr.2 hxn, hraw1 x hxr.2]
      · by_cases hsb : s.1 = b'
        · rw [hsb, hblk, hm'.disk, FBasic.Disk.get_set_self]
        · rw [hoth _ (dirSlot_place hM1' hh' hs).1 hsb, hm'.disk, FBasic.Disk.get_set_ne _ _ _ _ (fun e => hsb e.symm)]

end

end Sdmmc.Lemmas.FaultInv
