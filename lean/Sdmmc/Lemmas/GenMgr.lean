/-
Facts used by `Props/C*GenM.lean` to compare the machine translations of the volume manager
(`Sdmmc.Gen.FunsMgr`) with the hand-written `Model/Mgr.lean`: the monad `M` applied to a state, the
searching `for` loops (`forFirst`) against `List.findIdx?` / `List.any`.
-/
import Sdmmc.Gen.FunsMgr
import Sdmmc.Lemmas.DirMgr

namespace Sdmmc.Lemmas.GenMgr

open Sdmmc Sdmmc.Model Sdmmc.Gen

section M
variable {α β : Type}

theorem bind_apply (m : M α) (f : α → M β) (s : Mgr) : (m >>= f) s =
    match m s with
    | (.ok a, s') => f a s'
    | (.err e, s') => (.err e, s')
    | (.panic msg, s') => (.panic msg, s')
    | (.diverged, s') => (.diverged, s') := rfl
theorem pure_apply (a : α) (s : Mgr) : (pure a : M α) s = (.ok a, s) := rfl
theorem get_apply (s : Mgr) : M.get s = (.ok s, s) := rfl
theorem modify_apply (f : Mgr → Mgr) (s : Mgr) : M.modify f s = (.ok (), f s) := rfl
theorem fail_apply (e : Err) (s : Mgr) : (M.fail e : M α) s = (.err e, s) := rfl
theorem panic_apply (m : String) (s : Mgr) : (M.panic m : M α) s = (.panic m, s) := rfl
theorem lift_apply (r : Res α) (s : Mgr) : M.lift r s = (r, s) := rfl
theorem attempt_apply (m : M α) (s : Mgr) : M.attempt m s = (.ok (m s).1, (m s).2) := rfl
theorem ite_apply (c : Prop) [Decidable c] (m1 m2 : M α) (s : Mgr) :
    (if c then m1 else m2) s = if c then m1 s else m2 s := by split <;> rfl
end M

/-- A searching loop that returns a function of the index of the first element satisfying `P`. -/
theorem forFirst_findIdx {α ρ : Type} (P : α → Prop) [DecidablePred P] (g : Nat → ρ) :
    ∀ (xs : List α) (i : Nat),
      FunsMgr.forFirst xs i (fun idx x => if P x then some (g idx) else none) =
        (xs.findIdx? (fun x => decide (P x))).map (fun j => g (i + j)) := by
  intro xs
  induction xs with
  | nil => intro i; rfl
  | cons x xs ih =>
    intro i
    rw [FunsMgr.forFirst, List.findIdx?_cons]
    by_cases h : P x
    · simp [h]
    · simp only [h, if_false, decide_false, Bool.false_eq_true]
      rw [ih (i + 1)]
      cases xs.findIdx? (fun x => decide (P x)) with
      | none => rfl
      | some j => simp only [Option.map]; congr 2; omega

/-- A searching loop that returns a constant when some element satisfies `P`. -/
theorem forFirst_any {α ρ : Type} (P : α → Prop) [DecidablePred P] (c : ρ) :
    ∀ (xs : List α) (i : Nat),
      FunsMgr.forFirst xs i (fun _ x => if P x then some c else none) =
        if xs.any (fun x => decide (P x)) then some c else none := by
  intro xs
  induction xs with
  | nil => intro i; rfl
  | cons x xs ih =>
    intro i
    rw [FunsMgr.forFirst]
    by_cases h : P x
    · simp [h]
    · simp only [h, if_false, List.any_cons, decide_false, Bool.false_or]
      exact ih (i + 1)

/-! ### Computations that leave the `RefCell` flag alone -/

def KeepsLock {α : Type} (m : M α) : Prop := ∀ s, (m s).2.locked = s.locked

namespace KeepsLock
variable {α β : Type}
theorem pure (a : α) : KeepsLock (Pure.pure a : M α) := fun _ => rfl
theorem get : KeepsLock M.get := fun _ => rfl
theorem fail (e : Err) : KeepsLock (M.fail e : M α) := fun _ => rfl
theorem panic (m : String) : KeepsLock (M.panic m : M α) := fun _ => rfl
theorem lift (r : Res α) : KeepsLock (M.lift r) := fun _ => rfl
theorem modify (f : Mgr → Mgr) (h : ∀ s, (f s).locked = s.locked) : KeepsLock (M.modify f) := fun s => h s
theorem bind {m : M α} {f : α → M β} (hm : KeepsLock m) (hf : ∀ a, KeepsLock (f a)) : KeepsLock (m >>= f) := by
  intro s
  rw [bind_apply]
  have h := hm s
  rcases hms : m s with ⟨r, s1⟩
  rw [hms] at h
  simp only at h
  cases r <;> simp only []
  · rw [hf _ s1, h]
  all_goals exact h
theorem ite (c : Prop) [Decidable c] {m1 m2 : M α} (h1 : KeepsLock m1) (h2 : KeepsLock m2) :
    KeepsLock (if c then m1 else m2) := by
  split
  · exact h1
  · exact h2
theorem withVol (i : Nat) (f : F α) : KeepsLock (Model.withVol i f) := by
  intro s
  unfold Model.withVol
  split <;> rfl
theorem attempt {m : M α} (h : KeepsLock m) : KeepsLock (M.attempt m) := fun s => h s
end KeepsLock

theorem getFileById_keeps (file : Nat) : KeepsLock (getFileById file) := by
  intro s; unfold getFileById; split <;> rfl
theorem getVolumeById_keeps (raw : Nat) : KeepsLock (getVolumeById raw) := by
  intro s; unfold getVolumeById; split <;> rfl
theorem getDirById_keeps (raw : Nat) : KeepsLock (getDirById raw) := by
  intro s; unfold getDirById; split <;> rfl
theorem getFile_keeps (i : Nat) : KeepsLock (getFile i) := by
  intro s; unfold getFile; split <;> rfl
theorem getDir_keeps (i : Nat) : KeepsLock (getDir i) := by
  intro s; unfold getDir; split <;> rfl
theorem getVolInfo_keeps (i : Nat) : KeepsLock (getVolInfo i) := by
  intro s; unfold getVolInfo; split <;> rfl

theorem flushFile_keeps (file : Nat) : KeepsLock (flushFile file) := by
  unfold flushFile
  refine KeepsLock.bind (getFileById_keeps _) fun i => ?_
  refine KeepsLock.bind (getFile_keeps _) fun f => ?_
  refine KeepsLock.ite _ ?_ (KeepsLock.pure _)
  refine KeepsLock.bind (getVolumeById_keeps _) fun vi => ?_
  refine KeepsLock.bind (KeepsLock.withVol _ _) fun _ => ?_
  exact KeepsLock.ite _ (KeepsLock.panic _) (KeepsLock.withVol _ _)

end Sdmmc.Lemmas.GenMgr
