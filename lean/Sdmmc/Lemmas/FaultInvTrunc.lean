/-
C11 under the invariant, part 9 (engine, fault-free): the two engine calls of an opening that truncates
(`truncate_cluster_chain`, then `write_entry_to_disk` of the emptied entry) at every crash point (`truncOpen_crash`),
and the medium a created file's entry leaves (`create_final_dirs`).
-/
import Sdmmc.Lemmas.FaultInvCreate
import Sdmmc.Lemmas.VolEng7
import Sdmmc.Lemmas.VolEng6

namespace Sdmmc.Lemmas.FaultInv
open Sdmmc.Model Sdmmc.Model.Fat Sdmmc.Spec.Volume Sdmmc.Lemmas.VolBase Sdmmc.Lemmas.VolTree
open Sdmmc.Spec hiding NoFault Coherent
open Sdmmc.Lemmas.VolDisk Sdmmc.Lemmas.VolMed Sdmmc.Lemmas.VolApi Sdmmc.Lemmas.VolEng
open Sdmmc.Lemmas.FBasic (NoFault Coherent)
open Sdmmc.Lemmas.CrashBase Sdmmc.Lemmas.Retry Sdmmc.Lemmas.FaultPre

section
variable {files : List FileInfo} {gh : Ghost}

/-- The chain of a closed file shares no cluster with a directory's chain. -/
theorem dir_apart_file {v : FatVolume} {d : Disk} (hM : MedX v d files gh []) {h : Nat} (hh : h ∈ dirIds gh.dirs) {o : Slot}
    (ho : o ∈ objects h (dirSlots v d gh.G h)) (hod : isDirE o = false) (hfree : pendOf files o = none)
    (hc0 : sCluster v.fatType o ≠ 0) {x : Nat} (hx : x ∈ dirIds gh.dirs) (hf : ¬ isFixedRoot v x) :
    ∀ y, y ∈ chainOf gh.G (dirHead v x) → y ∉ chainOf gh.G (sCluster v.fatType o) := by
  have hG := med_heads hM
  rcases closed_object_chain hM hh ho hod hfree with ⟨h0, _, _⟩ | ⟨_, _, _, hmem⟩
  · exact absurd h0 hc0
  · obtain ⟨hm, hhd⟩ := dirChain_spec hM hx hf
    have hne := dirHead_ne_fileRef hM hh ho hod (by rw [effCluster_of_none hfree]; exact hc0) hx hf
    rw [effCluster_of_none hfree] at hne
    refine med_disjoint hM (List.mem_append_left _ hm) (List.mem_append_left _ hmem) ?_
    rw [headD_of_head? hhd]
    have hhd2 := (chainOf_spec hG (fileRef_mem_heads hM.tree hh ho hod (by rw [effCluster_of_none hfree]; exact hc0))).2
    rw [effCluster_of_none hfree] at hhd2
    rw [headD_of_head? hhd2]
    exact hne

/-- **An opening that truncates**: both engine calls, every crash point. -/
theorem truncOpen_crash {fs : FS} (hM : MedX fs.vol fs.dev.disk files gh []) (hn : NoFault fs) (hc : Coherent fs) {h : Nat}
    (hh : h ∈ dirIds gh.dirs) {o : Slot} (ho : o ∈ objects h (dirSlots fs.vol fs.dev.disk gh.G h)) (hod : isDirE o = false)
    (hfree : pendOf files o = none) (e : DirEntry) (hblk : e.entryBlock = o.1) (hoff : e.entryOffset = o.2.1)
    (hnm : e.name = sName o) (hat : e.attributes = sAttr o) (hcl : e.cluster = sCluster fs.vol.fatType o) (hsz : e.size = 0) :
    ∃ fs1 fs2, truncateClusterChain e.cluster fs = (.ok (), fs1) ∧ writeEntryToDisk e fs1 = (.ok (), fs2) ∧
      NoFault fs1 ∧ SameGeom fs.vol fs1.vol ∧
      CrashAll (DirsP fs.vol gh.dirs) fs fs1 ∧ CrashAll (DirsP fs.vol gh.dirs) fs1 fs2 := by
  obtain ⟨fs1, fs2, hr1, hr2, hn2, hc2, hsg2, gh', hgv, hgd, hM2, _⟩ :=
    truncate_med hM hn hc hh ho hod hfree e hblk hoff hnm hat hcl hsz
  have hco := closed_object_chain hM hh ho hod hfree
  obtain ⟨fs1', G', hrun1, hn1, hc1, hb1, hsg1, _, _, _, _, _, _⟩ :=
    truncate_fat hM hn hc (c := sCluster fs.vol.fatType o) (by
      rcases hco with ⟨h1, _, _⟩ | ⟨_, _, h3, h4⟩
      · exact .inl h1
      · exact .inr ⟨h4, h3⟩)
  rw [← hcl, hr1] at hrun1
  have e1 : fs1' = fs1 := (congrArg Prod.snd hrun1).symm
  subst e1
  have hmem : o ∈ dirSlots fs.vol fs.dev.disk gh.G h := mem_of_mem_objects ho
  have ho32 : e.entryOffset + 32 ≤ 512 := by
    obtain ⟨i, hi, he⟩ := mem_dirSlots_offset hmem
    rw [hoff, he]; omega
  have hname : e.name.length = 11 := by
    rw [hnm]; unfold sName; rw [List.length_take, mem_dirSlots_length hM.blocksOK hmem]; rfl
  obtain ⟨fs2', hr2', _, _, _, _, ⟨p, hw2, hd2⟩, _⟩ := DirEntryIO.writeEntry_frame fs1' e hn1 hc1 hb1 ho32 hname
  have e2 : fs2' = fs2 := by rw [hr2] at hr2'; exact (congrArg Prod.snd hr2').symm
  subst e2
  -- the crash points of the truncation
  have hcr1 : CrashAll (DirsP fs.vol gh.dirs) fs fs1' := by
    rcases hco with ⟨h0, _, _⟩ | ⟨hc0, _, hch, hmemG⟩
    · have : truncateClusterChain e.cluster fs = (.ok (), fs) := by
        rw [hcl, h0]; unfold truncateClusterChain; rw [if_pos (by decide)]; rfl
      rw [hr1] at this
      have e1 : fs1' = fs := congrArg Prod.snd this
      rw [e1]
      exact CrashAll.same rfl rfl (dirsP_of_med hM)
    · obtain ⟨tail, htail⟩ : ∃ tail, chainOf gh.G (sCluster fs.vol.fatType o) = sCluster fs.vol.fatType o :: tail := by
        have hhd := ChainL.chain_head? hch
        cases hcs : chainOf gh.G (sCluster fs.vol.fatType o) with
        | nil => rw [hcs] at hhd; cases hhd
        | cons a l => rw [hcs] at hhd; cases hhd; exact ⟨l, rfl⟩
      rw [htail] at hch
      obtain ⟨s', hrun', hcr⟩ := CrashFat.truncate_crash fs (sCluster fs.vol.fatType o) (sCluster fs.vol.fatType o) [] tail hn hc
        hM.blocksOK hM.geom hch
      rw [← hcl, hr1] at hrun'
      have e1 : s' = fs1' := (congrArg Prod.snd hrun').symm
      subst e1
      refine hcr.mono fun d hd => ?_
      have hapart : ∀ x, x ∈ dirIds gh.dirs → ¬ isFixedRoot fs.vol x → ∀ y, y ∈ chainOf gh.G (dirHead fs.vol x) →
          y ∉ sCluster fs.vol.fatType o :: tail := by
        intro x hx hf y hy
        rw [← htail]
        exact dir_apart_file hM hh ho hod hfree hc0 hx hf y hy
      rcases hd.1 with hview | ⟨j, _, hst⟩
      · exact ⟨gh.G, by
          have := dirsInv_view hM hview
          exact ⟨this.geom, this.mem, this.chain, this.cleanTail, this.names, this.dots⟩⟩
      · refine ⟨gh.G, ?_⟩
        have := dirsInv_within hM hst.within (fun x hx hf y hy hm => by
            apply hapart x hx hf y hy
            rcases List.mem_append.1 hm with hm | hm
            · rw [List.mem_singleton.1 hm]; exact List.mem_cons_self
            · exact List.mem_cons_of_mem _ (List.mem_of_mem_take hm)) (fun _ _ _ _ hd => hd)
        exact ⟨this.geom, this.mem, this.chain, this.cleanTail, this.names, this.dots⟩
  refine ⟨fs1', fs2', hr1, hr2, hn1, hsg1, hcr1, ?_⟩
  refine crash_le_one (.inr ⟨_, _, hw2, hd2⟩) hcr1.final ?_
  have : DirsP fs2'.vol gh.dirs fs2'.dev.disk := by
    have := dirsP_of_med hM2
    rw [hgd] at this
    exact this
  exact this.sameGeom (sameGeom_symm hsg2)

/-- The medium the entry of a newly created file leaves. -/
theorem create_final_dirs {fs : FS} (hM : MedX fs.vol fs.dev.disk files gh []) (hn : NoFault fs) (hc : Coherent fs) {dc : Nat}
    (hv : ValidDir gh.dirs dc) (name : Bytes) (hlen : name.length = 11) (h0 : byteAt name 0 ≠ 0) (hE5 : byteAt name 0 ≠ 0xE5)
    (hfresh : name ∉ (entries (dirSlots fs.vol fs.dev.disk gh.G (dirIdOf dc))).map sName) (now : Timestamp) :
    ∀ e fs', writeNewDirectoryEntry dc name 0 0 now fs = (.ok e, fs') → RobX fs.vol gh.dirs [] [] fs'.dev.disk := by
  intro e fs' hrun
  obtain ⟨r, fs'', hrun', _, _, hcase⟩ := create_file_med hM hn hc hv name hlen h0 hE5 hfresh now
  rw [hrun] at hrun'
  obtain ⟨hr, hfs⟩ := Prod.mk.inj hrun'
  subst hfs
  rcases hcase with ⟨he, _, _⟩ | ⟨e', gh', _, hgv, hgd, hsg, hM', _⟩
  · rw [← hr] at he; cases he
  · have : RobX fs'.vol gh.dirs [] [] fs'.dev.disk := by
      have := robX_of_med hM' (T := []) (fun _ h => by cases h)
      rw [hgd] at this
      exact this
    exact this.sameGeom (sameGeom_symm hsg)

end

end Sdmmc.Lemmas.FaultInv
