/-
Volume invariant (C03), layer 3 (API): `close_file`.  The open-file table is a `Vec` with
`swap_remove`: the invariant does not depend on the order of the table (`tree_files_perm`).
-/
import Sdmmc.Lemmas.VolApi

namespace Sdmmc.Lemmas.VolApi
open Sdmmc.Model Sdmmc.Model.Fat Sdmmc.Spec.Volume Sdmmc.Lemmas.VolBase Sdmmc.Lemmas.VolTree
open Sdmmc.Spec hiding NoFault Coherent
open Sdmmc.Lemmas.VolDisk Sdmmc.Lemmas.VolMed Sdmmc.Lemmas.VolEng
open Sdmmc.Lemmas.FBasic (NoFault Coherent)
open Sdmmc.Lemmas.MHoare

/-! ### The order of the open-file table does not matter -/

theorem pendOf_perm {files files' : List FileInfo} (hnd : (files.map fkey).Nodup) (hp : files.Perm files') (s : Slot) :
    pendOf files' s = pendOf files s := by
  have hnd' : (files'.map fkey).Nodup := ((hp.map fkey).nodup_iff).1 hnd
  cases h : pendOf files s with
  | none =>
    rw [pendOf_none_iff] at h ⊢
    intro g hg; exact h g (hp.symm.subset hg)
  | some g =>
    rw [pendOf_some_iff hnd] at h
    rw [pendOf_some_iff hnd']
    exact ⟨hp.subset h.1, h.2⟩

theorem tree_files_perm {ft : FatType} {cb : Nat} {root : List Nat} {G : List (List Nat)} {dirs : List (Nat × Nat)}
    {slots : Nat → List Slot} {files files' : List FileInfo} (hT : TreeOK ft cb root G dirs slots files)
    (hp : files.Perm files') : TreeOK ft cb root G dirs slots files' := by
  have hpe := pendOf_perm hT.filesDistinct hp
  have hec : ∀ o, effCluster ft files' o = effCluster ft files o := fun o => by unfold effCluster; rw [hpe]
  have hes : ∀ o, effSize files' o = effSize files o := fun o => by unfold effSize; rw [hpe]
  refine
    { cleanTail := hT.cleanTail, names := hT.names, order := hT.order, dots := hT.dots, subdirs := hT.subdirs,
      dirRefs := hT.dirRefs, allRefs := ?_, sizes := ?_, fileSlots := fun f hf => hT.fileSlots f (hp.symm.subset hf),
      fileAttrs := fun f hf => hT.fileAttrs f (hp.symm.subset hf),
      filesDistinct := ((hp.map fkey).nodup_iff).1 hT.filesDistinct }
  · have : ((dirIds dirs).flatMap fun h => fileRefs ft files' (objects h (slots h))) =
        (dirIds dirs).flatMap fun h => fileRefs ft files (objects h (slots h)) :=
      List.flatMap_congr fun x _ => fileRefs_congr ft files files' _ fun o _ _ => hec o
    rw [this]; exact hT.allRefs
  · intro h hh o ho hd
    rw [hec, hes]; exact hT.sizes h hh o ho hd

theorem swapRemove_perm {α : Type} (l : List α) (i : Nat) (x : α) (hi : l[i]? = some x) :
    (swapRemove l i).Perm (l.eraseIdx i) := by
  obtain ⟨hlt, _⟩ := List.getElem?_eq_some_iff.1 hi
  have hne : l ≠ [] := by intro e; rw [e] at hlt; cases hlt
  obtain ⟨init, last, rfl⟩ : ∃ init last, l = init ++ [last] := by
    rcases List.eq_nil_or_concat l with h | ⟨init, last, h⟩
    · exact absurd h hne
    · exact ⟨init, last, by rw [h, List.concat_eq_append]⟩
  unfold swapRemove
  rw [List.getLast?_concat, hi]
  simp only [List.length_append, List.length_singleton, Nat.add_sub_cancel]
  rw [List.length_append, List.length_singleton] at hlt
  by_cases hil : i = init.length
  · rw [if_pos hil, hil, List.dropLast_concat, List.eraseIdx_append_of_length_le (Nat.le_refl _)]
    simp
  · rw [if_neg hil]
    have hi' : i < init.length := by omega
    rw [List.set_append_left _ _ hi', List.dropLast_concat, List.eraseIdx_append_of_lt_length hi']
    have h1 : (init.set i last).Perm (last :: init.eraseIdx i) := by
      rw [List.set_eq_take_append_cons_drop, if_pos hi', List.eraseIdx_eq_take_drop_succ]
      exact List.perm_middle
    exact h1.trans (List.perm_append_singleton _ _).symm

/-- Replacing the open-file table by a sound one. -/
theorem volInv_files {s : Mgr} {gh : Ghost} (hI : VolInv s gh) {files' : List FileInfo}
    (hM : MedInv gh.vol s.dev.disk files' gh) (hsub : ∀ f, f ∈ files' → f ∈ s.files) :
    VolInv { s with files := files' } gh :=
  ⟨hI.noFault, hI.coherent, hI.unlocked, hI.maxVols, hI.vols, hM, fun f hf => hI.fileVols f (hsub f hf), hI.openDirs⟩

/-- **`close_file`** keeps the invariant: an unknown handle changes nothing; a valid one is flushed and its
record removed. -/
theorem close_api {s : Mgr} {gh : Ghost} (hI : VolInv s gh) (file : Nat) :
    ∃ gh', VolInv (closeFile file s).2 gh' ∧ SameGeom gh.vol gh'.vol := by
  unfold closeFile
  rw [attempt_bind]
  cases hidx : s.files.findIdx? (·.rawFile = file) with
  | none =>
    have hfl : flushFile file s = (.err .BadHandle, s) := by
      unfold flushFile
      rw [bind_err (getFileById_bad hidx)]
    rw [hfl]
    simp only
    rw [bind_err (getFileById_bad hidx)]
    exact ⟨gh, hI, SameGeom.refl _⟩
  | some i =>
    obtain ⟨f, hf, _⟩ := findIdx?_some_get hidx
    obtain ⟨s1, hfl, hfiles, hdirs, hnid, gh1, hI1, hsg1, hD1, hG1, hsync⟩ := flush_api hI hidx hf
    rw [hfl]
    simp only
    have hidx1 : s1.files.findIdx? (·.rawFile = file) = some i := by rw [hfiles]; exact hidx
    rw [bind_ok (getFileById_ok hidx1), modify_bind]
    refine ⟨gh1, ?_, hsg1⟩
    show VolInv { s1 with files := swapRemove s1.files i } gh1
    have hf1 : s1.files[i]? = some f := by rw [hfiles]; exact hf
    have hM1 := medX_of_med hI1.med
    have htc := tree_close hI1.med.tree (med_heads hM1) (objPos_nodup hM1) hf1 hsync
    have hp := swapRemove_perm s1.files i f hf1
    have hsub : ∀ g, g ∈ swapRemove s1.files i → g ∈ s1.files :=
      fun g hg => (List.eraseIdx_sublist s1.files i).subset (hp.subset hg)
    apply volInv_files hI1 _ hsub
    exact ⟨hI1.med.blocksOK, hI1.med.geom, hI1.med.hint, hI1.med.owns, tree_files_perm htc hp.symm,
      fun g hg => hI1.med.fileOK g (hsub g hg)⟩

end Sdmmc.Lemmas.VolApi
