/-
Write side of C01, part 6 — histories of data-plane calls (`read`, `write`, the seeks, `length`,
`offset`, `eof`, any handles) on a manager with one open volume refine the abstract data plane of
`Sdmmc.Spec.DataPlane` and preserve its invariant `DataInv`.
-/
import Sdmmc.Lemmas.WriteRefinesFrame

namespace Sdmmc.Lemmas.WriteRefines
open Sdmmc.Model Sdmmc.Model.Fat Sdmmc.Spec Sdmmc.Spec.DataPlane
open Sdmmc.Lemmas.FBasic hiding NoFault Coherent
open Sdmmc.Lemmas.FatOps hiding BlocksOK Mirror HintOK
open Sdmmc.Lemmas.ChainL Sdmmc.Lemmas.ForestBase Sdmmc.Lemmas.ForestOwns Sdmmc.Lemmas.ReadRefines

/-! ### The abstraction, slot by slot -/

theorem getElem?_absOf_some (s : Mgr) (chains : List (List Nat)) (j : Nat) (f : FileInfo) (cs : List Nat)
    (hf : s.files[j]? = some f) (hc : chains[j]? = some cs) :
    (absOf s chains)[j]? = some { handle := f.rawFile, readOnly := decide (f.mode = .ReadOnly),
                                  file := absFile (theVol s) s.dev.disk f cs } := by
  unfold absOf
  rw [List.getElem?_zipWith, hf, hc]

theorem getElem?_absOf_none (s : Mgr) (chains : List (List Nat)) (j : Nat)
    (h : s.files[j]? = none ∨ chains[j]? = none) : (absOf s chains)[j]? = none := by
  unfold absOf
  rw [List.getElem?_zipWith]
  rcases h with h | h
  · rw [h]
  · rw [h]; cases s.files[j]? <;> rfl

theorem length_absOf (s : Mgr) (chains : List (List Nat)) (hlen : chains.length = s.files.length) :
    (absOf s chains).length = s.files.length := by
  unfold absOf
  rw [List.length_zipWith, hlen, Nat.min_self]

theorem findIdx?_key {α β : Type} (k1 : α → Nat) (k2 : β → Nat) (h : Nat) : ∀ (l1 : List α) (l2 : List β),
    (∀ j : Nat, (l1[j]?).map k1 = (l2[j]?).map k2) →
    l1.findIdx? (fun x => decide (k1 x = h)) = l2.findIdx? (fun x => decide (k2 x = h))
  | [], [], _ => rfl
  | [], y :: l2, hk => by have := hk 0; simp at this
  | x :: l1, [], hk => by have := hk 0; simp at this
  | x :: l1, y :: l2, hk => by
    have h0 := hk 0
    simp only [List.getElem?_cons_zero, Option.map_some, Option.some.injEq] at h0
    rw [List.findIdx?_cons, List.findIdx?_cons, h0, findIdx?_key k1 k2 h l1 l2 (fun j => by simpa using hk (j + 1))]

theorem slotOf_absOf (s : Mgr) (chains : List (List Nat)) (hlen : chains.length = s.files.length) (h : Nat) :
    slotOf (absOf s chains) h = s.files.findIdx? (·.rawFile = h) := by
  unfold slotOf
  apply findIdx?_key (fun a : AFile => a.handle) (fun f : FileInfo => f.rawFile) h
  intro j
  cases hf : s.files[j]? with
  | none => rw [getElem?_absOf_none s chains j (.inl hf)]; rfl
  | some f =>
    have hj : j < chains.length := by rw [hlen]; exact (List.getElem?_eq_some_iff.1 hf).1
    rw [getElem?_absOf_some s chains j f _ hf (List.getElem?_eq_getElem hj)]
    rfl

/-- Updating slot `i` of the file table (and its chain) updates slot `i` of the abstract state,
provided the byte-array views of the other files are the same. -/
theorem absOf_update (s s' : Mgr) (chains : List (List Nat)) (i : Nat) (f f' : FileInfo) (cs cs' : List Nat)
    (hlen : chains.length = s.files.length) (hf : s.files[i]? = some f) (hc : chains[i]? = some cs)
    (hfiles : s'.files = s.files.set i f') (hraw : f'.rawFile = f.rawFile) (hmode : f'.mode = f.mode)
    (hothers : ∀ j g X, j ≠ i → s.files[j]? = some g → chains[j]? = some X →
      absFile (theVol s') s'.dev.disk g X = absFile (theVol s) s.dev.disk g X) :
    absOf s' (chains.set i cs') = (absOf s chains).set i
      { handle := f.rawFile, readOnly := decide (f.mode = .ReadOnly), file := absFile (theVol s') s'.dev.disk f' cs' } := by
  have hi : i < s.files.length := (List.getElem?_eq_some_iff.1 hf).1
  have hic : i < chains.length := (List.getElem?_eq_some_iff.1 hc).1
  apply List.ext_getElem?
  intro j
  by_cases hj : j = i
  · subst hj
    rw [getElem?_absOf_some s' _ j f' cs' (by rw [hfiles]; exact List.getElem?_set_self hi) (List.getElem?_set_self hic),
      List.getElem?_set_self (by rw [length_absOf s chains hlen]; exact hi), hraw, hmode]
  · rw [List.getElem?_set_ne (Ne.symm hj)]
    cases hg : s.files[j]? with
    | none =>
      rw [getElem?_absOf_none s chains j (.inl hg),
        getElem?_absOf_none s' _ j (.inl (by rw [hfiles, List.getElem?_set_ne (Ne.symm hj)]; exact hg))]
    | some g =>
      cases hX : chains[j]? with
      | none =>
        rw [getElem?_absOf_none s chains j (.inr hX),
          getElem?_absOf_none s' _ j (.inr (by rw [List.getElem?_set_ne (Ne.symm hj)]; exact hX))]
      | some X =>
        rw [getElem?_absOf_some s chains j g X hg hX,
          getElem?_absOf_some s' _ j g X (by rw [hfiles, List.getElem?_set_ne (Ne.symm hj)]; exact hg)
            (by rw [List.getElem?_set_ne (Ne.symm hj)]; exact hX),
          hothers j g X hj hg hX]

/-! ### Splitting the owned chains at a slot -/

theorem filter_one (cs : List Nat) : [cs].filter (fun cs => !cs.isEmpty) = if cs = [] then [] else [cs] := by
  cases cs <;> rfl

theorem filter_split (chains rest : List (List Nat)) (i : Nat) (cs cs' : List Nat) (hc : chains[i]? = some cs) :
    (chains.set i cs').filter (fun cs => !cs.isEmpty) ++ rest =
      withChain ((chains.take i).filter (fun cs => !cs.isEmpty)) cs'
        ((chains.drop (i + 1)).filter (fun cs => !cs.isEmpty) ++ rest) := by
  unfold withChain
  rw [set_at hc cs', List.filter_append, List.filter_append, filter_one]
  simp only [List.append_assoc]

theorem filter_split_self (chains rest : List (List Nat)) (i : Nat) (cs : List Nat) (hc : chains[i]? = some cs) :
    chains.filter (fun cs => !cs.isEmpty) ++ rest =
      withChain ((chains.take i).filter (fun cs => !cs.isEmpty)) cs
        ((chains.drop (i + 1)).filter (fun cs => !cs.isEmpty) ++ rest) := by
  have := filter_split chains rest i cs cs hc
  rw [list_set_self _ _ _ hc] at this
  exact this

/-- The non-empty chain of another slot is one of the chains next to slot `i`'s. -/
theorem other_chain_mem (chains rest : List (List Nat)) (i j : Nat) (X : List Nat) (hj : j ≠ i) (hX : chains[j]? = some X)
    (hne : X ≠ []) :
    X ∈ (chains.take i).filter (fun cs => !cs.isEmpty) ++ ((chains.drop (i + 1)).filter (fun cs => !cs.isEmpty) ++ rest) := by
  have hp : (!X.isEmpty) = true := by cases X with
    | nil => exact absurd rfl hne
    | cons a t => rfl
  rcases Nat.lt_or_gt_of_ne hj with hlt | hgt
  · apply List.mem_append_left
    rw [List.mem_filter]
    exact ⟨List.mem_iff_getElem?.2 ⟨j, by rw [List.getElem?_take, if_pos hlt]; exact hX⟩, hp⟩
  · apply List.mem_append_right
    apply List.mem_append_left
    rw [List.mem_filter]
    refine ⟨List.mem_iff_getElem?.2 ⟨j - (i + 1), ?_⟩, hp⟩
    rw [List.getElem?_drop, show i + 1 + (j - (i + 1)) = j by omega]
    exact hX

/-! ### The invariant at a slot -/

theorem theVol_eq {s : Mgr} {v : VolInfo} (h : s.vols = [v]) : theVol s = v.vol := by
  unfold theVol; rw [h]; rfl

/-- What the invariant says about the slot a handle names. -/
theorem inv_slot {s : Mgr} {chains rest : List (List Nat)} (hinv : DataInv s chains rest) {h i : Nat}
    (hh : s.files.findIdx? (·.rawFile = h) = some i) :
    ∃ f cs v, s.files[i]? = some f ∧ chains[i]? = some cs ∧ s.vols = [v] ∧ theVol s = v.vol ∧
      s.vols.findIdx? (·.rawVolume = f.rawVolume) = some 0 ∧ s.vols[0]? = some v ∧
      FileOK v.vol s.dev.disk f cs ∧ (cs = [] → f.curCluster < 2) ∧ f.rawFile = h ∧
      (absOf s chains)[i]? = some { handle := f.rawFile, readOnly := decide (f.mode = .ReadOnly),
                                    file := absFile v.vol s.dev.disk f cs } ∧
      slotOf (absOf s chains) h = some i := by
  obtain ⟨f, hf, hp⟩ := MHoare.findIdx?_some_get hh
  have hi : i < chains.length := by rw [hinv.len]; exact (List.getElem?_eq_some_iff.1 hf).1
  obtain ⟨v, hv⟩ := hinv.oneVol
  have htv := theVol_eq hv
  obtain ⟨hrv, hok, hcur⟩ := hinv.files i f chains[i] hf (List.getElem?_eq_getElem hi)
  rw [htv] at hok
  rw [hv] at hrv
  refine ⟨f, chains[i], v, hf, List.getElem?_eq_getElem hi, hv, htv, ?_, by rw [hv]; rfl, hok, hcur, by simpa using hp, ?_,
    by rw [slotOf_absOf s chains hinv.len]; exact hh⟩
  · rw [hv, List.findIdx?_cons]
    have : decide (v.rawVolume = f.rawVolume) = true := by
      rw [decide_eq_true_eq]; exact hrv.symm
    rw [this]; rfl
  · rw [getElem?_absOf_some s chains i f _ hf (List.getElem?_eq_getElem hi), htv]

theorem inv_mok {s : Mgr} {chains rest : List (List Nat)} (hinv : DataInv s chains rest) : MOK s :=
  ⟨hinv.noFault, hinv.coherent, hinv.blocksOK, hinv.unlocked⟩

/-- Re-establishing the invariant after slot `i` of the file table, its chain and the volume record
changed. -/
theorem dataInv_update {s s' : Mgr} {chains rest : List (List Nat)} {i : Nat} {f f' : FileInfo} {cs cs' : List Nat}
    {v v' : VolInfo} (hinv : DataInv s chains rest) (hf : s.files[i]? = some f) (hc : chains[i]? = some cs)
    (hvols : s.vols = [v])
    (heq : s' = { s with dev := s'.dev, cache := s'.cache, files := s.files.set i f', vols := s.vols.set 0 v' })
    (hok : MOK s') (hg' : WFGeom v'.vol) (hh' : HintOK v'.vol)
    (hown' : Owns v'.vol s'.dev.disk ((chains.set i cs').filter (fun cs => !cs.isEmpty) ++ rest))
    (hvid : v'.rawVolume = v.rawVolume) (hrv : f'.rawVolume = f.rawVolume)
    (hok' : FileOK v'.vol s'.dev.disk f' cs') (hcur' : cs' = [] → f'.curCluster < 2)
    (hothers : ∀ j g X, j ≠ i → s.files[j]? = some g → chains[j]? = some X → FileOK v'.vol s'.dev.disk g X) :
    DataInv s' (chains.set i cs') rest := by
  have hfiles : s'.files = s.files.set i f' := by rw [heq]
  have hvols' : s'.vols = [v'] := by rw [heq]; show s.vols.set 0 v' = _; rw [hvols]; rfl
  have htv' : theVol s' = v'.vol := theVol_eq hvols'
  have hi : i < s.files.length := (List.getElem?_eq_some_iff.1 hf).1
  have hic : i < chains.length := (List.getElem?_eq_some_iff.1 hc).1
  refine ⟨hok.1, hok.2.1, hok.2.2.1, hok.2.2.2, ⟨v', hvols'⟩, by rw [htv']; exact hg', by rw [htv']; exact hh',
    by rw [htv']; exact hown', by rw [hfiles, List.length_set, List.length_set]; exact hinv.len, ?_⟩
  intro j g X hg hX
  rw [htv', hvols']
  rw [hfiles] at hg
  by_cases hj : j = i
  · subst hj
    rw [List.getElem?_set_self hi] at hg
    rw [List.getElem?_set_self hic] at hX
    cases hg; cases hX
    have := (hinv.files j f cs hf hc).1
    rw [hvols] at this
    exact ⟨by rw [hrv, this]; exact hvid.symm, hok', hcur'⟩
  · rw [List.getElem?_set_ne (Ne.symm hj)] at hg hX
    obtain ⟨h1, _, h3⟩ := hinv.files j g X hg hX
    rw [hvols] at h1
    exact ⟨by rw [h1]; exact hvid.symm, hothers j g X hj hg hX, h3⟩

/-! ### One call -/

/-- The call `op`, answered `r` and leaving `s'`, is allowed by the abstract data plane and keeps
the invariant (for some chains of the open files). -/
def OpOK (s : Mgr) (chains rest : List (List Nat)) (op : Op) (r : Res Payload) (s' : Mgr) : Prop :=
  ∃ chains', DataInv s' chains' rest ∧ Allowed (absOf s chains) op r (absOf s' chains')

theorem bad_handle {s : Mgr} {chains rest : List (List Nat)} (hinv : DataInv s chains rest) {h : Nat}
    (hh : s.files.findIdx? (·.rawFile = h) = none) : slotOf (absOf s chains) h = none := by
  rw [slotOf_absOf s chains hinv.len]; exact hh

theorem read_ok (s : Mgr) (chains rest : List (List Nat)) (hinv : DataInv s chains rest) (h n : Nat) :
    OpOK s chains rest (.read h n) (runOp (.read h n) s).1 (runOp (.read h n) s).2 := by
  have hrun : runOp (.read h n) s = (Model.read h n >>= fun b => pure (Payload.bytes b)) s := rfl
  cases hh : s.files.findIdx? (·.rawFile = h) with
  | none =>
    have : Model.read h n s = (.err .BadHandle, s) := by
      unfold Model.read; rw [MHoare.bind_err (MHoare.getFileById_bad hh)]
    rw [hrun, MHoare.bind_err this]
    refine ⟨chains, hinv, ?_⟩
    show match slotOf (absOf s chains) h with | none => _ | some i => _
    rw [bad_handle hinv hh]
    exact ⟨rfl, rfl⟩
  | some i =>
    obtain ⟨f, cs, v, hf, hc, hvols, htv, hv, hvi, hok, hcur, _, habs, hslot⟩ := inv_slot hinv hh
    have hg : WFGeom v.vol := by rw [← htv]; exact hinv.geom
    obtain ⟨s', f', hread, hd, _, heq, hf', habs', hok', hs'⟩ :=
      read_refines s h n i 0 f v cs (inv_mok hinv) hh hf hv hvi hg hok
    have hrun' : runOp (.read h n) s = (.ok (.bytes ((absFile v.vol s.dev.disk f cs).read n).1), s') := by
      rw [hrun, MHoare.bind_ok hread]; rfl
    rw [hrun']
    show OpOK s chains rest _ (.ok _) s'
    have hcur' : cs = [] → f'.curCluster < 2 := by
      intro hnil
      have hsz : f.currentOffset = f.entry.size := by
        rcases hok.chain with ⟨_, _, h3⟩ | h3
        · have := hok.pos_le; omega
        · exact absurd hnil (chain_ne_nil h3)
      have hat := read_at_eof s h n i 0 f hh hf hv hsz
      rw [hread] at hat
      have hss : s' = s := congrArg Prod.snd hat
      have : s'.files[i]? = some f' := by
        rw [heq]; exact List.getElem?_set_self (List.getElem?_eq_some_iff.1 hf).1
      rw [hss, hf] at this
      cases this
      exact hcur hnil
    have hraw : f'.rawFile = f.rawFile := by rw [hf']
    have hmode : f'.mode = f.mode := by rw [hf']
    have hrv : f'.rawVolume = f.rawVolume := by rw [hf']
    have heq' : s' = { s with dev := s'.dev, cache := s'.cache, files := s.files.set i f', vols := s.vols.set 0 v } := by
      rw [list_set_self _ _ _ hvi]; exact heq
    have hvols' : s'.vols = [v] := by rw [heq]; exact hvols
    have hinv' : DataInv s' (chains.set i cs) rest := dataInv_update hinv hf hc hvols heq' hs' hg
      (by rw [← htv]; exact hinv.hint) (by rw [list_set_self _ _ _ hc, hd, ← htv]; exact hinv.owns) rfl hrv hok' hcur'
      (fun j g X _ hg hX => by rw [hd, ← htv]; exact (hinv.files j g X hg hX).2.1)
    refine ⟨chains.set i cs, hinv', ?_⟩
    show match slotOf (absOf s chains) h with | none => _ | some i => _
    rw [hslot]
    refine ⟨_, habs, rfl, ?_⟩
    rw [absOf_update s s' chains i f f' cs cs hinv.len hf hc (by rw [heq]) hraw hmode
      (fun j g X _ _ _ => by rw [hd, theVol_eq hvols', htv])]
    rw [theVol_eq hvols', habs']

/-- The three seeks share their shape: the new record differs in the offset only. -/
theorem seek_ok_aux (s : Mgr) (chains rest : List (List Nat)) (hinv : DataInv s chains rest) (i p : Nat)
    (f : FileInfo) (cs : List Nat) (v : VolInfo) (hf : s.files[i]? = some f) (hc : chains[i]? = some cs)
    (hvols : s.vols = [v]) (hvi : s.vols[0]? = some v) (htv : theVol s = v.vol)
    (hok : FileOK v.vol s.dev.disk f cs) (hcur : cs = [] → f.curCluster < 2) (hp : p ≤ f.entry.size) :
    DataInv { s with files := s.files.set i { f with currentOffset := p } } (chains.set i cs) rest ∧
    absOf { s with files := s.files.set i { f with currentOffset := p } } (chains.set i cs) =
      (absOf s chains).set i { handle := f.rawFile, readOnly := decide (f.mode = .ReadOnly),
                               file := { (absFile v.vol s.dev.disk f cs) with pos := p } } := by
  constructor
  · refine dataInv_update (v := v) (v' := v) (f' := { f with currentOffset := p }) hinv hf hc hvols ?_
      (show MOK s from inv_mok hinv) (by rw [← htv]; exact hinv.geom)
      (by rw [← htv]; exact hinv.hint) (by rw [list_set_self _ _ _ hc, ← htv]; exact hinv.owns) rfl rfl
      ⟨hok.chain, hok.size_fits, hp, hok.cursor⟩ hcur
      (fun j g X _ hg hX => by rw [← htv]; exact (hinv.files j g X hg hX).2.1)
    show _ = ({ s with files := s.files.set i { f with currentOffset := p }, vols := s.vols.set 0 v } : Mgr)
    rw [list_set_self _ _ _ hvi]
  · rw [absOf_update s { s with files := s.files.set i { f with currentOffset := p } } chains i f
      { f with currentOffset := p } cs cs hinv.len hf hc rfl rfl rfl (fun j g X _ _ _ => rfl)]
    have : theVol ({ s with files := s.files.set i { f with currentOffset := p } } : Mgr) = v.vol := htv
    rw [this]
    rfl

theorem absFile_length {v : FatVolume} {d : Disk} {f : FileInfo} {cs : List Nat} (hb : BlocksOK d) (hok : FileOK v d f cs) :
    (absFile v d f cs).bytes.length = f.entry.size := fileContent_length v d cs _ hb hok.size_fits

theorem seekStart_ok (s : Mgr) (chains rest : List (List Nat)) (hinv : DataInv s chains rest) (h p : Nat) :
    OpOK s chains rest (.seekStart h p) (runOp (.seekStart h p) s).1 (runOp (.seekStart h p) s).2 := by
  have hrun : runOp (.seekStart h p) s = (fileSeekFromStart h p >>= fun _ => pure Payload.unit) s := rfl
  cases hh : s.files.findIdx? (·.rawFile = h) with
  | none =>
    have : fileSeekFromStart h p s = (.err .BadHandle, s) := by
      unfold fileSeekFromStart; rw [MHoare.bind_err (MHoare.getFileById_bad hh)]
    rw [hrun, MHoare.bind_err this]
    refine ⟨chains, hinv, ?_⟩
    show match slotOf (absOf s chains) h with | none => _ | some i => _
    rw [bad_handle hinv hh]
    exact ⟨rfl, rfl⟩
  | some i =>
    obtain ⟨f, cs, v, hf, hc, hvols, htv, hv, hvi, hok, hcur, _, habs, hslot⟩ := inv_slot hinv hh
    have hspec := Files.file_seek_start_spec h p i f s (MHoare.getFileById_ok hh) (MHoare.getFile_ok hf)
    have hlen := absFile_length hinv.blocksOK hok
    by_cases hp : p ≤ f.entry.size
    · rw [if_pos hp] at hspec
      rw [hrun, MHoare.bind_ok hspec]
      obtain ⟨hinv', habs'⟩ := seek_ok_aux s chains rest hinv i p f cs v hf hc hvols hvi htv hok hcur hp
      refine ⟨chains.set i cs, hinv', ?_⟩
      show match slotOf (absOf s chains) h with | none => _ | some i => _
      rw [hslot]
      refine ⟨_, habs, ?_⟩
      show (if p ≤ (absFile v.vol s.dev.disk f cs).bytes.length then _ else _)
      rw [if_pos (by rw [hlen]; exact hp)]
      exact ⟨rfl, habs'⟩
    · rw [if_neg hp] at hspec
      rw [hrun, MHoare.bind_err hspec]
      refine ⟨chains, hinv, ?_⟩
      show match slotOf (absOf s chains) h with | none => _ | some i => _
      rw [hslot]
      refine ⟨_, habs, ?_⟩
      show (if p ≤ (absFile v.vol s.dev.disk f cs).bytes.length then _ else _)
      rw [if_neg (by rw [hlen]; exact hp)]
      exact ⟨rfl, rfl⟩

theorem seekEnd_ok (s : Mgr) (chains rest : List (List Nat)) (hinv : DataInv s chains rest) (h p : Nat) :
    OpOK s chains rest (.seekEnd h p) (runOp (.seekEnd h p) s).1 (runOp (.seekEnd h p) s).2 := by
  have hrun : runOp (.seekEnd h p) s = (fileSeekFromEnd h p >>= fun _ => pure Payload.unit) s := rfl
  cases hh : s.files.findIdx? (·.rawFile = h) with
  | none =>
    have : fileSeekFromEnd h p s = (.err .BadHandle, s) := by
      unfold fileSeekFromEnd; rw [MHoare.bind_err (MHoare.getFileById_bad hh)]
    rw [hrun, MHoare.bind_err this]
    refine ⟨chains, hinv, ?_⟩
    show match slotOf (absOf s chains) h with | none => _ | some i => _
    rw [bad_handle hinv hh]
    exact ⟨rfl, rfl⟩
  | some i =>
    obtain ⟨f, cs, v, hf, hc, hvols, htv, hv, hvi, hok, hcur, _, habs, hslot⟩ := inv_slot hinv hh
    have hspec := Files.file_seek_end_spec h p i f s (MHoare.getFileById_ok hh) (MHoare.getFile_ok hf)
    have hlen := absFile_length hinv.blocksOK hok
    by_cases hp : p ≤ f.entry.size
    · rw [if_pos hp] at hspec
      rw [hrun, MHoare.bind_ok hspec]
      obtain ⟨hinv', habs'⟩ := seek_ok_aux s chains rest hinv i (f.entry.size - p) f cs v hf hc hvols hvi htv hok hcur (by omega)
      refine ⟨chains.set i cs, hinv', ?_⟩
      show match slotOf (absOf s chains) h with | none => _ | some i => _
      rw [hslot]
      refine ⟨_, habs, ?_⟩
      show (if p ≤ (absFile v.vol s.dev.disk f cs).bytes.length then _ else _)
      rw [if_pos (by rw [hlen]; exact hp)]
      refine ⟨rfl, habs'.trans ?_⟩
      show List.set _ i _ = List.set _ i ({ handle := _, readOnly := _, file := { (absFile v.vol s.dev.disk f cs) with
        pos := (absFile v.vol s.dev.disk f cs).bytes.length - p } } : AFile)
      rw [hlen]
    · rw [if_neg hp] at hspec
      rw [hrun, MHoare.bind_err hspec]
      refine ⟨chains, hinv, ?_⟩
      show match slotOf (absOf s chains) h with | none => _ | some i => _
      rw [hslot]
      refine ⟨_, habs, ?_⟩
      show (if p ≤ (absFile v.vol s.dev.disk f cs).bytes.length then _ else _)
      rw [if_neg (by rw [hlen]; exact hp)]
      exact ⟨rfl, rfl⟩

theorem seekCur_ok (s : Mgr) (chains rest : List (List Nat)) (hinv : DataInv s chains rest) (h : Nat) (d : Int) :
    OpOK s chains rest (.seekCur h d) (runOp (.seekCur h d) s).1 (runOp (.seekCur h d) s).2 := by
  have hrun : runOp (.seekCur h d) s = (fileSeekFromCurrent h d >>= fun _ => pure Payload.unit) s := rfl
  cases hh : s.files.findIdx? (·.rawFile = h) with
  | none =>
    have : fileSeekFromCurrent h d s = (.err .BadHandle, s) := by
      unfold fileSeekFromCurrent; rw [MHoare.bind_err (MHoare.getFileById_bad hh)]
    rw [hrun, MHoare.bind_err this]
    refine ⟨chains, hinv, ?_⟩
    show match slotOf (absOf s chains) h with | none => _ | some i => _
    rw [bad_handle hinv hh]
    exact ⟨rfl, rfl⟩
  | some i =>
    obtain ⟨f, cs, v, hf, hc, hvols, htv, hv, hvi, hok, hcur, _, habs, hslot⟩ := inv_slot hinv hh
    have hspec := Files.file_seek_cur_spec h i d f s (MHoare.getFileById_ok hh) (MHoare.getFile_ok hf)
    have hlen := absFile_length hinv.blocksOK hok
    have hpos : (absFile v.vol s.dev.disk f cs).pos = f.currentOffset := rfl
    by_cases hp : 0 ≤ (f.currentOffset : Int) + d ∧ (f.currentOffset : Int) + d ≤ (f.entry.size : Int)
    · rw [if_pos hp] at hspec
      rw [hrun, MHoare.bind_ok hspec]
      obtain ⟨hinv', habs'⟩ := seek_ok_aux s chains rest hinv i ((f.currentOffset : Int) + d).toNat f cs v hf hc hvols hvi htv
        hok hcur (by omega)
      refine ⟨chains.set i cs, hinv', ?_⟩
      show match slotOf (absOf s chains) h with | none => _ | some i => _
      rw [hslot]
      refine ⟨_, habs, ?_⟩
      have hsk : seekCur (absFile v.vol s.dev.disk f cs) d =
          some { (absFile v.vol s.dev.disk f cs) with pos := ((f.currentOffset : Int) + d).toNat } := by
        unfold seekCur
        simp only [hpos, hlen]
        rw [if_neg (by omega)]
      show (match seekCur (absFile v.vol s.dev.disk f cs) d with | some bf => _ | none => _)
      rw [hsk]
      exact ⟨rfl, habs'⟩
    · rw [if_neg hp] at hspec
      rw [hrun, MHoare.bind_err hspec]
      refine ⟨chains, hinv, ?_⟩
      show match slotOf (absOf s chains) h with | none => _ | some i => _
      rw [hslot]
      refine ⟨_, habs, ?_⟩
      have hsk : seekCur (absFile v.vol s.dev.disk f cs) d = none := by
        unfold seekCur
        simp only [hpos, hlen]
        rw [if_pos (by omega)]
      show (match seekCur (absFile v.vol s.dev.disk f cs) d with | some bf => _ | none => _)
      rw [hsk]
      exact ⟨rfl, rfl⟩

theorem observers_ok (s : Mgr) (chains rest : List (List Nat)) (hinv : DataInv s chains rest) (h : Nat) :
    OpOK s chains rest (.length h) (runOp (.length h) s).1 (runOp (.length h) s).2 ∧
    OpOK s chains rest (.offset h) (runOp (.offset h) s).1 (runOp (.offset h) s).2 ∧
    OpOK s chains rest (.eof h) (runOp (.eof h) s).1 (runOp (.eof h) s).2 := by
  have hrun1 : runOp (.length h) s = (fileLength h >>= fun n => pure (Payload.num n)) s := rfl
  have hrun2 : runOp (.offset h) s = (fileOffset h >>= fun n => pure (Payload.num n)) s := rfl
  have hrun3 : runOp (.eof h) s = (fileEof h >>= fun b => pure (Payload.bool b)) s := rfl
  cases hh : s.files.findIdx? (·.rawFile = h) with
  | none =>
    have e1 : fileLength h s = (.err .BadHandle, s) := by
      unfold fileLength; rw [MHoare.bind_err (MHoare.getFileById_bad hh)]
    have e2 : fileOffset h s = (.err .BadHandle, s) := by
      unfold fileOffset; rw [MHoare.bind_err (MHoare.getFileById_bad hh)]
    have e3 : fileEof h s = (.err .BadHandle, s) := by
      unfold fileEof; rw [MHoare.bind_err (MHoare.getFileById_bad hh)]
    rw [hrun1, hrun2, hrun3, MHoare.bind_err e1, MHoare.bind_err e2, MHoare.bind_err e3]
    have hb := bad_handle hinv hh
    refine ⟨⟨chains, hinv, ?_⟩, ⟨chains, hinv, ?_⟩, ⟨chains, hinv, ?_⟩⟩
    all_goals
      show match slotOf (absOf s chains) h with | none => _ | some i => _
      rw [hb]
      exact ⟨rfl, rfl⟩
  | some i =>
    obtain ⟨f, cs, v, hf, hc, hvols, htv, hv, hvi, hok, hcur, _, habs, hslot⟩ := inv_slot hinv hh
    obtain ⟨o1, o2, o3⟩ := observers_refine s h i f v.vol cs hh hf hinv.blocksOK hok
    rw [hrun1, hrun2, hrun3, MHoare.bind_ok o1, MHoare.bind_ok o2, MHoare.bind_ok o3]
    refine ⟨⟨chains, hinv, ?_⟩, ⟨chains, hinv, ?_⟩, ⟨chains, hinv, ?_⟩⟩
    all_goals
      show match slotOf (absOf s chains) h with | none => _ | some i => _
      rw [hslot]
      exact ⟨_, habs, rfl, rfl⟩

theorem write_ok (s : Mgr) (chains rest : List (List Nat)) (hinv : DataInv s chains rest) (h : Nat) (data : Bytes) :
    OpOK s chains rest (.write h data) (runOp (.write h data) s).1 (runOp (.write h data) s).2 := by
  have hrun : runOp (.write h data) s = (Model.write h data >>= fun _ => pure Payload.unit) s := rfl
  cases hh : s.files.findIdx? (·.rawFile = h) with
  | none =>
    have : Model.write h data s = (.err .BadHandle, s) := by
      unfold Model.write; rw [MHoare.bind_err (MHoare.getFileById_bad hh)]
    rw [hrun, MHoare.bind_err this]
    refine ⟨chains, hinv, ?_⟩
    show match slotOf (absOf s chains) h with | none => _ | some i => _
    rw [bad_handle hinv hh]
    exact ⟨rfl, rfl⟩
  | some i =>
    obtain ⟨f, cs, v, hf, hc, hvols, htv, hv, hvi, hok, hcur, _, habs, hslot⟩ := inv_slot hinv hh
    by_cases hmode : f.mode = .ReadOnly
    · rw [hrun, MHoare.bind_err (write_readOnly s h i 0 data f hh hf hv hmode)]
      refine ⟨chains, hinv, ?_⟩
      show match slotOf (absOf s chains) h with | none => _ | some i => _
      rw [hslot]
      refine ⟨_, habs, ?_⟩
      show (if decide (f.mode = .ReadOnly) = true then _ else _)
      rw [if_pos (by rw [decide_eq_true_eq]; exact hmode)]
      exact ⟨rfl, rfl⟩
    · have hg : WFGeom v.vol := by rw [← htv]; exact hinv.geom
      have hhint : HintOK v.vol := by rw [← htv]; exact hinv.hint
      generalize hA : (chains.take i).filter (fun cs => !cs.isEmpty) = A
      generalize hB : (chains.drop (i + 1)).filter (fun cs => !cs.isEmpty) ++ rest = B
      have hown : Owns v.vol s.dev.disk (withChain A cs B) := by
        rw [← hA, ← hB, ← filter_split_self chains rest i cs hc, ← htv]; exact hinv.owns
      obtain ⟨k, r, s', f', v', cs', hw, hk, hres, heq, hvid, hsg, habs', hok', hcur', _, hown', hs', hhint', hg', _, hwf⟩ :=
        write_refines s h i 0 data f v cs A B (inv_mok hinv) hh hf hv hvi hmode hg hhint hok hcur hown
      have hothers : ∀ j g X, j ≠ i → s.files[j]? = some g → chains[j]? = some X →
          absFile v'.vol s'.dev.disk g X = absFile v.vol s.dev.disk g X ∧ FileOK v'.vol s'.dev.disk g X := by
        intro j g X hj hgj hX
        obtain ⟨_, hokg, _⟩ := hinv.files j g X hgj hX
        rw [htv] at hokg
        have hmem : X ∈ A ++ B ∨ X = [] := by
          by_cases hX0 : X = []
          · exact .inr hX0
          · exact .inl (by rw [← hA, ← hB]; exact other_chain_mem chains rest i j X hj hX hX0)
        obtain ⟨v'', hv'', _, h3, h4, _⟩ := write_other_same_volume s h i 0 data f v cs A B (inv_mok hinv) hh hf hv hvi hmode hg
          hhint hok hcur hown j hj g hgj X hmem hokg
        rw [hw] at hv'' h3 h4
        have : s'.vols[0]? = some v' := by rw [heq]; exact List.getElem?_set_self (List.getElem?_eq_some_iff.1 hvi).1
        simp only at hv''
        rw [this] at hv''
        cases hv''
        exact ⟨h3, h4⟩
      have hraw : f'.rawFile = f.rawFile := by unfold WriteFile at hwf; rw [hwf]
      have hrv : f'.rawVolume = f.rawVolume := by unfold WriteFile at hwf; rw [hwf]
      have hmode' : f'.mode = f.mode := by unfold WriteFile at hwf; rw [hwf]
      have hvols' : s'.vols = [v'] := by rw [heq]; show s.vols.set 0 v' = _; rw [hvols]; rfl
      have hinv' : DataInv s' (chains.set i cs') rest := dataInv_update hinv hf hc hvols heq hs' hg' hhint'
        (by rw [filter_split chains rest i cs cs' hc, hA, hB]; exact hown') (by rw [hvid]) hrv hok' hcur'
        (fun j g X hj hg hX => (hothers j g X hj hg hX).2)
      rw [hrun]
      have hpay : (Model.write h data >>= fun _ => pure Payload.unit) s = (r.bind fun _ => .ok Payload.unit, s') := by
        rw [MHoare.bind_def, hw]
        cases r <;> rfl
      rw [hpay]
      refine ⟨chains.set i cs', hinv', ?_⟩
      show match slotOf (absOf s chains) h with | none => _ | some i => _
      rw [hslot]
      refine ⟨_, habs, ?_⟩
      show (if decide (f.mode = .ReadOnly) = true then _ else _)
      rw [if_neg (by rw [decide_eq_true_eq]; exact hmode)]
      refine ⟨k, hk, ?_, ?_⟩
      · rw [absOf_update s s' chains i f f' cs cs' hinv.len hf hc (by rw [heq]) hraw hmode'
          (fun j g X hj hg hX => by rw [theVol_eq hvols', htv]; exact (hothers j g X hj hg hX).1)]
        rw [theVol_eq hvols', habs']
      · rcases hres with ⟨h1, h2⟩ | ⟨h1, h2, _⟩ | ⟨h1, h2, _⟩
        · subst h1; exact .inl ⟨rfl, h2⟩
        · subst h1; exact .inr (.inl ⟨rfl, h2⟩)
        · subst h1; exact .inr (.inr ⟨rfl, h2⟩)

/-! ### `step` and `run` -/

theorem dataInv_resetLogs {s : Mgr} {chains rest : List (List Nat)} (hinv : DataInv s chains rest) :
    DataInv (MHoare.resetLogs s) chains rest :=
  ⟨hinv.noFault, hinv.coherent, hinv.blocksOK, hinv.unlocked, hinv.oneVol, hinv.geom, hinv.hint, hinv.owns, hinv.len, hinv.files⟩

/-- One data-plane call through the transition function. -/
theorem data_step_refines (s : Mgr) (chains rest : List (List Nat)) (hinv : DataInv s chains rest) (op : Op)
    (hop : IsDataOp op) : OpOK s chains rest op (step s op).2.result (step s op).1 := by
  rw [MHoare.step_unlocked s op hinv.unlocked]
  have hinv0 := dataInv_resetLogs hinv
  have habs : absOf (MHoare.resetLogs s) chains = absOf s chains := rfl
  show OpOK s chains rest op (runOp op (MHoare.resetLogs s)).1 (runOp op (MHoare.resetLogs s)).2
  unfold OpOK
  rw [← habs]
  cases op with
  | read h n => exact read_ok _ chains rest hinv0 h n
  | write h data => exact write_ok _ chains rest hinv0 h data
  | seekStart h n => exact seekStart_ok _ chains rest hinv0 h n
  | seekCur h n => exact seekCur_ok _ chains rest hinv0 h n
  | seekEnd h n => exact seekEnd_ok _ chains rest hinv0 h n
  | length h => exact (observers_ok _ chains rest hinv0 h).1
  | offset h => exact (observers_ok _ chains rest hinv0 h).2.1
  | eof h => exact (observers_ok _ chains rest hinv0 h).2.2
  | _ => exact absurd hop (by simp [IsDataOp])

theorem run_cons (s : Mgr) (op : Op) (ops : List Op) :
    run s (op :: ops) = ((run (step s op).1 ops).1, (step s op).2 :: (run (step s op).1 ops).2) := rfl

/-- **Histories.**  Every history of data-plane calls, from a state satisfying the invariant,
produces answers the abstract data plane allows and ends in a state satisfying the invariant whose
abstraction is the abstract end state. -/
theorem data_history_refines (ops : List Op) : ∀ (s : Mgr) (chains rest : List (List Nat)), DataInv s chains rest →
    (∀ op, op ∈ ops → IsDataOp op) →
    ∃ chains', DataInv (run s ops).1 chains' rest ∧
      AllowedRun (absOf s chains) ops ((run s ops).2.map (·.result)) (absOf (run s ops).1 chains') := by
  induction ops with
  | nil => intro s chains rest hinv _; exact ⟨chains, hinv, rfl⟩
  | cons op ops ih =>
    intro s chains rest hinv hops
    obtain ⟨chains1, hinv1, hall1⟩ := data_step_refines s chains rest hinv op (hops op List.mem_cons_self)
    obtain ⟨chains', hinv', hall'⟩ := ih (step s op).1 chains1 rest hinv1 (fun o ho => hops o (List.mem_cons_of_mem _ ho))
    rw [run_cons]
    exact ⟨chains', hinv', _, hall1, hall'⟩

end Sdmmc.Lemmas.WriteRefines
