/-
Bridging lemmas for `Props/C12Main2.lean`, part 5: the session theorem of `MainK12Sess` in the
vocabulary of `Props/C12Session.lean`, from a card with arbitrary memory; prefixes; expansion into
single-block calls.
-/
import Sdmmc.Lemmas.MainK12Sess
import Sdmmc.Props.C12Session

namespace Sdmmc.Lemmas.MainK12
open Sdmmc.Model Sdmmc.Spec.Card Sdmmc.Model.Sd Sdmmc.Gen Sdmmc.Spec.SdSession
open Sdmmc.Props.C12 (cardBus)

/-! ### Glue: the same definitions in `Props/C12Session.lean` and `Lemmas/SdSession.lean` -/

theorem typeOfKind_eq (k : Kind) : Props.C12EndToEnd.typeOfKind k = Lemmas.SdCardSim2.typeOfKind k := by cases k <;> rfl
theorem absCall_eq (kind : Kind) (csd : List UInt8) (st : Props.C12Session.Store) (c : Call) :
    Props.C12Session.absCall kind csd st c = Lemmas.SdSession.absCall kind csd st c := by
  cases c <;> simp only [Props.C12Session.absCall, Lemmas.SdSession.absCall, typeOfKind_eq] <;> rfl
theorem absRun_eq (kind : Kind) (csd : List UInt8) (st : Props.C12Session.Store) (calls : List Call) :
    Props.C12Session.absRun kind csd st calls = Lemmas.SdSession.absRun kind csd st calls := by
  induction calls generalizing st with
  | nil => rfl
  | cons c cs ih => simp only [Props.C12Session.absRun, Lemmas.SdSession.absRun, absCall_eq, ih]
theorem addrLimit_eq (k : Kind) : Props.C12Session.addrLimit k = Lemmas.SdSession.addrLimit k := by cases k <;> rfl
theorem legal_iff (kind : Kind) (csd : List UInt8) (c : Call) :
    Props.C12Session.Legal kind csd c ↔ Lemmas.SdSession.Legal kind csd c := by
  cases c <;> simp only [Props.C12Session.Legal, Lemmas.SdSession.Legal, addrLimit_eq]
theorem isMultiRead_eq (c : Call) : Props.C12Session.isMultiRead c = Lemmas.SdSession.isMultiRead c := by cases c <;> rfl
theorem readCalls_eq (n idx : Nat) : Props.C12Session.readCalls n idx = Lemmas.SdSession.readCalls n idx := by
  induction n generalizing idx with
  | zero => rfl
  | succ n ih => simp only [Props.C12Session.readCalls, Lemmas.SdSession.readCalls, ih]
theorem writeCalls_eq (blocks : List Bytes) (idx : Nat) :
    Props.C12Session.writeCalls blocks idx = Lemmas.SdSession.writeCalls blocks idx := by
  induction blocks generalizing idx with
  | nil => rfl
  | cons b rest ih => simp only [Props.C12Session.writeCalls, Lemmas.SdSession.writeCalls, ih]
theorem expandAll_eq (calls : List Call) : Props.C12Session.expandAll calls = Lemmas.SdSession.expandAll calls := by
  unfold Props.C12Session.expandAll Lemmas.SdSession.expandAll
  congr 1
  funext c
  cases c <;> simp only [Lemmas.SdSession.expand, readCalls_eq, writeCalls_eq]

/-! ### The start: a conforming card between commands, with any memory contents -/

/-- A conforming card between commands: no partial frame, ready, no streaming read, nothing queued;
its capacity is the one its register encodes; it has recorded no violation; and every block of
its memory — whatever it holds — has 512 bytes.  (Nothing about idle / initialised / CRC mode /
busy: a freshly powered card, or one left by an earlier session.) -/
structure StartCard (c : Card) : Prop where
  cmdBuf : c.cmdBuf = []
  phase : c.phase = .ready
  streaming : c.streaming = none
  out : c.out = []
  capacity : c.capacity = capacityOfCsd c.csd
  viol : c.violations = []
  blocks : ∀ j, (getBlock c j).length = 512

/-- The session theorem from a `StartCard`, for one list of calls. -/
theorem session_from_start (s : St Card) (hS : StartCard s.bus) (hct : s.cardType = none)
    (hncr : s.bus.ncr ≤ DEFAULT_COMMAND_RETRIES) (hnac : s.bus.nac ≤ DEFAULT_READ_RETRIES)
    (hbusy : s.bus.busy ≤ DEFAULT_WRITE_RETRIES) (hpolls : s.bus.initPolls ≤ DEFAULT_COMMAND_RETRIES)
    (hgap : s.bus.stopGap ≤ 1) (calls : List Call) (hleg : ∀ c ∈ calls, LegalU s.bus.kind s.bus.csd c)
    (hbr : s.bus.busy ≤ DEFAULT_COMMAND_RETRIES ∨ MultiReadsLastU calls) :
    ∃ s', runCallsA cardBus calls s =
        ((Lemmas.SdSession.absRun s.bus.kind s.bus.csd (getBlock s.bus) calls).1.map SRes.ok, s') ∧
      (∀ j, getBlock s'.bus j = (Lemmas.SdSession.absRun s.bus.kind s.bus.csd (getBlock s.bus) calls).2 j) ∧
      s'.bus.violations = [] ∧ s'.useCrc = s.useCrc := by
  have hP : Pre s.bus.kind s.bus.csd s.bus.ncr s.bus.nac s.bus.busy s.bus.stopGap s.bus.initPolls calls
      (getBlock s.bus) s :=
    Or.inl ⟨hct, ⟨hS.cmdBuf, hS.phase, hS.streaming, hS.out, rfl, hS.capacity, rfl, rfl, rfl, rfl, rfl, rfl,
      fun _ => rfl, hS.viol⟩⟩
  obtain ⟨s', h, hP', hu⟩ := session_pre s.bus.kind s.bus.csd s.bus.ncr s.bus.nac s.bus.busy s.bus.stopGap
    s.bus.initPolls hncr hnac hbusy hpolls hgap calls (getBlock s.bus) s hS.blocks hP hleg hbr
  have hC := pre_cardOK hP'
  exact ⟨s', h, hC.mem, hC.viol, hu⟩

/-! ### Prefixes and expansion -/

theorem multiReadsLastU_take : ∀ (cs : List Call) (k : Nat), MultiReadsLastU cs → MultiReadsLastU (cs.take k)
  | _, 0, _ => by simp [MultiReadsLastU]
  | [], _ + 1, _ => by simp [MultiReadsLastU]
  | c :: cs, k + 1, h => by
    refine ⟨fun hm => ?_, multiReadsLastU_take cs k h.2⟩
    rcases h.1 hm with rfl | ⟨cs', rfl⟩
    · exact Or.inl (by simp)
    · cases k with
      | zero => exact Or.inl rfl
      | succ k => exact Or.inr ⟨cs'.take k, rfl⟩

theorem multiReadsLastU_of_none : ∀ (calls : List Call), (∀ c ∈ calls, Lemmas.SdSession.isMultiRead c = false) →
    MultiReadsLastU calls := by
  intro calls
  induction calls with
  | nil => intro _; trivial
  | cons c cs ih =>
    intro h
    refine ⟨fun hm => ?_, ih fun x hx => h x (List.mem_cons_of_mem _ hx)⟩
    rw [h c (List.mem_cons_self ..)] at hm; cases hm

theorem legalU_expandAll (kind : Kind) (csd : List UInt8) (calls : List Call) (h : ∀ c ∈ calls, LegalU kind csd c) :
    ∀ c ∈ Lemmas.SdSession.expandAll calls, LegalU kind csd c ∧ Lemmas.SdSession.isMultiRead c = false := by
  intro c hc
  simp only [Lemmas.SdSession.expandAll, List.mem_flatMap] at hc
  obtain ⟨c0, hc0, hc⟩ := hc
  rcases h c0 hc0 with rfl | hl
  · simp only [Lemmas.SdSession.expand, List.mem_singleton] at hc
    subst hc
    exact ⟨Or.inl rfl, rfl⟩
  · have := Lemmas.SdSession.legal_expandAll kind csd [c0] (by simpa using hl) c
      (by simp only [Lemmas.SdSession.expandAll, List.flatMap_cons, List.flatMap_nil, List.append_nil]; exact hc)
    exact ⟨Or.inr this.1, this.2⟩

end Sdmmc.Lemmas.MainK12
